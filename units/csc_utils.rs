// unit `csc_utils` : the count / fill helpers used to assemble block-partitioned sparse matrices (KKT assembly,
// block concatenation) (C11, C16).  "Cursor discipline": during the fill pass colptr[c] is the next free slot of column c.
use vstd::prelude::*;
verus! {
//@include prelude/float_opaque.rs
//@include prelude/std_assumed.rs
//@struct file=src/algebra/csc/core.rs name=CscMatrix
//@include units/inc/csc_colcount_specs.rs
//@struct file=src/solver/core/kktsolvers/direct/quasidef/datamaps.rs name=LDLDataMap keep=P,A,diagP,diag_full
//@struct file=src/algebra/matrix_types.rs name=Adjoint rules=R12
//@enum file=src/algebra/matrix_types.rs name=MatrixShape rules=R12 derive="PartialEq, Eq, Clone, Copy, Structural"
//@enum file=src/algebra/matrix_types.rs name=MatrixTriangle rules=R12 derive="PartialEq, Eq, Clone, Copy, Structural"

// frame helpers: which cells of the three arrays may differ
pub open spec fn colptr_same_except(a: Seq<usize>, b: Seq<usize>, lo: int, hi: int) -> bool {
    a.len() == b.len() && forall|c: int| 0 <= c < a.len() && !(lo <= c < hi) ==> a[c] == b[c]
}
// slot s is not the cursor of any column in [lo, hi)
pub open spec fn untouched(cur: Seq<usize>, lo: int, hi: int, s: int) -> bool {
    forall|c: int| lo <= c < hi ==> #[trigger] cur[c] != s
}
pub proof fn lemma_rot_index(c: int, n: int)
    requires 1 <= c < n,
    ensures (c + n - 1) % n == c - 1,
{
    vstd::arithmetic::div_mod::lemma_fundamental_div_mod_converse(c + n - 1, n, 1, c - 1);
}

impl CscMatrix<F> {
    pub open spec fn arrays_ok(&self) -> bool { self.rowval@.len() == self.nzval@.len() }

//@fn file=src/algebra/csc/utils.rs in="impl<T> CscMatrix<T>" name=colcount_colvec rules=R1
//@contract
    requires firstcol < old(self).colptr@.len(), old(self).colptr@[firstcol as int] + n <= usize::MAX,
    ensures final(self).colptr@ == old(self).colptr@.update(firstcol as int, (old(self).colptr@[firstcol as int] + n) as usize),
        final(self).rowval@ == old(self).rowval@, final(self).nzval@ == old(self).nzval@, final(self).m == old(self).m, final(self).n == old(self).n,
//@end

//@fn file=src/algebra/csc/utils.rs in="impl<T> CscMatrix<T>" name=colcount_missing_diag rules=R1,R6
//@contract
    requires
        M.colptr@.len() == M.n + 1, old(self).colptr@.len() >= M.n + initcol,
        forall|i: int| 0 <= i < M.n ==> M.colptr@[i] <= #[trigger] M.colptr@[i + 1] <= M.rowval@.len(),
        forall|c: int| 0 <= c < old(self).colptr@.len() ==> old(self).colptr@[c] < usize::MAX,
    ensures
        // one more entry in column i+initcol exactly when column i of M has no entry on the diagonal as its last entry
        final(self).colptr@.len() == old(self).colptr@.len(),
        forall|i: int| 0 <= i < M.n ==> #[trigger] final(self).colptr@[i + initcol] == old(self).colptr@[i + initcol] + (if missing_diag(*M, i) { 1int } else { 0int }),
        colptr_same_except(final(self).colptr@, old(self).colptr@, initcol as int, initcol + M.n),
        final(self).rowval@ == old(self).rowval@, final(self).nzval@ == old(self).nzval@,
//@pre
        proof { assert(self.colptr@.len() == self.colptr.len()); }
//@loop 1
        invariant
            M.colptr@.len() == M.n + 1, self.colptr@.len() == old(self).colptr@.len(), self.colptr@.len() >= M.n + initcol, self.colptr@.len() <= usize::MAX,
            forall|k: int| 0 <= k < M.n ==> M.colptr@[k] <= #[trigger] M.colptr@[k + 1] <= M.rowval@.len(),
            forall|c: int| 0 <= c < old(self).colptr@.len() ==> old(self).colptr@[c] < usize::MAX,
            forall|k: int| 0 <= k < i ==> #[trigger] self.colptr@[k + initcol] == old(self).colptr@[k + initcol] + (if missing_diag(*M, k) { 1int } else { 0int }),
            forall|k: int| i <= k < M.n ==> #[trigger] self.colptr@[k + initcol] == old(self).colptr@[k + initcol],
            colptr_same_except(self.colptr@, old(self).colptr@, initcol as int, initcol + M.n),
            self.rowval@ == old(self).rowval@, self.nzval@ == old(self).nzval@,
//@end

//@fn file=src/algebra/csc/utils.rs in="impl<T> CscMatrix<T>" name=colcount_block rules=R1,zipidx:1=i
//@contract
    requires
        shape == MatrixShape::N ==> M.colptr@.len() == M.n + 1 && old(self).colptr@.len() >= initcol + M.n
            && (forall|i: int| 0 <= i < M.n ==> M.colptr@[i] <= #[trigger] M.colptr@[i + 1])
            && (forall|i: int| 0 <= i < M.n ==> #[trigger] old(self).colptr@[initcol + i] + M.colptr@[M.n as int] <= usize::MAX),
        shape == MatrixShape::T ==> (forall|k: int| 0 <= k < M.rowval@.len() ==> initcol + #[trigger] M.rowval@[k] < old(self).colptr@.len())
            && (forall|c: int| 0 <= c < old(self).colptr@.len() ==> old(self).colptr@[c] + M.rowval@.len() <= usize::MAX),
    ensures
        final(self).m == old(self).m, final(self).n == old(self).n,
        final(self).colptr@.len() == old(self).colptr@.len(),
        final(self).rowval@ == old(self).rowval@, final(self).nzval@ == old(self).nzval@,
        // N: column initcol+i gains the number of entries of column i of M
        shape == MatrixShape::N ==> colptr_same_except(final(self).colptr@, old(self).colptr@, initcol as int, initcol + M.n)
            && forall|i: int| 0 <= i < M.n ==> #[trigger] final(self).colptr@[initcol + i] == old(self).colptr@[initcol + i] + (M.colptr@[i + 1] - M.colptr@[i]),
        // T: column initcol+r gains the number of entries of M in row r
        shape == MatrixShape::T ==> forall|c: int| 0 <= c < old(self).colptr@.len() ==>
            #[trigger] final(self).colptr@[c] == old(self).colptr@[c] + count_row(M.rowval@, c - initcol, M.rowval@.len() as int),
//@pre
        proof { assert(self.colptr@.len() == self.colptr.len()); }
//@loop 1
                    invariant
                        r14_n1 == M.rowval@.len(), self.colptr@.len() == old(self).colptr@.len(), self.colptr@.len() <= usize::MAX,
                        self.rowval@ == old(self).rowval@, self.nzval@ == old(self).nzval@,
                        forall|k: int| 0 <= k < M.rowval@.len() ==> initcol + #[trigger] M.rowval@[k] < old(self).colptr@.len(),
                        forall|c: int| 0 <= c < old(self).colptr@.len() ==> old(self).colptr@[c] + M.rowval@.len() <= usize::MAX,
                        forall|c: int| 0 <= c < old(self).colptr@.len() ==>
                            #[trigger] self.colptr@[c] == old(self).colptr@[c] + count_row(M.rowval@, c - initcol, r14_i1 as int),
//@body_start 1
                    proof {
                        let cc = initcol + M.rowval@[r14_i1 as int];
                        lemma_count_row_le(M.rowval@, cc - initcol, r14_i1 as int);
                    }
//@loop 2
                    invariant
                        M.colptr@.len() == M.n + 1, self.colptr@.len() == old(self).colptr@.len(), self.colptr@.len() >= initcol + M.n, self.colptr@.len() <= usize::MAX,
                        self.rowval@ == old(self).rowval@, self.nzval@ == old(self).nzval@,
                        forall|k: int| 0 <= k < M.n ==> M.colptr@[k] <= #[trigger] M.colptr@[k + 1],
                        forall|k: int| 0 <= k < M.n ==> #[trigger] old(self).colptr@[initcol + k] + M.colptr@[M.n as int] <= usize::MAX,
                        colptr_same_except(self.colptr@, old(self).colptr@, initcol as int, initcol + M.n),
                        forall|k: int| 0 <= k < i ==> #[trigger] self.colptr@[initcol + k] == old(self).colptr@[initcol + k] + (M.colptr@[k + 1] - M.colptr@[k]),
                        forall|k: int| i <= k < M.n ==> #[trigger] self.colptr@[initcol + k] == old(self).colptr@[initcol + k],
//@body_start 2
                    proof { lemma_mono_chain(M.colptr@, i as int + 1, M.n as int); }
//@end


//@include units/inc/csc_colcount_fns.rs
//@fn file=src/algebra/csc/utils.rs in="impl<T> CscMatrix<T>" name=count_diagonal_entries rules=R1 ret=r
//@contract
    requires self.colptr@.len() == self.n + 1,
        forall|i: int| 0 <= i < self.n ==> self.colptr@[i] <= #[trigger] self.colptr@[i + 1] <= self.rowval@.len(),
    ensures
        // Triu: columns whose last entry is on the diagonal; Tril: columns whose first entry is
        shape == MatrixTriangle::Triu ==> r == count_diag(*self, self.n as int, true),
        shape == MatrixTriangle::Tril ==> r == count_diag(*self, self.n as int, false),
//@loop 1
                    invariant self.colptr@.len() == self.n + 1, count == count_diag(*self, i as int, true), count <= i,
                        forall|k: int| 0 <= k < self.n ==> self.colptr@[k] <= #[trigger] self.colptr@[k + 1] <= self.rowval@.len(),
//@loop 2
                    invariant self.colptr@.len() == self.n + 1, count == count_diag(*self, i as int, false), count <= i,
                        forall|k: int| 0 <= k < self.n ==> self.colptr@[k] <= #[trigger] self.colptr@[k + 1] <= self.rowval@.len(),
//@end

//@fn file=src/algebra/csc/utils.rs in="impl<T> CscMatrix<T>" name=fill_diag rules=R1,R3
//@contract
    requires
        old(self).arrays_ok(), offset + blockdim <= old(self).colptr@.len(), old(diagtoKKT)@.len() >= blockdim,
        // cursor discipline: every touched column has a free slot, and the cursors of different columns differ
        forall|c: int| offset <= c < offset + blockdim ==> #[trigger] old(self).colptr@[c] < old(self).rowval@.len(),
        forall|c1: int, c2: int| offset <= c1 < c2 < offset + blockdim ==> #[trigger] old(self).colptr@[c1] != #[trigger] old(self).colptr@[c2],
    ensures
        final(self).arrays_ok(), final(self).rowval@.len() == old(self).rowval@.len(), final(diagtoKKT)@.len() == old(diagtoKKT)@.len(),
        final(self).colptr@.len() == old(self).colptr@.len(), final(self).m == old(self).m, final(self).n == old(self).n,
        colptr_same_except(final(self).colptr@, old(self).colptr@, offset as int, offset + blockdim),
        // C11: column c receives one structural zero at (c, c); its slot is recorded in the map
        forall|c: int| offset <= c < offset + blockdim ==> {
            let dest = #[trigger] old(self).colptr@[c] as int;
            &&& final(diagtoKKT)@[c - offset] == dest
            &&& final(self).colptr@[c] == dest + 1
            &&& final(self).rowval@[dest] == c
            &&& final(self).nzval@[dest] == f_zero()
        },
        // nothing else is written
        forall|s: int| 0 <= s < old(self).rowval@.len() && #[trigger] untouched(old(self).colptr@, offset as int, offset + blockdim, s)
            ==> final(self).rowval@[s] == old(self).rowval@[s] && final(self).nzval@[s] == old(self).nzval@[s],
        forall|i: int| blockdim <= i < old(diagtoKKT)@.len() ==> #[trigger] final(diagtoKKT)@[i] == old(diagtoKKT)@[i],
//@pre
        proof { assert(self.colptr@.len() == self.colptr.len()); assert(self.rowval@.len() == self.rowval.len()); }
//@body_start 1
            let ghost rv0 = self.rowval@;
            let ghost nz0 = self.nzval@;
            let ghost ic0 = i_ctr as int;
//@body_end 1
            proof {
                assert forall|s: int| 0 <= s < old(self).rowval@.len() && #[trigger] untouched(old(self).colptr@, offset as int, offset + i_ctr, s)
                    implies self.rowval@[s] == old(self).rowval@[s] && self.nzval@[s] == old(self).nzval@[s] by {
                    assert(old(self).colptr@[col as int] != s);
                    assert(untouched(old(self).colptr@, offset as int, offset + ic0, s));
                    assert(rv0[s] == old(self).rowval@[s] && nz0[s] == old(self).nzval@[s]);
                }
            }
//@iter 1
it
//@loop 1
        invariant
            i_ctr == it.index@, it.seq().len() == blockdim, i_ctr <= blockdim, col_is(it.seq(), offset as int), old(self).rowval@.len() <= usize::MAX,
            self.arrays_ok(), self.rowval@.len() == old(self).rowval@.len(), diagtoKKT@.len() == old(diagtoKKT)@.len(), diagtoKKT@.len() >= blockdim,
            self.colptr@.len() == old(self).colptr@.len(), offset + blockdim <= self.colptr@.len(),
            forall|c: int| offset <= c < offset + blockdim ==> #[trigger] old(self).colptr@[c] < old(self).rowval@.len(),
            forall|c1: int, c2: int| offset <= c1 < c2 < offset + blockdim ==> #[trigger] old(self).colptr@[c1] != #[trigger] old(self).colptr@[c2],
            colptr_same_except(self.colptr@, old(self).colptr@, offset as int, offset + blockdim),
            forall|c: int| offset + i_ctr <= c < offset + blockdim ==> #[trigger] self.colptr@[c] == old(self).colptr@[c],
            forall|c: int| offset <= c < offset + i_ctr ==> {
                let dest = #[trigger] old(self).colptr@[c] as int;
                &&& diagtoKKT@[c - offset] == dest
                &&& self.colptr@[c] == dest + 1
                &&& self.rowval@[dest] == c
                &&& self.nzval@[dest] == f_zero()
            },
            forall|s: int| 0 <= s < old(self).rowval@.len() && #[trigger] untouched(old(self).colptr@, offset as int, offset + i_ctr, s)
                ==> self.rowval@[s] == old(self).rowval@[s] && self.nzval@[s] == old(self).nzval@[s],
            forall|k: int| i_ctr <= k < old(diagtoKKT)@.len() ==> #[trigger] diagtoKKT@[k] == old(diagtoKKT)@[k],
//@end

//@fn file=src/algebra/csc/utils.rs in="impl<T> CscMatrix<T>" name=fill_colvec rules=R1,R3,zipidx:1
//@contract
    requires
        old(self).arrays_ok(), initcol < old(self).colptr@.len(),
        // cursor discipline: the column has room for the whole vector
        old(self).colptr@[initcol as int] + old(vtoKKT)@.len() <= old(self).rowval@.len(),
        initrow + old(vtoKKT)@.len() <= usize::MAX,
    ensures
        final(self).arrays_ok(), final(self).rowval@.len() == old(self).rowval@.len(), final(vtoKKT)@.len() == old(vtoKKT)@.len(),
        final(self).m == old(self).m, final(self).n == old(self).n,
        // C11: the column vector occupies rows initrow.. of column initcol, as structural zeros, slots recorded in order
        final(self).colptr@ == old(self).colptr@.update(initcol as int, (old(self).colptr@[initcol as int] + old(vtoKKT)@.len()) as usize),
        forall|i: int| 0 <= i < old(vtoKKT)@.len() ==> #[trigger] final(vtoKKT)@[i] == old(self).colptr@[initcol as int] + i,
        forall|i: int| 0 <= i < old(vtoKKT)@.len() ==> #[trigger] final(self).rowval@[old(self).colptr@[initcol as int] + i] == initrow + i,
        forall|i: int| 0 <= i < old(vtoKKT)@.len() ==> #[trigger] final(self).nzval@[old(self).colptr@[initcol as int] + i] == f_zero(),
        forall|s: int| 0 <= s < old(self).rowval@.len() && !(old(self).colptr@[initcol as int] <= s < old(self).colptr@[initcol as int] + old(vtoKKT)@.len())
            ==> #[trigger] final(self).rowval@[s] == old(self).rowval@[s],
        forall|s: int| 0 <= s < old(self).rowval@.len() && !(old(self).colptr@[initcol as int] <= s < old(self).colptr@[initcol as int] + old(vtoKKT)@.len())
            ==> #[trigger] final(self).nzval@[s] == old(self).nzval@[s],
//@pre
        proof { assert(self.rowval@.len() == self.rowval.len()); }
//@loop 1
        invariant
            i_ctr == r14_i1, r14_n1 == vtoKKT@.len(), vtoKKT@.len() == old(vtoKKT)@.len(),
            self.arrays_ok(), self.rowval@.len() == old(self).rowval@.len(), self.rowval@.len() <= usize::MAX, initcol < self.colptr@.len(),
            old(self).colptr@[initcol as int] + old(vtoKKT)@.len() <= old(self).rowval@.len(), initrow + old(vtoKKT)@.len() <= usize::MAX,
            self.colptr@ == old(self).colptr@.update(initcol as int, (old(self).colptr@[initcol as int] + i_ctr) as usize),
            forall|i: int| 0 <= i < i_ctr ==> #[trigger] vtoKKT@[i] == old(self).colptr@[initcol as int] + i,
            forall|s: int| old(self).colptr@[initcol as int] <= s < old(self).colptr@[initcol as int] + i_ctr ==> #[trigger] self.rowval@[s] == initrow + (s - old(self).colptr@[initcol as int]),
            forall|s: int| old(self).colptr@[initcol as int] <= s < old(self).colptr@[initcol as int] + i_ctr ==> #[trigger] self.nzval@[s] == f_zero(),
            forall|s: int| 0 <= s < old(self).rowval@.len() && !(old(self).colptr@[initcol as int] <= s < old(self).colptr@[initcol as int] + i_ctr)
                ==> #[trigger] self.rowval@[s] == old(self).rowval@[s],
            forall|s: int| 0 <= s < old(self).rowval@.len() && !(old(self).colptr@[initcol as int] <= s < old(self).colptr@[initcol as int] + i_ctr)
                ==> #[trigger] self.nzval@[s] == old(self).nzval@[s],
//@end

//@fn file=src/algebra/csc/utils.rs in="impl<T> CscMatrix<T>" name=fill_rowvec rules=R1,R3,zipidx:1
//@contract
    requires
        old(self).arrays_ok(), initcol + old(vtoKKT)@.len() <= old(self).colptr@.len(),
        forall|c: int| initcol <= c < initcol + old(vtoKKT)@.len() ==> #[trigger] old(self).colptr@[c] < old(self).rowval@.len(),
        forall|c1: int, c2: int| initcol <= c1 < c2 < initcol + old(vtoKKT)@.len() ==> #[trigger] old(self).colptr@[c1] != #[trigger] old(self).colptr@[c2],
    ensures
        final(self).arrays_ok(), final(self).rowval@.len() == old(self).rowval@.len(), final(vtoKKT)@.len() == old(vtoKKT)@.len(),
        final(self).colptr@.len() == old(self).colptr@.len(), final(self).m == old(self).m, final(self).n == old(self).n,
        colptr_same_except(final(self).colptr@, old(self).colptr@, initcol as int, initcol + old(vtoKKT)@.len()),
        // C11: the row vector occupies row initrow of columns initcol.., as structural zeros
        forall|c: int| initcol <= c < initcol + old(vtoKKT)@.len() ==> {
            let dest = #[trigger] old(self).colptr@[c] as int;
            &&& final(vtoKKT)@[c - initcol] == dest
            &&& final(self).colptr@[c] == dest + 1
            &&& final(self).rowval@[dest] == initrow
            &&& final(self).nzval@[dest] == f_zero()
        },
        forall|s: int| 0 <= s < old(self).rowval@.len() && #[trigger] untouched(old(self).colptr@, initcol as int, initcol + old(vtoKKT)@.len(), s)
            ==> final(self).rowval@[s] == old(self).rowval@[s] && final(self).nzval@[s] == old(self).nzval@[s],
//@pre
        proof { assert(self.rowval@.len() == self.rowval.len()); assert(self.colptr@.len() == self.colptr.len()); }
        let ghost nv = vtoKKT@.len() as int;
//@loop 1
        invariant
            i_ctr == r14_i1, r14_n1 == vtoKKT@.len(), vtoKKT@.len() == nv, nv == old(vtoKKT)@.len(),
            self.arrays_ok(), self.rowval@.len() == old(self).rowval@.len(), self.rowval@.len() <= usize::MAX,
            self.colptr@.len() == old(self).colptr@.len(), initcol + nv <= self.colptr@.len(), self.colptr@.len() <= usize::MAX,
            forall|c: int| initcol <= c < initcol + nv ==> #[trigger] old(self).colptr@[c] < old(self).rowval@.len(),
            forall|c1: int, c2: int| initcol <= c1 < c2 < initcol + nv ==> #[trigger] old(self).colptr@[c1] != #[trigger] old(self).colptr@[c2],
            colptr_same_except(self.colptr@, old(self).colptr@, initcol as int, initcol + nv),
            forall|c: int| initcol + i_ctr <= c < initcol + nv ==> #[trigger] self.colptr@[c] == old(self).colptr@[c],
            forall|c: int| initcol <= c < initcol + i_ctr ==> {
                let dest = #[trigger] old(self).colptr@[c] as int;
                &&& vtoKKT@[c - initcol] == dest
                &&& self.colptr@[c] == dest + 1
                &&& self.rowval@[dest] == initrow
                &&& self.nzval@[dest] == f_zero()
            },
            forall|s: int| 0 <= s < old(self).rowval@.len() && #[trigger] untouched(old(self).colptr@, initcol as int, initcol + i_ctr, s)
                ==> self.rowval@[s] == old(self).rowval@[s] && self.nzval@[s] == old(self).nzval@[s],
//@body_start 1
            let ghost rv0 = self.rowval@;
            let ghost nz0 = self.nzval@;
            let ghost ic0 = i_ctr as int;
//@body_end 1
            proof {
                assert forall|s: int| 0 <= s < old(self).rowval@.len() && #[trigger] untouched(old(self).colptr@, initcol as int, initcol + ic0 + 1, s)
                    implies self.rowval@[s] == old(self).rowval@[s] && self.nzval@[s] == old(self).nzval@[s] by {
                    assert(old(self).colptr@[initcol + ic0] != s);
                    assert(untouched(old(self).colptr@, initcol as int, initcol + ic0, s));
                    assert(rv0[s] == old(self).rowval@[s] && nz0[s] == old(self).nzval@[s]);
                }
            }
//@end


//@fn file=src/algebra/csc/utils.rs in="impl<T> CscMatrix<T>" name=fill_block rules=R1
//@contract
    requires
        old(self).arrays_ok(), M.colptr_ok_u(), old(MtoKKT)@.len() >= M.nzval@.len(),
        shape == MatrixShape::N ==> {
            &&& initcol + M.n <= old(self).colptr@.len()
            &&& forall|k: int| 0 <= k < M.rowval@.len() ==> #[trigger] M.rowval@[k] + initrow <= usize::MAX
            // cursor discipline: the slots the entries will go to are inside the arrays and pairwise distinct
            &&& forall|i: int, j: int| #[trigger] M.in_col_u(j, i) ==> dest_n(*old(self), *M, initcol as int, i, j) < old(self).rowval@.len()
            &&& forall|i1: int, j1: int, i2: int, j2: int| #[trigger] M.in_col_u(j1, i1) && #[trigger] M.in_col_u(j2, i2) && j1 != j2
                    ==> dest_n(*old(self), *M, initcol as int, i1, j1) != dest_n(*old(self), *M, initcol as int, i2, j2)
        },
        shape == MatrixShape::T ==> {
            &&& initrow + M.n <= usize::MAX
            &&& forall|k: int| 0 <= k < M.rowval@.len() ==> initcol + #[trigger] M.rowval@[k] < old(self).colptr@.len()
            &&& forall|j: int| 0 <= j < M.rowval@.len() ==> #[trigger] dest_t(*old(self), *M, initcol as int, j) < old(self).rowval@.len()
            &&& forall|j1: int, j2: int| 0 <= j1 < j2 < M.rowval@.len() ==> #[trigger] dest_t(*old(self), *M, initcol as int, j1) != #[trigger] dest_t(*old(self), *M, initcol as int, j2)
        },
    ensures
        final(self).m == old(self).m, final(self).n == old(self).n,
        fill_block_state(*old(self), *final(self), *M, final(MtoKKT)@, initrow, initcol, shape, M.rowval@.len() as int),
        final(self).arrays_ok(), final(self).rowval@.len() == old(self).rowval@.len(), final(self).colptr@.len() == old(self).colptr@.len(),
        final(MtoKKT)@.len() == old(MtoKKT)@.len(),
        // C11: N: entry j of column i of M lands at (M.rowval[j]+initrow, i+initcol), in slot dest_n; the slot is recorded
        shape == MatrixShape::N ==> {
            &&& forall|i: int, j: int| #[trigger] M.in_col_u(j, i) ==> {
                    let d = dest_n(*old(self), *M, initcol as int, i, j);
                    final(MtoKKT)@[j] == d && final(self).rowval@[d] == M.rowval@[j] + initrow && final(self).nzval@[d] == M.nzval@[j] }
            &&& forall|i: int| 0 <= i < M.n ==> #[trigger] final(self).colptr@[initcol + i] == old(self).colptr@[initcol + i] + (M.colptr@[i + 1] - M.colptr@[i])
            &&& colptr_same_except(final(self).colptr@, old(self).colptr@, initcol as int, initcol + M.n)
        },
        // C11: T: entry j of column i of M lands transposed at (i+initrow, M.rowval[j]+initcol), in slot dest_t
        shape == MatrixShape::T ==> {
            &&& forall|i: int, j: int| #[trigger] M.in_col_u(j, i) ==> {
                    let d = dest_t(*old(self), *M, initcol as int, j);
                    final(MtoKKT)@[j] == d && final(self).rowval@[d] == i + initrow && final(self).nzval@[d] == M.nzval@[j] }
            &&& forall|c: int| 0 <= c < old(self).colptr@.len() ==>
                    #[trigger] final(self).colptr@[c] == old(self).colptr@[c] + count_row(M.rowval@, c - initcol, M.rowval@.len() as int)
        },
        // nothing else is written: a slot that is not the destination of an entry of M keeps its row index and value
        forall|s: int| 0 <= s < old(self).rowval@.len() && fb_free(*old(self), *M, initcol as int, shape, M.rowval@.len() as int, s) ==> #[trigger] final(self).rowval@[s] == old(self).rowval@[s],
        forall|s: int| 0 <= s < old(self).rowval@.len() && fb_free(*old(self), *M, initcol as int, shape, M.rowval@.len() as int, s) ==> #[trigger] final(self).nzval@[s] == old(self).nzval@[s],
//@pre
        proof { assert(self.colptr@.len() == self.colptr.len()); assert(self.rowval@.len() == self.rowval.len()); assert(M.rowval@.len() == M.rowval.len()); }
        let ghost nnz = M.rowval@.len() as int;
        proof {
            assert forall|i: int| 0 <= i < M.n implies pushed_n(*M, i, 0) == 0 by { assert(M.colptr@[0] <= M.colptr@[i]); }
        }
//@iter 1
it0
//@loop 1
        invariant
            it0.seq().len() == M.n, range_from_u(it0.seq(), 0),
            self.arrays_ok(), self.rowval@.len() == old(self).rowval@.len(), self.colptr@.len() == old(self).colptr@.len(),
            self.colptr@.len() <= usize::MAX, self.rowval@.len() <= usize::MAX, nnz <= usize::MAX,
            MtoKKT@.len() == old(MtoKKT)@.len(), M.colptr_ok_u(), MtoKKT@.len() >= nnz, nnz == M.rowval@.len(),
            fill_block_pre(*old(self), *M, initrow, initcol, shape),
            fill_block_state(*old(self), *self, *M, MtoKKT@, initrow, initcol, shape, M.colptr@[it0.index@] as int),
//@body_start 1
            let ghost ic = i as int;
            proof { assert(M.colptr@[ic] <= M.colptr@[ic + 1] <= M.colptr@[M.n as int]); }
//@iter 2
it1
//@loop 2
            invariant
                i < M.n, start == M.colptr@[i as int], stop == M.colptr@[i + 1],
                it1.seq().len() == stop - start, range_from_u(it1.seq(), start as int),
                self.arrays_ok(), self.rowval@.len() == old(self).rowval@.len(), self.colptr@.len() == old(self).colptr@.len(),
                self.colptr@.len() <= usize::MAX, self.rowval@.len() <= usize::MAX, nnz <= usize::MAX,
                MtoKKT@.len() == old(MtoKKT)@.len(), M.colptr_ok_u(), MtoKKT@.len() >= nnz, nnz == M.rowval@.len(),
                fill_block_pre(*old(self), *M, initrow, initcol, shape),
                fill_block_state(*old(self), *self, *M, MtoKKT@, initrow, initcol, shape, start + it1.index@),
//@body_start 2
                let ghost s0 = *self;
                let ghost map0 = MtoKKT@;
                let ghost jj = j as int;
                let ghost ii = i as int;
                let ghost gcol = if shape == MatrixShape::T { M.rowval@[jj] + initcol } else { ii + initcol };
                proof {
                    assert(M.in_col_u(jj, ii));
                    assert(M.colptr@[ii + 1] <= M.colptr@[M.n as int]);
                    if shape == MatrixShape::T {
                        lemma_count_row_le(M.rowval@, M.rowval@[jj] as int, jj);
                        assert(self.colptr@[gcol] == dest_t(*old(self), *M, initcol as int, jj));
                    } else {
                        assert(pushed_n(*M, ii, jj) == jj - M.colptr@[ii]);
                        assert(self.colptr@[gcol] == dest_n(*old(self), *M, initcol as int, ii, jj));
                    }
                    assert(self.colptr@[gcol] < self.rowval@.len());
                }
//@body_end 2
                proof {
                    lemma_fill_block_step(*old(self), s0, *self, *M, map0, MtoKKT@, initrow, initcol, shape, ii, jj);
                }
//@end

//@fn file=src/algebra/csc/utils.rs in="impl<T> CscMatrix<T>" name=_fill_dense_triangle_triu rules=R1,R20
//@contract
    requires tri_pre(*old(self), offset as int, blockdim as int, old(blocktoKKT)@.len() as int),
    ensures triu_state(*old(self), *final(self), old(blocktoKKT)@, final(blocktoKKT)@, offset as int, blockdim as int, blockdim as int, 0),
//@pre
        proof {
            assert(self.colptr@.len() == self.colptr.len()); assert(self.rowval@.len() == self.rowval.len()); assert(blocktoKKT@.len() == blocktoKKT.len());
            assert forall|s: int| 0 <= s < self.rowval@.len() && #[trigger] tri_free(self.colptr@, offset as int, blockdim as int, 0, 0, s)
                implies self.rowval@[s] == self.rowval@[s] by {}
        }
//@iter 1
it0
//@loop 1
        invariant
            it0.seq().len() == blockdim, range_from_u(it0.seq(), offset as int),
            self.colptr@.len() <= usize::MAX, self.rowval@.len() <= usize::MAX, blocktoKKT@.len() <= usize::MAX,
            tri_pre(*old(self), offset as int, blockdim as int, old(blocktoKKT)@.len() as int),
            triu_state(*old(self), *self, old(blocktoKKT)@, blocktoKKT@, offset as int, blockdim as int, it0.index@ as int, 0),
            kidx == tri(it0.index@ as int),
//@body_start 1
            let ghost gj = $var1 as int - offset;
            proof { lemma_tri_mono(gj + 1, blockdim as int); lemma_tri_mono(gj, gj); assert(tri(gj + 1) == tri(gj) + gj + 1); }
//@iter 2
it1
//@loop 2
            invariant
                0 <= gj < blockdim, $var1 == offset + gj, it1.seq().len() == gj + 1, range_from_u(it1.seq(), offset as int),
                self.colptr@.len() <= usize::MAX, self.rowval@.len() <= usize::MAX, blocktoKKT@.len() <= usize::MAX,
                tri_pre(*old(self), offset as int, blockdim as int, old(blocktoKKT)@.len() as int),
                triu_state(*old(self), *self, old(blocktoKKT)@, blocktoKKT@, offset as int, blockdim as int, gj, it1.index@ as int),
                kidx == tri(gj) + it1.index@, tri(gj) + gj + 1 <= tri(blockdim as int), 0 <= tri(gj),
//@body_start 2
                let ghost s0 = *self;
                let ghost map1 = blocktoKKT@;
                let ghost gi = $var2 as int - offset;
                proof {
                    assert(tri_cnt(gj, gj, gi) == gi);
                    assert(self.colptr@[offset + gj] == old(self).colptr@[offset + gj] + gi);
                    assert(old(self).colptr@[offset + gj] + gj + 1 <= old(self).rowval@.len());
                }
//@body_end 2
                proof { lemma_triu_step(*old(self), s0, *self, old(blocktoKKT)@, map1, blocktoKKT@, offset as int, blockdim as int, gj, gi); }
//@body_end 1
            proof { lemma_triu_roll(*old(self), *self, old(blocktoKKT)@, blocktoKKT@, offset as int, blockdim as int, gj); }
//@end

//@fn file=src/algebra/csc/utils.rs in="impl<T> CscMatrix<T>" name=_fill_dense_triangle_tril rules=R1,R20
//@contract
    requires tril_pre(*old(self), offset as int, blockdim as int, old(blocktoKKT)@.len() as int),
    ensures tril_state(*old(self), *final(self), old(blocktoKKT)@, final(blocktoKKT)@, offset as int, blockdim as int, blockdim as int, 0),
//@pre
        proof {
            assert(self.colptr@.len() == self.colptr.len()); assert(self.rowval@.len() == self.rowval.len()); assert(blocktoKKT@.len() == blocktoKKT.len());
        }
//@iter 1
it0
//@loop 1
        invariant
            it0.seq().len() == blockdim, range_from_u(it0.seq(), offset as int),
            self.colptr@.len() <= usize::MAX, self.rowval@.len() <= usize::MAX, blocktoKKT@.len() <= usize::MAX,
            tril_pre(*old(self), offset as int, blockdim as int, old(blocktoKKT)@.len() as int),
            tril_state(*old(self), *self, old(blocktoKKT)@, blocktoKKT@, offset as int, blockdim as int, it0.index@ as int, 0),
            kidx == tri(it0.index@ as int),
//@body_start 1
            let ghost gr = $var1 as int - offset;
            proof { lemma_tri_mono(gr + 1, blockdim as int); lemma_tri_mono(gr, gr); assert(tri(gr + 1) == tri(gr) + gr + 1); }
//@iter 2
it1
//@loop 2
            invariant
                0 <= gr < blockdim, $var1 == offset + gr, it1.seq().len() == gr + 1, range_from_u(it1.seq(), offset as int),
                self.colptr@.len() <= usize::MAX, self.rowval@.len() <= usize::MAX, blocktoKKT@.len() <= usize::MAX,
                tril_pre(*old(self), offset as int, blockdim as int, old(blocktoKKT)@.len() as int),
                tril_state(*old(self), *self, old(blocktoKKT)@, blocktoKKT@, offset as int, blockdim as int, gr, it1.index@ as int),
                kidx == tri(gr) + it1.index@, tri(gr) + gr + 1 <= tri(blockdim as int), 0 <= tri(gr),
//@body_start 2
                let ghost s0 = *self;
                let ghost map1 = blocktoKKT@;
                let ghost gj = $var2 as int - offset;
                proof {
                    assert(tril_cnt(gj, gr, gj) == gr - gj);
                    assert(self.colptr@[offset + gj] == old(self).colptr@[offset + gj] + (gr - gj));
                    assert(old(self).colptr@[offset + gj] + (blockdim - gj) <= old(self).rowval@.len());
                }
//@body_end 2
                proof { lemma_tril_step(*old(self), s0, *self, old(blocktoKKT)@, map1, blocktoKKT@, offset as int, blockdim as int, gr, gj); }
//@body_end 1
            proof { lemma_tril_roll(*old(self), *self, old(blocktoKKT)@, blocktoKKT@, offset as int, blockdim as int, gr); }
//@end

//@fn file=src/algebra/csc/utils.rs in="impl<T> CscMatrix<T>" name=fill_dense_triangle rules=R1
//@contract
    requires
        shape == MatrixTriangle::Triu ==> tri_pre(*old(self), offset as int, blockdim as int, old(blocktoKKT)@.len() as int),
        shape == MatrixTriangle::Tril ==> tril_pre(*old(self), offset as int, blockdim as int, old(blocktoKKT)@.len() as int),
    ensures
        shape == MatrixTriangle::Triu ==> triu_state(*old(self), *final(self), old(blocktoKKT)@, final(blocktoKKT)@, offset as int, blockdim as int, blockdim as int, 0),
        shape == MatrixTriangle::Tril ==> tril_state(*old(self), *final(self), old(blocktoKKT)@, final(blocktoKKT)@, offset as int, blockdim as int, blockdim as int, 0),
//@end

//@include units/inc/csc_alloc.rs

}
impl<'a> CscMatrix<F> {
//@fn file=src/algebra/csc/core.rs in="From<Adjoint<'a, CscMatrix<T>>> for CscMatrix<T>" name=from as=from_adjoint rules=R1 ret=r
//@contract
    requires
        M.src.colptr_ok_u(), M.src.m < usize::MAX, 2 * M.src.rowval@.len() <= usize::MAX,
        forall|k: int| 0 <= k < M.src.rowval@.len() ==> #[trigger] M.src.rowval@[k] < M.src.m,
    ensures
        // C16 (transpose): the result is n x m; its column pointers count the entries of src by row; the stored entry j of
        // src, at (row r, column i), sits in column r of the result at slot tpos(j), with row index i and the same value.
        // j -> tpos(j) is injective (lemma_tpos_distinct), so the nnz slots of the result are exactly these entries.
        r.m == M.src.n, r.n == M.src.m, r.colptr@.len() == r.n + 1, r.rowval@.len() == M.src.rowval@.len(), r.nzval@.len() == M.src.rowval@.len(),
        forall|c: int| 0 <= c <= M.src.m ==> #[trigger] r.colptr@[c] == below(M.src.rowval@, c, M.src.rowval@.len() as int),
        forall|i: int, j: int| #[trigger] M.src.in_col_u(j, i) ==> {
            let d = tpos(M.src.rowval@, j);
            &&& r.colptr@[M.src.rowval@[j] as int] <= d < r.colptr@[M.src.rowval@[j] + 1]
            &&& r.rowval@[d] == i && r.nzval@[d] == M.src.nzval@[j] },
//@pre
        let ghost rv = M.src.rowval@;
        let ghost nnz = M.src.rowval@.len() as int;
        let ghost sm = M.src.m as int;
//@after "let mut amap = vec![0usize; src.nnz()];"
        let ghost A0 = A;
//@after "A.colcount_block(src, 0, MatrixShape::T);"
        let ghost A1 = A;
        proof {
            assert forall|c: int| 0 <= c < sm implies #[trigger] A1.colptr@[c] == count_row(rv, c, nnz) by { }
            assert(A1.colptr@[sm] == nnz + count_row(rv, sm, nnz));
            lemma_count_row_absent(rv, sm, nnz);
            lemma_sum_is_below(A1.colptr@, rv, sm, nnz);
            lemma_below_le(rv, sm, nnz);
            assert(sum_upto(A1.colptr@, sm + 1) == sum_upto(A1.colptr@, sm) + A1.colptr@[sm]);
        }
//@after "A.colcount_to_colptr();"
        let ghost A2 = A;
        proof {
            assert forall|c: int| 0 <= c <= sm implies #[trigger] A2.colptr@[c] == below(rv, c, nnz) by { lemma_sum_is_below_upto(A1.colptr@, rv, sm, c, nnz); }
            assert forall|j: int| 0 <= j < nnz implies #[trigger] dest_t(A2, *src, 0, j) < A2.rowval@.len() by { lemma_tpos_range(rv, j, sm); }
            assert forall|j1: int, j2: int| 0 <= j1 < j2 < nnz implies #[trigger] dest_t(A2, *src, 0, j1) != #[trigger] dest_t(A2, *src, 0, j2) by {
                lemma_tpos_distinct(rv, j1, j2, sm);
            }
        }
//@after "A.fill_block(src, &mut amap, 0, 0, MatrixShape::T);"
        let ghost A3 = A;
        proof {
            assert forall|c: int| 0 <= c < sm implies #[trigger] A3.colptr@[c] == below(rv, c + 1, nnz) by { }
        }
//@after "A.backshift_colptrs();"
        proof {
            assert forall|c: int| 0 <= c <= sm implies #[trigger] A.colptr@[c] == below(rv, c, nnz) by {
                if c > 0 { assert(A.colptr@[c] == A3.colptr@[c - 1]); }
            }
            assert forall|i: int, j: int| #[trigger] M.src.in_col_u(j, i) implies ({
                let d = tpos(rv, j);
                &&& A.colptr@[rv[j] as int] <= d < A.colptr@[rv[j] + 1]
                &&& A.rowval@[d] == i && A.nzval@[d] == M.src.nzval@[j] }) by {
                assert(M.src.colptr@[i + 1] <= M.src.colptr@[M.src.n as int]);
                lemma_tpos_range(rv, j, sm);
                assert(dest_t(A2, *M.src, 0, j) == tpos(rv, j));
            }
        }
//@end
}
impl CscMatrix<F> {

//@fn file=src/algebra/csc/utils.rs in="impl<T> CscMatrix<T>" name=colcount_diag rules=R1,R19,R17,zipidx:*
//@contract
    requires
        initcol + blockcols <= old(self).colptr@.len(),
        forall|c: int| initcol <= c < initcol + blockcols ==> #[trigger] old(self).colptr@[c] < usize::MAX,
    ensures
        // C11: one diagonal entry is counted in each of the blockcols columns starting at initcol, nothing else changes
        final(self).colptr@.len() == old(self).colptr@.len(), final(self).m == old(self).m, final(self).n == old(self).n,
        forall|c: int| 0 <= c < old(self).colptr@.len() ==> #[trigger] final(self).colptr@[c]
            == old(self).colptr@[c] + (if initcol <= c < initcol + blockcols { 1int } else { 0int }),
        final(self).rowval@ == old(self).rowval@, final(self).nzval@ == old(self).nzval@,
//@pre
        proof { assert(self.colptr@.len() == self.colptr.len()); }
//@loop 1
        invariant
            r14_lo1_0 == initcol, r14_hi1_0 == initcol + blockcols, r14_n1 == blockcols, r14_hi1_0 <= self.colptr@.len(),
            self.colptr@.len() == old(self).colptr@.len(),
            forall|c: int| initcol <= c < initcol + blockcols ==> #[trigger] old(self).colptr@[c] < usize::MAX,
            forall|c: int| 0 <= c < old(self).colptr@.len() ==> #[trigger] self.colptr@[c]
                == old(self).colptr@[c] + (if initcol <= c < initcol + r14_i1 { 1int } else { 0int }),
            self.rowval@ == old(self).rowval@, self.nzval@ == old(self).nzval@,
//@end

//@fn file=src/algebra/csc/utils.rs in="impl<T> CscMatrix<T>" name=colcount_rowvec rules=R1,R19,R17,zipidx:*
//@contract
    requires
        firstcol + n <= old(self).colptr@.len(),
        forall|c: int| firstcol <= c < firstcol + n ==> #[trigger] old(self).colptr@[c] < usize::MAX,
    ensures
        // C11: a row vector of length n adds one entry to each of n consecutive columns from firstcol
        final(self).colptr@.len() == old(self).colptr@.len(), final(self).m == old(self).m, final(self).n == old(self).n,
        forall|c: int| 0 <= c < old(self).colptr@.len() ==> #[trigger] final(self).colptr@[c]
            == old(self).colptr@[c] + (if firstcol <= c < firstcol + n { 1int } else { 0int }),
        final(self).rowval@ == old(self).rowval@, final(self).nzval@ == old(self).nzval@,
//@pre
        proof { assert(self.colptr@.len() == self.colptr.len()); }
//@loop 1
        invariant
            r14_lo1_0 == firstcol, r14_hi1_0 == firstcol + n, r14_n1 == n, r14_hi1_0 <= self.colptr@.len(),
            self.colptr@.len() == old(self).colptr@.len(),
            forall|c: int| firstcol <= c < firstcol + n ==> #[trigger] old(self).colptr@[c] < usize::MAX,
            forall|c: int| 0 <= c < old(self).colptr@.len() ==> #[trigger] self.colptr@[c]
                == old(self).colptr@[c] + (if firstcol <= c < firstcol + r14_i1 { 1int } else { 0int }),
            self.rowval@ == old(self).rowval@, self.nzval@ == old(self).nzval@,
//@end

//@fn file=src/algebra/csc/utils.rs in="impl<T> CscMatrix<T>" name=fill_missing_diag rules=R1
//@contract
    requires
        old(self).arrays_ok(), M.colptr_ok_u(), M.n <= old(self).colptr@.len(),
        // (observation O2: the cursor that is advanced is colptr[i], not colptr[i + initcol]; every call site passes 0)
        initcol == 0,
        forall|i: int| 0 <= i < M.n ==> M.colptr@[i] <= #[trigger] M.colptr@[i + 1] <= M.rowval@.len(),
        // cursor discipline: the columns that receive an entry have a free slot, and no two of them share a cursor
        forall|i: int| 0 <= i < M.n && missing_diag(*M, i) ==> #[trigger] old(self).colptr@[i] < old(self).rowval@.len(),
        forall|i1: int, i2: int| 0 <= i1 < i2 < M.n && missing_diag(*M, i1) && missing_diag(*M, i2) ==> #[trigger] old(self).colptr@[i1] != #[trigger] old(self).colptr@[i2],
    ensures
        fmd_post(*old(self), *final(self), *M),
        final(self).arrays_ok(), final(self).rowval@.len() == old(self).rowval@.len(), final(self).colptr@.len() == old(self).colptr@.len(),
        final(self).m == old(self).m, final(self).n == old(self).n,
        colptr_same_except(final(self).colptr@, old(self).colptr@, 0, M.n as int),
        // C11: exactly the columns of M without a diagonal entry receive a structural zero on the diagonal
        forall|i: int| 0 <= i < M.n ==> {
            let dest = #[trigger] old(self).colptr@[i] as int;
            if missing_diag(*M, i) { final(self).colptr@[i] == dest + 1 && final(self).rowval@[dest] == i && final(self).nzval@[dest] == f_zero() }
            else { final(self).colptr@[i] == dest }
        },
        forall|s: int| 0 <= s < old(self).rowval@.len() && #[trigger] untouched_md(old(self).colptr@, *M, M.n as int, s)
            ==> final(self).rowval@[s] == old(self).rowval@[s] && final(self).nzval@[s] == old(self).nzval@[s],
//@pre
        proof { assert(self.rowval@.len() == self.rowval.len()); }
//@iter 1
it
//@loop 1
        invariant
            initcol == 0, it.seq().len() == M.n, range_from_u(it.seq(), 0), M.colptr_ok_u(), M.n <= self.colptr@.len(),
            self.arrays_ok(), self.rowval@.len() == old(self).rowval@.len(), self.colptr@.len() == old(self).colptr@.len(), self.rowval@.len() <= usize::MAX,
            self.m == old(self).m, self.n == old(self).n,
            forall|k: int| 0 <= k < M.n ==> M.colptr@[k] <= #[trigger] M.colptr@[k + 1] <= M.rowval@.len(),
            forall|k: int| 0 <= k < M.n && missing_diag(*M, k) ==> #[trigger] old(self).colptr@[k] < old(self).rowval@.len(),
            forall|i1: int, i2: int| 0 <= i1 < i2 < M.n && missing_diag(*M, i1) && missing_diag(*M, i2) ==> #[trigger] old(self).colptr@[i1] != #[trigger] old(self).colptr@[i2],
            colptr_same_except(self.colptr@, old(self).colptr@, 0, M.n as int),
            forall|k: int| it.index@ <= k < M.n ==> #[trigger] self.colptr@[k] == old(self).colptr@[k],
            forall|k: int| 0 <= k < it.index@ ==> {
                let dest = #[trigger] old(self).colptr@[k] as int;
                if missing_diag(*M, k) { self.colptr@[k] == dest + 1 && self.rowval@[dest] == k && self.nzval@[dest] == f_zero() }
                else { self.colptr@[k] == dest }
            },
            forall|s: int| 0 <= s < old(self).rowval@.len() && #[trigger] untouched_md(old(self).colptr@, *M, it.index@ as int, s)
                ==> self.rowval@[s] == old(self).rowval@[s] && self.nzval@[s] == old(self).nzval@[s],
//@body_start 1
            let ghost rv0 = self.rowval@;
            let ghost nz0 = self.nzval@;
            let ghost ic0 = it.index@ as int;
//@body_end 1
            proof {
                reveal(untouched_md);
                assert forall|s: int| 0 <= s < old(self).rowval@.len() && #[trigger] untouched_md(old(self).colptr@, *M, ic0 + 1, s)
                    implies self.rowval@[s] == old(self).rowval@[s] && self.nzval@[s] == old(self).nzval@[s] by {
                    assert(missing_diag(*M, ic0) ==> old(self).colptr@[ic0] != s);
                    assert(untouched_md(old(self).colptr@, *M, ic0, s));
                    assert(rv0[s] == old(self).rowval@[s] && nz0[s] == old(self).nzval@[s]);
                }
                assert forall|k: int| 0 <= k < ic0 + 1 implies ({
                    let dest = #[trigger] old(self).colptr@[k] as int;
                    if missing_diag(*M, k) { self.colptr@[k] == dest + 1 && self.rowval@[dest] == k && self.nzval@[dest] == f_zero() }
                    else { self.colptr@[k] == dest } }) by {
                    if k < ic0 && missing_diag(*M, k) && missing_diag(*M, ic0) { assert(old(self).colptr@[k] != old(self).colptr@[ic0]); }
                }
            }
//@end

//@fn file=src/algebra/csc/utils.rs in="impl<T> CscMatrix<T>" name=backshift_colptrs rules=R1
//@contract
    requires old(self).colptr@.len() >= 1,
    ensures
        final(self).m == old(self).m, final(self).n == old(self).n,
        // after a fill pass colptr[c] holds the END of column c; shifting right by one restores the column STARTS
        final(self).colptr@.len() == old(self).colptr@.len(),
        final(self).colptr@[0] == 0,
        forall|c: int| 1 <= c < old(self).colptr@.len() ==> #[trigger] final(self).colptr@[c] == old(self).colptr@[c - 1],
        final(self).rowval@ == old(self).rowval@, final(self).nzval@ == old(self).nzval@,
//@after "self.colptr.rotate_right(1);"
        proof {
            let n = old(self).colptr@.len() as int;
            assert forall|c: int| 1 <= c < n implies #[trigger] self.colptr@[c] == old(self).colptr@[c - 1] by {
                lemma_rot_index(c, n);
            }
        }
//@end
}


// ---- dense triangle blocks (Hs blocks of nonsymmetric / PSD cones): abstract cursor discipline ----
pub open spec fn tri(j: int) -> int decreases j { if j <= 0 { 0 } else { tri(j - 1) + j } }
pub proof fn lemma_tri_mono(a: int, b: int)
    requires 0 <= a <= b,
    ensures tri(a) <= tri(b), 0 <= tri(a),
    decreases b,
{
    if a < b { lemma_tri_mono(a, b - 1); } else if a > 0 { lemma_tri_mono(a - 1, a - 1); }
}
// entries already written in column j (0-based inside the block) when the outer loop is at J and the inner at I
pub open spec fn tri_cnt(j: int, jj: int, ii: int) -> int { if 0 <= j < jj { j + 1 } else if j == jj { ii } else { 0 } }
pub open spec fn tri_done(j: int, i: int, jj: int, ii: int, blockdim: int) -> bool { 0 <= i <= j < blockdim && (j < jj || (j == jj && i < ii)) }
pub open spec fn tri_free(c0: Seq<usize>, offset: int, blockdim: int, jj: int, ii: int, s: int) -> bool {
    forall|j: int| 0 <= j < blockdim ==> !(#[trigger] c0[offset + j] <= s < c0[offset + j] + tri_cnt(j, jj, ii))
}
pub open spec fn tri_pre(K0: CscMatrix<F>, offset: int, blockdim: int, maplen: int) -> bool {
    &&& K0.arrays_ok() && 0 <= offset && 0 <= blockdim && offset + blockdim <= K0.colptr@.len() && maplen >= tri(blockdim)
    // every column of the block has room for its part of the triangle, and the columns' slot ranges are ordered
    &&& forall|j: int| 0 <= j < blockdim ==> #[trigger] K0.colptr@[offset + j] + j + 1 <= K0.rowval@.len()
    &&& forall|j1: int, j2: int| 0 <= j1 < j2 < blockdim ==> #[trigger] K0.colptr@[offset + j1] + j1 + 1 <= #[trigger] K0.colptr@[offset + j2]
}
pub open spec fn triu_state(K0: CscMatrix<F>, K: CscMatrix<F>, map0: Seq<usize>, map: Seq<usize>, offset: int, blockdim: int, jj: int, ii: int) -> bool {
    &&& K.arrays_ok() && K.rowval@.len() == K0.rowval@.len() && K.colptr@.len() == K0.colptr@.len() && map.len() == map0.len()
    &&& forall|c: int| 0 <= c < K0.colptr@.len() ==> #[trigger] K.colptr@[c] == K0.colptr@[c] + tri_cnt(c - offset, jj, ii)
    // C11: entry (offset + i, offset + j), i <= j, of the upper triangle sits in slot cursor(j) + i as a structural zero,
    // and the packed-triangle index tri(j) + i of the map records that slot
    &&& forall|j: int, i: int| #[trigger] tri_done(j, i, jj, ii, blockdim) ==> {
            let d = K0.colptr@[offset + j] + i;
            K.rowval@[d] == offset + i && K.nzval@[d] == f_zero() && map[tri(j) + i] == d }
    &&& forall|s: int| 0 <= s < K0.rowval@.len() && #[trigger] tri_free(K0.colptr@, offset, blockdim, jj, ii, s)
            ==> K.rowval@[s] == K0.rowval@[s] && K.nzval@[s] == K0.nzval@[s]
    &&& forall|k: int| tri(jj) + ii <= k < map0.len() ==> #[trigger] map[k] == map0[k]
}
pub proof fn lemma_triu_step(K0: CscMatrix<F>, K1: CscMatrix<F>, K2: CscMatrix<F>, map0: Seq<usize>, map1: Seq<usize>, map2: Seq<usize>,
                             offset: int, blockdim: int, jj: int, ii: int)
    requires
        tri_pre(K0, offset, blockdim, map0.len() as int), 0 <= ii <= jj < blockdim,
        triu_state(K0, K1, map0, map1, offset, blockdim, jj, ii),
        K0.rowval@.len() <= usize::MAX, K0.colptr@.len() <= usize::MAX,
        ({ let d = K1.colptr@[offset + jj] as int;
           &&& 0 <= d < K1.rowval@.len() && 0 <= tri(jj) + ii < map1.len()
           &&& K2.rowval@ == K1.rowval@.update(d, (offset + ii) as usize) && K2.nzval@ == K1.nzval@.update(d, f_zero())
           &&& map2 == map1.update(tri(jj) + ii, d as usize) && K2.colptr@ == K1.colptr@.update(offset + jj, (d + 1) as usize) }),
    ensures triu_state(K0, K2, map0, map2, offset, blockdim, jj, ii + 1),
{
    let d = K1.colptr@[offset + jj] as int;
    assert(d == K0.colptr@[offset + jj] + ii) by { assert(tri_cnt(offset + jj - offset, jj, ii) == ii); }
    assert(K0.colptr@[offset + jj] + jj + 1 <= K0.rowval@.len());
    assert forall|c: int| 0 <= c < K0.colptr@.len() implies #[trigger] K2.colptr@[c] == K0.colptr@[c] + tri_cnt(c - offset, jj, ii + 1) by {
        assert(K1.colptr@[c] == K0.colptr@[c] + tri_cnt(c - offset, jj, ii));
    }
    assert forall|j: int, i: int| #[trigger] tri_done(j, i, jj, ii + 1, blockdim) implies ({
            let dd = K0.colptr@[offset + j] + i;
            K2.rowval@[dd] == offset + i && K2.nzval@[dd] == f_zero() && map2[tri(j) + i] == dd }) by {
        let dd = K0.colptr@[offset + j] + i;
        lemma_tri_mono(j, j);
        lemma_tri_mono(jj, jj);
        if tri_done(j, i, jj, ii, blockdim) {
            if j < jj {
                assert(K0.colptr@[offset + j] + j + 1 <= K0.colptr@[offset + jj]);
                lemma_tri_mono(j + 1, jj);
                assert(tri(j + 1) == tri(j) + j + 1);
            }
            assert(dd != d);
            assert(tri(j) + i != tri(jj) + ii);
            assert(K1.rowval@[dd] == offset + i && K1.nzval@[dd] == f_zero() && map1[tri(j) + i] == dd);
            assert(0 <= dd < K1.rowval@.len());
            assert(0 <= tri(j) + i < map1.len());
        } else {
            assert(j == jj && i == ii);
            assert(dd == d);
        }
    }
    assert forall|s: int| 0 <= s < K0.rowval@.len() && #[trigger] tri_free(K0.colptr@, offset, blockdim, jj, ii + 1, s)
        implies K2.rowval@[s] == K0.rowval@[s] && K2.nzval@[s] == K0.nzval@[s] by {
        assert(!(K0.colptr@[offset + jj] <= s < K0.colptr@[offset + jj] + tri_cnt(jj, jj, ii + 1)));
        assert(s != d);
        assert(tri_free(K0.colptr@, offset, blockdim, jj, ii, s)) by {
            assert forall|j: int| 0 <= j < blockdim implies !(#[trigger] K0.colptr@[offset + j] <= s < K0.colptr@[offset + j] + tri_cnt(j, jj, ii)) by {
                assert(tri_cnt(j, jj, ii) <= tri_cnt(j, jj, ii + 1));
            }
        }
    }
}
pub proof fn lemma_triu_roll(K0: CscMatrix<F>, K: CscMatrix<F>, map0: Seq<usize>, map: Seq<usize>, offset: int, blockdim: int, jj: int)
    requires 0 <= jj < blockdim, triu_state(K0, K, map0, map, offset, blockdim, jj, jj + 1),
    ensures triu_state(K0, K, map0, map, offset, blockdim, jj + 1, 0),
{
    assert(tri(jj + 1) == tri(jj) + jj + 1);
    assert forall|c: int| 0 <= c < K0.colptr@.len() implies #[trigger] K.colptr@[c] == K0.colptr@[c] + tri_cnt(c - offset, jj + 1, 0) by {
        assert(tri_cnt(c - offset, jj + 1, 0) == tri_cnt(c - offset, jj, jj + 1));
    }
    assert forall|j: int, i: int| #[trigger] tri_done(j, i, jj + 1, 0, blockdim) implies ({
            let dd = K0.colptr@[offset + j] + i;
            K.rowval@[dd] == offset + i && K.nzval@[dd] == f_zero() && map[tri(j) + i] == dd }) by {
        assert(tri_done(j, i, jj, jj + 1, blockdim));
    }
    assert forall|s: int| 0 <= s < K0.rowval@.len() && #[trigger] tri_free(K0.colptr@, offset, blockdim, jj + 1, 0, s)
        implies K.rowval@[s] == K0.rowval@[s] && K.nzval@[s] == K0.nzval@[s] by {
        assert(tri_free(K0.colptr@, offset, blockdim, jj, jj + 1, s)) by {
            assert forall|j: int| 0 <= j < blockdim implies !(#[trigger] K0.colptr@[offset + j] <= s < K0.colptr@[offset + j] + tri_cnt(j, jj, jj + 1)) by {
                assert(tri_cnt(j, jj + 1, 0) == tri_cnt(j, jj, jj + 1));
            }
        }
    }
}



// lower-triangle variant: the outer loop runs over rows rr, the inner over the columns j <= rr of that row
pub open spec fn tril_cnt(j: int, rr: int, jj: int) -> int { (if 0 <= j < rr { rr - j } else { 0 }) + (if 0 <= j < jj && j <= rr { 1int } else { 0 }) }
pub open spec fn tril_free(c0: Seq<usize>, offset: int, blockdim: int, rr: int, jj: int, s: int) -> bool {
    forall|j: int| 0 <= j < blockdim ==> !(#[trigger] c0[offset + j] <= s < c0[offset + j] + tril_cnt(j, rr, jj))
}
pub open spec fn tril_pre(K0: CscMatrix<F>, offset: int, blockdim: int, maplen: int) -> bool {
    &&& K0.arrays_ok() && 0 <= offset && 0 <= blockdim && offset + blockdim <= K0.colptr@.len() && maplen >= tri(blockdim)
    &&& forall|j: int| 0 <= j < blockdim ==> #[trigger] K0.colptr@[offset + j] + (blockdim - j) <= K0.rowval@.len()
    &&& forall|j1: int, j2: int| 0 <= j1 < j2 < blockdim ==> #[trigger] K0.colptr@[offset + j1] + (blockdim - j1) <= #[trigger] K0.colptr@[offset + j2]
}
pub open spec fn tril_state(K0: CscMatrix<F>, K: CscMatrix<F>, map0: Seq<usize>, map: Seq<usize>, offset: int, blockdim: int, rr: int, jj: int) -> bool {
    &&& K.arrays_ok() && K.rowval@.len() == K0.rowval@.len() && K.colptr@.len() == K0.colptr@.len() && map.len() == map0.len()
    &&& forall|c: int| 0 <= c < K0.colptr@.len() ==> #[trigger] K.colptr@[c] == K0.colptr@[c] + tril_cnt(c - offset, rr, jj)
    // C11: the packed upper-triangle entry (j, r), j <= r, is placed TRANSPOSED at (offset + r, offset + j): slot cursor(j) + (r - j)
    &&& forall|r: int, j: int| #[trigger] tri_done(r, j, rr, jj, blockdim) ==> {
            let d = K0.colptr@[offset + j] + (r - j);
            K.rowval@[d] == offset + r && K.nzval@[d] == f_zero() && map[tri(r) + j] == d }
    &&& forall|s: int| 0 <= s < K0.rowval@.len() && #[trigger] tril_free(K0.colptr@, offset, blockdim, rr, jj, s)
            ==> K.rowval@[s] == K0.rowval@[s] && K.nzval@[s] == K0.nzval@[s]
    &&& forall|k: int| tri(rr) + jj <= k < map0.len() ==> #[trigger] map[k] == map0[k]
}
pub proof fn lemma_tril_step(K0: CscMatrix<F>, K1: CscMatrix<F>, K2: CscMatrix<F>, map0: Seq<usize>, map1: Seq<usize>, map2: Seq<usize>,
                             offset: int, blockdim: int, rr: int, jj: int)
    requires
        tril_pre(K0, offset, blockdim, map0.len() as int), 0 <= jj <= rr < blockdim,
        tril_state(K0, K1, map0, map1, offset, blockdim, rr, jj),
        K0.rowval@.len() <= usize::MAX, K0.colptr@.len() <= usize::MAX,
        ({ let d = K1.colptr@[offset + jj] as int;
           &&& 0 <= d < K1.rowval@.len() && 0 <= tri(rr) + jj < map1.len()
           &&& K2.rowval@ == K1.rowval@.update(d, (offset + rr) as usize) && K2.nzval@ == K1.nzval@.update(d, f_zero())
           &&& map2 == map1.update(tri(rr) + jj, d as usize) && K2.colptr@ == K1.colptr@.update(offset + jj, (d + 1) as usize) }),
    ensures tril_state(K0, K2, map0, map2, offset, blockdim, rr, jj + 1),
{
    let d = K1.colptr@[offset + jj] as int;
    assert(d == K0.colptr@[offset + jj] + (rr - jj)) by { assert(tril_cnt(offset + jj - offset, rr, jj) == rr - jj); }
    assert(K0.colptr@[offset + jj] + (blockdim - jj) <= K0.rowval@.len());
    assert forall|c: int| 0 <= c < K0.colptr@.len() implies #[trigger] K2.colptr@[c] == K0.colptr@[c] + tril_cnt(c - offset, rr, jj + 1) by {
        assert(K1.colptr@[c] == K0.colptr@[c] + tril_cnt(c - offset, rr, jj));
    }
    assert forall|r: int, j: int| #[trigger] tri_done(r, j, rr, jj + 1, blockdim) implies ({
            let dd = K0.colptr@[offset + j] + (r - j);
            K2.rowval@[dd] == offset + r && K2.nzval@[dd] == f_zero() && map2[tri(r) + j] == dd }) by {
        let dd = K0.colptr@[offset + j] + (r - j);
        lemma_tri_mono(r, r);
        lemma_tri_mono(rr, rr);
        if tri_done(r, j, rr, jj, blockdim) {
            if r < rr {
                lemma_tri_mono(r + 1, rr);
                assert(tri(r + 1) == tri(r) + r + 1);
            }
            if j < jj { assert(K0.colptr@[offset + j] + (blockdim - j) <= K0.colptr@[offset + jj]); }
            if jj < j { assert(K0.colptr@[offset + jj] + (blockdim - jj) <= K0.colptr@[offset + j]); }
            assert(dd != d);
            assert(tri(r) + j != tri(rr) + jj);
            assert(K1.rowval@[dd] == offset + r && K1.nzval@[dd] == f_zero() && map1[tri(r) + j] == dd);
            assert(K0.colptr@[offset + j] + (blockdim - j) <= K0.rowval@.len());
            assert(0 <= dd < K1.rowval@.len());
            assert(0 <= tri(r) + j < map1.len());
        } else {
            assert(r == rr && j == jj);
            assert(dd == d);
        }
    }
    assert forall|s: int| 0 <= s < K0.rowval@.len() && #[trigger] tril_free(K0.colptr@, offset, blockdim, rr, jj + 1, s)
        implies K2.rowval@[s] == K0.rowval@[s] && K2.nzval@[s] == K0.nzval@[s] by {
        assert(!(K0.colptr@[offset + jj] <= s < K0.colptr@[offset + jj] + tril_cnt(jj, rr, jj + 1)));
        assert(s != d);
        assert(tril_free(K0.colptr@, offset, blockdim, rr, jj, s)) by {
            assert forall|j: int| 0 <= j < blockdim implies !(#[trigger] K0.colptr@[offset + j] <= s < K0.colptr@[offset + j] + tril_cnt(j, rr, jj)) by {
                assert(tril_cnt(j, rr, jj) <= tril_cnt(j, rr, jj + 1));
            }
        }
    }
}
pub proof fn lemma_tril_roll(K0: CscMatrix<F>, K: CscMatrix<F>, map0: Seq<usize>, map: Seq<usize>, offset: int, blockdim: int, rr: int)
    requires 0 <= rr < blockdim, tril_state(K0, K, map0, map, offset, blockdim, rr, rr + 1),
    ensures tril_state(K0, K, map0, map, offset, blockdim, rr + 1, 0),
{
    assert(tri(rr + 1) == tri(rr) + rr + 1);
    assert forall|c: int| 0 <= c < K0.colptr@.len() implies #[trigger] K.colptr@[c] == K0.colptr@[c] + tril_cnt(c - offset, rr + 1, 0) by {
        assert(tril_cnt(c - offset, rr + 1, 0) == tril_cnt(c - offset, rr, rr + 1));
    }
    assert forall|r: int, j: int| #[trigger] tri_done(r, j, rr + 1, 0, blockdim) implies ({
            let dd = K0.colptr@[offset + j] + (r - j);
            K.rowval@[dd] == offset + r && K.nzval@[dd] == f_zero() && map[tri(r) + j] == dd }) by {
        assert(tri_done(r, j, rr, rr + 1, blockdim));
    }
    assert forall|s: int| 0 <= s < K0.rowval@.len() && #[trigger] tril_free(K0.colptr@, offset, blockdim, rr + 1, 0, s)
        implies K.rowval@[s] == K0.rowval@[s] && K.nzval@[s] == K0.nzval@[s] by {
        assert(tril_free(K0.colptr@, offset, blockdim, rr, rr + 1, s)) by {
            assert forall|j: int| 0 <= j < blockdim implies !(#[trigger] K0.colptr@[offset + j] <= s < K0.colptr@[offset + j] + tril_cnt(j, rr, rr + 1)) by {
                assert(tril_cnt(j, rr + 1, 0) == tril_cnt(j, rr, rr + 1));
            }
        }
    }
}


// ---- transposition: counting entries by row ----
// number of the first k entries with row index < c
pub open spec fn below(rv: Seq<usize>, c: int, k: int) -> int decreases c { if c <= 0 { 0 } else { below(rv, c - 1, k) + count_row(rv, c - 1, k) } }
// slot of entry j in the transposed matrix: after the entries of smaller rows, and after the earlier entries of its own row
pub open spec fn tpos(rv: Seq<usize>, j: int) -> int { below(rv, rv[j] as int, rv.len() as int) + count_row(rv, rv[j] as int, j) }
pub proof fn lemma_below_step(rv: Seq<usize>, c: int, k: int)
    requires k >= 1, c >= 0,
    ensures below(rv, c, k) == below(rv, c, k - 1) + (if rv[k - 1] < c { 1int } else { 0int }),
    decreases c,
{ if c > 0 { lemma_below_step(rv, c - 1, k); } }
pub proof fn lemma_below_le(rv: Seq<usize>, c: int, k: int)
    requires 0 <= k <= rv.len(), c >= 0,
    ensures 0 <= below(rv, c, k) <= k,
    decreases k,
{
    if k > 0 { lemma_below_le(rv, c, k - 1); lemma_below_step(rv, c, k); } else { lemma_below_zero(rv, c); }
}
pub proof fn lemma_below_zero(rv: Seq<usize>, c: int)
    requires c >= 0,
    ensures below(rv, c, 0) == 0,
    decreases c,
{ if c > 0 { lemma_below_zero(rv, c - 1); } }
pub proof fn lemma_below_mono(rv: Seq<usize>, a: int, b: int, k: int)
    requires 0 <= a <= b, 0 <= k <= rv.len(),
    ensures below(rv, a, k) <= below(rv, b, k),
    decreases b,
{ if a < b { lemma_below_mono(rv, a, b - 1, k); lemma_count_row_le(rv, b - 1, k); } }
pub proof fn lemma_count_row_mono(rv: Seq<usize>, r: int, a: int, b: int)
    requires 0 <= a <= b <= rv.len(),
    ensures count_row(rv, r, a) <= count_row(rv, r, b),
    decreases b,
{ if a < b { lemma_count_row_mono(rv, r, a, b - 1); } }
// rows are nonnegative: nothing is counted for a negative row number
pub proof fn lemma_count_row_absent_below(rv: Seq<usize>, r: int, k: int)
    requires r < 0, 0 <= k <= rv.len(),
    ensures count_row(rv, r, k) == 0,
    decreases k,
{ if k > 0 { lemma_count_row_absent_below(rv, r, k - 1); } }
pub proof fn lemma_count_row_absent(rv: Seq<usize>, r: int, k: int)
    requires 0 <= k <= rv.len(), forall|q: int| 0 <= q < rv.len() ==> #[trigger] rv[q] < r,
    ensures count_row(rv, r, k) == 0,
    decreases k,
{ if k > 0 { lemma_count_row_absent(rv, r, k - 1); } }
// the exclusive prefix sums of the per-row counts are the `below` numbers
pub proof fn lemma_sum_is_below(cp: Seq<usize>, rv: Seq<usize>, c: int, nnz: int)
    requires 0 <= c <= cp.len(), forall|q: int| 0 <= q < c ==> #[trigger] cp[q] == count_row(rv, q, nnz),
    ensures sum_upto(cp, c) == below(rv, c, nnz),
    decreases c,
{ if c > 0 { lemma_sum_is_below(cp, rv, c - 1, nnz); } }
pub proof fn lemma_sum_is_below_upto(cp: Seq<usize>, rv: Seq<usize>, sm: int, c: int, nnz: int)
    requires 0 <= c <= sm <= cp.len(), forall|q: int| 0 <= q < sm ==> #[trigger] cp[q] == count_row(rv, q, nnz),
    ensures sum_upto(cp, c) == below(rv, c, nnz),
{ lemma_sum_is_below(cp, rv, c, nnz); }
// entry j lands inside the slot range of its row
pub proof fn lemma_tpos_range(rv: Seq<usize>, j: int, sm: int)
    requires 0 <= j < rv.len(), forall|q: int| 0 <= q < rv.len() ==> #[trigger] rv[q] < sm,
    ensures below(rv, rv[j] as int, rv.len() as int) <= tpos(rv, j) < below(rv, rv[j] + 1, rv.len() as int) <= rv.len(),
{
    let r = rv[j] as int; let n = rv.len() as int;
    lemma_count_row_le(rv, r, j);
    assert(count_row(rv, r, j + 1) == count_row(rv, r, j) + 1);
    lemma_count_row_mono(rv, r, j + 1, n);
    lemma_below_le(rv, r + 1, n);
}
pub proof fn lemma_tpos_distinct(rv: Seq<usize>, j1: int, j2: int, sm: int)
    requires 0 <= j1 < j2 < rv.len(), forall|q: int| 0 <= q < rv.len() ==> #[trigger] rv[q] < sm,
    ensures tpos(rv, j1) != tpos(rv, j2),
{
    let r1 = rv[j1] as int; let r2 = rv[j2] as int; let n = rv.len() as int;
    lemma_tpos_range(rv, j1, sm); lemma_tpos_range(rv, j2, sm);
    if r1 == r2 {
        assert(count_row(rv, r1, j1 + 1) == count_row(rv, r1, j1) + 1);
        lemma_count_row_mono(rv, r1, j1 + 1, j2);
    } else if r1 < r2 { lemma_below_mono(rv, r1 + 1, r2, n); } else { lemma_below_mono(rv, r2 + 1, r1, n); }
}


//@fn file=src/solver/core/kktsolvers/direct/quasidef/kkt_assembly.rs name=_kkt_assemble_fill as=kkt_fill_triu_arm rules=R1 from=@arm to="MatrixTriangle::Triu#1" header="fn _kkt_assemble_fill<T: FloatT>(K: &mut CscMatrix<T>, P: &CscMatrix<T>, A: &CscMatrix<T>, map: &mut LDLDataMap, n: usize)"
//@contract
    requires kkt_triu_pre(*old(K), *P, *A, n as int), old(map).P@.len() >= P.nzval@.len(), old(map).A@.len() >= A.nzval@.len(),
    ensures kkt_triu_post(*old(K), *final(K), *P, *A, n as int, final(map).P@, final(map).A@),
//@pre
        let ghost K0 = *K;
        let ghost gn = n as int;
        proof { lemma_kkt_pre_P(K0, *P, *A, gn); }
//@after_stmt 1
        let ghost K1 = *K;
        let ghost mapP1 = map.P@;
        proof { lemma_kkt_after_P(K0, K1, *P, *A, gn, mapP1); }
//@after_stmt 2
        let ghost K2 = *K;
        proof { lemma_kkt_after_md(K0, K1, K2, *P, *A, gn, mapP1); }
//@after_stmt 3
        proof { lemma_kkt_final(K0, K2, *K, *P, *A, gn, map.P@, map.A@); }
//@end

//@fn file=src/solver/core/kktsolvers/direct/quasidef/kkt_assembly.rs name=_kkt_assemble_fill as=kkt_fill_tril_arm rules=R1 from=@arm to="MatrixTriangle::Tril#1" header="fn _kkt_assemble_fill<T: FloatT>(K: &mut CscMatrix<T>, P: &CscMatrix<T>, A: &CscMatrix<T>, map: &mut LDLDataMap, n: usize)"
//@contract
    requires kkt_tril_pre(*old(K), *P, *A, n as int), old(map).P@.len() >= P.nzval@.len(), old(map).A@.len() >= A.nzval@.len(),
    ensures kkt_tril_post(*old(K), *final(K), *P, *A, n as int, final(map).P@, final(map).A@),
//@pre
        let ghost K0 = *K;
        let ghost gn = n as int;
        proof { lemma_tril_pre_md(K0, *P, *A, gn); }
//@after_stmt 1
        let ghost K1 = *K;
        proof { lemma_tril_after_md(K0, K1, *P, *A, gn); }
//@after_stmt 2
        let ghost K2 = *K;
        proof { lemma_tril_after_P(K0, K1, K2, *P, *A, gn, map.P@); }
//@after_stmt 3
        proof { lemma_tril_final(K0, K2, *K, *P, *A, gn, map.P@, map.A@); }
//@end

//@fn file=src/solver/core/kktsolvers/direct/quasidef/kkt_assembly.rs name=_kkt_assemble_fill as=kkt_diag_maps_triu rules=R1,R17,R28,zipidx:* from=@arm to="MatrixTriangle::Triu#2" header="fn _kkt_assemble_fill<T: FloatT>(K: &CscMatrix<T>, map: &mut LDLDataMap, n: usize)"
//@contract
    requires
        K.colptr@.len() >= 1, old(map).diag_full@.len() == K.colptr@.len() - 1, old(map).diagP@.len() == n, n < K.colptr@.len(),
        forall|c: int| 1 <= c < K.colptr@.len() ==> #[trigger] K.colptr@[c] >= 1,
    ensures
        // C11: the recorded diagonal slot of column c is the last slot of that column (upper-triangle layout)
        final(map).diag_full@.len() == K.colptr@.len() - 1, final(map).diagP@.len() == n,
        forall|c: int| 0 <= c < K.colptr@.len() - 1 ==> #[trigger] final(map).diag_full@[c] == K.colptr@[c + 1] - 1,
        forall|c: int| 0 <= c < n ==> #[trigger] final(map).diagP@[c] == K.colptr@[c + 1] - 1,
        final(map).P@ == old(map).P@, final(map).A@ == old(map).A@,
//@pre
        let ghost cp = K.colptr@;
        proof { assert(K.colptr@.len() == K.colptr.len()); }
//@after_stmt 1
        proof { assert(map.diag_full@ =~= cp.subrange(1, cp.len() as int)); }
//@loop 1
            invariant
                r14_n1 == map.diag_full@.len(), map.diag_full@.len() == cp.len() - 1, map.diagP@.len() == n, cp == K.colptr@,
                forall|c: int| 1 <= c < cp.len() ==> #[trigger] cp[c] >= 1,
                forall|c: int| 0 <= c < r14_i1 ==> #[trigger] map.diag_full@[c] == cp[c + 1] - 1,
                forall|c: int| r14_i1 <= c < cp.len() - 1 ==> #[trigger] map.diag_full@[c] == cp[c + 1],
                map.P@ == old(map).P@, map.A@ == old(map).A@,
//@after_stmt 3
        proof { assert(map.diagP@ =~= cp.subrange(1, n + 1)); }
//@loop 2
            invariant
                r14_n2 == map.diagP@.len(), map.diag_full@.len() == cp.len() - 1, map.diagP@.len() == n, cp == K.colptr@, n < cp.len(),
                forall|c: int| 1 <= c < cp.len() ==> #[trigger] cp[c] >= 1,
                forall|c: int| 0 <= c < cp.len() - 1 ==> #[trigger] map.diag_full@[c] == cp[c + 1] - 1,
                forall|c: int| 0 <= c < r14_i2 ==> #[trigger] map.diagP@[c] == cp[c + 1] - 1,
                forall|c: int| r14_i2 <= c < n ==> #[trigger] map.diagP@[c] == cp[c + 1],
                map.P@ == old(map).P@, map.A@ == old(map).A@,
//@end

//@fn file=src/solver/core/kktsolvers/direct/quasidef/kkt_assembly.rs name=_kkt_assemble_fill as=kkt_diag_maps_tril rules=R1 from=@arm to="MatrixTriangle::Tril#2" header="fn _kkt_assemble_fill<T: FloatT>(K: &CscMatrix<T>, map: &mut LDLDataMap, n: usize)"
//@contract
    requires K.colptr@.len() >= 1, old(map).diag_full@.len() == K.colptr@.len() - 1, old(map).diagP@.len() == n, n < K.colptr@.len(),
    ensures
        // C11: the recorded diagonal slot of column c is the first slot of that column (lower-triangle layout)
        final(map).diag_full@.len() == K.colptr@.len() - 1, final(map).diagP@.len() == n,
        forall|c: int| 0 <= c < K.colptr@.len() - 1 ==> #[trigger] final(map).diag_full@[c] == K.colptr@[c],
        forall|c: int| 0 <= c < n ==> #[trigger] final(map).diagP@[c] == K.colptr@[c],
        final(map).P@ == old(map).P@, final(map).A@ == old(map).A@,
//@pre
        let ghost cp = K.colptr@;
        proof { assert(K.colptr@.len() == K.colptr.len()); }
//@after_stmt 1
        proof { assert(map.diag_full@ =~= cp.subrange(0, cp.len() - 1)); }
//@after_stmt 2
        proof { assert(map.diagP@ =~= cp.subrange(0, n as int)); }
//@end

//@fn file=src/solver/core/kktsolvers/direct/quasidef/kkt_assembly.rs name=_kkt_assemble_colcounts as=kkt_count_triu_arm rules=R1 from=@arm to="MatrixTriangle::Triu#1" header="fn _kkt_assemble_colcounts<T: FloatT>(K: &mut CscMatrix<T>, P: &CscMatrix<T>, A: &CscMatrix<T>, n: usize)"
//@contract
    requires
        P.colptr_ok_u(), A.colptr_ok_u(), P.n == n, P.m == n, A.n == n, old(K).colptr@.len() > n + A.m, old(K).colptr@.len() <= usize::MAX,
        forall|k: int| 0 <= k < A.rowval@.len() ==> #[trigger] A.rowval@[k] < A.m,
        P.rowval@.len() + A.rowval@.len() + 1 <= usize::MAX,
        // the counting pass starts from zero counts (K.colptr.fill(0))
        forall|c: int| 0 <= c < old(K).colptr@.len() ==> #[trigger] old(K).colptr@[c] == 0,
    ensures
        final(K).colptr@.len() == old(K).colptr@.len(), final(K).rowval@ == old(K).rowval@, final(K).nzval@ == old(K).nzval@,
        // C11: column c < n is counted with P's entries plus one for a missing diagonal entry; column n + r with the entries of row r of A
        forall|c: int| 0 <= c < n ==> #[trigger] final(K).colptr@[c] == pcnt(*P, c) + mdn(*P, c),
        forall|r: int| 0 <= r < A.m ==> #[trigger] final(K).colptr@[n + r] == count_row(A.rowval@, r, A.rowval@.len() as int),
        forall|c: int| n + A.m <= c < old(K).colptr@.len() ==> #[trigger] final(K).colptr@[c] == 0,
//@pre
        let ghost gn = n as int;
        proof {
            assert forall|i: int| 0 <= i < P.n implies P.colptr@[i] <= #[trigger] P.colptr@[i + 1] by { }
            assert(P.colptr@[P.n as int] == P.rowval@.len());
        }
//@after_stmt 1
        let ghost K1 = *K;
        proof {
            assert forall|i: int| 0 <= i < gn implies #[trigger] K1.colptr@[i] == pcnt(*P, i) by { assert(K1.colptr@[0 + i] == 0 + (P.colptr@[i + 1] - P.colptr@[i])); }
            assert forall|c: int| gn <= c < K1.colptr@.len() implies #[trigger] K1.colptr@[c] == 0 by { }
            assert forall|i: int| 0 <= i < P.n implies P.colptr@[i] <= #[trigger] P.colptr@[i + 1] <= P.rowval@.len() by { assert(P.colptr@[i + 1] <= P.colptr@[P.n as int]); }
            assert forall|c: int| 0 <= c < K1.colptr@.len() implies K1.colptr@[c] < usize::MAX by {
                if c < gn { assert(K1.colptr@[c] == pcnt(*P, c)); assert(P.colptr@[c + 1] <= P.colptr@[P.n as int]); }
            }
        }
//@after_stmt 2
        let ghost K2 = *K;
        proof {
            assert forall|c: int| 0 <= c < gn implies #[trigger] K2.colptr@[c] == pcnt(*P, c) + mdn(*P, c) by { assert(K2.colptr@[c + 0] == K1.colptr@[c + 0] + mdn(*P, c)); }
            assert forall|c: int| gn <= c < K2.colptr@.len() implies #[trigger] K2.colptr@[c] == 0 by { assert(K1.colptr@[c] == 0); }
            assert forall|c: int| 0 <= c < K2.colptr@.len() implies K2.colptr@[c] + A.rowval@.len() <= usize::MAX by {
                if c < gn { assert(K2.colptr@[c] == pcnt(*P, c) + mdn(*P, c)); assert(P.colptr@[c + 1] <= P.colptr@[P.n as int]); }
            }
        }
//@after_stmt 3
        proof {
            assert forall|c: int| 0 <= c < gn implies #[trigger] K.colptr@[c] == pcnt(*P, c) + mdn(*P, c) by {
                lemma_count_row_absent_below(A.rowval@, c - gn, A.rowval@.len() as int);
            }
            assert forall|r: int| 0 <= r < A.m implies #[trigger] K.colptr@[gn + r] == count_row(A.rowval@, r, A.rowval@.len() as int) by {
                assert(K.colptr@[gn + r] == K2.colptr@[gn + r] + count_row(A.rowval@, (gn + r) - gn, A.rowval@.len() as int));
            }
            assert forall|c: int| gn + A.m <= c < K.colptr@.len() implies #[trigger] K.colptr@[c] == 0 by {
                lemma_count_row_absent(A.rowval@, c - gn, A.rowval@.len() as int);
            }
        }
//@end

//@fn file=src/solver/core/kktsolvers/direct/quasidef/kkt_assembly.rs name=_kkt_assemble_colcounts as=kkt_count_tril_arm rules=R1 from=@arm to="MatrixTriangle::Tril#1" header="fn _kkt_assemble_colcounts<T: FloatT>(K: &mut CscMatrix<T>, P: &CscMatrix<T>, A: &CscMatrix<T>, n: usize)"
//@contract
    requires
        P.colptr_ok_u(), A.colptr_ok_u(), P.n == n, P.m == n, A.n == n, old(K).colptr@.len() > n, old(K).colptr@.len() <= usize::MAX,
        forall|k: int| 0 <= k < P.rowval@.len() ==> #[trigger] P.rowval@[k] < n,
        P.rowval@.len() + A.rowval@.len() + 1 <= usize::MAX,
        // the counting pass starts from zero counts (K.colptr.fill(0))
        forall|c: int| 0 <= c < old(K).colptr@.len() ==> #[trigger] old(K).colptr@[c] == 0,
    ensures
        final(K).colptr@.len() == old(K).colptr@.len(), final(K).rowval@ == old(K).rowval@, final(K).nzval@ == old(K).nzval@,
        // C11 (lower layout): column c < n is counted with one for a missing diagonal entry, the entries of row c of P (P transposed)
        // and the entries of column c of A below them; nothing is counted elsewhere
        forall|c: int| 0 <= c < n ==> #[trigger] final(K).colptr@[c] == mdn(*P, c) + prow(*P, c) + pcnt(*A, c),
        forall|c: int| n <= c < old(K).colptr@.len() ==> #[trigger] final(K).colptr@[c] == 0,
//@pre
        let ghost gn = n as int;
        proof {
            assert forall|i: int| 0 <= i < P.n implies P.colptr@[i] <= #[trigger] P.colptr@[i + 1] <= P.rowval@.len() by { assert(P.colptr@[i + 1] <= P.colptr@[P.n as int]); }
            assert forall|i: int| 0 <= i < A.n implies A.colptr@[i] <= #[trigger] A.colptr@[i + 1] by { }
        }
//@after_stmt 1
        let ghost K1 = *K;
        proof {
            assert forall|c: int| 0 <= c < gn implies #[trigger] K1.colptr@[c] == mdn(*P, c) by { assert(K1.colptr@[c + 0] == 0 + mdn(*P, c)); }
            assert forall|c: int| gn <= c < K1.colptr@.len() implies #[trigger] K1.colptr@[c] == 0 by { }
            assert forall|c: int| 0 <= c < K1.colptr@.len() implies K1.colptr@[c] + P.rowval@.len() <= usize::MAX by { if c < gn { assert(K1.colptr@[c] == mdn(*P, c)); } }
        }
//@after_stmt 2
        let ghost K2 = *K;
        proof {
            assert forall|c: int| 0 <= c < gn implies #[trigger] K2.colptr@[c] == mdn(*P, c) + prow(*P, c) by { assert(K2.colptr@[c] == K1.colptr@[c] + count_row(P.rowval@, c - 0, P.rowval@.len() as int)); }
            assert forall|c: int| gn <= c < K2.colptr@.len() implies #[trigger] K2.colptr@[c] == 0 by {
                assert(K1.colptr@[c] == 0);
                lemma_count_row_absent(P.rowval@, c - 0, P.rowval@.len() as int);
            }
            assert forall|i: int| 0 <= i < A.n implies #[trigger] K2.colptr@[0 + i] + A.colptr@[A.n as int] <= usize::MAX by {
                assert(K2.colptr@[i] == mdn(*P, i) + prow(*P, i));
                lemma_count_row_le(P.rowval@, i, P.rowval@.len() as int);
            }
        }
//@after_stmt 3
        proof {
            assert forall|c: int| 0 <= c < gn implies #[trigger] K.colptr@[c] == mdn(*P, c) + prow(*P, c) + pcnt(*A, c) by {
                assert(K.colptr@[0 + c] == K2.colptr@[0 + c] + (A.colptr@[c + 1] - A.colptr@[c]));
            }
            assert forall|c: int| gn <= c < K.colptr@.len() implies #[trigger] K.colptr@[c] == 0 by { assert(K2.colptr@[c] == 0); }
        }
//@end

//@fn file=src/qdldl/qdldl.rs name=_permute_symmetric_inner rules=R1,R18,zipidx:3=mi
//@contract
    requires
        psym_pre(*A, iperm@, A.n as int),
        old(AtoPAPt)@.len() == A.rowval@.len(), old(Pr)@.len() == A.rowval@.len(), old(Pv)@.len() == A.rowval@.len(), old(Pc)@.len() == A.n + 1,
    ensures
        final(AtoPAPt)@.len() == A.rowval@.len(), final(Pr)@.len() == A.rowval@.len(), final(Pv)@.len() == A.rowval@.len(), final(Pc)@.len() == A.n + 1,
        // C12 / C08: P = perm(A): column pointers count the entries by target column; entry k of A sits in slot AtoPAPt[k] = tpos(k)
        // of its target column max(ip r, ip c), with row min(ip r, ip c) and the same value; k -> tpos(k) is injective (lemma_tpos_distinct)
        forall|c: int| 0 <= c <= A.n ==> #[trigger] final(Pc)@[c] == below(tgseq(*A, iperm@), c, A.rowval@.len() as int),
        forall|k: int| 0 <= k < A.rowval@.len() ==> #[trigger] final(AtoPAPt)@[k] == tpos(tgseq(*A, iperm@), k),
        forall|k: int| 0 <= k < A.rowval@.len() ==> final(Pc)@[tgt(*A, iperm@, k) as int] <= #[trigger] tpos(tgseq(*A, iperm@), k) < final(Pc)@[tgt(*A, iperm@, k) + 1],
        forall|k: int| 0 <= k < A.rowval@.len() ==> final(Pr)@[tpos(tgseq(*A, iperm@), k)] == umin(iperm@[#[trigger] A.rowval@[k] as int], iperm@[colof(*A, k)])
            && final(Pr)@[tpos(tgseq(*A, iperm@), k)] <= tgt(*A, iperm@, k),
        forall|k: int| 0 <= k < A.rowval@.len() ==> final(Pv)@[tpos(tgseq(*A, iperm@), k)] == #[trigger] A.nzval@[k],
//@pre
    let ghost tg = tgseq(*A, iperm@);
    let ghost gn = A.n as int;
    let ghost nnz = A.rowval@.len() as int;
    proof { lemma_tg_bound(*A, iperm@, gn); assert(A.rowval@.len() == A.rowval.len()); }
//@iter 1
it0
//@loop 1
        invariant
            it0.seq().len() == n, range_from_u(it0.seq(), 0), n == gn, psym_pre(*A, iperm@, gn), tg == tgseq(*A, iperm@), nnz == A.rowval@.len(), nnz <= usize::MAX,
            Ar@ == A.rowval@, Ac@ == A.colptr@, num_entries@.len() == n,
            forall|q: int| 0 <= q < tg.len() ==> #[trigger] tg[q] < gn, tg.len() == nnz,
            forall|c: int| 0 <= c < n ==> #[trigger] num_entries@[c] == count_row(tg, c, A.colptr@[it0.index@ as int] as int),
//@body_start 1
        let ghost gc = colA as int;
        proof { assert(A.colptr@[gc] <= A.colptr@[gc + 1] <= A.colptr@[A.n as int]); }
//@iter 2
it1
//@loop 2
            invariant
                0 <= gc < gn, colA == gc, n == gn, colP == iperm@[gc], psym_pre(*A, iperm@, gn), tg == tgseq(*A, iperm@), nnz == A.rowval@.len(), nnz <= usize::MAX,
                Ar@ == A.rowval@, Ac@ == A.colptr@, num_entries@.len() == n,
                forall|q: int| 0 <= q < tg.len() ==> #[trigger] tg[q] < gn, tg.len() == nnz,
                it1.seq().len() == A.colptr@[gc + 1] - A.colptr@[gc],
                forall|i: int| 0 <= i < it1.seq().len() ==> *(#[trigger] it1.seq()[i]) == A.rowval@[A.colptr@[gc] + i],
                forall|c: int| 0 <= c < n ==> #[trigger] num_entries@[c] == count_row(tg, c, A.colptr@[gc] + it1.index@),
//@body_start 2
            let ghost gk = A.colptr@[gc] + it1.index@;
            proof {
                assert(A.in_col_u(gk, gc));
                lemma_colof(*A, gk, gc);
                assert(*rowA == A.rowval@[gk]);
                assert(tg[gk] == umax(iperm@[A.rowval@[gk] as int], iperm@[gc]));
                lemma_count_row_le(tg, tg[gk] as int, gk);
                assert(forall|c: int| 0 <= c < n ==> count_row(tg, c, gk + 1) == count_row(tg, c, gk) + (if tg[gk] == c { 1int } else { 0int }));
            }
//@before "Pc[0] = 0;"
    proof {
        assert forall|c: int| 0 <= c < n implies #[trigger] num_entries@[c] == count_row(tg, c, nnz) by { }
        lemma_below_zero(tg, 0);
    }
//@iter 3
it2
//@loop 3
        invariant
            it2.seq().len() == r14_n1, range_from_u(it2.seq(), 0), r14_n1 == n, r14_lo1_0 == 1, r14_hi1_0 == n + 1, n == gn, Pc@.len() == n + 1, num_entries@.len() == n,
            tg.len() == nnz, nnz <= usize::MAX, forall|q: int| 0 <= q < tg.len() ==> #[trigger] tg[q] < gn,
            forall|c: int| 0 <= c < n ==> #[trigger] num_entries@[c] == count_row(tg, c, nnz),
            acc == below(tg, it2.index@ as int, nnz),
            forall|c: int| 0 <= c <= it2.index@ ==> #[trigger] Pc@[c] == below(tg, c, nnz),
//@body_start 3
        proof { lemma_below_le(tg, it2.index@ + 1, nnz); }
//@before "num_entries.copy_from_slice("
    proof { assert forall|c: int| 0 <= c <= n implies #[trigger] Pc@[c] == below(tg, c, nnz) by { } }
//@before "let mut row_starts = num_entries;"
    proof { assert(num_entries@ =~= Pc@.subrange(0, n as int)); }
//@iter 4
it3
//@loop 4
        invariant
            it3.seq().len() == n, range_from_u(it3.seq(), 0), n == gn, psym_pre(*A, iperm@, gn), tg == tgseq(*A, iperm@), nnz == A.rowval@.len(), nnz <= usize::MAX,
            Ar@ == A.rowval@, Ac@ == A.colptr@, Av@ == A.nzval@, Pc@.len() == n + 1,
            forall|q: int| 0 <= q < tg.len() ==> #[trigger] tg[q] < gn, tg.len() == nnz,
            forall|c: int| 0 <= c <= n ==> #[trigger] Pc@[c] == below(tg, c, nnz),
            psym_state(*A, iperm@, tg, gn, A.colptr@[it3.index@ as int] as int, row_starts@, AtoPAPt@, Pr@, Pv@),
//@body_start 4
        let ghost gc = colA as int;
        proof { assert(A.colptr@[gc] <= A.colptr@[gc + 1] <= A.colptr@[A.n as int]); }
//@iter 5
it4
//@loop 5
            invariant
                0 <= gc < gn, colA == gc, n == gn, colP == iperm@[gc], psym_pre(*A, iperm@, gn), tg == tgseq(*A, iperm@), nnz == A.rowval@.len(), nnz <= usize::MAX,
                Ar@ == A.rowval@, Ac@ == A.colptr@, Av@ == A.nzval@, Pc@.len() == n + 1,
                forall|q: int| 0 <= q < tg.len() ==> #[trigger] tg[q] < gn, tg.len() == nnz,
                forall|c: int| 0 <= c <= n ==> #[trigger] Pc@[c] == below(tg, c, nnz),
                it4.seq().len() == A.colptr@[gc + 1] - A.colptr@[gc], range_from_u(it4.seq(), A.colptr@[gc] as int),
                A.colptr@[gc] <= A.colptr@[gc + 1] <= nnz,
                psym_state(*A, iperm@, tg, gn, A.colptr@[gc] + it4.index@, row_starts@, AtoPAPt@, Pr@, Pv@),
//@body_start 5
            let ghost gk = rowA_idx as int;
            let ghost s1 = row_starts@; let ghost m1 = AtoPAPt@; let ghost r1 = Pr@; let ghost v1 = Pv@;
            proof {
                assert(A.in_col_u(gk, gc));
                lemma_colof(*A, gk, gc);
                assert(tg[gk] == umax(iperm@[A.rowval@[gk] as int], iperm@[gc]));
                lemma_tpos_range(tg, gk, gn);
                assert(s1[tg[gk] as int] == tpos(tg, gk));
            }
//@body_end 5
            proof { lemma_psym_step(*A, iperm@, tg, gn, gk, gc, s1, m1, r1, v1, row_starts@, AtoPAPt@, Pr@, Pv@); }
//@post
    proof {
        lemma_below_total(tg, gn, nnz);
        assert forall|k: int| 0 <= k < nnz implies Pc@[tgt(*A, iperm@, k) as int] <= #[trigger] tpos(tg, k) < Pc@[tgt(*A, iperm@, k) + 1] by {
            lemma_tpos_range(tg, k, gn);
            let t = tg[k] as int;
            assert(t == tgt(*A, iperm@, k));
            assert(Pc@[t] == below(tg, t, nnz)); assert(Pc@[t + 1] == below(tg, t + 1, nnz));
        }
        assert forall|k: int| 0 <= k < nnz implies Pr@[tpos(tg, k)] == umin(iperm@[#[trigger] A.rowval@[k] as int], iperm@[colof(*A, k)]) && Pr@[tpos(tg, k)] <= tgt(*A, iperm@, k) by {
            assert(tg[k] == tgt(*A, iperm@, k));
        }
    }
//@end

//@fn file=src/qdldl/qdldl.rs name=permute_symmetric rules=R1 ret=r
//@contract
    requires psym_pre(*A, iperm@, A.n as int), A.n < usize::MAX,
    ensures
        // C12: (P, AtoPAPt) = the symmetric permutation of the upper-triangular A and its entry map
        r.0.m == A.n, r.0.n == A.n, r.0.colptr@.len() == A.n + 1, r.0.rowval@.len() == A.rowval@.len(), r.0.nzval@.len() == A.rowval@.len(), r.1@.len() == A.rowval@.len(),
        forall|c: int| 0 <= c <= A.n ==> #[trigger] r.0.colptr@[c] == below(tgseq(*A, iperm@), c, A.rowval@.len() as int),
        forall|k: int| 0 <= k < A.rowval@.len() ==> #[trigger] r.1@[k] == tpos(tgseq(*A, iperm@), k),
        forall|k: int| 0 <= k < A.rowval@.len() ==> r.0.colptr@[tgt(*A, iperm@, k) as int] <= #[trigger] tpos(tgseq(*A, iperm@), k) < r.0.colptr@[tgt(*A, iperm@, k) + 1],
        forall|k: int| 0 <= k < A.rowval@.len() ==> r.0.rowval@[tpos(tgseq(*A, iperm@), k)] == umin(iperm@[#[trigger] A.rowval@[k] as int], iperm@[colof(*A, k)])
            && r.0.rowval@[tpos(tgseq(*A, iperm@), k)] <= tgt(*A, iperm@, k),
        forall|k: int| 0 <= k < A.rowval@.len() ==> r.0.nzval@[tpos(tgseq(*A, iperm@), k)] == #[trigger] A.nzval@[k],
//@end
impl CscMatrix<F> {
//@fn file=src/algebra/csc/core.rs in="ShapedMatrix for CscMatrix<T>" name=size rules=R1 ret=r
//@contract
    ensures r == (self.m, self.n)
//@end
}

//@enum file=src/algebra/error_types.rs name=MatrixConcatenationError rules=R12 derive="PartialEq, Eq, Clone, Copy, Structural"
impl CscMatrix<F> {
//@fn file=src/algebra/csc/core.rs in="ShapedMatrix for CscMatrix<T>" name=ncols rules=R1 ret=r
//@contract
    ensures r == self.n
//@end
//@fn file=src/algebra/csc/block_concatenate.rs in="BlockConcatenate for CscMatrix<T>" name=blockdiag rules=R1,R29,zipidx:1=i;2=i;3=i;4=i ret=r
//@contract
    requires bd_pre(mats@),
    ensures
        // C16 (block-diagonal concatenation): block b occupies rows rs(b).. and columns cs(b)..; its entries keep their order and values
        mats@.len() == 0 <==> r is Err,
        r matches Ok(R) ==> bd_post(mats@, R),
//@pre
        let ghost ms = mats@;
        let ghost nb = mats@.len() as int;
        proof { assert(mats@.len() == mats.len()); }
//@iter 1
it0
//@loop 1
            invariant
                it0.seq().len() == r14_n1, range_from_u(it0.seq(), 0), r14_n1 == nb, ms == mats@, nb == mats@.len(), bd_pre(ms),
                nrows == bd_rs(ms, it0.index@ as int), ncols == bd_cs(ms, it0.index@ as int), nnzM == bd_bs(ms, it0.index@ as int),
//@body_start 1
            proof { let k = it0.index@ as int; assert(bd_blk_ok(*ms[k])); lemma_bd_mono(ms, k + 1, nb); }
//@before "let mut nextcol = 0;" #1
        proof { assert(bd_counts(ms, M.colptr@, 0)) by { lemma_bd_mono(ms, 0, 0); } }
//@iter 2
it1
//@loop 2
            invariant
                it1.seq().len() == r14_n2, range_from_u(it1.seq(), 0), r14_n2 == nb, ms == mats@, nb == mats@.len(), bd_pre(ms), nb > 0,
                nextcol == bd_cs(ms, it1.index@ as int), bd_counts(ms, M.colptr@, it1.index@ as int),
                M.m == bd_rs(ms, nb), M.n == bd_cs(ms, nb), M.rowval@.len() == bd_bs(ms, nb), M.nzval@.len() == bd_bs(ms, nb),
//@body_start 2
            let ghost gk = it1.index@ as int;
            let ghost cp1 = M.colptr@;
            proof {
                assert(bd_blk_ok(*ms[gk])); lemma_bd_mono(ms, gk + 1, nb); lemma_bd_mono(ms, gk, gk);
                assert forall|i: int| 0 <= i < ms[gk].n implies ms[gk].colptr@[i] <= #[trigger] ms[gk].colptr@[i + 1] by { }
                assert forall|i: int| 0 <= i < ms[gk].n implies #[trigger] cp1[nextcol + i] + ms[gk].colptr@[ms[gk].n as int] <= usize::MAX by {
                    assert(cp1[bd_cs(ms, gk) + i] == 0); lemma_bd_mono(ms, gk + 1, nb);
                }
            }
//@after "M.colcount_block(mat, nextcol, MatrixShape::N);"
            proof { lemma_bd_count_step(ms, cp1, M.colptr@, gk); }
//@before "M.colcount_to_colptr();"
        let ghost cnt = M.colptr@;
        proof { lemma_bd_total(ms, cnt); }
//@after "M.colcount_to_colptr();"
        let ghost st = M.colptr@;
        proof {
            assert(bd_starts_ok(ms, st)) by {
                assert forall|b: int, i: int| 0 <= b < ms.len() && 0 <= i <= ms[b].n implies #[trigger] st[bd_cs(ms, b) + i] == bd_bs(ms, b) + ms[b].colptr@[i] by {
                    lemma_bd_starts(ms, cnt, b, i); lemma_bd_mono(ms, b + 1, nb); lemma_bd_mono(ms, b, b);
                }
            }
            assert(bd_filled(ms, st, M, 0));
        }
//@iter 3
it2
//@loop 3
            invariant
                it2.seq().len() == r14_n3, range_from_u(it2.seq(), 0), r14_n3 == nb, ms == mats@, nb == mats@.len(), bd_pre(ms),
                it2.index@ > 0 ==> r29_m1 is Some,
                forall|b: int| 0 <= b < it2.index@ ==> r29_m1 is Some && #[trigger] ms[b].rowval@.len() <= r29_m1->Some_0,
//@body_start 3
            proof { assert(bd_blk_ok(*ms[it2.index@ as int])); }
//@iter 4
it3
//@loop 4
            invariant
                it3.seq().len() == r14_n4, range_from_u(it3.seq(), 0), r14_n4 == nb, ms == mats@, nb == mats@.len(), bd_pre(ms), nb > 0,
                nextrow == bd_rs(ms, it3.index@ as int), nextcol == bd_cs(ms, it3.index@ as int),
                bd_starts_ok(ms, st), bd_filled(ms, st, M, it3.index@ as int), st[0] == 0,
                M.m == bd_rs(ms, nb), M.n == bd_cs(ms, nb),
                forall|b: int| 0 <= b < nb ==> #[trigger] ms[b].rowval@.len() <= dummymap@.len(),
//@body_start 4
            let ghost gk = it3.index@ as int;
            let ghost K1 = M;
            proof {
                assert(bd_blk_ok(*ms[gk])); lemma_bd_mono(ms, gk + 1, nb); lemma_bd_mono(ms, gk, gk);
                lemma_bd_fill_pre(ms, st, K1, gk);
            }
//@after "M.fill_block(mat, &mut dummymap, nextrow, nextcol, MatrixShape::N);"
            proof { lemma_bd_fill_step(ms, st, K1, M, dummymap@, gk); }
//@before "M.backshift_colptrs();"
        let ghost K4 = M;
//@after "M.backshift_colptrs();"
        proof { lemma_bd_final(ms, st, K4, M); }
//@end
//@fn file=src/algebra/csc/block_concatenate.rs in="BlockConcatenate for CscMatrix<T>" name=hcat rules=R1 ret=r
//@contract
    requires A.m == B.m ==> cat_ok(*A, *B),
    ensures
        // C16: [A B]: rejected iff the heights differ; otherwise the columns of A followed by the columns of B, entries and order kept
        r is Ok <==> A.m == B.m,
        r matches Ok(R) ==> hcat_post(*A, *B, R),
//@pre
        proof {
            assert forall|g: Seq<&[&CscMatrix<F>]>| is_hgrid(g, A, B) implies (#[trigger] grid_ok(g) <==> A.m == B.m) && (grid_ok(g) ==> hv_pre(g)) by { lemma_hgrid(g, A, B); }
        }
//@post
        proof {
            assert forall|g: Seq<&[&CscMatrix<F>]>, R: CscMatrix<F>| is_hgrid(g, A, B) && A.m == B.m && cat_ok(*A, *B) && #[trigger] hv_post(g, R) implies hcat_post(*A, *B, R) by { lemma_hcat_post(g, A, B, R); }
        }
//@end
//@fn file=src/algebra/csc/block_concatenate.rs in="BlockConcatenate for CscMatrix<T>" name=vcat rules=R1 ret=r
//@contract
    requires A.n == B.n ==> cat_ok(*A, *B),
    ensures
        // C16: [A; B]: rejected iff the widths differ; otherwise column c holds the entries of column c of A, then those of column c of B (rows shifted by A.m)
        r is Ok <==> A.n == B.n,
        r matches Ok(R) ==> vcat_post(*A, *B, R),
//@pre
        proof {
            assert forall|g: Seq<&[&CscMatrix<F>]>| is_vgrid(g, A, B) implies (#[trigger] grid_ok(g) <==> A.n == B.n) && (grid_ok(g) ==> hv_pre(g)) by { lemma_vgrid(g, A, B); }
        }
//@post
        proof {
            assert forall|g: Seq<&[&CscMatrix<F>]>, R: CscMatrix<F>| is_vgrid(g, A, B) && A.n == B.n && cat_ok(*A, *B) && #[trigger] hv_post(g, R) implies vcat_post(*A, *B, R) by { lemma_vcat_post(g, A, B, R); }
        }
//@end
//@fn file=src/algebra/csc/block_concatenate.rs in="BlockConcatenate for CscMatrix<T>" name=hvcat rules=R1,R18,R30,zipidx:1=i;2=i;3=i;4=i;6=i;8=i ret=r
//@contract
    requires grid_ok(mats@) ==> hv_pre(mats@),
    ensures
        // C16: a block grid with inconsistent shapes is rejected, a consistent one is concatenated
        r is Ok <==> grid_ok(mats@),
        // C16 (general block concatenation; hcat and vcat are the 1 x 2 and 2 x 1 cases): block (q, p) occupies rows rs(q).. and
        // columns cs(p)..; inside a column the entries of the block rows follow one another, each block's entries in their order
        r matches Ok(R) ==> hv_post(mats@, R),
//@pre
        let ghost g = mats@;
        let ghost nr = mats@.len() as int;
        let ghost nc = mats@[0]@.len() as int;
//@after "hvcat_dim_check(mats)?;"
        proof { assert(mats@.len() == mats.len()); assert(mats@[0]@.len() == mats[0].len()); }
//@iter 1
it0
//@loop 1
            invariant
                it0.seq().len() == r14_n1, range_from_u(it0.seq(), 0), r14_n1 == nr, g == mats@, nr == g.len(), hv_pre(g),
                r30_s1 == hv_rs(g, it0.index@ as int),
//@body_start 1
            proof { let k = it0.index@ as int; lemma_hv_block(g, k, 0); lemma_hv_mono(g, k + 1, nr); }
//@iter 2
it1
//@loop 2
            invariant
                it1.seq().len() == r14_n2, range_from_u(it1.seq(), 0), r14_n2 == nc, g == mats@, nc == g[0]@.len(), nr == g.len(), hv_pre(g),
                r30_s2 == hv_cs(g, it1.index@ as int),
//@body_start 2
            proof { let k = it1.index@ as int; lemma_hv_block(g, 0, k); lemma_hv_mono(g, k + 1, nc); }
//@iter 3
it2
//@loop 3
            invariant
                it2.seq().len() == r14_n3, range_from_u(it2.seq(), 0), r14_n3 == nr, g == mats@, nc == g[0]@.len(), nr == g.len(), hv_pre(g),
                nnzM == hv_tot(g, it2.index@ as int), hv_maxok(g, it2.index@ as int, 0, maxblocknnz as int),
//@body_start 3
            let ghost gq = it2.index@ as int;
            proof { lemma_hv_block(g, gq, 0); }
//@iter 4
it3
//@loop 4
                invariant
                    it3.seq().len() == r14_n4, range_from_u(it3.seq(), 0), r14_n4 == nc, g == mats@, nc == g[0]@.len(), nr == g.len(), hv_pre(g),
                    0 <= gq < nr, blockrow@ == g[gq]@,
                    nnzM == hv_tot(g, gq) + hv_rownnz(g, gq, it3.index@ as int), hv_maxok(g, gq, it3.index@ as int, maxblocknnz as int),
//@body_start 4
                let ghost gp = it3.index@ as int;
                proof {
                    lemma_hv_block(g, gq, gp);
                    lemma_hv_rownnz_mono(g, gq, gp + 1, nc); lemma_hv_tot_mono(g, gq + 1, nr); lemma_hv_tot_mono(g, gq, gq); lemma_hv_tot_base(g);
                    lemma_hv_rownnz_mono(g, gq, gp, gp);
                }
//@before "let mut M ="
        proof { lemma_hv_tot_base(g); }
//@before "let mut currentcol = 0;" #1
        proof {
            assert(hv_counts(g, M.colptr@, 0, 0)) by {
                assert forall|p1: int, l: int| #[trigger] hslot(p1, l) && 0 <= p1 < nc && 0 <= l < g[0]@[p1].n implies M.colptr@[hv_cs(g, p1) + l] == hv_cnt(g, p1, l, hv_done(p1, 0, 0, nr)) by {
                    lemma_hv_block(g, 0, p1); lemma_hv_mono(g, p1 + 1, nc); lemma_hv_mono(g, p1, p1);
                }
            }
        }
//@iter 5
it4
//@loop 5
            invariant
                it4.seq().len() == nc, range_from_u(it4.seq(), 0), g == mats@, nc == g[0]@.len(), nr == g.len(), hv_pre(g),
                currentcol == hv_cs(g, it4.index@ as int), hv_counts(g, M.colptr@, it4.index@ as int, 0),
                M.m == hv_rs(g, nr), M.n == hv_cs(g, nc), M.rowval@.len() == hv_base(g, nc), M.nzval@.len() == hv_base(g, nc),
//@body_start 5
            let ghost gp = it4.index@ as int;
//@iter 6
it5
//@loop 6
                invariant
                    it5.seq().len() == r14_n5, range_from_u(it5.seq(), 0), r14_n5 == nr, g == mats@, nc == g[0]@.len(), nr == g.len(), hv_pre(g),
                    0 <= gp < nc, i == gp, currentcol == hv_cs(g, gp), hv_counts(g, M.colptr@, gp, it5.index@ as int),
                    M.m == hv_rs(g, nr), M.n == hv_cs(g, nc), M.rowval@.len() == hv_base(g, nc), M.nzval@.len() == hv_base(g, nc),
//@body_start 6
                let ghost gq = it5.index@ as int;
                let ghost cp1 = M.colptr@;
                proof { lemma_hv_block(g, gq, gp); lemma_hv_count_pre(g, cp1, gp, gq); }
//@after "M.colcount_block(blockrow[i], currentcol, MatrixShape::N);"
                proof { lemma_hv_count_step(g, cp1, M.colptr@, gp, gq); }
//@before "currentcol += mats[0][i].ncols();" #1
            proof { lemma_hv_counts_next(g, M.colptr@, gp); lemma_hv_block(g, 0, gp); lemma_hv_mono(g, gp + 1, nc); }
//@before "M.colcount_to_colptr();"
        let ghost cnt = M.colptr@;
        proof { lemma_hv_total(g, cnt); }
//@after "M.colcount_to_colptr();"
        let ghost st = M.colptr@;
        proof {
            assert(hv_starts_ok(g, st)) by {
                assert forall|p: int, l: int| #[trigger] hslot(p, l) && 0 <= p < nc && 0 <= l <= g[0]@[p].n implies st[hv_cs(g, p) + l] == hv_st(g, p, l) by {
                    lemma_hv_starts(g, cnt, p, l); lemma_hv_block(g, 0, p); lemma_hv_mono(g, p + 1, nc); lemma_hv_mono(g, p, p);
                }
            }
            assert(hv_filled(g, st, M, 0, 0));
        }
//@iter 7
it6
//@loop 7
            invariant
                it6.seq().len() == nc, range_from_u(it6.seq(), 0), g == mats@, nc == g[0]@.len(), nr == g.len(), hv_pre(g),
                currentcol == hv_cs(g, it6.index@ as int), hv_starts_ok(g, st), hv_filled(g, st, M, it6.index@ as int, 0), st[0] == 0,
                M.m == hv_rs(g, nr), M.n == hv_cs(g, nc), hv_maxok(g, nr, 0, dummymap@.len() as int),
//@body_start 7
            let ghost gp = it6.index@ as int;
//@iter 8
it7
//@loop 8
                invariant
                    it7.seq().len() == r14_n6, range_from_u(it7.seq(), 0), r14_n6 == nr, g == mats@, nc == g[0]@.len(), nr == g.len(), hv_pre(g),
                    0 <= gp < nc, i == gp, currentcol == hv_cs(g, gp), currentrow == hv_rs(g, it7.index@ as int),
                    hv_starts_ok(g, st), hv_filled(g, st, M, gp, it7.index@ as int), st[0] == 0,
                    M.m == hv_rs(g, nr), M.n == hv_cs(g, nc), hv_maxok(g, nr, 0, dummymap@.len() as int),
//@body_start 8
                let ghost gq = it7.index@ as int;
                let ghost K1 = M;
                proof { lemma_hv_block(g, gq, gp); lemma_hv_fill_pre(g, st, K1, gp, gq); lemma_hv_mono(g, gq + 1, nr); }
//@after "M.fill_block("
                proof { lemma_hv_fill_step(g, st, K1, M, dummymap@, gp, gq); }
//@before "currentcol += mats[0][i].ncols();" #2
            proof { lemma_hv_filled_next(g, st, M, gp); lemma_hv_block(g, 0, gp); lemma_hv_mono(g, gp + 1, nc); }
//@before "M.backshift_colptrs();"
        let ghost K4 = M;
//@after "M.backshift_colptrs();"
        proof { lemma_hv_final(g, st, K4, M); }
//@end
}

//@fn file=src/algebra/matrix_traits.rs name=hvcat_dim_check rules=R3,tparam:MAT>CscF ret=r
//@contract
    ensures
        // C16: block grids with inconsistent shapes are rejected, consistent ones accepted
        r is Ok <==> grid_ok(mats@),
//@iter 1
it0
//@loop 1
        invariant
            mats@.len() >= 1, mats@[0]@.len() >= 1, len0 == mats@[0]@.len(),
            it0.seq().len() == mats@.len() - 1, (forall|q: int| 0 <= q < it0.seq().len() ==> *(#[trigger] it0.seq()[q]) == mats@[q + 1]),
            forall|q: int| 1 <= q < it0.index@ + 1 ==> (#[trigger] mats@[q])@.len() == len0,
//@before "return Err(MatrixConcatenationError::IncompatibleDimension);" #2
            proof { assert(mats@[it0.index@ + 1]@.len() != mats@[0]@.len()); }
//@iter 2
it1
//@loop 2
        invariant
            mats@.len() >= 1, mats@[0]@.len() >= 1, forall|q: int| 0 <= q < mats@.len() ==> (#[trigger] mats@[q])@.len() == mats@[0]@.len(),
            it1.seq().len() == mats@.len(), (forall|q: int| 0 <= q < it1.seq().len() ==> *(#[trigger] it1.seq()[q]) == mats@[q]),
            forall|q: int, p: int| 0 <= q < it1.index@ && 0 <= p < mats@[0]@.len() ==> (#[trigger] mats@[q]@[p]).m == mats@[q]@[0].m,
//@body_start 2
        let ghost gq = it1.index@ as int;
//@iter 3
it2
//@loop 3
            invariant
                blockrow@ == mats@[gq]@, blockrow@.len() >= 1, rows == blockrow@[0].m, 0 <= gq < mats@.len(),
                forall|q: int| 0 <= q < mats@.len() ==> (#[trigger] mats@[q])@.len() == mats@[0]@.len(),
                it2.seq().len() == blockrow@.len() - 1, (forall|p: int| 0 <= p < it2.seq().len() ==> *(#[trigger] it2.seq()[p]) == blockrow@[p + 1]),
                forall|p: int| 1 <= p < it2.index@ + 1 ==> (#[trigger] blockrow@[p]).m == rows,
//@before "return Err(MatrixConcatenationError::IncompatibleDimension);" #3
                proof { assert(mats@[gq]@[it2.index@ + 1].m != mats@[gq]@[0].m); }
//@before_loop 4
    proof { assert(mats@[0]@.len() == mats[0].len()); }
//@iter 4
it3
//@loop 4
        invariant
            mats@.len() >= 1, mats@[0]@.len() >= 1, forall|q: int| 0 <= q < mats@.len() ==> (#[trigger] mats@[q])@.len() == mats@[0]@.len(),
            forall|q: int, p: int| 0 <= q < mats@.len() && 0 <= p < mats@[0]@.len() ==> (#[trigger] mats@[q]@[p]).m == mats@[q]@[0].m,
            it3.seq().len() == mats@[0]@.len(), (forall|p: int| 0 <= p < it3.seq().len() ==> *(#[trigger] it3.seq()[p]) == mats@[0]@[p]), blockcol_ctr == it3.index@,
            mats@[0]@.len() <= usize::MAX,
            forall|q: int, p: int| 0 <= q < mats@.len() && 0 <= p < it3.index@ ==> (#[trigger] mats@[q]@[p]).n == mats@[0]@[p].n,
//@body_start 4
        let ghost gp = it3.index@ as int;
//@iter 5
it4
//@loop 5
            invariant
                0 <= gp < mats@[0]@.len(), blockcol == gp, cols == mats@[0]@[gp].n, forall|q: int| 0 <= q < mats@.len() ==> (#[trigger] mats@[q])@.len() == mats@[0]@.len(),
                it4.seq().len() == mats@.len() - 1, (forall|q: int| 0 <= q < it4.seq().len() ==> *(#[trigger] it4.seq()[q]) == mats@[q + 1]),
                forall|q: int| 1 <= q < it4.index@ + 1 ==> (#[trigger] mats@[q]@[gp]).n == cols,
//@before "return Err(MatrixConcatenationError::IncompatibleDimension);" #4
                proof { assert(mats@[it4.index@ + 1]@[gp].n != mats@[0]@[gp].n); }
//@end


// ---- sparse expansion cones (second-order cones of dimension > 4, generalized power cones): auxiliary rows / columns ----
//@struct file=src/solver/core/cones/socone.rs name=SecondOrderCone keep=dim,w rules=R2
//@struct file=src/solver/core/cones/genpowcone.rs name=GenPowerCone keep=α,dim2 rules=R2
//@struct file=src/solver/core/kktsolvers/direct/quasidef/datamaps.rs name=SOCExpansionMap
//@struct file=src/solver/core/kktsolvers/direct/quasidef/datamaps.rs name=GenPowExpansionMap
//@enum file=src/solver/core/kktsolvers/direct/quasidef/datamaps.rs name=SparseExpansionMap rules=R12
impl SOCExpansionMap {
//@fn file=src/solver/core/kktsolvers/direct/quasidef/datamaps.rs in="SparseExpansionMapTrait for SOCExpansionMap" name=pdim ret=r
//@contract
    ensures r == 2
//@end
}
impl GenPowExpansionMap {
//@fn file=src/solver/core/kktsolvers/direct/quasidef/datamaps.rs in="SparseExpansionMapTrait for GenPowExpansionMap" name=pdim ret=r
//@contract
    ensures r == 3
//@end
}
// entries the expansion of a second-order cone adds to column c: Triu: the dense columns u, v (nvars entries each) sit in the
// two auxiliary columns; Tril: they are rows, one entry in each of the cone's own columns; plus the 2 x 2 diagonal block
pub open spec fn soc_cnt(shape: MatrixTriangle, row: int, col: int, nvars: int, c: int) -> int {
    (if col <= c < col + 2 { 1int } else { 0int })
    + (if shape == MatrixTriangle::Triu { if col <= c < col + 2 { nvars } else { 0int } } else { if row <= c < row + nvars { 2int } else { 0int } })
}

// cursor discipline shared by the sparse-cone fills: `need(c)` entries go into column c; the cursor K.colptr[c] leaves room for
// them before the cursor of every later column and before the end of the arrays
pub open spec fn sx_room(K: CscMatrix<F>, need: spec_fn(int) -> int) -> bool {
    &&& forall|c: int| 0 <= c < K.colptr@.len() ==> need(c) >= 0 && #[trigger] K.colptr@[c] + need(c) <= K.rowval@.len()
    &&& forall|a: int, b: int| 0 <= a < b < K.colptr@.len() ==> #[trigger] K.colptr@[a] + need(a) <= #[trigger] K.colptr@[b]
}
pub proof fn lemma_sx_room(K: CscMatrix<F>, need: spec_fn(int) -> int, a: int, b: int)
    requires sx_room(K, need), 0 <= a < b < K.colptr@.len(),
    ensures K.colptr@[a] + need(a) <= K.colptr@[b], K.colptr@[b] + need(b) <= K.rowval@.len(), need(a) >= 0, need(b) >= 0, K.colptr@[a] + need(a) <= K.rowval@.len(),
{ }
// slot s receives nothing
pub open spec fn sx_free(K: CscMatrix<F>, need: spec_fn(int) -> int, s: int) -> bool {
    forall|c: int| 0 <= c < K.colptr@.len() ==> !(#[trigger] K.colptr@[c] <= s < K.colptr@[c] + need(c))
}
pub proof fn lemma_sx_free(K: CscMatrix<F>, need: spec_fn(int) -> int, s: int)
    requires sx_free(K, need, s),
    ensures forall|c: int| 0 <= c < K.colptr@.len() ==> !(#[trigger] K.colptr@[c] <= s < K.colptr@[c] + need(c)),
{ }
// C11: where the expansion of a second-order cone sits.  Triu: the auxiliary columns col (v) and col + 1 (u) hold the rows
// row .. row + n of the cone as structural zeros, followed by their diagonal entry.  Tril: the same as rows: column c of the cone
// receives (col, c) and (col + 1, c); the auxiliary columns hold their diagonal entry only.  Every slot is recorded in the map.
pub open spec fn soc_fill_post(K0: CscMatrix<F>, K: CscMatrix<F>, v: Seq<usize>, u: Seq<usize>, D: Seq<usize>, shape: MatrixTriangle, row: int, col: int, n: int) -> bool {
    let need = |c: int| soc_cnt(shape, row, col, n, c);
    &&& u.len() == n && v.len() == n && D.len() == 2
    &&& forall|c: int| 0 <= c < K0.colptr@.len() ==> #[trigger] K.colptr@[c] == K0.colptr@[c] + soc_cnt(shape, row, col, n, c)
    &&& shape == MatrixTriangle::Triu ==> {
        let c0 = K0.colptr@[col] as int; let c1 = K0.colptr@[col + 1] as int;
        &&& forall|i: int| 0 <= i < n ==> #[trigger] v[i] == c0 + i && K.rowval@[c0 + i] == row + i && K.nzval@[c0 + i] == f_zero()
        &&& forall|i: int| 0 <= i < n ==> #[trigger] u[i] == c1 + i && K.rowval@[c1 + i] == row + i && K.nzval@[c1 + i] == f_zero()
        &&& D[0] == c0 + n && K.rowval@[c0 + n] == col && K.nzval@[c0 + n] == f_zero()
        &&& D[1] == c1 + n && K.rowval@[c1 + n] == col + 1 && K.nzval@[c1 + n] == f_zero()
    }
    &&& shape == MatrixTriangle::Tril ==> {
        &&& forall|i: int| 0 <= i < n ==> #[trigger] v[i] == K0.colptr@[row + i] && K.rowval@[K0.colptr@[row + i] as int] == col && K.nzval@[K0.colptr@[row + i] as int] == f_zero()
        &&& forall|i: int| 0 <= i < n ==> #[trigger] u[i] == K0.colptr@[row + i] + 1 && K.rowval@[K0.colptr@[row + i] + 1] == col + 1 && K.nzval@[K0.colptr@[row + i] + 1] == f_zero()
        &&& D[0] == K0.colptr@[col] && K.rowval@[K0.colptr@[col] as int] == col && K.nzval@[K0.colptr@[col] as int] == f_zero()
        &&& D[1] == K0.colptr@[col + 1] && K.rowval@[K0.colptr@[col + 1] as int] == col + 1 && K.nzval@[K0.colptr@[col + 1] as int] == f_zero()
    }
    // nothing else is written
    &&& forall|s: int| 0 <= s < K0.rowval@.len() && #[trigger] sx_free(K0, need, s) ==> K.rowval@[s] == K0.rowval@[s] && K.nzval@[s] == K0.nzval@[s]
}
// the effects of the three fill helpers, as predicates over the state before / after (restating their contracts)
pub open spec fn colvec_filled(Ka: CscMatrix<F>, Kb: CscMatrix<F>, v: Seq<usize>, initrow: int, initcol: int) -> bool {
    let d = Ka.colptr@[initcol] as int; let n = v.len() as int;
    &&& Kb.arrays_ok() && Kb.rowval@.len() == Ka.rowval@.len() && Kb.m == Ka.m && Kb.n == Ka.n
    &&& Kb.colptr@ == Ka.colptr@.update(initcol, (d + n) as usize)
    &&& forall|i: int| 0 <= i < n ==> #[trigger] v[i] == d + i
    &&& forall|i: int| 0 <= i < n ==> #[trigger] Kb.rowval@[d + i] == initrow + i
    &&& forall|i: int| 0 <= i < n ==> #[trigger] Kb.nzval@[d + i] == f_zero()
    &&& forall|s: int| 0 <= s < Ka.rowval@.len() && !(d <= s < d + n) ==> #[trigger] Kb.rowval@[s] == Ka.rowval@[s]
    &&& forall|s: int| 0 <= s < Ka.rowval@.len() && !(d <= s < d + n) ==> #[trigger] Kb.nzval@[s] == Ka.nzval@[s]
}
pub open spec fn rowvec_filled(Ka: CscMatrix<F>, Kb: CscMatrix<F>, v: Seq<usize>, initrow: int, initcol: int) -> bool {
    let n = v.len() as int;
    &&& Kb.arrays_ok() && Kb.rowval@.len() == Ka.rowval@.len() && Kb.colptr@.len() == Ka.colptr@.len() && Kb.m == Ka.m && Kb.n == Ka.n
    &&& colptr_same_except(Kb.colptr@, Ka.colptr@, initcol, initcol + n)
    &&& forall|c: int| initcol <= c < initcol + n ==> {
            let dest = #[trigger] Ka.colptr@[c] as int;
            v[c - initcol] == dest && Kb.colptr@[c] == dest + 1 && Kb.rowval@[dest] == initrow && Kb.nzval@[dest] == f_zero() }
    &&& forall|s: int| 0 <= s < Ka.rowval@.len() && #[trigger] untouched(Ka.colptr@, initcol, initcol + n, s) ==> Kb.rowval@[s] == Ka.rowval@[s] && Kb.nzval@[s] == Ka.nzval@[s]
}
pub open spec fn diag_filled(Ka: CscMatrix<F>, Kb: CscMatrix<F>, D: Seq<usize>, offset: int, blockdim: int) -> bool {
    &&& Kb.arrays_ok() && Kb.rowval@.len() == Ka.rowval@.len() && Kb.colptr@.len() == Ka.colptr@.len() && Kb.m == Ka.m && Kb.n == Ka.n
    &&& colptr_same_except(Kb.colptr@, Ka.colptr@, offset, offset + blockdim)
    &&& forall|c: int| offset <= c < offset + blockdim ==> {
            let dest = #[trigger] Ka.colptr@[c] as int;
            D[c - offset] == dest && Kb.colptr@[c] == dest + 1 && Kb.rowval@[dest] == c && Kb.nzval@[dest] == f_zero() }
    &&& forall|s: int| 0 <= s < Ka.rowval@.len() && #[trigger] untouched(Ka.colptr@, offset, offset + blockdim, s) ==> Kb.rowval@[s] == Ka.rowval@[s] && Kb.nzval@[s] == Ka.nzval@[s]
}
#[verifier::spinoff_prover]
pub proof fn lemma_soc_fill_triu(K0: CscMatrix<F>, K1: CscMatrix<F>, K2: CscMatrix<F>, K: CscMatrix<F>, v: Seq<usize>, u: Seq<usize>, D: Seq<usize>, row: int, col: int, n: int)
    requires
        0 <= col, col + 2 <= K0.colptr@.len(), 0 <= row, n >= 0, v.len() == n, u.len() == n, D.len() == 2, K0.arrays_ok(), K0.rowval@.len() <= usize::MAX,
        sx_room(K0, |c: int| soc_cnt(MatrixTriangle::Triu, row, col, n, c)),
        colvec_filled(K0, K1, v, row, col), colvec_filled(K1, K2, u, row, col + 1), diag_filled(K2, K, D, col, 2),
    ensures soc_fill_post(K0, K, v, u, D, MatrixTriangle::Triu, row, col, n),
{
    let need = |c: int| soc_cnt(MatrixTriangle::Triu, row, col, n, c);
    let c0 = K0.colptr@[col] as int; let c1 = K0.colptr@[col + 1] as int;
    assert(need(col) == n + 1 && need(col + 1) == n + 1);
    lemma_sx_room(K0, need, col, col + 1);
    assert(K1.colptr@[col + 1] == c1);
    assert(K2.colptr@[col] == c0 + n && K2.colptr@[col + 1] == c1 + n);
    assert forall|i: int| 0 <= i < n implies #[trigger] v[i] == c0 + i && K.rowval@[c0 + i] == row + i && K.nzval@[c0 + i] == f_zero() by {
        assert(K1.rowval@[c0 + i] == row + i && K1.nzval@[c0 + i] == f_zero());
        assert(K2.rowval@[c0 + i] == K1.rowval@[c0 + i] && K2.nzval@[c0 + i] == K1.nzval@[c0 + i]);
        assert(untouched(K2.colptr@, col, col + 2, c0 + i));
    }
    assert forall|i: int| 0 <= i < n implies #[trigger] u[i] == c1 + i && K.rowval@[c1 + i] == row + i && K.nzval@[c1 + i] == f_zero() by {
        assert(K2.rowval@[c1 + i] == row + i && K2.nzval@[c1 + i] == f_zero());
        assert(untouched(K2.colptr@, col, col + 2, c1 + i));
    }
    assert forall|c: int| 0 <= c < K0.colptr@.len() implies #[trigger] K.colptr@[c] == K0.colptr@[c] + soc_cnt(MatrixTriangle::Triu, row, col, n, c) by { }
    assert forall|s: int| 0 <= s < K0.rowval@.len() && #[trigger] sx_free(K0, need, s) implies K.rowval@[s] == K0.rowval@[s] && K.nzval@[s] == K0.nzval@[s] by {
        lemma_sx_free(K0, need, s);
        assert(!(K0.colptr@[col] <= s < K0.colptr@[col] + need(col)));
        assert(!(K0.colptr@[col + 1] <= s < K0.colptr@[col + 1] + need(col + 1)));
        assert(untouched(K2.colptr@, col, col + 2, s));
        assert(K1.rowval@[s] == K0.rowval@[s] && K2.rowval@[s] == K1.rowval@[s]);
        assert(K1.nzval@[s] == K0.nzval@[s] && K2.nzval@[s] == K1.nzval@[s]);
    }
    assert(D[0] == c0 + n && D[1] == c1 + n);
}
#[verifier::spinoff_prover]
pub proof fn lemma_soc_fill_tril(K0: CscMatrix<F>, K1: CscMatrix<F>, K2: CscMatrix<F>, K: CscMatrix<F>, v: Seq<usize>, u: Seq<usize>, D: Seq<usize>, row: int, col: int, n: int)
    requires
        0 <= col, col + 2 <= K0.colptr@.len(), 0 <= row, n >= 0, row + n <= col, v.len() == n, u.len() == n, D.len() == 2, K0.arrays_ok(),
        sx_room(K0, |c: int| soc_cnt(MatrixTriangle::Tril, row, col, n, c)),
        rowvec_filled(K0, K1, v, col, row), rowvec_filled(K1, K2, u, col + 1, row), diag_filled(K2, K, D, col, 2),
    ensures soc_fill_post(K0, K, v, u, D, MatrixTriangle::Tril, row, col, n),
{
    let need = |c: int| soc_cnt(MatrixTriangle::Tril, row, col, n, c);
    assert(need(col) == 1 && need(col + 1) == 1);
    lemma_sx_room(K0, need, col, col + 1);
    assert forall|c: int| row <= c < row + n implies need(c) == 2 && #[trigger] K1.colptr@[c] == K0.colptr@[c] + 1 && K2.colptr@[c] == K0.colptr@[c] + 2 by { }
    assert(K2.colptr@[col] == K0.colptr@[col] && K2.colptr@[col + 1] == K0.colptr@[col + 1]);
    assert forall|i: int| 0 <= i < n implies #[trigger] v[i] == K0.colptr@[row + i] && K.rowval@[K0.colptr@[row + i] as int] == col && K.nzval@[K0.colptr@[row + i] as int] == f_zero() by {
        let sl = K0.colptr@[row + i] as int;
        assert(need(row + i) == 2);
        lemma_sx_room(K0, need, row + i, col); lemma_sx_room(K0, need, row + i, col + 1);
        assert(untouched(K1.colptr@, row, row + n, sl)) by {
            assert forall|c: int| row <= c < row + n implies #[trigger] K1.colptr@[c] != sl by {
                assert(K1.colptr@[c] == K0.colptr@[c] + 1); assert(need(c) == 2);
                if c < row + i { lemma_sx_room(K0, need, c, row + i); } else if c > row + i { lemma_sx_room(K0, need, row + i, c); }
            }
        }
        assert(K1.rowval@[sl] == col && K1.nzval@[sl] == f_zero());
        assert(untouched(K2.colptr@, col, col + 2, sl));
    }
    assert forall|i: int| 0 <= i < n implies #[trigger] u[i] == K0.colptr@[row + i] + 1 && K.rowval@[K0.colptr@[row + i] + 1] == col + 1 && K.nzval@[K0.colptr@[row + i] + 1] == f_zero() by {
        assert(need(row + i) == 2);
        lemma_sx_room(K0, need, row + i, col); lemma_sx_room(K0, need, row + i, col + 1);
        assert(K1.colptr@[row + i] == K0.colptr@[row + i] + 1);
        assert(untouched(K2.colptr@, col, col + 2, K0.colptr@[row + i] + 1));
    }
    assert forall|c: int| 0 <= c < K0.colptr@.len() implies #[trigger] K.colptr@[c] == K0.colptr@[c] + soc_cnt(MatrixTriangle::Tril, row, col, n, c) by {
        if row <= c < row + n { assert(K2.colptr@[c] == K0.colptr@[c] + 2); }
    }
    assert forall|s: int| 0 <= s < K0.rowval@.len() && #[trigger] sx_free(K0, need, s) implies K.rowval@[s] == K0.rowval@[s] && K.nzval@[s] == K0.nzval@[s] by {
        lemma_sx_free(K0, need, s);
        assert(!(K0.colptr@[col] <= s < K0.colptr@[col] + need(col)));
        assert(!(K0.colptr@[col + 1] <= s < K0.colptr@[col + 1] + need(col + 1)));
        assert(untouched(K2.colptr@, col, col + 2, s));
        assert(untouched(K0.colptr@, row, row + n, s)) by {
            assert forall|c: int| row <= c < row + n implies #[trigger] K0.colptr@[c] != s by { assert(need(c) == 2); }
        }
        assert(untouched(K1.colptr@, row, row + n, s)) by {
            assert forall|c: int| row <= c < row + n implies #[trigger] K1.colptr@[c] != s by { assert(need(c) == 2); assert(K1.colptr@[c] == K0.colptr@[c] + 1); assert(!(K0.colptr@[c] <= s < K0.colptr@[c] + need(c))); }
        }
    }
}
impl SecondOrderCone<F> {
    // ASSUMED (macro-generated accessor impl_map_recover!: returns the payload of the matching variant, panics otherwise)
    #[verifier::external_body]
    pub fn recover_map<'a>(&self, map: &'a SparseExpansionMap) -> (r: &'a SOCExpansionMap)
        ensures map matches SparseExpansionMap::SOCExpansionMap(m) && *r == m,
    { unimplemented!() }
//@fn file=src/solver/core/cones/socone.rs in="Cone<T> for SecondOrderCone<T>" name=numel rules=R1 ret=r
//@contract
    ensures r == self.dim
//@end
//@fn file=src/solver/core/kktsolvers/direct/quasidef/datamaps.rs in="SparseExpansionConeTrait<T> for &'_ SecondOrderCone<T>" name=csc_colcount_sparsecone rules=R1
//@contract
    requires
        col + 2 <= old(K).colptr@.len(), shape == MatrixTriangle::Tril ==> row + self.dim <= old(K).colptr@.len(),
        forall|c: int| 0 <= c < old(K).colptr@.len() ==> #[trigger] old(K).colptr@[c] + soc_cnt(shape, row as int, col as int, self.dim as int, c) <= usize::MAX,
    ensures
        // C11: column counts of the auxiliary rows / columns of the sparse expansion, in either triangle
        final(K).colptr@.len() == old(K).colptr@.len(),
        forall|c: int| 0 <= c < old(K).colptr@.len() ==> #[trigger] final(K).colptr@[c] == old(K).colptr@[c] + soc_cnt(shape, row as int, col as int, self.dim as int, c),
        final(K).rowval@ == old(K).rowval@, final(K).nzval@ == old(K).nzval@, final(K).m == old(K).m, final(K).n == old(K).n,
//@pre
        proof { assert(K.colptr@.len() == K.colptr.len());
                assert(old(K).colptr@[col as int] + soc_cnt(shape, row as int, col as int, self.dim as int, col as int) <= usize::MAX);
                assert(old(K).colptr@[col + 1] + soc_cnt(shape, row as int, col as int, self.dim as int, col + 1) <= usize::MAX);
                assert forall|c: int| row <= c < row + self.dim && shape == MatrixTriangle::Tril implies #[trigger] old(K).colptr@[c] + 2 <= usize::MAX by {
                    assert(old(K).colptr@[c] + soc_cnt(shape, row as int, col as int, self.dim as int, c) <= usize::MAX); } }
//@end
    // ASSUMED (macro-generated accessor impl_map_recover!): a mutable borrow of the payload of the matching variant
    #[verifier::external_body]
    pub fn recover_map_mut<'a>(&self, map: &'a mut SparseExpansionMap) -> (r: &'a mut SOCExpansionMap)
        ensures
            *old(map) matches SparseExpansionMap::SOCExpansionMap(m) && *r == m,
            *final(map) matches SparseExpansionMap::SOCExpansionMap(m) && *final(r) == m,
    { unimplemented!() }
//@fn file=src/solver/core/kktsolvers/direct/quasidef/datamaps.rs in="SparseExpansionConeTrait<T> for &'_ SecondOrderCone<T>" name=csc_fill_sparsecone rules=R1
//@contract
    requires
        *old(map) matches SparseExpansionMap::SOCExpansionMap(m) ==> m.u@.len() == self.dim && m.v@.len() == self.dim,
        old(K).arrays_ok(), col + 2 <= old(K).colptr@.len(), row + self.dim <= usize::MAX,
        shape == MatrixTriangle::Tril ==> row + self.dim <= col,
        // cursor discipline (what the counting pass hands over): every column has room for the entries it receives
        sx_room(*old(K), |c: int| soc_cnt(shape, row as int, col as int, self.dim as int, c)),
    ensures
        final(K).arrays_ok(), final(K).rowval@.len() == old(K).rowval@.len(), final(K).colptr@.len() == old(K).colptr@.len(),
        final(K).m == old(K).m, final(K).n == old(K).n,
        *final(map) matches SparseExpansionMap::SOCExpansionMap(m) && soc_fill_post(*old(K), *final(K), m.v@, m.u@, m.D@, shape, row as int, col as int, self.dim as int),
//@pre
        let ghost K0 = *K;
        let ghost n = self.dim as int;
        let ghost need = |c: int| soc_cnt(shape, row as int, col as int, self.dim as int, c);
        let ghost mut K1 = *K;
        let ghost mut K2 = *K;
        let ghost mut K3 = *K;
        proof {
            assert(K.colptr@.len() == K.colptr.len()); assert(K.rowval@.len() == K.rowval.len());
            assert(need(col as int) >= 1 && need(col + 1) >= 1);
            lemma_sx_room(K0, need, col as int, col + 1);
        }
//@after "K.fill_colvec(&mut map.v, row, col);"
                proof { K1 = *K; assert(colvec_filled(K0, K1, map.v@, row as int, col as int)); }
//@after "K.fill_colvec(&mut map.u, row, col + 1);"
                proof { K2 = *K; assert(colvec_filled(K1, K2, map.u@, row as int, col + 1)); }
//@before "K.fill_rowvec(&mut map.v, col, row);"
                proof {
                    assert forall|c: int| row <= c < row + n implies #[trigger] K0.colptr@[c] + 2 <= K0.rowval@.len() by { assert(need(c) == 2); }
                    assert forall|c1: int, c2: int| row <= c1 < c2 < row + n implies #[trigger] K0.colptr@[c1] + 2 <= #[trigger] K0.colptr@[c2] by { assert(need(c1) == 2); lemma_sx_room(K0, need, c1, c2); }
                }
//@after "K.fill_rowvec(&mut map.v, col, row);"
                proof {
                    K1 = *K; assert(rowvec_filled(K0, K1, map.v@, col as int, row as int));
                    assert forall|c: int| row <= c < row + n implies #[trigger] K1.colptr@[c] == K0.colptr@[c] + 1 by { }
                }
//@after "K.fill_rowvec(&mut map.u, col + 1, row);"
                proof { K2 = *K; assert(rowvec_filled(K1, K2, map.u@, col + 1, row as int)); }
//@before "let pdim = map.pdim();"
        proof {
            K3 = *K;
            if shape == MatrixTriangle::Tril {
                assert(K3.colptr@[col as int] == K0.colptr@[col as int] && K3.colptr@[col + 1] == K0.colptr@[col + 1]);
            } else {
                assert(K3.colptr@[col as int] == K0.colptr@[col as int] + n && K3.colptr@[col + 1] == K0.colptr@[col + 1] + n);
            }
        }
//@post
        proof {
            let m = map->SOCExpansionMap_0;
            assert(diag_filled(K3, *K, m.D@, col as int, 2));
            if shape == MatrixTriangle::Triu { lemma_soc_fill_triu(K0, K1, K2, *K, m.v@, m.u@, m.D@, row as int, col as int, n); }
            else { lemma_soc_fill_tril(K0, K1, K2, *K, m.v@, m.u@, m.D@, row as int, col as int, n); }
        }
//@end
}


// entries the expansion of a generalized power cone adds to column c (q: the first d1 coordinates, r: the last d2, p: all of them)
pub open spec fn gp_cnt(shape: MatrixTriangle, row: int, col: int, d1: int, d2: int, c: int) -> int {
    (if col <= c < col + 3 { 1int } else { 0int })
    + (if shape == MatrixTriangle::Triu { (if c == col { d1 } else { 0int }) + (if c == col + 1 { d2 } else { 0int }) + (if c == col + 2 { d1 + d2 } else { 0int }) }
       else { (if row <= c < row + d1 { 1int } else { 0int }) + (if row + d1 <= c < row + d1 + d2 { 1int } else { 0int }) + (if row <= c < row + d1 + d2 { 1int } else { 0int }) })
}
// C11: where the expansion of a generalized power cone sits.  Triu: auxiliary column col holds q (rows row .. row + d1), col + 1
// holds r (rows row + d1 .. row + d1 + d2), col + 2 holds p (rows row .. row + d1 + d2), each followed by its diagonal entry.
// Tril: the same as rows col, col + 1, col + 2 spread over the cone's own columns (q or r first, then p).
pub open spec fn gp_fill_post(K0: CscMatrix<F>, K: CscMatrix<F>, q: Seq<usize>, r: Seq<usize>, p: Seq<usize>, D: Seq<usize>, shape: MatrixTriangle, row: int, col: int, d1: int, d2: int) -> bool {
    let need = |c: int| gp_cnt(shape, row, col, d1, d2, c);
    &&& q.len() == d1 && r.len() == d2 && p.len() == d1 + d2 && D.len() == 3
    &&& forall|c: int| 0 <= c < K0.colptr@.len() ==> #[trigger] K.colptr@[c] == K0.colptr@[c] + gp_cnt(shape, row, col, d1, d2, c)
    &&& shape == MatrixTriangle::Triu ==> {
        let c0 = K0.colptr@[col] as int; let c1 = K0.colptr@[col + 1] as int; let c2 = K0.colptr@[col + 2] as int;
        &&& forall|i: int| 0 <= i < d1 ==> #[trigger] q[i] == c0 + i && K.rowval@[c0 + i] == row + i && K.nzval@[c0 + i] == f_zero()
        &&& forall|i: int| 0 <= i < d2 ==> #[trigger] r[i] == c1 + i && K.rowval@[c1 + i] == row + d1 + i && K.nzval@[c1 + i] == f_zero()
        &&& forall|i: int| 0 <= i < d1 + d2 ==> #[trigger] p[i] == c2 + i && K.rowval@[c2 + i] == row + i && K.nzval@[c2 + i] == f_zero()
        &&& D[0] == c0 + d1 && K.rowval@[c0 + d1] == col && K.nzval@[c0 + d1] == f_zero()
        &&& D[1] == c1 + d2 && K.rowval@[c1 + d2] == col + 1 && K.nzval@[c1 + d2] == f_zero()
        &&& D[2] == c2 + d1 + d2 && K.rowval@[c2 + d1 + d2] == col + 2 && K.nzval@[c2 + d1 + d2] == f_zero()
    }
    &&& shape == MatrixTriangle::Tril ==> {
        &&& forall|i: int| 0 <= i < d1 ==> #[trigger] q[i] == K0.colptr@[row + i] && K.rowval@[K0.colptr@[row + i] as int] == col && K.nzval@[K0.colptr@[row + i] as int] == f_zero()
        &&& forall|i: int| 0 <= i < d2 ==> #[trigger] r[i] == K0.colptr@[row + d1 + i] && K.rowval@[K0.colptr@[row + d1 + i] as int] == col + 1 && K.nzval@[K0.colptr@[row + d1 + i] as int] == f_zero()
        &&& forall|i: int| 0 <= i < d1 + d2 ==> #[trigger] p[i] == K0.colptr@[row + i] + 1 && K.rowval@[K0.colptr@[row + i] + 1] == col + 2 && K.nzval@[K0.colptr@[row + i] + 1] == f_zero()
        &&& forall|k: int| 0 <= k < 3 ==> #[trigger] D[k] == K0.colptr@[col + k] && K.rowval@[K0.colptr@[col + k] as int] == col + k && K.nzval@[K0.colptr@[col + k] as int] == f_zero()
    }
    // nothing else is written
    &&& forall|s: int| 0 <= s < K0.rowval@.len() && #[trigger] sx_free(K0, need, s) ==> K.rowval@[s] == K0.rowval@[s] && K.nzval@[s] == K0.nzval@[s]
}
#[verifier::spinoff_prover]
pub proof fn lemma_gp_fill_triu(K0: CscMatrix<F>, K1: CscMatrix<F>, K2: CscMatrix<F>, K3: CscMatrix<F>, K: CscMatrix<F>, q: Seq<usize>, r: Seq<usize>, p: Seq<usize>, D: Seq<usize>, row: int, col: int, d1: int, d2: int)
    requires
        0 <= col, col + 3 <= K0.colptr@.len(), 0 <= row, d1 >= 0, d2 >= 0, q.len() == d1, r.len() == d2, p.len() == d1 + d2, D.len() == 3, K0.arrays_ok(), K0.rowval@.len() <= usize::MAX,
        sx_room(K0, |c: int| gp_cnt(MatrixTriangle::Triu, row, col, d1, d2, c)),
        colvec_filled(K0, K1, q, row, col), colvec_filled(K1, K2, r, row + d1, col + 1), colvec_filled(K2, K3, p, row, col + 2), diag_filled(K3, K, D, col, 3),
    ensures gp_fill_post(K0, K, q, r, p, D, MatrixTriangle::Triu, row, col, d1, d2),
{
    let need = |c: int| gp_cnt(MatrixTriangle::Triu, row, col, d1, d2, c);
    let c0 = K0.colptr@[col] as int; let c1 = K0.colptr@[col + 1] as int; let c2 = K0.colptr@[col + 2] as int;
    assert(need(col) == d1 + 1 && need(col + 1) == d2 + 1 && need(col + 2) == d1 + d2 + 1);
    lemma_sx_room(K0, need, col, col + 1); lemma_sx_room(K0, need, col + 1, col + 2); lemma_sx_room(K0, need, col, col + 2);
    assert(K1.colptr@[col + 1] == c1 && K1.colptr@[col + 2] == c2 && K2.colptr@[col + 2] == c2);
    assert(K3.colptr@[col] == c0 + d1 && K3.colptr@[col + 1] == c1 + d2 && K3.colptr@[col + 2] == c2 + d1 + d2);
    assert forall|i: int| 0 <= i < d1 implies #[trigger] q[i] == c0 + i && K.rowval@[c0 + i] == row + i && K.nzval@[c0 + i] == f_zero() by {
        assert(K1.rowval@[c0 + i] == row + i && K1.nzval@[c0 + i] == f_zero());
        assert(K2.rowval@[c0 + i] == K1.rowval@[c0 + i] && K2.nzval@[c0 + i] == K1.nzval@[c0 + i]);
        assert(K3.rowval@[c0 + i] == K2.rowval@[c0 + i] && K3.nzval@[c0 + i] == K2.nzval@[c0 + i]);
        assert(untouched(K3.colptr@, col, col + 3, c0 + i));
    }
    assert forall|i: int| 0 <= i < d2 implies #[trigger] r[i] == c1 + i && K.rowval@[c1 + i] == row + d1 + i && K.nzval@[c1 + i] == f_zero() by {
        assert(K2.rowval@[c1 + i] == row + d1 + i && K2.nzval@[c1 + i] == f_zero());
        assert(K3.rowval@[c1 + i] == K2.rowval@[c1 + i] && K3.nzval@[c1 + i] == K2.nzval@[c1 + i]);
        assert(untouched(K3.colptr@, col, col + 3, c1 + i));
    }
    assert forall|i: int| 0 <= i < d1 + d2 implies #[trigger] p[i] == c2 + i && K.rowval@[c2 + i] == row + i && K.nzval@[c2 + i] == f_zero() by {
        assert(K3.rowval@[c2 + i] == row + i && K3.nzval@[c2 + i] == f_zero());
        assert(untouched(K3.colptr@, col, col + 3, c2 + i));
    }
    assert forall|c: int| 0 <= c < K0.colptr@.len() implies #[trigger] K.colptr@[c] == K0.colptr@[c] + gp_cnt(MatrixTriangle::Triu, row, col, d1, d2, c) by { }
    assert forall|s: int| 0 <= s < K0.rowval@.len() && #[trigger] sx_free(K0, need, s) implies K.rowval@[s] == K0.rowval@[s] && K.nzval@[s] == K0.nzval@[s] by {
        lemma_sx_free(K0, need, s);
        assert(!(K0.colptr@[col] <= s < K0.colptr@[col] + need(col)));
        assert(!(K0.colptr@[col + 1] <= s < K0.colptr@[col + 1] + need(col + 1)));
        assert(!(K0.colptr@[col + 2] <= s < K0.colptr@[col + 2] + need(col + 2)));
        assert(untouched(K3.colptr@, col, col + 3, s));
        assert(K1.rowval@[s] == K0.rowval@[s] && K2.rowval@[s] == K1.rowval@[s] && K3.rowval@[s] == K2.rowval@[s]);
        assert(K1.nzval@[s] == K0.nzval@[s] && K2.nzval@[s] == K1.nzval@[s] && K3.nzval@[s] == K2.nzval@[s]);
    }
    assert(D[0] == c0 + d1 && D[1] == c1 + d2 && D[2] == c2 + d1 + d2);
}
#[verifier::spinoff_prover]
pub proof fn lemma_gp_fill_tril(K0: CscMatrix<F>, K1: CscMatrix<F>, K2: CscMatrix<F>, K3: CscMatrix<F>, K: CscMatrix<F>, q: Seq<usize>, r: Seq<usize>, p: Seq<usize>, D: Seq<usize>, row: int, col: int, d1: int, d2: int)
    requires
        0 <= col, col + 3 <= K0.colptr@.len(), 0 <= row, d1 >= 0, d2 >= 0, row + d1 + d2 <= col, q.len() == d1, r.len() == d2, p.len() == d1 + d2, D.len() == 3, K0.arrays_ok(),
        sx_room(K0, |c: int| gp_cnt(MatrixTriangle::Tril, row, col, d1, d2, c)),
        rowvec_filled(K0, K1, q, col, row), rowvec_filled(K1, K2, r, col + 1, row + d1), rowvec_filled(K2, K3, p, col + 2, row), diag_filled(K3, K, D, col, 3),
    ensures gp_fill_post(K0, K, q, r, p, D, MatrixTriangle::Tril, row, col, d1, d2),
{
    let need = |c: int| gp_cnt(MatrixTriangle::Tril, row, col, d1, d2, c);
    let nv = d1 + d2;
    assert(need(col) == 1 && need(col + 1) == 1 && need(col + 2) == 1);
    lemma_sx_room(K0, need, col, col + 1); lemma_sx_room(K0, need, col + 1, col + 2); lemma_sx_room(K0, need, col, col + 2);
    // cursors of the cone's own columns after the q and r rows: advanced by one
    assert forall|c: int| row <= c < row + nv implies need(c) == 2 && #[trigger] K2.colptr@[c] == K0.colptr@[c] + 1 && K3.colptr@[c] == K0.colptr@[c] + 2 by {
        if c < row + d1 { assert(K1.colptr@[c] == K0.colptr@[c] + 1); assert(K2.colptr@[c] == K1.colptr@[c]); }
        else { assert(K1.colptr@[c] == K0.colptr@[c]); assert(K2.colptr@[c] == K1.colptr@[c] + 1); }
    }
    assert forall|k: int| 0 <= k < 3 implies #[trigger] K3.colptr@[col + k] == K0.colptr@[col + k] by { assert(K1.colptr@[col + k] == K0.colptr@[col + k]); assert(K2.colptr@[col + k] == K1.colptr@[col + k]); }
    // a first-round slot (cursor of a cone column) is not touched by the later calls
    assert forall|j: int| row <= j < row + nv implies untouched(K2.colptr@, row, row + nv, #[trigger] K0.colptr@[j] as int) && untouched(K3.colptr@, col, col + 3, K0.colptr@[j] as int)
        && untouched(K3.colptr@, col, col + 3, K0.colptr@[j] + 1) by {
        let sl = K0.colptr@[j] as int;
        assert(need(j) == 2);
        lemma_sx_room(K0, need, j, col); lemma_sx_room(K0, need, j, col + 1); lemma_sx_room(K0, need, j, col + 2);
        assert forall|c: int| row <= c < row + nv implies #[trigger] K2.colptr@[c] != sl by {
            assert(K2.colptr@[c] == K0.colptr@[c] + 1); assert(need(c) == 2);
            if c < j { lemma_sx_room(K0, need, c, j); } else if c > j { lemma_sx_room(K0, need, j, c); }
        }
        assert(K3.colptr@[col + 0] == K0.colptr@[col + 0] && K3.colptr@[col + 1] == K0.colptr@[col + 1] && K3.colptr@[col + 2] == K0.colptr@[col + 2]);
    }
    assert forall|i: int| 0 <= i < d1 implies #[trigger] q[i] == K0.colptr@[row + i] && K.rowval@[K0.colptr@[row + i] as int] == col && K.nzval@[K0.colptr@[row + i] as int] == f_zero() by {
        let sl = K0.colptr@[row + i] as int;
        assert(K1.rowval@[sl] == col && K1.nzval@[sl] == f_zero());
        assert(untouched(K1.colptr@, row + d1, row + d1 + d2, sl)) by {
            assert forall|c: int| row + d1 <= c < row + d1 + d2 implies #[trigger] K1.colptr@[c] != sl by { assert(K1.colptr@[c] == K0.colptr@[c]); assert(need(row + i) == 2); lemma_sx_room(K0, need, row + i, c); }
        }
        assert(K2.rowval@[sl] == K1.rowval@[sl] && K2.nzval@[sl] == K1.nzval@[sl]);
        assert(untouched(K2.colptr@, row, row + nv, sl));
        assert(K3.rowval@[sl] == K2.rowval@[sl] && K3.nzval@[sl] == K2.nzval@[sl]);
        assert(untouched(K3.colptr@, col, col + 3, sl));
    }
    assert forall|i: int| 0 <= i < d2 implies #[trigger] r[i] == K0.colptr@[row + d1 + i] && K.rowval@[K0.colptr@[row + d1 + i] as int] == col + 1 && K.nzval@[K0.colptr@[row + d1 + i] as int] == f_zero() by {
        let sl = K0.colptr@[row + d1 + i] as int;
        assert(K1.colptr@[row + d1 + i] == K0.colptr@[row + d1 + i]);
        assert(K2.rowval@[sl] == col + 1 && K2.nzval@[sl] == f_zero());
        assert(untouched(K2.colptr@, row, row + nv, sl));
        assert(K3.rowval@[sl] == K2.rowval@[sl] && K3.nzval@[sl] == K2.nzval@[sl]);
        assert(untouched(K3.colptr@, col, col + 3, sl));
    }
    assert forall|i: int| 0 <= i < d1 + d2 implies #[trigger] p[i] == K0.colptr@[row + i] + 1 && K.rowval@[K0.colptr@[row + i] + 1] == col + 2 && K.nzval@[K0.colptr@[row + i] + 1] == f_zero() by {
        assert(K2.colptr@[row + i] == K0.colptr@[row + i] + 1);
        assert(K3.rowval@[K0.colptr@[row + i] + 1] == col + 2 && K3.nzval@[K0.colptr@[row + i] + 1] == f_zero());
        assert(untouched(K3.colptr@, col, col + 3, K0.colptr@[row + i] + 1));
    }
    assert forall|k: int| 0 <= k < 3 implies #[trigger] D[k] == K0.colptr@[col + k] && K.rowval@[K0.colptr@[col + k] as int] == col + k && K.nzval@[K0.colptr@[col + k] as int] == f_zero() by {
        assert(K3.colptr@[col + k] == K0.colptr@[col + k]);
    }
    assert forall|c: int| 0 <= c < K0.colptr@.len() implies #[trigger] K.colptr@[c] == K0.colptr@[c] + gp_cnt(MatrixTriangle::Tril, row, col, d1, d2, c) by {
        if row <= c < row + nv { assert(K3.colptr@[c] == K0.colptr@[c] + 2); }
        else if col <= c < col + 3 { assert(K3.colptr@[col + (c - col)] == K0.colptr@[col + (c - col)]); }
        else { assert(K1.colptr@[c] == K0.colptr@[c] && K2.colptr@[c] == K1.colptr@[c] && K3.colptr@[c] == K2.colptr@[c]); }
    }
    assert forall|s: int| 0 <= s < K0.rowval@.len() && #[trigger] sx_free(K0, need, s) implies K.rowval@[s] == K0.rowval@[s] && K.nzval@[s] == K0.nzval@[s] by {
        lemma_sx_free(K0, need, s);
        assert(!(K0.colptr@[col] <= s < K0.colptr@[col] + need(col)));
        assert(!(K0.colptr@[col + 1] <= s < K0.colptr@[col + 1] + need(col + 1)));
        assert(!(K0.colptr@[col + 2] <= s < K0.colptr@[col + 2] + need(col + 2)));
        assert(K3.colptr@[col + 0] == K0.colptr@[col + 0] && K3.colptr@[col + 1] == K0.colptr@[col + 1] && K3.colptr@[col + 2] == K0.colptr@[col + 2]);
        assert(untouched(K3.colptr@, col, col + 3, s));
        assert(untouched(K0.colptr@, row, row + d1, s)) by {
            assert forall|c: int| row <= c < row + d1 implies #[trigger] K0.colptr@[c] != s by { assert(need(c) == 2); }
        }
        assert(untouched(K1.colptr@, row + d1, row + d1 + d2, s)) by {
            assert forall|c: int| row + d1 <= c < row + d1 + d2 implies #[trigger] K1.colptr@[c] != s by { assert(need(c) == 2); assert(K1.colptr@[c] == K0.colptr@[c]); assert(!(K0.colptr@[c] <= s < K0.colptr@[c] + need(c))); }
        }
        assert(untouched(K2.colptr@, row, row + nv, s)) by {
            assert forall|c: int| row <= c < row + nv implies #[trigger] K2.colptr@[c] != s by { assert(need(c) == 2); assert(K2.colptr@[c] == K0.colptr@[c] + 1); assert(!(K0.colptr@[c] <= s < K0.colptr@[c] + need(c))); }
        }
    }
}
impl GenPowerCone<F> {
    // ASSUMED (macro-generated accessors impl_map_recover!)
    #[verifier::external_body]
    pub fn recover_map<'a>(&self, map: &'a SparseExpansionMap) -> (r: &'a GenPowExpansionMap)
        ensures map matches SparseExpansionMap::GenPowExpansionMap(m) && *r == m,
    { unimplemented!() }
    #[verifier::external_body]
    pub fn recover_map_mut<'a>(&self, map: &'a mut SparseExpansionMap) -> (r: &'a mut GenPowExpansionMap)
        ensures
            *old(map) matches SparseExpansionMap::GenPowExpansionMap(m) && *r == m,
            *final(map) matches SparseExpansionMap::GenPowExpansionMap(m) && *final(r) == m,
    { unimplemented!() }
//@fn file=src/solver/core/cones/genpowcone.rs in="impl<T> GenPowerCone<T>" name=dim1 rules=R1,R2 ret=r
//@contract
    ensures r == self.alpha@.len()
//@end
//@fn file=src/solver/core/cones/genpowcone.rs in="impl<T> GenPowerCone<T>" name=dim2 rules=R1,R2 ret=r
//@contract
    ensures r == self.dim2
//@end
//@fn file=src/solver/core/cones/genpowcone.rs in="impl<T> GenPowerCone<T>" name=dim rules=R1,R2 ret=r
//@contract
    requires self.alpha@.len() + self.dim2 <= usize::MAX,
    ensures r == self.alpha@.len() + self.dim2
//@end
//@fn file=src/solver/core/cones/genpowcone.rs in="Cone<T> for GenPowerCone<T>" name=numel rules=R1,R2 ret=r
//@contract
    requires self.alpha@.len() + self.dim2 <= usize::MAX,
    ensures r == self.alpha@.len() + self.dim2
//@end
//@fn file=src/solver/core/kktsolvers/direct/quasidef/datamaps.rs in="SparseExpansionConeTrait<T> for &'_ GenPowerCone<T>" name=csc_colcount_sparsecone rules=R1
//@contract
    requires
        self.alpha@.len() + self.dim2 <= usize::MAX, row + self.alpha@.len() + self.dim2 <= usize::MAX,
        col + 3 <= old(K).colptr@.len(), shape == MatrixTriangle::Tril ==> row + self.alpha@.len() + self.dim2 <= old(K).colptr@.len(),
        forall|c: int| 0 <= c < old(K).colptr@.len() ==> #[trigger] old(K).colptr@[c] + gp_cnt(shape, row as int, col as int, self.alpha@.len() as int, self.dim2 as int, c) <= usize::MAX,
    ensures
        // C11: column counts of the auxiliary rows / columns of the sparse expansion, in either triangle
        final(K).colptr@.len() == old(K).colptr@.len(),
        forall|c: int| 0 <= c < old(K).colptr@.len() ==> #[trigger] final(K).colptr@[c] == old(K).colptr@[c] + gp_cnt(shape, row as int, col as int, self.alpha@.len() as int, self.dim2 as int, c),
        final(K).rowval@ == old(K).rowval@, final(K).nzval@ == old(K).nzval@, final(K).m == old(K).m, final(K).n == old(K).n,
//@pre
        let ghost d1 = self.alpha@.len() as int;
        let ghost d2 = self.dim2 as int;
        proof {
            assert(K.colptr@.len() == K.colptr.len());
            assert forall|c: int| 0 <= c < K.colptr@.len() implies #[trigger] K.colptr@[c] + gp_cnt(shape, row as int, col as int, d1, d2, c) <= usize::MAX by { }
            assert(K.colptr@[col as int] + gp_cnt(shape, row as int, col as int, d1, d2, col as int) <= usize::MAX);
            assert(K.colptr@[col + 1] + gp_cnt(shape, row as int, col as int, d1, d2, col + 1) <= usize::MAX);
            assert(K.colptr@[col + 2] + gp_cnt(shape, row as int, col as int, d1, d2, col + 2) <= usize::MAX);
            assert forall|c: int| row <= c < row + d1 + d2 && shape == MatrixTriangle::Tril implies #[trigger] K.colptr@[c] + 2 <= usize::MAX by {
                assert(K.colptr@[c] + gp_cnt(shape, row as int, col as int, d1, d2, c) <= usize::MAX); }
        }
//@end
//@fn file=src/solver/core/kktsolvers/direct/quasidef/datamaps.rs in="SparseExpansionConeTrait<T> for &'_ GenPowerCone<T>" name=csc_fill_sparsecone rules=R1
//@contract
    requires
        *old(map) matches SparseExpansionMap::GenPowExpansionMap(m) ==> m.q@.len() == self.alpha@.len() && m.r@.len() == self.dim2 && m.p@.len() == self.alpha@.len() + self.dim2,
        old(K).arrays_ok(), col + 3 <= old(K).colptr@.len(), row + self.alpha@.len() + self.dim2 <= usize::MAX,
        shape == MatrixTriangle::Tril ==> row + self.alpha@.len() + self.dim2 <= col,
        // cursor discipline (what the counting pass hands over): every column has room for the entries it receives
        sx_room(*old(K), |c: int| gp_cnt(shape, row as int, col as int, self.alpha@.len() as int, self.dim2 as int, c)),
    ensures
        final(K).arrays_ok(), final(K).rowval@.len() == old(K).rowval@.len(), final(K).colptr@.len() == old(K).colptr@.len(),
        final(K).m == old(K).m, final(K).n == old(K).n,
        *final(map) matches SparseExpansionMap::GenPowExpansionMap(m)
            && gp_fill_post(*old(K), *final(K), m.q@, m.r@, m.p@, m.D@, shape, row as int, col as int, self.alpha@.len() as int, self.dim2 as int),
//@pre
        let ghost K0 = *K;
        let ghost d1 = self.alpha@.len() as int;
        let ghost d2 = self.dim2 as int;
        let ghost need = |c: int| gp_cnt(shape, row as int, col as int, self.alpha@.len() as int, self.dim2 as int, c);
        let ghost mut K1 = *K;
        let ghost mut K2 = *K;
        let ghost mut K3 = *K;
        let ghost mut K4 = *K;
        proof {
            assert(K.colptr@.len() == K.colptr.len()); assert(K.rowval@.len() == K.rowval.len());
            assert(need(col as int) >= 1 && need(col + 1) >= 1 && need(col + 2) >= 1);
            lemma_sx_room(K0, need, col as int, col + 1); lemma_sx_room(K0, need, col + 1, col + 2); lemma_sx_room(K0, need, col as int, col + 2);
        }
//@after "K.fill_colvec(&mut map.q, row, col);"
                proof { K1 = *K; assert(colvec_filled(K0, K1, map.q@, row as int, col as int)); }
//@after "K.fill_colvec(&mut map.r, row + dim1, col + 1);"
                proof { K2 = *K; assert(colvec_filled(K1, K2, map.r@, row + d1, col + 1)); }
//@after "K.fill_colvec(&mut map.p, row, col + 2);"
                proof { K3 = *K; assert(colvec_filled(K2, K3, map.p@, row as int, col + 2)); }
//@before "K.fill_rowvec(&mut map.q, col, row);"
                proof {
                    assert forall|c: int| row <= c < row + d1 + d2 implies #[trigger] K0.colptr@[c] + 2 <= K0.rowval@.len() by { assert(need(c) == 2); }
                    assert forall|c1: int, c2: int| row <= c1 < c2 < row + d1 + d2 implies #[trigger] K0.colptr@[c1] + 2 <= #[trigger] K0.colptr@[c2] by { assert(need(c1) == 2); lemma_sx_room(K0, need, c1, c2); }
                }
//@after "K.fill_rowvec(&mut map.q, col, row);"
                proof {
                    K1 = *K; assert(rowvec_filled(K0, K1, map.q@, col as int, row as int));
                    assert forall|c: int| row + d1 <= c < row + d1 + d2 implies #[trigger] K1.colptr@[c] == K0.colptr@[c] by { }
                }
//@after "K.fill_rowvec(&mut map.r, col + 1, row + dim1);"
                proof {
                    K2 = *K; assert(rowvec_filled(K1, K2, map.r@, col + 1, row + d1));
                    assert forall|c: int| row <= c < row + d1 + d2 implies #[trigger] K2.colptr@[c] == K0.colptr@[c] + 1 by {
                        if c < row + d1 { assert(K1.colptr@[c] == K0.colptr@[c] + 1); assert(K2.colptr@[c] == K1.colptr@[c]); }
                        else { assert(K1.colptr@[c] == K0.colptr@[c]); assert(K2.colptr@[c] == K1.colptr@[c] + 1); }
                    }
                }
//@after "K.fill_rowvec(&mut map.p, col + 2, row);"
                proof { K3 = *K; assert(rowvec_filled(K2, K3, map.p@, col + 2, row as int)); }
//@before "let pdim = map.pdim();"
        proof {
            K4 = *K;
            if shape == MatrixTriangle::Tril {
                assert forall|k: int| 0 <= k < 3 implies #[trigger] K4.colptr@[col + k] == K0.colptr@[col + k] by { assert(K1.colptr@[col + k] == K0.colptr@[col + k]); assert(K2.colptr@[col + k] == K1.colptr@[col + k]); }
                assert(K4.colptr@[col + 0] == K0.colptr@[col + 0] && K4.colptr@[col + 1] == K0.colptr@[col + 1] && K4.colptr@[col + 2] == K0.colptr@[col + 2]);
            } else {
                assert(K4.colptr@[col as int] == K0.colptr@[col as int] + d1 && K4.colptr@[col + 1] == K0.colptr@[col + 1] + d2 && K4.colptr@[col + 2] == K0.colptr@[col + 2] + d1 + d2);
            }
        }
//@post
        proof {
            let m = map->GenPowExpansionMap_0;
            assert(diag_filled(K4, *K, m.D@, col as int, 3));
            if shape == MatrixTriangle::Triu { lemma_gp_fill_triu(K0, K1, K2, K3, *K, m.q@, m.r@, m.p@, m.D@, row as int, col as int, d1, d2); }
            else { lemma_gp_fill_tril(K0, K1, K2, K3, *K, m.q@, m.r@, m.p@, m.D@, row as int, col as int, d1, d2); }
        }
//@end
}

// ---- KKT assembly, upper-triangle layout: the three fills that place P, its missing diagonal entries and A' ----
pub open spec fn pcnt(P: CscMatrix<F>, c: int) -> int { P.colptr@[c + 1] - P.colptr@[c] }
pub open spec fn mdn(P: CscMatrix<F>, c: int) -> int { if missing_diag(P, c) { 1int } else { 0int } }
// cursor state handed over by the counting pass (after colcount_to_colptr): column c of the P block has room for P's
// entries plus a diagonal entry if P has none; column n + r has room for the entries of row r of A
// spacing of the cursors handed over by the counting pass (named predicates: the bare inequality as a trigger would feed itself)
pub open spec fn sp_triu(K: CscMatrix<F>, P: CscMatrix<F>, c: int) -> bool { K.colptr@[c] + pcnt(P, c) + mdn(P, c) <= K.colptr@[c + 1] }
pub open spec fn sp_triu_a(K: CscMatrix<F>, A: CscMatrix<F>, n: int, r: int) -> bool { K.colptr@[n + r] + count_row(A.rowval@, r, A.rowval@.len() as int) <= K.colptr@[n + r + 1] }
pub open spec fn sp_tril(K: CscMatrix<F>, P: CscMatrix<F>, A: CscMatrix<F>, c: int) -> bool { K.colptr@[c] + mdn(P, c) + prow(P, c) + pcnt(A, c) <= K.colptr@[c + 1] }
pub open spec fn kkt_triu_pre(K: CscMatrix<F>, P: CscMatrix<F>, A: CscMatrix<F>, n: int) -> bool {
    &&& K.arrays_ok() && P.colptr_ok_u() && A.colptr_ok_u() && P.n == n && P.m == n && A.n == n
    &&& K.colptr@.len() > n + A.m && K.colptr@.len() <= usize::MAX && K.rowval@.len() <= usize::MAX
    &&& forall|k: int| 0 <= k < A.rowval@.len() ==> #[trigger] A.rowval@[k] < A.m
    &&& forall|k: int| 0 <= k < P.rowval@.len() ==> #[trigger] P.rowval@[k] < n
    &&& forall|c: int| 0 <= c < n ==> #[trigger] sp_triu(K, P, c)
    &&& forall|r: int| 0 <= r < A.m ==> #[trigger] sp_triu_a(K, A, n, r)
    &&& K.colptr@[n + A.m] <= K.rowval@.len()
}
pub open spec fn kkt_triu_post(K0: CscMatrix<F>, K: CscMatrix<F>, P: CscMatrix<F>, A: CscMatrix<F>, n: int, mapP: Seq<usize>, mapA: Seq<usize>) -> bool {
    &&& K.arrays_ok() && K.rowval@.len() == K0.rowval@.len() && K.colptr@.len() == K0.colptr@.len()
    // C11: every entry of P sits in its own column, at its own row, in storage order, and its slot is recorded
    &&& forall|i: int, j: int| #[trigger] P.in_col_u(j, i) ==> {
            let d = K0.colptr@[i] + (j - P.colptr@[i]);
            mapP[j] == d && K.rowval@[d] == P.rowval@[j] && K.nzval@[d] == P.nzval@[j] }
    // C11: complete diagonal: the last entry written into column c < n is (c, c): P's own diagonal entry or a structural zero
    &&& forall|c: int| 0 <= c < n ==> {
            &&& #[trigger] K.colptr@[c] == K0.colptr@[c] + pcnt(P, c) + mdn(P, c)
            &&& K.colptr@[c] > K0.colptr@[c] && K.rowval@[K.colptr@[c] - 1] == c
            &&& missing_diag(P, c) ==> K.nzval@[K.colptr@[c] - 1] == f_zero() }
    // C11: entry j of A (row r, column i) sits transposed at (i, n + r)
    &&& forall|i: int, j: int| #[trigger] A.in_col_u(j, i) ==> {
            let d = dest_t(K0, A, n, j);
            mapA[j] == d && K.rowval@[d] == i && K.nzval@[d] == A.nzval@[j] && K0.colptr@[n + A.rowval@[j]] <= d < K0.colptr@[n + A.rowval@[j] + 1] }
    &&& forall|r: int| 0 <= r < A.m ==> #[trigger] K.colptr@[n + r] == K0.colptr@[n + r] + count_row(A.rowval@, r, A.rowval@.len() as int)
}
// what fill_missing_diag guarantees, as one predicate
pub open spec fn fmd_post(K1: CscMatrix<F>, K2: CscMatrix<F>, M: CscMatrix<F>) -> bool {
    &&& K2.arrays_ok() && K2.rowval@.len() == K1.rowval@.len() && K2.colptr@.len() == K1.colptr@.len()
    &&& colptr_same_except(K2.colptr@, K1.colptr@, 0, M.n as int)
    &&& forall|i: int| 0 <= i < M.n ==> {
            let dest = #[trigger] K1.colptr@[i] as int;
            if missing_diag(M, i) { K2.colptr@[i] == dest + 1 && K2.rowval@[dest] == i && K2.nzval@[dest] == f_zero() }
            else { K2.colptr@[i] == dest } }
    &&& forall|s: int| 0 <= s < K1.rowval@.len() && #[trigger] untouched_md(K1.colptr@, M, M.n as int, s)
            ==> K2.rowval@[s] == K1.rowval@[s] && K2.nzval@[s] == K1.nzval@[s]
}
// state between the second and the third fill: P and its diagonal are in place, the A' columns are untouched
pub open spec fn kkt_mid(K0: CscMatrix<F>, K2: CscMatrix<F>, P: CscMatrix<F>, n: int, mapP: Seq<usize>) -> bool {
    &&& K2.arrays_ok() && K2.rowval@.len() == K0.rowval@.len() && K2.colptr@.len() == K0.colptr@.len()
    &&& forall|i: int, j: int| #[trigger] P.in_col_u(j, i) ==> {
            let d = K0.colptr@[i] + (j - P.colptr@[i]);
            mapP[j] == d && K2.rowval@[d] == P.rowval@[j] && K2.nzval@[d] == P.nzval@[j] }
    &&& forall|c: int| 0 <= c < n ==> {
            &&& #[trigger] K2.colptr@[c] == K0.colptr@[c] + pcnt(P, c) + mdn(P, c)
            &&& K2.colptr@[c] > K0.colptr@[c] && K2.rowval@[K2.colptr@[c] - 1] == c
            &&& missing_diag(P, c) ==> K2.nzval@[K2.colptr@[c] - 1] == f_zero() }
    &&& forall|c: int| n <= c < K0.colptr@.len() ==> #[trigger] K2.colptr@[c] == K0.colptr@[c]
}
#[verifier::spinoff_prover]
pub proof fn lemma_kkt_pre_P(K0: CscMatrix<F>, P: CscMatrix<F>, A: CscMatrix<F>, n: int)
    requires kkt_triu_pre(K0, P, A, n),
    ensures fill_block_pre(K0, P, 0, 0, MatrixShape::N),
{
    assert forall|i: int, j: int| #[trigger] P.in_col_u(j, i) implies dest_n(K0, P, 0, i, j) < K0.rowval@.len() by {
        assert(sp_triu(K0, P, i));
        lemma_kkt_cursors_mono(K0, P, A, n, i + 1, n + A.m);
    }
    assert forall|i1: int, j1: int, i2: int, j2: int| #[trigger] P.in_col_u(j1, i1) && #[trigger] P.in_col_u(j2, i2) && j1 != j2
        implies dest_n(K0, P, 0, i1, j1) != dest_n(K0, P, 0, i2, j2) by {
        assert(sp_triu(K0, P, i1));
        assert(sp_triu(K0, P, i2));
        if i1 < i2 { lemma_kkt_cursors_mono(K0, P, A, n, i1 + 1, i2); }
        if i2 < i1 { lemma_kkt_cursors_mono(K0, P, A, n, i2 + 1, i1); }
    }
}
#[verifier::spinoff_prover]
pub proof fn lemma_kkt_after_P(K0: CscMatrix<F>, K1: CscMatrix<F>, P: CscMatrix<F>, A: CscMatrix<F>, n: int, mapP: Seq<usize>)
    requires
        kkt_triu_pre(K0, P, A, n), fill_block_state(K0, K1, P, mapP, 0, 0, MatrixShape::N, P.rowval@.len() as int),
        K1.arrays_ok(), K1.rowval@.len() == K0.rowval@.len(), K1.colptr@.len() == K0.colptr@.len(),
    ensures
        forall|i: int| 0 <= i < n ==> #[trigger] K1.colptr@[i] == K0.colptr@[i] + pcnt(P, i),
        forall|c: int| n <= c < K0.colptr@.len() ==> #[trigger] K1.colptr@[c] == K0.colptr@[c],
        // the preconditions of fill_missing_diag(P, 0)
        forall|i: int| 0 <= i < P.n ==> P.colptr@[i] <= #[trigger] P.colptr@[i + 1] <= P.rowval@.len(),
        forall|i: int| 0 <= i < P.n && missing_diag(P, i) ==> #[trigger] K1.colptr@[i] < K1.rowval@.len(),
        forall|i1: int, i2: int| 0 <= i1 < i2 < P.n && missing_diag(P, i1) && missing_diag(P, i2) ==> #[trigger] K1.colptr@[i1] != #[trigger] K1.colptr@[i2],
{
    assert forall|i: int| 0 <= i < n implies #[trigger] K1.colptr@[i] == K0.colptr@[i] + pcnt(P, i) by {
        assert(K1.colptr@[0 + i] == K0.colptr@[0 + i] + pushed_n(P, i, P.rowval@.len() as int));
        assert(P.colptr@[i + 1] <= P.colptr@[P.n as int]);
    }
    assert forall|i: int| 0 <= i < P.n implies P.colptr@[i] <= #[trigger] P.colptr@[i + 1] <= P.rowval@.len() by { assert(P.colptr@[i + 1] <= P.colptr@[P.n as int]); }
    assert forall|i: int| 0 <= i < P.n && missing_diag(P, i) implies #[trigger] K1.colptr@[i] < K1.rowval@.len() by {
        assert(sp_triu(K0, P, i));
        lemma_kkt_cursors_mono(K0, P, A, n, i + 1, n + A.m);
    }
    assert forall|i1: int, i2: int| 0 <= i1 < i2 < P.n && missing_diag(P, i1) && missing_diag(P, i2) implies #[trigger] K1.colptr@[i1] != #[trigger] K1.colptr@[i2] by {
        assert(sp_triu(K0, P, i1));
        lemma_kkt_cursors_mono(K0, P, A, n, i1 + 1, i2);
        assert(P.colptr@[i2] <= P.colptr@[i2 + 1]);
    }
}
#[verifier::spinoff_prover]
pub proof fn lemma_kkt_after_md(K0: CscMatrix<F>, K1: CscMatrix<F>, K2: CscMatrix<F>, P: CscMatrix<F>, A: CscMatrix<F>, n: int, mapP: Seq<usize>)
    requires
        kkt_triu_pre(K0, P, A, n), fill_block_state(K0, K1, P, mapP, 0, 0, MatrixShape::N, P.rowval@.len() as int),
        K1.arrays_ok(), K1.rowval@.len() == K0.rowval@.len(), K1.colptr@.len() == K0.colptr@.len(),
        forall|i: int| 0 <= i < n ==> #[trigger] K1.colptr@[i] == K0.colptr@[i] + pcnt(P, i),
        forall|c: int| n <= c < K0.colptr@.len() ==> #[trigger] K1.colptr@[c] == K0.colptr@[c],
        fmd_post(K1, K2, P),
    ensures kkt_mid(K0, K2, P, n, mapP), fill_block_pre(K2, A, 0, n as usize, MatrixShape::T),
{
    lemma_kkt_after_md_a(K0, K1, K2, P, A, n, mapP);
    lemma_kkt_after_md_b(K0, K2, P, A, n, mapP);
}
#[verifier::spinoff_prover]
pub proof fn lemma_kkt_after_md_a(K0: CscMatrix<F>, K1: CscMatrix<F>, K2: CscMatrix<F>, P: CscMatrix<F>, A: CscMatrix<F>, n: int, mapP: Seq<usize>)
    requires
        kkt_triu_pre(K0, P, A, n), fill_block_state(K0, K1, P, mapP, 0, 0, MatrixShape::N, P.rowval@.len() as int),
        K1.arrays_ok(), K1.rowval@.len() == K0.rowval@.len(), K1.colptr@.len() == K0.colptr@.len(),
        forall|i: int| 0 <= i < n ==> #[trigger] K1.colptr@[i] == K0.colptr@[i] + pcnt(P, i),
        forall|c: int| n <= c < K0.colptr@.len() ==> #[trigger] K1.colptr@[c] == K0.colptr@[c],
        fmd_post(K1, K2, P),
    ensures kkt_mid(K0, K2, P, n, mapP),
{
    assert forall|i: int, j: int| #[trigger] P.in_col_u(j, i) implies ({
        let d = K0.colptr@[i] + (j - P.colptr@[i]);
        mapP[j] == d && K2.rowval@[d] == P.rowval@[j] && K2.nzval@[d] == P.nzval@[j] }) by {
        let d = K0.colptr@[i] + (j - P.colptr@[i]);
        assert(d == dest_n(K0, P, 0, i, j));
        assert(P.colptr@[i + 1] <= P.colptr@[P.n as int]);
        assert(sp_triu(K0, P, i));
        lemma_kkt_cursors_mono(K0, P, A, n, i + 1, n + A.m);
        assert(untouched_md(K1.colptr@, P, n, d)) by {
            reveal(untouched_md);
            assert forall|c: int| 0 <= c < n && missing_diag(P, c) implies #[trigger] K1.colptr@[c] != d by {
                assert(sp_triu(K0, P, c));
                if c < i { lemma_kkt_cursors_mono(K0, P, A, n, c + 1, i); }
                if i < c { lemma_kkt_cursors_mono(K0, P, A, n, i + 1, c); assert(P.colptr@[c] <= P.colptr@[c + 1]); }
            }
        }
    }
    assert forall|c: int| 0 <= c < n implies ({
        &&& #[trigger] K2.colptr@[c] == K0.colptr@[c] + pcnt(P, c) + mdn(P, c)
        &&& K2.colptr@[c] > K0.colptr@[c] && K2.rowval@[K2.colptr@[c] - 1] == c
        &&& missing_diag(P, c) ==> K2.nzval@[K2.colptr@[c] - 1] == f_zero() }) by {
        assert(P.colptr@[c] <= P.colptr@[c + 1]);
        let dest = K1.colptr@[c] as int;
        if !missing_diag(P, c) {
            let j = P.colptr@[c + 1] - 1;
            assert(P.in_col_u(j, c));
            assert(K0.colptr@[c] + (j - P.colptr@[c]) == K2.colptr@[c] - 1);
        }
    }
    assert forall|c: int| n <= c < K0.colptr@.len() implies #[trigger] K2.colptr@[c] == K0.colptr@[c] by { assert(K1.colptr@[c] == K0.colptr@[c]); }
}
#[verifier::spinoff_prover]
pub proof fn lemma_kkt_after_md_b(K0: CscMatrix<F>, K2: CscMatrix<F>, P: CscMatrix<F>, A: CscMatrix<F>, n: int, mapP: Seq<usize>)
    requires kkt_triu_pre(K0, P, A, n), kkt_mid(K0, K2, P, n, mapP),
    ensures fill_block_pre(K2, A, 0, n as usize, MatrixShape::T),
{
    let nn = A.rowval@.len() as int;
    assert forall|j: int| 0 <= j < nn implies #[trigger] dest_t(K2, A, n, j) < K2.rowval@.len() by {
        let r = A.rowval@[j] as int;
        assert(K2.colptr@[n + r] == K0.colptr@[n + r]);
        assert(count_row(A.rowval@, r, j + 1) == count_row(A.rowval@, r, j) + 1);
        lemma_count_row_mono(A.rowval@, r, j + 1, nn);
        assert(sp_triu_a(K0, A, n, r));
        lemma_kkt_cursors_mono(K0, P, A, n, n + r + 1, n + A.m);
    }
    assert forall|j1: int, j2: int| 0 <= j1 < j2 < nn implies #[trigger] dest_t(K2, A, n, j1) != #[trigger] dest_t(K2, A, n, j2) by {
        let r1 = A.rowval@[j1] as int; let r2 = A.rowval@[j2] as int;
        assert(K2.colptr@[n + r1] == K0.colptr@[n + r1]); assert(K2.colptr@[n + r2] == K0.colptr@[n + r2]);
        assert(count_row(A.rowval@, r1, j1 + 1) == count_row(A.rowval@, r1, j1) + 1);
        assert(count_row(A.rowval@, r2, j2 + 1) == count_row(A.rowval@, r2, j2) + 1);
        lemma_count_row_le(A.rowval@, r1, j1); lemma_count_row_le(A.rowval@, r2, j2);
        if r1 == r2 { lemma_count_row_mono(A.rowval@, r1, j1 + 1, j2); }
        else {
            lemma_count_row_mono(A.rowval@, r1, j1 + 1, nn); lemma_count_row_mono(A.rowval@, r2, j2 + 1, nn);
            assert(sp_triu_a(K0, A, n, r1));
            assert(sp_triu_a(K0, A, n, r2));
            if r1 < r2 { lemma_kkt_cursors_mono(K0, P, A, n, n + r1 + 1, n + r2); } else { lemma_kkt_cursors_mono(K0, P, A, n, n + r2 + 1, n + r1); }
        }
    }
}
#[verifier::spinoff_prover]
pub proof fn lemma_kkt_final(K0: CscMatrix<F>, K2: CscMatrix<F>, K3: CscMatrix<F>, P: CscMatrix<F>, A: CscMatrix<F>, n: int, mapP: Seq<usize>, mapA: Seq<usize>)
    requires
        kkt_triu_pre(K0, P, A, n), kkt_mid(K0, K2, P, n, mapP),
        fill_block_state(K2, K3, A, mapA, 0, n as usize, MatrixShape::T, A.rowval@.len() as int),
        K3.arrays_ok(), K3.rowval@.len() == K2.rowval@.len(), K3.colptr@.len() == K2.colptr@.len(),
    ensures kkt_triu_post(K0, K3, P, A, n, mapP, mapA),
{
    let nn = A.rowval@.len() as int;
    // everything written into the columns < n lies below the first slot of the A' block, which is all fill_block(A) writes
    assert forall|s: int| 0 <= s < K0.colptr@[n] implies fb_free(K2, A, n, MatrixShape::T, nn, s) by {
        reveal(fb_free);
        assert forall|i: int, j: int| #[trigger] A.in_col_u(j, i) && j < nn implies fb_dest(K2, A, n, MatrixShape::T, i, j) != s by {
            let r = A.rowval@[j] as int;
            assert(K2.colptr@[n + r] == K0.colptr@[n + r]);
            lemma_count_row_le(A.rowval@, r, j);
            lemma_kkt_cursors_mono(K0, P, A, n, n, n + r);
        }
    }
    assert forall|i: int, j: int| #[trigger] P.in_col_u(j, i) implies ({
        let d = K0.colptr@[i] + (j - P.colptr@[i]);
        mapP[j] == d && K3.rowval@[d] == P.rowval@[j] && K3.nzval@[d] == P.nzval@[j] }) by {
        let d = K0.colptr@[i] + (j - P.colptr@[i]);
        assert(P.colptr@[i + 1] <= P.colptr@[P.n as int]);
        assert(sp_triu(K0, P, i));
        lemma_kkt_cursors_mono(K0, P, A, n, i + 1, n);
        lemma_kkt_cursors_mono(K0, P, A, n, n, n + A.m);
        assert(fb_free(K2, A, n, MatrixShape::T, nn, d));
    }
    assert forall|c: int| 0 <= c < n implies ({
        &&& #[trigger] K3.colptr@[c] == K0.colptr@[c] + pcnt(P, c) + mdn(P, c)
        &&& K3.colptr@[c] > K0.colptr@[c] && K3.rowval@[K3.colptr@[c] - 1] == c
        &&& missing_diag(P, c) ==> K3.nzval@[K3.colptr@[c] - 1] == f_zero() }) by {
        lemma_count_row_absent_below(A.rowval@, c - n, nn);
        assert(K3.colptr@[c] == K2.colptr@[c] + count_row(A.rowval@, c - n, nn));
        assert(sp_triu(K0, P, c));
        lemma_kkt_cursors_mono(K0, P, A, n, c + 1, n);
        lemma_kkt_cursors_mono(K0, P, A, n, n, n + A.m);
        assert(fb_free(K2, A, n, MatrixShape::T, nn, K2.colptr@[c] - 1));
    }
    assert forall|i: int, j: int| #[trigger] A.in_col_u(j, i) implies ({
        let d = dest_t(K0, A, n, j);
        mapA[j] == d && K3.rowval@[d] == i && K3.nzval@[d] == A.nzval@[j] && K0.colptr@[n + A.rowval@[j]] <= d < K0.colptr@[n + A.rowval@[j] + 1] }) by {
        let r = A.rowval@[j] as int;
        assert(A.colptr@[i + 1] <= A.colptr@[A.n as int]);
        assert(K2.colptr@[n + r] == K0.colptr@[n + r]);
        assert(dest_t(K0, A, n, j) == dest_t(K2, A, n, j));
        assert(count_row(A.rowval@, r, j + 1) == count_row(A.rowval@, r, j) + 1);
        lemma_count_row_mono(A.rowval@, r, j + 1, nn);
        lemma_count_row_le(A.rowval@, r, j);
        assert(sp_triu_a(K0, A, n, r));
    }
    assert forall|r: int| 0 <= r < A.m implies #[trigger] K3.colptr@[n + r] == K0.colptr@[n + r] + count_row(A.rowval@, r, nn) by {
        assert(K3.colptr@[n + r] == K2.colptr@[n + r] + count_row(A.rowval@, (n + r) - n, nn));
        assert(K2.colptr@[n + r] == K0.colptr@[n + r]);
    }
}
// the cursors handed over are nondecreasing
pub proof fn lemma_kkt_cursors_mono(K: CscMatrix<F>, P: CscMatrix<F>, A: CscMatrix<F>, n: int, a: int, b: int)
    requires kkt_triu_pre(K, P, A, n), 0 <= a <= b <= n + A.m,
    ensures K.colptr@[a] <= K.colptr@[b],
    decreases b - a,
{
    if a < b {
        lemma_kkt_cursors_mono(K, P, A, n, a, b - 1);
        let c = b - 1;
        if c < n { assert(sp_triu(K, P, c)); assert(P.colptr@[c] <= P.colptr@[c + 1]); }
        else { assert(sp_triu_a(K, A, n, c - n)); lemma_count_row_le(A.rowval@, c - n, A.rowval@.len() as int); }
    }
}




// from counts to cursors: whatever else the counting pass adds (the cone loop only ever increases counts), the cursors
// produced by colcount_to_colptr satisfy the hand-over condition of the fill arm, provided the allocation covers the total
#[verifier::spinoff_prover]
pub proof fn lemma_counts_give_triu_pre(Kc: CscMatrix<F>, Kp: CscMatrix<F>, P: CscMatrix<F>, A: CscMatrix<F>, n: int)
    requires
        P.colptr_ok_u(), A.colptr_ok_u(), P.n == n, P.m == n, A.n == n, Kc.colptr@.len() > n + A.m, Kc.colptr@.len() <= usize::MAX,
        Kp.arrays_ok(), Kp.rowval@.len() <= usize::MAX,
        forall|k: int| 0 <= k < A.rowval@.len() ==> #[trigger] A.rowval@[k] < A.m,
        forall|k: int| 0 <= k < P.rowval@.len() ==> #[trigger] P.rowval@[k] < n,
        // counts at the end of the counting pass: at least what the P / A arm counted
        forall|c: int| 0 <= c < n ==> #[trigger] Kc.colptr@[c] >= pcnt(P, c) + mdn(P, c),
        forall|r: int| 0 <= r < A.m ==> #[trigger] Kc.colptr@[n + r] >= count_row(A.rowval@, r, A.rowval@.len() as int),
        // colcount_to_colptr (its contract) and an allocation that covers the total count
        Kp.colptr@.len() == Kc.colptr@.len(),
        forall|c: int| 0 <= c < Kc.colptr@.len() ==> #[trigger] Kp.colptr@[c] == sum_upto(Kc.colptr@, c),
        sum_upto(Kc.colptr@, Kc.colptr@.len() as int) <= Kp.rowval@.len(),
    ensures kkt_triu_pre(Kp, P, A, n),
{
    assert forall|c: int| 0 <= c < n implies #[trigger] sp_triu(Kp, P, c) by {
        assert(sum_upto(Kc.colptr@, c + 1) == sum_upto(Kc.colptr@, c) + Kc.colptr@[c]);
        assert(Kp.colptr@[c] == sum_upto(Kc.colptr@, c)); assert(Kp.colptr@[c + 1] == sum_upto(Kc.colptr@, c + 1));
    }
    assert forall|r: int| 0 <= r < A.m implies #[trigger] sp_triu_a(Kp, A, n, r) by {
        assert(sum_upto(Kc.colptr@, n + r + 1) == sum_upto(Kc.colptr@, n + r) + Kc.colptr@[n + r]);
        assert(Kp.colptr@[n + r] == sum_upto(Kc.colptr@, n + r)); assert(Kp.colptr@[n + r + 1] == sum_upto(Kc.colptr@, n + r + 1));
    }
    lemma_sum_mono(Kc.colptr@, n + A.m, Kc.colptr@.len() as int);
    assert(Kp.colptr@[n + A.m] == sum_upto(Kc.colptr@, n + A.m));
}

// C11 "a complete diagonal, recorded": chaining the contracts of the upper-triangle arm, backshift_colptrs and the
// diag-map arm.  Kc = K after the cone loop, ASSUMED (the loop is not under contract) to leave the columns < n as the arm
// left them; Kb = K after backshift_colptrs; diag_p as written by kkt_diag_maps_triu.
#[verifier::spinoff_prover]
pub proof fn lemma_triu_diagonal_recorded(K0: CscMatrix<F>, K3: CscMatrix<F>, Kc: CscMatrix<F>, Kb: CscMatrix<F>, P: CscMatrix<F>, A: CscMatrix<F>,
                                          n: int, mapP: Seq<usize>, mapA: Seq<usize>, diag_p: Seq<usize>)
    requires
        kkt_triu_pre(K0, P, A, n), kkt_triu_post(K0, K3, P, A, n, mapP, mapA),
        // the cone loop (assumed): cursors of the columns < n and the slots below the A' block untouched
        Kc.colptr@.len() == K3.colptr@.len(), Kc.rowval@.len() == K3.rowval@.len(),
        forall|c: int| 0 <= c < n ==> #[trigger] Kc.colptr@[c] == K3.colptr@[c],
        forall|s: int| 0 <= s < K0.colptr@[n] ==> #[trigger] Kc.rowval@[s] == K3.rowval@[s],
        // backshift_colptrs (its contract)
        Kb.colptr@.len() == Kc.colptr@.len(), Kb.colptr@[0] == 0, Kb.rowval@ == Kc.rowval@,
        forall|c: int| 1 <= c < Kc.colptr@.len() ==> #[trigger] Kb.colptr@[c] == Kc.colptr@[c - 1],
        // kkt_diag_maps_triu (its contract)
        diag_p.len() == n, forall|c: int| 0 <= c < n ==> #[trigger] diag_p[c] == Kb.colptr@[c + 1] - 1,
        K0.colptr@[0] == 0,
    ensures
        forall|c: int| 0 <= c < n ==> Kb.colptr@[c] <= #[trigger] diag_p[c] < Kb.colptr@[c + 1] && Kb.rowval@[diag_p[c] as int] == c,
{
    assert forall|c: int| 0 <= c < n implies Kb.colptr@[c] <= #[trigger] diag_p[c] < Kb.colptr@[c + 1] && Kb.rowval@[diag_p[c] as int] == c by {
        assert(Kb.colptr@[c + 1] == Kc.colptr@[c]);
        assert(K3.colptr@[c] == K0.colptr@[c] + pcnt(P, c) + mdn(P, c));
        assert(sp_triu(K0, P, c));
        lemma_kkt_cursors_mono(K0, P, A, n, c + 1, n);
        if c > 0 {
            assert(Kb.colptr@[c] == Kc.colptr@[c - 1]);
            assert(K3.colptr@[c - 1] == K0.colptr@[c - 1] + pcnt(P, c - 1) + mdn(P, c - 1));
            assert(sp_triu(K0, P, c - 1));
        }
        let d = K3.colptr@[c] - 1;
        assert(Kc.rowval@[d] == K3.rowval@[d]);
    }
}

// ---- KKT assembly, lower-triangle layout: missing diagonal entries first, then P transposed, then A below it ----
pub open spec fn prow(P: CscMatrix<F>, c: int) -> int { count_row(P.rowval@, c, P.rowval@.len() as int) }
pub open spec fn kkt_tril_pre(K: CscMatrix<F>, P: CscMatrix<F>, A: CscMatrix<F>, n: int) -> bool {
    &&& K.arrays_ok() && P.colptr_ok_u() && A.colptr_ok_u() && P.n == n && P.m == n && A.n == n
    &&& K.colptr@.len() > n && n + A.m <= usize::MAX && K.colptr@.len() <= usize::MAX && K.rowval@.len() <= usize::MAX
    &&& forall|k: int| 0 <= k < P.rowval@.len() ==> #[trigger] P.rowval@[k] < n
    &&& forall|k: int| 0 <= k < A.rowval@.len() ==> #[trigger] A.rowval@[k] < A.m
    // P is upper triangular with strictly increasing rows in every column (what the constructor hands over)
    &&& forall|c: int, k: int| #[trigger] P.in_col_u(k, c) ==> P.rowval@[k] <= c
    &&& forall|c: int, k: int| #[trigger] P.in_col_u(k, c) && k + 1 < P.colptr@[c + 1] ==> P.rowval@[k] < P.rowval@[k + 1]
    &&& forall|c: int| 0 <= c < n ==> #[trigger] sp_tril(K, P, A, c)
    &&& K.colptr@[n] <= K.rowval@.len()
}
// from counts to cursors, lower layout (the counterpart of lemma_counts_give_triu_pre)
#[verifier::spinoff_prover]
pub proof fn lemma_counts_give_tril_pre(Kc: CscMatrix<F>, Kp: CscMatrix<F>, P: CscMatrix<F>, A: CscMatrix<F>, n: int)
    requires
        P.colptr_ok_u(), A.colptr_ok_u(), P.n == n, P.m == n, A.n == n, Kc.colptr@.len() > n, Kc.colptr@.len() <= usize::MAX, n + A.m <= usize::MAX,
        Kp.arrays_ok(), Kp.rowval@.len() <= usize::MAX,
        forall|k: int| 0 <= k < A.rowval@.len() ==> #[trigger] A.rowval@[k] < A.m,
        forall|k: int| 0 <= k < P.rowval@.len() ==> #[trigger] P.rowval@[k] < n,
        // P is upper triangular with strictly increasing rows in every column (what the constructor hands over)
        forall|c: int, k: int| #[trigger] P.in_col_u(k, c) ==> P.rowval@[k] <= c,
        forall|c: int, k: int| #[trigger] P.in_col_u(k, c) && k + 1 < P.colptr@[c + 1] ==> P.rowval@[k] < P.rowval@[k + 1],
        // counts at the end of the counting pass: at least what the P / A arm counted
        forall|c: int| 0 <= c < n ==> #[trigger] Kc.colptr@[c] >= mdn(P, c) + prow(P, c) + pcnt(A, c),
        // colcount_to_colptr (its contract) and an allocation that covers the total count
        Kp.colptr@.len() == Kc.colptr@.len(),
        forall|c: int| 0 <= c < Kc.colptr@.len() ==> #[trigger] Kp.colptr@[c] == sum_upto(Kc.colptr@, c),
        sum_upto(Kc.colptr@, Kc.colptr@.len() as int) <= Kp.rowval@.len(),
    ensures kkt_tril_pre(Kp, P, A, n),
{
    assert forall|c: int| 0 <= c < n implies #[trigger] sp_tril(Kp, P, A, c) by {
        assert(sum_upto(Kc.colptr@, c + 1) == sum_upto(Kc.colptr@, c) + Kc.colptr@[c]);
        assert(Kp.colptr@[c] == sum_upto(Kc.colptr@, c)); assert(Kp.colptr@[c + 1] == sum_upto(Kc.colptr@, c + 1));
    }
    lemma_sum_mono(Kc.colptr@, n, Kc.colptr@.len() as int);
    assert(Kp.colptr@[n] == sum_upto(Kc.colptr@, n));
}
pub open spec fn ptpos(K0: CscMatrix<F>, P: CscMatrix<F>, j: int) -> int { K0.colptr@[P.rowval@[j] as int] + mdn(P, P.rowval@[j] as int) + count_row(P.rowval@, P.rowval@[j] as int, j) }
pub open spec fn kkt_tril_mid(K0: CscMatrix<F>, K2: CscMatrix<F>, P: CscMatrix<F>, n: int, mapP: Seq<usize>) -> bool {
    &&& K2.arrays_ok() && K2.rowval@.len() == K0.rowval@.len() && K2.colptr@.len() == K0.colptr@.len()
    &&& forall|i: int, j: int| #[trigger] P.in_col_u(j, i) ==> {
            let d = ptpos(K0, P, j);
            mapP[j] == d && K2.rowval@[d] == i && K2.nzval@[d] == P.nzval@[j] }
    &&& forall|c: int| 0 <= c < n ==> {
            &&& #[trigger] K2.colptr@[c] == K0.colptr@[c] + mdn(P, c) + prow(P, c)
            &&& K2.colptr@[c] > K0.colptr@[c] && K2.rowval@[K0.colptr@[c] as int] == c
            &&& missing_diag(P, c) ==> K2.nzval@[K0.colptr@[c] as int] == f_zero() }
    &&& forall|c: int| n <= c < K0.colptr@.len() ==> #[trigger] K2.colptr@[c] == K0.colptr@[c]
}
pub open spec fn kkt_tril_post(K0: CscMatrix<F>, K: CscMatrix<F>, P: CscMatrix<F>, A: CscMatrix<F>, n: int, mapP: Seq<usize>, mapA: Seq<usize>) -> bool {
    &&& K.arrays_ok() && K.rowval@.len() == K0.rowval@.len() && K.colptr@.len() == K0.colptr@.len()
    // C11: entry (r, i) of the upper-triangular P sits transposed at (i, r): column r, row i
    &&& forall|i: int, j: int| #[trigger] P.in_col_u(j, i) ==> {
            let d = ptpos(K0, P, j);
            mapP[j] == d && K.rowval@[d] == i && K.nzval@[d] == P.nzval@[j] }
    // C11: complete diagonal: the first entry of every column c < n is (c, c)
    &&& forall|c: int| 0 <= c < n ==> {
            &&& #[trigger] K.colptr@[c] == K0.colptr@[c] + mdn(P, c) + prow(P, c) + pcnt(A, c)
            &&& K.colptr@[c] > K0.colptr@[c] && K.rowval@[K0.colptr@[c] as int] == c
            &&& missing_diag(P, c) ==> K.nzval@[K0.colptr@[c] as int] == f_zero() }
    // C11: entry j of A (row r, column i) sits at (n + r, i), after the P part of that column
    &&& forall|i: int, j: int| #[trigger] A.in_col_u(j, i) ==> {
            let d = K0.colptr@[i] + mdn(P, i) + prow(P, i) + (j - A.colptr@[i]);
            mapA[j] == d && K.rowval@[d] == A.rowval@[j] + n && K.nzval@[d] == A.nzval@[j] }
}
pub proof fn lemma_tril_cursors_mono(K: CscMatrix<F>, P: CscMatrix<F>, A: CscMatrix<F>, n: int, a: int, b: int)
    requires kkt_tril_pre(K, P, A, n), 0 <= a <= b <= n,
    ensures K.colptr@[a] <= K.colptr@[b],
    decreases b - a,
{
    if a < b {
        lemma_tril_cursors_mono(K, P, A, n, a, b - 1);
        let c = b - 1;
        assert(sp_tril(K, P, A, c));
        lemma_count_row_le(P.rowval@, c, P.rowval@.len() as int);
        assert(A.colptr@[c] <= A.colptr@[c + 1]);
    }
}
pub proof fn lemma_count_row_none(rv: Seq<usize>, r: int, k: int)
    requires 0 <= k <= rv.len(), forall|j: int| 0 <= j < k ==> #[trigger] rv[j] != r,
    ensures count_row(rv, r, k) == 0,
    decreases k,
{ if k > 0 { lemma_count_row_none(rv, r, k - 1); } }
// in an upper-triangular P with strictly sorted columns the stored diagonal entry of column c is the first entry of row c
#[verifier::spinoff_prover]
pub proof fn lemma_diag_first_in_row(K: CscMatrix<F>, P: CscMatrix<F>, A: CscMatrix<F>, n: int, c: int)
    requires kkt_tril_pre(K, P, A, n), 0 <= c < n, !missing_diag(P, c),
    ensures count_row(P.rowval@, c, P.colptr@[c + 1] - 1) == 0,
{
    let jd = P.colptr@[c + 1] - 1;
    assert(P.colptr@[c] <= P.colptr@[c + 1] <= P.colptr@[P.n as int]);
    assert forall|j: int| 0 <= j < jd implies #[trigger] P.rowval@[j] != c by {
        if j >= P.colptr@[c] {
            assert(P.in_col_u(j, c));
            lemma_col_strict(P, c, j, jd);
        } else {
            // j lies in an earlier column i < c: its row is <= i < c
            let i = lemma_col_of(P, j, c);
            assert(P.in_col_u(j, i));
        }
    }
    lemma_count_row_none(P.rowval@, c, jd);
}
pub proof fn lemma_col_strict(P: CscMatrix<F>, c: int, j1: int, j2: int)
    requires P.colptr_ok_u(), 0 <= c < P.n, P.colptr@[c] <= j1 < j2 < P.colptr@[c + 1],
        forall|c: int, k: int| #[trigger] P.in_col_u(k, c) && k + 1 < P.colptr@[c + 1] ==> P.rowval@[k] < P.rowval@[k + 1],
    ensures P.rowval@[j1] < P.rowval@[j2],
    decreases j2 - j1,
{
    assert(P.in_col_u(j2 - 1, c));
    if j1 < j2 - 1 { lemma_col_strict(P, c, j1, j2 - 1); }
}
// an entry index below the start of column c belongs to some column i < c
pub proof fn lemma_col_of(P: CscMatrix<F>, j: int, c: int) -> (i: int)
    requires P.colptr_ok_u(), 0 < c <= P.n, 0 <= j < P.colptr@[c],
    ensures 0 <= i < c, P.colptr@[i] <= j < P.colptr@[i + 1],
    decreases c,
{
    if j >= P.colptr@[c - 1] { c - 1 } else { assert(c - 1 > 0) by { if c - 1 == 0 { assert(P.colptr@[0] == 0); } } lemma_col_of(P, j, c - 1) }
}
#[verifier::spinoff_prover]
pub proof fn lemma_tril_pre_md(K0: CscMatrix<F>, P: CscMatrix<F>, A: CscMatrix<F>, n: int)
    requires kkt_tril_pre(K0, P, A, n),
    ensures
        forall|i: int| 0 <= i < P.n ==> P.colptr@[i] <= #[trigger] P.colptr@[i + 1] <= P.rowval@.len(),
        forall|i: int| 0 <= i < P.n && missing_diag(P, i) ==> #[trigger] K0.colptr@[i] < K0.rowval@.len(),
        forall|i1: int, i2: int| 0 <= i1 < i2 < P.n && missing_diag(P, i1) && missing_diag(P, i2) ==> #[trigger] K0.colptr@[i1] != #[trigger] K0.colptr@[i2],
{
    assert forall|i: int| 0 <= i < P.n implies P.colptr@[i] <= #[trigger] P.colptr@[i + 1] <= P.rowval@.len() by { assert(P.colptr@[i + 1] <= P.colptr@[P.n as int]); }
    assert forall|i: int| 0 <= i < P.n && missing_diag(P, i) implies #[trigger] K0.colptr@[i] < K0.rowval@.len() by {
        assert(sp_tril(K0, P, A, i));
        lemma_count_row_le(P.rowval@, i, P.rowval@.len() as int); assert(A.colptr@[i] <= A.colptr@[i + 1]);
        lemma_tril_cursors_mono(K0, P, A, n, i + 1, n);
    }
    assert forall|i1: int, i2: int| 0 <= i1 < i2 < P.n && missing_diag(P, i1) && missing_diag(P, i2) implies #[trigger] K0.colptr@[i1] != #[trigger] K0.colptr@[i2] by {
        assert(sp_tril(K0, P, A, i1));
        lemma_count_row_le(P.rowval@, i1, P.rowval@.len() as int); assert(A.colptr@[i1] <= A.colptr@[i1 + 1]);
        lemma_tril_cursors_mono(K0, P, A, n, i1 + 1, i2);
    }
}
#[verifier::spinoff_prover]
pub proof fn lemma_tril_after_md(K0: CscMatrix<F>, K1: CscMatrix<F>, P: CscMatrix<F>, A: CscMatrix<F>, n: int)
    requires kkt_tril_pre(K0, P, A, n), fmd_post(K0, K1, P),
    ensures
        forall|c: int| 0 <= c < n ==> #[trigger] K1.colptr@[c] == K0.colptr@[c] + mdn(P, c),
        forall|c: int| n <= c < K0.colptr@.len() ==> #[trigger] K1.colptr@[c] == K0.colptr@[c],
        fill_block_pre(K1, P, 0, 0, MatrixShape::T),
{
    let np = P.rowval@.len() as int;
    assert forall|c: int| 0 <= c < n implies #[trigger] K1.colptr@[c] == K0.colptr@[c] + mdn(P, c) by { let dest = K0.colptr@[c] as int; }
    assert forall|j: int| 0 <= j < np implies #[trigger] dest_t(K1, P, 0, j) < K1.rowval@.len() by {
        let r = P.rowval@[j] as int;
        assert(K1.colptr@[r] == K0.colptr@[r] + mdn(P, r));
        assert(count_row(P.rowval@, r, j + 1) == count_row(P.rowval@, r, j) + 1);
        lemma_count_row_mono(P.rowval@, r, j + 1, np);
        assert(sp_tril(K0, P, A, r));
        assert(A.colptr@[r] <= A.colptr@[r + 1]);
        lemma_tril_cursors_mono(K0, P, A, n, r + 1, n);
    }
    assert forall|j1: int, j2: int| 0 <= j1 < j2 < np implies #[trigger] dest_t(K1, P, 0, j1) != #[trigger] dest_t(K1, P, 0, j2) by {
        let r1 = P.rowval@[j1] as int; let r2 = P.rowval@[j2] as int;
        assert(K1.colptr@[r1] == K0.colptr@[r1] + mdn(P, r1)); assert(K1.colptr@[r2] == K0.colptr@[r2] + mdn(P, r2));
        assert(count_row(P.rowval@, r1, j1 + 1) == count_row(P.rowval@, r1, j1) + 1);
        assert(count_row(P.rowval@, r2, j2 + 1) == count_row(P.rowval@, r2, j2) + 1);
        lemma_count_row_le(P.rowval@, r1, j1); lemma_count_row_le(P.rowval@, r2, j2);
        if r1 == r2 { lemma_count_row_mono(P.rowval@, r1, j1 + 1, j2); }
        else {
            lemma_count_row_mono(P.rowval@, r1, j1 + 1, np); lemma_count_row_mono(P.rowval@, r2, j2 + 1, np);
            assert(sp_tril(K0, P, A, r1));
            assert(sp_tril(K0, P, A, r2));
            assert(A.colptr@[r1] <= A.colptr@[r1 + 1]); assert(A.colptr@[r2] <= A.colptr@[r2 + 1]);
            if r1 < r2 { lemma_tril_cursors_mono(K0, P, A, n, r1 + 1, r2); } else { lemma_tril_cursors_mono(K0, P, A, n, r2 + 1, r1); }
        }
    }
}
#[verifier::spinoff_prover]
pub proof fn lemma_tril_after_P(K0: CscMatrix<F>, K1: CscMatrix<F>, K2: CscMatrix<F>, P: CscMatrix<F>, A: CscMatrix<F>, n: int, mapP: Seq<usize>)
    requires
        kkt_tril_pre(K0, P, A, n), fmd_post(K0, K1, P),
        forall|c: int| 0 <= c < n ==> #[trigger] K1.colptr@[c] == K0.colptr@[c] + mdn(P, c),
        forall|c: int| n <= c < K0.colptr@.len() ==> #[trigger] K1.colptr@[c] == K0.colptr@[c],
        fill_block_state(K1, K2, P, mapP, 0, 0, MatrixShape::T, P.rowval@.len() as int),
        K2.arrays_ok(), K2.rowval@.len() == K1.rowval@.len(), K2.colptr@.len() == K1.colptr@.len(),
    ensures kkt_tril_mid(K0, K2, P, n, mapP), fill_block_pre(K2, A, n as usize, 0, MatrixShape::N),
{
    let np = P.rowval@.len() as int;
    assert forall|i: int, j: int| #[trigger] P.in_col_u(j, i) implies ({
        let d = ptpos(K0, P, j);
        mapP[j] == d && K2.rowval@[d] == i && K2.nzval@[d] == P.nzval@[j] }) by {
        let r = P.rowval@[j] as int;
        assert(P.colptr@[i + 1] <= P.colptr@[P.n as int]);
        assert(K1.colptr@[r] == K0.colptr@[r] + mdn(P, r));
        assert(dest_t(K1, P, 0, j) == ptpos(K0, P, j));
    }
    assert forall|c: int| 0 <= c < n implies ({
        &&& #[trigger] K2.colptr@[c] == K0.colptr@[c] + mdn(P, c) + prow(P, c)
        &&& K2.colptr@[c] > K0.colptr@[c] && K2.rowval@[K0.colptr@[c] as int] == c
        &&& missing_diag(P, c) ==> K2.nzval@[K0.colptr@[c] as int] == f_zero() }) by {
        assert(K2.colptr@[c] == K1.colptr@[c] + count_row(P.rowval@, c - 0, np));
        assert(K1.colptr@[c] == K0.colptr@[c] + mdn(P, c));
        lemma_count_row_le(P.rowval@, c, np);
        let s0 = K0.colptr@[c] as int;
        assert(sp_tril(K0, P, A, c));
        assert(A.colptr@[c] <= A.colptr@[c + 1]);
        lemma_tril_cursors_mono(K0, P, A, n, c + 1, n);
        if missing_diag(P, c) {
            // the structural zero written by fill_missing_diag is not a destination of any entry of P
            assert(fb_free(K1, P, 0, MatrixShape::T, np, s0)) by {
                reveal(fb_free);
                assert forall|i: int, j: int| #[trigger] P.in_col_u(j, i) && j < np implies fb_dest(K1, P, 0, MatrixShape::T, i, j) != s0 by {
                    let r = P.rowval@[j] as int;
                    assert(K1.colptr@[r] == K0.colptr@[r] + mdn(P, r));
                    lemma_count_row_le(P.rowval@, r, j);
                    assert(count_row(P.rowval@, r, j + 1) == count_row(P.rowval@, r, j) + 1);
                    lemma_count_row_mono(P.rowval@, r, j + 1, np);
                    assert(sp_tril(K0, P, A, r));
                    assert(A.colptr@[r] <= A.colptr@[r + 1]);
                    if r < c { lemma_tril_cursors_mono(K0, P, A, n, r + 1, c); }
                    if c < r { lemma_tril_cursors_mono(K0, P, A, n, c + 1, r); }
                }
            }
            assert(K1.rowval@[s0] == c && K1.nzval@[s0] == f_zero());
        } else {
            let jd = P.colptr@[c + 1] - 1;
            assert(P.colptr@[c] <= P.colptr@[c + 1] <= P.colptr@[P.n as int]);
            assert(P.in_col_u(jd, c));
            lemma_diag_first_in_row(K0, P, A, n, c);
            assert(ptpos(K0, P, jd) == s0);
            assert(count_row(P.rowval@, c, jd + 1) == count_row(P.rowval@, c, jd) + 1);
            lemma_count_row_mono(P.rowval@, c, jd + 1, np);
        }
    }
    assert forall|c: int| n <= c < K0.colptr@.len() implies #[trigger] K2.colptr@[c] == K0.colptr@[c] by {
        assert(K2.colptr@[c] == K1.colptr@[c] + count_row(P.rowval@, c - 0, np));
        lemma_count_row_absent(P.rowval@, c, np);
    }
    // preconditions of fill_block(A, N, initrow n, initcol 0)
    assert forall|i: int, j: int| #[trigger] A.in_col_u(j, i) implies dest_n(K2, A, 0, i, j) < K2.rowval@.len() by {
        assert(K2.colptr@[i] == K0.colptr@[i] + mdn(P, i) + prow(P, i));
        assert(sp_tril(K0, P, A, i));
        lemma_tril_cursors_mono(K0, P, A, n, i + 1, n);
    }
    assert forall|i1: int, j1: int, i2: int, j2: int| #[trigger] A.in_col_u(j1, i1) && #[trigger] A.in_col_u(j2, i2) && j1 != j2
        implies dest_n(K2, A, 0, i1, j1) != dest_n(K2, A, 0, i2, j2) by {
        assert(K2.colptr@[i1] == K0.colptr@[i1] + mdn(P, i1) + prow(P, i1));
        assert(K2.colptr@[i2] == K0.colptr@[i2] + mdn(P, i2) + prow(P, i2));
        assert(sp_tril(K0, P, A, i1));
        assert(sp_tril(K0, P, A, i2));
        lemma_count_row_le(P.rowval@, i1, np); lemma_count_row_le(P.rowval@, i2, np);
        if i1 < i2 { lemma_tril_cursors_mono(K0, P, A, n, i1 + 1, i2); }
        if i2 < i1 { lemma_tril_cursors_mono(K0, P, A, n, i2 + 1, i1); }
    }
    assert forall|k: int| 0 <= k < A.rowval@.len() implies #[trigger] A.rowval@[k] + n <= usize::MAX by { }
}
// a slot below the end of the P part of column c is not a destination of any entry of A
#[verifier::spinoff_prover]
pub proof fn lemma_tril_free(K0: CscMatrix<F>, K2: CscMatrix<F>, P: CscMatrix<F>, A: CscMatrix<F>, n: int, mapP: Seq<usize>, c: int, s: int)
    requires kkt_tril_pre(K0, P, A, n), kkt_tril_mid(K0, K2, P, n, mapP), 0 <= c < n, K0.colptr@[c] <= s < K2.colptr@[c],
    ensures fb_free(K2, A, 0, MatrixShape::N, A.rowval@.len() as int, s),
{
    let na = A.rowval@.len() as int; let np = P.rowval@.len() as int;
    reveal(fb_free);
    assert forall|i: int, j: int| #[trigger] A.in_col_u(j, i) && j < na implies fb_dest(K2, A, 0, MatrixShape::N, i, j) != s by {
        assert(K2.colptr@[i] == K0.colptr@[i] + mdn(P, i) + prow(P, i));
        assert(K2.colptr@[c] == K0.colptr@[c] + mdn(P, c) + prow(P, c));
        assert(sp_tril(K0, P, A, i));
        assert(sp_tril(K0, P, A, c));
        lemma_count_row_le(P.rowval@, i, np); lemma_count_row_le(P.rowval@, c, np);
        assert(A.colptr@[c] <= A.colptr@[c + 1]);
        if i < c { lemma_tril_cursors_mono(K0, P, A, n, i + 1, c); }
        if c < i { lemma_tril_cursors_mono(K0, P, A, n, c + 1, i); }
    }
}
#[verifier::spinoff_prover]
pub proof fn lemma_tril_final(K0: CscMatrix<F>, K2: CscMatrix<F>, K3: CscMatrix<F>, P: CscMatrix<F>, A: CscMatrix<F>, n: int, mapP: Seq<usize>, mapA: Seq<usize>)
    requires
        kkt_tril_pre(K0, P, A, n), kkt_tril_mid(K0, K2, P, n, mapP),
        fill_block_state(K2, K3, A, mapA, n as usize, 0, MatrixShape::N, A.rowval@.len() as int),
        K3.arrays_ok(), K3.rowval@.len() == K2.rowval@.len(), K3.colptr@.len() == K2.colptr@.len(),
    ensures kkt_tril_post(K0, K3, P, A, n, mapP, mapA),
{
    let na = A.rowval@.len() as int; let np = P.rowval@.len() as int;
    assert forall|i: int, j: int| #[trigger] P.in_col_u(j, i) implies ({
        let d = ptpos(K0, P, j);
        mapP[j] == d && K3.rowval@[d] == i && K3.nzval@[d] == P.nzval@[j] }) by {
        let r = P.rowval@[j] as int; let d = ptpos(K0, P, j);
        lemma_count_row_le(P.rowval@, r, j);
        assert(count_row(P.rowval@, r, j + 1) == count_row(P.rowval@, r, j) + 1);
        lemma_count_row_mono(P.rowval@, r, j + 1, np);
        assert(K2.colptr@[r] == K0.colptr@[r] + mdn(P, r) + prow(P, r));
        assert(sp_tril(K0, P, A, r)); assert(A.colptr@[r] <= A.colptr@[r + 1]);
        lemma_tril_cursors_mono(K0, P, A, n, r + 1, n);
        assert(0 <= d < K2.rowval@.len());
        lemma_tril_free(K0, K2, P, A, n, mapP, r, d);
        assert(K3.rowval@[d] == K2.rowval@[d] && K3.nzval@[d] == K2.nzval@[d]);
        assert(P.colptr@[i + 1] <= P.colptr@[P.n as int]);
    }
    assert forall|c: int| 0 <= c < n implies ({
        &&& #[trigger] K3.colptr@[c] == K0.colptr@[c] + mdn(P, c) + prow(P, c) + pcnt(A, c)
        &&& K3.colptr@[c] > K0.colptr@[c] && K3.rowval@[K0.colptr@[c] as int] == c
        &&& missing_diag(P, c) ==> K3.nzval@[K0.colptr@[c] as int] == f_zero() }) by {
        assert(K3.colptr@[0 + c] == K2.colptr@[0 + c] + pushed_n(A, c, na));
        assert(A.colptr@[c] <= A.colptr@[c + 1] <= A.colptr@[A.n as int]);
        assert(K2.colptr@[c] == K0.colptr@[c] + mdn(P, c) + prow(P, c));
        assert(sp_tril(K0, P, A, c));
        lemma_count_row_le(P.rowval@, c, np);
        lemma_tril_cursors_mono(K0, P, A, n, c + 1, n);
        let s0 = K0.colptr@[c] as int;
        assert(0 <= s0 < K2.rowval@.len());
        lemma_tril_free(K0, K2, P, A, n, mapP, c, s0);
        assert(K3.rowval@[s0] == K2.rowval@[s0] && K3.nzval@[s0] == K2.nzval@[s0]);
        assert(pushed_n(A, c, na) == pcnt(A, c));
    }
    assert forall|i: int, j: int| #[trigger] A.in_col_u(j, i) implies ({
        let d = K0.colptr@[i] + mdn(P, i) + prow(P, i) + (j - A.colptr@[i]);
        mapA[j] == d && K3.rowval@[d] == A.rowval@[j] + n && K3.nzval@[d] == A.nzval@[j] }) by {
        assert(K2.colptr@[i] == K0.colptr@[i] + mdn(P, i) + prow(P, i));
        assert(dest_n(K2, A, 0, i, j) == K0.colptr@[i] + mdn(P, i) + prow(P, i) + (j - A.colptr@[i]));
    }
}


// ---- symmetric permutation of an upper-triangular matrix (QDLDL's permute_symmetric) ----
// entry k of A (row r, column c) goes to column max(ip[r], ip[c]) of P = perm(A) and gets row min(ip[r], ip[c])
pub open spec fn colof(A: CscMatrix<F>, k: int) -> int { choose|i: int| A.in_col_u(k, i) }
pub open spec fn umax(a: usize, b: usize) -> usize { if a >= b { a } else { b } }
pub open spec fn umin(a: usize, b: usize) -> usize { if a <= b { a } else { b } }
pub open spec fn tgt(A: CscMatrix<F>, ip: Seq<usize>, k: int) -> usize { umax(ip[A.rowval@[k] as int], ip[colof(A, k)]) }
pub open spec fn tgseq(A: CscMatrix<F>, ip: Seq<usize>) -> Seq<usize> { Seq::new(A.rowval@.len(), |k: int| tgt(A, ip, k)) }
pub proof fn lemma_colof(A: CscMatrix<F>, k: int, i: int)
    requires A.colptr_ok_u(), A.in_col_u(k, i),
    ensures colof(A, k) == i,
{
    let c = colof(A, k);
    assert(A.in_col_u(k, c));
    if c < i { assert(A.colptr@[c + 1] <= A.colptr@[i]); }
    if i < c { assert(A.colptr@[i + 1] <= A.colptr@[c]); }
}
pub open spec fn psym_pre(A: CscMatrix<F>, ip: Seq<usize>, n: int) -> bool {
    &&& A.colptr_ok_u() && A.n == n && A.m == n && ip.len() == n && A.rowval@.len() <= usize::MAX
    &&& forall|c: int, k: int| #[trigger] A.in_col_u(k, c) ==> A.rowval@[k] <= c       // upper triangular (check_structure)
    &&& forall|q: int| 0 <= q < n ==> #[trigger] ip[q] < n                              // an inverse permutation maps into 0..n
}
// every entry has a target column below n
pub proof fn lemma_tg_bound(A: CscMatrix<F>, ip: Seq<usize>, n: int)
    requires psym_pre(A, ip, n),
    ensures forall|q: int| 0 <= q < tgseq(A, ip).len() ==> #[trigger] tgseq(A, ip)[q] < n, tgseq(A, ip).len() == A.rowval@.len(),
{
    assert forall|q: int| 0 <= q < tgseq(A, ip).len() implies #[trigger] tgseq(A, ip)[q] < n by {
        let i = lemma_col_of_entry(A, q);
        lemma_colof(A, q, i);
        assert(A.rowval@[q] <= i);
    }
}
// each stored entry belongs to a column
pub proof fn lemma_col_of_entry(A: CscMatrix<F>, q: int) -> (i: int)
    requires A.colptr_ok_u(), 0 <= q < A.rowval@.len(),
    ensures A.in_col_u(q, i),
{
    assert(A.n > 0) by { if A.n == 0 { assert(A.colptr@[0] == A.nzval@.len()); } }
    lemma_col_of(A, q, A.n as int)
}
// when every element is below sm, `below(.., sm, k)` counts everything
pub proof fn lemma_below_total(rv: Seq<usize>, sm: int, k: int)
    requires 0 <= k <= rv.len(), sm >= 0, forall|q: int| 0 <= q < rv.len() ==> #[trigger] rv[q] < sm,
    ensures below(rv, sm, k) == k,
    decreases k,
{
    if k > 0 { lemma_below_total(rv, sm, k - 1); lemma_below_step(rv, sm, k); } else { lemma_below_zero(rv, sm); }
}
// state of the placement pass after the first k entries (storage order)
pub open spec fn psym_state(A: CscMatrix<F>, ip: Seq<usize>, tg: Seq<usize>, n: int, k: int, starts: Seq<usize>, map: Seq<usize>, pr: Seq<usize>, pv: Seq<F>) -> bool {
    let nnz = A.rowval@.len() as int;
    &&& starts.len() == n && map.len() == nnz && pr.len() == nnz && pv.len() == nnz
    &&& forall|c: int| 0 <= c < n ==> #[trigger] starts[c] == below(tg, c, nnz) + count_row(tg, c, k)
    &&& forall|j: int| 0 <= j < k ==> #[trigger] map[j] == tpos(tg, j)
    &&& forall|j: int| 0 <= j < k ==> pr[tpos(tg, j)] == umin(ip[#[trigger] A.rowval@[j] as int], ip[colof(A, j)])
    &&& forall|j: int| 0 <= j < k ==> pv[tpos(tg, j)] == #[trigger] A.nzval@[j]
}
#[verifier::spinoff_prover]
pub proof fn lemma_psym_step(A: CscMatrix<F>, ip: Seq<usize>, tg: Seq<usize>, n: int, k: int, col: int,
                             s1: Seq<usize>, m1: Seq<usize>, r1: Seq<usize>, v1: Seq<F>, s2: Seq<usize>, m2: Seq<usize>, r2: Seq<usize>, v2: Seq<F>)
    requires
        psym_pre(A, ip, n), tg == tgseq(A, ip), A.in_col_u(k, col), psym_state(A, ip, tg, n, k, s1, m1, r1, v1),
        ({ let t = tgt(A, ip, k) as int; let d = s1[t] as int;
           &&& 0 <= d < r1.len()
           &&& r2 == r1.update(d, umin(ip[A.rowval@[k] as int], ip[col])) && v2 == v1.update(d, A.nzval@[k])
           &&& m2 == m1.update(k, d as usize) && s2 == s1.update(t, (d + 1) as usize) }),
    ensures psym_state(A, ip, tg, n, k + 1, s2, m2, r2, v2),
{
    let nnz = A.rowval@.len() as int;
    lemma_tg_bound(A, ip, n);
    lemma_colof(A, k, col);
    assert(A.colptr@[col + 1] <= A.colptr@[A.n as int]);
    let t = tgt(A, ip, k) as int; let d = s1[t] as int;
    assert(tg[k] == t);
    assert(d == tpos(tg, k));
    assert forall|c: int| 0 <= c < n implies #[trigger] s2[c] == below(tg, c, nnz) + count_row(tg, c, k + 1) by {
        assert(count_row(tg, c, k + 1) == count_row(tg, c, k) + (if tg[k] == c { 1int } else { 0int }));
    }
    lemma_tpos_range(tg, k, n);
    assert forall|j: int| 0 <= j < k + 1 implies r2[tpos(tg, j)] == umin(ip[#[trigger] A.rowval@[j] as int], ip[colof(A, j)]) by {
        if j < k { lemma_tpos_distinct(tg, j, k, n); lemma_tpos_range(tg, j, n); assert(r1[tpos(tg, j)] == umin(ip[A.rowval@[j] as int], ip[colof(A, j)])); }
    }
    assert forall|j: int| 0 <= j < k + 1 implies v2[tpos(tg, j)] == #[trigger] A.nzval@[j] by {
        if j < k { lemma_tpos_distinct(tg, j, k, n); lemma_tpos_range(tg, j, n); assert(v1[tpos(tg, j)] == A.nzval@[j]); }
    }
}


// ---- block-diagonal concatenation ----
pub open spec fn bd_rs(ms: Seq<&CscMatrix<F>>, b: int) -> int decreases b { if b <= 0 { 0 } else { bd_rs(ms, b - 1) + ms[b - 1].m } }
pub open spec fn bd_cs(ms: Seq<&CscMatrix<F>>, b: int) -> int decreases b { if b <= 0 { 0 } else { bd_cs(ms, b - 1) + ms[b - 1].n } }
pub open spec fn bd_bs(ms: Seq<&CscMatrix<F>>, b: int) -> int decreases b { if b <= 0 { 0 } else { bd_bs(ms, b - 1) + ms[b - 1].rowval@.len() } }
pub open spec fn bd_blk_ok(M: CscMatrix<F>) -> bool { M.colptr_ok_u() && forall|k: int| 0 <= k < M.rowval@.len() ==> #[trigger] M.rowval@[k] < M.m }
pub open spec fn bd_pre(ms: Seq<&CscMatrix<F>>) -> bool {
    &&& forall|b: int| 0 <= b < ms.len() ==> bd_blk_ok(*#[trigger] ms[b])
    &&& bd_rs(ms, ms.len() as int) <= usize::MAX && bd_cs(ms, ms.len() as int) < usize::MAX && 2 * bd_bs(ms, ms.len() as int) <= usize::MAX
}
pub open spec fn bd_post(ms: Seq<&CscMatrix<F>>, R: CscMatrix<F>) -> bool {
    let nb = ms.len() as int;
    &&& R.m == bd_rs(ms, nb) && R.n == bd_cs(ms, nb) && R.colptr@.len() == R.n + 1 && R.rowval@.len() == bd_bs(ms, nb) && R.nzval@.len() == bd_bs(ms, nb)
    &&& forall|b: int, i: int| 0 <= b < nb && 0 <= i <= ms[b].n ==> #[trigger] R.colptr@[bd_cs(ms, b) + i] == bd_bs(ms, b) + ms[b].colptr@[i]
    &&& forall|b: int, j: int| 0 <= b < nb && 0 <= j < ms[b].rowval@.len() ==> #[trigger] R.rowval@[bd_bs(ms, b) + j] == ms[b].rowval@[j] + bd_rs(ms, b)
    &&& forall|b: int, j: int| 0 <= b < nb && 0 <= j < ms[b].rowval@.len() ==> #[trigger] R.nzval@[bd_bs(ms, b) + j] == ms[b].nzval@[j]
}


pub proof fn lemma_bd_mono(ms: Seq<&CscMatrix<F>>, a: int, b: int)
    requires 0 <= a <= b <= ms.len(),
    ensures bd_rs(ms, a) <= bd_rs(ms, b), bd_cs(ms, a) <= bd_cs(ms, b), bd_bs(ms, a) <= bd_bs(ms, b), 0 <= bd_rs(ms, a), 0 <= bd_cs(ms, a), 0 <= bd_bs(ms, a),
    decreases b,
{ if a < b { lemma_bd_mono(ms, a, b - 1); } else if a > 0 { lemma_bd_mono(ms, a - 1, a - 1); } }
// counts after the first k blocks have been counted: block b < k has its column counts in place, everything from cs(k) on is still 0
pub open spec fn bd_counts(ms: Seq<&CscMatrix<F>>, cp: Seq<usize>, k: int) -> bool {
    &&& cp.len() == bd_cs(ms, ms.len() as int) + 1
    &&& forall|b: int, i: int| 0 <= b < k && 0 <= i < ms[b].n ==> #[trigger] cp[bd_cs(ms, b) + i] == pcnt(*ms[b], i)
    &&& forall|c: int| bd_cs(ms, k) <= c < cp.len() ==> #[trigger] cp[c] == 0
}
#[verifier::spinoff_prover]
pub proof fn lemma_bd_count_step(ms: Seq<&CscMatrix<F>>, cp1: Seq<usize>, cp2: Seq<usize>, k: int)
    requires
        bd_pre(ms), 0 <= k < ms.len(), bd_counts(ms, cp1, k), cp2.len() == cp1.len(),
        colptr_same_except(cp2, cp1, bd_cs(ms, k), bd_cs(ms, k) + ms[k].n),
        forall|i: int| 0 <= i < ms[k].n ==> #[trigger] cp2[bd_cs(ms, k) + i] == cp1[bd_cs(ms, k) + i] + (ms[k].colptr@[i + 1] - ms[k].colptr@[i]),
    ensures bd_counts(ms, cp2, k + 1),
{
    lemma_bd_mono(ms, k + 1, ms.len() as int);
    assert forall|b: int, i: int| 0 <= b < k + 1 && 0 <= i < ms[b].n implies #[trigger] cp2[bd_cs(ms, b) + i] == pcnt(*ms[b], i) by {
        lemma_bd_mono(ms, b, b); lemma_bd_mono(ms, k + 1, ms.len() as int);
        if b < k {
            lemma_bd_mono(ms, b + 1, k);
            assert(bd_cs(ms, b + 1) == bd_cs(ms, b) + ms[b].n);
            assert(cp1[bd_cs(ms, b) + i] == pcnt(*ms[b], i));
            assert(cp2[bd_cs(ms, b) + i] == cp1[bd_cs(ms, b) + i]);
        }
        else { assert(bd_cs(ms, k + 1) == bd_cs(ms, k) + ms[k].n); assert(cp1[bd_cs(ms, k) + i] == 0); }
    }
}
// the prefix sums of the counts are the block starts
pub proof fn lemma_bd_starts(ms: Seq<&CscMatrix<F>>, cnt: Seq<usize>, b: int, i: int)
    requires bd_pre(ms), bd_counts(ms, cnt, ms.len() as int), 0 <= b < ms.len(), 0 <= i <= ms[b].n,
    ensures sum_upto(cnt, bd_cs(ms, b) + i) == bd_bs(ms, b) + ms[b].colptr@[i],
    decreases b, i,
{
    assert(bd_blk_ok(*ms[b]));
    lemma_bd_mono(ms, b, b); lemma_bd_mono(ms, b + 1, ms.len() as int);
    assert(bd_cs(ms, b + 1) == bd_cs(ms, b) + ms[b].n);
    if i > 0 {
        lemma_bd_starts(ms, cnt, b, i - 1);
        assert(cnt[bd_cs(ms, b) + (i - 1)] == pcnt(*ms[b], i - 1));
        assert(sum_upto(cnt, bd_cs(ms, b) + i) == sum_upto(cnt, bd_cs(ms, b) + i - 1) + cnt[bd_cs(ms, b) + i - 1]);
    } else if b > 0 {
        assert(bd_blk_ok(*ms[b - 1]));
        lemma_bd_starts(ms, cnt, b - 1, ms[b - 1].n as int);
        assert(bd_cs(ms, b) == bd_cs(ms, b - 1) + ms[b - 1].n);
        assert(bd_bs(ms, b) == bd_bs(ms, b - 1) + ms[b - 1].rowval@.len());
        assert(ms[b - 1].colptr@[ms[b - 1].n as int] == ms[b - 1].rowval@.len());
        assert(ms[b].colptr@[0] == 0);
    } else {
        assert(ms[0].colptr@[0] == 0);
    }
}
pub proof fn lemma_bd_total(ms: Seq<&CscMatrix<F>>, cnt: Seq<usize>)
    requires bd_pre(ms), bd_counts(ms, cnt, ms.len() as int), ms.len() > 0,
    ensures sum_upto(cnt, cnt.len() as int) == bd_bs(ms, ms.len() as int),
{
    let nb = ms.len() as int;
    assert(bd_blk_ok(*ms[nb - 1]));
    lemma_bd_starts(ms, cnt, nb - 1, ms[nb - 1].n as int);
    let n = bd_cs(ms, nb);
    assert(cnt[n] == 0);
    assert(sum_upto(cnt, n + 1) == sum_upto(cnt, n) + cnt[n]);
}
// every column belongs to a block
pub proof fn lemma_bd_col_block(ms: Seq<&CscMatrix<F>>, k: int, c: int) -> (bi: (int, int))
    requires 0 <= k <= ms.len(), 0 <= c < bd_cs(ms, k),
    ensures 0 <= bi.0 < k, 0 <= bi.1 < ms[bi.0].n, bd_cs(ms, bi.0) + bi.1 == c,
    decreases k,
{
    lemma_bd_mono(ms, k - 1, k - 1);
    if c >= bd_cs(ms, k - 1) { (k - 1, c - bd_cs(ms, k - 1)) } else { lemma_bd_col_block(ms, k - 1, c) }
}
// state of the fill pass after the first k blocks; `st` = the column starts produced by colcount_to_colptr
pub open spec fn bd_filled(ms: Seq<&CscMatrix<F>>, st: Seq<usize>, K: CscMatrix<F>, k: int) -> bool {
    let nb = ms.len() as int;
    &&& K.arrays_ok() && K.colptr@.len() == st.len() && st.len() == bd_cs(ms, nb) + 1 && K.rowval@.len() == bd_bs(ms, nb)
    &&& forall|b: int, i: int| 0 <= b < k && 0 <= i < ms[b].n ==> #[trigger] K.colptr@[bd_cs(ms, b) + i] == st[bd_cs(ms, b) + i + 1]
    &&& forall|b: int, i: int| k <= b < nb && 0 <= i < ms[b].n ==> #[trigger] K.colptr@[bd_cs(ms, b) + i] == st[bd_cs(ms, b) + i]
    &&& K.colptr@[bd_cs(ms, nb)] == st[bd_cs(ms, nb)]
    &&& forall|b: int, j: int| 0 <= b < k && 0 <= j < ms[b].rowval@.len() ==> #[trigger] K.rowval@[bd_bs(ms, b) + j] == ms[b].rowval@[j] + bd_rs(ms, b)
    &&& forall|b: int, j: int| 0 <= b < k && 0 <= j < ms[b].rowval@.len() ==> #[trigger] K.nzval@[bd_bs(ms, b) + j] == ms[b].nzval@[j]
}
pub open spec fn bd_starts_ok(ms: Seq<&CscMatrix<F>>, st: Seq<usize>) -> bool {
    forall|b: int, i: int| 0 <= b < ms.len() && 0 <= i <= ms[b].n ==> #[trigger] st[bd_cs(ms, b) + i] == bd_bs(ms, b) + ms[b].colptr@[i]
}
#[verifier::spinoff_prover]
pub proof fn lemma_bd_fill_pre(ms: Seq<&CscMatrix<F>>, st: Seq<usize>, K: CscMatrix<F>, k: int)
    requires bd_pre(ms), 0 <= k < ms.len(), bd_starts_ok(ms, st), bd_filled(ms, st, K, k),
    ensures fill_block_pre(K, *ms[k], bd_rs(ms, k) as usize, bd_cs(ms, k) as usize, MatrixShape::N),
{
    let M = *ms[k]; let nb = ms.len() as int;
    assert(bd_blk_ok(M));
    lemma_bd_mono(ms, k + 1, nb); lemma_bd_mono(ms, k, k);
    assert forall|i: int, j: int| #[trigger] M.in_col_u(j, i) implies dest_n(K, M, bd_cs(ms, k), i, j) < K.rowval@.len() by {
        assert(K.colptr@[bd_cs(ms, k) + i] == st[bd_cs(ms, k) + i]);
        assert(st[bd_cs(ms, k) + i] == bd_bs(ms, k) + M.colptr@[i]);
        assert(M.colptr@[i + 1] <= M.colptr@[M.n as int]);
    }
    assert forall|i1: int, j1: int, i2: int, j2: int| #[trigger] M.in_col_u(j1, i1) && #[trigger] M.in_col_u(j2, i2) && j1 != j2
        implies dest_n(K, M, bd_cs(ms, k), i1, j1) != dest_n(K, M, bd_cs(ms, k), i2, j2) by {
        assert(K.colptr@[bd_cs(ms, k) + i1] == st[bd_cs(ms, k) + i1]); assert(K.colptr@[bd_cs(ms, k) + i2] == st[bd_cs(ms, k) + i2]);
        assert(st[bd_cs(ms, k) + i1] == bd_bs(ms, k) + M.colptr@[i1]); assert(st[bd_cs(ms, k) + i2] == bd_bs(ms, k) + M.colptr@[i2]);
    }
    assert forall|q: int| 0 <= q < M.rowval@.len() implies #[trigger] M.rowval@[q] + bd_rs(ms, k) <= usize::MAX by { }
}
// a slot of an earlier block is not a destination of any entry of block k
pub proof fn lemma_bd_free(ms: Seq<&CscMatrix<F>>, st: Seq<usize>, K1: CscMatrix<F>, k: int, b: int, j: int)
    requires bd_pre(ms), 0 <= b < k < ms.len(), 0 <= j < ms[b].rowval@.len(), bd_starts_ok(ms, st), bd_filled(ms, st, K1, k),
    ensures fb_free(K1, *ms[k], bd_cs(ms, k), MatrixShape::N, ms[k].rowval@.len() as int, bd_bs(ms, b) + j),
{
    reveal(fb_free);
    let M = *ms[k]; let cs = bd_cs(ms, k); let bs = bd_bs(ms, k);
    lemma_bd_mono(ms, b + 1, k);
    assert forall|i2: int, j2: int| #[trigger] M.in_col_u(j2, i2) && j2 < M.rowval@.len() implies fb_dest(K1, M, cs, MatrixShape::N, i2, j2) != bd_bs(ms, b) + j by {
        assert(K1.colptr@[cs + i2] == st[cs + i2]); assert(st[cs + i2] == bs + M.colptr@[i2]);
    }
}
#[verifier::spinoff_prover]
pub proof fn lemma_bd_fill_step(ms: Seq<&CscMatrix<F>>, st: Seq<usize>, K1: CscMatrix<F>, K2: CscMatrix<F>, map: Seq<usize>, k: int)
    requires
        bd_pre(ms), 0 <= k < ms.len(), bd_starts_ok(ms, st), bd_filled(ms, st, K1, k),
        fill_block_state(K1, K2, *ms[k], map, bd_rs(ms, k) as usize, bd_cs(ms, k) as usize, MatrixShape::N, ms[k].rowval@.len() as int),
        K2.arrays_ok(), K2.rowval@.len() == K1.rowval@.len(), K2.colptr@.len() == K1.colptr@.len(),
    ensures bd_filled(ms, st, K2, k + 1),
{
    let M = *ms[k]; let nb = ms.len() as int; let cs = bd_cs(ms, k); let bs = bd_bs(ms, k); let nnz = M.rowval@.len() as int;
    assert(bd_blk_ok(M));
    lemma_bd_mono(ms, k + 1, nb); lemma_bd_mono(ms, k, k);
    assert forall|b: int, i: int| 0 <= b < k + 1 && 0 <= i < ms[b].n implies #[trigger] K2.colptr@[bd_cs(ms, b) + i] == st[bd_cs(ms, b) + i + 1] by {
        lemma_bd_mono(ms, b, b); lemma_bd_mono(ms, b + 1, nb); assert(bd_cs(ms, b + 1) == bd_cs(ms, b) + ms[b].n);
        if b < k {
            lemma_bd_mono(ms, b + 1, k);
            assert(K1.colptr@[bd_cs(ms, b) + i] == st[bd_cs(ms, b) + i + 1]);
            assert(K2.colptr@[bd_cs(ms, b) + i] == K1.colptr@[bd_cs(ms, b) + i]);
        }
        else {
            assert(K2.colptr@[cs + i] == K1.colptr@[cs + i] + pushed_n(M, i, nnz));
            assert(M.colptr@[i + 1] <= M.colptr@[M.n as int]);
            assert(K1.colptr@[cs + i] == st[cs + i]);
            assert(st[cs + i] == bs + M.colptr@[i]); assert(st[cs + (i + 1)] == bs + M.colptr@[i + 1]);
        }
    }
    assert forall|b: int, i: int| k + 1 <= b < nb && 0 <= i < ms[b].n implies #[trigger] K2.colptr@[bd_cs(ms, b) + i] == st[bd_cs(ms, b) + i] by {
        lemma_bd_mono(ms, k + 1, b); lemma_bd_mono(ms, b, b); lemma_bd_mono(ms, b + 1, nb); assert(bd_cs(ms, b + 1) == bd_cs(ms, b) + ms[b].n);
        assert(bd_cs(ms, k + 1) == cs + M.n);
        assert(K1.colptr@[bd_cs(ms, b) + i] == st[bd_cs(ms, b) + i]);
        assert(K2.colptr@[bd_cs(ms, b) + i] == K1.colptr@[bd_cs(ms, b) + i]);
    }
    // the entries of block k
    assert forall|j: int| 0 <= j < nnz implies K2.rowval@[bs + j] == #[trigger] M.rowval@[j] + bd_rs(ms, k) by {
        let i = lemma_col_of_entry(M, j);
        assert(M.in_col_u(j, i));
        assert(K1.colptr@[cs + i] == st[cs + i]); assert(st[cs + i] == bs + M.colptr@[i]);
        assert(dest_n(K1, M, cs, i, j) == bs + j);
    }
    assert forall|j: int| 0 <= j < nnz implies K2.nzval@[bs + j] == #[trigger] M.nzval@[j] by {
        let i = lemma_col_of_entry(M, j);
        assert(M.in_col_u(j, i));
        assert(K1.colptr@[cs + i] == st[cs + i]); assert(st[cs + i] == bs + M.colptr@[i]);
        assert(dest_n(K1, M, cs, i, j) == bs + j);
    }
    assert forall|b: int, j: int| 0 <= b < k + 1 && 0 <= j < ms[b].rowval@.len() implies #[trigger] K2.rowval@[bd_bs(ms, b) + j] == ms[b].rowval@[j] + bd_rs(ms, b) by {
        if b < k { lemma_bd_mono(ms, b + 1, k); lemma_bd_mono(ms, b, b); lemma_bd_free(ms, st, K1, k, b, j); assert(K1.rowval@[bd_bs(ms, b) + j] == ms[b].rowval@[j] + bd_rs(ms, b)); }
    }
    assert forall|b: int, j: int| 0 <= b < k + 1 && 0 <= j < ms[b].rowval@.len() implies #[trigger] K2.nzval@[bd_bs(ms, b) + j] == ms[b].nzval@[j] by {
        if b < k { lemma_bd_mono(ms, b + 1, k); lemma_bd_mono(ms, b, b); lemma_bd_free(ms, st, K1, k, b, j); assert(K1.nzval@[bd_bs(ms, b) + j] == ms[b].nzval@[j]); }
    }
    assert(K2.colptr@[bd_cs(ms, nb)] == K1.colptr@[bd_cs(ms, nb)]);
}
#[verifier::spinoff_prover]
pub proof fn lemma_bd_final(ms: Seq<&CscMatrix<F>>, st: Seq<usize>, K: CscMatrix<F>, R: CscMatrix<F>)
    requires
        bd_pre(ms), ms.len() > 0, bd_starts_ok(ms, st), bd_filled(ms, st, K, ms.len() as int), st[0] == 0,
        // backshift_colptrs (its contract)
        R.colptr@.len() == K.colptr@.len(), R.colptr@[0] == 0, R.rowval@ == K.rowval@, R.nzval@ == K.nzval@, R.m == K.m, R.n == K.n,
        forall|c: int| 1 <= c < K.colptr@.len() ==> #[trigger] R.colptr@[c] == K.colptr@[c - 1],
        K.m == bd_rs(ms, ms.len() as int), K.n == bd_cs(ms, ms.len() as int),
    ensures bd_post(ms, R),
{
    let nb = ms.len() as int;
    assert forall|c: int| 0 <= c < st.len() implies R.colptr@[c] == st[c] by {
        if c >= 1 { let bi = lemma_bd_col_block(ms, nb, c - 1); assert(K.colptr@[bd_cs(ms, bi.0) + bi.1] == st[bd_cs(ms, bi.0) + bi.1 + 1]); }
    }
    assert forall|b: int, i: int| 0 <= b < nb && 0 <= i <= ms[b].n implies #[trigger] R.colptr@[bd_cs(ms, b) + i] == bd_bs(ms, b) + ms[b].colptr@[i] by {
        lemma_bd_mono(ms, b + 1, nb); lemma_bd_mono(ms, b, b);
        assert(st[bd_cs(ms, b) + i] == bd_bs(ms, b) + ms[b].colptr@[i]);
    }
}


pub type CscF = CscMatrix<F>;
// a block grid: at least one block, every block row equally long, heights constant along block rows, widths along block columns
pub open spec fn grid_ok(g: Seq<&[&CscMatrix<F>]>) -> bool {
    &&& g.len() >= 1 && g[0]@.len() >= 1
    &&& forall|q: int| 0 <= q < g.len() ==> (#[trigger] g[q])@.len() == g[0]@.len()
    &&& forall|q: int, p: int| 0 <= q < g.len() && 0 <= p < g[0]@.len() ==> (#[trigger] g[q]@[p]).m == g[q]@[0].m
    &&& forall|q: int, p: int| 0 <= q < g.len() && 0 <= p < g[0]@.len() ==> (#[trigger] g[q]@[p]).n == g[0]@[p].n
}


// ---- general block concatenation (hvcat; hcat and vcat are its 1 x 2 and 2 x 1 cases) ----
pub open spec fn hv_rs(g: Seq<&[&CscMatrix<F>]>, q: int) -> int decreases q { if q <= 0 { 0 } else { hv_rs(g, q - 1) + g[q - 1]@[0].m } }
pub open spec fn hv_cs(g: Seq<&[&CscMatrix<F>]>, p: int) -> int decreases p { if p <= 0 { 0 } else { hv_cs(g, p - 1) + g[0]@[p - 1].n } }
// entries of block column p in the block rows < q;  entries of all block columns < p
pub open spec fn hv_colnnz(g: Seq<&[&CscMatrix<F>]>, p: int, q: int) -> int decreases q { if q <= 0 { 0 } else { hv_colnnz(g, p, q - 1) + g[q - 1]@[p].rowval@.len() } }
pub open spec fn hv_base(g: Seq<&[&CscMatrix<F>]>, p: int) -> int decreases p { if p <= 0 { 0 } else { hv_base(g, p - 1) + hv_colnnz(g, p - 1, g.len() as int) } }
// entries of local column l of block column p that come from the block rows < q;  sum of their column pointers
pub open spec fn hv_cnt(g: Seq<&[&CscMatrix<F>]>, p: int, l: int, q: int) -> int decreases q { if q <= 0 { 0 } else { hv_cnt(g, p, l, q - 1) + pcnt(*g[q - 1]@[p], l) } }
pub open spec fn hv_cps(g: Seq<&[&CscMatrix<F>]>, p: int, l: int, q: int) -> int decreases q { if q <= 0 { 0 } else { hv_cps(g, p, l, q - 1) + g[q - 1]@[p].colptr@[l] } }
pub open spec fn hv_st(g: Seq<&[&CscMatrix<F>]>, p: int, l: int) -> int { hv_base(g, p) + hv_cps(g, p, l, g.len() as int) }
// the same total, block row by block row (the order in which hvcat adds it up)
pub open spec fn hv_rownnz(g: Seq<&[&CscMatrix<F>]>, q: int, p: int) -> int decreases p { if p <= 0 { 0 } else { hv_rownnz(g, q, p - 1) + g[q]@[p - 1].rowval@.len() } }
pub open spec fn hv_tot(g: Seq<&[&CscMatrix<F>]>, q: int) -> int decreases q { if q <= 0 { 0 } else { hv_tot(g, q - 1) + hv_rownnz(g, q - 1, g[0]@.len() as int) } }
pub open spec fn hv_pre(g: Seq<&[&CscMatrix<F>]>) -> bool {
    &&& grid_ok(g)
    &&& forall|q: int, p: int| 0 <= q < g.len() && 0 <= p < g[0]@.len() ==> bd_blk_ok(*#[trigger] g[q]@[p])
    &&& hv_rs(g, g.len() as int) <= usize::MAX && hv_cs(g, g[0]@.len() as int) < usize::MAX && 2 * hv_base(g, g[0]@.len() as int) <= usize::MAX
}
pub open spec fn hv_post(g: Seq<&[&CscMatrix<F>]>, R: CscMatrix<F>) -> bool {
    let nr = g.len() as int; let nc = g[0]@.len() as int;
    &&& R.m == hv_rs(g, nr) && R.n == hv_cs(g, nc) && R.colptr@.len() == R.n + 1 && R.rowval@.len() == hv_base(g, nc) && R.nzval@.len() == hv_base(g, nc)
    // column l of block column p starts after all earlier block columns and after the columns < l of every block of this block column
    &&& forall|p: int, l: int| 0 <= p < nc && 0 <= l <= g[0]@[p].n ==> #[trigger] R.colptr@[hv_cs(g, p) + l] == hv_st(g, p, l)
    // entry j (local column l) of block (q, p): after the entries of that column contributed by the block rows above, in order, rows shifted
    &&& forall|q: int, p: int, l: int, j: int| 0 <= q < nr && 0 <= p < nc && #[trigger] g[q]@[p].in_col_u(j, l) ==> {
            let d = hv_st(g, p, l) + hv_cnt(g, p, l, q) + (j - g[q]@[p].colptr@[l]);
            0 <= d < R.rowval@.len() && R.rowval@[d] == g[q]@[p].rowval@[j] + hv_rs(g, q) && R.nzval@[d] == g[q]@[p].nzval@[j] }
}
// ---- arithmetic of the sums ----
pub proof fn lemma_hv_mono(g: Seq<&[&CscMatrix<F>]>, a: int, b: int)
    requires 0 <= a <= b,
    ensures hv_rs(g, a) <= hv_rs(g, b), hv_cs(g, a) <= hv_cs(g, b), 0 <= hv_rs(g, a), 0 <= hv_cs(g, a),
    decreases b,
{ if a < b { lemma_hv_mono(g, a, b - 1); } else if a > 0 { lemma_hv_mono(g, a - 1, a - 1); } }
pub proof fn lemma_hv_colnnz_mono(g: Seq<&[&CscMatrix<F>]>, p: int, a: int, b: int)
    requires 0 <= a <= b,
    ensures 0 <= hv_colnnz(g, p, a) <= hv_colnnz(g, p, b),
    decreases b,
{ if a < b { lemma_hv_colnnz_mono(g, p, a, b - 1); } else if a > 0 { lemma_hv_colnnz_mono(g, p, a - 1, a - 1); } }
pub proof fn lemma_hv_base_mono(g: Seq<&[&CscMatrix<F>]>, a: int, b: int)
    requires 0 <= a <= b,
    ensures 0 <= hv_base(g, a) <= hv_base(g, b),
    decreases b,
{
    if a < b { lemma_hv_base_mono(g, a, b - 1); lemma_hv_colnnz_mono(g, b - 1, 0, g.len() as int); }
    else if a > 0 { lemma_hv_base_mono(g, a - 1, a - 1); lemma_hv_colnnz_mono(g, a - 1, 0, g.len() as int); }
}
// cnt(l) = cps(l + 1) - cps(l);  cps(0) = 0;  cps(w) = colnnz;  all monotone in q for well-formed blocks
pub proof fn lemma_hv_cnt_cps(g: Seq<&[&CscMatrix<F>]>, p: int, l: int, q: int)
    requires hv_pre(g), 0 <= p < g[0]@.len(), 0 <= q <= g.len(), 0 <= l < g[0]@[p].n,
    ensures hv_cps(g, p, l, q) + hv_cnt(g, p, l, q) == hv_cps(g, p, l + 1, q), hv_cnt(g, p, l, q) >= 0, hv_cps(g, p, l, q) >= 0,
    decreases q,
{
    if q > 0 {
        lemma_hv_cnt_cps(g, p, l, q - 1);
        let M = *g[q - 1]@[p];
        assert(bd_blk_ok(M)); assert(M.n == g[0]@[p].n); assert(M.colptr@[l] <= M.colptr@[l + 1]);
    }
}
pub proof fn lemma_hv_cps_ends(g: Seq<&[&CscMatrix<F>]>, p: int, q: int)
    requires hv_pre(g), 0 <= p < g[0]@.len(), 0 <= q <= g.len(),
    ensures hv_cps(g, p, 0, q) == 0, hv_cps(g, p, g[0]@[p].n as int, q) == hv_colnnz(g, p, q),
    decreases q,
{
    if q > 0 {
        lemma_hv_cps_ends(g, p, q - 1);
        let M = *g[q - 1]@[p];
        assert(bd_blk_ok(M)); assert(M.n == g[0]@[p].n);
    }
}
pub proof fn lemma_hv_cnt_mono(g: Seq<&[&CscMatrix<F>]>, p: int, l: int, a: int, b: int)
    requires hv_pre(g), 0 <= p < g[0]@.len(), 0 <= a <= b <= g.len(), 0 <= l < g[0]@[p].n,
    ensures 0 <= hv_cnt(g, p, l, a) <= hv_cnt(g, p, l, b),
    decreases b,
{
    if a < b {
        lemma_hv_cnt_mono(g, p, l, a, b - 1);
        let M = *g[b - 1]@[p]; assert(bd_blk_ok(M)); assert(M.n == g[0]@[p].n); assert(M.colptr@[l] <= M.colptr@[l + 1]);
    } else { lemma_hv_cnt_cps(g, p, l, a); }
}
// column starts are nondecreasing inside a block column and end where the next block column begins
pub proof fn lemma_hv_st_mono(g: Seq<&[&CscMatrix<F>]>, p: int, a: int, b: int)
    requires hv_pre(g), 0 <= p < g[0]@.len(), 0 <= a <= b <= g[0]@[p].n,
    ensures hv_st(g, p, a) <= hv_st(g, p, b), hv_st(g, p, 0) == hv_base(g, p), hv_st(g, p, g[0]@[p].n as int) == hv_base(g, p + 1),
    decreases b - a,
{
    let nr = g.len() as int;
    lemma_hv_cps_ends(g, p, nr);
    if a < b { lemma_hv_st_mono(g, p, a, b - 1); lemma_hv_cnt_cps(g, p, b - 1, nr); }
}
// adding up block row by block row gives the same total as block column by block column
pub proof fn lemma_hv_fubini(g: Seq<&[&CscMatrix<F>]>, q: int, p: int)
    requires 0 <= q <= g.len(), 0 <= p <= g[0]@.len(),
    ensures hv_part_rows(g, q, p) == hv_part_cols(g, q, p),
    decreases q + p,
{
    if q > 0 && p > 0 { lemma_hv_fubini(g, q - 1, p); lemma_hv_fubini(g, q, p - 1); lemma_hv_fubini(g, q - 1, p - 1); }
    else if q > 0 { lemma_hv_fubini(g, q - 1, p); }
    else if p > 0 { lemma_hv_fubini(g, q, p - 1); }
}
// sum over the q x p top-left sub-grid, two ways
pub open spec fn hv_part_rows(g: Seq<&[&CscMatrix<F>]>, q: int, p: int) -> int decreases q { if q <= 0 { 0 } else { hv_part_rows(g, q - 1, p) + hv_rownnz(g, q - 1, p) } }
pub open spec fn hv_part_cols(g: Seq<&[&CscMatrix<F>]>, q: int, p: int) -> int decreases p { if p <= 0 { 0 } else { hv_part_cols(g, q, p - 1) + hv_colnnz(g, p - 1, q) } }


// ---- hvcat: the counting pass and the fill pass (block columns outermost, block rows inside) ----
// names local column l of block column p: the trigger of the per-column clauses below (an index term with arithmetic in it
// is not a trigger Z3 matches reliably); uses of those clauses assert hslot(p, l) to instantiate them
pub open spec fn hslot(p: int, l: int) -> bool { true }
// number of block rows already handled in block column p1 when the loops stand at (block column p, block row q)
pub open spec fn hv_done(p1: int, p: int, q: int, nr: int) -> int { if p1 < p { nr } else if p1 == p { q } else { 0 } }
pub open spec fn hv_counts(g: Seq<&[&CscMatrix<F>]>, cp: Seq<usize>, p: int, q: int) -> bool {
    let nr = g.len() as int; let nc = g[0]@.len() as int;
    &&& cp.len() == hv_cs(g, nc) + 1
    &&& forall|p1: int, l: int| #[trigger] hslot(p1, l) && 0 <= p1 < nc && 0 <= l < g[0]@[p1].n ==> cp[hv_cs(g, p1) + l] == hv_cnt(g, p1, l, hv_done(p1, p, q, nr))
    &&& cp[hv_cs(g, nc)] == 0
}
pub proof fn lemma_hv_block(g: Seq<&[&CscMatrix<F>]>, q: int, p: int)
    requires hv_pre(g), 0 <= q < g.len(), 0 <= p < g[0]@.len(),
    ensures bd_blk_ok(*g[q]@[p]), g[q]@[p].n == g[0]@[p].n, g[q]@[p].m == g[q]@[0].m, g[q]@.len() == g[0]@.len(),
        hv_cs(g, p + 1) == hv_cs(g, p) + g[0]@[p].n, hv_rs(g, q + 1) == hv_rs(g, q) + g[q]@[0].m,
{
    assert(g[q]@.len() == g[0]@.len());
    let M = g[q]@[p];
    assert(M.n == g[0]@[p].n && M.m == g[q]@[0].m);
    assert(bd_blk_ok(*M));
}
// column (p1, l) lies outside the column range of another block column p
pub proof fn lemma_hv_col_sep(g: Seq<&[&CscMatrix<F>]>, p1: int, l: int, p: int)
    requires hv_pre(g), 0 <= p1 < g[0]@.len(), 0 <= l < g[0]@[p1].n, 0 <= p < g[0]@.len(), p1 != p,
    ensures !(hv_cs(g, p) <= hv_cs(g, p1) + l < hv_cs(g, p) + g[0]@[p].n), 0 <= hv_cs(g, p1) + l < hv_cs(g, g[0]@.len() as int),
{
    let nc = g[0]@.len() as int;
    lemma_hv_block(g, 0, p1); lemma_hv_block(g, 0, p);
    lemma_hv_mono(g, p1, p1); lemma_hv_mono(g, p1 + 1, nc);
    if p1 < p { lemma_hv_mono(g, p1 + 1, p); } else { lemma_hv_mono(g, p + 1, p1); }
}
pub proof fn lemma_hv_cnt_le(g: Seq<&[&CscMatrix<F>]>, p: int, l: int, q: int)
    requires hv_pre(g), 0 <= p < g[0]@.len(), 0 <= q <= g.len(), 0 <= l < g[0]@[p].n,
    ensures 0 <= hv_cnt(g, p, l, q) <= hv_colnnz(g, p, q),
    decreases q,
{
    if q > 0 {
        lemma_hv_cnt_le(g, p, l, q - 1);
        lemma_hv_block(g, q - 1, p);
        let M = *g[q - 1]@[p];
        assert(M.colptr@[0] <= M.colptr@[l] <= M.colptr@[l + 1] <= M.colptr@[M.n as int]);
    }
}
// what colcount_block asks of the counts before block (q, p) is added
#[verifier::spinoff_prover]
pub proof fn lemma_hv_count_pre(g: Seq<&[&CscMatrix<F>]>, cp: Seq<usize>, p: int, q: int)
    requires hv_pre(g), 0 <= p < g[0]@.len(), 0 <= q < g.len(), hv_counts(g, cp, p, q),
    ensures
        g[q]@[p].colptr@.len() == g[q]@[p].n + 1, cp.len() >= hv_cs(g, p) + g[q]@[p].n, 0 <= hv_cs(g, p),
        forall|i: int| 0 <= i < g[q]@[p].n ==> g[q]@[p].colptr@[i] <= #[trigger] g[q]@[p].colptr@[i + 1],
        forall|i: int| 0 <= i < g[q]@[p].n ==> #[trigger] cp[hv_cs(g, p) + i] + g[q]@[p].colptr@[g[q]@[p].n as int] <= usize::MAX,
{
    let nr = g.len() as int; let nc = g[0]@.len() as int; let M = *g[q]@[p];
    lemma_hv_block(g, q, p);
    lemma_hv_mono(g, p + 1, nc); lemma_hv_mono(g, p, p);
    lemma_hv_colnnz_mono(g, p, q + 1, nr); lemma_hv_base_mono(g, p + 1, nc); lemma_hv_base_mono(g, p, p);
    assert forall|i: int| 0 <= i < M.n implies #[trigger] cp[hv_cs(g, p) + i] + M.colptr@[M.n as int] <= usize::MAX by {
        assert(hslot(p, i));
        lemma_hv_cnt_le(g, p, i, q);
    }
}
#[verifier::spinoff_prover]
pub proof fn lemma_hv_count_step(g: Seq<&[&CscMatrix<F>]>, cp1: Seq<usize>, cp2: Seq<usize>, p: int, q: int)
    requires
        hv_pre(g), 0 <= p < g[0]@.len(), 0 <= q < g.len(), hv_counts(g, cp1, p, q), cp2.len() == cp1.len(),
        colptr_same_except(cp2, cp1, hv_cs(g, p), hv_cs(g, p) + g[q]@[p].n),
        forall|i: int| 0 <= i < g[q]@[p].n ==> #[trigger] cp2[hv_cs(g, p) + i] == cp1[hv_cs(g, p) + i] + (g[q]@[p].colptr@[i + 1] - g[q]@[p].colptr@[i]),
    ensures hv_counts(g, cp2, p, q + 1),
{
    let nr = g.len() as int; let nc = g[0]@.len() as int; let M = *g[q]@[p];
    lemma_hv_block(g, q, p);
    lemma_hv_mono(g, p + 1, nc); lemma_hv_mono(g, p, p);
    assert forall|p1: int, l: int| #[trigger] hslot(p1, l) && 0 <= p1 < nc && 0 <= l < g[0]@[p1].n implies cp2[hv_cs(g, p1) + l] == hv_cnt(g, p1, l, hv_done(p1, p, q + 1, nr)) by {
        assert(cp1[hv_cs(g, p1) + l] == hv_cnt(g, p1, l, hv_done(p1, p, q, nr)));
        if p1 == p {
            assert(cp2[hv_cs(g, p) + l] == cp1[hv_cs(g, p) + l] + (M.colptr@[l + 1] - M.colptr@[l]));
            assert(hv_cnt(g, p, l, q + 1) == hv_cnt(g, p, l, q) + pcnt(*g[q]@[p], l));
        } else {
            lemma_hv_col_sep(g, p1, l, p);
            assert(cp2[hv_cs(g, p1) + l] == cp1[hv_cs(g, p1) + l]);
        }
    }
    assert(cp2[hv_cs(g, nc)] == cp1[hv_cs(g, nc)]);
}
// finishing a block column = standing at the top of the next one
pub proof fn lemma_hv_counts_next(g: Seq<&[&CscMatrix<F>]>, cp: Seq<usize>, p: int)
    requires hv_counts(g, cp, p, g.len() as int), g.len() >= 1,
    ensures hv_counts(g, cp, p + 1, 0),
{
    let nr = g.len() as int; let nc = g[0]@.len() as int;
    assert forall|p1: int, l: int| #[trigger] hslot(p1, l) && 0 <= p1 < nc && 0 <= l < g[0]@[p1].n implies cp[hv_cs(g, p1) + l] == hv_cnt(g, p1, l, hv_done(p1, p + 1, 0, nr)) by {
        assert(hv_done(p1, p + 1, 0, nr) == hv_done(p1, p, nr, nr));
    }
}
// the prefix sums of the finished counts are the column starts
pub proof fn lemma_hv_starts(g: Seq<&[&CscMatrix<F>]>, cnt: Seq<usize>, p: int, l: int)
    requires hv_pre(g), hv_counts(g, cnt, g[0]@.len() as int, 0), 0 <= p < g[0]@.len(), 0 <= l <= g[0]@[p].n,
    ensures sum_upto(cnt, hv_cs(g, p) + l) == hv_st(g, p, l),
    decreases p, l,
{
    let nr = g.len() as int; let nc = g[0]@.len() as int;
    lemma_hv_block(g, 0, p);
    lemma_hv_mono(g, p, p);
    if l > 0 {
        lemma_hv_starts(g, cnt, p, l - 1);
        assert(hslot(p, l - 1));
        assert(cnt[hv_cs(g, p) + (l - 1)] == hv_cnt(g, p, l - 1, nr));
        lemma_hv_cnt_cps(g, p, l - 1, nr);
        assert(sum_upto(cnt, hv_cs(g, p) + l) == sum_upto(cnt, hv_cs(g, p) + l - 1) + cnt[hv_cs(g, p) + l - 1]);
    } else if p > 0 {
        lemma_hv_block(g, 0, p - 1);
        lemma_hv_starts(g, cnt, p - 1, g[0]@[p - 1].n as int);
        lemma_hv_st_mono(g, p - 1, 0, 0);
        lemma_hv_st_mono(g, p, 0, 0);
    } else {
        lemma_hv_st_mono(g, 0, 0, 0);
        assert(hv_base(g, 0) == 0);
        assert(hv_cs(g, 0) == 0);
    }
}
pub proof fn lemma_hv_total(g: Seq<&[&CscMatrix<F>]>, cnt: Seq<usize>)
    requires hv_pre(g), hv_counts(g, cnt, g[0]@.len() as int, 0),
    ensures sum_upto(cnt, cnt.len() as int) == hv_base(g, g[0]@.len() as int),
{
    let nc = g[0]@.len() as int;
    lemma_hv_block(g, 0, nc - 1);
    lemma_hv_starts(g, cnt, nc - 1, g[0]@[nc - 1].n as int);
    lemma_hv_st_mono(g, nc - 1, 0, 0);
    let n = hv_cs(g, nc);
    assert(cnt[n] == 0);
    assert(sum_upto(cnt, n + 1) == sum_upto(cnt, n) + cnt[n]);
}
// every column belongs to a block column
pub proof fn lemma_hv_col_block(g: Seq<&[&CscMatrix<F>]>, k: int, c: int) -> (pl: (int, int))
    requires 0 <= k <= g[0]@.len(), 0 <= c < hv_cs(g, k),
    ensures 0 <= pl.0 < k, 0 <= pl.1 < g[0]@[pl.0].n, hv_cs(g, pl.0) + pl.1 == c,
    decreases k,
{
    lemma_hv_mono(g, k - 1, k - 1);
    if c >= hv_cs(g, k - 1) { (k - 1, c - hv_cs(g, k - 1)) } else { lemma_hv_col_block(g, k - 1, c) }
}
// the blocks visited so far (row-major up to (q, p)) have at most mx entries each
pub open spec fn hv_maxok(g: Seq<&[&CscMatrix<F>]>, q: int, p: int, mx: int) -> bool {
    forall|q1: int, p1: int| 0 <= q1 < g.len() && 0 <= p1 < g[0]@.len() && (q1 < q || (q1 == q && p1 < p)) ==> (#[trigger] g[q1]@[p1]).rowval@.len() <= mx
}
pub open spec fn hv_starts_ok(g: Seq<&[&CscMatrix<F>]>, st: Seq<usize>) -> bool {
    forall|p: int, l: int| #[trigger] hslot(p, l) && 0 <= p < g[0]@.len() && 0 <= l <= g[0]@[p].n ==> st[hv_cs(g, p) + l] == hv_st(g, p, l)
}
// slot of entry j (local column l) of block (q, p)
pub open spec fn hv_slot(g: Seq<&[&CscMatrix<F>]>, q: int, p: int, l: int, j: int) -> int {
    hv_st(g, p, l) + hv_cnt(g, p, l, q) + (j - g[q]@[p].colptr@[l])
}
// state of the fill pass at (block column p, block row q); `st` = the column starts produced by colcount_to_colptr
pub open spec fn hv_filled(g: Seq<&[&CscMatrix<F>]>, st: Seq<usize>, K: CscMatrix<F>, p: int, q: int) -> bool {
    let nr = g.len() as int; let nc = g[0]@.len() as int;
    &&& K.arrays_ok() && K.colptr@.len() == st.len() && st.len() == hv_cs(g, nc) + 1 && K.rowval@.len() == hv_base(g, nc)
    &&& forall|p1: int, l: int| #[trigger] hslot(p1, l) && 0 <= p1 < nc && 0 <= l < g[0]@[p1].n ==> K.colptr@[hv_cs(g, p1) + l] == st[hv_cs(g, p1) + l] + hv_cnt(g, p1, l, hv_done(p1, p, q, nr))
    &&& K.colptr@[hv_cs(g, nc)] == st[hv_cs(g, nc)]
    &&& forall|q1: int, p1: int, l: int, j: int| 0 <= p1 < nc && 0 <= q1 < hv_done(p1, p, q, nr) && #[trigger] g[q1]@[p1].in_col_u(j, l)
            ==> K.rowval@[hv_slot(g, q1, p1, l, j)] == g[q1]@[p1].rowval@[j] + hv_rs(g, q1)
    &&& forall|q1: int, p1: int, l: int, j: int| 0 <= p1 < nc && 0 <= q1 < hv_done(p1, p, q, nr) && #[trigger] g[q1]@[p1].in_col_u(j, l)
            ==> K.nzval@[hv_slot(g, q1, p1, l, j)] == g[q1]@[p1].nzval@[j]
}
// where the slot of an entry lies
pub proof fn lemma_hv_slot_range(g: Seq<&[&CscMatrix<F>]>, q: int, p: int, l: int, j: int)
    requires hv_pre(g), 0 <= q < g.len(), 0 <= p < g[0]@.len(), g[q]@[p].in_col_u(j, l),
    ensures
        0 <= l < g[0]@[p].n,
        0 <= hv_base(g, p) <= hv_st(g, p, l),
        hv_st(g, p, l) + hv_cnt(g, p, l, q) <= hv_slot(g, q, p, l, j) < hv_st(g, p, l) + hv_cnt(g, p, l, q + 1),
        hv_cnt(g, p, l, q) >= 0,
        hv_st(g, p, l) + hv_cnt(g, p, l, q + 1) <= hv_st(g, p, l + 1),
        hv_st(g, p, l + 1) <= hv_base(g, p + 1) <= hv_base(g, g[0]@.len() as int),
{
    let nr = g.len() as int; let nc = g[0]@.len() as int; let M = *g[q]@[p];
    lemma_hv_block(g, q, p);
    lemma_hv_st_mono(g, p, 0, l); lemma_hv_st_mono(g, p, l + 1, g[0]@[p].n as int);
    lemma_hv_cnt_mono(g, p, l, 0, q); lemma_hv_cnt_mono(g, p, l, q + 1, nr);
    lemma_hv_cnt_cps(g, p, l, nr);
    lemma_hv_base_mono(g, p + 1, nc); lemma_hv_base_mono(g, p, p);
    assert(hv_cnt(g, p, l, q + 1) == hv_cnt(g, p, l, q) + pcnt(*g[q]@[p], l));
}
#[verifier::spinoff_prover]
pub proof fn lemma_hv_fill_pre(g: Seq<&[&CscMatrix<F>]>, st: Seq<usize>, K: CscMatrix<F>, p: int, q: int)
    requires hv_pre(g), 0 <= p < g[0]@.len(), 0 <= q < g.len(), hv_starts_ok(g, st), hv_filled(g, st, K, p, q),
    ensures
        fill_block_pre(K, *g[q]@[p], hv_rs(g, q) as usize, hv_cs(g, p) as usize, MatrixShape::N),
        0 <= hv_rs(g, q) <= usize::MAX, 0 <= hv_cs(g, p) <= usize::MAX, g[q]@[p].colptr_ok_u(), K.arrays_ok(),
{
    let nr = g.len() as int; let nc = g[0]@.len() as int; let M = *g[q]@[p]; let cs = hv_cs(g, p);
    lemma_hv_block(g, q, p);
    lemma_hv_mono(g, p + 1, nc); lemma_hv_mono(g, p, p); lemma_hv_mono(g, q + 1, nr); lemma_hv_mono(g, q, q);
    assert forall|i: int, j: int| #[trigger] M.in_col_u(j, i) implies dest_n(K, M, cs, i, j) == hv_slot(g, q, p, i, j) && dest_n(K, M, cs, i, j) < K.rowval@.len() by {
        assert(hslot(p, i));
        lemma_hv_slot_range(g, q, p, i, j);
    }
    assert forall|i1: int, j1: int, i2: int, j2: int| #[trigger] M.in_col_u(j1, i1) && #[trigger] M.in_col_u(j2, i2) && j1 != j2
        implies dest_n(K, M, cs, i1, j1) != dest_n(K, M, cs, i2, j2) by {
        lemma_hv_slot_range(g, q, p, i1, j1); lemma_hv_slot_range(g, q, p, i2, j2);
        assert(dest_n(K, M, cs, i1, j1) == hv_slot(g, q, p, i1, j1)); assert(dest_n(K, M, cs, i2, j2) == hv_slot(g, q, p, i2, j2));
        if i1 < i2 { lemma_hv_st_mono(g, p, i1 + 1, i2); } else if i2 < i1 { lemma_hv_st_mono(g, p, i2 + 1, i1); }
    }
    assert forall|k: int| 0 <= k < M.rowval@.len() implies #[trigger] M.rowval@[k] + hv_rs(g, q) <= usize::MAX by { }
}
// the slot of an entry placed earlier is not a destination of any entry of block (q, p)
pub proof fn lemma_hv_free(g: Seq<&[&CscMatrix<F>]>, st: Seq<usize>, K1: CscMatrix<F>, p: int, q: int, q1: int, p1: int, l: int, j: int)
    requires
        hv_pre(g), 0 <= p < g[0]@.len(), 0 <= q < g.len(), hv_starts_ok(g, st), hv_filled(g, st, K1, p, q),
        0 <= p1 < g[0]@.len(), 0 <= q1 < hv_done(p1, p, q, g.len() as int), g[q1]@[p1].in_col_u(j, l),
    ensures fb_free(K1, *g[q]@[p], hv_cs(g, p), MatrixShape::N, g[q]@[p].rowval@.len() as int, hv_slot(g, q1, p1, l, j)),
{
    reveal(fb_free);
    let nr = g.len() as int; let nc = g[0]@.len() as int; let M = *g[q]@[p]; let cs = hv_cs(g, p);
    let s = hv_slot(g, q1, p1, l, j);
    lemma_hv_block(g, q, p);
    lemma_hv_slot_range(g, q1, p1, l, j);
    assert forall|i2: int, j2: int| #[trigger] M.in_col_u(j2, i2) && j2 < M.rowval@.len() implies fb_dest(K1, M, cs, MatrixShape::N, i2, j2) != s by {
        assert(hslot(p, i2));
        lemma_hv_slot_range(g, q, p, i2, j2);
        assert(fb_dest(K1, M, cs, MatrixShape::N, i2, j2) == hv_slot(g, q, p, i2, j2));
        if p1 < p { lemma_hv_base_mono(g, p1 + 1, p); }
        else if l == i2 { lemma_hv_cnt_mono(g, p, l, q1 + 1, q); }
        else if l < i2 { lemma_hv_st_mono(g, p, l + 1, i2); }
        else { lemma_hv_st_mono(g, p, i2 + 1, l); }
    }
}
#[verifier::spinoff_prover]
pub proof fn lemma_hv_fill_step(g: Seq<&[&CscMatrix<F>]>, st: Seq<usize>, K1: CscMatrix<F>, K2: CscMatrix<F>, map: Seq<usize>, p: int, q: int)
    requires
        hv_pre(g), 0 <= p < g[0]@.len(), 0 <= q < g.len(), hv_starts_ok(g, st), hv_filled(g, st, K1, p, q),
        fill_block_state(K1, K2, *g[q]@[p], map, hv_rs(g, q) as usize, hv_cs(g, p) as usize, MatrixShape::N, g[q]@[p].rowval@.len() as int),
        K2.arrays_ok(), K2.rowval@.len() == K1.rowval@.len(), K2.colptr@.len() == K1.colptr@.len(),
    ensures hv_filled(g, st, K2, p, q + 1),
{
    let nr = g.len() as int; let nc = g[0]@.len() as int; let M = *g[q]@[p]; let cs = hv_cs(g, p); let nnz = M.rowval@.len() as int;
    lemma_hv_block(g, q, p);
    lemma_hv_mono(g, p + 1, nc); lemma_hv_mono(g, p, p); lemma_hv_mono(g, q + 1, nr); lemma_hv_mono(g, q, q);
    assert forall|p1: int, l: int| #[trigger] hslot(p1, l) && 0 <= p1 < nc && 0 <= l < g[0]@[p1].n
        implies K2.colptr@[hv_cs(g, p1) + l] == st[hv_cs(g, p1) + l] + hv_cnt(g, p1, l, hv_done(p1, p, q + 1, nr)) by {
        assert(K1.colptr@[hv_cs(g, p1) + l] == st[hv_cs(g, p1) + l] + hv_cnt(g, p1, l, hv_done(p1, p, q, nr)));
        if p1 == p {
            assert(K2.colptr@[cs + l] == K1.colptr@[cs + l] + pushed_n(M, l, nnz));
            assert(M.colptr@[l + 1] <= M.colptr@[M.n as int]);
            assert(hv_cnt(g, p, l, q + 1) == hv_cnt(g, p, l, q) + pcnt(*g[q]@[p], l));
        } else {
            lemma_hv_col_sep(g, p1, l, p);
            assert(K2.colptr@[hv_cs(g, p1) + l] == K1.colptr@[hv_cs(g, p1) + l]);
        }
    }
    assert(K2.colptr@[hv_cs(g, nc)] == K1.colptr@[hv_cs(g, nc)]);
    assert forall|q1: int, p1: int, l: int, j: int| 0 <= p1 < nc && 0 <= q1 < hv_done(p1, p, q + 1, nr) && #[trigger] g[q1]@[p1].in_col_u(j, l)
        implies K2.rowval@[hv_slot(g, q1, p1, l, j)] == g[q1]@[p1].rowval@[j] + hv_rs(g, q1)
             && K2.nzval@[hv_slot(g, q1, p1, l, j)] == g[q1]@[p1].nzval@[j] by {
        let s = hv_slot(g, q1, p1, l, j);
        lemma_hv_slot_range(g, q1, p1, l, j);
        if p1 == p && q1 == q {
            assert(M.in_col_u(j, l));
            assert(hslot(p, l));
            assert(dest_n(K1, M, cs, l, j) == s);
        } else {
            assert(q1 < hv_done(p1, p, q, nr));
            lemma_hv_free(g, st, K1, p, q, q1, p1, l, j);
            assert(K1.rowval@[s] == g[q1]@[p1].rowval@[j] + hv_rs(g, q1));
            assert(K1.nzval@[s] == g[q1]@[p1].nzval@[j]);
        }
    }
}
pub proof fn lemma_hv_filled_next(g: Seq<&[&CscMatrix<F>]>, st: Seq<usize>, K: CscMatrix<F>, p: int)
    requires hv_filled(g, st, K, p, g.len() as int), g.len() >= 1,
    ensures hv_filled(g, st, K, p + 1, 0),
{
    let nr = g.len() as int; let nc = g[0]@.len() as int;
    assert forall|p1: int| hv_done(p1, p + 1, 0, nr) == hv_done(p1, p, nr, nr) by { }
    assert forall|p1: int, l: int| #[trigger] hslot(p1, l) && 0 <= p1 < nc && 0 <= l < g[0]@[p1].n
        implies K.colptr@[hv_cs(g, p1) + l] == st[hv_cs(g, p1) + l] + hv_cnt(g, p1, l, hv_done(p1, p + 1, 0, nr)) by {
        assert(hv_done(p1, p + 1, 0, nr) == hv_done(p1, p, nr, nr));
    }
    assert forall|q1: int, p1: int, l: int, j: int| 0 <= p1 < nc && 0 <= q1 < hv_done(p1, p + 1, 0, nr) && #[trigger] g[q1]@[p1].in_col_u(j, l)
        implies K.rowval@[hv_slot(g, q1, p1, l, j)] == g[q1]@[p1].rowval@[j] + hv_rs(g, q1) && K.nzval@[hv_slot(g, q1, p1, l, j)] == g[q1]@[p1].nzval@[j] by {
        assert(hv_done(p1, p + 1, 0, nr) == hv_done(p1, p, nr, nr));
    }
}
#[verifier::spinoff_prover]
pub proof fn lemma_hv_final(g: Seq<&[&CscMatrix<F>]>, st: Seq<usize>, K: CscMatrix<F>, R: CscMatrix<F>)
    requires
        hv_pre(g), hv_starts_ok(g, st), hv_filled(g, st, K, g[0]@.len() as int, 0), st[0] == 0,
        // backshift_colptrs (its contract)
        R.colptr@.len() == K.colptr@.len(), R.colptr@[0] == 0, R.rowval@ == K.rowval@, R.nzval@ == K.nzval@, R.m == K.m, R.n == K.n,
        forall|c: int| 1 <= c < K.colptr@.len() ==> #[trigger] R.colptr@[c] == K.colptr@[c - 1],
        K.m == hv_rs(g, g.len() as int), K.n == hv_cs(g, g[0]@.len() as int),
    ensures hv_post(g, R),
{
    let nr = g.len() as int; let nc = g[0]@.len() as int;
    assert forall|c: int| 0 <= c < st.len() implies R.colptr@[c] == st[c] by {
        if c >= 1 {
            let pl = lemma_hv_col_block(g, nc, c - 1);
            let p = pl.0; let l = pl.1;
            assert(hslot(p, l)); assert(hslot(p, l + 1));
            lemma_hv_block(g, 0, p);
            lemma_hv_cnt_cps(g, p, l, nr);
            assert(K.colptr@[hv_cs(g, p) + l] == st[hv_cs(g, p) + l] + hv_cnt(g, p, l, nr));
            assert(st[hv_cs(g, p) + (l + 1)] == hv_st(g, p, l + 1));
            assert(st[hv_cs(g, p) + l] == hv_st(g, p, l));
        }
    }
    assert forall|p: int, l: int| 0 <= p < nc && 0 <= l <= g[0]@[p].n implies #[trigger] R.colptr@[hv_cs(g, p) + l] == hv_st(g, p, l) by {
        assert(hslot(p, l));
        lemma_hv_block(g, 0, p);
        lemma_hv_mono(g, p + 1, nc); lemma_hv_mono(g, p, p);
    }
    assert forall|q: int, p: int, l: int, j: int| 0 <= q < nr && 0 <= p < nc && #[trigger] g[q]@[p].in_col_u(j, l) implies ({
            let d = hv_st(g, p, l) + hv_cnt(g, p, l, q) + (j - g[q]@[p].colptr@[l]);
            0 <= d < R.rowval@.len() && R.rowval@[d] == g[q]@[p].rowval@[j] + hv_rs(g, q) && R.nzval@[d] == g[q]@[p].nzval@[j] }) by {
        lemma_hv_slot_range(g, q, p, l, j);
        assert(hv_done(p, nc, 0, nr) == nr);
        assert(K.rowval@[hv_slot(g, q, p, l, j)] == g[q]@[p].rowval@[j] + hv_rs(g, q));
        assert(K.nzval@[hv_slot(g, q, p, l, j)] == g[q]@[p].nzval@[j]);
    }
}
// the running total of the first (nnz) loop and its end value
pub proof fn lemma_hv_rownnz_mono(g: Seq<&[&CscMatrix<F>]>, q: int, a: int, b: int)
    requires 0 <= a <= b,
    ensures 0 <= hv_rownnz(g, q, a) <= hv_rownnz(g, q, b),
    decreases b,
{ if a < b { lemma_hv_rownnz_mono(g, q, a, b - 1); } else if a > 0 { lemma_hv_rownnz_mono(g, q, a - 1, a - 1); } }
pub proof fn lemma_hv_tot_mono(g: Seq<&[&CscMatrix<F>]>, a: int, b: int)
    requires 0 <= a <= b,
    ensures 0 <= hv_tot(g, a) <= hv_tot(g, b),
    decreases b,
{
    if a < b { lemma_hv_tot_mono(g, a, b - 1); lemma_hv_rownnz_mono(g, b - 1, 0, g[0]@.len() as int); }
    else if a > 0 { lemma_hv_tot_mono(g, a - 1, a - 1); lemma_hv_rownnz_mono(g, a - 1, 0, g[0]@.len() as int); }
}
pub proof fn lemma_hv_tot_rows(g: Seq<&[&CscMatrix<F>]>, q: int)
    requires 0 <= q,
    ensures hv_tot(g, q) == hv_part_rows(g, q, g[0]@.len() as int),
    decreases q,
{ if q > 0 { lemma_hv_tot_rows(g, q - 1); } }
pub proof fn lemma_hv_base_cols(g: Seq<&[&CscMatrix<F>]>, p: int)
    requires 0 <= p,
    ensures hv_base(g, p) == hv_part_cols(g, g.len() as int, p),
    decreases p,
{ if p > 0 { lemma_hv_base_cols(g, p - 1); } }
pub proof fn lemma_hv_tot_base(g: Seq<&[&CscMatrix<F>]>)
    ensures hv_tot(g, g.len() as int) == hv_base(g, g[0]@.len() as int),
{
    lemma_hv_tot_rows(g, g.len() as int); lemma_hv_base_cols(g, g[0]@.len() as int); lemma_hv_fubini(g, g.len() as int, g[0]@.len() as int);
}


// ---- hcat / vcat: the 1 x 2 and 2 x 1 grids ----
pub open spec fn cat_ok(A: CscMatrix<F>, B: CscMatrix<F>) -> bool {
    bd_blk_ok(A) && bd_blk_ok(B) && A.m + B.m <= usize::MAX && A.n + B.n < usize::MAX && 2 * (A.rowval@.len() + B.rowval@.len()) <= usize::MAX
}
pub open spec fn is_hgrid(g: Seq<&[&CscMatrix<F>]>, A: &CscMatrix<F>, B: &CscMatrix<F>) -> bool { g.len() == 1 && g[0]@.len() == 2 && g[0]@[0] == A && g[0]@[1] == B }
pub open spec fn is_vgrid(g: Seq<&[&CscMatrix<F>]>, A: &CscMatrix<F>, B: &CscMatrix<F>) -> bool { g.len() == 2 && g[0]@.len() == 1 && g[1]@.len() == 1 && g[0]@[0] == A && g[1]@[0] == B }
pub open spec fn hcat_post(A: CscMatrix<F>, B: CscMatrix<F>, R: CscMatrix<F>) -> bool {
    let na = A.rowval@.len() as int; let nb = B.rowval@.len() as int;
    &&& R.m == A.m && R.n == A.n + B.n && R.colptr@.len() == R.n + 1 && R.rowval@.len() == na + nb && R.nzval@.len() == na + nb
    &&& forall|c: int| 0 <= c <= A.n ==> #[trigger] R.colptr@[c] == A.colptr@[c]
    &&& forall|c: int| 0 <= c <= B.n ==> R.colptr@[A.n + c] == na + #[trigger] B.colptr@[c]
    &&& forall|j: int| 0 <= j < na ==> R.rowval@[j] == #[trigger] A.rowval@[j]
    &&& forall|j: int| 0 <= j < na ==> R.nzval@[j] == #[trigger] A.nzval@[j]
    &&& forall|j: int| 0 <= j < nb ==> R.rowval@[na + j] == #[trigger] B.rowval@[j]
    &&& forall|j: int| 0 <= j < nb ==> R.nzval@[na + j] == #[trigger] B.nzval@[j]
}
pub open spec fn vcat_post(A: CscMatrix<F>, B: CscMatrix<F>, R: CscMatrix<F>) -> bool {
    let na = A.rowval@.len() as int; let nb = B.rowval@.len() as int;
    &&& R.m == A.m + B.m && R.n == A.n && R.colptr@.len() == R.n + 1 && R.rowval@.len() == na + nb && R.nzval@.len() == na + nb
    &&& forall|c: int| 0 <= c <= A.n ==> #[trigger] R.colptr@[c] == A.colptr@[c] + B.colptr@[c]
    &&& forall|c: int, j: int| #[trigger] A.in_col_u(j, c) ==> R.rowval@[B.colptr@[c] + j] == A.rowval@[j] && R.nzval@[B.colptr@[c] + j] == A.nzval@[j]
    &&& forall|c: int, j: int| #[trigger] B.in_col_u(j, c) ==> R.rowval@[A.colptr@[c + 1] + j] == B.rowval@[j] + A.m && R.nzval@[A.colptr@[c + 1] + j] == B.nzval@[j]
}
pub proof fn lemma_hgrid(g: Seq<&[&CscMatrix<F>]>, A: &CscMatrix<F>, B: &CscMatrix<F>)
    requires is_hgrid(g, A, B), A.m == B.m ==> cat_ok(*A, *B),
    ensures
        grid_ok(g) <==> A.m == B.m, grid_ok(g) ==> hv_pre(g),
        hv_rs(g, 1) == A.m, hv_cs(g, 1) == A.n, hv_cs(g, 2) == A.n + B.n, hv_base(g, 1) == A.rowval@.len(), hv_base(g, 2) == A.rowval@.len() + B.rowval@.len(),
        forall|l: int| hv_cps(g, 0, l, 1) == A.colptr@[l] && hv_cps(g, 1, l, 1) == B.colptr@[l],
        forall|p: int, l: int| hv_cnt(g, p, l, 0) == 0,
{
    reveal_with_fuel(hv_rs, 3); reveal_with_fuel(hv_cs, 3); reveal_with_fuel(hv_base, 3); reveal_with_fuel(hv_colnnz, 3); reveal_with_fuel(hv_cps, 3);
    if A.m == B.m {
        assert(grid_ok(g)) by {
            assert forall|q: int, p: int| 0 <= q < g.len() && 0 <= p < g[0]@.len() implies (#[trigger] g[q]@[p]).m == g[q]@[0].m && g[q]@[p].n == g[0]@[p].n by { }
        }
        assert forall|q: int, p: int| 0 <= q < g.len() && 0 <= p < g[0]@.len() implies bd_blk_ok(*#[trigger] g[q]@[p]) by { }
    } else {
        if grid_ok(g) { assert(g[0]@[1].m == g[0]@[0].m); }
    }
}
pub proof fn lemma_hcat_post(g: Seq<&[&CscMatrix<F>]>, A: &CscMatrix<F>, B: &CscMatrix<F>, R: CscMatrix<F>)
    requires is_hgrid(g, A, B), A.m == B.m, cat_ok(*A, *B), hv_post(g, R),
    ensures hcat_post(*A, *B, R),
{
    lemma_hgrid(g, A, B);
    let na = A.rowval@.len() as int; let nb = B.rowval@.len() as int;
    assert(hv_cs(g, 0) == 0);
    assert forall|c: int| 0 <= c <= A.n implies #[trigger] R.colptr@[c] == A.colptr@[c] by {
        assert(R.colptr@[hv_cs(g, 0) + c] == hv_st(g, 0, c)); assert(hv_base(g, 0) == 0);
    }
    assert forall|c: int| 0 <= c <= B.n implies R.colptr@[A.n + c] == na + #[trigger] B.colptr@[c] by {
        assert(R.colptr@[hv_cs(g, 1) + c] == hv_st(g, 1, c));
    }
    assert(hv_base(g, 0) == 0); assert(hv_rs(g, 0) == 0);
    assert forall|j: int| 0 <= j < na implies R.rowval@[j] == #[trigger] A.rowval@[j] by { let l = lemma_col_of_entry(*A, j); assert(g[0]@[0].in_col_u(j, l)); }
    assert forall|j: int| 0 <= j < na implies R.nzval@[j] == #[trigger] A.nzval@[j] by { let l = lemma_col_of_entry(*A, j); assert(g[0]@[0].in_col_u(j, l)); }
    assert forall|j: int| 0 <= j < nb implies R.rowval@[na + j] == #[trigger] B.rowval@[j] by { let l = lemma_col_of_entry(*B, j); assert(g[0]@[1].in_col_u(j, l)); }
    assert forall|j: int| 0 <= j < nb implies R.nzval@[na + j] == #[trigger] B.nzval@[j] by { let l = lemma_col_of_entry(*B, j); assert(g[0]@[1].in_col_u(j, l)); }
    assert(R.m == hv_rs(g, g.len() as int) && R.n == hv_cs(g, g[0]@.len() as int));
    assert(R.rowval@.len() == hv_base(g, g[0]@.len() as int) && R.nzval@.len() == hv_base(g, g[0]@.len() as int));
    assert(R.m == A.m && R.n == A.n + B.n && R.colptr@.len() == R.n + 1 && R.rowval@.len() == na + nb && R.nzval@.len() == na + nb);
}
pub proof fn lemma_vgrid(g: Seq<&[&CscMatrix<F>]>, A: &CscMatrix<F>, B: &CscMatrix<F>)
    requires is_vgrid(g, A, B), A.n == B.n ==> cat_ok(*A, *B),
    ensures
        grid_ok(g) <==> A.n == B.n, grid_ok(g) ==> hv_pre(g),
        hv_rs(g, 1) == A.m, hv_rs(g, 2) == A.m + B.m, hv_cs(g, 1) == A.n, hv_base(g, 1) == A.rowval@.len() + B.rowval@.len(),
        forall|l: int| hv_cps(g, 0, l, 2) == A.colptr@[l] + B.colptr@[l],
        forall|l: int| hv_cnt(g, 0, l, 0) == 0 && hv_cnt(g, 0, l, 1) == pcnt(*A, l),
{
    reveal_with_fuel(hv_rs, 3); reveal_with_fuel(hv_cs, 3); reveal_with_fuel(hv_base, 3); reveal_with_fuel(hv_colnnz, 3); reveal_with_fuel(hv_cps, 3); reveal_with_fuel(hv_cnt, 3);
    if A.n == B.n {
        assert(grid_ok(g)) by {
            assert forall|q: int| 0 <= q < g.len() implies (#[trigger] g[q])@.len() == g[0]@.len() by { }
            assert forall|q: int, p: int| 0 <= q < g.len() && 0 <= p < g[0]@.len() implies (#[trigger] g[q]@[p]).m == g[q]@[0].m && g[q]@[p].n == g[0]@[p].n by { }
        }
        assert forall|q: int, p: int| 0 <= q < g.len() && 0 <= p < g[0]@.len() implies bd_blk_ok(*#[trigger] g[q]@[p]) by { }
    } else {
        if grid_ok(g) { assert(g[1]@[0].n == g[0]@[0].n); }
    }
}
pub proof fn lemma_vcat_post(g: Seq<&[&CscMatrix<F>]>, A: &CscMatrix<F>, B: &CscMatrix<F>, R: CscMatrix<F>)
    requires is_vgrid(g, A, B), A.n == B.n, cat_ok(*A, *B), hv_post(g, R),
    ensures vcat_post(*A, *B, R),
{
    lemma_vgrid(g, A, B);
    assert(hv_cs(g, 0) == 0); assert(hv_base(g, 0) == 0); assert(hv_rs(g, 0) == 0);
    assert forall|c: int| 0 <= c <= A.n implies #[trigger] R.colptr@[c] == A.colptr@[c] + B.colptr@[c] by {
        assert(R.colptr@[hv_cs(g, 0) + c] == hv_st(g, 0, c));
    }
    assert forall|c: int, j: int| #[trigger] A.in_col_u(j, c) implies R.rowval@[B.colptr@[c] + j] == A.rowval@[j] && R.nzval@[B.colptr@[c] + j] == A.nzval@[j] by {
        assert(g[0]@[0].in_col_u(j, c));
    }
    assert forall|c: int, j: int| #[trigger] B.in_col_u(j, c) implies R.rowval@[A.colptr@[c + 1] + j] == B.rowval@[j] + A.m && R.nzval@[A.colptr@[c + 1] + j] == B.nzval@[j] by {
        assert(g[1]@[0].in_col_u(j, c));
    }
}

// ---- fill_block: abstract cursor discipline
impl CscMatrix<F> {
    pub open spec fn colptr_ok_u(&self) -> bool {
        &&& self.colptr@.len() == self.n + 1
        &&& self.colptr@[0] == 0
        &&& self.rowval@.len() == self.nzval@.len()
        &&& self.colptr@[self.n as int] == self.nzval@.len()
        &&& forall|a: int, b: int| 0 <= a <= b <= self.n ==> self.colptr@[a] <= self.colptr@[b]
    }
    pub open spec fn in_col_u(&self, k: int, j: int) -> bool { 0 <= j < self.n && self.colptr@[j] <= k < self.colptr@[j + 1] }
}
pub open spec fn range_from_u(sq: Seq<usize>, lo: int) -> bool { forall|k: int| 0 <= k < sq.len() ==> #[trigger] sq[k] == lo + k }
// slot of entry j (column i of M) when M is placed un-transposed: the column cursor plus the offset inside the column
pub open spec fn dest_n(K0: CscMatrix<F>, M: CscMatrix<F>, initcol: int, i: int, j: int) -> int {
    K0.colptr@[initcol + i] + (j - M.colptr@[i])
}
// slot of entry j when M is placed transposed: the cursor of column rowval[j] plus the number of earlier entries of that row
pub open spec fn dest_t(K0: CscMatrix<F>, M: CscMatrix<F>, initcol: int, j: int) -> int {
    K0.colptr@[initcol + M.rowval@[j]] + count_row(M.rowval@, M.rowval@[j] as int, j)
}
pub open spec fn fill_block_pre(K0: CscMatrix<F>, M: CscMatrix<F>, initrow: usize, initcol: usize, shape: MatrixShape) -> bool {
    &&& (shape == MatrixShape::N ==> {
            &&& initcol + M.n <= K0.colptr@.len()
            &&& forall|k: int| 0 <= k < M.rowval@.len() ==> #[trigger] M.rowval@[k] + initrow <= usize::MAX
            &&& forall|i: int, j: int| #[trigger] M.in_col_u(j, i) ==> dest_n(K0, M, initcol as int, i, j) < K0.rowval@.len()
            &&& forall|i1: int, j1: int, i2: int, j2: int| #[trigger] M.in_col_u(j1, i1) && #[trigger] M.in_col_u(j2, i2) && j1 != j2
                    ==> dest_n(K0, M, initcol as int, i1, j1) != dest_n(K0, M, initcol as int, i2, j2) })
    &&& (shape == MatrixShape::T ==> {
            &&& initrow + M.n <= usize::MAX
            &&& forall|k: int| 0 <= k < M.rowval@.len() ==> initcol + #[trigger] M.rowval@[k] < K0.colptr@.len()
            &&& forall|j: int| 0 <= j < M.rowval@.len() ==> #[trigger] dest_t(K0, M, initcol as int, j) < K0.rowval@.len()
            &&& forall|j1: int, j2: int| 0 <= j1 < j2 < M.rowval@.len() ==> #[trigger] dest_t(K0, M, initcol as int, j1) != #[trigger] dest_t(K0, M, initcol as int, j2) })
}
// entries placed by column i of M before linear position k
pub open spec fn pushed_n(M: CscMatrix<F>, i: int, k: int) -> int {
    if k <= M.colptr@[i] { 0 } else if k >= M.colptr@[i + 1] { M.colptr@[i + 1] - M.colptr@[i] } else { k - M.colptr@[i] }
}
// state after the entries 0..k of M (storage order) have been placed
pub open spec fn fill_block_state(K0: CscMatrix<F>, K: CscMatrix<F>, M: CscMatrix<F>, map: Seq<usize>, initrow: usize, initcol: usize, shape: MatrixShape, k: int) -> bool {
    &&& (shape == MatrixShape::N ==> {
            &&& forall|i: int, j: int| #[trigger] M.in_col_u(j, i) && j < k ==> {
                    let d = dest_n(K0, M, initcol as int, i, j);
                    map[j] == d && K.rowval@[d] == M.rowval@[j] + initrow && K.nzval@[d] == M.nzval@[j] }
            &&& forall|i: int| 0 <= i < M.n ==> #[trigger] K.colptr@[initcol + i] == K0.colptr@[initcol + i] + pushed_n(M, i, k)
            &&& colptr_same_except(K.colptr@, K0.colptr@, initcol as int, initcol + M.n) })
    &&& (shape == MatrixShape::T ==> {
            &&& forall|i: int, j: int| #[trigger] M.in_col_u(j, i) && j < k ==> {
                    let d = dest_t(K0, M, initcol as int, j);
                    map[j] == d && K.rowval@[d] == i + initrow && K.nzval@[d] == M.nzval@[j] }
            &&& forall|c: int| 0 <= c < K0.colptr@.len() ==> #[trigger] K.colptr@[c] == K0.colptr@[c] + count_row(M.rowval@, c - initcol, k) })
    // frame: a slot that is not the destination of one of the first k entries keeps its content
    &&& forall|s: int| 0 <= s < K0.rowval@.len() && fb_free(K0, M, initcol as int, shape, k, s) ==> #[trigger] K.rowval@[s] == K0.rowval@[s]
    &&& forall|s: int| 0 <= s < K0.rowval@.len() && fb_free(K0, M, initcol as int, shape, k, s) ==> #[trigger] K.nzval@[s] == K0.nzval@[s]
}
pub open spec fn fb_dest(K0: CscMatrix<F>, M: CscMatrix<F>, initcol: int, shape: MatrixShape, i: int, j: int) -> int {
    if shape == MatrixShape::T { dest_t(K0, M, initcol, j) } else { dest_n(K0, M, initcol, i, j) }
}
#[verifier::opaque]
pub open spec fn fb_free(K0: CscMatrix<F>, M: CscMatrix<F>, initcol: int, shape: MatrixShape, k: int, s: int) -> bool {
    forall|i: int, j: int| #[trigger] M.in_col_u(j, i) && j < k ==> fb_dest(K0, M, initcol, shape, i, j) != s
}
// the cursor of the column that entry jj goes to is exactly its destination slot
pub proof fn lemma_fb_cursor(K0: CscMatrix<F>, K1: CscMatrix<F>, M: CscMatrix<F>, map1: Seq<usize>, initrow: usize, initcol: usize, shape: MatrixShape, ii: int, jj: int)
    requires M.colptr_ok_u(), M.in_col_u(jj, ii), fill_block_pre(K0, M, initrow, initcol, shape), fill_block_state(K0, K1, M, map1, initrow, initcol, shape, jj),
    ensures K1.colptr@[if shape == MatrixShape::T { M.rowval@[jj] + initcol } else { ii + initcol }] == fb_dest(K0, M, initcol as int, shape, ii, jj),
{
    if shape == MatrixShape::N { assert(pushed_n(M, ii, jj) == jj - M.colptr@[ii]); }
}
// one placement step: entry jj of column ii is written at the cursor of its destination column
pub proof fn lemma_fill_block_step(K0: CscMatrix<F>, K1: CscMatrix<F>, K2: CscMatrix<F>, M: CscMatrix<F>, map1: Seq<usize>, map2: Seq<usize>,
                                   initrow: usize, initcol: usize, shape: MatrixShape, ii: int, jj: int)
    requires
        M.colptr_ok_u(), M.in_col_u(jj, ii), fill_block_pre(K0, M, initrow, initcol, shape),
        fill_block_state(K0, K1, M, map1, initrow, initcol, shape, jj),
        K1.rowval@.len() == K0.rowval@.len(), K1.nzval@.len() == K0.rowval@.len(), K1.colptr@.len() == K0.colptr@.len(), map1.len() > jj,
        K0.rowval@.len() <= usize::MAX,
        ({ let col = if shape == MatrixShape::T { M.rowval@[jj] + initcol } else { ii + initcol };
           let row = if shape == MatrixShape::T { ii + initrow } else { M.rowval@[jj] + initrow };
           let d = K1.colptr@[col] as int;
           &&& 0 <= col < K1.colptr@.len() && 0 <= d < K1.rowval@.len()
           &&& K2.rowval@ == K1.rowval@.update(d, row as usize) && K2.nzval@ == K1.nzval@.update(d, M.nzval@[jj])
           &&& map2 == map1.update(jj, d as usize) && K2.colptr@ == K1.colptr@.update(col, (d + 1) as usize) }),
    ensures fill_block_state(K0, K2, M, map2, initrow, initcol, shape, jj + 1),
{
    reveal(fb_free);
    let dcur = K1.colptr@[if shape == MatrixShape::T { M.rowval@[jj] + initcol } else { ii + initcol }] as int;
    assert forall|s: int| 0 <= s < K0.rowval@.len() && fb_free(K0, M, initcol as int, shape, jj + 1, s) implies #[trigger] K2.rowval@[s] == K0.rowval@[s] by {
        assert(fb_dest(K0, M, initcol as int, shape, ii, jj) != s);
        assert(fb_free(K0, M, initcol as int, shape, jj, s));
        lemma_fb_cursor(K0, K1, M, map1, initrow, initcol, shape, ii, jj);
    }
    assert forall|s: int| 0 <= s < K0.rowval@.len() && fb_free(K0, M, initcol as int, shape, jj + 1, s) implies #[trigger] K2.nzval@[s] == K0.nzval@[s] by {
        assert(fb_dest(K0, M, initcol as int, shape, ii, jj) != s);
        assert(fb_free(K0, M, initcol as int, shape, jj, s));
        lemma_fb_cursor(K0, K1, M, map1, initrow, initcol, shape, ii, jj);
    }
    if shape == MatrixShape::N {
        let col = ii + initcol;
        let d = K1.colptr@[col] as int;
        assert(pushed_n(M, ii, jj) == jj - M.colptr@[ii]);
        assert(d == dest_n(K0, M, initcol as int, ii, jj));
        assert forall|i: int, j: int| #[trigger] M.in_col_u(j, i) && j < jj + 1 implies ({
                let dd = dest_n(K0, M, initcol as int, i, j);
                map2[j] == dd && K2.rowval@[dd] == M.rowval@[j] + initrow && K2.nzval@[dd] == M.nzval@[j] }) by {
            if j < jj { assert(dest_n(K0, M, initcol as int, i, j) != dest_n(K0, M, initcol as int, ii, jj)); }
            else {
                // j == jj: the column containing jj is unique
                if i < ii { assert(M.colptr@[i + 1] <= M.colptr@[ii]); }
                if ii < i { assert(M.colptr@[ii + 1] <= M.colptr@[i]); }
            }
        }
        assert forall|i: int| 0 <= i < M.n implies #[trigger] K2.colptr@[initcol + i] == K0.colptr@[initcol + i] + pushed_n(M, i, jj + 1) by {
            assert(K1.colptr@[initcol + i] == K0.colptr@[initcol + i] + pushed_n(M, i, jj));
            if i < ii { assert(M.colptr@[i + 1] <= M.colptr@[ii]); assert(pushed_n(M, i, jj + 1) == pushed_n(M, i, jj)); assert(K2.colptr@[initcol + i] == K1.colptr@[initcol + i]); }
            else if ii < i { assert(M.colptr@[ii + 1] <= M.colptr@[i]); assert(pushed_n(M, i, jj + 1) == pushed_n(M, i, jj)); assert(K2.colptr@[initcol + i] == K1.colptr@[initcol + i]); }
            else { assert(pushed_n(M, ii, jj + 1) == jj + 1 - M.colptr@[ii]); assert(K2.colptr@[initcol + ii] == d + 1); }
        }
        assert(colptr_same_except(K2.colptr@, K0.colptr@, initcol as int, initcol + M.n));
    } else {
        let col = M.rowval@[jj] + initcol;
        let d = K1.colptr@[col] as int;
        assert(d == dest_t(K0, M, initcol as int, jj));
        assert forall|i: int, j: int| #[trigger] M.in_col_u(j, i) && j < jj + 1 implies ({
                let dd = dest_t(K0, M, initcol as int, j);
                map2[j] == dd && K2.rowval@[dd] == i + initrow && K2.nzval@[dd] == M.nzval@[j] }) by {
            if j < jj { assert(dest_t(K0, M, initcol as int, j) != dest_t(K0, M, initcol as int, jj)); }
            else {
                if i < ii { assert(M.colptr@[i + 1] <= M.colptr@[ii]); }
                if ii < i { assert(M.colptr@[ii + 1] <= M.colptr@[i]); }
            }
        }
        assert forall|c: int| 0 <= c < K0.colptr@.len() implies #[trigger] K2.colptr@[c] == K0.colptr@[c] + count_row(M.rowval@, c - initcol, jj + 1) by {
            assert(K1.colptr@[c] == K0.colptr@[c] + count_row(M.rowval@, c - initcol, jj));
            assert(count_row(M.rowval@, c - initcol, jj + 1) == count_row(M.rowval@, c - initcol, jj) + (if M.rowval@[jj] == c - initcol { 1int } else { 0int }));
        }
    }
}

// the values produced by the range offset..offset+blockdim
pub open spec fn col_is(sq: Seq<usize>, offset: int) -> bool { forall|k: int| 0 <= k < sq.len() ==> #[trigger] sq[k] == offset + k }
// column i of M (square, upper triangular) has no stored diagonal entry: it is empty or its last row index is not i
// slot s is not the cursor of any column below hi that lacks a diagonal entry
#[verifier::opaque]
pub open spec fn untouched_md(cur: Seq<usize>, M: CscMatrix<F>, hi: int, s: int) -> bool {
    forall|c: int| 0 <= c < hi && missing_diag(M, c) ==> #[trigger] cur[c] != s
}
pub open spec fn missing_diag(M: CscMatrix<F>, i: int) -> bool {
    M.colptr@[i] == M.colptr@[i + 1] || M.rowval@[M.colptr@[i + 1] - 1] != i
}
pub open spec fn has_diag(M: CscMatrix<F>, i: int, triu: bool) -> bool {
    M.colptr@[i + 1] != M.colptr@[i] && (if triu { M.rowval@[M.colptr@[i + 1] - 1] == i } else { M.rowval@[M.colptr@[i] as int] == i })
}
pub open spec fn count_diag(M: CscMatrix<F>, n: int, triu: bool) -> int
    decreases n,
{
    if n <= 0 { 0 } else { count_diag(M, n - 1, triu) + (if has_diag(M, n - 1, triu) { 1int } else { 0int }) }
}
// number of the first j entries of rows that equal r
pub open spec fn count_row(rows: Seq<usize>, r: int, j: int) -> int
    decreases j,
{
    if j <= 0 { 0 } else { count_row(rows, r, j - 1) + (if rows[j - 1] == r { 1int } else { 0int }) }
}
pub proof fn lemma_count_row_le(rows: Seq<usize>, r: int, j: int)
    requires 0 <= j <= rows.len(),
    ensures 0 <= count_row(rows, r, j) <= j,
    decreases j,
{ if j > 0 { lemma_count_row_le(rows, r, j - 1); } }
pub proof fn lemma_mono_chain(s: Seq<usize>, a: int, b: int)
    requires 0 <= a <= b < s.len(), forall|k: int| 0 <= k < s.len() - 1 ==> s[k] <= #[trigger] s[k + 1],
    ensures s[a] <= s[b],
    decreases b - a,
{ if a < b { lemma_mono_chain(s, a, b - 1); assert(s[b - 1] <= s[(b - 1) + 1]); } }

} // verus!
fn main() {}
