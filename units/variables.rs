// unit `variables` : the remaining methods of DefaultVariables (step right-hand sides, mu, initialisation, rescaling,
// barrier) and the small constructors of the default implementation (C01 C02 C03: lengths n / m; C07: tau, kappa > 0)
// float model: F-opaque for "what is written where" (every output entry is stated as the exact float expression of the
// inputs), F-real (exact reals; NaN / inf / rounding not modelled) for the corollaries about positivity and ratios.
//
// PROVED from the real bodies (extracted, never retyped):
//   DefaultVariables::new, dims, calc_mu, affine_step_rhs, combined_step_rhs, symmetric_initialization, unit_initialization,
//   scale_cones, barrier, rescale;
//   _shift_to_cone_interior (second extraction: the contract of unit `steplen`, plus the frame `cones unchanged` needed to
//   keep the margin of s while z is shifted, plus the exact final margin max(old margin, target));
//   VectorMath::dot_shifted (real body of `impl VectorMath<T> for [T]`, called as a free function: rule R32 rewrites the
//   fully qualified call `<[T] as VectorMath<T>>::dot_shifted(..)` in `barrier`; the prelude trait does not carry it);
//   ScalarMath::logsafe; DefaultSolution::new, DefaultResiduals::new, DefaultEquilibrationData::new;
//   DefaultInfo::reset, DefaultInfo::finalize (unit `solve` assumes these two against the trait contract).
//   Every `&mut self` method also proves `dims_spec` unchanged, which is what unit `solve` assumes of them.
// ASSUMED (stand-ins, listed with their contracts where they are declared):
//   * CompositeCone::{degree, affine_ds, combined_ds_shift, margins, scaled_unit_shift, unit_initialization,
//     update_scaling, compute_barrier}: each result is an uninterpreted function of exactly the arguments the real
//     dispatch loop hands to the member cones (cone state, vectors, scalars); written vectors are functions of the
//     inputs only (true of every member cone: fill / copy / lambda o lambda / grad * sigma mu - eta); lengths are kept
//     (the operands must have `numel` entries: the range slicing of the dispatch loop panics otherwise); a `&mut self`
//     call keeps degree and numel; margins / scaled_unit_shift as in unit `steplen` (margins leaves the cones unchanged).
//     The dispatch layer itself is the subject of unit `composite`.  Nothing is assumed about degree > 0.
//   * the vector kernels copy_from / set / scale / axpby: prelude/vecmath_contract.rs, proved in unit `vecmath`.
//   * NumCast: `T::from(usize)` and `usize::as_T()` are `Some(f_from_usize(..))` / `f_from_usize(..)` (never None for f64);
//     F-real: f_from_usize(k) is the real number k (exact below 2^53); the admitted axioms of float_real_axioms.rs.
//   * `ln` is an uninterpreted symbol; Timers::{reset_timer, total_time}, Duration::as_secs_f64, PrintTarget: opaque.
//   * requires: vector lengths as allocated by the constructors (n, m = numel); `degree + 1` does not wrap.
// DROPPED: DefaultInfo::new (its body is `Self::default()`, i.e. the derive(Default) expansion, outside the extractor);
//   `impl Debug for DefaultVariables` (formatting).
use vstd::prelude::*;
verus! {
// vstd's extension trait for Vec (`v.set(i, x)`) would capture the call `self.x.set(T::zero())`, which in the crate resolves
// to VectorMath::set on the slice; a local item of the same name shadows the glob import, so the trait is not in scope
pub trait VecAdditionalExecFns {}
//@include prelude/float_opaque.rs
//@include prelude/float_real_axioms.rs
//@include prelude/vecmath_assumed.rs

// ------------------------------------------------------------------ assumed scalar conversions
// NumCast::from::<usize>() for the float types never fails
impl F { #[verifier::external_body] pub fn from(x: usize) -> (r: Option<F>) ensures r == Some(f_from_usize(x)) { unimplemented!() } }
impl AsFloatT for usize { #[verifier::external_body] fn as_T(&self) -> (r: F) ensures r == f_from_usize(*self) { unimplemented!() } }
// F-real reading of the conversion (ASSUMED; exact for k < 2^53)
// ASSUMED (as in units steplen / composite): the largest finite value exceeds one
pub broadcast proof fn ax_maxval() ensures #[trigger] f_maxval().v() > 1real { admit(); }
pub broadcast proof fn ax_from_usize(k: usize) ensures #[trigger] f_from_usize(k).v() == k as real { admit(); }
// natural logarithm: uninterpreted
pub uninterp spec fn f_ln(a: F) -> F;
impl F { #[verifier::external_body] pub fn ln(self) -> (r: F) ensures r == f_ln(self) { unimplemented!() } }

// ------------------------------------------------------------------ extracted data types
//@enum file=src/solver/core/solver.rs name=SolverStatus derive="PartialEq, Eq, Clone, Copy, Structural"
//@enum file=src/solver/core/solver.rs name=ScalingStrategy derive="PartialEq, Eq, Clone, Copy, Structural"
//@enum file=src/solver/core/cones/mod.rs name=PrimalOrDualCone rules=R12 derive="PartialEq, Eq, Clone, Copy, Structural"
//@struct file=src/solver/implementations/default/variables.rs name=DefaultVariables rules=R2
//@struct file=src/solver/implementations/default/residuals.rs name=DefaultResiduals rules=R2
//@struct file=src/solver/implementations/default/solution.rs name=DefaultSolution
//@struct file=src/solver/implementations/default/equilibration.rs name=DefaultEquilibrationData
// opaque stand-ins for crate::timers and crate::io::PrintTarget (as in unit info_update)
pub struct Duration { pub x: u64 }
impl Duration {
    pub uninterp spec fn secs(&self) -> f64;
    #[verifier::external_body] pub fn as_secs_f64(&self) -> (r: f64) ensures r == self.secs() { unimplemented!() }
}
pub struct Timers { pub x: u64 }
impl Timers {
    pub uninterp spec fn total(&self) -> Duration;
    #[verifier::external_body] pub fn total_time(&self) -> (r: Duration) ensures r == self.total() { unimplemented!() }
    #[verifier::external_body] pub fn reset_timer(&mut self, key: &str) { unimplemented!() }
}
#[verifier::external_body]
pub struct PrintTarget { _p: u8 }
//@struct file=src/solver/implementations/default/info.rs name=DefaultInfo rules=R2 keep=mu,sigma,step_length,iterations,cost_primal,cost_dual,res_primal,res_dual,res_primal_inf,res_dual_inf,gap_abs,gap_rel,ktratio,prev_cost_primal,prev_cost_dual,prev_res_primal,prev_res_dual,prev_gap_abs,prev_gap_rel,solve_time,status,stream

// ------------------------------------------------------------------ stand-in for CompositeCone (ASSUMED contracts)
pub struct CompositeCone<T> { pub _p: Option<T> }
impl CompositeCone<F> {
    // sizes
    pub uninterp spec fn degree_spec(&self) -> nat;
    pub uninterp spec fn numel_spec(&self) -> nat;
    // margin(z): how far inside the (primal or dual) cone z is, in units of the cone's identity element (unit `steplen`)
    pub uninterp spec fn margin(&self, z: Seq<F>, pd: PrimalOrDualCone) -> real;
    // affine part of the linearised centrality condition (lambda o lambda for symmetric cones, s for the others)
    pub uninterp spec fn affine_ds_spec(&self, s: Seq<F>) -> Seq<F>;
    // shift part: W^-1 ds o W dz - sigma mu e (symmetric),  sigma mu g(z) - higher order correction (nonsymmetric)
    pub uninterp spec fn ds_shift_spec(&self, step_z: Seq<F>, step_s: Seq<F>, sigmamu: F) -> Seq<F>;
    // the unit starting point (z, s) of the cone product
    pub uninterp spec fn unit_z_spec(&self) -> Seq<F>;
    pub uninterp spec fn unit_s_spec(&self) -> Seq<F>;
    // scaling update: success flag and resulting cone state
    pub uninterp spec fn scaling_ok_spec(&self, s: Seq<F>, z: Seq<F>, mu: F, st: ScalingStrategy) -> bool;
    pub uninterp spec fn scaled_spec(&self, s: Seq<F>, z: Seq<F>, mu: F, st: ScalingStrategy) -> CompositeCone<F>;
    // barrier value of the cone product at (z + a dz, s + a ds)
    pub uninterp spec fn barrier_spec(&self, z: Seq<F>, s: Seq<F>, dz: Seq<F>, ds: Seq<F>, a: F) -> F;

    #[verifier::external_body]
    pub fn degree(&self) -> (r: usize) ensures r == self.degree_spec() { unimplemented!() }
    #[verifier::external_body]
    pub fn affine_ds(&self, ds: &mut [F], s: &[F])
        requires old(ds)@.len() == self.numel_spec(), s@.len() == self.numel_spec(),
        ensures final(ds)@.len() == old(ds)@.len(), final(ds)@ == self.affine_ds_spec(s@),
    { unimplemented!() }
    #[verifier::external_body]
    pub fn combined_ds_shift(&mut self, shift: &mut [F], step_z: &mut [F], step_s: &mut [F], sigmamu: F)
        requires old(shift)@.len() == old(self).numel_spec(), old(step_z)@.len() == old(self).numel_spec(), old(step_s)@.len() == old(self).numel_spec(),
        ensures
            final(shift)@.len() == old(shift)@.len(), final(step_z)@.len() == old(step_z)@.len(), final(step_s)@.len() == old(step_s)@.len(),
            final(shift)@ == old(self).ds_shift_spec(old(step_z)@, old(step_s)@, sigmamu),
            final(self).degree_spec() == old(self).degree_spec(), final(self).numel_spec() == old(self).numel_spec(),
    { unimplemented!() }
    // the three contracts below are those of unit `steplen` (plus a name, pos_margin, for the second figure of `margins`)
    pub uninterp spec fn pos_margin(&self, z: Seq<F>, pd: PrimalOrDualCone) -> real;
    #[verifier::external_body]
    pub fn margins(&mut self, z: &mut [F], pd: PrimalOrDualCone) -> (r: (F, F))
        ensures r.0.v() == old(self).margin(old(z)@, pd), r.1.v() == old(self).pos_margin(old(z)@, pd), r.1.v() >= 0real,
            final(z)@ == old(z)@, *final(self) == *old(self),
    { unimplemented!() }
    #[verifier::external_body]
    pub fn scaled_unit_shift(&self, z: &mut [F], alpha: F, pd: PrimalOrDualCone)
        // (the form PROVED for the real dispatch loop in unit `composite`: a list of zero cones only sits at max_value and stays there)
        ensures final(z)@.len() == old(z)@.len(),
            self.margin(final(z)@, pd) >= (if self.margin(old(z)@, pd) + alpha.v() <= f_maxval().v() { self.margin(old(z)@, pd) + alpha.v() } else { f_maxval().v() }),
            alpha.v() >= 0real ==> self.margin(final(z)@, pd) <= self.margin(old(z)@, pd) + alpha.v(),
    { unimplemented!() }
    #[verifier::external_body]
    pub fn unit_initialization(&self, z: &mut [F], s: &mut [F])
        requires old(z)@.len() == self.numel_spec(), old(s)@.len() == self.numel_spec(),
        ensures final(z)@.len() == old(z)@.len(), final(s)@.len() == old(s)@.len(),
            final(z)@ == self.unit_z_spec(), final(s)@ == self.unit_s_spec(),
    { unimplemented!() }
    #[verifier::external_body]
    pub fn update_scaling(&mut self, s: &[F], z: &[F], mu: F, scaling_strategy: ScalingStrategy) -> (r: bool)
        ensures r == old(self).scaling_ok_spec(s@, z@, mu, scaling_strategy), *final(self) == old(self).scaled_spec(s@, z@, mu, scaling_strategy),
    { unimplemented!() }
    #[verifier::external_body]
    pub fn compute_barrier(&mut self, z: &[F], s: &[F], dz: &[F], ds: &[F], alpha: F) -> (r: F)
        ensures r == old(self).barrier_spec(z@, s@, dz@, ds@, alpha),
            final(self).degree_spec() == old(self).degree_spec(), final(self).numel_spec() == old(self).numel_spec(),
    { unimplemented!() }
}

// ------------------------------------------------------------------ scalar / vector helpers used by `barrier`
pub open spec fn logsafe_spec(x: F) -> F { if f_le(x, f_zero()) { f_neg(f_inf()) } else { f_ln(x) } }
pub trait ScalarMath: Sized { fn logsafe(&self) -> Self; }
impl ScalarMath for F {
//@fn file=src/algebra/scalarmath.rs in="ScalarMath for T" name=logsafe rules=R1 ret=r
//@contract
    ensures r == logsafe_spec(*self)
//@end
}
// sum over i of (s_i + a ds_i) * (z_i + a dz_i), as the left fold the code performs
pub open spec fn fold_dot_shifted(z: Seq<F>, s: Seq<F>, dz: Seq<F>, ds: Seq<F>, a: F, k: int) -> F decreases k {
    if k <= 0 { f_zero() } else {
        f_add(fold_dot_shifted(z, s, dz, ds, a, k - 1),
              f_mul(f_add(s[k - 1], f_mul(a, ds[k - 1])), f_add(z[k - 1], f_mul(a, dz[k - 1]))))
    }
}
//@fn file=src/algebra/vecmath.rs in="VectorMath<T> for [T]" name=dot_shifted rules=R1,R2,R6,zipidx:1=iiii ret=r
//@contract
    requires z@.len() == s@.len(), z@.len() == dz@.len(), s@.len() == ds@.len(),
    ensures r == fold_dot_shifted(z@, s@, dz@, ds@, alpha, z@.len() as int),
//@loop 1
            invariant
                z@.len() == s@.len(), z@.len() == dz@.len(), s@.len() == ds@.len(), r14_n1 == z@.len(),
                out == fold_dot_shifted(z@, s@, dz@, ds@, alpha, $var1 as int),
//@end

// ------------------------------------------------------------------ cone interior shift (second extraction, with frame)
// the margin aimed at: max(1, 0.1 * (sum of the positive margins) / degree)
pub open spec fn shift_target(pos: real, deg: nat) -> real { rmax(1real, (pos * f_lit(0.1).v()) / (deg as real)) }
//@fn file=src/solver/implementations/default/variables.rs name=_shift_to_cone_interior rules=R1
//@contract
    ensures
        final(z)@.len() == old(z)@.len(), final(cones).margin(final(z)@, pd) >= 1real,
        // exactly: a point with a good margin is left where it is, every other one is moved to the target margin
        // (degree 0, a product of zero cones only, makes the target 0/0: outside the F-real model, the bound above still holds)
        // (and a target beyond the largest finite value, where the composite margin saturates: likewise)
        old(cones).degree_spec() > 0 && shift_target(old(cones).pos_margin(old(z)@, pd), old(cones).degree_spec()) <= f_maxval().v()
            && old(cones).margin(old(z)@, pd) <= f_maxval().v() ==> final(cones).margin(final(z)@, pd) == rmax(old(cones).margin(old(z)@, pd),
            shift_target(old(cones).pos_margin(old(z)@, pd), old(cones).degree_spec())),
        *final(cones) == *old(cones),
//@pre
    broadcast use real_arith, ax_from_usize, ax_maxval;
//@end

// ------------------------------------------------------------------ DefaultVariables
pub open spec fn all_eq(v: Seq<F>, c: F) -> bool { forall|i: int| 0 <= i < v.len() ==> #[trigger] v[i] == c }
// step.z as handed to the cones: scaled by the Mehrotra factor m unless m == 1
pub open spec fn mehrotra_scaled(z: Seq<F>, m: F) -> Seq<F> {
    Seq::new(z.len(), |i: int| if f_eq(m, f_one()) { z[i] } else { f_mul(z[i], m) })
}
impl DefaultVariables<F> {
    pub open spec fn dims_spec(&self) -> (nat, nat, nat) { (self.x@.len(), self.s@.len(), self.z@.len()) }

//@fn file=src/solver/implementations/default/variables.rs in="impl<T> DefaultVariables<T>" name=new rules=R1,R2 ret=r
//@contract
    ensures
        // C01 C02 C03: x has n entries, s and z have m; the scalars start at one
        r.x@.len() == n, r.s@.len() == m, r.z@.len() == m,
        all_eq(r.x@, f_zero()), all_eq(r.s@, f_zero()), all_eq(r.z@, f_zero()),
        r.tau == f_one(), r.kappa == f_one(),
//@end

//@fn file=src/solver/implementations/default/variables.rs in="impl<T> DefaultVariables<T>" name=dims rules=R1,R2,R12 ret=r
//@contract
    ensures r.0 == self.x@.len(), r.1 == self.s@.len(),
//@end

//@fn file=src/solver/implementations/default/variables.rs in="Variables<T> for DefaultVariables<T>" name=calc_mu rules=R1,R2 ret=r
//@contract
    requires
        // degree <= numel <= isize::MAX for a real cone product, so `degree + 1` cannot wrap
        cones.degree_spec() < usize::MAX,
    ensures
        // mu = (s'z + tau kappa) / (degree + 1); s'z is the figure cached by DefaultResiduals::update
        r == f_div(f_add(residuals.dot_sz, f_mul(old(self).tau, old(self).kappa)), f_from_usize((cones.degree_spec() + 1) as usize)),
        r.v() == (residuals.dot_sz.v() + old(self).tau.v() * old(self).kappa.v()) / ((cones.degree_spec() + 1) as real),
        *final(self) == *old(self),
//@pre
        broadcast use real_arith, ax_from_usize;
//@end

//@fn file=src/solver/implementations/default/variables.rs in="Variables<T> for DefaultVariables<T>" name=affine_step_rhs rules=R1,R2
//@contract
    requires
        old(self).x@.len() == residuals.rx@.len(), old(self).z@.len() == residuals.rz@.len(),
        old(self).s@.len() == cones.numel_spec(), variables.s@.len() == cones.numel_spec(),
    ensures
        // rhs of the affine step: (rx, rz, affine ds of the cones at s, r_tau, tau kappa)
        final(self).x@ == residuals.rx@, final(self).z@ == residuals.rz@,
        final(self).s@ == cones.affine_ds_spec(variables.s@),
        final(self).tau == residuals.rtau,
        final(self).kappa == f_mul(variables.tau, variables.kappa),
        final(self).kappa.v() == variables.tau.v() * variables.kappa.v(),
        final(self).dims_spec() == old(self).dims_spec(),
//@pre
        broadcast use real_arith;
//@end

//@fn file=src/solver/implementations/default/variables.rs in="Variables<T> for DefaultVariables<T>" name=combined_step_rhs rules=R1,R2
//@contract
    requires
        old(self).x@.len() == residuals.rx@.len(), old(self).z@.len() == residuals.rz@.len(),
        old(self).z@.len() == old(cones).numel_spec(), old(self).s@.len() == old(cones).numel_spec(),
        old(step).z@.len() == old(cones).numel_spec(), old(step).s@.len() == old(cones).numel_spec(),
    ensures
        final(self).dims_spec() == old(self).dims_spec(), final(step).dims_spec() == old(step).dims_spec(),
        // x = (1 - sigma) rx        (axpby with b = 0: the old entry enters as 0 * old)
        forall|i: int| 0 <= i < old(self).x@.len() ==> #[trigger] final(self).x@[i] ==
            f_add(f_mul(f_sub(f_one(), sigma), residuals.rx@[i]), f_mul(f_zero(), old(self).x@[i])),
        // tau = (1 - sigma) r_tau
        final(self).tau == f_mul(f_sub(f_one(), sigma), residuals.rtau),
        // kappa = - sigma mu + m dtau dkappa + tau kappa
        final(self).kappa == f_add(f_add(f_neg(f_mul(sigma, mu)), f_mul(f_mul(m, old(step).tau), old(step).kappa)), f_mul(variables.tau, variables.kappa)),
        // s = (affine ds already in self.s) + shift, where the shift is the cones' combined_ds_shift of the affine step
        // (step.z scaled by m, step.s) at sigma mu
        ({
            let shift = old(cones).ds_shift_spec(mehrotra_scaled(old(step).z@, m), old(step).s@, f_mul(sigma, mu));
            &&& forall|i: int| 0 <= i < old(self).s@.len() ==> #[trigger] final(self).s@[i] ==
                    f_add(f_mul(f_one(), shift[i]), f_mul(f_one(), old(self).s@[i]))
            // z = (1 - sigma) rz     (self.z was the workspace holding the shift)
            &&& forall|i: int| 0 <= i < old(self).z@.len() ==> #[trigger] final(self).z@[i] ==
                    f_add(f_mul(f_sub(f_one(), sigma), residuals.rz@[i]), f_mul(f_zero(), shift[i]))
        }),
        // the same in real arithmetic (F-real): the documented right-hand side of the combined step
        ({
            let shift = old(cones).ds_shift_spec(mehrotra_scaled(old(step).z@, m), old(step).s@, f_mul(sigma, mu));
            &&& forall|i: int| 0 <= i < old(self).x@.len() ==> (#[trigger] final(self).x@[i]).v() == (1real - sigma.v()) * residuals.rx@[i].v()
            &&& forall|i: int| 0 <= i < old(self).z@.len() ==> (#[trigger] final(self).z@[i]).v() == (1real - sigma.v()) * residuals.rz@[i].v()
            &&& forall|i: int| 0 <= i < old(self).s@.len() ==> (#[trigger] final(self).s@[i]).v() == old(self).s@[i].v() + shift[i].v()
            &&& final(self).tau.v() == (1real - sigma.v()) * residuals.rtau.v()
            &&& final(self).kappa.v() == -(sigma.v() * mu.v()) + m.v() * old(step).tau.v() * old(step).kappa.v() + variables.tau.v() * variables.kappa.v()
        }),
        // step.z, step.s are workspace from here on (lengths kept); the rest of step is untouched
        final(step).x@ == old(step).x@, final(step).tau == old(step).tau, final(step).kappa == old(step).kappa,
        final(cones).degree_spec() == old(cones).degree_spec(), final(cones).numel_spec() == old(cones).numel_spec(),
//@pre
        broadcast use real_arith;
//@before "cones.combined_ds_shift("
        proof { assert(step.z@ =~= mehrotra_scaled(old(step).z@, m)); }
//@end

//@fn file=src/solver/implementations/default/variables.rs in="Variables<T> for DefaultVariables<T>" name=symmetric_initialization rules=R1,R2
//@contract
    ensures
        // C07: s and z end strictly inside their cones (margin >= 1), tau = kappa = 1
        final(cones).margin(final(self).s@, PrimalOrDualCone::PrimalCone) >= 1real,
        final(cones).margin(final(self).z@, PrimalOrDualCone::DualCone) >= 1real,
        final(self).tau == f_one(), final(self).kappa == f_one(),
        final(self).tau.v() == 1real, final(self).kappa.v() == 1real,
        final(self).x@ == old(self).x@, final(self).dims_spec() == old(self).dims_spec(),
        *final(cones) == *old(cones),
//@pre
        broadcast use real_arith;
//@end

//@fn file=src/solver/implementations/default/variables.rs in="Variables<T> for DefaultVariables<T>" name=unit_initialization rules=R1,R2
//@contract
    requires old(self).z@.len() == cones.numel_spec(), old(self).s@.len() == cones.numel_spec(),
    ensures
        final(self).z@ == cones.unit_z_spec(), final(self).s@ == cones.unit_s_spec(),
        all_eq(final(self).x@, f_zero()),
        final(self).tau == f_one(), final(self).kappa == f_one(),
        final(self).tau.v() == 1real, final(self).kappa.v() == 1real,
        final(self).dims_spec() == old(self).dims_spec(),
//@pre
        broadcast use real_arith;
//@end

//@fn file=src/solver/implementations/default/variables.rs in="Variables<T> for DefaultVariables<T>" name=scale_cones rules=R1,R2 ret=r
//@contract
    ensures
        // the scaling point is (s, z) of this iterate, in that order, at the given mu and strategy; the flag is passed on
        r == old(cones).scaling_ok_spec(self.s@, self.z@, mu, scaling_strategy),
        *final(cones) == old(cones).scaled_spec(self.s@, self.z@, mu, scaling_strategy),
//@end

//@fn file=src/solver/implementations/default/variables.rs in="Variables<T> for DefaultVariables<T>" name=barrier rules=R1,R2,R32 ret=r
//@contract
    requires
        old(cones).degree_spec() < usize::MAX,
        self.z@.len() == self.s@.len(), self.z@.len() == step.z@.len(), self.s@.len() == step.s@.len(),
    ensures
        ({
            let cc = f_from_usize((old(cones).degree_spec() + 1) as usize);
            let ct = f_add(self.tau, f_mul(alpha, step.tau));
            let ck = f_add(self.kappa, f_mul(alpha, step.kappa));
            let sz = fold_dot_shifted(self.z@, self.s@, step.z@, step.s@, alpha, self.z@.len() as int);
            let mu = f_div(f_add(sz, f_mul(ct, ck)), cc);
            // (degree + 1) log mu - log tau' - log kappa' + barrier of the cones at (z + a dz, s + a ds)
            r == f_add(f_sub(f_sub(f_mul(cc, logsafe_spec(mu)), logsafe_spec(ct)), logsafe_spec(ck)),
                       old(cones).barrier_spec(self.z@, self.s@, step.z@, step.s@, alpha))
        }),
        final(cones).degree_spec() == old(cones).degree_spec(), final(cones).numel_spec() == old(cones).numel_spec(),
//@end

//@fn file=src/solver/implementations/default/variables.rs in="Variables<T> for DefaultVariables<T>" name=rescale rules=R1,R2
//@contract
    ensures
        final(self).dims_spec() == old(self).dims_spec(),
        // everything is multiplied by 1 / max(tau, kappa)
        ({
            let inv = f_recip(f_max(old(self).tau, old(self).kappa));
            &&& forall|i: int| 0 <= i < old(self).x@.len() ==> #[trigger] final(self).x@[i] == f_mul(old(self).x@[i], inv)
            &&& forall|i: int| 0 <= i < old(self).z@.len() ==> #[trigger] final(self).z@[i] == f_mul(old(self).z@[i], inv)
            &&& forall|i: int| 0 <= i < old(self).s@.len() ==> #[trigger] final(self).s@[i] == f_mul(old(self).s@[i], inv)
            &&& final(self).tau == f_mul(old(self).tau, inv)
            &&& final(self).kappa == f_mul(old(self).kappa, inv)
        }),
        // C07 (F-real): positive scalars stay positive, the larger one becomes 1, and the point the iterate stands for
        // (x / tau, z / tau, s / tau, kappa / tau) does not move
        old(self).tau.v() > 0real && old(self).kappa.v() > 0real ==> ({
            let t0 = old(self).tau.v(); let k0 = old(self).kappa.v(); let t1 = final(self).tau.v(); let k1 = final(self).kappa.v();
            &&& t1 > 0real && k1 > 0real && rmax(t1, k1) == 1real
            &&& k1 / t1 == k0 / t0
            &&& forall|i: int| 0 <= i < old(self).x@.len() ==> (#[trigger] final(self).x@[i]).v() / t1 == old(self).x@[i].v() / t0
            &&& forall|i: int| 0 <= i < old(self).z@.len() ==> (#[trigger] final(self).z@[i]).v() / t1 == old(self).z@[i].v() / t0
            &&& forall|i: int| 0 <= i < old(self).s@.len() ==> (#[trigger] final(self).s@[i]).v() / t1 == old(self).s@[i].v() / t0
        }),
//@after "self.kappa *= invscale"
        proof {
            broadcast use real_arith;
            let t0 = old(self).tau.v(); let k0 = old(self).kappa.v();
            if t0 > 0real && k0 > 0real {
                let iv = invscale.v();
                lemma_rescale_scalars(t0, k0, iv);
                assert forall|i: int| 0 <= i < old(self).x@.len() implies (#[trigger] self.x@[i]).v() / self.tau.v() == old(self).x@[i].v() / t0 by {
                    lemma_ratio(old(self).x@[i].v(), t0, iv);
                }
                assert forall|i: int| 0 <= i < old(self).z@.len() implies (#[trigger] self.z@[i]).v() / self.tau.v() == old(self).z@[i].v() / t0 by {
                    lemma_ratio(old(self).z@[i].v(), t0, iv);
                }
                assert forall|i: int| 0 <= i < old(self).s@.len() implies (#[trigger] self.s@[i]).v() / self.tau.v() == old(self).s@[i].v() / t0 by {
                    lemma_ratio(old(self).s@[i].v(), t0, iv);
                }
                lemma_ratio(k0, t0, iv);
            }
        }
//@end
}
// (a c) / (t c) = a / t for c > 0, t > 0
pub proof fn lemma_ratio(a: real, t: real, c: real)
    requires t > 0real, c > 0real,
    ensures (a * c) / (t * c) == a / t,
{
    assert(t * c > 0real) by(nonlinear_arith) requires t > 0real, c > 0real;
    assert((a * c) / (t * c) == a / t) by(nonlinear_arith) requires t > 0real, c > 0real, t * c > 0real;
}
// with c = 1 / max(t, k): t c > 0, k c > 0, max(t c, k c) = 1
pub proof fn lemma_rescale_scalars(t: real, k: real, c: real)
    requires t > 0real, k > 0real, c == 1real / rmax(t, k),
    ensures c > 0real, t * c > 0real, k * c > 0real, rmax(t * c, k * c) == 1real,
{
    let m = rmax(t, k);
    assert(c > 0real) by(nonlinear_arith) requires c == 1real / m, m > 0real;
    assert(m * c == 1real) by(nonlinear_arith) requires c == 1real / m, m > 0real;
    assert(t * c > 0real) by(nonlinear_arith) requires t > 0real, c > 0real;
    assert(k * c > 0real) by(nonlinear_arith) requires k > 0real, c > 0real;
    assert(t * c <= m * c) by(nonlinear_arith) requires t <= m, c > 0real;
    assert(k * c <= m * c) by(nonlinear_arith) requires k <= m, c > 0real;
}

// ------------------------------------------------------------------ the small constructors
impl DefaultSolution<F> {
//@fn file=src/solver/implementations/default/solution.rs in="impl<T> DefaultSolution<T>" name=new rules=R1 ret=r
//@contract
    ensures
        // C01 C02 C03: the report has n primal entries and m dual / slack entries, and starts out Unsolved with NaN figures
        r.x@.len() == n, r.z@.len() == m, r.s@.len() == m,
        all_eq(r.x@, f_zero()), all_eq(r.z@, f_zero()), all_eq(r.s@, f_zero()),
        r.status == SolverStatus::Unsolved, r.iterations == 0, r.solve_time == 0f64,
        r.obj_val == f_nan(), r.obj_val_dual == f_nan(), r.r_prim == f_nan(), r.r_dual == f_nan(),
//@end
}
impl DefaultResiduals<F> {
//@fn file=src/solver/implementations/default/residuals.rs in="impl<T> DefaultResiduals<T>" name=new rules=R1,R2 ret=r
//@contract
    ensures
        r.rx@.len() == n, r.rx_inf@.len() == n, r.Px@.len() == n, r.rz@.len() == m, r.rz_inf@.len() == m,
        all_eq(r.rx@, f_zero()), all_eq(r.rx_inf@, f_zero()), all_eq(r.Px@, f_zero()), all_eq(r.rz@, f_zero()), all_eq(r.rz_inf@, f_zero()),
        r.rtau == f_one(),
        r.dot_qx == f_zero(), r.dot_bz == f_zero(), r.dot_sz == f_zero(), r.dot_xPx == f_zero(),
//@end
}
impl DefaultEquilibrationData<F> {
//@fn file=src/solver/implementations/default/equilibration.rs in="impl<T> DefaultEquilibrationData<T>" name=new rules=R1 ret=r
//@contract
    ensures
        // the identity scaling: D = I_n, E = I_m, c = 1
        r.d@.len() == n, r.dinv@.len() == n, r.e@.len() == m, r.einv@.len() == m,
        all_eq(r.d@, f_one()), all_eq(r.dinv@, f_one()), all_eq(r.e@, f_one()), all_eq(r.einv@, f_one()),
        r.c == f_one(),
//@end
}
impl DefaultInfo<F> {
//@fn file=src/solver/implementations/default/info.rs in="impl<T> Info<T> for DefaultInfo<T>" name=reset rules=R1
//@contract
    ensures *final(self) == (DefaultInfo::<F> { status: SolverStatus::Unsolved, iterations: 0, solve_time: 0f64, ..*old(self) }),
//@end
//@fn file=src/solver/implementations/default/info.rs in="impl<T> Info<T> for DefaultInfo<T>" name=finalize rules=R1
//@contract
    ensures *final(self) == (DefaultInfo::<F> { solve_time: old(timers).total().secs(), ..*old(self) }),
//@end
}

} // verus!
fn main() {}
