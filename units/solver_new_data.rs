// unit `solver_new_data` : companions of unit `solver_new` -- the all-in-one data update (item 4), the presolve reduction of A and b
// (item 5, C09) and the presolve / copy logic of DefaultProblemData::new (item 6).  float model: F-opaque.
use vstd::prelude::*;
verus! {
//@include prelude/float_opaque.rs
//@include prelude/vecmath_assumed.rs
//@include prelude/std_assumed.rs
//@include units/inc/csc_scalings.rs
//@enum file=src/algebra/error_types.rs name=SparseFormatError rules=R12 derive="PartialEq, Eq, Clone, Copy, Structural"
//@enum file=src/solver/implementations/default/data_updating.rs name=DataUpdateError rules=R12
// #[from] on DataUpdateError::BadFormat (thiserror) expands to this conversion
impl vstd::std_specs::convert::FromSpecImpl<SparseFormatError> for DataUpdateError {
    open spec fn obeys_from_spec() -> bool { true }
    open spec fn from_spec(e: SparseFormatError) -> DataUpdateError { DataUpdateError::BadFormat(e) }
}
impl From<SparseFormatError> for DataUpdateError {
    fn from(e: SparseFormatError) -> (r: DataUpdateError) { DataUpdateError::BadFormat(e) }
}

// ================================================================== item 4: DefaultSolver::update_data
// vocabulary and stand-ins: the text of unit data_update (where update_P / update_q / update_A / update_b are PROVED)
pub open spec fn scaled_entry(v: F, lr: F, rc: F, c: Option<F>) -> F {
    match c { Some(cc) => f_mul(f_mul(v, f_mul(lr, rc)), cc), None => f_mul(v, f_mul(lr, rc)) }
}
pub open spec fn scaled_elem(v: F, s: F, c: Option<F>) -> F {
    match c { Some(cc) => f_mul(f_mul(v, s), cc), None => f_mul(v, s) }
}
pub open spec fn matrix_ok(M: CscMatrix<F>, l: Seq<F>, r: Seq<F>) -> bool {
    M.colptr_ok() && r.len() == M.n && (forall|k: int| 0 <= k < M.rowval@.len() ==> M.rowval@[k] < l.len())
}
// the two update traits with the contracts of unit data_update (every implementation is checked against them there)
//@trait file=src/solver/implementations/default/data_updating.rs name=MatrixProblemDataUpdate header="pub trait MatrixProblemDataUpdate<T>" rules=R1
//@extra
    // abstract reading of an update object: is it a no-op, does it fit M, and the new (unscaled) value for slot k
    spec fn is_noop(&self, M: CscMatrix<F>) -> bool;
    spec fn fits(&self, M: CscMatrix<F>) -> bool;
    spec fn new_value(&self, k: int) -> F;
//@sig update_matrix
ret=res
    requires matrix_ok(*old(M), lscale@, rscale@),
    ensures
        final(M).same_pattern(old(M)),
        // C08: empty updates are no-ops
        self.is_noop(*old(M)) ==> res is Ok && final(M).nzval@ == old(M).nzval@,
        // C08: rejected whole-vector / matrix updates leave the data untouched
        !self.is_noop(*old(M)) && !self.fits(*old(M)) ==> res is Err && final(M).nzval@ == old(M).nzval@,
        // C08: an accepted update stores  lscale[row] * rscale[col] * (c) * value  in every slot
        !self.is_noop(*old(M)) && self.fits(*old(M)) ==> res is Ok && forall|k: int, j: int| #[trigger] old(M).in_col(k, j) ==>
            final(M).nzval@[k] == scaled_entry(self.new_value(k), lscale@[old(M).rowval@[k] as int], rscale@[j], cscale),
//@end
//@trait file=src/solver/implementations/default/data_updating.rs name=VectorProblemDataUpdate header="pub trait VectorProblemDataUpdate<T>" rules=R1
//@extra
    spec fn is_noop(&self) -> bool;
    spec fn fits(&self, n: nat) -> bool;
    spec fn new_value(&self, k: int) -> F;
//@sig update_vector
ret=res
    requires vscale@.len() == old(v)@.len(),
    ensures
        final(v)@.len() == old(v)@.len(),
        self.is_noop() ==> res is Ok && final(v)@ == old(v)@,
        !self.is_noop() && !self.fits(old(v)@.len()) ==> res is Err && final(v)@ == old(v)@,
        !self.is_noop() && self.fits(old(v)@.len()) ==> res is Ok && forall|k: int| 0 <= k < old(v)@.len() ==>
            #[trigger] final(v)@[k] == scaled_elem(self.new_value(k), vscale@[k], cscale),
//@end

//@struct file=src/solver/implementations/default/equilibration.rs name=DefaultEquilibrationData
//@enum file=src/solver/core/cones/supportedcone.rs name=SupportedConeT rules=R12
//@struct file=src/solver/implementations/default/presolver.rs name=PresolverRowReductionIndex
//@struct file=src/solver/implementations/default/presolver.rs name=Presolver keep=_init_cones,reduce_map,mfull,mreduced,infbound
pub struct DefaultVariables<T> { pub _p: Option<T> }
pub struct DefaultResiduals<T> { pub _p: Option<T> }
pub struct CompositeCone<T> { pub _p: Option<T> }
pub struct DefaultInfo<T> { pub _p: Option<T> }
pub struct DefaultSolution<T> { pub _p: Option<T> }
//@struct file=src/solver/implementations/default/settings.rs name=DefaultSettings rules=R1f
pub struct Timers { pub _p: u8 }
pub struct DefaultKKTSystem<T> { pub kkt_P: Ghost<Seq<T>>, pub kkt_A: Ghost<Seq<T>> }
//@struct file=src/solver/implementations/default/problemdata.rs name=DefaultProblemData keep=P,q,A,b,cones,n,m,equilibration,normq,normb,presolver
//@struct file=src/solver/core/solver.rs name=Solver
//@type file=src/solver/implementations/default/solver.rs name=DefaultSolver
pub open spec fn only_P_changed(a: DefaultSolver<F>, b: DefaultSolver<F>) -> bool {
    a.data == (DefaultProblemData::<F> { P: a.data.P, ..b.data }) && a.variables == b.variables && a.settings == b.settings
}
pub open spec fn only_A_changed(a: DefaultSolver<F>, b: DefaultSolver<F>) -> bool {
    a.data == (DefaultProblemData::<F> { A: a.data.A, ..b.data }) && a.variables == b.variables && a.settings == b.settings
}
impl DefaultProblemData<F> {
//@fn file=src/solver/implementations/default/problemdata.rs in="impl<T> DefaultProblemData<T>" name=is_presolved rules=R1 ret=r
//@contract
    ensures r == (self.presolver is Some)
//@end
//@fn file=src/solver/implementations/default/problemdata.rs in="impl<T> DefaultProblemData<T>" name=clear_normq rules=R1
//@contract
    ensures *final(self) == (DefaultProblemData::<F> { normq: None, ..*old(self) }),
//@end
//@fn file=src/solver/implementations/default/problemdata.rs in="impl<T> DefaultProblemData<T>" name=clear_normb rules=R1
//@contract
    ensures *final(self) == (DefaultProblemData::<F> { normb: None, ..*old(self) }),
//@end
}

// stand-in for DefaultKKTSystem (as in unit data_update): the ghost fields abstract "the copies of P / A values held inside the KKT
// matrix"; update_P / update_A refresh them (PROVED through every wrapper down to the LDL engine in unit kkt_solve)
impl DefaultKKTSystem<F> {
    #[verifier::external_body]
    pub fn update_P(&mut self, P: &CscMatrix<F>) ensures final(self).kkt_P@ == P.nzval@, final(self).kkt_A@ == old(self).kkt_A@ { unimplemented!() }
    #[verifier::external_body]
    pub fn update_A(&mut self, A: &CscMatrix<F>) ensures final(self).kkt_A@ == A.nzval@, final(self).kkt_P@ == old(self).kkt_P@ { unimplemented!() }
}
// FRAME (added here to the contracts of unit data_update, which are silent about the presolver and the other solver components):
// nothing but the named data field, the cached norm and the KKT system differs
pub open spec fn frame_P(a: DefaultSolver<F>, b: DefaultSolver<F>) -> bool {
    a == (DefaultSolver::<F> { data: DefaultProblemData::<F> { P: a.data.P, ..b.data }, kktsystem: a.kktsystem, ..b })
}
pub open spec fn frame_A(a: DefaultSolver<F>, b: DefaultSolver<F>) -> bool {
    a == (DefaultSolver::<F> { data: DefaultProblemData::<F> { A: a.data.A, ..b.data }, kktsystem: a.kktsystem, ..b })
}
pub open spec fn frame_q(a: DefaultSolver<F>, b: DefaultSolver<F>) -> bool {
    a == (DefaultSolver::<F> { data: DefaultProblemData::<F> { q: a.data.q, normq: a.data.normq, ..b.data }, ..b })
}
pub open spec fn frame_b(a: DefaultSolver<F>, b: DefaultSolver<F>) -> bool {
    a == (DefaultSolver::<F> { data: DefaultProblemData::<F> { b: a.data.b, normb: a.data.normb, ..b.data }, ..b })
}
impl DefaultSolver<F> {
//@fn file=src/solver/implementations/default/data_updating.rs in="impl<T> DefaultSolver<T>" name=check_data_update_allowed rules=R1,R12 ret=r
//@contract
    ensures
        // C08: "Rejected updates (... presolve ... active) return an error"
        r is Ok <==> self.data.presolver is None,
        r matches Err(e) ==> e == DataUpdateError::PresolveIsActive,
//@end
//@fn file=src/solver/implementations/default/data_updating.rs in="impl<T> DefaultSolver<T>" name=is_data_update_allowed rules=R1 ret=r
//@contract
    ensures r == (self.data.presolver is None)
//@end
//@fn file=src/solver/implementations/default/data_updating.rs in="impl<T> DefaultSolver<T>" name=update_P rules=R1 ret=res
//@contract
    requires matrix_ok(old(self).data.P, old(self).data.equilibration.d@, old(self).data.equilibration.d@),
    ensures
        frame_P(*final(self), *old(self)),
        old(self).data.presolver is Some ==> res is Err && *final(self) == *old(self),
        old(self).data.presolver is None ==> {
            let d = old(self).data.equilibration.d@; let c = old(self).data.equilibration.c; let P0 = old(self).data.P;
            &&& only_P_changed(*final(self), *old(self)) && final(self).data.P.same_pattern(&P0)
            &&& (res is Ok <==> (data.is_noop(P0) || data.fits(P0)))
            &&& (res is Err ==> final(self).data.P.nzval@ == P0.nzval@ && final(self).kktsystem == old(self).kktsystem)
            &&& (data.is_noop(P0) ==> final(self).data.P.nzval@ == P0.nzval@)
            // C08: internal P = c * D * P_new * D, entry for entry, and the KKT copy is refreshed from it
            &&& (!data.is_noop(P0) && data.fits(P0) ==> forall|k: int, j: int| #[trigger] P0.in_col(k, j) ==>
                    final(self).data.P.nzval@[k] == scaled_entry(data.new_value(k), d[P0.rowval@[k] as int], d[j], Some(c)))
            &&& (res is Ok ==> final(self).kktsystem.kkt_P@ == final(self).data.P.nzval@ && final(self).kktsystem.kkt_A@ == old(self).kktsystem.kkt_A@)
        },
//@end
//@fn file=src/solver/implementations/default/data_updating.rs in="impl<T> DefaultSolver<T>" name=update_A rules=R1 ret=res
//@contract
    requires matrix_ok(old(self).data.A, old(self).data.equilibration.e@, old(self).data.equilibration.d@),
    ensures
        frame_A(*final(self), *old(self)),
        old(self).data.presolver is Some ==> res is Err && *final(self) == *old(self),
        old(self).data.presolver is None ==> {
            let d = old(self).data.equilibration.d@; let e = old(self).data.equilibration.e@; let A0 = old(self).data.A;
            &&& only_A_changed(*final(self), *old(self)) && final(self).data.A.same_pattern(&A0)
            &&& (res is Ok <==> (data.is_noop(A0) || data.fits(A0)))
            &&& (res is Err ==> final(self).data.A.nzval@ == A0.nzval@ && final(self).kktsystem == old(self).kktsystem)
            &&& (data.is_noop(A0) ==> final(self).data.A.nzval@ == A0.nzval@)
            // C08: internal A = E * A_new * D, entry for entry (no objective scaling), KKT copy refreshed
            &&& (!data.is_noop(A0) && data.fits(A0) ==> forall|k: int, j: int| #[trigger] A0.in_col(k, j) ==>
                    final(self).data.A.nzval@[k] == scaled_entry(data.new_value(k), e[A0.rowval@[k] as int], d[j], None))
            &&& (res is Ok ==> final(self).kktsystem.kkt_A@ == final(self).data.A.nzval@ && final(self).kktsystem.kkt_P@ == old(self).kktsystem.kkt_P@)
        },
//@end
//@fn file=src/solver/implementations/default/data_updating.rs in="impl<T> DefaultSolver<T>" name=update_q rules=R1 ret=res
//@contract
    requires old(self).data.equilibration.d@.len() == old(self).data.q@.len(),
    ensures
        frame_q(*final(self), *old(self)),
        old(self).data.presolver is Some ==> res is Err && *final(self) == *old(self),
        old(self).data.presolver is None ==> {
            let d = old(self).data.equilibration.d@; let c = old(self).data.equilibration.c; let q0 = old(self).data.q@;
            &&& final(self).kktsystem == old(self).kktsystem && final(self).data.P == old(self).data.P && final(self).data.A == old(self).data.A
            &&& final(self).data.b == old(self).data.b && final(self).data.equilibration == old(self).data.equilibration && final(self).data.normb == old(self).data.normb
            &&& final(self).data.q@.len() == q0.len()
            &&& (res is Ok <==> (data.is_noop() || data.fits(q0.len())))
            &&& (res is Err ==> final(self).data.q@ == q0 && final(self).data.normq == old(self).data.normq)
            &&& (data.is_noop() ==> final(self).data.q@ == q0)
            // C08: internal q = c * D * q_new; the cached unscaled norm is invalidated so the next solve recomputes it
            &&& (!data.is_noop() && data.fits(q0.len()) ==> forall|k: int| 0 <= k < q0.len() ==>
                    #[trigger] final(self).data.q@[k] == scaled_elem(data.new_value(k), d[k], Some(c)))
            &&& (res is Ok ==> final(self).data.normq is None)
        },
//@end
//@fn file=src/solver/implementations/default/data_updating.rs in="impl<T> DefaultSolver<T>" name=update_b rules=R1 ret=res
//@contract
    requires old(self).data.equilibration.e@.len() == old(self).data.b@.len(),
    ensures
        frame_b(*final(self), *old(self)),
        old(self).data.presolver is Some ==> res is Err && *final(self) == *old(self),
        old(self).data.presolver is None ==> {
            let e = old(self).data.equilibration.e@; let b0 = old(self).data.b@;
            &&& final(self).kktsystem == old(self).kktsystem && final(self).data.P == old(self).data.P && final(self).data.A == old(self).data.A
            &&& final(self).data.q == old(self).data.q && final(self).data.equilibration == old(self).data.equilibration && final(self).data.normq == old(self).data.normq
            &&& final(self).data.b@.len() == b0.len()
            &&& (res is Ok <==> (data.is_noop() || data.fits(b0.len())))
            &&& (res is Err ==> final(self).data.b@ == b0 && final(self).data.normb == old(self).data.normb)
            &&& (data.is_noop() ==> final(self).data.b@ == b0)
            // C08: internal b = E * b_new; cached norm invalidated
            &&& (!data.is_noop() && data.fits(b0.len()) ==> forall|k: int| 0 <= k < b0.len() ==>
                    #[trigger] final(self).data.b@[k] == scaled_elem(data.new_value(k), e[k], None))
            &&& (res is Ok ==> final(self).data.normb is None)
        },
//@end

//@fn file=src/solver/implementations/default/data_updating.rs in="impl<T> DefaultSolver<T>" name=update_data rules=R1 ret=res
//@contract
    requires
        matrix_ok(old(self).data.P, old(self).data.equilibration.d@, old(self).data.equilibration.d@),
        matrix_ok(old(self).data.A, old(self).data.equilibration.e@, old(self).data.equilibration.d@),
        old(self).data.equilibration.d@.len() == old(self).data.q@.len(),
        old(self).data.equilibration.e@.len() == old(self).data.b@.len(),
    ensures
        // C08: "Rejected updates (... presolve ... active) return an error" and change nothing
        old(self).data.presolver is Some ==> res is Err && *final(self) == *old(self),
        old(self).data.presolver is None ==> {
            let d = old(self).data.equilibration.d@; let e = old(self).data.equilibration.e@; let c = old(self).data.equilibration.c;
            let P0 = old(self).data.P; let A0 = old(self).data.A; let q0 = old(self).data.q@; let b0 = old(self).data.b@;
            let okP = P.is_noop(P0) || P.fits(P0); let okq = q.is_noop() || q.fits(q0.len());
            let okA = A.is_noop(A0) || A.fits(A0); let okb = b.is_noop() || b.fits(b0.len());
            // accepted iff each of the four parts is accepted
            &&& (res is Ok <==> (okP && okq && okA && okb))
            // shapes, scalings, variables, settings: never touched
            &&& final(self).data.P.same_pattern(&P0) && final(self).data.A.same_pattern(&A0)
            &&& final(self).data.q@.len() == q0.len() && final(self).data.b@.len() == b0.len()
            &&& final(self).data.equilibration == old(self).data.equilibration && final(self).data.presolver is None
            &&& final(self).variables == old(self).variables && final(self).settings == old(self).settings
            // the parts are applied in the order P, q, A, b and the first rejected part stops the update: a part is written
            // iff it and every part before it is accepted (so an error can leave the earlier parts updated: observation O1)
            &&& (okP && !P.is_noop(P0) ==> forall|k: int, j: int| #[trigger] P0.in_col(k, j) ==>
                    final(self).data.P.nzval@[k] == scaled_entry(P.new_value(k), d[P0.rowval@[k] as int], d[j], Some(c)))
            &&& (!okP || P.is_noop(P0) ==> final(self).data.P.nzval@ == P0.nzval@)
            &&& (okP && okq && !q.is_noop() ==> forall|k: int| 0 <= k < q0.len() ==>
                    #[trigger] final(self).data.q@[k] == scaled_elem(q.new_value(k), d[k], Some(c)))
            &&& (!(okP && okq) || q.is_noop() ==> final(self).data.q@ == q0)
            &&& (okP && okq && okA && !A.is_noop(A0) ==> forall|k: int, j: int| #[trigger] A0.in_col(k, j) ==>
                    final(self).data.A.nzval@[k] == scaled_entry(A.new_value(k), e[A0.rowval@[k] as int], d[j], None))
            &&& (!(okP && okq && okA) || A.is_noop(A0) ==> final(self).data.A.nzval@ == A0.nzval@)
            &&& (okP && okq && okA && okb && !b.is_noop() ==> forall|k: int| 0 <= k < b0.len() ==>
                    #[trigger] final(self).data.b@[k] == scaled_elem(b.new_value(k), e[k], None))
            &&& (!(okP && okq && okA && okb) || b.is_noop() ==> final(self).data.b@ == b0)
            // the cached norms are invalidated exactly for the vectors that were processed; the KKT copies follow P and A
            &&& (okP && okq ==> final(self).data.normq is None) && (!(okP && okq) ==> final(self).data.normq == old(self).data.normq)
            &&& (res is Ok ==> final(self).data.normb is None) && (res is Err ==> final(self).data.normb == old(self).data.normb)
            &&& (okP ==> final(self).kktsystem.kkt_P@ == final(self).data.P.nzval@) && (!okP ==> final(self).kktsystem == old(self).kktsystem)
            &&& (okP && okq && okA ==> final(self).kktsystem.kkt_A@ == final(self).data.A.nzval@)
            &&& (!(okP && okq && okA) ==> final(self).kktsystem.kkt_A@ == old(self).kktsystem.kkt_A@)
        },
//@end
}


// ================================================================== item 5: Presolver::presolve / reduce_A_b  (C09)
// vocabulary: text of units postprocess (cones, dropped rows), csc_core (row selection), vecmath_more (element selection)
pub open spec fn nvars_spec(c: SupportedConeT<F>) -> nat {
    match c {
        SupportedConeT::ZeroConeT(d) => d as nat,
        SupportedConeT::NonnegativeConeT(d) => d as nat,
        SupportedConeT::SecondOrderConeT(d) => d as nat,
        SupportedConeT::ExponentialConeT() => 3,
        SupportedConeT::PowerConeT(_) => 3,
        SupportedConeT::GenPowerConeT(a, d2) => a@.len() + d2 as nat,
    }
}
pub open spec fn cone_start(cones: Seq<SupportedConeT<F>>, k: int) -> nat
    decreases k,
{
    if k <= 0 { 0 } else { cone_start(cones, k - 1) + nvars_spec(cones[k - 1]) }
}
pub open spec fn total_nvars(cones: Seq<SupportedConeT<F>>) -> nat { cone_start(cones, cones.len() as int) }
pub open spec fn is_nn(c: SupportedConeT<F>) -> bool { c is NonnegativeConeT }
pub open spec fn row_in_nn(cones: Seq<SupportedConeT<F>>, i: int) -> bool {
    exists|k: int| 0 <= k < cones.len() && is_nn(#[trigger] cones[k]) && cone_start(cones, k) <= i < cone_start(cones, k + 1)
}
pub open spec fn thr(infbound: F) -> F {
    f_mul(f_sub(f_one(), f_mul(f_eps(), f_lit(10.))), infbound)
}
pub open spec fn dropped(cones: Seq<SupportedConeT<F>>, b: Seq<F>, infbound: F, i: int) -> bool {
    row_in_nn(cones, i) && f_lt(thr(infbound), b[i])
}
pub open spec fn count_true(s: Seq<bool>, n: int) -> int
    decreases n,
{
    if n <= 0 { 0 } else { count_true(s, n - 1) + (if s[n - 1] { 1int } else { 0int }) }
}
pub open spec fn reduction_ok(cones: Seq<SupportedConeT<F>>, b: Seq<F>, infbound: F, map: Option<PresolverRowReductionIndex>, mreduced: usize) -> bool {
    &&& mreduced <= b.len()
    &&& (map is None <==> (forall|i: int| 0 <= i < b.len() ==> !dropped(cones, b, infbound, i)))
    &&& (map is None ==> mreduced == b.len())
    &&& (map matches Some(m) ==> m.keep_logical@.len() == b.len()
            && (forall|i: int| 0 <= i < b.len() ==> #[trigger] m.keep_logical@[i] == !dropped(cones, b, infbound, i))
            && mreduced == count_true(m.keep_logical@, b.len() as int))
}
pub open spec fn colptr_wf(A: CscMatrix<F>) -> bool {
    &&& A.colptr@.len() == A.n + 1
    &&& A.colptr@[0] == 0
    &&& A.rowval@.len() == A.nzval@.len()
    &&& A.colptr@[A.n as int] == A.nzval@.len()
    &&& forall|a: int, b: int| 0 <= a <= b <= A.n ==> A.colptr@[a] <= A.colptr@[b]
}
pub open spec fn rows_in_range(A: CscMatrix<F>) -> bool { forall|k: int| 0 <= k < A.rowval@.len() ==> #[trigger] A.rowval@[k] < A.m }
// number of selected rows before row r (= count_true; the name used by unit csc_core)
pub open spec fn rank(sel: Seq<bool>, r: int) -> int decreases r { if r <= 0 { 0 } else { rank(sel, r - 1) + (if sel[r - 1] { 1int } else { 0int }) } }
// number of stored entries among the first k that lie in a selected row = the slot entry k moves to
pub open spec fn keptp(rv: Seq<usize>, sel: Seq<bool>, k: int) -> int decreases k { if k <= 0 { 0 } else { keptp(rv, sel, k - 1) + (if sel[rv[k - 1] as int] { 1int } else { 0int }) } }
// the selected elements of a, in order
pub open spec fn sel(a: Seq<F>, idx: Seq<bool>, k: int) -> Seq<F> decreases k {
    if k <= 0 { Seq::<F>::empty() } else if idx[k - 1] { sel(a, idx, k - 1).push(a[k - 1]) } else { sel(a, idx, k - 1) } }
pub proof fn lemma_rank_is_count(s: Seq<bool>, n: int) ensures rank(s, n) == count_true(s, n) decreases n { if n > 0 { lemma_rank_is_count(s, n - 1); } }
pub proof fn lemma_sel_len(a: Seq<F>, idx: Seq<bool>, k: int) ensures sel(a, idx, k).len() == rank(idx, k) decreases k { if k > 0 { lemma_sel_len(a, idx, k - 1); } }
// A_new = select_rows(A, keep): the clauses of unit csc_core, as one predicate
pub open spec fn rows_selected(A: CscMatrix<F>, keep: Seq<bool>, r: CscMatrix<F>) -> bool {
    &&& r.m == rank(keep, A.m as int) && r.n == A.n && colptr_wf(r)
    &&& forall|c: int| 0 <= c <= A.n ==> #[trigger] r.colptr@[c] == keptp(A.rowval@, keep, A.colptr@[c] as int)
    &&& r.nzval@.len() == keptp(A.rowval@, keep, A.rowval@.len() as int) && r.rowval@.len() == r.nzval@.len()
    &&& forall|k: int| 0 <= k < A.rowval@.len() && keep[A.rowval@[k] as int] ==> r.nzval@[keptp(A.rowval@, keep, k)] == #[trigger] A.nzval@[k]
    &&& forall|k: int| 0 <= k < A.rowval@.len() && keep[#[trigger] A.rowval@[k] as int] ==> r.rowval@[keptp(A.rowval@, keep, k)] == rank(keep, A.rowval@[k] as int)
}
impl CscMatrix<F> {
    // select_rows -- PROVED in unit csc_core (contract text copied)
    #[verifier::external_body]
    pub fn select_rows(&self, rowidx: &[bool]) -> (r: Self)
        requires colptr_wf(*self), rows_in_range(*self), rowidx@.len() == self.m, self.n < usize::MAX,
        ensures rows_selected(*self, rowidx@, r),
    { unimplemented!() }
}
// select -- PROVED in unit vecmath_more (contract text copied)
pub trait VectorSelect {
    spec fn vw(&self) -> Seq<F>;
    fn select(&self, index: &[bool]) -> (r: Vec<F>)
        requires self.vw().len() == index@.len(),
        ensures r@ == sel(self.vw(), index@, self.vw().len() as int);
}
impl VectorSelect for [F] {
    open spec fn vw(&self) -> Seq<F> { self@ }
    #[verifier::external_body]
    fn select(&self, index: &[bool]) -> (r: Vec<F>) { unimplemented!() }
}
impl Presolver<F> {
    // reduce_cones -- ASSUMED, proved NOWHERE (stateful iterator adaptors: by_ref().take(n), filter().count(), last()); a bounded Kani
    // harness covers it on one shape.  Stated: the reduced cones account for exactly the kept rows.
    #[verifier::external_body]
    pub fn reduce_cones(&self, cones: &[SupportedConeT<F>]) -> (r: Vec<SupportedConeT<F>>)
        requires self.reduce_map is Some, self.reduce_map->Some_0.keep_logical@.len() == total_nvars(cones@),
        ensures total_nvars(r@) == count_true(self.reduce_map->Some_0.keep_logical@, total_nvars(cones@) as int),
    { unimplemented!() }
//@fn file=src/solver/implementations/default/presolver.rs in="impl<T> Presolver<T>" name=reduce_A_b rules=R1 ret=r
//@contract
    requires
        // `assert!(self.reduce_map.is_some())`: only called on a presolver that has something to drop
        self.reduce_map is Some,
        self.reduce_map->Some_0.keep_logical@.len() == A.m, b@.len() == A.m,
        colptr_wf(*A), rows_in_range(*A), A.n < usize::MAX,
    ensures
        // C09: the reduced A holds exactly the kept rows (renumbered by rank, entries in order with their values), the reduced b
        // exactly the kept entries in order -- BOTH under the same mask, the presolver's keep_logical
        rows_selected(*A, self.reduce_map->Some_0.keep_logical@, r.0),
        r.1@ == sel(b@, self.reduce_map->Some_0.keep_logical@, b@.len() as int),
        // hence A_new has as many rows as b_new has entries: the number of kept rows
        r.0.m == r.1@.len(), r.1@.len() == count_true(self.reduce_map->Some_0.keep_logical@, A.m as int),
//@post
        proof {
            lemma_sel_len(b@, self.reduce_map->Some_0.keep_logical@, b@.len() as int);
            lemma_rank_is_count(self.reduce_map->Some_0.keep_logical@, A.m as int);
        }
//@end
//@fn file=src/solver/implementations/default/presolver.rs in="impl<T> Presolver<T>" name=presolve rules=R1 ret=r
//@contract
    requires
        self.reduce_map is Some,
        self.reduce_map->Some_0.keep_logical@.len() == A.m, b@.len() == A.m, total_nvars(cones@) == A.m,
        colptr_wf(*A), rows_in_range(*A), A.n < usize::MAX,
    ensures
        rows_selected(*A, self.reduce_map->Some_0.keep_logical@, r.0),
        r.1@ == sel(b@, self.reduce_map->Some_0.keep_logical@, b@.len() as int),
        // the reduced problem is dimensionally consistent: rows of A = entries of b = rows claimed by the reduced cones = kept rows
        r.0.m == r.1@.len(), r.1@.len() == total_nvars(r.2@), r.0.n == A.n,
        r.0.m == count_true(self.reduce_map->Some_0.keep_logical@, A.m as int),
//@end
}

// ================================================================== item 6: src/solver/implementations/default/problemdata.rs
// module-level infinity bound (src/utils/infbounds.rs: an AtomicF64 behind lazy_static!, outside Verus); ASSUMED as in units
// postprocess / problemdata_new: one uninterpreted value for the duration of a constructor call
pub uninterp spec fn infinity_in_force() -> f64;
#[verifier::external_body]
pub fn get_infinity() -> (r: f64) ensures r == infinity_in_force() { unimplemented!() }
impl Presolver<F> {
    // Presolver::new, is_reduced -- PROVED in unit postprocess (contract text copied)
    #[verifier::external_body]
    pub fn new(_A: &CscMatrix<F>, b: &[F], cones: &[SupportedConeT<F>], _settings: &DefaultSettings<F>) -> (r: Self)
        requires cone_start(cones@, cones@.len() as int) == b@.len(),
        ensures
            r.infbound == infinity_in_force(),
            r.mfull == b@.len(),
            reduction_ok(cones@, b@, f_lit(infinity_in_force()), r.reduce_map, r.mreduced),
    { unimplemented!() }
    #[verifier::external_body]
    pub fn is_reduced(&self) -> (r: bool)
        ensures r == (self.reduce_map is Some)
    { unimplemented!() }
}
//@fn file=src/solver/implementations/default/problemdata.rs name=try_presolver rules=R1 ret=r
//@contract
    requires total_nvars(cones@) == b@.len(),
    ensures
        // a presolver is returned iff presolve is enabled AND some row is reducible (sits in a nonnegative cone with a
        // right-hand side above the contracted bound in force)
        r is Some <==> (settings.presolve_enable && exists|i: int| 0 <= i < b@.len() && dropped(cones@, b@, f_lit(infinity_in_force()), i)),
        // and then it is what Presolver::new builds for (cones, b): the keep mask marks exactly the rows that are not dropped
        r matches Some(p) ==> p.reduce_map is Some && p.infbound == infinity_in_force() && p.mfull == b@.len()
            && reduction_ok(cones@, b@, f_lit(infinity_in_force()), p.reduce_map, p.mreduced),
//@end
// (behind #[cfg(feature = "sdp")]: NOT part of the default build; extracted all the same -- its only caller is the chordal block of `new`)
// (the source names the closure type `F`: the float parameter T is therefore renamed to the alias Fl instead of F, rule tparam:T>Fl)
pub type Fl = F;
//@fn file=src/solver/implementations/default/problemdata.rs name=unwrap_and_slice_or_else rules=tparam:T>Fl ret=r
//@contract
    requires opt is None ==> f.requires(()),
    ensures
        // the vector's contents when there is one, otherwise whatever the alternative yields (which is then the only thing evaluated)
        opt matches Some(v) ==> r@ == v@,
        opt is None ==> f.ensures((), r),
//@end
impl DefaultProblemData<F> {
// (feature sdp is off in the default build: R12 leaves `false`, as rustc does)
//@fn file=src/solver/implementations/default/problemdata.rs in="impl<T> DefaultProblemData<T>" name=is_chordal_decomposed rules=R1,R12 ret=r
//@contract
    ensures !r,
//@end
}


// ---- DefaultProblemData::new as two statement slices (DESIGN 10.1).  NOT covered: the first statement (`SupportedConeT::new_collapsed`:
// peekable iterator, nested fn) and the chordal block (feature sdp, off in the default build: R12 drops it as rustc does).  The seam
// between the two slices is by name: the locals P_new, q_new, A_new, b_new, cones_new, presolver, cones that the first slice leaves
// behind are the parameters of the second.
pub open spec fn upper_triangular(A: CscMatrix<F>) -> bool { forall|c: int, k: int| #[trigger] A.in_col(k, c) ==> A.rowval@[k] <= c }
// NAME for the postcondition of to_triu PROVED in unit csc_core (to_triu_post: column c of the result = the entries of column c on or above the diagonal)
pub uninterp spec fn triu_of(A: CscMatrix<F>, R: CscMatrix<F>) -> bool;
impl CscMatrix<F> {
    // is_triu, to_triu -- PROVED in unit csc_core (contract text copied; to_triu_post abbreviated by its name, dimensions spelled out)
    #[verifier::external_body]
    pub fn is_triu(&self) -> (r: bool)
        requires colptr_wf(*self),
        ensures r == upper_triangular(*self),
    { unimplemented!() }
    #[verifier::external_body]
    pub fn to_triu(&self) -> (r: Self)
        requires colptr_wf(*self), self.m == self.n, self.n < usize::MAX,
        ensures triu_of(*self, r), r.m == self.m, r.n == self.n, colptr_wf(r),
    { unimplemented!() }
}
// what the presolve phase leaves behind
pub open spec fn presolve_phase_post(P: CscMatrix<F>, A: CscMatrix<F>, b: Seq<F>, cones: Seq<SupportedConeT<F>>, enabled: bool,
    P_new: Option<CscMatrix<F>>, q_new: Option<Vec<F>>, A_new: Option<CscMatrix<F>>, b_new: Option<Vec<F>>, cones_new: Option<Vec<SupportedConeT<F>>>,
    presolver: Option<Presolver<F>>) -> bool
{
    let inf = f_lit(infinity_in_force());
    // a triangular copy of P is made iff P is not upper triangular already; q is never copied here
    &&& (P_new is Some <==> !upper_triangular(P)) && (P_new matches Some(pt) ==> triu_of(P, pt) && pt.m == P.m && pt.n == P.n)
    &&& q_new is None
    // "None when presolve is disabled or nothing is reducible"
    &&& (presolver is Some <==> (enabled && exists|i: int| 0 <= i < b.len() && dropped(cones, b, inf, i)))
    // without a presolver nothing is reduced ...
    &&& (presolver is None ==> A_new is None && b_new is None && cones_new is None)
    // ... with one, A, b and the cones are reduced under ITS keep mask, which marks exactly the rows that are not dropped
    &&& (presolver matches Some(p) ==> p.reduce_map is Some && reduction_ok(cones, b, inf, p.reduce_map, p.mreduced)
            && A_new is Some && b_new is Some && cones_new is Some
            && rows_selected(A, p.reduce_map->Some_0.keep_logical@, A_new->Some_0)
            && b_new->Some_0@ == sel(b, p.reduce_map->Some_0.keep_logical@, b.len() as int)
            && A_new->Some_0.m == b_new->Some_0@.len() && b_new->Some_0@.len() == total_nvars(cones_new->Some_0@)
            && A_new->Some_0.m == p.mreduced)
}
//@fn file=src/solver/implementations/default/problemdata.rs in="impl<T> DefaultProblemData<T>" name=new as=new_presolve_phase rules=R1,R12 from="let mut P_new: Option<CscMatrix<T>> = None;" to="if let Some(ref presolver) = presolver" header="fn new_presolve_phase<T: FloatT>(P: &CscMatrix<T>, A: &CscMatrix<T>, b: &[T], cones: Vec<SupportedConeT<T>>, settings: &DefaultSettings<T>)"
//@contract
    requires
        // consistent dimensions (established by _check_dimensions; new_collapsed keeps the row total) and well-formed matrices
        b@.len() == A.m, total_nvars(cones@) == A.m, P.m == P.n,
        colptr_wf(*P), colptr_wf(*A), rows_in_range(*A), A.n < usize::MAX, P.n < usize::MAX,
//@after "if let Some(ref presolver) = presolver"
        proof {
            assert(presolve_phase_post(*P, *A, b@, cones@, settings.presolve_enable, P_new, q_new, A_new, b_new, cones_new, presolver));
        }
//@end

} // verus!
fn main() {}
