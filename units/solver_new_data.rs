// unit `solver_new_data` : companions of unit `solver_new` -- the all-in-one data update (C08), the presolve reduction of A and b (C09)
// and the presolve / copy logic of DefaultProblemData::new (C04, C09).  float model: F-opaque.
//
// PROVED from the real text (extracted, never retyped):
//   data_updating.rs:  update_data -- the parts are applied in the order P, q, A, b and the first rejected part stops the update: a part is
//     written iff it and every part before it is accepted; Ok iff all four are; presolver active => Err and NOTHING changes; shapes, scalings,
//     variables, settings, presolver never change; norm caches / KKT copies follow exactly the parts processed.
//     update_P / update_q / update_A / update_b, check_data_update_allowed, is_data_update_allowed, is_presolved, clear_normq / clear_normb:
//     SECOND extraction with the contracts of unit data_update PLUS a full frame (frame_P / frame_q / frame_A / frame_b: every other field of
//     the solver is unchanged) -- the contracts there are silent about `presolver`, without which the four calls do not compose.
//   presolver.rs:  reduce_A_b (A_new = select_rows(A, keep), b_new = select(b, keep), BOTH under the presolver's mask; rows of A_new =
//     entries of b_new = number of kept rows), presolve (+ the reduced cones claim exactly those rows, given the ASSUMED reduce_cones).
//   problemdata.rs:  try_presolver (Some <=> presolve_enable and some row is reducible; then it is what Presolver::new builds),
//     is_chordal_decomposed (false in the default build), unwrap_and_slice_or_else (feature sdp; rule tparam:T>Fl because the source
//     calls its closure type `F`), CscMatrix::size, and DefaultProblemData::new as TWO statement slices:
//       new_presolve_phase  `let mut P_new ..` through the presolve `if let`   (rules R1, R12, tupassign [new, additive: destructuring
//                           assignment of a tuple literal to plain names -> one assignment per component])  ==> presolve_phase_post
//       new_copy_phase      `let P_new = P_new.unwrap_or_else(..)` through the struct literal (new directive //@closure0 k for `|| ..`)
//                           ==> copy_phase_post: presolved / triangularised data where produced, copies of the user's otherwise; b capped
//                           at the bound in force; (m, n) = the sizes of the A that is STORED; identity scalings of those sizes; the
//                           presolver and the norms of the stored vectors
//     lemma_new_dimensions: both posts + consistent user dimensions ==> the dimension clauses that unit solver_new assumes of
//     DefaultProblemData::new (n = A.n, m <= A.m, m = rows claimed by the internal cones, P n x n, A m x n, q: n, b: m, the presolver
//     mask has the user's m entries with m_internal true, b is the capped selection).
// ASSUMED:  proved elsewhere, contract text copied: select_rows, is_triu, to_triu (csc_core; to_triu's postcondition by NAME triu_of),
//   select (vecmath_more), Presolver::new / is_reduced (postprocess), DefaultEquilibrationData::new (variables), scalarop / norm_inf
//   (prelude/vecmath_assumed.rs, unit vecmath), the two update traits' method contracts (every impl checked in data_update),
//   DefaultKKTSystem::update_P / update_A (ghost copies; kkt_solve).
//   NOT PROVED ANYWHERE: reduce_cones (stateful iterator adaptors; bounded Kani harness only): the reduced cones claim exactly the kept
//   rows; new_collapsed keeps the row total (premise of lemma_new_dimensions); get_infinity (module-level atomic); <[T]>::to_vec;
//   derive(Clone) on CscMatrix written out (body verified); thiserror's From<SparseFormatError>.
// DROPPED: first statement of DefaultProblemData::new (new_collapsed), the chordal block (feature sdp), reduce_cones' body,
//   try_chordal_info (feature sdp).   OBSERVATION O2: update_data can fail half-way and leave P (and q, A) already updated.
use vstd::prelude::*;
verus! {
//@include prelude/float_opaque.rs
//@include prelude/vecmath_assumed.rs
//@include prelude/std_assumed.rs
//@include units/inc/csc_scalings.rs
//@enum file=src/algebra/error_types.rs name=SparseFormatError rules=R12 derive="PartialEq, Eq, Clone, Copy, Structural"
//@enum file=src/solver/implementations/default/data_updating.rs name=DataUpdateError rules=R12
// #[from] on DataUpdateError::BadFormat (thiserror) expands to this conversion
impl vstd::std_specs::convert::FromSpecImpl<SparseFormatError> for DataUpdateError {
    open spec fn obeys_from_spec() -> bool { true }
    open spec fn from_spec(e: SparseFormatError) -> DataUpdateError { DataUpdateError::BadFormat(e) }
}
impl From<SparseFormatError> for DataUpdateError {
    fn from(e: SparseFormatError) -> (r: DataUpdateError) { DataUpdateError::BadFormat(e) }
}

// ================================================================== item 4: DefaultSolver::update_data
// vocabulary and stand-ins: the text of unit data_update (where update_P / update_q / update_A / update_b are PROVED)
pub open spec fn scaled_entry(v: F, lr: F, rc: F, c: Option<F>) -> F {
    match c { Some(cc) => f_mul(f_mul(v, f_mul(lr, rc)), cc), None => f_mul(v, f_mul(lr, rc)) }
}
pub open spec fn scaled_elem(v: F, s: F, c: Option<F>) -> F {
    match c { Some(cc) => f_mul(f_mul(v, s), cc), None => f_mul(v, s) }
}
pub open spec fn matrix_ok(M: CscMatrix<F>, l: Seq<F>, r: Seq<F>) -> bool {
    M.colptr_ok() && r.len() == M.n && (forall|k: int| 0 <= k < M.rowval@.len() ==> M.rowval@[k] < l.len())
}
// the two update traits with the contracts of unit data_update (every implementation is checked against them there)
//@trait file=src/solver/implementations/default/data_updating.rs name=MatrixProblemDataUpdate header="pub trait MatrixProblemDataUpdate<T>" rules=R1
//@extra
    // abstract reading of an update object: is it a no-op, does it fit M, and the new (unscaled) value for slot k
    spec fn is_noop(&self, M: CscMatrix<F>) -> bool;
    spec fn fits(&self, M: CscMatrix<F>) -> bool;
    spec fn new_value(&self, k: int) -> F;
//@sig update_matrix
ret=res
    requires matrix_ok(*old(M), lscale@, rscale@),
    ensures
        final(M).same_pattern(old(M)),
        // C08: empty updates are no-ops
        self.is_noop(*old(M)) ==> res is Ok && final(M).nzval@ == old(M).nzval@,
        // C08: rejected whole-vector / matrix updates leave the data untouched
        !self.is_noop(*old(M)) && !self.fits(*old(M)) ==> res is Err && final(M).nzval@ == old(M).nzval@,
        // C08: an accepted update stores  lscale[row] * rscale[col] * (c) * value  in every slot
        !self.is_noop(*old(M)) && self.fits(*old(M)) ==> res is Ok && forall|k: int, j: int| #[trigger] old(M).in_col(k, j) ==>
            final(M).nzval@[k] == scaled_entry(self.new_value(k), lscale@[old(M).rowval@[k] as int], rscale@[j], cscale),
//@end
//@trait file=src/solver/implementations/default/data_updating.rs name=VectorProblemDataUpdate header="pub trait VectorProblemDataUpdate<T>" rules=R1
//@extra
    spec fn is_noop(&self) -> bool;
    spec fn fits(&self, n: nat) -> bool;
    spec fn new_value(&self, k: int) -> F;
//@sig update_vector
ret=res
    requires vscale@.len() == old(v)@.len(),
    ensures
        final(v)@.len() == old(v)@.len(),
        self.is_noop() ==> res is Ok && final(v)@ == old(v)@,
        !self.is_noop() && !self.fits(old(v)@.len()) ==> res is Err && final(v)@ == old(v)@,
        !self.is_noop() && self.fits(old(v)@.len()) ==> res is Ok && forall|k: int| 0 <= k < old(v)@.len() ==>
            #[trigger] final(v)@[k] == scaled_elem(self.new_value(k), vscale@[k], cscale),
//@end

//@struct file=src/solver/implementations/default/equilibration.rs name=DefaultEquilibrationData
//@enum file=src/solver/core/cones/supportedcone.rs name=SupportedConeT rules=R12
//@struct file=src/solver/implementations/default/presolver.rs name=PresolverRowReductionIndex
//@struct file=src/solver/implementations/default/presolver.rs name=Presolver keep=_init_cones,reduce_map,mfull,mreduced,infbound
pub struct DefaultVariables<T> { pub _p: Option<T> }
pub struct DefaultResiduals<T> { pub _p: Option<T> }
pub struct CompositeCone<T> { pub _p: Option<T> }
pub struct DefaultInfo<T> { pub _p: Option<T> }
pub struct DefaultSolution<T> { pub _p: Option<T> }
//@struct file=src/solver/implementations/default/settings.rs name=DefaultSettings rules=R1f
pub struct Timers { pub _p: u8 }
pub struct DefaultKKTSystem<T> { pub kkt_P: Ghost<Seq<T>>, pub kkt_A: Ghost<Seq<T>> }
//@struct file=src/solver/implementations/default/problemdata.rs name=DefaultProblemData keep=P,q,A,b,cones,n,m,equilibration,normq,normb,presolver
//@struct file=src/solver/core/solver.rs name=Solver
//@type file=src/solver/implementations/default/solver.rs name=DefaultSolver
pub open spec fn only_P_changed(a: DefaultSolver<F>, b: DefaultSolver<F>) -> bool {
    a.data == (DefaultProblemData::<F> { P: a.data.P, ..b.data }) && a.variables == b.variables && a.settings == b.settings
}
pub open spec fn only_A_changed(a: DefaultSolver<F>, b: DefaultSolver<F>) -> bool {
    a.data == (DefaultProblemData::<F> { A: a.data.A, ..b.data }) && a.variables == b.variables && a.settings == b.settings
}
impl DefaultProblemData<F> {
//@fn file=src/solver/implementations/default/problemdata.rs in="impl<T> DefaultProblemData<T>" name=is_presolved rules=R1 ret=r
//@contract
    ensures r == (self.presolver is Some)
//@end
//@fn file=src/solver/implementations/default/problemdata.rs in="impl<T> DefaultProblemData<T>" name=clear_normq rules=R1
//@contract
    ensures *final(self) == (DefaultProblemData::<F> { normq: None, ..*old(self) }),
//@end
//@fn file=src/solver/implementations/default/problemdata.rs in="impl<T> DefaultProblemData<T>" name=clear_normb rules=R1
//@contract
    ensures *final(self) == (DefaultProblemData::<F> { normb: None, ..*old(self) }),
//@end
}

// stand-in for DefaultKKTSystem (as in unit data_update): the ghost fields abstract "the copies of P / A values held inside the KKT
// matrix"; update_P / update_A refresh them (PROVED through every wrapper down to the LDL engine in unit kkt_solve)
impl DefaultKKTSystem<F> {
    #[verifier::external_body]
    pub fn update_P(&mut self, P: &CscMatrix<F>) ensures final(self).kkt_P@ == P.nzval@, final(self).kkt_A@ == old(self).kkt_A@ { unimplemented!() }
    #[verifier::external_body]
    pub fn update_A(&mut self, A: &CscMatrix<F>) ensures final(self).kkt_A@ == A.nzval@, final(self).kkt_P@ == old(self).kkt_P@ { unimplemented!() }
}
// FRAME (added here to the contracts of unit data_update, which are silent about the presolver and the other solver components):
// nothing but the named data field, the cached norm and the KKT system differs
pub open spec fn frame_P(a: DefaultSolver<F>, b: DefaultSolver<F>) -> bool {
    a == (DefaultSolver::<F> { data: DefaultProblemData::<F> { P: a.data.P, ..b.data }, kktsystem: a.kktsystem, ..b })
}
pub open spec fn frame_A(a: DefaultSolver<F>, b: DefaultSolver<F>) -> bool {
    a == (DefaultSolver::<F> { data: DefaultProblemData::<F> { A: a.data.A, ..b.data }, kktsystem: a.kktsystem, ..b })
}
pub open spec fn frame_q(a: DefaultSolver<F>, b: DefaultSolver<F>) -> bool {
    a == (DefaultSolver::<F> { data: DefaultProblemData::<F> { q: a.data.q, normq: a.data.normq, ..b.data }, ..b })
}
pub open spec fn frame_b(a: DefaultSolver<F>, b: DefaultSolver<F>) -> bool {
    a == (DefaultSolver::<F> { data: DefaultProblemData::<F> { b: a.data.b, normb: a.data.normb, ..b.data }, ..b })
}
impl DefaultSolver<F> {
//@fn file=src/solver/implementations/default/data_updating.rs in="impl<T> DefaultSolver<T>" name=check_data_update_allowed rules=R1,R12 ret=r
//@contract
    ensures
        // C08: "Rejected updates (... presolve ... active) return an error"
        r is Ok <==> self.data.presolver is None,
        r matches Err(e) ==> e == DataUpdateError::PresolveIsActive,
//@end
//@fn file=src/solver/implementations/default/data_updating.rs in="impl<T> DefaultSolver<T>" name=is_data_update_allowed rules=R1 ret=r
//@contract
    ensures r == (self.data.presolver is None)
//@end
//@fn file=src/solver/implementations/default/data_updating.rs in="impl<T> DefaultSolver<T>" name=update_P rules=R1 ret=res
//@contract
    requires matrix_ok(old(self).data.P, old(self).data.equilibration.d@, old(self).data.equilibration.d@),
    ensures
        frame_P(*final(self), *old(self)),
        old(self).data.presolver is Some ==> res is Err && *final(self) == *old(self),
        old(self).data.presolver is None ==> {
            let d = old(self).data.equilibration.d@; let c = old(self).data.equilibration.c; let P0 = old(self).data.P;
            &&& only_P_changed(*final(self), *old(self)) && final(self).data.P.same_pattern(&P0)
            &&& (res is Ok <==> (data.is_noop(P0) || data.fits(P0)))
            &&& (res is Err ==> final(self).data.P.nzval@ == P0.nzval@ && final(self).kktsystem == old(self).kktsystem)
            &&& (data.is_noop(P0) ==> final(self).data.P.nzval@ == P0.nzval@)
            // C08: internal P = c * D * P_new * D, entry for entry, and the KKT copy is refreshed from it
            &&& (!data.is_noop(P0) && data.fits(P0) ==> forall|k: int, j: int| #[trigger] P0.in_col(k, j) ==>
                    final(self).data.P.nzval@[k] == scaled_entry(data.new_value(k), d[P0.rowval@[k] as int], d[j], Some(c)))
            &&& (res is Ok ==> final(self).kktsystem.kkt_P@ == final(self).data.P.nzval@ && final(self).kktsystem.kkt_A@ == old(self).kktsystem.kkt_A@)
        },
//@end
//@fn file=src/solver/implementations/default/data_updating.rs in="impl<T> DefaultSolver<T>" name=update_A rules=R1 ret=res
//@contract
    requires matrix_ok(old(self).data.A, old(self).data.equilibration.e@, old(self).data.equilibration.d@),
    ensures
        frame_A(*final(self), *old(self)),
        old(self).data.presolver is Some ==> res is Err && *final(self) == *old(self),
        old(self).data.presolver is None ==> {
            let d = old(self).data.equilibration.d@; let e = old(self).data.equilibration.e@; let A0 = old(self).data.A;
            &&& only_A_changed(*final(self), *old(self)) && final(self).data.A.same_pattern(&A0)
            &&& (res is Ok <==> (data.is_noop(A0) || data.fits(A0)))
            &&& (res is Err ==> final(self).data.A.nzval@ == A0.nzval@ && final(self).kktsystem == old(self).kktsystem)
            &&& (data.is_noop(A0) ==> final(self).data.A.nzval@ == A0.nzval@)
            // C08: internal A = E * A_new * D, entry for entry (no objective scaling), KKT copy refreshed
            &&& (!data.is_noop(A0) && data.fits(A0) ==> forall|k: int, j: int| #[trigger] A0.in_col(k, j) ==>
                    final(self).data.A.nzval@[k] == scaled_entry(data.new_value(k), e[A0.rowval@[k] as int], d[j], None))
            &&& (res is Ok ==> final(self).kktsystem.kkt_A@ == final(self).data.A.nzval@ && final(self).kktsystem.kkt_P@ == old(self).kktsystem.kkt_P@)
        },
//@end
//@fn file=src/solver/implementations/default/data_updating.rs in="impl<T> DefaultSolver<T>" name=update_q rules=R1 ret=res
//@contract
    requires old(self).data.equilibration.d@.len() == old(self).data.q@.len(),
    ensures
        frame_q(*final(self), *old(self)),
        old(self).data.presolver is Some ==> res is Err && *final(self) == *old(self),
        old(self).data.presolver is None ==> {
            let d = old(self).data.equilibration.d@; let c = old(self).data.equilibration.c; let q0 = old(self).data.q@;
            &&& final(self).kktsystem == old(self).kktsystem && final(self).data.P == old(self).data.P && final(self).data.A == old(self).data.A
            &&& final(self).data.b == old(self).data.b && final(self).data.equilibration == old(self).data.equilibration && final(self).data.normb == old(self).data.normb
            &&& final(self).data.q@.len() == q0.len()
            &&& (res is Ok <==> (data.is_noop() || data.fits(q0.len())))
            &&& (res is Err ==> final(self).data.q@ == q0 && final(self).data.normq == old(self).data.normq)
            &&& (data.is_noop() ==> final(self).data.q@ == q0)
            // C08: internal q = c * D * q_new; the cached unscaled norm is invalidated so the next solve recomputes it
            &&& (!data.is_noop() && data.fits(q0.len()) ==> forall|k: int| 0 <= k < q0.len() ==>
                    #[trigger] final(self).data.q@[k] == scaled_elem(data.new_value(k), d[k], Some(c)))
            &&& (res is Ok ==> final(self).data.normq is None)
        },
//@end
//@fn file=src/solver/implementations/default/data_updating.rs in="impl<T> DefaultSolver<T>" name=update_b rules=R1 ret=res
//@contract
    requires old(self).data.equilibration.e@.len() == old(self).data.b@.len(),
    ensures
        frame_b(*final(self), *old(self)),
        old(self).data.presolver is Some ==> res is Err && *final(self) == *old(self),
        old(self).data.presolver is None ==> {
            let e = old(self).data.equilibration.e@; let b0 = old(self).data.b@;
            &&& final(self).kktsystem == old(self).kktsystem && final(self).data.P == old(self).data.P && final(self).data.A == old(self).data.A
            &&& final(self).data.q == old(self).data.q && final(self).data.equilibration == old(self).data.equilibration && final(self).data.normq == old(self).data.normq
            &&& final(self).data.b@.len() == b0.len()
            &&& (res is Ok <==> (data.is_noop() || data.fits(b0.len())))
            &&& (res is Err ==> final(self).data.b@ == b0 && final(self).data.normb == old(self).data.normb)
            &&& (data.is_noop() ==> final(self).data.b@ == b0)
            // C08: internal b = E * b_new; cached norm invalidated
            &&& (!data.is_noop() && data.fits(b0.len()) ==> forall|k: int| 0 <= k < b0.len() ==>
                    #[trigger] final(self).data.b@[k] == scaled_elem(data.new_value(k), e[k], None))
            &&& (res is Ok ==> final(self).data.normb is None)
        },
//@end

//@fn file=src/solver/implementations/default/data_updating.rs in="impl<T> DefaultSolver<T>" name=update_data rules=R1 ret=res
//@contract
    requires
        matrix_ok(old(self).data.P, old(self).data.equilibration.d@, old(self).data.equilibration.d@),
        matrix_ok(old(self).data.A, old(self).data.equilibration.e@, old(self).data.equilibration.d@),
        old(self).data.equilibration.d@.len() == old(self).data.q@.len(),
        old(self).data.equilibration.e@.len() == old(self).data.b@.len(),
    ensures
        // C08: "Rejected updates (... presolve ... active) return an error" and change nothing
        old(self).data.presolver is Some ==> res is Err && *final(self) == *old(self),
        old(self).data.presolver is None ==> {
            let d = old(self).data.equilibration.d@; let e = old(self).data.equilibration.e@; let c = old(self).data.equilibration.c;
            let P0 = old(self).data.P; let A0 = old(self).data.A; let q0 = old(self).data.q@; let b0 = old(self).data.b@;
            let okP = P.is_noop(P0) || P.fits(P0); let okq = q.is_noop() || q.fits(q0.len());
            let okA = A.is_noop(A0) || A.fits(A0); let okb = b.is_noop() || b.fits(b0.len());
            // accepted iff each of the four parts is accepted
            &&& (res is Ok <==> (okP && okq && okA && okb))
            // shapes, scalings, variables, settings: never touched
            &&& final(self).data.P.same_pattern(&P0) && final(self).data.A.same_pattern(&A0)
            &&& final(self).data.q@.len() == q0.len() && final(self).data.b@.len() == b0.len()
            &&& final(self).data.equilibration == old(self).data.equilibration && final(self).data.presolver is None
            &&& final(self).variables == old(self).variables && final(self).settings == old(self).settings
            // the parts are applied in the order P, q, A, b and the first rejected part stops the update: a part is written
            // iff it and every part before it is accepted (so an error can leave the earlier parts updated: observation O1)
            &&& (okP && !P.is_noop(P0) ==> forall|k: int, j: int| #[trigger] P0.in_col(k, j) ==>
                    final(self).data.P.nzval@[k] == scaled_entry(P.new_value(k), d[P0.rowval@[k] as int], d[j], Some(c)))
            &&& (!okP || P.is_noop(P0) ==> final(self).data.P.nzval@ == P0.nzval@)
            &&& (okP && okq && !q.is_noop() ==> forall|k: int| 0 <= k < q0.len() ==>
                    #[trigger] final(self).data.q@[k] == scaled_elem(q.new_value(k), d[k], Some(c)))
            &&& (!(okP && okq) || q.is_noop() ==> final(self).data.q@ == q0)
            &&& (okP && okq && okA && !A.is_noop(A0) ==> forall|k: int, j: int| #[trigger] A0.in_col(k, j) ==>
                    final(self).data.A.nzval@[k] == scaled_entry(A.new_value(k), e[A0.rowval@[k] as int], d[j], None))
            &&& (!(okP && okq && okA) || A.is_noop(A0) ==> final(self).data.A.nzval@ == A0.nzval@)
            &&& (okP && okq && okA && okb && !b.is_noop() ==> forall|k: int| 0 <= k < b0.len() ==>
                    #[trigger] final(self).data.b@[k] == scaled_elem(b.new_value(k), e[k], None))
            &&& (!(okP && okq && okA && okb) || b.is_noop() ==> final(self).data.b@ == b0)
            // the cached norms are invalidated exactly for the vectors that were processed; the KKT copies follow P and A
            &&& (okP && okq ==> final(self).data.normq is None) && (!(okP && okq) ==> final(self).data.normq == old(self).data.normq)
            &&& (res is Ok ==> final(self).data.normb is None) && (res is Err ==> final(self).data.normb == old(self).data.normb)
            &&& (okP ==> final(self).kktsystem.kkt_P@ == final(self).data.P.nzval@) && (!okP ==> final(self).kktsystem == old(self).kktsystem)
            &&& (okP && okq && okA ==> final(self).kktsystem.kkt_A@ == final(self).data.A.nzval@)
            &&& (!(okP && okq && okA) ==> final(self).kktsystem.kkt_A@ == old(self).kktsystem.kkt_A@)
        },
//@end
}


// ================================================================== item 5: Presolver::presolve / reduce_A_b  (C09)
// vocabulary: text of units postprocess (cones, dropped rows), csc_core (row selection), vecmath_more (element selection)
pub open spec fn nvars_spec(c: SupportedConeT<F>) -> nat {
    match c {
        SupportedConeT::ZeroConeT(d) => d as nat,
        SupportedConeT::NonnegativeConeT(d) => d as nat,
        SupportedConeT::SecondOrderConeT(d) => d as nat,
        SupportedConeT::ExponentialConeT() => 3,
        SupportedConeT::PowerConeT(_) => 3,
        SupportedConeT::GenPowerConeT(a, d2) => a@.len() + d2 as nat,
    }
}
pub open spec fn cone_start(cones: Seq<SupportedConeT<F>>, k: int) -> nat
    decreases k,
{
    if k <= 0 { 0 } else { cone_start(cones, k - 1) + nvars_spec(cones[k - 1]) }
}
pub open spec fn total_nvars(cones: Seq<SupportedConeT<F>>) -> nat { cone_start(cones, cones.len() as int) }
pub open spec fn is_nn(c: SupportedConeT<F>) -> bool { c is NonnegativeConeT }
pub open spec fn row_in_nn(cones: Seq<SupportedConeT<F>>, i: int) -> bool {
    exists|k: int| 0 <= k < cones.len() && is_nn(#[trigger] cones[k]) && cone_start(cones, k) <= i < cone_start(cones, k + 1)
}
pub open spec fn thr(infbound: F) -> F {
    f_mul(f_sub(f_one(), f_mul(f_eps(), f_lit(10.))), infbound)
}
pub open spec fn dropped(cones: Seq<SupportedConeT<F>>, b: Seq<F>, infbound: F, i: int) -> bool {
    row_in_nn(cones, i) && f_lt(thr(infbound), b[i])
}
pub open spec fn count_true(s: Seq<bool>, n: int) -> int
    decreases n,
{
    if n <= 0 { 0 } else { count_true(s, n - 1) + (if s[n - 1] { 1int } else { 0int }) }
}
pub open spec fn reduction_ok(cones: Seq<SupportedConeT<F>>, b: Seq<F>, infbound: F, map: Option<PresolverRowReductionIndex>, mreduced: usize) -> bool {
    &&& mreduced <= b.len()
    &&& (map is None <==> (forall|i: int| 0 <= i < b.len() ==> !dropped(cones, b, infbound, i)))
    &&& (map is None ==> mreduced == b.len())
    &&& (map matches Some(m) ==> m.keep_logical@.len() == b.len()
            && (forall|i: int| 0 <= i < b.len() ==> #[trigger] m.keep_logical@[i] == !dropped(cones, b, infbound, i))
            && mreduced == count_true(m.keep_logical@, b.len() as int))
}
pub open spec fn colptr_wf(A: CscMatrix<F>) -> bool {
    &&& A.colptr@.len() == A.n + 1
    &&& A.colptr@[0] == 0
    &&& A.rowval@.len() == A.nzval@.len()
    &&& A.colptr@[A.n as int] == A.nzval@.len()
    &&& forall|a: int, b: int| 0 <= a <= b <= A.n ==> A.colptr@[a] <= A.colptr@[b]
}
pub open spec fn rows_in_range(A: CscMatrix<F>) -> bool { forall|k: int| 0 <= k < A.rowval@.len() ==> #[trigger] A.rowval@[k] < A.m }
// number of selected rows before row r (= count_true; the name used by unit csc_core)
pub open spec fn rank(sel: Seq<bool>, r: int) -> int decreases r { if r <= 0 { 0 } else { rank(sel, r - 1) + (if sel[r - 1] { 1int } else { 0int }) } }
// number of stored entries among the first k that lie in a selected row = the slot entry k moves to
pub open spec fn keptp(rv: Seq<usize>, sel: Seq<bool>, k: int) -> int decreases k { if k <= 0 { 0 } else { keptp(rv, sel, k - 1) + (if sel[rv[k - 1] as int] { 1int } else { 0int }) } }
// the selected elements of a, in order
pub open spec fn sel(a: Seq<F>, idx: Seq<bool>, k: int) -> Seq<F> decreases k {
    if k <= 0 { Seq::<F>::empty() } else if idx[k - 1] { sel(a, idx, k - 1).push(a[k - 1]) } else { sel(a, idx, k - 1) } }
pub proof fn lemma_rank_is_count(s: Seq<bool>, n: int) ensures rank(s, n) == count_true(s, n) decreases n { if n > 0 { lemma_rank_is_count(s, n - 1); } }
pub proof fn lemma_sel_len(a: Seq<F>, idx: Seq<bool>, k: int) ensures sel(a, idx, k).len() == rank(idx, k) decreases k { if k > 0 { lemma_sel_len(a, idx, k - 1); } }
// A_new = select_rows(A, keep): the clauses of unit csc_core, as one predicate
pub open spec fn rows_selected(A: CscMatrix<F>, keep: Seq<bool>, r: CscMatrix<F>) -> bool {
    &&& r.m == rank(keep, A.m as int) && r.n == A.n && colptr_wf(r)
    &&& forall|c: int| 0 <= c <= A.n ==> #[trigger] r.colptr@[c] == keptp(A.rowval@, keep, A.colptr@[c] as int)
    &&& r.nzval@.len() == keptp(A.rowval@, keep, A.rowval@.len() as int) && r.rowval@.len() == r.nzval@.len()
    &&& forall|k: int| 0 <= k < A.rowval@.len() && keep[A.rowval@[k] as int] ==> r.nzval@[keptp(A.rowval@, keep, k)] == #[trigger] A.nzval@[k]
    &&& forall|k: int| 0 <= k < A.rowval@.len() && keep[#[trigger] A.rowval@[k] as int] ==> r.rowval@[keptp(A.rowval@, keep, k)] == rank(keep, A.rowval@[k] as int)
}
impl CscMatrix<F> {
    // select_rows -- PROVED in unit csc_core (contract text copied)
    #[verifier::external_body]
    pub fn select_rows(&self, rowidx: &[bool]) -> (r: Self)
        requires colptr_wf(*self), rows_in_range(*self), rowidx@.len() == self.m, self.n < usize::MAX,
        ensures rows_selected(*self, rowidx@, r),
    { unimplemented!() }
}
// select -- PROVED in unit vecmath_more (contract text copied)
pub trait VectorSelect {
    spec fn vw(&self) -> Seq<F>;
    fn select(&self, index: &[bool]) -> (r: Vec<F>)
        requires self.vw().len() == index@.len(),
        ensures r@ == sel(self.vw(), index@, self.vw().len() as int);
}
impl VectorSelect for [F] {
    open spec fn vw(&self) -> Seq<F> { self@ }
    #[verifier::external_body]
    fn select(&self, index: &[bool]) -> (r: Vec<F>) { unimplemented!() }
}
impl Presolver<F> {
    // reduce_cones -- ASSUMED, proved NOWHERE (stateful iterator adaptors: by_ref().take(n), filter().count(), last()); a bounded Kani
    // harness covers it on one shape.  Stated: the reduced cones account for exactly the kept rows.
    #[verifier::external_body]
    pub fn reduce_cones(&self, cones: &[SupportedConeT<F>]) -> (r: Vec<SupportedConeT<F>>)
        requires self.reduce_map is Some, self.reduce_map->Some_0.keep_logical@.len() == total_nvars(cones@),
        ensures total_nvars(r@) == count_true(self.reduce_map->Some_0.keep_logical@, total_nvars(cones@) as int),
    { unimplemented!() }
//@fn file=src/solver/implementations/default/presolver.rs in="impl<T> Presolver<T>" name=reduce_A_b rules=R1 ret=r
//@contract
    requires
        // `assert!(self.reduce_map.is_some())`: only called on a presolver that has something to drop
        self.reduce_map is Some,
        self.reduce_map->Some_0.keep_logical@.len() == A.m, b@.len() == A.m,
        colptr_wf(*A), rows_in_range(*A), A.n < usize::MAX,
    ensures
        // C09: the reduced A holds exactly the kept rows (renumbered by rank, entries in order with their values), the reduced b
        // exactly the kept entries in order -- BOTH under the same mask, the presolver's keep_logical
        rows_selected(*A, self.reduce_map->Some_0.keep_logical@, r.0),
        r.1@ == sel(b@, self.reduce_map->Some_0.keep_logical@, b@.len() as int),
        // hence A_new has as many rows as b_new has entries: the number of kept rows
        r.0.m == r.1@.len(), r.1@.len() == count_true(self.reduce_map->Some_0.keep_logical@, A.m as int),
//@post
        proof {
            lemma_sel_len(b@, self.reduce_map->Some_0.keep_logical@, b@.len() as int);
            lemma_rank_is_count(self.reduce_map->Some_0.keep_logical@, A.m as int);
        }
//@end
//@fn file=src/solver/implementations/default/presolver.rs in="impl<T> Presolver<T>" name=presolve rules=R1 ret=r
//@contract
    requires
        self.reduce_map is Some,
        self.reduce_map->Some_0.keep_logical@.len() == A.m, b@.len() == A.m, total_nvars(cones@) == A.m,
        colptr_wf(*A), rows_in_range(*A), A.n < usize::MAX,
    ensures
        rows_selected(*A, self.reduce_map->Some_0.keep_logical@, r.0),
        r.1@ == sel(b@, self.reduce_map->Some_0.keep_logical@, b@.len() as int),
        // the reduced problem is dimensionally consistent: rows of A = entries of b = rows claimed by the reduced cones = kept rows
        r.0.m == r.1@.len(), r.1@.len() == total_nvars(r.2@), r.0.n == A.n,
        r.0.m == count_true(self.reduce_map->Some_0.keep_logical@, A.m as int),
//@end
}

// ================================================================== item 6: src/solver/implementations/default/problemdata.rs
// module-level infinity bound (src/utils/infbounds.rs: an AtomicF64 behind lazy_static!, outside Verus); ASSUMED as in units
// postprocess / problemdata_new: one uninterpreted value for the duration of a constructor call
pub uninterp spec fn infinity_in_force() -> f64;
#[verifier::external_body]
pub fn get_infinity() -> (r: f64) ensures r == infinity_in_force() { unimplemented!() }
impl Presolver<F> {
    // Presolver::new, is_reduced -- PROVED in unit postprocess (contract text copied)
    #[verifier::external_body]
    pub fn new(_A: &CscMatrix<F>, b: &[F], cones: &[SupportedConeT<F>], _settings: &DefaultSettings<F>) -> (r: Self)
        requires cone_start(cones@, cones@.len() as int) == b@.len(),
        ensures
            r.infbound == infinity_in_force(),
            r.mfull == b@.len(),
            reduction_ok(cones@, b@, f_lit(infinity_in_force()), r.reduce_map, r.mreduced),
    { unimplemented!() }
    #[verifier::external_body]
    pub fn is_reduced(&self) -> (r: bool)
        ensures r == (self.reduce_map is Some)
    { unimplemented!() }
}
//@fn file=src/solver/implementations/default/problemdata.rs name=try_presolver rules=R1 ret=r
//@contract
    requires total_nvars(cones@) == b@.len(),
    ensures
        // a presolver is returned iff presolve is enabled AND some row is reducible (sits in a nonnegative cone with a
        // right-hand side above the contracted bound in force)
        r is Some <==> (settings.presolve_enable && exists|i: int| 0 <= i < b@.len() && dropped(cones@, b@, f_lit(infinity_in_force()), i)),
        // and then it is what Presolver::new builds for (cones, b): the keep mask marks exactly the rows that are not dropped
        r matches Some(p) ==> p.reduce_map is Some && p.infbound == infinity_in_force() && p.mfull == b@.len()
            && reduction_ok(cones@, b@, f_lit(infinity_in_force()), p.reduce_map, p.mreduced),
//@end
// (behind #[cfg(feature = "sdp")]: NOT part of the default build; extracted all the same -- its only caller is the chordal block of `new`)
// (the source names the closure type `F`: the float parameter T is therefore renamed to the alias Fl instead of F, rule tparam:T>Fl)
pub type Fl = F;
//@fn file=src/solver/implementations/default/problemdata.rs name=unwrap_and_slice_or_else rules=tparam:T>Fl ret=r
//@contract
    requires opt is None ==> f.requires(()),
    ensures
        // the vector's contents when there is one, otherwise whatever the alternative yields (which is then the only thing evaluated)
        opt matches Some(v) ==> r@ == v@,
        opt is None ==> f.ensures((), r),
//@end
impl DefaultProblemData<F> {
// (feature sdp is off in the default build: R12 leaves `false`, as rustc does)
//@fn file=src/solver/implementations/default/problemdata.rs in="impl<T> DefaultProblemData<T>" name=is_chordal_decomposed rules=R1,R12 ret=r
//@contract
    ensures !r,
//@end
}


// ---- DefaultProblemData::new as two statement slices (DESIGN 10.1).  NOT covered: the first statement (`SupportedConeT::new_collapsed`:
// peekable iterator, nested fn) and the chordal block (feature sdp, off in the default build: R12 drops it as rustc does).  The seam
// between the two slices is by name: the locals P_new, q_new, A_new, b_new, cones_new, presolver, cones that the first slice leaves
// behind are the parameters of the second.
pub open spec fn upper_triangular(A: CscMatrix<F>) -> bool { forall|c: int, k: int| #[trigger] A.in_col(k, c) ==> A.rowval@[k] <= c }
// NAME for the postcondition of to_triu PROVED in unit csc_core (to_triu_post: column c of the result = the entries of column c on or above the diagonal)
pub uninterp spec fn triu_of(A: CscMatrix<F>, R: CscMatrix<F>) -> bool;
impl CscMatrix<F> {
    // is_triu, to_triu -- PROVED in unit csc_core (contract text copied; to_triu_post abbreviated by its name, dimensions spelled out)
    #[verifier::external_body]
    pub fn is_triu(&self) -> (r: bool)
        requires colptr_wf(*self),
        ensures r == upper_triangular(*self),
    { unimplemented!() }
    #[verifier::external_body]
    pub fn to_triu(&self) -> (r: Self)
        requires colptr_wf(*self), self.m == self.n, self.n < usize::MAX,
        ensures triu_of(*self, r), r.m == self.m, r.n == self.n, colptr_wf(r),
    { unimplemented!() }
}
// what the presolve phase leaves behind
pub open spec fn presolve_phase_post(P: CscMatrix<F>, A: CscMatrix<F>, b: Seq<F>, cones: Seq<SupportedConeT<F>>, enabled: bool,
    P_new: Option<CscMatrix<F>>, q_new: Option<Vec<F>>, A_new: Option<CscMatrix<F>>, b_new: Option<Vec<F>>, cones_new: Option<Vec<SupportedConeT<F>>>,
    presolver: Option<Presolver<F>>) -> bool
{
    let inf = f_lit(infinity_in_force());
    // a triangular copy of P is made iff P is not upper triangular already; q is never copied here
    &&& (P_new is Some <==> !upper_triangular(P)) && (P_new matches Some(pt) ==> triu_of(P, pt) && pt.m == P.m && pt.n == P.n)
    &&& q_new is None
    // "None when presolve is disabled or nothing is reducible"
    &&& (presolver is Some <==> (enabled && exists|i: int| 0 <= i < b.len() && dropped(cones, b, inf, i)))
    // without a presolver nothing is reduced ...
    &&& (presolver is None ==> A_new is None && b_new is None && cones_new is None)
    // ... with one, A, b and the cones are reduced under ITS keep mask, which marks exactly the rows that are not dropped
    &&& (presolver matches Some(p) ==> p.reduce_map is Some && reduction_ok(cones, b, inf, p.reduce_map, p.mreduced)
            && A_new is Some && b_new is Some && cones_new is Some
            && rows_selected(A, p.reduce_map->Some_0.keep_logical@, A_new->Some_0)
            && b_new->Some_0@ == sel(b, p.reduce_map->Some_0.keep_logical@, b.len() as int)
            && A_new->Some_0.m == b_new->Some_0@.len() && b_new->Some_0@.len() == total_nvars(cones_new->Some_0@)
            && A_new->Some_0.m == p.mreduced)
}
//@fn file=src/solver/implementations/default/problemdata.rs in="impl<T> DefaultProblemData<T>" name=new as=new_presolve_phase rules=R1,R12,tupassign from="let mut P_new: Option<CscMatrix<T>> = None;" to="if let Some(ref presolver) = presolver" header="fn new_presolve_phase<T: FloatT>(P: &CscMatrix<T>, A: &CscMatrix<T>, b: &[T], cones: Vec<SupportedConeT<T>>, settings: &DefaultSettings<T>)"
//@contract
    requires
        // consistent dimensions (established by _check_dimensions; new_collapsed keeps the row total) and well-formed matrices
        b@.len() == A.m, total_nvars(cones@) == A.m, P.m == P.n,
        colptr_wf(*P), colptr_wf(*A), rows_in_range(*A), A.n < usize::MAX, P.n < usize::MAX,
//@after "if let Some(ref presolver) = presolver"
        proof {
            assert(presolve_phase_post(*P, *A, b@, cones@, settings.presolve_enable, P_new, q_new, A_new, b_new, cones_new, presolver));
        }
//@end


// `#[derive(Clone)]` on CscMatrix, written out (macro expansion, ASSUMED to be this: field-wise clone); body verified
impl Clone for CscMatrix<F> {
    fn clone(&self) -> (r: Self)
        ensures r.m == self.m, r.n == self.n, r.colptr@ == self.colptr@, r.rowval@ == self.rowval@, r.nzval@ == self.nzval@,
    {
        let r = CscMatrix { m: self.m, n: self.n, colptr: self.colptr.clone(), rowval: self.rowval.clone(), nzval: self.nzval.clone() };
        assert(r.colptr@ =~= self.colptr@ && r.rowval@ =~= self.rowval@ && r.nzval@ =~= self.nzval@);
        r
    }
}
pub open spec fn copy_of(a: Seq<F>, b: Seq<F>) -> bool { a.len() == b.len() && forall|i: int| 0 <= i < b.len() ==> #[trigger] a[i] == b[i] }
pub open spec fn same_matrix(a: CscMatrix<F>, b: CscMatrix<F>) -> bool {
    a.m == b.m && a.n == b.n && a.colptr@ == b.colptr@ && a.rowval@ == b.rowval@ && a.nzval@ == b.nzval@
}
// <[T]>::to_vec clones element by element (std); F is Copy with `clone(x) == x`
pub assume_specification<T: Clone> [<[T]>::to_vec] (s: &[T]) -> (r: Vec<T>)
    ensures r@.len() == s@.len(), forall|i: int| 0 <= i < s@.len() ==> cloned(#[trigger] s@[i], r@[i]);
impl CscMatrix<F> {
//@fn file=src/algebra/csc/core.rs in="ShapedMatrix for CscMatrix<T>" name=size rules=R1 ret=r
//@contract
    ensures r == (self.m, self.n)
//@end
}
impl DefaultEquilibrationData<F> {
    // PROVED in unit variables (contract text copied)
    #[verifier::external_body]
    pub fn new(n: usize, m: usize) -> (r: Self)
        ensures
            r.d@.len() == n, r.dinv@.len() == n, r.e@.len() == m, r.einv@.len() == m,
            all_eq(r.d@, f_one()), all_eq(r.dinv@, f_one()), all_eq(r.e@, f_one()), all_eq(r.einv@, f_one()),
            r.c == f_one(),
    { unimplemented!() }
}
pub open spec fn all_eq(v: Seq<F>, c: F) -> bool { forall|i: int| 0 <= i < v.len() ==> #[trigger] v[i] == c }
// b capped at the bound in force, entry for entry (C09: "capped, never dropped"; PROVED for this statement pair in unit problemdata_new too)
pub open spec fn capped(b1: Seq<F>, b0: Seq<F>) -> bool {
    b1.len() == b0.len() && forall|i: int| 0 <= i < b0.len() ==> #[trigger] b1[i] == f_min(b0[i], f_lit(infinity_in_force()))
}
// what the copy phase (everything after the chordal block) builds
pub open spec fn copy_phase_post(P: CscMatrix<F>, q: Seq<F>, A: CscMatrix<F>, b: Seq<F>, cones: Vec<SupportedConeT<F>>,
    P_new: Option<CscMatrix<F>>, q_new: Option<Vec<F>>, A_new: Option<CscMatrix<F>>, b_new: Option<Vec<F>>, cones_new: Option<Vec<SupportedConeT<F>>>,
    presolver: Option<Presolver<F>>, r: DefaultProblemData<F>) -> bool
{
    // the internal data are the presolved / triangularised data where a phase produced them, copies of the user's otherwise;
    // b is capped at the bound in force in either case
    &&& (P_new matches Some(x) ==> r.P == x) && (P_new is None ==> same_matrix(r.P, P))
    &&& (q_new matches Some(x) ==> r.q == x) && (q_new is None ==> r.q@ == q)
    &&& (A_new matches Some(x) ==> r.A == x) && (A_new is None ==> same_matrix(r.A, A))
    &&& (b_new matches Some(x) ==> capped(r.b@, x@)) && (b_new is None ==> capped(r.b@, b))
    &&& (cones_new matches Some(x) ==> r.cones == x) && (cones_new is None ==> r.cones == cones)
    // "this ensures m is the *reduced* size m": (m, n) are the sizes of the A that is stored
    &&& r.m == r.A.m && r.n == r.A.n
    // the scalings start as the identity of those sizes; the presolver is stored as it came; the norms are those of the stored vectors
    &&& r.equilibration.d@.len() == r.n && r.equilibration.dinv@.len() == r.n && r.equilibration.e@.len() == r.m && r.equilibration.einv@.len() == r.m
    &&& all_eq(r.equilibration.d@, f_one()) && all_eq(r.equilibration.e@, f_one()) && r.equilibration.c == f_one()
    &&& r.presolver == presolver
    &&& r.normq == Some(vm_norm_inf(r.q@)) && r.normb == Some(vm_norm_inf(r.b@))
}
impl DefaultProblemData<F> {
//@fn file=src/solver/implementations/default/problemdata.rs in="impl<T> DefaultProblemData<T>" name=new as=new_copy_phase rules=R1,R12 from="let P_new = P_new.unwrap_or_else(" to="Self {" header="fn new_copy_phase<T: FloatT>(P: &CscMatrix<T>, q: &[T], A: &CscMatrix<T>, b: &[T], cones: Vec<SupportedConeT<T>>, P_new: Option<CscMatrix<T>>, q_new: Option<Vec<T>>, A_new: Option<CscMatrix<T>>, b_new: Option<Vec<T>>, cones_new: Option<Vec<SupportedConeT<T>>>, presolver: Option<Presolver<T>>) -> Self" ret=r
//@contract
    ensures copy_phase_post(*P, q@, *A, b@, cones, P_new, q_new, A_new, b_new, cones_new, presolver, r),
//@pre
        let ghost q_in = q_new;
        let ghost b_in = b_new;
//@after "let mut b_new ="
        proof {
            if q_in is None { assert(q_new@ =~= q@); }
            if b_in is None { assert(b_new@ =~= b@); }
        }
//@closure0 1
(c1: CscMatrix<F>) ensures same_matrix(c1, *P)
//@closure0 2
(c2: Vec<F>) ensures copy_of(c2@, q@)
//@closure0 3
(c3: CscMatrix<F>) ensures same_matrix(c3, *A)
//@closure0 4
(c4: Vec<F>) ensures copy_of(c4@, b@)
//@closure 1
F
(c5: F) ensures c5 == f_min(x, infbound)
//@end
}


// ---- COMPOSITION: the two slices give the dimension clauses of the contract that unit solver_new ASSUMES of DefaultProblemData::new.
// Still assumed there and not derived here: new_collapsed keeps the row total (first premise below) and produces constructible cones;
// reduce_cones (inside presolve); well-formedness of the stored matrices (colptr_ok / row indices in range: follows from
// select_rows / clone for A; for a triangularised P it needs the definition behind `triu_of`).
pub proof fn lemma_new_dimensions(P: CscMatrix<F>, q: Seq<F>, A: CscMatrix<F>, b: Seq<F>, user_cones: Seq<SupportedConeT<F>>, cones: Vec<SupportedConeT<F>>, enabled: bool,
    P_new: Option<CscMatrix<F>>, q_new: Option<Vec<F>>, A_new: Option<CscMatrix<F>>, b_new: Option<Vec<F>>, cones_new: Option<Vec<SupportedConeT<F>>>,
    presolver: Option<Presolver<F>>, r: DefaultProblemData<F>)
    requires
        // consistent dimensions of the user's data (unit postprocess: _check_dimensions returns only then)
        b.len() == A.m, total_nvars(user_cones) == b.len(), q.len() == A.n, q.len() == P.n, P.m == P.n,
        // ASSUMED of new_collapsed (not under contract): the collapsed cones claim the same number of rows
        total_nvars(cones@) == total_nvars(user_cones),
        presolve_phase_post(P, A, b, cones@, enabled, P_new, q_new, A_new, b_new, cones_new, presolver),
        copy_phase_post(P, q, A, b, cones, P_new, q_new, A_new, b_new, cones_new, presolver, r),
    ensures
        // n is the user's, m the number of rows kept; the internal cones claim exactly m rows; P is n x n, A is m x n, q: n, b: m
        r.n == A.n, r.m <= A.m, r.m == total_nvars(r.cones@),
        r.P.m == r.n && r.P.n == r.n, r.A.m == r.m && r.A.n == r.n, r.q@.len() == r.n, r.b@.len() == r.m,
        r.equilibration.d@.len() == r.n, r.equilibration.e@.len() == r.m,
        // a presolver is stored iff rows were dropped; its mask has the user's m entries, m_internal of them true
        match r.presolver {
            Some(p) => p.reduce_map is Some && p.reduce_map->Some_0.keep_logical@.len() == A.m
                && count_true(p.reduce_map->Some_0.keep_logical@, A.m as int) == r.m,
            None => r.m == A.m,
        },
        // C09: without a presolver every row is kept with its (capped) right-hand side; with one, exactly the rows that are not dropped
        r.presolver is None ==> capped(r.b@, b),
        r.presolver matches Some(p) ==> capped(r.b@, sel(b, p.reduce_map->Some_0.keep_logical@, b.len() as int)),
{
    match presolver {
        Some(p) => {
            let keep = p.reduce_map->Some_0.keep_logical@;
            lemma_rank_is_count(keep, A.m as int);
            lemma_count_le(keep, A.m as int);
        }
        None => { }
    }
}
pub proof fn lemma_count_le(s: Seq<bool>, n: int) requires 0 <= n ensures 0 <= count_true(s, n) <= n decreases n { if n > 0 { lemma_count_le(s, n - 1); } }

} // verus!
fn main() {}
