// unit `composite` : the DISPATCH LAYER src/solver/core/cones/compositecone.rs under contract (C07, C10, C15)
// float model: F-real (prelude/float_real_axioms.rs), as in units steplen / rectify / soc_step.  Only margins / scaled_unit_shift /
// step_length / _shift_to_cone_interior / lemma_rect_ok use the real reading; everything else holds for the opaque symbols.
//
// PROVED here, from the real text (rules R1, R2, R12, R21, R14 = zipidx, and three additive ones, see DESIGN-style notes in tools/extract.py:
//   `boolor`  X |= E;  ->  { let t = E; X = X || t; }            (Verus has no non-short-circuit | on bool; E still evaluated once, always)
//   `R11z`    R11 (for + continue -> while) applied to the index loop that zipidx synthesises
//   `hoist=`  a non-escaping local closure  let mut f = |p..| -> R {B};  becomes a method  fn f(<receiver>, <captured & params>, p..) -> R {B}
//             and every call f(e..) becomes self.f(<captures>, e..); B verbatim (Verus rejects closures that capture a mutable reference)):
//   make_rng_cones / make_rng_blocks   ranges are contiguous from 0, range i has length numel_i resp. numel_i | triangular_number(numel_i)
//                                      (rngs_ok / brngs_ok); lemma_partition, lemma_disjoint: they PARTITION 0..total
//   wf(CompositeCone)                  = rng_cones / rng_blocks are what make_rng_* give for `cones`, numel = total, _is_symmetric = AND
//   rectify_equilibration              per cone slice: all ones | uniform, flag = OR of the per-cone flags; lemma_rect_ok: hence the contract
//                                      that unit csc_math assumes (e_i * delta_i between two entries of e), given the F-real mean property
//   margins                            (min from max_value, sum) as left folds cm / cb over the cones' own slices; z and the cones unchanged
//   scaled_unit_shift                  every cone shifts its own slice; composite margin >= min(margin + alpha, max_value), <= margin + alpha for alpha >= 0
//   _shift_to_cone_interior            (variables.rs) against these PROVED contracts: final margin >= 1
//   step_length (+ its closure innerfcn)  (a, a), a <= alphamax, !all_symmetric ==> a <= max_step_fraction, every cone asked once with its own four
//                                      slices and a maximum in [a, alphamax] and a <= both its answers (vis_at); a >= 0 if the per-cone steps are
//   unit_initialization, get_Hs, mul_Hs, affine_ds, combined_ds_shift, Δs_from_Δz_offset, update_scaling (true iff all succeed; stops at the
//   first failure, later cones untouched), compute_barrier (left-fold sum), Hs_is_diagonal / allows_primal_dual_scaling (AND), degree, numel,
//   is_symmetric: each cone receives exactly its own sub-vectors (range i of rng_cones resp. rng_blocks), nothing outside is written, shapes kept,
//   and no slice index panics.
//
// ASSUMED (stand-in `SupportedCone<T>` for the enum_dispatch enum, which is macro-generated; contracts = common denominator of the per-cone proofs):
//   numel / degree / is_symmetric / Hs_is_diagonal / allows_primal_dual_scaling  return the cone's fixed `shape()`; every &mut method keeps shape()
//                         (by inspection: `dim` and the cone family are never written after construction)
//   rectify_equilibration length kept; flag false & delta all ones | flag true & delta uniform      -- PROVED per cone type in unit rectify (NN, zero: first; SOC, exp, pow, genpow: second)
//   margins               requires a symmetric cone (exp / pow / genpow: unreachable!()); z unchanged, beta >= 0, cone unchanged
//                                                                                                   -- unit steplen (NN: min, sum of positive parts), soc_step (SOC), zero cone: (max_value, 0) by inspection;
//                                                                                                      `cone unchanged`, `beta >= 0` read off those formulas (F-real), not separately proved
//   scaled_unit_shift     symmetric cone; margin moves by alpha, or stays at max_value (zero cone)    -- steplen (NN: every entry + alpha), soc_step (SOC: z0 + alpha); min(z + alpha) = min(z) + alpha is the F-real reading of `minimum`
//   step_length           result is a function of the cone's state and arguments (step_spec: a NAME, no assumption); shape kept;
//                         alphamax >= 0 and the current point where the step rule expects it (interior_spec) ==> both steps >= 0
//                                                                                                   -- steplen (NN under all_nonneg(z), all_nonneg(s); zero: = alphamax); NOT yet proved for SOC / exp / pow (true by inspection)
//                         NOT assumed: step <= alphamax (the composite takes the min with its running maximum itself)
//   unit_initialization, set_identity_scaling, update_scaling, get_Hs, mul_Hs, affine_ds, combined_ds_shift, Δs_from_Δz_offset, compute_barrier:
//                         lengths of the slices kept, shape kept; what they compute is only NAMED (uninterpreted *_rel / *_spec symbols)
//   triangular_number     r == k (k + 1) / 2 for k < 2^32                                             -- unit scalarmath
//   Range::clone          copies start and end;   f_maxval > 1 (as in steplen);   <[T]>::fill (prelude/std_assumed.rs)
//
//   CompositeCone::new, second half (statement slice `new_tail`): numel = sum of the cone sizes, degree = sum of the degrees, rng_cones / rng_blocks =
//   make_rng_*(the same cone list): the wf() clauses other than the symmetry flag, for the values the struct literal stores.
//
// DROPPED / NOT COVERED: first half of CompositeCone::new (to_vec, make_cone, HashMap type_counts, _is_symmetric = AND of is_symmetric: by inspection)
//   and its struct literal, field type_counts and
//   get_type_count, len / is_empty / iter / iter_mut, set_identity_scaling (loop over the IterMut returned by self.iter_mut(): no usable ghost
//   state through the wrapper), is_sparse_expandable (unreachable!()).  The order of the two passes of step_length is NOT pinned (observation O1:
//   the code visits the NONsymmetric cones first, the comment and the Julia original say symmetric first; the contract holds for either order).
use vstd::prelude::*;
use std::ops::Range;
verus! {
global size_of usize == 8;
//@include prelude/float_opaque.rs
//@include prelude/float_real_axioms.rs
//@include prelude/vecmath_contract.rs
//@include prelude/std_assumed.rs
// ASSUMED std: cloning a Range clones its two ends (for usize: copies them)
pub assume_specification<Idx: Clone> [<Range<Idx> as Clone>::clone] (r: &Range<Idx>) -> (c: Range<Idx>)
    ensures cloned(r.start, c.start), cloned(r.end, c.end);
pub broadcast proof fn ax_maxval() ensures #[trigger] f_maxval().v() > 1real { admit(); }

//@enum file=src/solver/core/cones/mod.rs name=PrimalOrDualCone rules=R12 derive="PartialEq, Eq, Clone, Copy, Structural"
//@enum file=src/solver/core/solver.rs name=ScalingStrategy rules=R12 derive="PartialEq, Eq, Clone, Copy, Structural"
//@struct file=src/solver/implementations/default/settings.rs name=DefaultSettings rules=R1f
//@type file=src/solver/core/settings.rs name=CoreSettings

pub open spec fn tri(k: int) -> int { k * (k + 1) / 2 }
// ASSUMED here, proved in unit scalarmath
#[verifier::external_body]
pub fn triangular_number(k: usize) -> (r: usize) requires k < 0x1_0000_0000 ensures r == tri(k as int) { unimplemented!() }

// ------------------------------------------------------------------ stand-in for the enum_dispatch enum SupportedCone<T>
pub struct ConeShape { pub numel: nat, pub degree: nat, pub sym: bool, pub hs_diag: bool, pub pd_scaling: bool }
#[verifier::external_body]
#[verifier::accept_recursive_types(T)]
pub struct SupportedCone<T> { _p: Option<T> }
pub open spec fn all_ones(d: Seq<F>) -> bool { forall|i: int| 0 <= i < d.len() ==> #[trigger] d[i] == f_one() }
pub open spec fn uniform(d: Seq<F>, e: Seq<F>) -> bool {
    d.len() == e.len() && forall|i: int| 0 <= i < e.len() ==> #[trigger] d[i] == f_mul(f_recip(e[i]), vm_mean(e))
}
impl SupportedCone<F> {
    // what is fixed at construction (dimension, degree, cone family)
    pub uninterp spec fn shape(&self) -> ConeShape;
    pub open spec fn numel_spec(&self) -> nat { self.shape().numel }
    pub open spec fn sym_spec(&self) -> bool { self.shape().sym }
    pub open spec fn blk_spec(&self) -> int { if self.shape().hs_diag { self.shape().numel as int } else { tri(self.shape().numel as int) } }
    #[verifier::external_body] pub fn numel(&self) -> (r: usize) ensures r == self.shape().numel { unimplemented!() }
    #[verifier::external_body] pub fn degree(&self) -> (r: usize) ensures r == self.shape().degree { unimplemented!() }
    #[verifier::external_body] pub fn is_symmetric(&self) -> (r: bool) ensures r == self.shape().sym { unimplemented!() }
    #[verifier::external_body] pub fn Hs_is_diagonal(&self) -> (r: bool) ensures r == self.shape().hs_diag { unimplemented!() }
    #[verifier::external_body] pub fn allows_primal_dual_scaling(&self) -> (r: bool) ensures r == self.shape().pd_scaling { unimplemented!() }

    // rectify_equilibration: the flag is a function of the cone and e; scalar cones: delta = 1, others: uniform
    pub uninterp spec fn rect_spec(&self, e: Seq<F>) -> bool;
    #[verifier::external_body]
    pub fn rectify_equilibration(&self, delta: &mut [F], e: &[F]) -> (r: bool)
        requires old(delta)@.len() == e@.len(), e@.len() == self.shape().numel,
        ensures final(delta)@.len() == old(delta)@.len(), r == self.rect_spec(e@),
            r ==> uniform(final(delta)@, e@), !r ==> all_ones(final(delta)@),
    { unimplemented!() }

    pub uninterp spec fn margin_spec(&self, z: Seq<F>, pd: PrimalOrDualCone) -> real;
    pub uninterp spec fn beta_spec(&self, z: Seq<F>, pd: PrimalOrDualCone) -> real;
    #[verifier::external_body]
    pub fn margins(&mut self, z: &mut [F], pd: PrimalOrDualCone) -> (r: (F, F))
        requires old(z)@.len() == old(self).shape().numel, old(self).shape().sym,
        ensures final(z)@ == old(z)@, *final(self) == *old(self),
            r.0.v() == old(self).margin_spec(old(z)@, pd), r.1.v() == old(self).beta_spec(old(z)@, pd), r.1.v() >= 0real,
    { unimplemented!() }
    pub open spec fn shift_post(&self, z0: Seq<F>, z1: Seq<F>, a: real, pd: PrimalOrDualCone) -> bool {
        z1.len() == z0.len() && (self.margin_spec(z1, pd) == self.margin_spec(z0, pd) + a
            || (self.margin_spec(z1, pd) == f_maxval().v() && self.margin_spec(z0, pd) == f_maxval().v()))
    }
    #[verifier::external_body]
    pub fn scaled_unit_shift(&self, z: &mut [F], alpha: F, pd: PrimalOrDualCone)
        requires old(z)@.len() == self.shape().numel, self.shape().sym,
        ensures self.shift_post(old(z)@, final(z)@, alpha.v(), pd),
    { unimplemented!() }

    pub uninterp spec fn step_spec(&self, dz: Seq<F>, ds: Seq<F>, z: Seq<F>, s: Seq<F>, st: DefaultSettings<F>, amax: F) -> (F, F);
    pub uninterp spec fn interior_spec(&self, z: Seq<F>, s: Seq<F>) -> bool;
    #[verifier::external_body]
    pub fn step_length(&mut self, dz: &[F], ds: &[F], z: &[F], s: &[F], settings: &CoreSettings<F>, alphamax: F) -> (r: (F, F))
        requires dz@.len() == old(self).shape().numel, ds@.len() == dz@.len(), z@.len() == dz@.len(), s@.len() == dz@.len(),
        ensures r == old(self).step_spec(dz@, ds@, z@, s@, *settings, alphamax), final(self).shape() == old(self).shape(),
            alphamax.v() >= 0real && old(self).interior_spec(z@, s@) ==> r.0.v() >= 0real && r.1.v() >= 0real,
    { unimplemented!() }

    // ---- the remaining dispatched methods.  The `*_rel` / `*_spec` symbols are uninterpreted NAMES for whatever the cone does with
    // the vectors it is handed (nothing is assumed about them); they let the composite contracts say WHICH sub-vectors each cone got.
    pub uninterp spec fn unit_init_rel(&self, z: Seq<F>, s: Seq<F>) -> bool;
    #[verifier::external_body]
    pub fn unit_initialization(&self, z: &mut [F], s: &mut [F])
        requires old(z)@.len() == self.shape().numel, old(s)@.len() == self.shape().numel,
        ensures final(z)@.len() == old(z)@.len(), final(s)@.len() == old(s)@.len(), self.unit_init_rel(final(z)@, final(s)@),
    { unimplemented!() }
    pub uninterp spec fn identity_scaled(&self) -> bool;
    #[verifier::external_body]
    pub fn set_identity_scaling(&mut self)
        ensures final(self).shape() == old(self).shape(), final(self).identity_scaled(),
    { unimplemented!() }
    pub uninterp spec fn scaling_ok_spec(&self, s: Seq<F>, z: Seq<F>, mu: F, st: ScalingStrategy) -> bool;
    pub uninterp spec fn scaled_rel(&self, post: SupportedCone<F>, s: Seq<F>, z: Seq<F>, mu: F, st: ScalingStrategy) -> bool;
    #[verifier::external_body]
    pub fn update_scaling(&mut self, s: &[F], z: &[F], mu: F, scaling_strategy: ScalingStrategy) -> (r: bool)
        requires s@.len() == old(self).shape().numel, z@.len() == old(self).shape().numel,
        ensures final(self).shape() == old(self).shape(), r == old(self).scaling_ok_spec(s@, z@, mu, scaling_strategy),
            old(self).scaled_rel(*final(self), s@, z@, mu, scaling_strategy),
    { unimplemented!() }
    pub uninterp spec fn hs_rel(&self, h0: Seq<F>, h1: Seq<F>) -> bool;
    #[verifier::external_body]
    pub fn get_Hs(&self, Hsblock: &mut [F])
        requires old(Hsblock)@.len() == self.blk_spec(),
        ensures final(Hsblock)@.len() == old(Hsblock)@.len(), self.hs_rel(old(Hsblock)@, final(Hsblock)@),
    { unimplemented!() }
    pub uninterp spec fn mul_hs_rel(&self, post: SupportedCone<F>, y0: Seq<F>, y1: Seq<F>, x: Seq<F>, w0: Seq<F>, w1: Seq<F>) -> bool;
    #[verifier::external_body]
    pub fn mul_Hs(&mut self, y: &mut [F], x: &[F], work: &mut [F])
        requires old(y)@.len() == old(self).shape().numel, x@.len() == old(self).shape().numel, old(work)@.len() == old(self).shape().numel,
        ensures final(self).shape() == old(self).shape(), final(y)@.len() == old(y)@.len(), final(work)@.len() == old(work)@.len(),
            old(self).mul_hs_rel(*final(self), old(y)@, final(y)@, x@, old(work)@, final(work)@),
    { unimplemented!() }
    pub uninterp spec fn affine_ds_rel(&self, ds0: Seq<F>, ds1: Seq<F>, s: Seq<F>) -> bool;
    #[verifier::external_body]
    pub fn affine_ds(&self, ds: &mut [F], s: &[F])
        requires old(ds)@.len() == self.shape().numel, s@.len() == self.shape().numel,
        ensures final(ds)@.len() == old(ds)@.len(), self.affine_ds_rel(old(ds)@, final(ds)@, s@),
    { unimplemented!() }
    pub uninterp spec fn ds_shift_rel(&self, post: SupportedCone<F>, sh0: Seq<F>, sh1: Seq<F>, sz0: Seq<F>, sz1: Seq<F>, ss0: Seq<F>, ss1: Seq<F>, sm: F) -> bool;
    #[verifier::external_body]
    pub fn combined_ds_shift(&mut self, shift: &mut [F], step_z: &mut [F], step_s: &mut [F], sigmamu: F)
        requires old(shift)@.len() == old(self).shape().numel, old(step_z)@.len() == old(self).shape().numel, old(step_s)@.len() == old(self).shape().numel,
        ensures final(self).shape() == old(self).shape(), final(shift)@.len() == old(shift)@.len(), final(step_z)@.len() == old(step_z)@.len(), final(step_s)@.len() == old(step_s)@.len(),
            old(self).ds_shift_rel(*final(self), old(shift)@, final(shift)@, old(step_z)@, final(step_z)@, old(step_s)@, final(step_s)@, sigmamu),
    { unimplemented!() }
    pub uninterp spec fn ds_from_dz_rel(&self, post: SupportedCone<F>, o0: Seq<F>, o1: Seq<F>, ds: Seq<F>, w0: Seq<F>, w1: Seq<F>, z: Seq<F>) -> bool;
    #[verifier::external_body]
    pub fn Deltas_from_Deltaz_offset(&mut self, out: &mut [F], ds: &[F], work: &mut [F], z: &[F])
        requires old(out)@.len() == old(self).shape().numel, ds@.len() == old(self).shape().numel, old(work)@.len() == old(self).shape().numel, z@.len() == old(self).shape().numel,
        ensures final(self).shape() == old(self).shape(), final(out)@.len() == old(out)@.len(), final(work)@.len() == old(work)@.len(),
            old(self).ds_from_dz_rel(*final(self), old(out)@, final(out)@, ds@, old(work)@, final(work)@, z@),
    { unimplemented!() }
    pub uninterp spec fn barrier_spec(&self, z: Seq<F>, s: Seq<F>, dz: Seq<F>, ds: Seq<F>, a: F) -> F;
    #[verifier::external_body]
    pub fn compute_barrier(&mut self, z: &[F], s: &[F], dz: &[F], ds: &[F], alpha: F) -> (r: F)
        requires z@.len() == old(self).shape().numel, s@.len() == z@.len(), dz@.len() == z@.len(), ds@.len() == z@.len(),
        ensures final(self).shape() == old(self).shape(), r == old(self).barrier_spec(z@, s@, dz@, ds@, alpha),
    { unimplemented!() }
}
//@struct file=src/solver/core/cones/compositecone.rs name=CompositeCone keep=cones,numel,degree,rng_cones,rng_blocks,_is_symmetric

// ------------------------------------------------------------------ ranges: contiguous partition of 0..total
pub open spec fn offs(cones: Seq<SupportedCone<F>>, k: int) -> int decreases k { if k <= 0 { 0 } else { offs(cones, k - 1) + cones[k - 1].numel_spec() } }
pub open spec fn boffs(cones: Seq<SupportedCone<F>>, k: int) -> int decreases k { if k <= 0 { 0 } else { boffs(cones, k - 1) + cones[k - 1].blk_spec() } }
#[verifier::opaque]
pub open spec fn rngs_ok(cones: Seq<SupportedCone<F>>, r: Seq<Range<usize>>) -> bool {
    &&& r.len() == cones.len()
    &&& forall|i: int| 0 <= i < cones.len() ==> (#[trigger] r[i]).start == offs(cones, i)
    &&& forall|i: int| 0 <= i < cones.len() ==> (#[trigger] r[i]).end == offs(cones, i + 1)
}
#[verifier::opaque]
pub open spec fn brngs_ok(cones: Seq<SupportedCone<F>>, r: Seq<Range<usize>>) -> bool {
    &&& r.len() == cones.len()
    &&& forall|i: int| 0 <= i < cones.len() ==> (#[trigger] r[i]).start == boffs(cones, i)
    &&& forall|i: int| 0 <= i < cones.len() ==> (#[trigger] r[i]).end == boffs(cones, i + 1)
}
// loop state of make_rng_*: the first k ranges are in place (taking &Vec fixes the element type of `Vec::with_capacity`, which rustc
// would otherwise only infer from the later `push`)
pub open spec fn prefix_ok(cones: Seq<SupportedCone<F>>, r: &Vec<Range<usize>>, k: int, blocks: bool) -> bool {
    &&& r@.len() == k
    &&& forall|i: int| 0 <= i < k ==> (#[trigger] r@[i]).start == (if blocks { boffs(cones, i) } else { offs(cones, i) })
    &&& forall|i: int| 0 <= i < k ==> (#[trigger] r@[i]).end == (if blocks { boffs(cones, i + 1) } else { offs(cones, i + 1) })
}
pub proof fn lemma_offs_mono(cones: Seq<SupportedCone<F>>, i: int, j: int)
    requires 0 <= i <= j, ensures 0 <= offs(cones, i) <= offs(cones, j), decreases j
{ if i < j { lemma_offs_mono(cones, i, j - 1); } else if j > 0 { lemma_offs_mono(cones, 0, j - 1); lemma_offs_mono(cones, j - 1, j - 1); } }
pub proof fn lemma_tri_nonneg(k: int) requires k >= 0 ensures tri(k) >= 0 { assert(k * (k + 1) >= 0) by(nonlinear_arith) requires k >= 0; }
pub proof fn lemma_boffs_mono(cones: Seq<SupportedCone<F>>, i: int, j: int)
    requires 0 <= i <= j, ensures 0 <= boffs(cones, i) <= boffs(cones, j), decreases j
{
    if j > 0 { lemma_tri_nonneg(cones[j - 1].shape().numel as int); }
    if i < j { lemma_boffs_mono(cones, i, j - 1); } else if j > 0 { lemma_boffs_mono(cones, 0, j - 1); lemma_boffs_mono(cones, j - 1, j - 1); }
}

//@fn file=src/solver/core/cones/compositecone.rs name=make_rng_cones rules=R1,zipidx:1=i ret=r
//@contract
    requires offs(cones@, cones@.len() as int) <= usize::MAX,
    ensures rngs_ok(cones@, r@),
//@pre
    reveal(rngs_ok);
//@loop 1
            invariant
                prefix_ok(cones@, &rngs, $var1 as int, false),
                r14_n1 == cones@.len(), start == offs(cones@, $var1 as int),
                offs(cones@, cones@.len() as int) <= usize::MAX,
//@body_start 1
                proof { lemma_offs_mono(cones@, $var1 as int + 1, cones@.len() as int); }
//@end

//@fn file=src/solver/core/cones/compositecone.rs name=make_rng_blocks rules=R1,zipidx:1=i ret=r
//@contract
    requires boffs(cones@, cones@.len() as int) <= usize::MAX,
        forall|i: int| 0 <= i < cones@.len() ==> !(#[trigger] cones@[i]).shape().hs_diag ==> cones@[i].shape().numel < 0x1_0000_0000,
    ensures brngs_ok(cones@, r@),
//@pre
    reveal(brngs_ok);
//@loop 1
            invariant
                prefix_ok(cones@, &rngs, $var1 as int, true),
                r14_n1 == cones@.len(), start == boffs(cones@, $var1 as int),
                boffs(cones@, cones@.len() as int) <= usize::MAX,
                forall|i: int| 0 <= i < cones@.len() ==> !(#[trigger] cones@[i]).shape().hs_diag ==> cones@[i].shape().numel < 0x1_0000_0000,
//@body_start 1
                proof { lemma_boffs_mono(cones@, $var1 as int + 1, cones@.len() as int); }
//@end

// ------------------------------------------------------------------ CompositeCone: well-formedness = what `new` establishes
pub open spec fn sl(z: Seq<F>, r: Range<usize>) -> Seq<F> { z.subrange(r.start as int, r.end as int) }
pub open spec fn all_sym(cones: Seq<SupportedCone<F>>) -> bool { forall|i: int| 0 <= i < cones.len() ==> (#[trigger] cones[i]).shape().sym }
impl CompositeCone<F> {
    pub open spec fn wf(&self) -> bool {
        &&& rngs_ok(self.cones@, self.rng_cones@) && self.rng_cones@.len() == self.cones@.len()
        &&& brngs_ok(self.cones@, self.rng_blocks@) && self.rng_blocks@.len() == self.cones@.len()
        &&& self.numel == offs(self.cones@, self.cones@.len() as int)
        &&& self._is_symmetric == all_sym(self.cones@)
    }
    // the cone objects may have changed their internal state, nothing else
    pub open spec fn same_frame(&self, o: &CompositeCone<F>) -> bool {
        &&& self.rng_cones@ == o.rng_cones@ && self.rng_blocks@ == o.rng_blocks@ && self.numel == o.numel && self.degree == o.degree
        &&& self._is_symmetric == o._is_symmetric && self.cones@.len() == o.cones@.len()
        &&& forall|i: int| 0 <= i < o.cones@.len() ==> (#[trigger] self.cones@[i]).shape() == o.cones@[i].shape()
    }
}
// every range lies inside 0..numel, ranges are ordered
pub proof fn lemma_rng_in(cones: Seq<SupportedCone<F>>, r: Seq<Range<usize>>, i: int)
    requires rngs_ok(cones, r), 0 <= i < cones.len(),
    ensures 0 <= r[i].start <= r[i].end <= offs(cones, cones.len() as int), r[i].end - r[i].start == cones[i].numel_spec(),
{ reveal(rngs_ok); lemma_offs_mono(cones, i, i + 1); lemma_offs_mono(cones, i + 1, cones.len() as int); }
// PARTITION: every index below the total lies in exactly one range
pub proof fn lemma_partition(cones: Seq<SupportedCone<F>>, r: Seq<Range<usize>>, k: int, n: int)
    requires rngs_ok(cones, r), 0 <= n <= cones.len(), 0 <= k < offs(cones, n),
    ensures exists|i: int| 0 <= i < n && (#[trigger] r[i]).start <= k < r[i].end,
    decreases n
{
    reveal(rngs_ok);
    if n > 0 {
        if k >= offs(cones, n - 1) { assert(r[n - 1].start <= k < r[n - 1].end); }
        else { lemma_partition(cones, r, k, n - 1); let i = choose|i: int| 0 <= i < n - 1 && (#[trigger] r[i]).start <= k < r[i].end; assert(r[i].start <= k < r[i].end); }
    }
}
// the ranges and flags depend on the shapes of the cones only
pub proof fn lemma_offs_ext(c1: Seq<SupportedCone<F>>, c2: Seq<SupportedCone<F>>, k: int)
    requires 0 <= k <= c1.len(), c1.len() == c2.len(), forall|i: int| 0 <= i < c1.len() ==> (#[trigger] c1[i]).shape() == c2[i].shape(),
    ensures offs(c1, k) == offs(c2, k), boffs(c1, k) == boffs(c2, k),
    decreases k
{ if k > 0 { lemma_offs_ext(c1, c2, k - 1); assert(c1[k - 1].shape() == c2[k - 1].shape()); } }
pub proof fn lemma_frame_wf(a: &CompositeCone<F>, b: &CompositeCone<F>)
    requires a.wf(), b.same_frame(a),
    ensures b.wf(),
{
    reveal(rngs_ok); reveal(brngs_ok);
    let n = a.cones@.len() as int;
    assert forall|k: int| 0 <= k <= n implies offs(b.cones@, k) == offs(a.cones@, k) && boffs(b.cones@, k) == boffs(a.cones@, k) by { lemma_offs_ext(b.cones@, a.cones@, k); }
    assert(rngs_ok(b.cones@, b.rng_cones@)) by {
        assert forall|i: int| 0 <= i < n implies (#[trigger] b.rng_cones@[i]).start == offs(b.cones@, i) && b.rng_cones@[i].end == offs(b.cones@, i + 1) by {
            assert(a.rng_cones@[i].start == offs(a.cones@, i) && a.rng_cones@[i].end == offs(a.cones@, i + 1));
        }
    }
    assert(brngs_ok(b.cones@, b.rng_blocks@)) by {
        assert forall|i: int| 0 <= i < n implies (#[trigger] b.rng_blocks@[i]).start == boffs(b.cones@, i) && b.rng_blocks@[i].end == boffs(b.cones@, i + 1) by {
            assert(a.rng_blocks@[i].start == boffs(a.cones@, i) && a.rng_blocks@[i].end == boffs(a.cones@, i + 1));
        }
    }
    if all_sym(a.cones@) {
        assert forall|i: int| 0 <= i < n implies (#[trigger] b.cones@[i]).shape().sym by { assert(a.cones@[i].shape().sym); }
    } else {
        let w = choose|i: int| 0 <= i < n && !(#[trigger] a.cones@[i]).shape().sym;
        assert(!b.cones@[w].shape().sym);
    }
}
pub proof fn lemma_disjoint(cones: Seq<SupportedCone<F>>, r: Seq<Range<usize>>, i: int, j: int)
    requires rngs_ok(cones, r), 0 <= i < j < cones.len(),
    ensures r[i].end <= r[j].start,
{ reveal(rngs_ok); lemma_offs_mono(cones, i + 1, j); }
// block ranges: same facts
pub proof fn lemma_brng_in(cones: Seq<SupportedCone<F>>, r: Seq<Range<usize>>, i: int)
    requires brngs_ok(cones, r), 0 <= i < cones.len(),
    ensures 0 <= r[i].start <= r[i].end <= boffs(cones, cones.len() as int), r[i].end - r[i].start == cones[i].blk_spec(),
{ reveal(brngs_ok); lemma_boffs_mono(cones, i, i + 1); lemma_boffs_mono(cones, i + 1, cones.len() as int); }
pub proof fn lemma_bdisjoint(cones: Seq<SupportedCone<F>>, r: Seq<Range<usize>>, i: int, j: int)
    requires brngs_ok(cones, r), 0 <= i < j < cones.len(),
    ensures r[i].end <= r[j].start,
{ reveal(brngs_ok); lemma_boffs_mono(cones, i + 1, j); }
// FRAME: a write into the k-th range leaves every other cone's sub-vector as it was
pub open spec fn same_outside(v0: Seq<F>, v1: Seq<F>, r: Range<usize>) -> bool {
    v1.len() == v0.len() && forall|j: int| 0 <= j < v0.len() && !(r.start <= j < r.end) ==> #[trigger] v1[j] == v0[j]
}
pub proof fn lemma_frame_cones(cones: Seq<SupportedCone<F>>, r: Seq<Range<usize>>, v0: Seq<F>, v1: Seq<F>, k: int)
    requires rngs_ok(cones, r), 0 <= k < cones.len(), v0.len() == offs(cones, cones.len() as int), same_outside(v0, v1, r[k]),
    ensures forall|i: int| 0 <= i < cones.len() && i != k ==> #[trigger] sl(v1, r[i]) == sl(v0, r[i]),
{
    assert forall|i: int| 0 <= i < cones.len() && i != k implies #[trigger] sl(v1, r[i]) == sl(v0, r[i]) by {
        if i < k { lemma_disjoint(cones, r, i, k); } else { lemma_disjoint(cones, r, k, i); }
        lemma_rng_in(cones, r, i);
        assert(sl(v1, r[i]) =~= sl(v0, r[i]));
    }
}
pub proof fn lemma_frame_blocks(cones: Seq<SupportedCone<F>>, r: Seq<Range<usize>>, v0: Seq<F>, v1: Seq<F>, k: int)
    requires brngs_ok(cones, r), 0 <= k < cones.len(), v0.len() == boffs(cones, cones.len() as int), same_outside(v0, v1, r[k]),
    ensures forall|i: int| 0 <= i < cones.len() && i != k ==> #[trigger] sl(v1, r[i]) == sl(v0, r[i]),
{
    assert forall|i: int| 0 <= i < cones.len() && i != k implies #[trigger] sl(v1, r[i]) == sl(v0, r[i]) by {
        if i < k { lemma_bdisjoint(cones, r, i, k); } else { lemma_bdisjoint(cones, r, k, i); }
        lemma_brng_in(cones, r, i);
        assert(sl(v1, r[i]) =~= sl(v0, r[i]));
    }
}


impl CompositeCone<F> {
//@fn file=src/solver/core/cones/compositecone.rs in="Cone<T> for CompositeCone<T>" name=rectify_equilibration rules=R1,R2,boolor,zipidx ret=r params=delta,e attrs="#[verifier::spinoff_prover]"
//@contract
    requires self.wf(), old(delta)@.len() == self.numel, e@.len() == self.numel,
    ensures final(delta)@.len() == old(delta)@.len(),
        // C10: inside every cone the correction is all ones (scalar cones) or uniform (e_i * delta_i constant over the cone) ...
        forall|i: int| 0 <= i < self.cones@.len() ==> #[trigger] rect_done(self.cones@[i], sl(final(delta)@, self.rng_cones@[i]), sl(e@, self.rng_cones@[i])),
        // ... and the flag is the OR of the per-cone flags
        r == exists|i: int| 0 <= i < self.cones@.len() && #[trigger] self.cones@[i].rect_spec(sl(e@, self.rng_cones@[i])),
//@loop 1
            invariant
                self.wf(), delta@.len() == self.numel, e@.len() == self.numel, r14_n1 == self.cones@.len(),
                forall|i: int| 0 <= i < $var1 ==> #[trigger] rect_done(self.cones@[i], sl(delta@, self.rng_cones@[i]), sl(e@, self.rng_cones@[i])),
                any_changed == exists|i: int| 0 <= i < $var1 && #[trigger] self.cones@[i].rect_spec(sl(e@, self.rng_cones@[i])),
//@body_start 1
                let ghost d0 = delta@;
                let ghost ac0 = any_changed;
                proof { lemma_rng_in(self.cones@, self.rng_cones@, $var1 as int); }
//@body_end 1
                proof {
                    let k = $var1 as int;
                    assert(sl(delta@, self.rng_cones@[k]) == deltai@);
                    assert(sl(e@, self.rng_cones@[k]) == ei@);
                    assert forall|i: int| 0 <= i < k implies #[trigger] rect_done(self.cones@[i], sl(delta@, self.rng_cones@[i]), sl(e@, self.rng_cones@[i])) by {
                        lemma_disjoint(self.cones@, self.rng_cones@, i, k);
                        lemma_rng_in(self.cones@, self.rng_cones@, i);
                        assert(sl(delta@, self.rng_cones@[i]) == sl(d0, self.rng_cones@[i]));
                        assert(rect_done(self.cones@[i], sl(d0, self.rng_cones@[i]), sl(e@, self.rng_cones@[i])));
                    }
                    if ac0 {
                        let w = choose|i: int| 0 <= i < k && #[trigger] self.cones@[i].rect_spec(sl(e@, self.rng_cones@[i]));
                        assert(0 <= w < k + 1 && self.cones@[w].rect_spec(sl(e@, self.rng_cones@[w])));
                    }
                }
//@end
}
pub open spec fn rect_done(c: SupportedCone<F>, d: Seq<F>, e: Seq<F>) -> bool {
    if c.rect_spec(e) { uniform(d, e) } else { all_ones(d) }
}

// ------------------------------------------------------------------ margins / scaled_unit_shift (C15, C07): left folds over the cones
// composite margin: min over the cones of the per-cone margins, starting from max_value (as the code does)
pub open spec fn cm(cones: Seq<SupportedCone<F>>, r: Seq<Range<usize>>, z: Seq<F>, pd: PrimalOrDualCone, k: int) -> real decreases k {
    if k <= 0 { f_maxval().v() } else { rmin(cm(cones, r, z, pd, k - 1), cones[k - 1].margin_spec(sl(z, r[k - 1]), pd)) } }
// composite total margin: sum over the cones
pub open spec fn cb(cones: Seq<SupportedCone<F>>, r: Seq<Range<usize>>, z: Seq<F>, pd: PrimalOrDualCone, k: int) -> real decreases k {
    if k <= 0 { 0real } else { cb(cones, r, z, pd, k - 1) + cones[k - 1].beta_spec(sl(z, r[k - 1]), pd) } }
// the folds look at the first k cones only
pub proof fn lemma_cm_ext(c1: Seq<SupportedCone<F>>, c2: Seq<SupportedCone<F>>, r: Seq<Range<usize>>, z: Seq<F>, pd: PrimalOrDualCone, k: int)
    requires 0 <= k <= c1.len(), c1.len() == c2.len(), forall|i: int| 0 <= i < k ==> c1[i] == c2[i],
    ensures cm(c1, r, z, pd, k) == cm(c2, r, z, pd, k), cb(c1, r, z, pd, k) == cb(c2, r, z, pd, k),
    decreases k
{ if k > 0 { lemma_cm_ext(c1, c2, r, z, pd, k - 1); } }
// a shift by a moves every per-cone margin by a (or leaves it at max_value: zero cone), so the composite margin is at least
// min(old + a, max_value), and at most old + a for a >= 0
pub proof fn lemma_cm_shift(cones: Seq<SupportedCone<F>>, r: Seq<Range<usize>>, z0: Seq<F>, z1: Seq<F>, a: real, pd: PrimalOrDualCone, k: int)
    requires 0 <= k <= cones.len(), forall|i: int| 0 <= i < k ==> #[trigger] cones[i].shift_post(sl(z0, r[i]), sl(z1, r[i]), a, pd),
    ensures cm(cones, r, z1, pd, k) >= rmin(cm(cones, r, z0, pd, k) + a, f_maxval().v()),
        a >= 0real ==> cm(cones, r, z1, pd, k) <= cm(cones, r, z0, pd, k) + a,
        cm(cones, r, z1, pd, k) <= f_maxval().v(),
    decreases k
{ if k > 0 { lemma_cm_shift(cones, r, z0, z1, a, pd, k - 1); assert(cones[k - 1].shift_post(sl(z0, r[k - 1]), sl(z1, r[k - 1]), a, pd)); } }

impl CompositeCone<F> {
    pub open spec fn margin(&self, z: Seq<F>, pd: PrimalOrDualCone) -> real { cm(self.cones@, self.rng_cones@, z, pd, self.cones@.len() as int) }
    pub open spec fn total_margin(&self, z: Seq<F>, pd: PrimalOrDualCone) -> real { cb(self.cones@, self.rng_cones@, z, pd, self.cones@.len() as int) }
//@fn file=src/solver/core/cones/compositecone.rs in="Cone<T> for CompositeCone<T>" name=margins rules=R1,R2,zipidx ret=r params=z,pd attrs="#[verifier::spinoff_prover]"
//@contract
    requires old(self).wf(), old(z)@.len() == old(self).numel,
        // the nonsymmetric cones panic here (unreachable!): symmetric_initialization is only used when all cones are symmetric
        old(self)._is_symmetric,
    ensures final(z)@ == old(z)@, final(self).cones@ == old(self).cones@, final(self).same_frame(old(self)), final(self).wf(),
        // C15: minimum margin = min over the cones (from max_value), total margin = sum over the cones, >= 0
        r.0.v() == old(self).margin(old(z)@, pd), r.1.v() == old(self).total_margin(old(z)@, pd), r.1.v() >= 0real,
//@pre
        broadcast use real_arith;
//@loop 1
            invariant
                self.wf(), self._is_symmetric, z@ == old(z)@, z@.len() == self.numel, r14_n1 == self.cones@.len(),
                self.cones@ == old(self).cones@, self.same_frame(old(self)),
                alpha.v() == cm(self.cones@, self.rng_cones@, z@, pd, $var1 as int),
                beta.v() == cb(self.cones@, self.rng_cones@, z@, pd, $var1 as int), beta.v() >= 0real,
//@body_start 1
                broadcast use real_arith;
                let ghost z0 = z@;
                let ghost c0 = self.cones@;
                proof { lemma_rng_in(self.cones@, self.rng_cones@, $var1 as int); }
//@body_end 1
                proof {
                    assert(z@ =~= z0);
                    assert(self.cones@ =~= c0);
                }
//@end
//@fn file=src/solver/core/cones/compositecone.rs in="Cone<T> for CompositeCone<T>" name=scaled_unit_shift rules=R1,R2,zipidx params=z,alpha,pd attrs="#[verifier::spinoff_prover]"
//@contract
    requires self.wf(), old(z)@.len() == self.numel, self._is_symmetric,
    ensures final(z)@.len() == old(z)@.len(),
        // every cone's own slice is shifted along that cone's identity ...
        forall|i: int| 0 <= i < self.cones@.len() ==> #[trigger] self.cones@[i].shift_post(sl(old(z)@, self.rng_cones@[i]), sl(final(z)@, self.rng_cones@[i]), alpha.v(), pd),
        // ... hence the composite margin moves by alpha, except that zero cones stay at max_value
        self.margin(final(z)@, pd) >= rmin(self.margin(old(z)@, pd) + alpha.v(), f_maxval().v()),
        alpha.v() >= 0real ==> self.margin(final(z)@, pd) <= self.margin(old(z)@, pd) + alpha.v(),
//@loop 1
            invariant
                self.wf(), self._is_symmetric, z@.len() == self.numel, z@.len() == old(z)@.len(), r14_n1 == self.cones@.len(),
                forall|i: int| 0 <= i < $var1 ==> #[trigger] self.cones@[i].shift_post(sl(old(z)@, self.rng_cones@[i]), sl(z@, self.rng_cones@[i]), alpha.v(), pd),
                forall|i: int| $var1 <= i < self.cones@.len() ==> #[trigger] sl(z@, self.rng_cones@[i]) == sl(old(z)@, self.rng_cones@[i]),
//@body_start 1
                let ghost z0 = z@;
                proof { lemma_rng_in(self.cones@, self.rng_cones@, $var1 as int); }
//@body_end 1
                proof {
                    let k = $var1 as int;
                    assert forall|i: int| 0 <= i < self.cones@.len() && i != k implies #[trigger] sl(z@, self.rng_cones@[i]) == sl(z0, self.rng_cones@[i]) by {
                        if i < k { lemma_disjoint(self.cones@, self.rng_cones@, i, k); } else { lemma_disjoint(self.cones@, self.rng_cones@, k, i); }
                        lemma_rng_in(self.cones@, self.rng_cones@, i);
                        assert(sl(z@, self.rng_cones@[i]) =~= sl(z0, self.rng_cones@[i]));
                    }
                    assert(sl(z0, self.rng_cones@[k]) == sl(old(z)@, self.rng_cones@[k]));
                }
//@post
        proof { lemma_cm_shift(self.cones@, self.rng_cones@, old(z)@, z@, alpha.v(), pd, self.cones@.len() as int); }
//@end
}

// ------------------------------------------------------------------ step_length (C15, C07)
// cone c was asked for its step with some running maximum a in [lo, hi], and lo does not exceed what it answered
pub open spec fn visited(c: SupportedCone<F>, dz: Seq<F>, ds: Seq<F>, z: Seq<F>, s: Seq<F>, st: DefaultSettings<F>, lo: real, hi: real) -> bool {
    exists|a: F| lo <= a.v() <= hi && lo <= (#[trigger] c.step_spec(dz, ds, z, s, st, a)).0.v() && lo <= c.step_spec(dz, ds, z, s, st, a).1.v()
}
pub proof fn lemma_visited_mono(c: SupportedCone<F>, dz: Seq<F>, ds: Seq<F>, z: Seq<F>, s: Seq<F>, st: DefaultSettings<F>, lo: real, hi: real, lo2: real, hi2: real)
    requires visited(c, dz, ds, z, s, st, lo, hi), lo2 <= lo, hi <= hi2,
    ensures visited(c, dz, ds, z, s, st, lo2, hi2),
{
    let a = choose|a: F| lo <= a.v() <= hi && lo <= (#[trigger] c.step_spec(dz, ds, z, s, st, a)).0.v() && lo <= c.step_spec(dz, ds, z, s, st, a).1.v();
    assert(lo2 <= a.v() <= hi2 && lo2 <= c.step_spec(dz, ds, z, s, st, a).0.v() && lo2 <= c.step_spec(dz, ds, z, s, st, a).1.v());
}
// the cones of one symmetry class have their current points where the per-cone step rule expects them
pub open spec fn interior_all(cones: Seq<SupportedCone<F>>, r: Seq<Range<usize>>, z: Seq<F>, s: Seq<F>, skip_sym: bool) -> bool {
    forall|i: int| 0 <= i < cones.len() && (#[trigger] cones[i]).shape().sym != skip_sym ==> cones[i].interior_spec(sl(z, r[i]), sl(s, r[i]))
}
pub open spec fn vis_at(c: &CompositeCone<F>, i: int, dz: Seq<F>, ds: Seq<F>, z: Seq<F>, s: Seq<F>, st: DefaultSettings<F>, lo: real, hi: real) -> bool {
    visited(c.cones@[i], sl(dz, c.rng_cones@[i]), sl(ds, c.rng_cones@[i]), sl(z, c.rng_cones@[i]), sl(s, c.rng_cones@[i]), st, lo, hi)
}
impl CompositeCone<F> {
//@fn file=src/solver/core/cones/compositecone.rs in="Cone<T> for CompositeCone<T>" name=is_symmetric ret=r
//@contract
    ensures r == self._is_symmetric
//@end
// the closure `innerfcn` of step_length, hoisted mechanically (extract.py: hoist_closure) into a method of its own
//@fn file=src/solver/core/cones/compositecone.rs in="Cone<T> for CompositeCone<T>" name=step_length hoist=innerfcn part=closure captures=dz,ds,z,s,settings rules=R1,R2,zipidx,R11z ret=r attrs="#[verifier::spinoff_prover]"
//@contract
    requires old(self).wf(), dz@.len() == old(self).numel, ds@.len() == old(self).numel, z@.len() == old(self).numel, s@.len() == old(self).numel,
    ensures final(self).same_frame(old(self)), final(self).wf(),
        // the running maximum only decreases
        r.v() <= alpha.v(),
        // the cones of the skipped symmetry class are not touched ...
        forall|i: int| 0 <= i < old(self).cones@.len() && (#[trigger] old(self).cones@[i]).shape().sym == symcond ==> final(self).cones@[i] == old(self).cones@[i],
        // ... every other cone was asked, with its own four sub-vectors, and the result does not exceed its answer
        forall|i: int| 0 <= i < old(self).cones@.len() && (#[trigger] old(self).cones@[i]).shape().sym != symcond ==> vis_at(old(self), i, dz@, ds@, z@, s@, *settings, r.v(), alpha.v()),
        alpha.v() >= 0real && interior_all(old(self).cones@, old(self).rng_cones@, z@, s@, symcond) ==> r.v() >= 0real,
//@pre
            broadcast use real_arith;
            let ghost a_in = alpha;
//@loop 1
                invariant
                    self.wf(), self.same_frame(old(self)), r11_end1 == self.cones@.len(), r11_it1 <= r11_end1,
                    dz@.len() == self.numel, ds@.len() == self.numel, z@.len() == self.numel, s@.len() == self.numel,
                    alpha.v() <= a_in.v(),
                    forall|i: int| r11_it1 <= i < self.cones@.len() ==> #[trigger] self.cones@[i] == old(self).cones@[i],
                    forall|i: int| 0 <= i < self.cones@.len() && (#[trigger] old(self).cones@[i]).shape().sym == symcond ==> self.cones@[i] == old(self).cones@[i],
                    forall|i: int| 0 <= i < r11_it1 && (#[trigger] old(self).cones@[i]).shape().sym != symcond ==> vis_at(old(self), i, dz@, ds@, z@, s@, *settings, alpha.v(), a_in.v()),
                    a_in.v() >= 0real && interior_all(old(self).cones@, old(self).rng_cones@, z@, s@, symcond) ==> alpha.v() >= 0real,
                decreases r11_end1 - r11_it1
//@body_start 1
                    broadcast use real_arith;
                    let ghost a0 = alpha;
                    let ghost k = r11_it1 as int;
                    let ghost pre = *self;
                    proof { lemma_rng_in(self.cones@, self.rng_cones@, k); }
//@before "continue;"
                    proof { assert(self.cones@ =~= pre.cones@); }
//@body_end 1
                    proof {
                        assert(self.same_frame(&pre));
                        lemma_frame_wf(&pre, self);
                        assert(old(self).cones@[k].shape().sym != symcond);
                        let st = old(self).cones@[k].step_spec(sl(dz@, self.rng_cones@[k]), sl(ds@, self.rng_cones@[k]), sl(z@, self.rng_cones@[k]), sl(s@, self.rng_cones@[k]), *settings, a0);
                        assert(st == (nextalphaz, nextalphas));
                        assert(vis_at(old(self), k, dz@, ds@, z@, s@, *settings, alpha.v(), a_in.v()));
                        assert forall|i: int| 0 <= i < k && (#[trigger] old(self).cones@[i]).shape().sym != symcond implies vis_at(old(self), i, dz@, ds@, z@, s@, *settings, alpha.v(), a_in.v()) by {
                            lemma_visited_mono(old(self).cones@[i], sl(dz@, self.rng_cones@[i]), sl(ds@, self.rng_cones@[i]), sl(z@, self.rng_cones@[i]), sl(s@, self.rng_cones@[i]), *settings, a0.v(), a_in.v(), alpha.v(), a_in.v());
                        }
                    }
//@end
//@fn file=src/solver/core/cones/compositecone.rs in="Cone<T> for CompositeCone<T>" name=step_length hoist=innerfcn part=outer captures=dz,ds,z,s,settings rules=R1,R2 ret=r
//@contract
    requires old(self).wf(), dz@.len() == old(self).numel, ds@.len() == old(self).numel, z@.len() == old(self).numel, s@.len() == old(self).numel,
    ensures final(self).same_frame(old(self)), final(self).wf(),
        // C15 / C07: one common step for z and s, never above the requested maximum ...
        r.0 == r.1, r.0.v() <= alphamax.v(),
        // ... backed off to max_step_fraction as soon as one cone is not symmetric ...
        !old(self)._is_symmetric ==> r.0.v() <= settings.max_step_fraction.v(),
        // ... and not above the step of ANY cone: every cone was asked exactly once with its own sub-vectors and a maximum in [r, alphamax]
        forall|i: int| 0 <= i < old(self).cones@.len() ==> #[trigger] vis_at(old(self), i, dz@, ds@, z@, s@, *settings, r.0.v(), alphamax.v()),
        // nonnegative if every cone's step is (per-cone contract: for points inside the cone)
        alphamax.v() >= 0real && settings.max_step_fraction.v() >= 0real && interior_all(old(self).cones@, old(self).rng_cones@, z@, s@, true)
            && interior_all(old(self).cones@, old(self).rng_cones@, z@, s@, false) ==> r.0.v() >= 0real,
//@pre
        broadcast use real_arith;
//@after "innerfcn(dz, ds, z, s, settings, alpha, true)"
        let ghost mid = *self;
        let ghost a1 = alpha;
//@before "(alpha,"
        proof {
            let a2 = alpha;
            assert forall|i: int| 0 <= i < old(self).cones@.len() implies #[trigger] vis_at(old(self), i, dz@, ds@, z@, s@, *settings, a2.v(), alphamax.v()) by {
                let c = old(self).cones@[i]; let rg = old(self).rng_cones@[i];
                if c.shape().sym {
                    // untouched by the first pass, asked in the second
                    assert(mid.cones@[i] == c);
                    assert(mid.cones@[i].shape().sym != false);
                    assert(vis_at(&mid, i, dz@, ds@, z@, s@, *settings, a2.v(), rmin(settings.max_step_fraction.v(), a1.v())) || vis_at(&mid, i, dz@, ds@, z@, s@, *settings, a2.v(), a1.v()));
                    if old(self)._is_symmetric {
                        lemma_visited_mono(c, sl(dz@, rg), sl(ds@, rg), sl(z@, rg), sl(s@, rg), *settings, a2.v(), a1.v(), a2.v(), alphamax.v());
                    } else {
                        lemma_visited_mono(c, sl(dz@, rg), sl(ds@, rg), sl(z@, rg), sl(s@, rg), *settings, a2.v(), rmin(settings.max_step_fraction.v(), a1.v()), a2.v(), alphamax.v());
                    }
                } else {
                    assert(c.shape().sym != true);
                    assert(vis_at(old(self), i, dz@, ds@, z@, s@, *settings, a1.v(), alphamax.v()));
                    lemma_visited_mono(c, sl(dz@, rg), sl(ds@, rg), sl(z@, rg), sl(s@, rg), *settings, a1.v(), alphamax.v(), a2.v(), alphamax.v());
                }
            }
        }
//@end
}

// ------------------------------------------------------------------ the remaining dispatch loops: every cone gets exactly its own sub-vectors
pub open spec fn ui_at(c: &CompositeCone<F>, i: int, z: Seq<F>, s: Seq<F>) -> bool { c.cones@[i].unit_init_rel(sl(z, c.rng_cones@[i]), sl(s, c.rng_cones@[i])) }
pub open spec fn hs_at(c: &CompositeCone<F>, i: int, h0: Seq<F>, h1: Seq<F>) -> bool { c.cones@[i].hs_rel(sl(h0, c.rng_blocks@[i]), sl(h1, c.rng_blocks@[i])) }
pub open spec fn ads_at(c: &CompositeCone<F>, i: int, d0: Seq<F>, d1: Seq<F>, s: Seq<F>) -> bool { c.cones@[i].affine_ds_rel(sl(d0, c.rng_cones@[i]), sl(d1, c.rng_cones@[i]), sl(s, c.rng_cones@[i])) }
pub open spec fn mul_at(c: &CompositeCone<F>, n: &CompositeCone<F>, i: int, y0: Seq<F>, y1: Seq<F>, x: Seq<F>, w0: Seq<F>, w1: Seq<F>) -> bool {
    let r = c.rng_cones@[i]; c.cones@[i].mul_hs_rel(n.cones@[i], sl(y0, r), sl(y1, r), sl(x, r), sl(w0, r), sl(w1, r)) }
pub open spec fn cds_at(c: &CompositeCone<F>, n: &CompositeCone<F>, i: int, a0: Seq<F>, a1: Seq<F>, b0: Seq<F>, b1: Seq<F>, c0: Seq<F>, c1: Seq<F>, sm: F) -> bool {
    let r = c.rng_cones@[i]; c.cones@[i].ds_shift_rel(n.cones@[i], sl(a0, r), sl(a1, r), sl(b0, r), sl(b1, r), sl(c0, r), sl(c1, r), sm) }
pub open spec fn dsz_at(c: &CompositeCone<F>, n: &CompositeCone<F>, i: int, o0: Seq<F>, o1: Seq<F>, ds: Seq<F>, w0: Seq<F>, w1: Seq<F>, z: Seq<F>) -> bool {
    let r = c.rng_cones@[i]; c.cones@[i].ds_from_dz_rel(n.cones@[i], sl(o0, r), sl(o1, r), sl(ds, r), sl(w0, r), sl(w1, r), sl(z, r)) }
pub open spec fn ok_at(c: &CompositeCone<F>, i: int, s: Seq<F>, z: Seq<F>, mu: F, st: ScalingStrategy) -> bool {
    c.cones@[i].scaling_ok_spec(sl(s, c.rng_cones@[i]), sl(z, c.rng_cones@[i]), mu, st) }
pub open spec fn scaled_at(c: &CompositeCone<F>, n: &CompositeCone<F>, i: int, s: Seq<F>, z: Seq<F>, mu: F, st: ScalingStrategy) -> bool {
    c.cones@[i].scaled_rel(n.cones@[i], sl(s, c.rng_cones@[i]), sl(z, c.rng_cones@[i]), mu, st) }
// barrier: left fold of the per-cone barrier values, starting from zero
pub open spec fn bfold(c: &CompositeCone<F>, z: Seq<F>, s: Seq<F>, dz: Seq<F>, ds: Seq<F>, a: F, k: int) -> F decreases k {
    if k <= 0 { f_zero() } else { let r = c.rng_cones@[k - 1];
        f_add(bfold(c, z, s, dz, ds, a, k - 1), c.cones@[k - 1].barrier_spec(sl(z, r), sl(s, r), sl(dz, r), sl(ds, r), a)) } }
// sub-vectors of the cones from k on are still the old ones
pub open spec fn rest_same_r(r: Seq<Range<usize>>, v: Seq<F>, v0: Seq<F>, k: int) -> bool {
    v.len() == v0.len() && forall|i: int| k <= i < r.len() ==> #[trigger] sl(v, r[i]) == sl(v0, r[i])
}
pub open spec fn rest_same(c: &CompositeCone<F>, v: Seq<F>, v0: Seq<F>, k: int, blocks: bool) -> bool {
    rest_same_r(if blocks { c.rng_blocks@ } else { c.rng_cones@ }, v, v0, k)
}
impl CompositeCone<F> {
//@fn file=src/solver/core/cones/compositecone.rs in="Cone<T> for CompositeCone<T>" name=degree ret=r
//@contract
    ensures r == self.degree
//@end
//@fn file=src/solver/core/cones/compositecone.rs in="Cone<T> for CompositeCone<T>" name=numel ret=r
//@contract
    ensures r == self.numel
//@end
//@fn file=src/solver/core/cones/compositecone.rs in="Cone<T> for CompositeCone<T>" name=Hs_is_diagonal rules=R1,R21 ret=r
//@contract
    ensures r == forall|i: int| 0 <= i < self.cones@.len() ==> (#[trigger] self.cones@[i]).shape().hs_diag,
//@iter 1
it
//@loop 1
            invariant
                it.seq().len() == self.cones@.len(), forall|i: int| 0 <= i < self.cones@.len() ==> *(#[trigger] it.seq()[i]) == self.cones@[i],
                r21_k1 == forall|i: int| 0 <= i < it.index@ ==> (#[trigger] self.cones@[i]).shape().hs_diag,
//@end
//@fn file=src/solver/core/cones/compositecone.rs in="Cone<T> for CompositeCone<T>" name=allows_primal_dual_scaling rules=R1,R21 ret=r
//@contract
    ensures r == forall|i: int| 0 <= i < self.cones@.len() ==> (#[trigger] self.cones@[i]).shape().pd_scaling,
//@iter 1
it
//@loop 1
            invariant
                it.seq().len() == self.cones@.len(), forall|i: int| 0 <= i < self.cones@.len() ==> *(#[trigger] it.seq()[i]) == self.cones@[i],
                r21_k1 == forall|i: int| 0 <= i < it.index@ ==> (#[trigger] self.cones@[i]).shape().pd_scaling,
//@end
//@fn file=src/solver/core/cones/compositecone.rs in="Cone<T> for CompositeCone<T>" name=unit_initialization rules=R1,R2,zipidx attrs="#[verifier::spinoff_prover]"
//@contract
    requires self.wf(), old(z)@.len() == self.numel, old(s)@.len() == self.numel,
    ensures final(z)@.len() == old(z)@.len(), final(s)@.len() == old(s)@.len(),
        forall|i: int| 0 <= i < self.cones@.len() ==> #[trigger] ui_at(self, i, final(z)@, final(s)@),
//@loop 1
            invariant
                self.wf(), z@.len() == self.numel, s@.len() == self.numel, r14_n1 == self.cones@.len(),
                forall|i: int| 0 <= i < $var1 ==> #[trigger] ui_at(self, i, z@, s@),
//@body_start 1
                let ghost z0 = z@; let ghost s0 = s@;
                proof { lemma_rng_in(self.cones@, self.rng_cones@, $var1 as int); }
//@body_end 1
                proof {
                    assert(same_outside(z0, z@, self.rng_cones@[$var1 as int]));
                    assert(same_outside(s0, s@, self.rng_cones@[$var1 as int]));
                    lemma_frame_cones(self.cones@, self.rng_cones@, z0, z@, $var1 as int);
                    lemma_frame_cones(self.cones@, self.rng_cones@, s0, s@, $var1 as int);
                    assert forall|i: int| 0 <= i < $var1 implies #[trigger] ui_at(self, i, z@, s@) by { assert(ui_at(self, i, z0, s0)); }
                }
//@end
//@fn file=src/solver/core/cones/compositecone.rs in="Cone<T> for CompositeCone<T>" name=get_Hs rules=R1,R2,zipidx attrs="#[verifier::spinoff_prover]"
//@contract
    requires self.wf(), old(Hsblock)@.len() == boffs(self.cones@, self.cones@.len() as int),
    ensures final(Hsblock)@.len() == old(Hsblock)@.len(),
        forall|i: int| 0 <= i < self.cones@.len() ==> #[trigger] hs_at(self, i, old(Hsblock)@, final(Hsblock)@),
//@loop 1
            invariant
                self.wf(), Hsblock@.len() == boffs(self.cones@, self.cones@.len() as int), r14_n1 == self.cones@.len(),
                rest_same(self, Hsblock@, old(Hsblock)@, $var1 as int, true),
                forall|i: int| 0 <= i < $var1 ==> #[trigger] hs_at(self, i, old(Hsblock)@, Hsblock@),
//@body_start 1
                let ghost h0 = Hsblock@;
                proof { lemma_brng_in(self.cones@, self.rng_blocks@, $var1 as int); }
//@body_end 1
                proof {
                    assert(same_outside(h0, Hsblock@, self.rng_blocks@[$var1 as int]));
                    lemma_frame_blocks(self.cones@, self.rng_blocks@, h0, Hsblock@, $var1 as int);
                    assert(sl(h0, self.rng_blocks@[$var1 as int]) == sl(old(Hsblock)@, self.rng_blocks@[$var1 as int]));
                    assert forall|i: int| 0 <= i < $var1 implies #[trigger] hs_at(self, i, old(Hsblock)@, Hsblock@) by { assert(hs_at(self, i, old(Hsblock)@, h0)); }
                }
//@end
//@fn file=src/solver/core/cones/compositecone.rs in="Cone<T> for CompositeCone<T>" name=affine_ds rules=R1,R2,zipidx attrs="#[verifier::spinoff_prover]"
//@contract
    requires self.wf(), old(ds)@.len() == self.numel, s@.len() == self.numel,
    ensures final(ds)@.len() == old(ds)@.len(),
        forall|i: int| 0 <= i < self.cones@.len() ==> #[trigger] ads_at(self, i, old(ds)@, final(ds)@, s@),
//@loop 1
            invariant
                self.wf(), ds@.len() == self.numel, s@.len() == self.numel, r14_n1 == self.cones@.len(),
                rest_same(self, ds@, old(ds)@, $var1 as int, false),
                forall|i: int| 0 <= i < $var1 ==> #[trigger] ads_at(self, i, old(ds)@, ds@, s@),
//@body_start 1
                let ghost d0 = ds@;
                proof { lemma_rng_in(self.cones@, self.rng_cones@, $var1 as int); }
//@body_end 1
                proof {
                    assert(same_outside(d0, ds@, self.rng_cones@[$var1 as int]));
                    lemma_frame_cones(self.cones@, self.rng_cones@, d0, ds@, $var1 as int);
                    assert(sl(d0, self.rng_cones@[$var1 as int]) == sl(old(ds)@, self.rng_cones@[$var1 as int]));
                    assert forall|i: int| 0 <= i < $var1 implies #[trigger] ads_at(self, i, old(ds)@, ds@, s@) by { assert(ads_at(self, i, old(ds)@, d0, s@)); }
                }
//@end
}

impl CompositeCone<F> {
    // loop state of the dispatch loops that mutate the cone objects: cones from k on untouched, shapes kept
    pub open spec fn upto(&self, o: &CompositeCone<F>, k: int) -> bool {
        self.wf() && self.same_frame(o) && forall|i: int| k <= i < self.cones@.len() ==> #[trigger] self.cones@[i] == o.cones@[i]
    }
//@fn file=src/solver/core/cones/compositecone.rs in="Cone<T> for CompositeCone<T>" name=mul_Hs rules=R1,R2,zipidx attrs="#[verifier::spinoff_prover]"
//@contract
    requires old(self).wf(), old(y)@.len() == old(self).numel, x@.len() == old(self).numel, old(work)@.len() == old(self).numel,
    ensures final(self).wf(), final(self).same_frame(old(self)), final(y)@.len() == old(y)@.len(), final(work)@.len() == old(work)@.len(),
        forall|i: int| 0 <= i < old(self).cones@.len() ==> #[trigger] mul_at(old(self), final(self), i, old(y)@, final(y)@, x@, old(work)@, final(work)@),
//@loop 1
            invariant
                old(self).wf(), self.upto(old(self), $var1 as int), r14_n1 == self.cones@.len(),
                y@.len() == self.numel, x@.len() == self.numel, work@.len() == self.numel,
                rest_same(self, y@, old(y)@, $var1 as int, false), rest_same(self, work@, old(work)@, $var1 as int, false),
                forall|i: int| 0 <= i < $var1 ==> #[trigger] mul_at(old(self), self, i, old(y)@, y@, x@, old(work)@, work@),
//@body_start 1
                let ghost pre = *self; let ghost y0 = y@; let ghost w0 = work@; let ghost k = $var1 as int;
                proof { lemma_rng_in(self.cones@, self.rng_cones@, k); }
//@body_end 1
                proof {
                    assert(self.same_frame(&pre)); lemma_frame_wf(&pre, self);
                    assert(same_outside(y0, y@, self.rng_cones@[k])); assert(same_outside(w0, work@, self.rng_cones@[k]));
                    lemma_frame_cones(pre.cones@, self.rng_cones@, y0, y@, k);
                    lemma_frame_cones(pre.cones@, self.rng_cones@, w0, work@, k);
                    assert(sl(y0, self.rng_cones@[k]) == sl(old(y)@, self.rng_cones@[k]) && sl(w0, self.rng_cones@[k]) == sl(old(work)@, self.rng_cones@[k]));
                    assert forall|i: int| 0 <= i < k implies #[trigger] mul_at(old(self), self, i, old(y)@, y@, x@, old(work)@, work@) by {
                        assert(mul_at(old(self), &pre, i, old(y)@, y0, x@, old(work)@, w0)); }
                }
//@end
//@fn file=src/solver/core/cones/compositecone.rs in="Cone<T> for CompositeCone<T>" name=combined_ds_shift rules=R1,R2,zipidx attrs="#[verifier::spinoff_prover]"
//@contract
    requires old(self).wf(), old(shift)@.len() == old(self).numel, old(step_z)@.len() == old(self).numel, old(step_s)@.len() == old(self).numel,
    ensures final(self).wf(), final(self).same_frame(old(self)),
        final(shift)@.len() == old(shift)@.len(), final(step_z)@.len() == old(step_z)@.len(), final(step_s)@.len() == old(step_s)@.len(),
        forall|i: int| 0 <= i < old(self).cones@.len() ==> #[trigger] cds_at(old(self), final(self), i, old(shift)@, final(shift)@, old(step_z)@, final(step_z)@, old(step_s)@, final(step_s)@, sigmamu),
//@loop 1
            invariant
                old(self).wf(), self.upto(old(self), $var1 as int), r14_n1 == self.cones@.len(),
                shift@.len() == self.numel, step_z@.len() == self.numel, step_s@.len() == self.numel,
                rest_same(self, shift@, old(shift)@, $var1 as int, false), rest_same(self, step_z@, old(step_z)@, $var1 as int, false), rest_same(self, step_s@, old(step_s)@, $var1 as int, false),
                forall|i: int| 0 <= i < $var1 ==> #[trigger] cds_at(old(self), self, i, old(shift)@, shift@, old(step_z)@, step_z@, old(step_s)@, step_s@, sigmamu),
//@body_start 1
                let ghost pre = *self; let ghost a0 = shift@; let ghost b0 = step_z@; let ghost c0 = step_s@; let ghost k = $var1 as int;
                proof { lemma_rng_in(self.cones@, self.rng_cones@, k); }
//@body_end 1
                proof {
                    assert(self.same_frame(&pre)); lemma_frame_wf(&pre, self);
                    assert(same_outside(a0, shift@, self.rng_cones@[k])); assert(same_outside(b0, step_z@, self.rng_cones@[k])); assert(same_outside(c0, step_s@, self.rng_cones@[k]));
                    lemma_frame_cones(pre.cones@, self.rng_cones@, a0, shift@, k);
                    lemma_frame_cones(pre.cones@, self.rng_cones@, b0, step_z@, k);
                    lemma_frame_cones(pre.cones@, self.rng_cones@, c0, step_s@, k);
                    assert(sl(a0, self.rng_cones@[k]) == sl(old(shift)@, self.rng_cones@[k]) && sl(b0, self.rng_cones@[k]) == sl(old(step_z)@, self.rng_cones@[k]) && sl(c0, self.rng_cones@[k]) == sl(old(step_s)@, self.rng_cones@[k]));
                    assert forall|i: int| 0 <= i < k implies #[trigger] cds_at(old(self), self, i, old(shift)@, shift@, old(step_z)@, step_z@, old(step_s)@, step_s@, sigmamu) by {
                        assert(cds_at(old(self), &pre, i, old(shift)@, a0, old(step_z)@, b0, old(step_s)@, c0, sigmamu)); }
                }
//@end
//@fn file=src/solver/core/cones/compositecone.rs in="Cone<T> for CompositeCone<T>" name=Δs_from_Δz_offset rules=R1,R2,zipidx attrs="#[verifier::spinoff_prover]"
//@contract
    requires old(self).wf(), old(out)@.len() == old(self).numel, ds@.len() == old(self).numel, old(work)@.len() == old(self).numel, z@.len() == old(self).numel,
    ensures final(self).wf(), final(self).same_frame(old(self)), final(out)@.len() == old(out)@.len(), final(work)@.len() == old(work)@.len(),
        forall|i: int| 0 <= i < old(self).cones@.len() ==> #[trigger] dsz_at(old(self), final(self), i, old(out)@, final(out)@, ds@, old(work)@, final(work)@, z@),
//@loop 1
            invariant
                old(self).wf(), self.upto(old(self), $var1 as int), r14_n1 == self.cones@.len(),
                out@.len() == self.numel, ds@.len() == self.numel, work@.len() == self.numel, z@.len() == self.numel,
                rest_same(self, out@, old(out)@, $var1 as int, false), rest_same(self, work@, old(work)@, $var1 as int, false),
                forall|i: int| 0 <= i < $var1 ==> #[trigger] dsz_at(old(self), self, i, old(out)@, out@, ds@, old(work)@, work@, z@),
//@body_start 1
                let ghost pre = *self; let ghost o0 = out@; let ghost w0 = work@; let ghost k = $var1 as int;
                proof { lemma_rng_in(self.cones@, self.rng_cones@, k); }
//@body_end 1
                proof {
                    assert(self.same_frame(&pre)); lemma_frame_wf(&pre, self);
                    assert(same_outside(o0, out@, self.rng_cones@[k])); assert(same_outside(w0, work@, self.rng_cones@[k]));
                    lemma_frame_cones(pre.cones@, self.rng_cones@, o0, out@, k);
                    lemma_frame_cones(pre.cones@, self.rng_cones@, w0, work@, k);
                    assert(sl(o0, self.rng_cones@[k]) == sl(old(out)@, self.rng_cones@[k]) && sl(w0, self.rng_cones@[k]) == sl(old(work)@, self.rng_cones@[k]));
                    assert forall|i: int| 0 <= i < k implies #[trigger] dsz_at(old(self), self, i, old(out)@, out@, ds@, old(work)@, work@, z@) by {
                        assert(dsz_at(old(self), &pre, i, old(out)@, o0, ds@, old(work)@, w0, z@)); }
                }
//@end
//@fn file=src/solver/core/cones/compositecone.rs in="Cone<T> for CompositeCone<T>" name=compute_barrier rules=R1,R2,zipidx ret=r attrs="#[verifier::spinoff_prover]"
//@contract
    requires old(self).wf(), z@.len() == old(self).numel, s@.len() == old(self).numel, dz@.len() == old(self).numel, ds@.len() == old(self).numel,
    ensures final(self).wf(), final(self).same_frame(old(self)),
        // the barrier value is the sum (left to right, from zero) of the per-cone values, each on the cone's own four sub-vectors
        r == bfold(old(self), z@, s@, dz@, ds@, alpha, old(self).cones@.len() as int),
//@loop 1
            invariant
                old(self).wf(), self.upto(old(self), $var1 as int), r14_n1 == self.cones@.len(),
                z@.len() == self.numel, s@.len() == self.numel, dz@.len() == self.numel, ds@.len() == self.numel,
                barrier == bfold(old(self), z@, s@, dz@, ds@, alpha, $var1 as int),
//@body_start 1
                let ghost pre = *self; let ghost k = $var1 as int;
                proof { lemma_rng_in(self.cones@, self.rng_cones@, k); }
//@body_end 1
                proof { assert(self.same_frame(&pre)); lemma_frame_wf(&pre, self); }
//@end
//@fn file=src/solver/core/cones/compositecone.rs in="Cone<T> for CompositeCone<T>" name=update_scaling rules=R1,R2,zipidx ret=r attrs="#[verifier::spinoff_prover]"
//@contract
    requires old(self).wf(), s@.len() == old(self).numel, z@.len() == old(self).numel,
    ensures final(self).wf(), final(self).same_frame(old(self)),
        // all-succeed: true iff every cone reports success ...
        r == forall|i: int| 0 <= i < old(self).cones@.len() ==> #[trigger] ok_at(old(self), i, s@, z@, mu, scaling_strategy),
        r ==> forall|i: int| 0 <= i < old(self).cones@.len() ==> #[trigger] scaled_at(old(self), final(self), i, s@, z@, mu, scaling_strategy),
        // ... and it stops at the first failure: the cones behind it keep their scaling
        !r ==> exists|k: int| 0 <= k < old(self).cones@.len() && !(#[trigger] ok_at(old(self), k, s@, z@, mu, scaling_strategy))
            && (forall|i: int| 0 <= i < k ==> #[trigger] ok_at(old(self), i, s@, z@, mu, scaling_strategy))
            && (forall|i: int| 0 <= i <= k ==> #[trigger] scaled_at(old(self), final(self), i, s@, z@, mu, scaling_strategy))
            && (forall|i: int| k < i < old(self).cones@.len() ==> #[trigger] final(self).cones@[i] == old(self).cones@[i]),
//@loop 1
            invariant
                old(self).wf(), self.upto(old(self), $var1 as int), r14_n1 == self.cones@.len(),
                s@.len() == self.numel, z@.len() == self.numel,
                forall|i: int| 0 <= i < $var1 ==> #[trigger] ok_at(old(self), i, s@, z@, mu, scaling_strategy),
                forall|i: int| 0 <= i < $var1 ==> #[trigger] scaled_at(old(self), self, i, s@, z@, mu, scaling_strategy),
//@body_start 1
                let ghost pre = *self; let ghost k = $var1 as int;
                proof { lemma_rng_in(self.cones@, self.rng_cones@, k); }
//@after "is_scaling_success = cone.update_scaling("
                proof {
                    assert(self.same_frame(&pre)); lemma_frame_wf(&pre, self);
                    assert forall|i: int| 0 <= i < k implies #[trigger] scaled_at(old(self), self, i, s@, z@, mu, scaling_strategy) by { assert(scaled_at(old(self), &pre, i, s@, z@, mu, scaling_strategy)); }
                    assert(scaled_at(old(self), self, k, s@, z@, mu, scaling_strategy));
                    assert(is_scaling_success == ok_at(old(self), k, s@, z@, mu, scaling_strategy));
                }
//@end
}

// ------------------------------------------------------------------ consequences used by other units
// (a) unit steplen assumed for CompositeCone: margins returns (margin, >= 0) and leaves z alone; here _shift_to_cone_interior is
//     re-proved against the PROVED composite contracts (the shift contract is weaker than the one assumed there: a zero cone keeps
//     its margin at max_value instead of moving by alpha, so "margin' == margin + alpha" is false as soon as a zero cone is present)
impl AsFloatT for usize { #[verifier::external_body] fn as_T(&self) -> (r: F) ensures r == f_from_usize(*self) { unimplemented!() } }
//@fn file=src/solver/implementations/default/variables.rs name=_shift_to_cone_interior rules=R1
//@contract
    requires old(cones).wf(), old(z)@.len() == old(cones).numel, old(cones)._is_symmetric,
    ensures
        // C15 (initialisation): whatever z was, it ends up strictly inside the cone, with margin at least one
        final(z)@.len() == old(z)@.len(), final(cones).margin(final(z)@, pd) >= 1real,
        final(cones).cones@ == old(cones).cones@, final(cones).same_frame(old(cones)),
//@pre
    broadcast use real_arith, ax_maxval;
//@end
// (b) unit csc_math assumed for CompositeCone::rectify_equilibration: "e_i * delta_i lies between two entries of e".  It follows from
//     the composite contract above (partition + per-cone all-ones / uniform) and the F-real reading of the mean (hypothesis below)
pub open spec fn rect_ok(e: Seq<F>, delta: Seq<F>, i: int) -> bool {
    &&& exists|j: int| 0 <= j < e.len() && (#[trigger] e[j]).v() <= e[i].v() * delta[i].v()
    &&& exists|j: int| 0 <= j < e.len() && e[i].v() * delta[i].v() <= (#[trigger] e[j]).v()
}
pub open spec fn mean_between(e: Seq<F>) -> bool {
    &&& exists|j: int| 0 <= j < e.len() && (#[trigger] e[j]).v() <= vm_mean(e).v()
    &&& exists|j: int| 0 <= j < e.len() && vm_mean(e).v() <= (#[trigger] e[j]).v()
}
pub proof fn lemma_rect_ok(c: &CompositeCone<F>, delta: Seq<F>, e: Seq<F>, i: int)
    requires c.wf(), delta.len() == c.numel, e.len() == c.numel, 0 <= i < e.len(), e[i].v() != 0real,
        forall|k: int| 0 <= k < c.cones@.len() ==> #[trigger] rect_done(c.cones@[k], sl(delta, c.rng_cones@[k]), sl(e, c.rng_cones@[k])),
        forall|k: int| 0 <= k < c.cones@.len() && c.cones@[k].shape().numel > 0 ==> mean_between(#[trigger] sl(e, c.rng_cones@[k])),
    ensures rect_ok(e, delta, i),
{
    broadcast use real_arith;
    lemma_partition(c.cones@, c.rng_cones@, i, c.cones@.len() as int);
    let k = choose|k: int| 0 <= k < c.cones@.len() && (#[trigger] c.rng_cones@[k]).start <= i < c.rng_cones@[k].end;
    lemma_rng_in(c.cones@, c.rng_cones@, k);
    let r = c.rng_cones@[k]; let d = sl(delta, r); let es = sl(e, r); let j = i - r.start;
    assert(rect_done(c.cones@[k], d, es));
    assert(d[j] == delta[i] && es[j] == e[i]);
    if c.cones@[k].rect_spec(es) {
        assert(d[j] == f_mul(f_recip(es[j]), vm_mean(es)));
        let x = e[i].v(); let m = vm_mean(es).v();
        assert(x * ((1real / x) * m) == m) by(nonlinear_arith) requires x != 0real;
        assert(mean_between(es));
        let j1 = choose|j1: int| 0 <= j1 < es.len() && (#[trigger] es[j1]).v() <= vm_mean(es).v();
        let j2 = choose|j2: int| 0 <= j2 < es.len() && vm_mean(es).v() <= (#[trigger] es[j2]).v();
        assert(es[j1] == e[r.start + j1] && es[j2] == e[r.start + j2]);
        assert(e[r.start + j1].v() <= e[i].v() * delta[i].v());
        assert(e[i].v() * delta[i].v() <= e[r.start + j2].v());
    } else {
        assert(d[j] == f_one());
        assert(e[i].v() * delta[i].v() == e[i].v()) by(nonlinear_arith) requires delta[i].v() == 1real;
        assert(e[i].v() <= e[i].v() * delta[i].v());
    }
}

// ------------------------------------------------------------------ CompositeCone::new, second half (statement slice; the first half -- to_vec, make_cone, the HashMap of
// type counts, the AND that gives _is_symmetric -- and the final struct literal are DROPPED): the element count is the sum of the cone sizes and the
// two range vectors come from make_rng_* on the same cone list, i.e. the wf() clauses other than the symmetry flag hold for what `new` stores
pub open spec fn degs(cones: Seq<SupportedCone<F>>, k: int) -> int decreases k { if k <= 0 { 0 } else { degs(cones, k - 1) + cones[k - 1].shape().degree } }
pub proof fn lemma_degs_mono(cones: Seq<SupportedCone<F>>, i: int, j: int)
    requires 0 <= i <= j, ensures 0 <= degs(cones, i) <= degs(cones, j), decreases j
{ if i < j { lemma_degs_mono(cones, i, j - 1); } else if j > 0 { lemma_degs_mono(cones, 0, j - 1); lemma_degs_mono(cones, j - 1, j - 1); } }
//@fn file=src/solver/core/cones/compositecone.rs in="impl<T> CompositeCone<T>" name=new from="let numel" to="let rng_blocks" header="fn new_tail(cones: Vec<SupportedCone<T>>)" as=new_tail rules=R1,R30
//@contract
    requires offs(cones@, cones@.len() as int) <= usize::MAX, boffs(cones@, cones@.len() as int) <= usize::MAX, degs(cones@, cones@.len() as int) <= usize::MAX,
        forall|i: int| 0 <= i < cones@.len() ==> !(#[trigger] cones@[i]).shape().hs_diag ==> cones@[i].shape().numel < 0x1_0000_0000,
//@iter 1
it1
//@loop 1
        invariant
            it1.seq().len() == cones@.len(), forall|i: int| 0 <= i < cones@.len() ==> *(#[trigger] it1.seq()[i]) == cones@[i],
            r30_s1 == offs(cones@, it1.index@ as int), offs(cones@, cones@.len() as int) <= usize::MAX,
//@body_start 1
            proof { lemma_offs_mono(cones@, it1.index@ as int + 1, cones@.len() as int); }
//@iter 2
it2
//@loop 2
        invariant
            it2.seq().len() == cones@.len(), forall|i: int| 0 <= i < cones@.len() ==> *(#[trigger] it2.seq()[i]) == cones@[i],
            r30_s2 == degs(cones@, it2.index@ as int), degs(cones@, cones@.len() as int) <= usize::MAX,
//@body_start 2
            proof { lemma_degs_mono(cones@, it2.index@ as int + 1, cones@.len() as int); }
//@after "let rng_blocks"
        proof {
            // what the struct literal then stores
            assert(numel == offs(cones@, cones@.len() as int));
            assert(degree == degs(cones@, cones@.len() as int));
            assert(rngs_ok(cones@, rng_cones@) && brngs_ok(cones@, rng_blocks@));
        }
//@end

} // verus!
fn main() {}
