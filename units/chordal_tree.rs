// unit `chordal_tree` : index-level pieces of the supernodal elimination tree and of the parent-child merge (C17)
//
// PROVED (real text of /repo/src/solver/chordal/**, unbounded: panic-freedom (index, overflow, unwrap) + the structural clause):
//   supernode_tree.rs: find_parent_direct, parent_from_L (parent[i] = first stored row of column i, last vertex = only root; for a strictly
//     lower pattern the pointers go strictly upwards), higher_degree, find_higher_order_neighbors, children_from_parent (children[p] = exactly
//     the i with parent[i] == p, once each, in increasing order), SuperNodeTree::{get_post_order, get_snode, get_separators,
//     get_clique_parent, get_nblk, get_overlap, calculate_block_dimensions (+ frame), get_decomposed_dim_and_overlaps (sums of triangular
//     numbers)}, the vertex loop of pothen_sun as statement slice `pothen_sun_loop` (all indexing, `degree[v] - 1`, the isize counters, and
//     the partition invariant sn_inv: every vertex is a representative or points at a representative with further members)
//   merge/parent_child.rs: determine_parent, clique_dim, fill_in
//   algebra/scalarmath.rs: triangular_number (re-proved here as in unit scalarmath)
// ASSUMED (hand-written stand-ins, not verified):
//   VertexSet = indexmap::IndexSet<usize>: ghost view `Seq<usize>` = the members in insertion order; contracts of `insert` (appends iff
//     absent, returns "was absent"), `contains`, `len`, `is_empty`, `clear`, `iter` (yields the members in insertion order; the stand-in
//     returns them as a slice) as documented by indexmap;
//   new_vertex_sets(n) (`(0..n).map(|_| VertexSet::new()).collect()`: map + collect are outside Verus): n empty sets.
// EXTRACTOR: rule `setiter:NAME` (added for this unit, additive): `for x in NAME` -> `for x in NAME.iter()` for a reference to an IndexSet
//   (the definition of `IntoIterator for &IndexSet`).  The chordal module is compiled only with the cargo feature `sdp`; the extractor works on
//   the source text and none of the functions below contains a `#[cfg]`, so R12 drops nothing and no feature switch was needed.
// PRECONDITIONS and the call sites (SuperNodeTree::new <- SparsityPattern::new <- analyse_psdtriangle_sparsity_pattern <- find_graph):
//   L.n >= 1 (`L.nrows() - 1` / `L.n - 1` underflow for a 0 x 0 factor): holds, find_graph is only reached with a mask that is not all-true,
//     hence non-empty (an empty PSD cone returns early: `all()` of nothing is true);
//   L_connected (every column but the last non-empty; else `L.rowval[L.colptr[v]]` reads the next column or past the end): established by
//     connect_graph, proved in unit chordal_decomp; L_wf / strictly lower: QDLDL's L (not re-proved here);
//   parent_ok for children_from_parent: 1st call parent_from_L (above), 2nd call the renumbering loop of pothen_sun (`position` index or
//     NO_PARENT; by inspection, that part is closure code and not under contract);
//   pothen_sun_loop `degree[v] >= 1 for every non-root`: holds because only the last vertex is a root and higher_degree gives the
//     column length, >= 1 by L_connected; without connect_graph a disconnected pattern would underflow here;
//   fill_in `dim_clique_sep <= dim_parent`: the separator of a child is a subset of the parent clique in a clique tree (not proved here).
// DROPPED (said so that nobody assumes otherwise): find_supernodes / the tail of pothen_sun (position_all, map, collect, retain closures),
//   find_separators (`iter().min().unwrap()`, zip over IndexSets), post_order (termination of the stack loop needs a forest argument over
//   ghost sets; IndexSet::sort, Vec::extend(iter), sort_by closure), reorder_snode_consecutively (sort + IndexSet::extend + invperm /
//   ipermute), get_clique (union + for_each closure), merge_two_cliques / set_union_into_indexed (shift_remove, deferred `let (a, b);`),
//   the whole clique-graph merge (HashMap / closures).  pothen_sun_loop says nothing about the *values* written to snode_parent.
use vstd::prelude::*;
verus! {
global size_of usize == 8;
//@include prelude/float_opaque.rs
//@struct file=src/algebra/csc/core.rs name=CscMatrix
//@const file=src/solver/chordal/supernode_tree.rs name=NO_PARENT

// ---- stand-in for indexmap::IndexSet<usize> (ASSUMED) ----
pub struct VertexSet { pub _p: Vec<usize>, pub elems: Ghost<Seq<usize>> }
impl View for VertexSet { type V = Seq<usize>; open spec fn view(&self) -> Seq<usize> { self.elems@ } }
impl VertexSet {
    #[verifier::external_body] pub fn insert(&mut self, v: usize) -> (r: bool)
        ensures r == !old(self)@.contains(v),
            final(self)@ == (if old(self)@.contains(v) { old(self)@ } else { old(self)@.push(v) }),
    { unimplemented!() }
    #[verifier::external_body] pub fn contains(&self, v: &usize) -> (r: bool) ensures r == self@.contains(*v) { unimplemented!() }
    #[verifier::external_body] pub fn len(&self) -> (r: usize) ensures r == self@.len() { unimplemented!() }
    #[verifier::external_body] pub fn is_empty(&self) -> (r: bool) ensures r == (self@.len() == 0) { unimplemented!() }
    #[verifier::external_body] pub fn clear(&mut self) ensures final(self)@ == Seq::<usize>::empty() { unimplemented!() }
    // iteration yields the members in insertion order (the stand-in hands them out as a slice; rule `setiter` writes `for x in &set` as `for x in set.iter()`)
    #[verifier::external_body] pub fn iter(&self) -> (r: &[usize]) ensures r@ == self@ { unimplemented!() }
}
#[verifier::external_body]
fn new_vertex_sets(n: usize) -> (r: Vec<VertexSet>)
    ensures r@.len() == n, forall|i: int| 0 <= i < n ==> (#[trigger] r@[i])@ == Seq::<usize>::empty(),
{ unimplemented!() }

impl CscMatrix<F> {
//@fn file=src/algebra/csc/core.rs in="ShapedMatrix for CscMatrix<T>" name=nrows rules=R1 ret=r
//@contract
    ensures r == self.m
//@end
//@fn file=src/algebra/csc/core.rs in="ShapedMatrix for CscMatrix<T>" name=ncols rules=R1 ret=r
//@contract
    ensures r == self.n
//@end
}

// ---- the pattern of the LDL factor as the tree code reads it ----
// square, n + 1 monotone column pointers that stay inside rowval (values are never read)
pub open spec fn L_wf(L: CscMatrix<F>) -> bool {
    &&& L.m == L.n && L.colptr@.len() == L.n + 1
    &&& forall|a: int, b: int| 0 <= a <= b <= L.n ==> L.colptr@[a] <= L.colptr@[b]
    &&& L.colptr@[L.n as int] <= L.rowval@.len()
}
// every column but the last stores at least one entry (what `connect_graph` establishes, see unit chordal_decomp)
pub open spec fn L_connected(L: CscMatrix<F>) -> bool { forall|c: int| 0 <= c < L.n - 1 ==> #[trigger] L.colptr@[c] < L.colptr@[c + 1] }
pub open spec fn in_col(L: CscMatrix<F>, k: int, c: int) -> bool { 0 <= c < L.n && L.colptr@[c] <= k < L.colptr@[c + 1] }
// strictly lower triangular with rows in range (QDLDL's L)
pub open spec fn L_strict_lower(L: CscMatrix<F>) -> bool { forall|c: int, k: int| #[trigger] in_col(L, k, c) ==> c < L.rowval@[k] < L.n }
// parent pointers of a rooted forest on 0..n in elimination order: every non-root points strictly upwards
pub open spec fn parent_ok(parent: Seq<usize>) -> bool { forall|i: int| 0 <= i < parent.len() ==> #[trigger] parent[i] < parent.len() || parent[i] == NO_PARENT }
pub open spec fn parent_upwards(parent: Seq<usize>) -> bool { forall|i: int| 0 <= i < parent.len() && #[trigger] parent[i] != NO_PARENT ==> i < parent[i] < parent.len() }

//@fn file=src/solver/chordal/supernode_tree.rs name=find_parent_direct rules=R1 ret=r
//@contract
    requires
        // `L.nrows() - 1` underflows for a 0 x 0 matrix
        L.m >= 1,
        v != L.m - 1 ==> v < L.colptr@.len() && L.colptr@[v as int] < L.rowval@.len(),
    ensures r == (if v == L.m - 1 { NO_PARENT } else { L.rowval@[L.colptr@[v as int] as int] }),
//@end

//@fn file=src/solver/chordal/supernode_tree.rs name=parent_from_L rules=R1,R3,zipidx:1 ret=r
//@contract
    requires L_wf(*L), L_connected(*L), L.n >= 1,
    ensures
        // C17: parent[i] = the first stored row of column i, the last vertex is the only root
        r@.len() == L.n, r@[L.n - 1] == NO_PARENT,
        forall|i: int| 0 <= i < L.n - 1 ==> #[trigger] r@[i] == L.rowval@[L.colptr@[i] as int],
        // for a strictly lower triangular pattern these pointers go strictly upwards: a tree rooted at n - 1, no cycle
        L_strict_lower(*L) ==> parent_upwards(r@) && parent_ok(r@) && forall|i: int| 0 <= i < L.n - 1 ==> #[trigger] r@[i] != NO_PARENT,
//@loop 1
        invariant
            r14_n1 == L.n, parent@.len() == L.n, i_ctr == r14_i1, L_wf(*L), L_connected(*L), L.n >= 1,
            forall|i: int| 0 <= i < r14_i1 && i < L.n - 1 ==> #[trigger] parent@[i] == L.rowval@[L.colptr@[i] as int],
            r14_i1 == L.n ==> parent@[L.n - 1] == NO_PARENT,
//@body_start 1
        proof {
            let gi = r14_i1 as int;
            if gi < L.n - 1 { assert(L.colptr@[gi] < L.colptr@[gi + 1]); assert(L.colptr@[gi + 1] <= L.colptr@[L.n as int]); }
        }
//@post
    proof {
        if L_strict_lower(*L) {
            assert forall|i: int| 0 <= i < L.n - 1 implies i < #[trigger] r_v@[i] < L.n by {
                assert(L.colptr@[i] < L.colptr@[i + 1]);
                assert(in_col(*L, L.colptr@[i] as int, i));
            }
        }
    }
//@end

//@fn file=src/solver/chordal/supernode_tree.rs name=higher_degree rules=R1 ret=r
//@contract
    requires
        // `L.n - 1` underflows for a 0 x 0 matrix
        L.n >= 1, L_wf(*L),
    ensures
        // C17: the higher degree of v is the length of column v; the last vertex has none
        r@.len() == L.n, r@[L.n - 1] == 0,
        forall|v: int| 0 <= v < L.n - 1 ==> #[trigger] r@[v] == L.colptr@[v + 1] - L.colptr@[v],
//@loop 1
        invariant
            degree@.len() == L.n, L_wf(*L), L.n >= 1,
            forall|w: int| 0 <= w < $var1 ==> #[trigger] degree@[w] == L.colptr@[w + 1] - L.colptr@[w],
            forall|w: int| $var1 <= w < L.n ==> #[trigger] degree@[w] == 0,
//@body_start 1
        proof { assert(L.colptr@[$var1 as int] <= L.colptr@[$var1 + 1]); }
//@end

//@fn file=src/solver/chordal/supernode_tree.rs name=find_higher_order_neighbors rules=R1 ret=r
//@contract
    requires L_wf(*L), v < L.n,
    ensures r@ == L.rowval@.subrange(L.colptr@[v as int] as int, L.colptr@[v + 1] as int),
//@pre
    proof { assert(L.colptr@[v as int] <= L.colptr@[v + 1]); assert(L.colptr@[v + 1] <= L.colptr@[L.n as int]); }
//@end

// children of p among the first k vertices, in increasing order (= insertion order)
pub open spec fn children_upto(parent: Seq<usize>, p: int, k: int) -> Seq<usize> decreases k {
    if k <= 0 { Seq::empty() } else if parent[k - 1] == p { children_upto(parent, p, k - 1).push((k - 1) as usize) } else { children_upto(parent, p, k - 1) }
}
pub proof fn lemma_children_upto(parent: Seq<usize>, p: int, k: int)
    requires 0 <= k <= parent.len(), k <= usize::MAX,
    ensures
        forall|i: int| #[trigger] children_upto(parent, p, k).contains(i as usize) && 0 <= i <= usize::MAX ==> 0 <= i < k && parent[i] == p,
        forall|i: int| 0 <= i < k && parent[i] == p ==> #[trigger] children_upto(parent, p, k).contains(i as usize),
        children_upto(parent, p, k).no_duplicates(),
        children_upto(parent, p, k).len() <= k,
    decreases k,
{
    if k > 0 {
        lemma_children_upto(parent, p, k - 1);
        let prev = children_upto(parent, p, k - 1);
        let cur = children_upto(parent, p, k);
        if parent[k - 1] == p {
            assert(cur == prev.push((k - 1) as usize));
            assert forall|i: int| #[trigger] cur.contains(i as usize) && 0 <= i <= usize::MAX implies 0 <= i < k && parent[i] == p by {
                let j = choose|j: int| 0 <= j < cur.len() && cur[j] == i as usize;
                if j < prev.len() { assert(prev[j] == cur[j]); assert(prev.contains(i as usize)); }
            }
            assert forall|i: int| 0 <= i < k && parent[i] == p implies #[trigger] cur.contains(i as usize) by {
                if i < k - 1 {
                    assert(prev.contains(i as usize));
                    let j = choose|j: int| 0 <= j < prev.len() && prev[j] == i as usize;
                    assert(cur[j] == i as usize);
                } else { assert(cur[prev.len() as int] == i as usize); }
            }
            assert(cur.no_duplicates()) by {
                assert forall|a: int, b: int| 0 <= a < cur.len() && 0 <= b < cur.len() && a != b implies cur[a] != cur[b] by {
                    if a < prev.len() && b < prev.len() { assert(prev[a] != prev[b]); }
                    else if a < prev.len() { assert(prev.contains(prev[a])); assert(prev.contains((prev[a] as int) as usize)); }
                    else { assert(prev.contains(prev[b])); assert(prev.contains((prev[b] as int) as usize)); }
                }
            }
        }
    }
}

//@fn file=src/solver/chordal/supernode_tree.rs name=children_from_parent rules=R3,R5 ret=r
//@contract
    requires parent_ok(parent@),
    ensures
        // C17: vertex i is a child of p exactly when parent[i] == p; each child set lists its members once, in increasing order;
        // a root (NO_PARENT) is nobody's child
        r@.len() == parent@.len(),
        forall|p: int| 0 <= p < parent@.len() ==> (#[trigger] r@[p])@ == children_upto(parent@, p, parent@.len() as int),
//@pre
    proof { assert(parent@.len() == parent.len()); }
//@iter 1
it
//@loop 1
        invariant
            i_ctr == it.index@, it.seq().len() == parent@.len(), parent_ok(parent@), parent@.len() <= usize::MAX,
            forall|k: int| 0 <= k < it.seq().len() ==> *(#[trigger] it.seq()[k]) == parent@[k],
            children@.len() == parent@.len(),
            forall|p: int| 0 <= p < parent@.len() ==> (#[trigger] children@[p])@ == children_upto(parent@, p, i_ctr as int),
//@body_start 1
        let ghost ch0 = children@;
        let ghost gi = i_ctr as int;
        proof { assert(parent@[gi] < parent@.len() || parent@[gi] == NO_PARENT); }
//@body_end 1
        proof {
            if pi != NO_PARENT {
                lemma_children_upto(parent@, pi as int, gi);
                assert(!children_upto(parent@, pi as int, gi).contains(gi as usize));
            }
            assert forall|p: int| 0 <= p < parent@.len() implies (#[trigger] children@[p])@ == children_upto(parent@, p, gi + 1) by {
                if p != pi { assert(children@[p] == ch0[p]); }
            }
        }
//@end

// ---- pothen_sun: the pass over the vertices in post order that groups them into supernodes ----
// snode_index: a negative entry marks a representative vertex (-1 - number of further members), a non-negative one names the
// representative of the supernode the vertex belongs to
pub open spec fn rep_ok(si: Seq<isize>, n: int, x: int) -> bool { si[x] < 0 || (si[x] < n && si[si[x] as int] <= -2) }
// (quantified through the named predicate: `si[si[x]]` under a trigger `si[x]` is a matching loop)
pub open spec fn sn_inv(si: Seq<isize>, n: int) -> bool { forall|x: int| 0 <= x < n ==> #[trigger] rep_ok(si, n, x) }
pub open spec fn set_below(s: Seq<usize>, n: int) -> bool { forall|i: int| 0 <= i < s.len() ==> #[trigger] s[i] < n }
pub open spec fn sets_below(ch: Seq<VertexSet>, n: int) -> bool { forall|p: int| 0 <= p < ch.len() ==> set_below(#[trigger] ch[p]@, n) }
// statement slice of pothen_sun: the loop `for &v in post`.  DROPPED: the allocations before it (snode_index = [-1; n], snode_parent =
// [NO_PARENT; n], n empty child sets: they are the slice's preconditions), the search for the root (`position(..).unwrap()`: closure) and
// everything after the loop (position_all / map / collect closures that renumber the representatives).
//@fn file=src/solver/chordal/supernode_tree.rs name=pothen_sun as=pothen_sun_loop rules=R5,setiter:v_children from="for &v in post" to="for &v in post" header="fn pothen_sun_loop(parent: &[usize], post: &[usize], degree: &[usize], snode_index: &mut Vec<isize>, snode_parent: &mut Vec<usize>, children: &mut Vec<VertexSet>, root_index: usize)"
//@contract
    requires
        parent@.len() == degree@.len(), old(snode_index)@.len() == parent@.len(), old(snode_parent)@.len() == parent@.len(), old(children)@.len() == parent@.len(),
        parent@.len() < isize::MAX, post@.len() <= parent@.len(), root_index < parent@.len(),
        // an elimination tree (parent_from_L: pointers in range, nobody is its own parent) and a post order that names vertices
        parent_ok(parent@), forall|i: int| 0 <= i < parent@.len() ==> #[trigger] parent@[i] != i,
        forall|i: int| 0 <= i < post@.len() ==> #[trigger] post@[i] < parent@.len(),
        // `degree[v] - 1` underflows for a non-root vertex of higher degree 0: excluded because every column but the last of L is
        // non-empty (connect_graph) and only the last vertex has no parent (parent_from_L / higher_degree)
        forall|v: int| 0 <= v < parent@.len() && parent@[v] != NO_PARENT ==> #[trigger] degree@[v] >= 1,
        forall|x: int| 0 <= x < parent@.len() ==> #[trigger] old(snode_index)@[x] == -1,
        sets_below(old(children)@, parent@.len() as int),
    ensures
        final(snode_index)@.len() == parent@.len(), final(snode_parent)@.len() == parent@.len(), final(children)@.len() == parent@.len(),
        // C17 (supernodes partition the vertices): every vertex is a representative or points at one that has further members
        sn_inv(final(snode_index)@, parent@.len() as int),
//@pre
    let ghost n = parent@.len() as int;
//@iter 1
it1
//@loop 1
        invariant
            n == parent@.len(), parent@.len() == degree@.len(), snode_index@.len() == n, snode_parent@.len() == n, children@.len() == n,
            n < isize::MAX, post@.len() <= n, root_index < n, parent_ok(parent@), forall|i: int| 0 <= i < n ==> #[trigger] parent@[i] != i,
            it1.seq().len() == post@.len(), forall|i: int| 0 <= i < post@.len() ==> *(#[trigger] it1.seq()[i]) == post@[i],
            forall|i: int| 0 <= i < post@.len() ==> #[trigger] post@[i] < n,
            forall|v: int| 0 <= v < n && parent@[v] != NO_PARENT ==> #[trigger] degree@[v] >= 1,
            sn_inv(snode_index@, n), sets_below(children@, n),
            forall|x: int| 0 <= x < n ==> #[trigger] snode_index@[x] >= -1 - it1.index@,
//@body_start 1
        let ghost gv = post@[it1.index@ as int] as int;
        let ghost si0 = snode_index@;
        let ghost ch0 = children@;
        proof {
            assert(*v_r == post@[it1.index@ as int]);
            assert(parent@[gv] < n || parent@[gv] == NO_PARENT);
            assert(parent@[gv] != gv);
            assert(rep_ok(si0, n, gv));
            if parent@[gv] != NO_PARENT { assert(rep_ok(si0, n, parent@[gv] as int)); }
            if si0[gv] >= 0 { assert(rep_ok(si0, n, si0[gv] as int)); }
        }
//@before "if parent[v] != NO_PARENT"
        proof {
            assert(sets_below(children@, n)) by {
                assert forall|p: int| 0 <= p < children@.len() implies set_below(#[trigger] children@[p]@, n) by {
                    assert(set_below(ch0[p]@, n));
                    if children@[p]@ != ch0[p]@ { assert(children@[p]@ == ch0[p]@.push(gv as usize)); }
                }
            }
        }
//@before "let k: isize"
        proof {
            assert(sn_inv(snode_index@, n)) by {
                assert forall|x: int| 0 <= x < n implies #[trigger] rep_ok(snode_index@, n, x) by {
                    assert(rep_ok(si0, n, x));
                    if si0[x] >= 0 { assert(rep_ok(si0, n, si0[x] as int)); }
                }
            }
            assert forall|x: int| 0 <= x < n implies #[trigger] snode_index@[x] >= -1 - (it1.index@ + 1) by { assert(si0[x] >= -1 - it1.index@); }
            assert(rep_ok(snode_index@, n, gv));
            assert(set_below(children@[gv]@, n));
        }
//@iter 2
it2
//@loop 2
                invariant
                    snode_index@.len() == n, snode_parent@.len() == n, n < isize::MAX, 0 <= k < n, sn_inv(snode_index@, n),
                    it2.seq().len() == v_children@.len(), forall|i: int| 0 <= i < v_children@.len() ==> *(#[trigger] it2.seq()[i]) == v_children@[i],
                    set_below(v_children@, n),
//@body_start 2
                proof {
                    let gw = v_children@[it2.index@ as int] as int;
                    assert(*w_r == gw);
                    assert(rep_ok(snode_index@, n, gw));
                }
//@end

//@struct file=src/solver/chordal/supernode_tree.rs name=SuperNodeTree

// the post order of the supernodes addresses existing supernodes / separators
pub open spec fn post_in_range(t: SuperNodeTree, k: int) -> bool {
    &&& k <= t.snode_post@.len()
    &&& forall|i: int| 0 <= i < k ==> #[trigger] t.snode_post@[i] < t.snode@.len() && t.snode_post@[i] < t.separators@.len()
}
pub open spec fn snd(t: SuperNodeTree, i: int) -> Seq<usize> { t.snode@[t.snode_post@[i] as int]@ }
pub open spec fn sep(t: SuperNodeTree, i: int) -> Seq<usize> { t.separators@[t.snode_post@[i] as int]@ }

pub open spec fn tri(k: int) -> int { k * (k + 1) / 2 }
pub proof fn lemma_shr1(x: usize) ensures x >> 1 == x / 2 { assert(x >> 1 == x / 2) by (bit_vector); }
//@fn file=src/algebra/scalarmath.rs name=triangular_number ret=r
//@contract
    requires k < 0x1_0000_0000,
    ensures r == tri(k as int),
//@pre
    proof {
        assert(k * (k + 1) <= 0xffff_ffff * (k + 1)) by (nonlinear_arith) requires 0 <= k <= 0xffff_ffff;
        assert(k * (k + 1) >= 0) by (nonlinear_arith) requires 0 <= k;
        lemma_shr1((k * (k + 1)) as usize);
    }
//@end
pub proof fn lemma_tri_nonneg(k: int) requires k >= 0 ensures tri(k) >= 0
{ assert(k * (k + 1) >= 0) by (nonlinear_arith) requires k >= 0; }
// sum of the triangular numbers of the first k clique sizes / separator sizes, in post order
pub open spec fn sum_tri_nblk(nblk: Seq<usize>, k: int) -> int decreases k { if k <= 0 { 0 } else { sum_tri_nblk(nblk, k - 1) + tri(nblk[k - 1] as int) } }
pub open spec fn sum_tri_sep(t: SuperNodeTree, k: int) -> int decreases k { if k <= 0 { 0 } else { sum_tri_sep(t, k - 1) + tri(sep(t, k - 1).len() as int) } }
pub proof fn lemma_sums_mono(t: SuperNodeTree, nblk: Seq<usize>, a: int, b: int)
    requires 0 <= a <= b,
    ensures 0 <= sum_tri_nblk(nblk, a) <= sum_tri_nblk(nblk, b), 0 <= sum_tri_sep(t, a) <= sum_tri_sep(t, b),
    decreases b,
{
    if a < b { lemma_sums_mono(t, nblk, a, b - 1); lemma_tri_nonneg(nblk[b - 1] as int); lemma_tri_nonneg(sep(t, b - 1).len() as int); }
    else if a > 0 { lemma_sums_mono(t, nblk, a - 1, a - 1); lemma_tri_nonneg(nblk[a - 1] as int); lemma_tri_nonneg(sep(t, a - 1).len() as int); }
}

impl SuperNodeTree {
//@fn file=src/solver/chordal/supernode_tree.rs in="impl SuperNodeTree" name=get_post_order ret=r
//@contract
    requires i < self.snode_post@.len(),
    ensures r == self.snode_post@[i as int],
//@end
//@fn file=src/solver/chordal/supernode_tree.rs in="impl SuperNodeTree" name=get_snode ret=r
//@contract
    requires post_in_range(*self, i + 1),
    ensures r@ == snd(*self, i as int),
//@end
//@fn file=src/solver/chordal/supernode_tree.rs in="impl SuperNodeTree" name=get_separators ret=r
//@contract
    requires post_in_range(*self, i + 1),
    ensures r@ == sep(*self, i as int),
//@end
//@fn file=src/solver/chordal/supernode_tree.rs in="impl SuperNodeTree" name=get_clique_parent ret=r
//@contract
    requires clique_index < self.snode_post@.len(), self.snode_post@[clique_index as int] < self.snode_parent@.len(),
    ensures r == self.snode_parent@[self.snode_post@[clique_index as int] as int],
//@end
//@fn file=src/solver/chordal/supernode_tree.rs in="impl SuperNodeTree" name=get_nblk ret=r
//@contract
    requires
        // "should only be called after block sizes are populated": otherwise the unwrap panics
        self.nblk is Some, i < self.nblk->0@.len(),
    ensures r == self.nblk->0@[i as int],
//@end
//@fn file=src/solver/chordal/supernode_tree.rs in="impl SuperNodeTree" name=get_overlap ret=r
//@contract
    requires post_in_range(*self, i + 1),
    ensures r == sep(*self, i as int).len(),
//@end

//@fn file=src/solver/chordal/supernode_tree.rs in="impl SuperNodeTree" name=calculate_block_dimensions
//@contract
    requires
        post_in_range(*old(self), old(self).n_cliques as int),
        // a clique is a set of distinct vertices: separator and supernode together have at most n <= usize::MAX members
        forall|i: int| 0 <= i < old(self).n_cliques ==> #[trigger] sep(*old(self), i).len() + snd(*old(self), i).len() <= usize::MAX,
    ensures
        // C17 (block sizes consistent with the cliques): nblk[i] = |separator| + |supernode| of the clique of order i
        final(self).nblk matches Some(nb) && nb@.len() == old(self).n_cliques
            && forall|i: int| 0 <= i < old(self).n_cliques ==> #[trigger] nb@[i] == sep(*old(self), i).len() + snd(*old(self), i).len(),
        // nothing else changes
        final(self).snode == old(self).snode, final(self).snode_post == old(self).snode_post, final(self).snode_parent == old(self).snode_parent,
        final(self).snode_children == old(self).snode_children, final(self).post == old(self).post, final(self).separators == old(self).separators,
        final(self).n_cliques == old(self).n_cliques,
//@loop 1
        invariant
            *self == *old(self), n == self.n_cliques, nblk@.len() == n, post_in_range(*self, n as int),
            forall|i: int| 0 <= i < n ==> #[trigger] sep(*self, i).len() + snd(*self, i).len() <= usize::MAX,
            forall|k: int| 0 <= k < $var1 ==> #[trigger] nblk@[k] == sep(*self, k).len() + snd(*self, k).len(),
//@body_start 1
            proof { assert(sep(*self, $var1 as int).len() + snd(*self, $var1 as int).len() <= usize::MAX); }
//@end

//@fn file=src/solver/chordal/supernode_tree.rs in="impl SuperNodeTree" name=get_decomposed_dim_and_overlaps ret=r
//@contract
    requires
        post_in_range(*self, self.n_cliques as int), self.nblk is Some, self.n_cliques <= self.nblk->0@.len(),
        // overflow: every block dimension fits triangular_number, and the two totals fit a usize
        forall|i: int| 0 <= i < self.n_cliques ==> #[trigger] self.nblk->0@[i] < 0x1_0000_0000,
        forall|i: int| 0 <= i < self.n_cliques ==> #[trigger] sep(*self, i).len() < 0x1_0000_0000,
        sum_tri_nblk(self.nblk->0@, self.n_cliques as int) <= usize::MAX, sum_tri_sep(*self, self.n_cliques as int) <= usize::MAX,
    ensures
        // C18 (sizes of the decomposed problem): total packed dimension of the clique blocks, total packed dimension of the overlaps
        r.0 == sum_tri_nblk(self.nblk->0@, self.n_cliques as int), r.1 == sum_tri_sep(*self, self.n_cliques as int),
//@loop 1
        invariant
            post_in_range(*self, self.n_cliques as int), self.nblk is Some, self.n_cliques <= self.nblk->0@.len(),
            forall|i: int| 0 <= i < self.n_cliques ==> #[trigger] self.nblk->0@[i] < 0x1_0000_0000,
            forall|i: int| 0 <= i < self.n_cliques ==> #[trigger] sep(*self, i).len() < 0x1_0000_0000,
            sum_tri_nblk(self.nblk->0@, self.n_cliques as int) <= usize::MAX, sum_tri_sep(*self, self.n_cliques as int) <= usize::MAX,
            dim == sum_tri_nblk(self.nblk->0@, $var1 as int), overlaps == sum_tri_sep(*self, $var1 as int),
//@body_start 1
            proof {
                lemma_sums_mono(*self, self.nblk->0@, $var1 + 1, self.n_cliques as int);
                assert(self.nblk->0@[$var1 as int] < 0x1_0000_0000);
                assert(sep(*self, $var1 as int).len() < 0x1_0000_0000);
            }
//@end
}

// ---- parent-child merge strategy: the closure-free helpers ----
//@fn file=src/solver/chordal/merge/parent_child.rs name=determine_parent ret=r
//@contract
    requires c1 < t.snode_children@.len(),
    ensures r == (if t.snode_children@[c1 as int]@.contains(c2) { (c1, c2) } else { (c2, c1) }),
//@end
//@fn file=src/solver/chordal/merge/parent_child.rs name=clique_dim ret=r
//@contract
    requires i < t.snode@.len(), i < t.separators@.len(),
    ensures r.0 == t.snode@[i as int]@.len(), r.1 == t.separators@[i as int]@.len(),
//@end
//@fn file=src/solver/chordal/merge/parent_child.rs name=fill_in ret=r
//@contract
    requires
        // `dim_parent - dim_clique_sep` underflows unless the child's separator fits into the parent clique (it is a subset of it in a clique tree)
        dim_clique_sep <= dim_parent_snode + dim_parent_sep,
        dim_parent_snode + dim_parent_sep <= usize::MAX, dim_clique_snode + dim_clique_sep <= usize::MAX,
        (dim_parent_snode + dim_parent_sep - dim_clique_sep) * dim_clique_snode <= usize::MAX,
    ensures r == (dim_parent_snode + dim_parent_sep - dim_clique_sep) * dim_clique_snode,
//@end

} // verus!
fn main() {}
