// unit `status` : the verdict logic of DefaultInfo (C01 C02 C03 C04 C07)
// float model: F-opaque (every comparison / product is an uninterpreted symbol)
use vstd::prelude::*;
verus! {
//@include prelude/float_opaque.rs

//@include units/inc/status_items.rs

impl DefaultInfo<F> {
// ---- the methods of `impl Info<T> for DefaultInfo<T>` (extracted as inherent methods; the trait
//      wiring is re-established in unit `solve`, whose assumed trait contracts are these clauses)
//@fn file=src/solver/implementations/default/info.rs in="impl<T> Info<T> for DefaultInfo<T>" name=check_termination rules=R1,R1f ret=r
//@contract
    requires old(self).status == SolverStatus::Unsolved,
    ensures
        same_figures(*final(self), *old(self)),
        r == (final(self).status != SolverStatus::Unsolved),
        // C01 / C02: verdicts only from the documented tests at full tolerances
        final(self).status == SolverStatus::Solved ==>
            kt_small(*old(self)) && solved_test(*old(self), settings.tol_gap_abs, settings.tol_gap_rel, settings.tol_feas),
        final(self).status == SolverStatus::PrimalInfeasible ==>
            kt_large(*old(self), settings.tol_ktratio) && pinf_test(*old(self), *residuals, settings.tol_infeas_abs, settings.tol_infeas_rel),
        final(self).status == SolverStatus::DualInfeasible ==>
            kt_large(*old(self), settings.tol_ktratio) && dinf_test(*old(self), *residuals, settings.tol_infeas_abs, settings.tol_infeas_rel),
        // C03: reduced-accuracy verdicts are never produced inside the loop
        !is_almost(final(self).status),
        final(self).status != SolverStatus::NumericalError,
        // C04 / C07: the iteration budget is observed exactly here
        final(self).status == SolverStatus::MaxIterations ==> settings.max_iter == old(self).iterations,
        settings.max_iter == old(self).iterations ==> r,
        final(self).status == SolverStatus::MaxTime ==> f_lt(settings.time_limit, old(self).solve_time),
        f_lt(settings.time_limit, old(self).solve_time) ==> r,
        // C07: with budget to spare the verdict does not depend on max_iter
        settings.max_iter != old(self).iterations && !(f_lt(settings.time_limit, old(self).solve_time)) ==>
            (final(self).status == SolverStatus::Unsolved || final(self).status == SolverStatus::Solved
             || final(self).status == SolverStatus::PrimalInfeasible || final(self).status == SolverStatus::DualInfeasible
             || final(self).status == SolverStatus::InsufficientProgress),
        // insufficient progress needs a worsening residual after the second iteration
        final(self).status == SolverStatus::InsufficientProgress ==> iter > 1
            && (f_lt(old(self).prev_res_dual, old(self).res_dual) || f_lt(old(self).prev_res_primal, old(self).res_primal)),
//@end

//@fn file=src/solver/implementations/default/info.rs in="impl<T> Info<T> for DefaultInfo<T>" name=post_process rules=R1
//@contract
    ensures
        same_figures(*final(self), *old(self)),
        // C03: only error / limit statuses are ever revised, and only to an Almost* status
        !is_limit_or_error(old(self).status) ==> final(self).status == old(self).status,
        final(self).status == old(self).status || is_almost(final(self).status),
        // ... whose reduced-tolerance test holds
        final(self).status == SolverStatus::AlmostSolved && old(self).status != SolverStatus::AlmostSolved ==>
            kt_small(*old(self)) && solved_test(*old(self), settings.reduced_tol_gap_abs, settings.reduced_tol_gap_rel, settings.reduced_tol_feas),
        final(self).status == SolverStatus::AlmostPrimalInfeasible && old(self).status != SolverStatus::AlmostPrimalInfeasible ==>
            kt_large(*old(self), settings.reduced_tol_ktratio) && pinf_test(*old(self), *residuals, settings.reduced_tol_infeas_abs, settings.reduced_tol_infeas_rel),
        final(self).status == SolverStatus::AlmostDualInfeasible && old(self).status != SolverStatus::AlmostDualInfeasible ==>
            kt_large(*old(self), settings.reduced_tol_ktratio) && dinf_test(*old(self), *residuals, settings.reduced_tol_infeas_abs, settings.reduced_tol_infeas_rel),
//@end

//@fn file=src/solver/implementations/default/info.rs in="impl<T> Info<T> for DefaultInfo<T>" name=save_scalars rules=R1,R2
//@contract
    ensures
        *final(self) == (DefaultInfo::<F> { mu: mu, step_length: alpha, sigma: sigma_g, iterations: iter, ..*old(self) }),
//@end
//@fn file=src/solver/implementations/default/info.rs in="impl<T> Info<T> for DefaultInfo<T>" name=get_status rules=R1 ret=r
//@contract
    ensures r == self.status
//@end
//@fn file=src/solver/implementations/default/info.rs in="impl<T> Info<T> for DefaultInfo<T>" name=set_status rules=R1
//@contract
    ensures *final(self) == (DefaultInfo::<F> { status: status, ..*old(self) })
//@end
}

} // verus!
fn main() {}
