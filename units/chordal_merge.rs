#![allow(non_snake_case)]
// unit `chordal_merge` : the clique-merging layer of the chordal analysis (C17): strategy trait + generic driver, the "none" and
// "parent_child" strategies, SparsityPattern::new, and the bookkeeping of ChordalInfo.  Sibling units: chordal_tree, chordal_decomp,
// chordal_compact (index-level pieces), chordal_snode (construction of the tree), dsu (union-find of the clique-graph strategy).
// (cargo feature `sdp`: `//@features serde,sdp` makes R12 / the field filter evaluate #[cfg] for that feature set; source text only.)
//
// PROVED (real text of /repo/src/solver/chordal/**, unbounded; panic-freedom = every index / overflow / unwrap / unreachable!() obligation):
//   merge/mod.rs
//     MergeStrategy::merge_cliques  the generic driver, verbatim inside the trait: for EVERY strategy that honours the contracts written on
//         the trait methods (ghost reading: init_pre / inv / done / fuel / cand_ok / ready / mid / result_ok) the loop terminates
//         (decreases: a round either sets `done` or ends with less fuel), no call precondition fails, the result satisfies the strategy's
//         result_ok, `post` is untouched.  The early exit `if t.n_cliques == 1 { break; }` is what establishes `n_cliques >= 2` for
//         the next `traverse` (needed by the clique-graph strategy: max_elem on an empty edge list panics)
//     set_union_into_indexed        sets[c1] = sets[c1] with the members of sets[c2] inserted one after the other (ins_all); every other
//         set unchanged; c1 == c2: nothing happens (verbatim incl. the deferred `let (target, source);` and split_at_mut)
//   merge/nomerge.rs   all seven methods against the trait contracts: done from the start, the four `unreachable!()` are unreachable, tree untouched
//   merge/parent_child.rs  new, initialise, is_done, traverse, evaluate, merge_two_cliques, update_strategy, post_process_merge against the
//         trait contracts, + determine_parent, clique_dim, fill_in.  State invariant tree_ok: snode_children is the inverse of
//         snode_parent; the supernodes PARTITION the vertices 0..nv (every vertex in exactly one, listed once); separators hold
//         vertices, once each, and lie inside the parent clique; an inactive clique is empty; nobody's parent is inactive; there is a
//         root; n_cliques = number of cliques not marked INACTIVE_NODE >= 1; the parent pointers form a FOREST (rank function).
//         merge_two_cliques(p, ch): pc_merged = snode[p] = snode[p] ++ snode[ch], snode[ch] = separators[ch] = children[ch] = {},
//         every grandchild re-parented to p, snode_parent[ch] = INACTIVE_NODE, children[p] = (children[p] - ch) ++ children[ch],
//         n_cliques - 1, nothing else; tree_ok preserved (lemma_pc_merge); every vertex stays in exactly one supernode
//         (in_sn equivalence).  evaluate: no underflow in fill_in (separator of the child fits into the parent clique: lemma_sep_fits),
//         no overflow (sets of distinct vertices < nv < 2^31: pigeonhole lemma_nodup_bounded).  traverse/update: the cliques of order
//         <= clique_index still have an (active) parent (trav_ok), clique_index strictly decreases until stop
//   sparsity_pattern.rs   SparsityPattern::new: merging runs only if n_cliques > 1 (each strategy's `initialise` needs two cliques: the
//         guard is what establishes init_pre); result: post order of length n_cliques >= 1 naming cliques, nblk = |separator| + |supernode|
//         per clique, orig_index / ordering length kept.  The `_` arm (panic!) is unreachable IF the method string is one of the three
//   supernode_tree.rs     calculate_block_dimensions (as in chordal_tree, against out_ok)
//   chordal_info.rs       analyse_psdtriangle_sparsity_pattern (diagonal forced on, nothing else of the mask changes; dense => nothing
//         recorded; otherwise either nothing or exactly ONE pattern with orig_index = coneidx and n_cliques >= 2 is appended: a non-dense
//         pattern is dropped only via the `n_cliques == 1` return), is_decomposed, init_cone_count, init_psd_cone_count (= number of
//         PSDTriangleConeT), decomposable_cone_count, final_psd_cones_added (= sum n_cliques - #patterns; no underflow because every
//         kept pattern has >= 2 cliques), premerge_psd_cones_added (same with snode.len()), final_cone_count, final_psd_cone_count,
//         premerge_psd_cone_count
//   merge/clique_graph.rs intersect_dim (members of the smaller set that are members of the other), union_dim (no underflow)
// ASSUMED (hand-written, not verified here; each with the reason):
//   VertexSet = indexmap::IndexSet<usize> stand-in (units/inc/chordal_sets.rs): insert / contains / len / is_empty / clear / iter as in
//     chordal_tree, plus new / with_capacity (empty), shift_remove (removes the member, keeps the order), sort (same members, ascending);
//   post_order: contract = what its stack loop is PROVED to do in unit chordal_snode + the assumed std sort (result: nc entries naming
//     cliques, none twice; child sets keep their members);
//   SuperNodeTree::new: ensures tree_ok, post order of all n cliques with the root last (trav_ok), n_cliques = n.  Covered by proved
//     contracts: snode_children inverse of snode_parent (children_from_parent, chordal_tree), partition (pothen_sun_loop sn_inv +
//     find_supernodes_fill, chordal_snode), parent numbers in range / NO_PARENT (pothen_sun_renumber), supernodal parent = supernode of
//     the parent of the top vertex (pothen_sun_loop, chordal_snode), separators = higher neighbours of the smallest vertex outside the
//     supernode (find_separators, chordal_snode).  NOT covered by any contract: sep_in_parent (graph theory of fundamental supernodes of a
//     chordal graph), forest / single root / root last in the post order (needs the sort of post_order and `retain` of find_supernodes);
//   SuperNodeTree::reorder_snode_consecutively (sort, IndexSet::extend, invperm, ipermute): keeps the shape, post order and set sizes;
//   CliqueGraphMergeStrategy: all methods (HashMap, closures, CscMatrix<isize>): assumed to honour the trait contracts, result_ok = out_ok;
//   find_graph (chordal_decomp proves its triplet loop and connect_graph), triangular_index (proved in scalarmath);
//   std: core::cmp::max at usize (admitted instance + canary), &str == literal (rule strmatch, helper str_eq).
// EXTRACTOR (additive): rule `strmatch` (match on a &str with literal patterns -> if / else-if chain of str_eq).
// PRECONDITIONS and the call sites:
//   merge_cliques (parent_child) init_pre: tree_ok + >= 2 cliques + post order with the root last: from SuperNodeTree::new (assumed, see
//     above) and the guard `n_cliques > 1` of SparsityPattern::new (proved to be sufficient);
//   SparsityPattern::new `is_merge_method(merge_method)`: NOT established.  D1 below;
//   analyse_psdtriangle_sparsity_pattern `nz_mask.len() == tri(conedim)`: rng_cones of a PSDTriangleConeT(conedim), by inspection of
//     find_sparsity_patterns (dropped);  counting helpers `wf`: patterns are pushed only by analyse (>= 2 cliques: proved), sizes < 2^31.
// DEFECT CANDIDATES (described, not fixed):
//   D1 DefaultSolver::new never validates the settings (DefaultSettings::validate is called only by the builder and by the Julia / Python
//      wrappers; the fields are pub).  `DefaultSettings { chordal_decomposition_merge_method: "foo".into(), ..Default::default() }` with a
//      PSD cone whose pattern is not dense and has >= 2 cliques reaches `panic! {"Unrecognized merge strategy"}` during setup instead of
//      an Err.  With n_cliques <= 1 the string is never looked at.
//   D2 post_order at the clique-graph call site: `i -= 1` underflows unless at most n_cliques entries of snode_parent differ from
//      INACTIVE_NODE, i.e. unless the spanning tree built by kruskal / assign_children reaches exactly the non-empty cliques; proved for the
//      parent-child strategy (tree_ok), not looked at for the clique graph (its code is out of reach here).
// DROPPED: find_sparsity_patterns / ChordalInfo::new (`rng_cones_iter`, zip over an iterator object), ChordalInfo::
//   get_decomposed_dim_and_overlaps (peekable), the clique-graph strategy except intersect_dim / union_dim (inter_equal, max_elem,
//   is_unconnected, ispermissible, kruskal, ... : HashMap / closures / findmax), reorder_snode_consecutively.
// MUTATION ROUND (scratch copy, 28 wrong edits of the real functions, one at a time): all rejected by a named obligation.
use vstd::prelude::*;
verus! {
global size_of usize == 8;
//@features serde,sdp
//@include prelude/float_opaque.rs
//@include units/inc/chordal_sets.rs
//@const file=src/solver/chordal/supernode_tree.rs name=NO_PARENT
//@const file=src/solver/chordal/supernode_tree.rs name=INACTIVE_NODE
//@struct file=src/solver/chordal/supernode_tree.rs name=SuperNodeTree

// ---- the supernodal elimination tree as the merge strategies see it ----
pub open spec fn tn(t: SuperNodeTree) -> int { t.snode@.len() as int }
// number of vertices of the graph (`post` is the post order of the vertices)
pub open spec fn nv(t: SuperNodeTree) -> int { t.post@.len() as int }
pub open spec fn dims_ok(t: SuperNodeTree) -> bool {
    &&& t.separators@.len() == tn(t) && t.snode_parent@.len() == tn(t) && t.snode_children@.len() == tn(t)
    // sizes of one problem in memory (a vertex / clique number is never near usize::MAX, where the two markers live)
    &&& tn(t) < 0x8000_0000 && nv(t) < 0x8000_0000
}
pub open spec fn parent_in(t: SuperNodeTree) -> bool {
    forall|c: int| 0 <= c < tn(t) ==> #[trigger] t.snode_parent@[c] < tn(t) || t.snode_parent@[c] == NO_PARENT || t.snode_parent@[c] == INACTIVE_NODE
}
// snode_children is the inverse of snode_parent
pub open spec fn children_fwd(t: SuperNodeTree) -> bool {
    forall|p: int, k: int| 0 <= p < tn(t) && 0 <= k < t.snode_children@[p]@.len() ==>
        (#[trigger] t.snode_children@[p]@[k]) < tn(t) && t.snode_parent@[t.snode_children@[p]@[k] as int] == p
}
// (opaque: together with children_fwd it forms a matching loop; revealed only in the lemmas that use it)
#[verifier::opaque]
pub open spec fn children_bwd(t: SuperNodeTree) -> bool {
    forall|w: int| 0 <= w < tn(t) && #[trigger] t.snode_parent@[w] < tn(t) ==> t.snode_children@[t.snode_parent@[w] as int]@.contains(w as usize)
}
pub open spec fn children_nodup(t: SuperNodeTree) -> bool { forall|p: int| 0 <= p < tn(t) ==> (#[trigger] t.snode_children@[p])@.no_duplicates() }
// vertex x lies in supernode c
pub open spec fn in_sn(t: SuperNodeTree, c: int, x: usize) -> bool { 0 <= c < tn(t) && t.snode@[c]@.contains(x) }
pub open spec fn covered(t: SuperNodeTree, x: usize) -> bool { exists|c: int| in_sn(t, c, x) }
// C17: the supernodes partition the vertices 0..nv: every vertex in exactly one supernode, each listed once
pub open spec fn sn_partition(t: SuperNodeTree) -> bool {
    &&& forall|x: usize| x < nv(t) ==> #[trigger] covered(t, x)
    &&& forall|c1: int, c2: int, x: usize| #[trigger] in_sn(t, c1, x) && #[trigger] in_sn(t, c2, x) ==> c1 == c2
    &&& forall|c: int, k: int| 0 <= c < tn(t) && 0 <= k < t.snode@[c]@.len() ==> (#[trigger] t.snode@[c]@[k]) < nv(t)
    &&& forall|c: int| 0 <= c < tn(t) ==> (#[trigger] t.snode@[c])@.no_duplicates()
}
pub open spec fn sep_ok(t: SuperNodeTree) -> bool {
    &&& forall|c: int, k: int| 0 <= c < tn(t) && 0 <= k < t.separators@[c]@.len() ==> (#[trigger] t.separators@[c]@[k]) < nv(t)
    &&& forall|c: int| 0 <= c < tn(t) ==> (#[trigger] t.separators@[c])@.no_duplicates()
}
pub open spec fn in_clique(t: SuperNodeTree, c: int, x: usize) -> bool { t.snode@[c]@.contains(x) || t.separators@[c]@.contains(x) }
// C17: the separator of a clique lies inside the clique of its parent (supernode + separator of the parent)
pub open spec fn sep_in_parent(t: SuperNodeTree) -> bool {
    forall|c: int, k: int| 0 <= c < tn(t) && t.snode_parent@[c] < tn(t) && 0 <= k < t.separators@[c]@.len() ==>
        in_clique(t, t.snode_parent@[c] as int, #[trigger] t.separators@[c]@[k])
}
// a merged (inactive) clique is empty
pub open spec fn inactive_empty(t: SuperNodeTree) -> bool {
    forall|c: int| 0 <= c < tn(t) && #[trigger] t.snode_parent@[c] == INACTIVE_NODE ==>
        t.snode@[c]@.len() == 0 && t.separators@[c]@.len() == 0 && t.snode_children@[c]@.len() == 0
}
pub open spec fn parent_active(t: SuperNodeTree) -> bool {
    forall|c: int| 0 <= c < tn(t) && #[trigger] t.snode_parent@[c] < tn(t) ==> t.snode_parent@[t.snode_parent@[c] as int] != INACTIVE_NODE
}
// number of cliques among the first k that have not been merged away
pub open spec fn cnt_active(par: Seq<usize>, k: int) -> int decreases k {
    if k <= 0 { 0 } else { cnt_active(par, k - 1) + (if par[k - 1] != INACTIVE_NODE { 1int } else { 0int }) }
}
// the parent pointers form a forest: every clique with a parent ranks strictly below it (no cycle)
pub open spec fn forest(t: SuperNodeTree, rank: Seq<int>) -> bool {
    rank.len() == tn(t) && forall|c: int| 0 <= c < tn(t) && #[trigger] t.snode_parent@[c] < tn(t) ==> rank[c] < rank[t.snode_parent@[c] as int]
}
pub open spec fn has_root(t: SuperNodeTree) -> bool { exists|c: int| 0 <= c < tn(t) && #[trigger] t.snode_parent@[c] == NO_PARENT }
// (opaque: the executable functions carry it as one atom and get the few facts they need from lemmas; the lemmas reveal it)
#[verifier::opaque]
pub open spec fn tree_ok(t: SuperNodeTree) -> bool {
    &&& dims_ok(t) && parent_in(t) && children_fwd(t) && children_bwd(t) && children_nodup(t) && sn_partition(t) && sep_ok(t) && sep_in_parent(t)
    &&& inactive_empty(t) && parent_active(t) && has_root(t)
    &&& t.n_cliques == cnt_active(t.snode_parent@, tn(t)) && t.n_cliques >= 1
    &&& exists|rank: Seq<int>| forest(t, rank)
}

// ---- merge/mod.rs: utilities ----
//@fn file=src/solver/chordal/merge/mod.rs name=set_union_into_indexed rules=R5,setiter:source
//@contract
    requires c1 < old(sets)@.len(), c2 < old(sets)@.len(),
    ensures
        // C17: sets[c1] = union(sets[c1], sets[c2]): the members of sets[c2] are inserted one after the other; nothing else changes
        final(sets)@.len() == old(sets)@.len(),
        forall|i: int| 0 <= i < old(sets)@.len() && i != c1 ==> #[trigger] final(sets)@[i] == old(sets)@[i],
        c1 != c2 ==> final(sets)@[c1 as int]@ == ins_all(old(sets)@[c1 as int]@, old(sets)@[c2 as int]@, old(sets)@[c2 as int]@.len() as int),
        c1 == c2 ==> final(sets)@[c1 as int] == old(sets)@[c1 as int],
//@before "for el_r in source.iter()"
    let ghost t0 = target@;
    let ghost src = source@;
//@iter 1
it
//@loop 1
        invariant
            it.seq().len() == src.len(), forall|i: int| 0 <= i < src.len() ==> *(#[trigger] it.seq()[i]) == src[i],
            target@ == ins_all(t0, src, it.index@ as int),
//@end

// ---- merge/parent_child.rs: the closure-free helpers (contracts as in unit chordal_tree, re-proved here because they are callees) ----
//@fn file=src/solver/chordal/merge/parent_child.rs name=determine_parent ret=r
//@contract
    requires c1 < t.snode_children@.len(),
    ensures r == (if t.snode_children@[c1 as int]@.contains(c2) { (c1, c2) } else { (c2, c1) }),
//@end
//@fn file=src/solver/chordal/merge/parent_child.rs name=clique_dim ret=r
//@contract
    requires i < t.snode@.len(), i < t.separators@.len(),
    ensures r.0 == t.snode@[i as int]@.len(), r.1 == t.separators@[i as int]@.len(),
//@end
//@fn file=src/solver/chordal/merge/parent_child.rs name=fill_in ret=r
//@contract
    requires
        // `dim_parent - dim_clique_sep` underflows unless the child's separator fits into the parent clique
        dim_clique_sep <= dim_parent_snode + dim_parent_sep,
        dim_parent_snode + dim_parent_sep <= usize::MAX, dim_clique_snode + dim_clique_sep <= usize::MAX,
        (dim_parent_snode + dim_parent_sep - dim_clique_sep) * dim_clique_snode <= usize::MAX,
    ensures r == (dim_parent_snode + dim_parent_sep - dim_clique_sep) * dim_clique_snode,
//@end

// ---- merge/mod.rs: the strategy trait and the generic driver ----
// Ghost reading of a strategy (spec functions added to the trait; every implementation gives them a meaning):
//   init_pre(t)            what `initialise` needs of the tree that SuperNodeTree::new built
//   inv(t)                 holds between two rounds of the driver loop
//   done()                 the value `is_done` reports
//   fuel(t)                termination measure: a round that does not set `done` ends with less fuel than it started with
//   cand_ok(t, cand, f)    `traverse` produced cand in a round that started with fuel f
//   ready(t, cand, f)      `evaluate` said "merge" (precondition of merge_two_cliques)
//   mid(t, cand, m, f)     state handed to update_strategy (after the merge if m, after a negative evaluate otherwise)
//   result_ok(t)           what the strategy guarantees of the tree after post_process_merge
pub trait MergeStrategy {
    spec fn init_pre(&self, t: SuperNodeTree) -> bool;
    spec fn inv(&self, t: SuperNodeTree) -> bool;
    spec fn done(&self) -> bool;
    spec fn fuel(&self, t: SuperNodeTree) -> nat;
    spec fn cand_ok(&self, t: SuperNodeTree, cand: (usize, usize), f: nat) -> bool;
    spec fn ready(&self, t: SuperNodeTree, cand: (usize, usize), f: nat) -> bool;
    spec fn mid(&self, t: SuperNodeTree, cand: (usize, usize), do_merge: bool, f: nat) -> bool;
    spec fn result_ok(&self, t: SuperNodeTree) -> bool;
//@fn file=src/solver/chordal/merge/mod.rs in="trait MergeStrategy" name=merge_cliques
//@contract
        requires old(self).init_pre(*old(t)),
        ensures
            // C17: for every strategy that honours the contracts below the driver terminates (decreases clause of the loop) without
            // panicking and hands back a tree with the strategy's guarantee
            final(self).result_ok(*final(t)),
            // no strategy touches the post order of the vertices
            final(t).post == old(t).post,
//@loop 1
            invariant_except_break t.n_cliques >= 2,
            invariant self.inv(*t), t.post == old(t).post,
            decreases (if self.done() { 0 } else { 1 + self.fuel(*t) }),
//@end
//@fn file=src/solver/chordal/merge/mod.rs in="trait MergeStrategy" name=initialise
//@contract
        requires old(self).init_pre(*old(t)),
        ensures final(self).inv(*final(t)), final(t).post == old(t).post, final(t).n_cliques >= 2,
//@end
//@fn file=src/solver/chordal/merge/mod.rs in="trait MergeStrategy" name=is_done ret=r
//@contract
        ensures r == self.done()
//@end
//@fn file=src/solver/chordal/merge/mod.rs in="trait MergeStrategy" name=traverse ret=r
//@contract
        requires
            old(self).inv(*t), !old(self).done(),
            // a candidate pair needs two cliques (the clique-graph strategy panics on an empty edge list: `findmax(..).unwrap()`);
            // this is what the early exit `if t.n_cliques == 1 { break; }` of the driver is for
            t.n_cliques >= 2,
        ensures
            r is None ==> final(self).inv(*t),
            r matches Some(cand) ==> final(self).cand_ok(*t, cand, old(self).fuel(*t)),
//@end
//@fn file=src/solver/chordal/merge/mod.rs in="trait MergeStrategy" name=evaluate ret=r
//@contract
        requires exists|f: nat| old(self).cand_ok(*t, cand, f),
        ensures forall|f: nat| #[trigger] old(self).cand_ok(*t, cand, f) ==> (r ==> final(self).ready(*t, cand, f)) && (!r ==> final(self).mid(*t, cand, false, f)),
//@end
//@fn file=src/solver/chordal/merge/mod.rs in="trait MergeStrategy" name=merge_two_cliques
//@contract
        requires exists|f: nat| self.ready(*old(t), cand, f),
        ensures
            forall|f: nat| #[trigger] self.ready(*old(t), cand, f) ==> self.mid(*final(t), cand, true, f), final(t).post == old(t).post,
            // one clique less, never the last one
            final(t).n_cliques == old(t).n_cliques - 1, final(t).n_cliques >= 1,
//@end
//@fn file=src/solver/chordal/merge/mod.rs in="trait MergeStrategy" name=update_strategy
//@contract
        requires exists|f: nat| old(self).mid(*t, cand, do_merge, f),
        ensures forall|f: nat| #[trigger] old(self).mid(*t, cand, do_merge, f) ==> final(self).inv(*t) && (final(self).done() || final(self).fuel(*t) < f),
//@end
//@fn file=src/solver/chordal/merge/mod.rs in="trait MergeStrategy" name=post_process_merge
//@contract
        requires old(self).inv(*old(t)),
        ensures final(self).result_ok(*final(t)), final(t).post == old(t).post,
//@end
}

// ---- merge/nomerge.rs ----
pub struct NoMergeStrategy;   // (unit struct, written out: the struct extractor expects a field block)
impl NoMergeStrategy {
//@fn file=src/solver/chordal/merge/nomerge.rs in="impl NoMergeStrategy" name=new
//@end
}
impl MergeStrategy for NoMergeStrategy {
    // the trivial strategy: done from the start, so the driver never asks for a candidate (the four `unreachable!()` bodies are proof
    // obligations: their preconditions are unsatisfiable) and the tree comes back untouched
    open spec fn init_pre(&self, t: SuperNodeTree) -> bool { out_ok(t) && t.n_cliques >= 2 }
    open spec fn inv(&self, t: SuperNodeTree) -> bool { out_ok(t) }
    open spec fn done(&self) -> bool { true }
    open spec fn fuel(&self, t: SuperNodeTree) -> nat { 0 }
    open spec fn cand_ok(&self, t: SuperNodeTree, cand: (usize, usize), f: nat) -> bool { false }
    open spec fn ready(&self, t: SuperNodeTree, cand: (usize, usize), f: nat) -> bool { false }
    open spec fn mid(&self, t: SuperNodeTree, cand: (usize, usize), do_merge: bool, f: nat) -> bool { false }
    open spec fn result_ok(&self, t: SuperNodeTree) -> bool { out_ok(t) }
//@fn file=src/solver/chordal/merge/nomerge.rs in="MergeStrategy for NoMergeStrategy" name=initialise
//@contract
        ensures *final(_t) == *old(_t)
//@end
//@fn file=src/solver/chordal/merge/nomerge.rs in="MergeStrategy for NoMergeStrategy" name=is_done
//@end
//@fn file=src/solver/chordal/merge/nomerge.rs in="MergeStrategy for NoMergeStrategy" name=traverse
//@end
//@fn file=src/solver/chordal/merge/nomerge.rs in="MergeStrategy for NoMergeStrategy" name=evaluate
//@end
//@fn file=src/solver/chordal/merge/nomerge.rs in="MergeStrategy for NoMergeStrategy" name=merge_two_cliques
//@end
//@fn file=src/solver/chordal/merge/nomerge.rs in="MergeStrategy for NoMergeStrategy" name=update_strategy
//@end
//@fn file=src/solver/chordal/merge/nomerge.rs in="MergeStrategy for NoMergeStrategy" name=post_process_merge
//@contract
        ensures *final(_t) == *old(_t)
//@end
}
// what every strategy hands to reorder_snode_consecutively / calculate_block_dimensions: a post order of length n_cliques that names
// existing cliques
pub open spec fn out_ok(t: SuperNodeTree) -> bool {
    &&& dims_ok(t) && 1 <= t.n_cliques <= tn(t) && t.snode_post@.len() == t.n_cliques
    &&& forall|i: int| 0 <= i < t.snode_post@.len() ==> #[trigger] t.snode_post@[i] < tn(t)
    &&& forall|c: int| 0 <= c < tn(t) ==> (#[trigger] t.snode@[c])@.len() < 0x8000_0000 && t.separators@[c]@.len() < 0x8000_0000
}

// ---- merge/parent_child.rs ----
//@struct file=src/solver/chordal/merge/parent_child.rs name=ParentChildMergeStrategy
// ASSUMED std: core::cmp::max at type usize (generic spec + admitted instance, guarded by a canary)
pub uninterp spec fn cmp_max_spec<T>(a: T, b: T) -> T;
pub assume_specification<T: Ord> [core::cmp::max] (a: T, b: T) -> (r: T) ensures r == cmp_max_spec(a, b);
pub broadcast proof fn ax_cmp_max_usize(a: usize, b: usize) ensures #[trigger] cmp_max_spec::<usize>(a, b) == (if a >= b { a } else { b }) { admit(); }
// vacuity guard for the admitted instance: this lemma MUST FAIL
pub proof fn canary_cmp_max_axiom() ensures false { broadcast use ax_cmp_max_usize; }

// ASSUMED: post_order (supernode_tree.rs).  Its stack loop is PROVED in unit chordal_snode (slice `post_order_loop`: every vertex reachable
// from the root is popped exactly once, `i -= 1` does not underflow if at most nc parents are not INACTIVE_NODE); the closure parts
// (position / for_each / sort_by) are not.  Assumed here: the result has length nc, names cliques, names none twice (a sorted
// permutation of 0..n, truncated); every child set keeps its members (`children[v].sort()`).
#[verifier::external_body]
pub fn post_order(post: &mut Vec<usize>, parent: &[usize], children: &mut [VertexSet], nc: usize)
    requires
        parent@.len() == old(children)@.len(), nc <= parent@.len(), parent@.len() < 0x8000_0000,
        // `position(|&x| x == NO_PARENT).unwrap()`: there is a root
        exists|c: int| 0 <= c < parent@.len() && #[trigger] parent@[c] == NO_PARENT,
        // the child sets name children (else a vertex could be pushed twice and `i -= 1` underflow)
        forall|p: int, k: int| 0 <= p < parent@.len() && 0 <= k < old(children)@[p]@.len() ==>
            (#[trigger] old(children)@[p]@[k]) < parent@.len() && parent@[old(children)@[p]@[k] as int] == p,
        forall|p: int| 0 <= p < parent@.len() ==> (#[trigger] old(children)@[p])@.no_duplicates(),
        cnt_active(parent@, parent@.len() as int) <= nc,
    ensures
        final(post)@.len() == nc, final(children)@.len() == old(children)@.len(),
        forall|i: int| 0 <= i < nc ==> #[trigger] final(post)@[i] < parent@.len(),
        forall|i: int, j: int| 0 <= i < j < nc ==> final(post)@[i] != final(post)@[j],
        forall|p: int| 0 <= p < parent@.len() ==> same_members((#[trigger] final(children)@[p])@, old(children)@[p]@) && final(children)@[p]@.no_duplicates(),
{ unimplemented!() }

// the post order of the cliques that the traversal walks down: names cliques, none twice
pub open spec fn post_ok(t: SuperNodeTree) -> bool {
    &&& forall|i: int| 0 <= i < t.snode_post@.len() ==> #[trigger] t.snode_post@[i] < tn(t)
    &&& forall|i: int, j: int| 0 <= i < j < t.snode_post@.len() ==> t.snode_post@[i] != t.snode_post@[j]
}
// every clique of order <= ci still has a parent (it is neither the root nor merged away): "descending topological order"
pub open spec fn trav_ok(t: SuperNodeTree, ci: int) -> bool {
    ci < t.snode_post@.len() && forall|j: int| 0 <= j <= ci ==> t.snode_parent@[#[trigger] t.snode_post@[j] as int] < tn(t)
}
// the effect of merging the child ch into its parent p (C17): the child's vertices move into the parent's supernode, the
// grandchildren are re-parented, the child becomes an empty inactive clique, one clique less; nothing else changes
pub open spec fn pc_merged(t0: SuperNodeTree, t1: SuperNodeTree, p: int, ch: int) -> bool {
    &&& tn(t1) == tn(t0) && dims_ok(t1) && t1.post == t0.post && t1.snode_post == t0.snode_post && t1.nblk == t0.nblk
    &&& forall|c: int| 0 <= c < tn(t0) ==> (#[trigger] t1.snode@[c])@ == (if c == p { t0.snode@[p]@ + t0.snode@[ch]@ } else if c == ch { Seq::<usize>::empty() } else { t0.snode@[c]@ })
    &&& forall|c: int| 0 <= c < tn(t0) ==> (#[trigger] t1.separators@[c])@ == (if c == ch { Seq::<usize>::empty() } else { t0.separators@[c]@ })
    &&& forall|c: int| 0 <= c < tn(t0) ==> #[trigger] t1.snode_parent@[c] == (if c == ch { INACTIVE_NODE } else if t0.snode_parent@[c] == ch { p as usize } else { t0.snode_parent@[c] })
    &&& forall|c: int| 0 <= c < tn(t0) ==> (#[trigger] t1.snode_children@[c])@ ==
            (if c == p { rm(t0.snode_children@[p]@, ch as usize) + t0.snode_children@[ch]@ } else if c == ch { Seq::<usize>::empty() } else { t0.snode_children@[c]@ })
    &&& t1.n_cliques == t0.n_cliques - 1
}
pub open spec fn pc_pair(t0: SuperNodeTree, p: int, ch: int) -> bool { tree_ok(t0) && 0 <= ch < tn(t0) && 0 <= p < tn(t0) && t0.snode_parent@[ch] == p }
pub proof fn lemma_pc_distinct(t0: SuperNodeTree, p: int, ch: int)
    requires pc_pair(t0, p, ch),
    ensures p != ch, t0.snode_parent@[p] != ch, t0.snode_parent@[p] != INACTIVE_NODE, t0.snode_children@[p]@.contains(ch as usize),
{
    reveal(tree_ok);
    reveal(children_bwd);
    let rank = choose|rank: Seq<int>| forest(t0, rank);
    assert(t0.snode_parent@[ch] < tn(t0));
    assert(rank[ch] < rank[p]);
    if t0.snode_parent@[p] == ch { assert(t0.snode_parent@[p] < tn(t0)); assert(rank[p] < rank[ch]); }
}
// (the three clauses about snode_children are proved from exactly the clauses they need: children_fwd and children_bwd feed each
// other's triggers, together they cost a hundred times more)
pub open spec fn pc_pair_min(t0: SuperNodeTree, p: int, ch: int) -> bool { 0 <= ch < tn(t0) && 0 <= p < tn(t0) && p != ch && t0.snode_parent@[ch] == p && dims_ok(t0) }
pub proof fn lemma_pc_children_fwd(t0: SuperNodeTree, t1: SuperNodeTree, p: int, ch: int)
    requires pc_pair_min(t0, p, ch), children_fwd(t0), children_nodup(t0), pc_merged(t0, t1, p, ch),
    ensures children_fwd(t1),
{
    let c0p = t0.snode_children@[p]@;
    let c0ch = t0.snode_children@[ch]@;
    let r = rm(c0p, ch as usize);
    assert(c0p.no_duplicates()) by { assert(t0.snode_children@[p]@.no_duplicates()); }
    lemma_rm(c0p, ch as usize);
    assert(t1.snode_children@[p]@ == r + c0ch);
    assert(t1.snode_children@[ch]@ == Seq::<usize>::empty());
    assert forall|q: int, k: int| 0 <= q < tn(t1) && 0 <= k < t1.snode_children@[q]@.len() implies
        (#[trigger] t1.snode_children@[q]@[k]) < tn(t1) && t1.snode_parent@[t1.snode_children@[q]@[k] as int] == q by {
        let w = t1.snode_children@[q]@[k];
        if q == p {
            if k < r.len() {
                assert(r[k] == w); assert(r.contains(w));
                assert(c0p.contains(w) && w != ch);
                let k0 = choose|k0: int| 0 <= k0 < c0p.len() && c0p[k0] == w;
                assert(t0.snode_children@[p]@[k0] < tn(t0) && t0.snode_parent@[t0.snode_children@[p]@[k0] as int] == p);
            } else {
                let k0 = k - r.len();
                assert(c0ch[k0] == w);
                assert(t0.snode_children@[ch]@[k0] < tn(t0) && t0.snode_parent@[t0.snode_children@[ch]@[k0] as int] == ch);
            }
        } else {
            assert(q != ch);
            assert(t1.snode_children@[q]@ == t0.snode_children@[q]@);
            assert(t0.snode_children@[q]@[k] < tn(t0) && t0.snode_parent@[t0.snode_children@[q]@[k] as int] == q);
        }
    }
}
pub proof fn lemma_pc_children_bwd(t0: SuperNodeTree, t1: SuperNodeTree, p: int, ch: int)
    requires pc_pair_min(t0, p, ch), children_bwd(t0), children_nodup(t0), pc_merged(t0, t1, p, ch),
    ensures children_bwd(t1),
{
    reveal(children_bwd);
    let c0p = t0.snode_children@[p]@;
    let c0ch = t0.snode_children@[ch]@;
    let r = rm(c0p, ch as usize);
    assert(c0p.no_duplicates()) by { assert(t0.snode_children@[p]@.no_duplicates()); }
    lemma_rm(c0p, ch as usize);
    lemma_concat_contains(r, c0ch);
    assert(t1.snode_children@[p]@ == r + c0ch);
    assert forall|w: int| 0 <= w < tn(t1) && #[trigger] t1.snode_parent@[w] < tn(t1) implies t1.snode_children@[t1.snode_parent@[w] as int]@.contains(w as usize) by {
        assert(w != ch);
        if t0.snode_parent@[w] == ch {
            assert(t0.snode_parent@[w] < tn(t0));
            assert(c0ch.contains(w as usize));
        } else {
            let q = t0.snode_parent@[w] as int;
            assert(t0.snode_parent@[w] < tn(t0));
            assert(t0.snode_children@[q]@.contains(w as usize));
            if q == p { assert(r.contains(w as usize)); } else { assert(t1.snode_children@[q]@ == t0.snode_children@[q]@); }
        }
    }
}
pub proof fn lemma_pc_children_nodup(t0: SuperNodeTree, t1: SuperNodeTree, p: int, ch: int)
    requires pc_pair_min(t0, p, ch), children_fwd(t0), children_nodup(t0), pc_merged(t0, t1, p, ch),
    ensures children_nodup(t1),
{
    let c0p = t0.snode_children@[p]@;
    let c0ch = t0.snode_children@[ch]@;
    let r = rm(c0p, ch as usize);
    assert(c0p.no_duplicates()) by { assert(t0.snode_children@[p]@.no_duplicates()); }
    assert(c0ch.no_duplicates()) by { assert(t0.snode_children@[ch]@.no_duplicates()); }
    lemma_rm(c0p, ch as usize);
    assert(t1.snode_children@[p]@ == r + c0ch);
    assert(t1.snode_children@[ch]@ == Seq::<usize>::empty());
    assert(disjoint(r, c0ch)) by {
        assert forall|x: usize| !(r.contains(x) && c0ch.contains(x)) by {
            if r.contains(x) && c0ch.contains(x) {
                assert(c0p.contains(x));
                let k1 = choose|k1: int| 0 <= k1 < c0p.len() && c0p[k1] == x;
                let k2 = choose|k2: int| 0 <= k2 < c0ch.len() && c0ch[k2] == x;
                assert(t0.snode_parent@[t0.snode_children@[p]@[k1] as int] == p);
                assert(t0.snode_parent@[t0.snode_children@[ch]@[k2] as int] == ch);
            }
        }
    }
    lemma_concat_nodup(r, c0ch);
    assert forall|q: int| 0 <= q < tn(t1) implies (#[trigger] t1.snode_children@[q])@.no_duplicates() by {
        if q != p && q != ch { assert(t1.snode_children@[q]@ == t0.snode_children@[q]@); assert(t0.snode_children@[q]@.no_duplicates()); }
    }
}
pub proof fn lemma_pc_children(t0: SuperNodeTree, t1: SuperNodeTree, p: int, ch: int)
    requires pc_pair(t0, p, ch), pc_merged(t0, t1, p, ch),
    ensures children_fwd(t1), children_bwd(t1), children_nodup(t1),
{
    reveal(tree_ok);
    lemma_pc_distinct(t0, p, ch);
    lemma_pc_children_fwd(t0, t1, p, ch); lemma_pc_children_bwd(t0, t1, p, ch); lemma_pc_children_nodup(t0, t1, p, ch);
}
// the vertices of the merged tree sit where they sat, except that those of the child now sit in the parent
pub proof fn lemma_pc_in_sn(t0: SuperNodeTree, t1: SuperNodeTree, p: int, ch: int)
    requires pc_pair(t0, p, ch), pc_merged(t0, t1, p, ch),
    ensures forall|c: int, x: usize| #[trigger] in_sn(t1, c, x) <==> (c == p && (in_sn(t0, p, x) || in_sn(t0, ch, x))) || (c != p && c != ch && in_sn(t0, c, x)),
{
    reveal(tree_ok);
    lemma_pc_distinct(t0, p, ch);
    lemma_concat_contains(t0.snode@[p]@, t0.snode@[ch]@);
    assert(t1.snode@[p]@ == t0.snode@[p]@ + t0.snode@[ch]@);
    assert(t1.snode@[ch]@ == Seq::<usize>::empty());
    assert forall|c: int, x: usize| #[trigger] in_sn(t1, c, x) <==> (c == p && (in_sn(t0, p, x) || in_sn(t0, ch, x))) || (c != p && c != ch && in_sn(t0, c, x)) by {
        if 0 <= c < tn(t0) && c != p && c != ch { assert(t1.snode@[c]@ == t0.snode@[c]@); }
    }
}
pub proof fn lemma_pc_partition(t0: SuperNodeTree, t1: SuperNodeTree, p: int, ch: int)
    requires pc_pair(t0, p, ch), pc_merged(t0, t1, p, ch),
    ensures sn_partition(t1),
{
    reveal(tree_ok);
    lemma_pc_distinct(t0, p, ch);
    lemma_pc_in_sn(t0, t1, p, ch);
    let a = t0.snode@[p]@;
    let b = t0.snode@[ch]@;
    assert(t1.snode@[p]@ == a + b);
    assert forall|x: usize| x < nv(t1) implies #[trigger] covered(t1, x) by {
        assert(covered(t0, x));
        let c = choose|c: int| in_sn(t0, c, x);
        if c == p || c == ch { assert(in_sn(t1, p, x)); } else { assert(in_sn(t1, c, x)); }
    }
    assert forall|c1: int, c2: int, x: usize| #[trigger] in_sn(t1, c1, x) && #[trigger] in_sn(t1, c2, x) implies c1 == c2 by {
        if c1 != p && c2 != p { assert(in_sn(t0, c1, x) && in_sn(t0, c2, x)); }
        else if c1 == p && c2 != p { assert(in_sn(t0, c2, x)); assert(in_sn(t0, p, x) || in_sn(t0, ch, x)); }
        else if c1 != p && c2 == p { assert(in_sn(t0, c1, x)); assert(in_sn(t0, p, x) || in_sn(t0, ch, x)); }
    }
    assert forall|c: int, k: int| 0 <= c < tn(t1) && 0 <= k < t1.snode@[c]@.len() implies (#[trigger] t1.snode@[c]@[k]) < nv(t1) by {
        if c == p {
            if k < a.len() { assert(t0.snode@[p]@[k] < nv(t0)); } else { assert(t0.snode@[ch]@[k - a.len()] < nv(t0)); }
        } else if c != ch { assert(t1.snode@[c]@ == t0.snode@[c]@); assert(t0.snode@[c]@[k] < nv(t0)); }
        else { assert(t1.snode@[ch]@ == Seq::<usize>::empty()); }
    }
    assert(disjoint(a, b)) by {
        assert forall|x: usize| !(a.contains(x) && b.contains(x)) by { if a.contains(x) && b.contains(x) { assert(in_sn(t0, p, x) && in_sn(t0, ch, x)); } }
    }
    assert(a.no_duplicates()) by { assert(t0.snode@[p]@.no_duplicates()); }
    assert(b.no_duplicates()) by { assert(t0.snode@[ch]@.no_duplicates()); }
    lemma_concat_nodup(a, b);
    assert forall|c: int| 0 <= c < tn(t1) implies (#[trigger] t1.snode@[c])@.no_duplicates() by {
        if c != p && c != ch { assert(t1.snode@[c]@ == t0.snode@[c]@); assert(t0.snode@[c]@.no_duplicates()); }
        else if c == ch { assert(t1.snode@[ch]@ == Seq::<usize>::empty()); }
    }
}
pub proof fn lemma_pc_sep(t0: SuperNodeTree, t1: SuperNodeTree, p: int, ch: int)
    requires pc_pair(t0, p, ch), pc_merged(t0, t1, p, ch),
    ensures sep_ok(t1), sep_in_parent(t1),
{
    reveal(tree_ok);
    lemma_pc_distinct(t0, p, ch);
    lemma_concat_contains(t0.snode@[p]@, t0.snode@[ch]@);
    assert(t1.snode@[p]@ == t0.snode@[p]@ + t0.snode@[ch]@);
    assert(t1.separators@[p]@ == t0.separators@[p]@);
    assert(t1.separators@[ch]@ == Seq::<usize>::empty());
    assert forall|c: int, k: int| 0 <= c < tn(t1) && 0 <= k < t1.separators@[c]@.len() implies (#[trigger] t1.separators@[c]@[k]) < nv(t1) by {
        assert(c != ch); assert(t1.separators@[c]@ == t0.separators@[c]@); assert(t0.separators@[c]@[k] < nv(t0));
    }
    assert forall|c: int| 0 <= c < tn(t1) implies (#[trigger] t1.separators@[c])@.no_duplicates() by {
        if c != ch { assert(t1.separators@[c]@ == t0.separators@[c]@); assert(t0.separators@[c]@.no_duplicates()); }
    }
    // whatever lay in the clique of the parent still does (its supernode only grew)
    assert forall|x: usize| in_clique(t0, p, x) implies in_clique(t1, p, x) by { }
    assert forall|c: int, k: int| 0 <= c < tn(t1) && t1.snode_parent@[c] < tn(t1) && 0 <= k < t1.separators@[c]@.len() implies
        in_clique(t1, t1.snode_parent@[c] as int, #[trigger] t1.separators@[c]@[k]) by {
        assert(c != ch);
        assert(t1.separators@[c]@ == t0.separators@[c]@);
        let x = t0.separators@[c]@[k];
        if t0.snode_parent@[c] == ch {
            assert(t0.snode_parent@[c] < tn(t0));
            assert(in_clique(t0, ch, t0.separators@[c]@[k]));
            if t0.separators@[ch]@.contains(x) {
                let k2 = choose|k2: int| 0 <= k2 < t0.separators@[ch]@.len() && t0.separators@[ch]@[k2] == x;
                assert(in_clique(t0, p, t0.separators@[ch]@[k2]));
            }
        } else {
            let q = t0.snode_parent@[c] as int;
            assert(in_clique(t0, q, t0.separators@[c]@[k]));
            if q != p { assert(q != ch); assert(t1.snode@[q]@ == t0.snode@[q]@ && t1.separators@[q]@ == t0.separators@[q]@); }
        }
    }
}
pub proof fn lemma_cnt_active_bounds(par: Seq<usize>, k: int)
    requires 0 <= k,
    ensures 0 <= cnt_active(par, k) <= k,
    decreases k,
{ if k > 0 { lemma_cnt_active_bounds(par, k - 1); } }
pub proof fn lemma_cnt_active_pos(par: Seq<usize>, k: int, c: int)
    requires 0 <= c < k, par[c] != INACTIVE_NODE,
    ensures cnt_active(par, k) >= 1,
    decreases k,
{ if c < k - 1 { lemma_cnt_active_pos(par, k - 1, c); } else { lemma_cnt_active_bounds(par, k - 1); } }
pub proof fn lemma_cnt_active_drop(par0: Seq<usize>, par1: Seq<usize>, k: int, ch: int)
    requires
        0 <= k <= par0.len(), par1.len() == par0.len(), 0 <= ch < par0.len(), par0[ch] != INACTIVE_NODE, par1[ch] == INACTIVE_NODE,
        forall|c: int| 0 <= c < par0.len() && c != ch ==> ((#[trigger] par1[c] != INACTIVE_NODE) <==> par0[c] != INACTIVE_NODE),
    ensures cnt_active(par1, k) == cnt_active(par0, k) - (if ch < k { 1int } else { 0int }),
    decreases k,
{ if k > 0 { lemma_cnt_active_drop(par0, par1, k - 1, ch); } }
pub proof fn lemma_pc_misc(t0: SuperNodeTree, t1: SuperNodeTree, p: int, ch: int)
    requires pc_pair(t0, p, ch), pc_merged(t0, t1, p, ch),
    ensures
        parent_in(t1), inactive_empty(t1), parent_active(t1), has_root(t1), exists|rank: Seq<int>| forest(t1, rank),
        t1.n_cliques == cnt_active(t1.snode_parent@, tn(t1)), t1.n_cliques >= 1,
{
    reveal(tree_ok);
    lemma_pc_distinct(t0, p, ch);
    let rank = choose|rank: Seq<int>| forest(t0, rank);
    assert forall|c: int| 0 <= c < tn(t1) implies #[trigger] t1.snode_parent@[c] < tn(t1) || t1.snode_parent@[c] == NO_PARENT || t1.snode_parent@[c] == INACTIVE_NODE by {
        assert(t0.snode_parent@[c] < tn(t0) || t0.snode_parent@[c] == NO_PARENT || t0.snode_parent@[c] == INACTIVE_NODE);
    }
    assert forall|c: int| 0 <= c < tn(t1) && #[trigger] t1.snode_parent@[c] == INACTIVE_NODE implies
        t1.snode@[c]@.len() == 0 && t1.separators@[c]@.len() == 0 && t1.snode_children@[c]@.len() == 0 by {
        if c == ch {
            assert(t1.snode@[ch]@ == Seq::<usize>::empty() && t1.separators@[ch]@ == Seq::<usize>::empty() && t1.snode_children@[ch]@ == Seq::<usize>::empty());
        } else {
            assert(t0.snode_parent@[c] == INACTIVE_NODE);
            assert(c != p);
            assert(t1.snode@[c]@ == t0.snode@[c]@ && t1.separators@[c]@ == t0.separators@[c]@ && t1.snode_children@[c]@ == t0.snode_children@[c]@);
        }
    }
    assert forall|c: int| 0 <= c < tn(t1) && #[trigger] t1.snode_parent@[c] < tn(t1) implies t1.snode_parent@[t1.snode_parent@[c] as int] != INACTIVE_NODE by {
        assert(c != ch);
        let q = t1.snode_parent@[c] as int;
        assert(t0.snode_parent@[ch] < tn(t0));
        if t0.snode_parent@[c] != ch { assert(t0.snode_parent@[c] < tn(t0)); assert(t0.snode_parent@[q] != INACTIVE_NODE); }
        assert(q != ch);
    }
    let r = choose|c: int| 0 <= c < tn(t0) && #[trigger] t0.snode_parent@[c] == NO_PARENT;
    assert(t1.snode_parent@[r] == NO_PARENT);
    assert(forest(t1, rank)) by {
        assert forall|c: int| 0 <= c < tn(t1) && #[trigger] t1.snode_parent@[c] < tn(t1) implies rank[c] < rank[t1.snode_parent@[c] as int] by {
            assert(t0.snode_parent@[ch] < tn(t0));
            if t0.snode_parent@[c] == ch { assert(t0.snode_parent@[c] < tn(t0)); assert(rank[c] < rank[ch]); assert(rank[ch] < rank[p]); }
            else { assert(t0.snode_parent@[c] < tn(t0)); }
        }
    }
    assert forall|c: int| 0 <= c < tn(t0) && c != ch implies ((#[trigger] t1.snode_parent@[c] != INACTIVE_NODE) <==> t0.snode_parent@[c] != INACTIVE_NODE) by { }
    lemma_cnt_active_drop(t0.snode_parent@, t1.snode_parent@, tn(t0), ch);
    assert(t1.snode_parent@[p] != INACTIVE_NODE);
    lemma_cnt_active_pos(t1.snode_parent@, tn(t1), p);
}
pub proof fn lemma_pc_merge(t0: SuperNodeTree, t1: SuperNodeTree, p: int, ch: int)
    requires pc_pair(t0, p, ch), pc_merged(t0, t1, p, ch),
    ensures tree_ok(t1),
{
    reveal(tree_ok);
    lemma_pc_children(t0, t1, p, ch); lemma_pc_partition(t0, t1, p, ch); lemma_pc_sep(t0, t1, p, ch); lemma_pc_misc(t0, t1, p, ch);
}

// sizes: a supernode / separator lists distinct vertices below nv, and a child's separator fits into the clique of its parent
pub proof fn lemma_clique_sizes(t: SuperNodeTree, c: int)
    requires tree_ok(t), 0 <= c < tn(t),
    ensures t.snode@[c]@.len() <= nv(t), t.separators@[c]@.len() <= nv(t),
{
    reveal(tree_ok);
    assert(t.snode@[c]@.no_duplicates() && t.separators@[c]@.no_duplicates());
    assert forall|i: int| 0 <= i < t.snode@[c]@.len() implies #[trigger] t.snode@[c]@[i] < nv(t) by { }
    assert forall|i: int| 0 <= i < t.separators@[c]@.len() implies #[trigger] t.separators@[c]@[i] < nv(t) by { }
    lemma_nodup_bounded(t.snode@[c]@, nv(t)); lemma_nodup_bounded(t.separators@[c]@, nv(t));
}
pub proof fn lemma_sep_fits(t: SuperNodeTree, c: int)
    requires tree_ok(t), 0 <= c < tn(t), t.snode_parent@[c] < tn(t),
    ensures t.separators@[c]@.len() <= t.snode@[t.snode_parent@[c] as int]@.len() + t.separators@[t.snode_parent@[c] as int]@.len(),
{
    reveal(tree_ok);
    let q = t.snode_parent@[c] as int;
    let b = t.snode@[q]@ + t.separators@[q]@;
    lemma_concat_contains(t.snode@[q]@, t.separators@[q]@);
    assert(t.separators@[c]@.no_duplicates());
    assert forall|i: int| 0 <= i < t.separators@[c]@.len() implies b.contains(#[trigger] t.separators@[c]@[i]) by { assert(in_clique(t, q, t.separators@[c]@[i])); }
    lemma_nodup_sub_len(t.separators@[c]@, b);
}

pub proof fn lemma_tree_dims(t: SuperNodeTree)
    requires tree_ok(t),
    ensures dims_ok(t), 1 <= t.n_cliques <= tn(t),
{ reveal(tree_ok); lemma_cnt_active_bounds(t.snode_parent@, tn(t)); }
// what the executable text of merge_two_cliques needs to know of the tree before the merge
pub proof fn lemma_pc_exec_facts(t0: SuperNodeTree, p: int, ch: int)
    requires pc_pair(t0, p, ch),
    ensures
        dims_ok(t0), p != ch, t0.snode_children@[p]@.contains(ch as usize), t0.n_cliques >= 1,
        t0.snode@[ch]@.no_duplicates(), disjoint(t0.snode@[p]@, t0.snode@[ch]@),
        t0.snode_children@[p]@.no_duplicates(), t0.snode_children@[ch]@.no_duplicates(),
        disjoint(rm(t0.snode_children@[p]@, ch as usize), t0.snode_children@[ch]@),
        forall|k: int| 0 <= k < t0.snode_children@[ch]@.len() ==> #[trigger] t0.snode_children@[ch]@[k] < tn(t0),
        forall|c: int| 0 <= c < tn(t0) ==> ((#[trigger] t0.snode_parent@[c] == ch) <==> t0.snode_children@[ch]@.contains(c as usize)),
{
    lemma_pc_distinct(t0, p, ch);
    reveal(tree_ok);
    let a = t0.snode@[p]@;
    let b = t0.snode@[ch]@;
    assert(t0.snode@[ch]@.no_duplicates());
    assert forall|x: usize| !(a.contains(x) && b.contains(x)) by { if a.contains(x) && b.contains(x) { assert(in_sn(t0, p, x) && in_sn(t0, ch, x)); } }
    let c0p = t0.snode_children@[p]@;
    let c0ch = t0.snode_children@[ch]@;
    assert(t0.snode_children@[p]@.no_duplicates() && t0.snode_children@[ch]@.no_duplicates());
    lemma_rm(c0p, ch as usize);
    let r = rm(c0p, ch as usize);
    assert forall|x: usize| !(r.contains(x) && c0ch.contains(x)) by {
        if r.contains(x) && c0ch.contains(x) {
            let k1 = choose|k1: int| 0 <= k1 < c0p.len() && c0p[k1] == x;
            let k2 = choose|k2: int| 0 <= k2 < c0ch.len() && c0ch[k2] == x;
            assert(t0.snode_parent@[t0.snode_children@[p]@[k1] as int] == p);
            assert(t0.snode_parent@[t0.snode_children@[ch]@[k2] as int] == ch);
        }
    }
    assert forall|k: int| 0 <= k < t0.snode_children@[ch]@.len() implies #[trigger] t0.snode_children@[ch]@[k] < tn(t0) by { }
    assert forall|c: int| 0 <= c < tn(t0) implies ((#[trigger] t0.snode_parent@[c] == ch) <==> t0.snode_children@[ch]@.contains(c as usize)) by {
        if t0.snode_parent@[c] == ch { lemma_child_listed(t0, c); }
        if c0ch.contains(c as usize) {
            let k = choose|k: int| 0 <= k < c0ch.len() && c0ch[k] == c as usize;
            assert(t0.snode_parent@[t0.snode_children@[ch]@[k] as int] == ch);
        }
    }
}
// what post_order asks of the merged tree
pub proof fn lemma_post_order_pre(t: SuperNodeTree)
    requires tree_ok(t),
    ensures
        dims_ok(t), t.n_cliques <= tn(t), cnt_active(t.snode_parent@, tn(t)) <= t.n_cliques,
        exists|c: int| 0 <= c < tn(t) && #[trigger] t.snode_parent@[c] == NO_PARENT,
        forall|p: int, k: int| 0 <= p < tn(t) && 0 <= k < t.snode_children@[p]@.len() ==>
            (#[trigger] t.snode_children@[p]@[k]) < tn(t) && t.snode_parent@[t.snode_children@[p]@[k] as int] == p,
        forall|p: int| 0 <= p < tn(t) ==> (#[trigger] t.snode_children@[p])@.no_duplicates(),
{ reveal(tree_ok); lemma_cnt_active_bounds(t.snode_parent@, tn(t)); }

impl ParentChildMergeStrategy {
//@fn file=src/solver/chordal/merge/parent_child.rs in="impl ParentChildMergeStrategy" name=new ret=r
//@contract
        ensures !r.stop, r.clique_index == 0, r.t_fill == 8, r.t_size == 8
//@end
    pub open spec fn base(&self, t: SuperNodeTree) -> bool { tree_ok(t) && post_ok(t) }
}
impl MergeStrategy for ParentChildMergeStrategy {
    // the tree built by SuperNodeTree::new with at least two cliques, whose post order ends with the root: every clique of order
    // 0..n-2 has a parent
    open spec fn init_pre(&self, t: SuperNodeTree) -> bool { self.base(t) && tn(t) >= 2 && t.n_cliques >= 2 && t.snode_post@.len() == tn(t) && trav_ok(t, tn(t) - 2) }
    open spec fn inv(&self, t: SuperNodeTree) -> bool { self.base(t) && (self.stop || trav_ok(t, self.clique_index as int)) }
    open spec fn done(&self) -> bool { self.stop }
    open spec fn fuel(&self, t: SuperNodeTree) -> nat { self.clique_index as nat }
    // the candidate is (parent, child) with the child the clique of order clique_index
    open spec fn cand_ok(&self, t: SuperNodeTree, cand: (usize, usize), f: nat) -> bool {
        self.base(t) && !self.stop && trav_ok(t, self.clique_index as int) && f == self.clique_index
            && cand.1 == t.snode_post@[self.clique_index as int] && cand.0 == t.snode_parent@[cand.1 as int]
    }
    open spec fn ready(&self, t: SuperNodeTree, cand: (usize, usize), f: nat) -> bool { self.cand_ok(t, cand, f) }
    open spec fn mid(&self, t: SuperNodeTree, cand: (usize, usize), do_merge: bool, f: nat) -> bool {
        self.base(t) && !self.stop && f == self.clique_index && (self.clique_index > 0 ==> trav_ok(t, self.clique_index - 1))
    }
    // C17 (parent-child strategy): the merged tree is again a clique tree in the sense of tree_ok (partition of the vertices, forest,
    // separators inside the parent clique, n_cliques = number of non-empty cliques >= 1) with a post order of length n_cliques
    open spec fn result_ok(&self, t: SuperNodeTree) -> bool { self.base(t) && out_ok(t) }
//@fn file=src/solver/chordal/merge/parent_child.rs in="MergeStrategy for ParentChildMergeStrategy" name=initialise
//@contract
        ensures *final(t) == *old(t), final(self).clique_index == tn(*old(t)) - 2, final(self).stop == old(self).stop,
//@end
//@fn file=src/solver/chordal/merge/parent_child.rs in="MergeStrategy for ParentChildMergeStrategy" name=is_done
//@end
//@fn file=src/solver/chordal/merge/parent_child.rs in="MergeStrategy for ParentChildMergeStrategy" name=traverse ret=r
//@contract
        ensures *final(self) == *old(self), r is Some,
//@pre
        proof { lemma_tree_dims(*t); }
//@end
//@fn file=src/solver/chordal/merge/parent_child.rs in="MergeStrategy for ParentChildMergeStrategy" name=evaluate
//@contract
        ensures *final(self) == *old(self),
//@pre
        broadcast use ax_cmp_max_usize;
        proof {
            let f = choose|f: nat| old(self).cand_ok(*t, cand, f);
            lemma_tree_dims(*t);
            assert(t.snode_parent@[t.snode_post@[self.clique_index as int] as int] < tn(*t));
            lemma_clique_sizes(*t, cand.0 as int); lemma_clique_sizes(*t, cand.1 as int); lemma_sep_fits(*t, cand.1 as int);
            if self.clique_index > 0 {
                assert forall|j: int| 0 <= j <= self.clique_index - 1 implies t.snode_parent@[#[trigger] t.snode_post@[j] as int] < tn(*t) by { }
            }
        }
//@before "let fill = fill_in("
        proof {
            let nvv = nv(*t);
            assert((dim_parent_snode + dim_parent_sep - dim_clique_sep) * dim_clique_snode <= (2 * nvv) * nvv) by (nonlinear_arith)
                requires 0 <= dim_parent_snode + dim_parent_sep - dim_clique_sep <= 2 * nvv, 0 <= dim_clique_snode <= nvv;
            assert((2 * nvv) * nvv <= 0x1_0000_0000 * 0x8000_0000) by (nonlinear_arith) requires 0 <= nvv < 0x8000_0000;
        }
//@end
//@fn file=src/solver/chordal/merge/parent_child.rs in="MergeStrategy for ParentChildMergeStrategy" name=merge_two_cliques rules=R5
//@contract
        ensures
            // C17: the effect of a merge, stated on the tree before and after (the trait contract only carries the invariant)
            pc_merged(*old(t), *final(t), cand.0 as int, cand.1 as int),
            forall|c: int, x: usize| #[trigger] in_sn(*final(t), c, x) <==>
                (c == cand.0 && (in_sn(*old(t), cand.0 as int, x) || in_sn(*old(t), cand.1 as int, x))) || (c != cand.0 && c != cand.1 && in_sn(*old(t), c, x)),
//@pre
        let ghost t0 = *t;
        let ghost gp = cand.0 as int;
        let ghost gch = cand.1 as int;
        proof {
            let f = choose|f: nat| self.ready(*t, cand, f);
            lemma_tree_dims(*t);
            assert(t.snode_parent@[t.snode_post@[self.clique_index as int] as int] < tn(*t));
            assert(pc_pair(t0, gp, gch));
            lemma_pc_exec_facts(t0, gp, gch);
        }
//@after "set_union_into_indexed(&mut t.snode, p, ch);"
        proof {
            let a = t0.snode@[gp]@;
            let b = t0.snode@[gch]@;
            lemma_ins_all_full(a, b);
            assert(t.snode@[gp]@ == a + b);
        }
//@before_loop 1
        let ghost t1 = *t;
        let ghost gc = t0.snode_children@[gch]@;
//@iter 1
it
//@loop 1
            invariant
                p == gp, ch == gch, t.snode == t1.snode, t.separators == t1.separators, t.snode_children == t0.snode_children, t.snode_post == t0.snode_post,
                t.post == t0.post, t.nblk == t0.nblk, t.n_cliques == t0.n_cliques, t.snode_parent@.len() == tn(t0), dims_ok(t0), 0 <= gch < tn(t0),
                gc == t0.snode_children@[gch]@, it.seq().len() == gc.len(), forall|k: int| 0 <= k < gc.len() ==> *(#[trigger] it.seq()[k]) == gc[k],
                forall|k: int| 0 <= k < gc.len() ==> #[trigger] gc[k] < tn(t0),
                forall|c: int| 0 <= c < tn(t0) ==> #[trigger] t.snode_parent@[c] == (if exists|k: int| 0 <= k < it.index@ && gc[k] == c { gp as usize } else { t0.snode_parent@[c] }),
//@body_start 1
            let ghost par_b = t.snode_parent@;
            let ghost gi = it.index@ as int;
            proof { assert(*grandch_r == gc[gi]); }
//@body_end 1
            proof {
                assert forall|c: int| 0 <= c < tn(t0) implies #[trigger] t.snode_parent@[c] == (if exists|k: int| 0 <= k < gi + 1 && gc[k] == c { gp as usize } else { t0.snode_parent@[c] }) by {
                    if c == grandch { assert(gc[gi] == c); }
                    else {
                        assert(t.snode_parent@[c] == par_b[c]);
                        if exists|k: int| 0 <= k < gi && gc[k] == c { let k = choose|k: int| 0 <= k < gi && gc[k] == c; assert(0 <= k < gi + 1 && gc[k] == c); }
                        else if exists|k: int| 0 <= k < gi + 1 && gc[k] == c { let k = choose|k: int| 0 <= k < gi + 1 && gc[k] == c; assert(k == gi); }
                    }
                }
            }
//@after "t.snode_parent[ch] = INACTIVE_NODE;"
        proof {
            // the re-parented cliques are exactly those whose parent was the child
            assert forall|c: int| 0 <= c < tn(t0) implies #[trigger] t.snode_parent@[c] == (if c == gch { INACTIVE_NODE } else if t0.snode_parent@[c] == gch { gp as usize } else { t0.snode_parent@[c] }) by {
                if c != gch {
                    if exists|k: int| 0 <= k < gc.len() && gc[k] == c {
                        let k = choose|k: int| 0 <= k < gc.len() && gc[k] == c;
                        assert(gc.contains(c as usize));
                    } else if t0.snode_parent@[c] == gch {
                        assert(gc.contains(c as usize));
                        let k = choose|k: int| 0 <= k < gc.len() && gc[k] == c as usize;
                        assert(gc[k] == c);
                    }
                }
            }
        }
//@after "set_union_into_indexed(&mut t.snode_children, p, ch);"
        proof {
            let a = rm(t0.snode_children@[gp]@, gch as usize);
            let b = t0.snode_children@[gch]@;
            lemma_ins_all_full(a, b);
        }
//@post
        proof {
            assert(pc_merged(t0, *t, gp, gch));
            lemma_pc_merge(t0, *t, gp, gch);
            lemma_tree_dims(*t);
            lemma_pc_in_sn(t0, *t, gp, gch);
            // the cliques of lower order keep a parent: they are not the child (the post order names no clique twice), and a parent
            // pointer only ever changes to p
            if self.clique_index > 0 {
                assert forall|j: int| 0 <= j <= self.clique_index - 1 implies t.snode_parent@[#[trigger] t.snode_post@[j] as int] < tn(*t) by {
                    assert(t0.snode_parent@[t0.snode_post@[j] as int] < tn(t0));
                    assert(t0.snode_post@[j] != t0.snode_post@[self.clique_index as int]);
                }
            }
        }
//@end
//@fn file=src/solver/chordal/merge/parent_child.rs in="MergeStrategy for ParentChildMergeStrategy" name=update_strategy
//@contract
        ensures final(self).stop == (old(self).clique_index == 0 || old(self).stop),
//@end
//@fn file=src/solver/chordal/merge/parent_child.rs in="MergeStrategy for ParentChildMergeStrategy" name=post_process_merge
//@pre
        let ghost t0 = *t;
        proof { lemma_post_order_pre(*t); }
//@post
        proof { lemma_children_permuted(t0, *t); lemma_tree_out_ok(*t); }
//@end
}
// a clique whose parent is q is listed among q's children
pub proof fn lemma_child_listed(t: SuperNodeTree, c: int)
    requires children_bwd(t), 0 <= c < tn(t), t.snode_parent@[c] < tn(t),
    ensures t.snode_children@[t.snode_parent@[c] as int]@.contains(c as usize),
{ reveal(children_bwd); }
// sorting the child sets (post_order) and replacing the post order keeps the tree
pub proof fn lemma_children_permuted(t0: SuperNodeTree, t1: SuperNodeTree)
    requires
        tree_ok(t0), t1.snode == t0.snode, t1.separators == t0.separators, t1.snode_parent == t0.snode_parent, t1.post == t0.post, t1.n_cliques == t0.n_cliques,
        t1.snode_children@.len() == t0.snode_children@.len(),
        forall|p: int| 0 <= p < tn(t0) ==> same_members((#[trigger] t1.snode_children@[p])@, t0.snode_children@[p]@) && t1.snode_children@[p]@.no_duplicates(),
    ensures tree_ok(t1),
{
    reveal(tree_ok);
    reveal(children_bwd);
    assert forall|p: int, k: int| 0 <= p < tn(t1) && 0 <= k < t1.snode_children@[p]@.len() implies
        (#[trigger] t1.snode_children@[p]@[k]) < tn(t1) && t1.snode_parent@[t1.snode_children@[p]@[k] as int] == p by {
        let w = t1.snode_children@[p]@[k];
        assert(same_members(t1.snode_children@[p]@, t0.snode_children@[p]@));
        assert(t1.snode_children@[p]@.contains(w));
        assert(t0.snode_children@[p]@.contains(w));
        let k0 = choose|k0: int| 0 <= k0 < t0.snode_children@[p]@.len() && t0.snode_children@[p]@[k0] == w;
        assert(t0.snode_children@[p]@[k0] < tn(t0) && t0.snode_parent@[t0.snode_children@[p]@[k0] as int] == p);
    }
    assert forall|w: int| 0 <= w < tn(t1) && #[trigger] t1.snode_parent@[w] < tn(t1) implies t1.snode_children@[t1.snode_parent@[w] as int]@.contains(w as usize) by {
        let q = t0.snode_parent@[w] as int;
        assert(t0.snode_parent@[w] < tn(t0));
        assert(t0.snode_children@[q]@.contains(w as usize));
        assert(same_members(t1.snode_children@[q]@, t0.snode_children@[q]@));
    }
    assert forall|c: int| 0 <= c < tn(t1) && #[trigger] t1.snode_parent@[c] == INACTIVE_NODE implies
        t1.snode@[c]@.len() == 0 && t1.separators@[c]@.len() == 0 && t1.snode_children@[c]@.len() == 0 by {
        assert(t0.snode_parent@[c] == INACTIVE_NODE);
        assert(same_members(t1.snode_children@[c]@, t0.snode_children@[c]@));
    }
    let rank = choose|rank: Seq<int>| forest(t0, rank);
    assert(forest(t1, rank));
    let r = choose|c: int| 0 <= c < tn(t0) && #[trigger] t0.snode_parent@[c] == NO_PARENT;
    assert(t1.snode_parent@[r] == NO_PARENT);
    assert forall|x: usize| covered(t0, x) implies covered(t1, x) by { let c = choose|c: int| in_sn(t0, c, x); assert(in_sn(t1, c, x)); }
    assert forall|c: int, x: usize| in_sn(t1, c, x) == in_sn(t0, c, x) by { }
}

// ---- merge/clique_graph.rs: stand-in (ASSUMED to honour the contracts of the trait; HashMap / closures / CscMatrix<isize> throughout) ----
pub struct CliqueGraphMergeStrategy { pub stop: bool }
impl CliqueGraphMergeStrategy { #[verifier::external_body] pub fn new() -> (r: Self) { unimplemented!() } }
impl MergeStrategy for CliqueGraphMergeStrategy {
    // needs at least two cliques: with one clique the edge matrix is empty and `findmax(&A.nzval).unwrap()` in max_elem panics
    open spec fn init_pre(&self, t: SuperNodeTree) -> bool { tree_ok(t) && post_ok(t) && tn(t) >= 2 && t.snode_post@.len() == tn(t) && t.n_cliques == tn(t) }
    uninterp spec fn inv(&self, t: SuperNodeTree) -> bool;
    uninterp spec fn done(&self) -> bool;
    uninterp spec fn fuel(&self, t: SuperNodeTree) -> nat;
    uninterp spec fn cand_ok(&self, t: SuperNodeTree, cand: (usize, usize), f: nat) -> bool;
    uninterp spec fn ready(&self, t: SuperNodeTree, cand: (usize, usize), f: nat) -> bool;
    uninterp spec fn mid(&self, t: SuperNodeTree, cand: (usize, usize), do_merge: bool, f: nat) -> bool;
    open spec fn result_ok(&self, t: SuperNodeTree) -> bool { out_ok(t) }
    #[verifier::external_body] fn initialise(&mut self, t: &mut SuperNodeTree) { unimplemented!() }
    #[verifier::external_body] fn is_done(&self) -> bool { unimplemented!() }
    #[verifier::external_body] fn traverse(&mut self, t: &SuperNodeTree) -> Option<(usize, usize)> { unimplemented!() }
    #[verifier::external_body] fn evaluate(&mut self, t: &SuperNodeTree, cand: (usize, usize)) -> bool { unimplemented!() }
    #[verifier::external_body] fn merge_two_cliques(&self, t: &mut SuperNodeTree, cand: (usize, usize)) { unimplemented!() }
    #[verifier::external_body] fn update_strategy(&mut self, t: &SuperNodeTree, cand: (usize, usize), do_merge: bool) { unimplemented!() }
    #[verifier::external_body] fn post_process_merge(&mut self, t: &mut SuperNodeTree) { unimplemented!() }
}

// ---- sparsity_pattern.rs ----
//@struct file=src/algebra/csc/core.rs name=CscMatrix
//@struct file=src/solver/chordal/sparsity_pattern.rs name=SparsityPattern
// rule strmatch: comparing a &str with a string literal (ASSUMED: equality of the character sequences)
#[verifier::external_body]
pub fn str_eq(a: &str, b: &str) -> (r: bool) ensures r == (a@ == b@) { a == b }
// the pattern of the LDL factor as the tree code reads it (definitions of unit chordal_tree)
pub open spec fn L_wf(L: CscMatrix<F>) -> bool {
    &&& L.m == L.n && L.colptr@.len() == L.n + 1
    &&& forall|a: int, b: int| 0 <= a <= b <= L.n ==> L.colptr@[a] <= L.colptr@[b]
    &&& L.colptr@[L.n as int] <= L.rowval@.len()
}
pub open spec fn L_connected(L: CscMatrix<F>) -> bool { forall|c: int| 0 <= c < L.n - 1 ==> #[trigger] L.colptr@[c] < L.colptr@[c + 1] }
pub open spec fn in_col(L: CscMatrix<F>, k: int, c: int) -> bool { 0 <= c < L.n && L.colptr@[c] <= k < L.colptr@[c + 1] }
pub open spec fn L_strict_lower(L: CscMatrix<F>) -> bool { forall|c: int, k: int| #[trigger] in_col(L, k, c) ==> c < L.rowval@[k] < L.n }
pub open spec fn L_ok(L: CscMatrix<F>) -> bool { L.n >= 1 && L.n < 0x8000_0000 && L_wf(L) && L_connected(L) && L_strict_lower(L) }
impl SuperNodeTree {
    // ASSUMED: SuperNodeTree::new.  Its pieces are under contract in the units chordal_tree (parent_from_L, children_from_parent,
    // higher_degree, the partition invariant of pothen_sun) and chordal_snode (post_order loop, snode_parent values and renumbering,
    // find_supernodes, find_separators); see the header for what of tree_ok those contracts cover and what they do not (sep_in_parent,
    // "the root comes last in the post order").
    #[verifier::external_body]
    pub fn new(L: &CscMatrix<F>) -> (r: Self)
        requires L_ok(*L),
        ensures
            tree_ok(r), post_ok(r), nv(r) == L.n, tn(r) >= 1, r.snode_post@.len() == tn(r), r.n_cliques == tn(r), r.nblk is None,
            tn(r) >= 2 ==> trav_ok(r, tn(r) - 2),
    { unimplemented!() }
    // ASSUMED here: reorder_snode_consecutively (sort / IndexSet::extend / invperm / ipermute).  Renumbers the vertices inside the sets;
    // the shape of the tree, the post order and the sizes of all sets stay
    #[verifier::external_body]
    pub fn reorder_snode_consecutively(&mut self, ordering: &mut [usize])
        requires out_ok(*old(self)), old(ordering)@.len() == nv(*old(self)),
        ensures
            out_ok(*final(self)), final(ordering)@.len() == old(ordering)@.len(), final(self).n_cliques == old(self).n_cliques,
            final(self).snode_post == old(self).snode_post, final(self).nblk == old(self).nblk, tn(*final(self)) == tn(*old(self)),
            forall|c: int| 0 <= c < tn(*old(self)) ==> (#[trigger] final(self).snode@[c])@.len() == old(self).snode@[c]@.len(),
            forall|c: int| 0 <= c < tn(*old(self)) ==> (#[trigger] final(self).separators@[c])@.len() == old(self).separators@[c]@.len(),
    { unimplemented!() }
//@fn file=src/solver/chordal/supernode_tree.rs in="impl SuperNodeTree" name=calculate_block_dimensions
//@contract
    requires out_ok(*old(self)),
    ensures
        // C17 (block sizes consistent with the cliques): nblk[i] = |separator| + |supernode| of the clique of order i; nothing else changes
        final(self).nblk matches Some(nb) && nb@.len() == old(self).n_cliques && blocks_ok(*old(self), nb@),
        final(self).snode == old(self).snode, final(self).snode_post == old(self).snode_post, final(self).snode_parent == old(self).snode_parent,
        final(self).snode_children == old(self).snode_children, final(self).post == old(self).post, final(self).separators == old(self).separators,
        final(self).n_cliques == old(self).n_cliques,
//@loop 1
        invariant
            *self == *old(self), n == self.n_cliques, nblk@.len() == n, out_ok(*self),
            forall|k: int| 0 <= k < $var1 ==> #[trigger] nblk@[k] == self.separators@[self.snode_post@[k] as int]@.len() + self.snode@[self.snode_post@[k] as int]@.len(),
//@body_start 1
            proof { assert(self.snode_post@[$var1 as int] < tn(*self)); }
//@end
}
pub open spec fn blocks_ok(t: SuperNodeTree, nb: Seq<usize>) -> bool {
    forall|i: int| 0 <= i < nb.len() ==> #[trigger] nb[i] == t.separators@[t.snode_post@[i] as int]@.len() + t.snode@[t.snode_post@[i] as int]@.len()
}
pub proof fn lemma_tree_out_ok(t: SuperNodeTree)
    requires tree_ok(t), post_ok(t), t.snode_post@.len() == t.n_cliques,
    ensures out_ok(t),
{
    lemma_tree_dims(t);
    assert forall|c: int| 0 <= c < tn(t) implies (#[trigger] t.snode@[c])@.len() < 0x8000_0000 && t.separators@[c]@.len() < 0x8000_0000 by { lemma_clique_sizes(t, c); }
}
pub open spec fn is_merge_method(s: Seq<char>) -> bool { s == "none"@ || s == "parent_child"@ || s == "clique_graph"@ }
impl SparsityPattern {
//@fn file=src/solver/chordal/sparsity_pattern.rs in="impl SparsityPattern" name=new rules=R1,strmatch ret=r
//@contract
        requires
            L_ok(L), ordering@.len() == L.n,
            // the `_` arm panics.  NOT established by DefaultSolver::new (see the header): settings are validated only by the builder
            is_merge_method(merge_method@),
        ensures
            // C17: merging runs only if there is more than one clique (each strategy's `initialise` needs two); the result carries a post
            // order of its n_cliques >= 1 non-empty cliques and block sizes consistent with them
            r.orig_index == orig_index, r.ordering@.len() == L.n, out_ok(r.sntree),
            r.sntree.nblk matches Some(nb) && nb@.len() == r.sntree.n_cliques && blocks_ok(r.sntree, nb@),
//@after "let mut sntree = SuperNodeTree::new(&L);"
        proof { lemma_tree_out_ok(sntree); }
//@end
}

// ---- chordal_info.rs: control flow of the analysis of one PSD cone, and the counting helpers ----
//@enum file=src/solver/core/cones/supportedcone.rs name=SupportedConeT
//@struct file=src/solver/chordal/chordal_info.rs name=ConeMapEntry
//@struct file=src/solver/chordal/chordal_info.rs name=ChordalInfo
pub open spec fn tri(k: int) -> int { k * (k + 1) / 2 }
// ASSUMED here, PROVED in unit scalarmath
#[verifier::external_body]
fn triangular_index(k: usize) -> (r: usize)
    requires k < 0x8000_0000,
    ensures r == tri(k as int + 1) - 1,
{ unimplemented!() }
// packed index of the diagonal entry (i, i)
pub open spec fn diag_idx(i: int) -> int { tri(i + 1) - 1 }
pub open spec fn all_true(m: Seq<bool>) -> bool { forall|i: int| 0 <= i < m.len() ==> #[trigger] m[i] }
// ASSUMED: find_graph (triplets -> CSC, symbolic QDLDL, connect_graph; the triplet loop and connect_graph are PROVED in unit
// chordal_decomp).  Reached only with a mask that is not all-true, hence non-empty.  Assumed of the result: the strictly lower
// triangular pattern of the LDL factor of the cone's graph, connected by connect_graph, of the dimension of the cone, with an
// ordering of that length
#[verifier::external_body]
fn find_graph(nz_mask: &[bool]) -> (r: (CscMatrix<F>, Vec<usize>))
    requires !all_true(nz_mask@),
    ensures L_ok(r.0), r.1@.len() == r.0.n,
{ unimplemented!() }
pub proof fn lemma_tri_props(k: int)
    requires k >= 0,
    ensures tri(k + 1) == tri(k) + k + 1, tri(k) >= 0,
    decreases k,
{
    if k > 0 { lemma_tri_props(k - 1); }
    assert((k + 1) * (k + 2) == k * (k + 1) + 2 * (k + 1)) by (nonlinear_arith);
    assert(k * (k + 1) >= 0) by (nonlinear_arith) requires k >= 0;
    assert((k * (k + 1)) % 2 == 0) by {
        if k > 0 { assert(k * (k + 1) == (k - 1) * k + 2 * k) by (nonlinear_arith); assert(((k - 1) * k) % 2 == 0) by { lemma_even(k - 1); } }
        else { assert(k * (k + 1) == 0) by (nonlinear_arith) requires k == 0; }
    }
}
pub proof fn lemma_even(k: int) requires k >= 0 ensures (k * (k + 1)) % 2 == 0 decreases k
{
    if k > 0 { lemma_even(k - 1); assert(k * (k + 1) == (k - 1) * k + 2 * k) by (nonlinear_arith); }
    else { assert(k * (k + 1) == 0) by (nonlinear_arith) requires k == 0; }
}
pub proof fn lemma_tri_mono(a: int, b: int) requires 0 <= a <= b ensures tri(a) <= tri(b) decreases b - a
{ if a < b { lemma_tri_props(b - 1); lemma_tri_mono(a, b - 1); } }
// every decomposed pattern that is kept has at least two cliques (C17: a pattern that merges to a single clique is dropped)
pub open spec fn patterns_ok(sp: Seq<SparsityPattern>) -> bool { forall|i: int| 0 <= i < sp.len() ==> out_ok((#[trigger] sp[i]).sntree) && sp[i].sntree.n_cliques >= 2 }
pub open spec fn sum_cliques(sp: Seq<SparsityPattern>, k: int) -> int decreases k { if k <= 0 { 0 } else { sum_cliques(sp, k - 1) + sp[k - 1].sntree.n_cliques } }
pub open spec fn sum_snodes(sp: Seq<SparsityPattern>, k: int) -> int decreases k { if k <= 0 { 0 } else { sum_snodes(sp, k - 1) + sp[k - 1].sntree.snode@.len() } }
pub open spec fn is_psd(c: SupportedConeT<F>) -> bool { c is PSDTriangleConeT }
pub open spec fn cnt_psd(cones: Seq<SupportedConeT<F>>, k: int) -> int decreases k { if k <= 0 { 0 } else { cnt_psd(cones, k - 1) + (if is_psd(cones[k - 1]) { 1int } else { 0int }) } }
pub proof fn lemma_sums(sp: Seq<SparsityPattern>, k: int)
    requires patterns_ok(sp), 0 <= k <= sp.len(),
    ensures 2 * k <= sum_cliques(sp, k) <= sum_snodes(sp, k) <= k * 0x8000_0000,
    decreases k,
{
    if k > 0 {
        lemma_sums(sp, k - 1);
        assert(out_ok(sp[k - 1].sntree));
        assert((k - 1) * 0x8000_0000 + 0x8000_0000 == k * 0x8000_0000) by (nonlinear_arith);
    }
}
pub proof fn lemma_cnt_psd_bounds(cones: Seq<SupportedConeT<F>>, k: int)
    requires 0 <= k, ensures 0 <= cnt_psd(cones, k) <= k, decreases k,
{ if k > 0 { lemma_cnt_psd_bounds(cones, k - 1); } }
impl ChordalInfo<F> {
    // sizes of one problem: fewer than 2^31 patterns / cones
    pub open spec fn wf(&self) -> bool { patterns_ok(self.spatterns@) && self.spatterns@.len() < 0x8000_0000 && self.init_cones@.len() < 0x8000_0000 }
//@fn file=src/solver/chordal/chordal_info.rs in="impl<T> ChordalInfo<T>" name=analyse_psdtriangle_sparsity_pattern rules=R1,R21,strmatch
//@contract
        requires
            // the rows of the cone: the packed upper triangle of a conedim x conedim matrix (rng_cones of a PSDTriangleConeT(conedim))
            old(nz_mask)@.len() == tri(conedim as int), conedim < 0x8000_0000, is_merge_method(merge_method@),
            patterns_ok(old(self).spatterns@),
        ensures
            // the diagonal entries are forced on, nothing else of the mask changes
            final(nz_mask)@.len() == old(nz_mask)@.len(),
            forall|l: int| 0 <= l < old(nz_mask)@.len() ==> #[trigger] final(nz_mask)@[l] == (old(nz_mask)@[l] || exists|d: int| 0 <= d < conedim && l == #[trigger] diag_idx(d)),
            // C17: the pattern is either left undecomposed - always when it is dense - or ONE pattern is recorded for this cone, and
            // then it has at least two cliques (a pattern that is not dense is dropped only if it ends with a single clique: the
            // second early return is the only other path that does not push)
            all_true(final(nz_mask)@) ==> final(self).spatterns@ == old(self).spatterns@,
            final(self).spatterns@ == old(self).spatterns@ || (final(self).spatterns@.len() == old(self).spatterns@.len() + 1
                && final(self).spatterns@.subrange(0, old(self).spatterns@.len() as int) == old(self).spatterns@
                && final(self).spatterns@.last().orig_index == coneidx && final(self).spatterns@.last().sntree.n_cliques >= 2
                && final(self).spatterns@.last().sntree.nblk is Some),
            patterns_ok(final(self).spatterns@),
            final(self).init_dims == old(self).init_dims, final(self).init_cones == old(self).init_cones, final(self).H == old(self).H, final(self).cone_maps == old(self).cone_maps,
//@pre
        let ghost m0 = nz_mask@;
        let ghost sp0 = self.spatterns@;
        proof { assert(nz_mask@.len() == nz_mask.len()); }
//@loop 1
            invariant
                *self == *old(self), nz_mask@.len() == m0.len(), m0.len() == tri(conedim as int), conedim < 0x8000_0000,
                forall|l: int| 0 <= l < m0.len() ==> #[trigger] nz_mask@[l] == (m0[l] || exists|d: int| 0 <= d < $var1 && l == #[trigger] diag_idx(d)),
//@body_start 1
            let ghost gi = $var1 as int;
            let ghost m1 = nz_mask@;
            proof { lemma_tri_props(gi); lemma_tri_mono(gi + 1, conedim as int); }
//@body_end 1
            proof {
                assert forall|l: int| 0 <= l < m0.len() implies #[trigger] nz_mask@[l] == (m0[l] || exists|d: int| 0 <= d < gi + 1 && l == #[trigger] diag_idx(d)) by {
                    if l == diag_idx(gi) { assert(0 <= gi < gi + 1 && l == diag_idx(gi)); }
                    else {
                        assert(nz_mask@[l] == m1[l]);
                        if exists|d: int| 0 <= d < gi && l == #[trigger] diag_idx(d) { let d = choose|d: int| 0 <= d < gi && l == #[trigger] diag_idx(d); assert(0 <= d < gi + 1 && l == diag_idx(d)); }
                        else if exists|d: int| 0 <= d < gi + 1 && l == #[trigger] diag_idx(d) { let d = choose|d: int| 0 <= d < gi + 1 && l == #[trigger] diag_idx(d); assert(d == gi); }
                    }
                }
            }
//@iter 2
it2
//@loop 2
                invariant
                    it2.seq().len() == nz_mask@.len(), forall|k: int| 0 <= k < nz_mask@.len() ==> *(#[trigger] it2.seq()[k]) == nz_mask@[k],
                    r21_k1 == (forall|k: int| 0 <= k < it2.index@ ==> #[trigger] nz_mask@[k]),
//@after "let spattern = SparsityPattern::new("
        proof {
            assert(self.spatterns@ == sp0);
        }
//@post
        proof {
            if self.spatterns@ != sp0 {
                assert(self.spatterns@ == sp0.push(self.spatterns@.last()));
                assert(self.spatterns@.subrange(0, sp0.len() as int) == sp0);
                assert forall|i: int| 0 <= i < self.spatterns@.len() implies out_ok((#[trigger] self.spatterns@[i]).sntree) && self.spatterns@[i].sntree.n_cliques >= 2 by {
                    if i < sp0.len() { assert(self.spatterns@[i] == sp0[i]); }
                }
            }
        }
//@end
//@fn file=src/solver/chordal/chordal_info.rs in="impl<T> ChordalInfo<T>" name=is_decomposed rules=R1 ret=r
//@contract
        ensures r == (self.spatterns@.len() > 0)
//@end
//@fn file=src/solver/chordal/chordal_info.rs in="impl<T> ChordalInfo<T>" name=init_cone_count rules=R1 ret=r
//@contract
        ensures r == self.init_cones@.len()
//@end
//@fn file=src/solver/chordal/chordal_info.rs in="impl<T> ChordalInfo<T>" name=init_psd_cone_count rules=R1,R22 ret=r
//@contract
        ensures r == cnt_psd(self.init_cones@, self.init_cones@.len() as int)
//@pre
        proof { assert(self.init_cones@.len() == self.init_cones.len()); }
//@iter 1
it
//@loop 1
                invariant
                    it.seq().len() == self.init_cones@.len(), forall|k: int| 0 <= k < self.init_cones@.len() ==> *(#[trigger] it.seq()[k]) == self.init_cones@[k],
                    r22_n1 == cnt_psd(self.init_cones@, it.index@ as int), r22_n1 <= it.index@, self.init_cones@.len() <= usize::MAX,
//@body_start 1
                    proof { lemma_cnt_psd_bounds(self.init_cones@, it.index@ as int); }
//@end
//@fn file=src/solver/chordal/chordal_info.rs in="impl<T> ChordalInfo<T>" name=decomposable_cone_count rules=R1 ret=r
//@contract
        ensures r == self.spatterns@.len()
//@end
//@fn file=src/solver/chordal/chordal_info.rs in="impl<T> ChordalInfo<T>" name=final_psd_cones_added rules=R1,R24 ret=r
//@contract
        requires self.wf(),
        ensures
            // every decomposed cone is replaced by its cliques: (number of cliques) - 1 additional cones each; `ncliques - ndecomposable`
            // cannot underflow because every kept pattern has >= 2 cliques
            r == sum_cliques(self.spatterns@, self.spatterns@.len() as int) - self.spatterns@.len(), r >= self.spatterns@.len(),
            r <= self.spatterns@.len() * 0x8000_0000,
//@iter 1
it
//@loop 1
            invariant
                self.wf(), it.seq().len() == self.spatterns@.len(), forall|k: int| 0 <= k < self.spatterns@.len() ==> *(#[trigger] it.seq()[k]) == self.spatterns@[k],
                acc == sum_cliques(self.spatterns@, it.index@ as int),
//@body_start 1
            proof {
                lemma_sums(self.spatterns@, it.index@ as int); lemma_sums(self.spatterns@, it.index@ + 1);
                assert((it.index@ + 1) * 0x8000_0000 <= 0x8000_0000 * 0x8000_0000) by (nonlinear_arith) requires it.index@ + 1 <= 0x8000_0000;
            }
//@after "let ndecomposable ="
        proof { lemma_sums(self.spatterns@, self.spatterns@.len() as int); }
//@end
//@fn file=src/solver/chordal/chordal_info.rs in="impl<T> ChordalInfo<T>" name=premerge_psd_cones_added rules=R1,R24 ret=r
//@contract
        requires self.wf(),
        ensures r == sum_snodes(self.spatterns@, self.spatterns@.len() as int) - self.spatterns@.len(), r >= self.spatterns@.len(), r <= self.spatterns@.len() * 0x8000_0000,
//@iter 1
it
//@loop 1
            invariant
                self.wf(), it.seq().len() == self.spatterns@.len(), forall|k: int| 0 <= k < self.spatterns@.len() ==> *(#[trigger] it.seq()[k]) == self.spatterns@[k],
                acc == sum_snodes(self.spatterns@, it.index@ as int),
//@body_start 1
            proof {
                lemma_sums(self.spatterns@, it.index@ as int); lemma_sums(self.spatterns@, it.index@ + 1);
                assert((it.index@ + 1) * 0x8000_0000 <= 0x8000_0000 * 0x8000_0000) by (nonlinear_arith) requires it.index@ + 1 <= 0x8000_0000;
            }
//@after "let ndecomposable ="
        proof { lemma_sums(self.spatterns@, self.spatterns@.len() as int); }
//@end
//@fn file=src/solver/chordal/chordal_info.rs in="impl<T> ChordalInfo<T>" name=final_cone_count rules=R1 ret=r
//@contract
        requires self.wf(),
        ensures r == self.init_cones@.len() + sum_cliques(self.spatterns@, self.spatterns@.len() as int) - self.spatterns@.len(),
//@pre
        proof { assert(self.spatterns@.len() * 0x8000_0000 <= 0x8000_0000 * 0x8000_0000) by (nonlinear_arith) requires self.spatterns@.len() <= 0x8000_0000; }
//@end
//@fn file=src/solver/chordal/chordal_info.rs in="impl<T> ChordalInfo<T>" name=final_psd_cone_count rules=R1 ret=r
//@contract
        requires self.wf(),
        ensures r == cnt_psd(self.init_cones@, self.init_cones@.len() as int) + sum_cliques(self.spatterns@, self.spatterns@.len() as int) - self.spatterns@.len(),
//@pre
        proof {
            assert(self.spatterns@.len() * 0x8000_0000 <= 0x8000_0000 * 0x8000_0000) by (nonlinear_arith) requires self.spatterns@.len() <= 0x8000_0000;
            lemma_cnt_psd_bounds(self.init_cones@, self.init_cones@.len() as int);
        }
//@end
//@fn file=src/solver/chordal/chordal_info.rs in="impl<T> ChordalInfo<T>" name=premerge_psd_cone_count rules=R1 ret=r
//@contract
        requires self.wf(),
        ensures r == cnt_psd(self.init_cones@, self.init_cones@.len() as int) + sum_snodes(self.spatterns@, self.spatterns@.len() as int) - self.spatterns@.len(),
//@pre
        proof {
            assert(self.spatterns@.len() * 0x8000_0000 <= 0x8000_0000 * 0x8000_0000) by (nonlinear_arith) requires self.spatterns@.len() <= 0x8000_0000;
            lemma_cnt_psd_bounds(self.init_cones@, self.init_cones@.len() as int);
        }
//@end
}

// ---- merge/clique_graph.rs: two closure-free helpers ----
// number of members of a among the first k that are also members of b
pub open spec fn cnt_common(a: Seq<usize>, b: Seq<usize>, k: int) -> int decreases k {
    if k <= 0 { 0 } else { cnt_common(a, b, k - 1) + (if b.contains(a[k - 1]) { 1int } else { 0int }) }
}
pub proof fn lemma_cnt_common_bounds(a: Seq<usize>, b: Seq<usize>, k: int)
    requires 0 <= k, ensures 0 <= cnt_common(a, b, k) <= k, decreases k,
{ if k > 0 { lemma_cnt_common_bounds(a, b, k - 1); } }
//@fn file=src/solver/chordal/merge/clique_graph.rs name=intersect_dim rules=setiter:sa ret=r
//@contract
    ensures
        // |s1 n s2| for sets without repeated members: the members of the smaller set (s2 on a tie) that are members of the other one
        r == (if s1@.len() < s2@.len() { cnt_common(s1@, s2@, s1@.len() as int) } else { cnt_common(s2@, s1@, s2@.len() as int) }),
        r <= s1@.len() && r <= s2@.len(),
//@iter 1
it
//@loop 1
        invariant
            it.seq().len() == sa@.len(), forall|k: int| 0 <= k < sa@.len() ==> *(#[trigger] it.seq()[k]) == sa@[k],
            dim == cnt_common(sa@, sb@, it.index@ as int), dim <= it.index@, sa@.len() <= usize::MAX,
//@body_start 1
        proof { lemma_cnt_common_bounds(sa@, sb@, it.index@ as int); }
//@end
//@fn file=src/solver/chordal/merge/clique_graph.rs name=union_dim ret=r
//@contract
    requires s1@.len() < 0x8000_0000, s2@.len() < 0x8000_0000,
    ensures
        // |s1 u s2| = |s1| + |s2| - |s1 n s2|; the subtraction cannot underflow
        r == s1@.len() + s2@.len() - (if s1@.len() < s2@.len() { cnt_common(s1@, s2@, s1@.len() as int) } else { cnt_common(s2@, s1@, s2@.len() as int) }),
        r >= s1@.len() && r >= s2@.len(),
//@end

} // verus!
fn main() {}
