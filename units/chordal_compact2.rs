#![allow(non_snake_case)]
// unit `chordal_compact2` : the COMPACT form of the chordal decomposition, augmentation side, composed from the pieces of unit chordal_compact (C18)
// (feature `sdp`: `//@features serde,sdp`).  Float model: F-opaque (nothing numeric happens: indices, +1 / -1 constants, copies).
//
// The decomposition is described by spec functions of (init_cones, spatterns), in the style of unit chordal_augment:
//   bi_of(p, j)       the (i, j, is_overlap) list of the clique of order j = bi_sort(bi_fill(sorted supernode, sorted separator)): position h in it is the
//                     row offset inside the clique's block (counter of add_clique_entries)
//   rp(p, rp0, j)     first row of the block of clique j = rp0 + sum_{k > j} tri(nblk[k])  (clique n-1 comes first: DESCENDING post order)
//   moved_row(p, ..)  new row of a stored entry of cone row r: rp(j) + h for the LOWEST order j whose list has r as the packed index of a
//                     non-overlap entry h (cliques are processed n-1 .. 0, the last writer wins); the default (usize::MAX) if no clique owns it
//   ov_ok(I, p, .., j) every overlap entry c2 of clique j owns the slot pair ovp(j) + 2 * #{earlier overlaps of j} (+1): (rp(j) + c2, prow(j) + packed
//                     position of the same matrix entry in the sorted PARENT clique); ovp(j) = overlap_ptr + 2 * #overlaps of the cliques > j
//   new_row / cones_spec_c / maps_spec / cone_ov_ok   the same over all cones (kept cone: row - row_off + dim_spec)
// PROVED (real text, unbounded; panic-freedom = every index / overflow / unwrap / assert! obligation, plus the clause given):
//   decomp/augment_compact.rs
//     add_entries_with_sparsity_pattern   A_I[q] = moved_row(.., rowval[q], .., old) for every stored entry, same for b; ov_ok for EVERY clique; nothing else
//         written; returns (row_ptr + sum tri(nblk), overlap_ptr + 2 * #overlaps); cones_new ++ PSD(nblk[n-1]), .., PSD(nblk[0]); cone_maps ++
//         (orig_index, Some((pattern, clique order))) in the same order; the HashMap lookup of the parent's rows never misses
//     find_compact_A_b_and_cones          (peekable: rule peekslice; `zip(cones, row_ranges).enumerate()` with the iterator object: rules R3 + zipnext;
//         `(a, b) = f(..)`: rule tupassignc; `SparseVector{..}.into()`: rule structinto)  A_new = new_from_triplets(dim, n + #overlaps, I, J, V) with
//         compact_trip: entry q keeps column and value, row new_row(row); overlap t: column A.n + t, values (+1, -1), rows by cone_ov_ok;
//         b_new = the nonzeros of b scattered to new_row; cones_new == cones_spec_c; self.cone_maps = Some(maps_spec) (orig_index = cone number:
//         the "previous + 1" bookkeeping of add_entries_with_cone agrees with the patterns' orig_index); nothing else of self changes;
//         `assert!(matches!(cone, PSDTriangleConeT(_)))` never fires; both assert_eq! of new_from_triplets hold; every column index < Aa_n
//     find_A_dimension; CscMatrix::{size, nnz}; SuperNodeTree::{get_nblk, get_snode, get_separators, get_clique_parent}; SupportedConeT::nvars
//   lemmas: bi_fill has tri(|snode| + |sep|) entries, tri(|sep|) overlap flags, vertices < |ordering| (lemma_bi_fill) => the number of overlap
//     triplets over all cliques == get_decomposed_dim_and_overlaps().1 and the block rows == .0 (lemma_totals) - this closes the gap
//     "n_overlaps equals the number of overlap triplets" left open in unit chordal_compact
// ASSUMED (hand-written):
//   stand-ins carrying the contract text PROVED in unit chordal_compact: get_rows_vec, get_rows_mat, add_clique_entries, clique_rows_map,
//     alternating_sequence, extra_columns, findnz, add_entries_with_cone (nvars_spec of the real enum), SparseVector::new; in unit chordal_augment:
//     ChordalInfo::get_decomposed_dim_and_overlaps, final_cone_count; in unit solver_new: rng_cones_iter / RangeSupportedConesIterator::next
//     (k-th range = row_off(k) .. row_off(k + 1)); in unit scalarmath: coord_to_upper_triangular_index, triangular_number
//   get_block_indices: fill part proved in chordal_compact; `sort_by_cached_key(|x| x.1 * nv + x.0)` ASSUMED: result = bi_sort(input) (uninterpreted),
//     same length, same members, same number of overlap flags, keys nondecreasing;  Vec<usize>::sort as usize_sort (= sorted_of(input): same members,
//     nondecreasing, ascending for distinct members).  The same facts as ADMITTED axioms on the result functions: ax_sorted_of, ax_bi_sort
//     (guarded by canary_sort_axioms, which must fail)
//   get_clique_by_index (IndexSet::extend(&IndexSet) = insert the members in order), sparse_into (= From<SparseVector<T>> for Vec<T>: zeros, then
//     v[i] = nz; its index obligation is the precondition), new_from_triplets (relation built_from only; unit csc_build proves its meaning; O15:
//     column indices < n required, row indices NOT checked), Range::clone, vstd's HashMap / Range::next / Option::unwrap_or specs, SlicePeek
//   EXTRACTOR (additive; tools/dev_all_units.sh green afterwards): rules zipnext, tupassignc, structinto; mapcollect binds an owned `f(args)` receiver
// PRECONDITIONS and the call sites:
//   ci_wf2 = ci_wf (unit chordal_augment) + per pattern tree_ok: `ordering` injective, snode_post lists every clique once, every clique but the last
//     has its parent among the listed cliques (post order: root last).  By inspection of SparsityPattern::new; NOT proved (ChordalInfo::new dropped)
//   b@.len() == rows of init_cones, row ranges = rows of A: VIOLABLE (O7 / D2): try_chordal_info runs on the un-presolved data, decomp_augment on the
//     presolved one; cones [NonnegativeConeT(1), PSDTriangleConeT(d)], b[0] >= 1e20, presolve on: rows shift by one, entries are attributed to the wrong cone
//   `new_row(i) < dim` for every nonzero b[i]: inside a decomposed cone this says "some clique owns the entry" = the cliques cover the aggregate
//     pattern (C17 for the SAME data).  If not (D2 again, or a merge that lost an edge) ba_I keeps usize::MAX and `v[i] = nz` PANICS; for A the
//     analogous slot keeps usize::MAX and new_from_triplets stores the row index as it is (O15): silent malformed A_new - the comment
//     "usize::MAX forces a panic if not overwritten" is true for b only
//   A.n >= 1: with zero variables the column loop never runs, no overlap pair and no b row is written (slots keep usize::MAX).  Legal? DefaultSolver::new
//     does not reject n == 0
//   A.nnz + 2 * overlaps >= 1: D3 of unit chordal_compact (extra_columns underflow), unchanged
//   colptr_ok / rows_sorted(A): user A is never validated (see chordal_compact)
// NOT PROVED: that bi_sort puts the list in PACKED order (h == packed position of (i, j) in the sorted clique) - needed to say "block entry (a, b) of
//   clique j sits in row rp(j) + packed(a, b)", which is what the reversal (add_blocks_clique_loop, unit chordal_decomp) reads; that every entry is
//   owned by exactly one clique (running intersection); semantic equivalence of the two problems
// DROPPED (still not under contract; ran out of time, not of method): decomp_augment_compact (blockdiag + copy: the lemma_bd_pair route of
//   chordal_augment applies), the loop of decomp_reverse_compact, SuperNodeTree::new, reorder_snode_consecutively, ChordalInfo::new,
//   find_sparsity_patterns (rule zipnext was written with its `zip(cones, rng_cones).enumerate()` in mind), psd_completion / psd_complete
// MUTATION ROUND (scratch copies, one edit at a time; each fails the named function): forward instead of reverse post order; parent rows looked up with
//   the child's key; parent_rows replaced by row_range; root test `i == 0`; `row_ptr += cone_dim`; snode / separator swapped; separator.sort() dropped;
//   parent clique not mapped through ordering; get_nblk(0); clique tag (i, spattern_index); orig_index = spattern_index (add_entries_with_sparsity_pattern);
//   overlap_ptr = nnz + 1; extra column offset A.n + 1; peek against coneidx + 1; Aa_nnz = nnz + n_overlaps; Aa_m / Aa_n swapped; b_new of dimension Aa_n
//   (find_compact_A_b_and_cones): 17 of 17 caught.  Equivalent, not a survivor: b window computed for every column (add_clique_entries ignores it for
//   col != 0).  Sign edits (both +1; pair rows swapped) sit in alternating_sequence / add_clique_entries and fail in unit chordal_compact (checked).
//   Not reachable by this unit: edits of decomp_reverse_compact, reorder_snode_consecutively, find_sparsity_patterns (dropped).
// rlimit: add_entries_with_sparsity_pattern 7-9 M, find_compact_A_b_and_cones 6-8 M (spinoff_prover; above the 10 % guideline, stable over seeds 0-3)
use vstd::prelude::*;
use std::ops::Range;
use std::collections::HashMap;
use crate::SupportedConeT::{PSDTriangleConeT, ZeroConeT};
verus! {
global size_of usize == 8;
//@features serde,sdp
//@include prelude/float_opaque.rs
//@include prelude/vecmath_assumed.rs
//@include prelude/std_assumed.rs
//@include units/inc/chordal_sets.rs
//@struct file=src/algebra/csc/core.rs name=CscMatrix
//@struct file=src/algebra/sparsevector/mod.rs name=SparseVector
//@enum file=src/algebra/error_types.rs name=MatrixConcatenationError rules=R12 derive="Debug, PartialEq, Eq, Clone, Copy, Structural"
//@enum file=src/solver/core/cones/supportedcone.rs name=SupportedConeT rules=R12
//@struct file=src/solver/chordal/supernode_tree.rs name=SuperNodeTree
//@struct file=src/solver/chordal/sparsity_pattern.rs name=SparsityPattern
//@struct file=src/solver/chordal/chordal_info.rs name=ConeMapEntry
//@struct file=src/solver/chordal/chordal_info.rs name=ChordalInfo
//@struct file=src/solver/implementations/default/variables.rs name=DefaultVariables rules=R2
//@type file=src/solver/chordal/decomp/augment_compact.rs name=BlockOverlapTriplet
pub type Cone = SupportedConeT<F>;
// ASSUMED: the derived Clone of the cone enum returns an equal value
impl Clone for SupportedConeT<F> { #[verifier::external_body] fn clone(&self) -> (r: Self) ensures r == *self { unimplemented!() } }
// ASSUMED std: cloning a Range clones its two ends (for usize: copies them)
pub assume_specification<Idx: Clone> [<Range<Idx> as Clone>::clone] (r: &Range<Idx>) -> (c: Range<Idx>)
    ensures cloned(r.start, c.start), cloned(r.end, c.end);
pub open spec fn strictly_increasing(v: Seq<usize>) -> bool { forall|a: int, b: int| 0 <= a < b < v.len() ==> v[a] < v[b] }
pub proof fn lemma_si_nondecreasing(v: Seq<usize>) requires strictly_increasing(v) ensures nondecreasing(v) {
    assert forall|i: int, j: int| 0 <= i <= j < v.len() implies v[i] <= v[j] by { if i < j { assert(v[i] < v[j]); } }
}
// the positions lo..hi of `rows` hold exactly the entries inside row_range (what a Some(..) of get_rows_subset / _vec / _mat means)
pub open spec fn rows_window(rows: Seq<usize>, lo: int, hi: int, from: int, to: int, rs: int, re: int) -> bool {
    &&& lo <= from <= to <= hi
    &&& forall|k: int| from <= k < to ==> rs <= #[trigger] rows[k] < re
    &&& forall|k: int| lo <= k < from ==> #[trigger] rows[k] < rs
    &&& forall|k: int| to <= k < hi ==> #[trigger] rows[k] >= re
}
// column pointers of a CSC matrix as the index code needs them
pub open spec fn colptr_ok(A: CscMatrix<F>) -> bool {
    &&& A.colptr@.len() == A.n + 1 && A.rowval@.len() == A.nzval@.len() && A.colptr@[A.n as int] == A.rowval@.len()
    &&& forall|a: int, b: int| 0 <= a <= b <= A.n ==> A.colptr@[a] <= A.colptr@[b]
}
pub open spec fn in_col(A: CscMatrix<F>, k: int, c: int) -> bool { 0 <= c < A.n && A.colptr@[c] <= k < A.colptr@[c + 1] }
// every stored slot at or behind colptr[0] lies in some column
pub proof fn lemma_col_of(A: CscMatrix<F>, k: int) -> (c: int)
    requires colptr_ok(A), A.colptr@[0] <= k < A.rowval@.len(),
    ensures in_col(A, k, c),
{ lemma_col_search(A, k, A.n as int) }
pub proof fn lemma_col_search(A: CscMatrix<F>, k: int, j: int) -> (c: int)
    requires colptr_ok(A), 0 <= j <= A.n, A.colptr@[0] <= k < A.colptr@[j],
    ensures in_col(A, k, c),
    decreases j,
{
    if j == 0 { 0 } else if A.colptr@[j - 1] <= k { j - 1 } else { lemma_col_search(A, k, j - 1) }
}
// row indices strictly increasing inside every column (canonical CSC)
pub open spec fn rows_sorted(A: CscMatrix<F>) -> bool { forall|c: int, k1: int, k2: int| #![trigger in_col(A, k1, c), in_col(A, k2, c)] in_col(A, k1, c) && in_col(A, k2, c) && k1 < k2 ==> A.rowval@[k1] < A.rowval@[k2] }
// strictly increasing on the window lo..hi
pub open spec fn si_window(rows: Seq<usize>, lo: int, hi: int) -> bool { forall|a: int, b: int| lo <= a < b < hi ==> rows[a] < rows[b] }
// in a strictly increasing window of naturals the entry at distance t from the start is at least t
pub proof fn lemma_si_distance(rows: Seq<usize>, lo: int, hi: int, p: int)
    requires si_window(rows, lo, hi), 0 <= lo <= p < hi <= rows.len(),
    ensures rows[p] >= rows[lo] + (p - lo),
    decreases p - lo,
{
    if p > lo { lemma_si_distance(rows, lo, hi, p - 1); assert(rows[p - 1] < rows[p]); }
}
pub open spec fn tri(k: int) -> int { k * (k + 1) / 2 }
pub open spec fn packed(a: int, b: int) -> int { if a <= b { tri(b) + a } else { tri(a) + b } }
// number of members of the sorted list that are smaller than x = the position of x if it is a member
pub open spec fn rank_in(v: Seq<usize>, x: int, r: int) -> bool {
    &&& 0 <= r <= v.len()
    &&& forall|k: int| 0 <= k < r ==> #[trigger] v[k] < x
    &&& forall|k: int| r <= k < v.len() ==> #[trigger] v[k] >= x
}
// the same rank as a function: how many of the first n members are smaller than x
pub open spec fn cnt_lt(v: Seq<usize>, x: int, n: int) -> int decreases n { if n <= 0 { 0 } else { cnt_lt(v, x, n - 1) + (if v[n - 1] < x { 1int } else { 0int }) } }
pub proof fn lemma_rank_is_cnt(v: Seq<usize>, x: int, r: int, n: int)
    requires rank_in(v, x, r), 0 <= n <= v.len(),
    ensures cnt_lt(v, x, n) == (if n <= r { n } else { r }),
    decreases n,
{
    if n > 0 { lemma_rank_is_cnt(v, x, r, n - 1); if n - 1 < r { assert(v[n - 1] < x); } else { assert(v[n - 1] >= x); } }
}
pub proof fn lemma_consec_even(k: int) requires k >= 0 ensures k * (k + 1) % 2 == 0 decreases k
{
    if k > 0 {
        lemma_consec_even(k - 1);
        assert(k * (k + 1) == (k - 1) * k + 2 * k) by (nonlinear_arith);
    } else {
        assert(k * (k + 1) == 0) by (nonlinear_arith) requires k == 0;
    }
}
pub proof fn lemma_tri_step(k: int) requires k >= 0 ensures tri(k + 1) == tri(k) + k + 1, tri(k) >= 0
{
    assert(k * (k + 1) >= 0) by (nonlinear_arith) requires k >= 0;
    assert((k + 1) * (k + 2) == k * (k + 1) + 2 * (k + 1)) by (nonlinear_arith);
    lemma_consec_even(k);
}
pub proof fn lemma_tri_mono(a: int, b: int) requires 0 <= a <= b ensures tri(a) <= tri(b) decreases b - a
{
    if a < b { lemma_tri_step(b - 1); lemma_tri_mono(a, b - 1); }
}
// packed indices of coordinates below 2^31 stay below 2^62
pub proof fn lemma_packed_bound(a: int, b: int)
    requires 0 <= a < 0x8000_0000, 0 <= b < 0x8000_0000,
    ensures 0 <= packed(a, b) < 0x4000_0000_0000_0000,
{
    let m = if a <= b { b } else { a };
    lemma_tri_mono(0, m); lemma_tri_mono(m, 0x7fff_ffff);
    assert(tri(0x7fff_ffff) == 0x1fff_ffff_c000_0000) by (compute);
    assert(tri(0) == 0) by (compute);
}
// ASSUMED here, PROVED in unit scalarmath
#[verifier::external_body]
fn coord_to_upper_triangular_index(coord: (usize, usize)) -> (r: usize)
    requires coord.0 < 0x8000_0000, coord.1 < 0x8000_0000,
    ensures r == packed(coord.0 as int, coord.1 as int),
{ unimplemented!() }
#[verifier::external_body]
fn triangular_number(k: usize) -> (r: usize)
    requires k < 0x1_0000_0000,
    ensures r == tri(k as int),
{ unimplemented!() }
// number of overlap entries among the first n block indices
pub open spec fn n_ov(bi: Seq<BlockOverlapTriplet>, n: int) -> int decreases n { if n <= 0 { 0 } else { n_ov(bi, n - 1) + (if bi[n - 1].2 { 1int } else { 0int }) } }
pub proof fn lemma_n_ov_mono(bi: Seq<BlockOverlapTriplet>, a: int, b: int)
    requires 0 <= a <= b,
    ensures 0 <= n_ov(bi, a) <= n_ov(bi, b), a < b && bi[a].2 ==> n_ov(bi, a) + 1 <= n_ov(bi, b),
    decreases b,
{ if a < b { lemma_n_ov_mono(bi, a, b - 1); } else if a > 0 { lemma_n_ov_mono(bi, a - 1, a - 1); } }
// the last non-overlap entry among the first n block indices whose cone row (rs + packed index) is `row`; -1 if there is none
pub open spec fn hit(bi: Seq<BlockOverlapTriplet>, rs: int, row: int, n: int) -> int decreases n {
    if n <= 0 { -1 } else if !bi[n - 1].2 && rs + packed(bi[n - 1].0 as int, bi[n - 1].1 as int) == row { n - 1 } else { hit(bi, rs, row, n - 1) } }
pub proof fn lemma_hit_range(bi: Seq<BlockOverlapTriplet>, rs: int, row: int, n: int)
    requires n >= 0, ensures -1 <= hit(bi, rs, row, n) < n || (n == 0 && hit(bi, rs, row, n) == -1), decreases n,
{ if n > 0 { lemma_hit_range(bi, rs, row, n - 1); } }
// the rows written for the window wlo..whi of a sorted row list after c block indices: an entry stored as row rs + packed(i, j) of a
// non-overlap block index (i, j) number h gets row row_ptr + h
pub open spec fn win_state(I: Seq<usize>, I0: Seq<usize>, rows: Seq<usize>, bi: Seq<BlockOverlapTriplet>, row_ptr: int, rs: int, wlo: int, whi: int, c: int) -> bool {
    &&& I.len() == I0.len()
    &&& forall|p: int| 0 <= p < I.len() && wlo <= p < whi ==> #[trigger] I[p] == (if hit(bi, rs, rows[p] as int, c) >= 0 { (row_ptr + hit(bi, rs, rows[p] as int, c)) as usize } else { I0[p] })
}
// the overlap pairs written so far (first column only): pair number n_ov(bi, c2) belongs to the overlap block index c2 and holds the row of
// that entry in this clique (+1) and the row of the same entry in the parent clique (-1)
pub open spec fn ov_state(I: Seq<usize>, bi: Seq<BlockOverlapTriplet>, pc: Seq<usize>, prs: int, row_ptr: int, ovp0: int, c: int) -> bool {
    forall|c2: int| 0 <= c2 < c && (#[trigger] bi[c2]).2 ==> {
        &&& I[ovp0 + 2 * n_ov(bi, c2)] == row_ptr + c2
        &&& I[ovp0 + 2 * n_ov(bi, c2) + 1] == prs + packed(cnt_lt(pc, bi[c2].0 as int, pc.len() as int), cnt_lt(pc, bi[c2].1 as int, pc.len() as int)) }
}
// pairs (v[k], v[j]), k < kk, with v[k] <= v[j], in the order of k
pub open spec fn le_row(v: Seq<usize>, j: int, kk: int, flag: bool) -> Seq<BlockOverlapTriplet> decreases kk {
    if kk <= 0 { Seq::empty() } else if v[kk - 1] <= v[j] { le_row(v, j, kk - 1, flag).push((v[kk - 1], v[j], flag)) } else { le_row(v, j, kk - 1, flag) } }
pub open spec fn le_all(v: Seq<usize>, jj: int, flag: bool) -> Seq<BlockOverlapTriplet> decreases jj {
    if jj <= 0 { Seq::empty() } else { le_all(v, jj - 1, flag) + le_row(v, jj - 1, v.len() as int, flag) } }
pub open spec fn umin(a: usize, b: usize) -> usize { if a <= b { a } else { b } }
pub open spec fn umax(a: usize, b: usize) -> usize { if a >= b { a } else { b } }
// pairs of s[i] with t[k], k < kk, smaller one first
pub open spec fn cross_row(s: Seq<usize>, t: Seq<usize>, i: int, kk: int) -> Seq<BlockOverlapTriplet> decreases kk {
    if kk <= 0 { Seq::empty() } else { cross_row(s, t, i, kk - 1).push((umin(s[i], t[kk - 1]), umax(s[i], t[kk - 1]), false)) } }
pub open spec fn cross_all(s: Seq<usize>, t: Seq<usize>, ii: int) -> Seq<BlockOverlapTriplet> decreases ii {
    if ii <= 0 { Seq::empty() } else { cross_all(s, t, ii - 1) + cross_row(s, t, ii - 1, t.len() as int) } }
// rows taken by the cliques i+1 .. n-1 (they come first: the loop runs in descending order)
pub open spec fn rows_after(nblk: Seq<usize>, i: int, n: int) -> int decreases n - i { if i + 1 >= n { 0 } else { rows_after(nblk, i + 1, n) + tri(nblk[i + 1] as int) } }
pub proof fn lemma_rows_after_mono(nblk: Seq<usize>, j: int, i: int, n: int)
    requires j <= i,
    ensures 0 <= rows_after(nblk, i, n) <= rows_after(nblk, j, n),
    decreases i - j, n - i,
{
    if j < i { lemma_rows_after_mono(nblk, j + 1, i, n); if j + 1 < n { lemma_tri_step(nblk[j + 1] as int); } }
    else if i + 1 < n { lemma_rows_after_mono(nblk, i + 1, i + 1, n); lemma_tri_step(nblk[i + 1] as int); }
}
pub open spec fn crm_entry(m: Map<usize, Range<usize>>, key: usize, lo: int, hi: int) -> bool { m.contains_key(key) && m[key].start == lo && m[key].end == hi }
// where row `r` of the original cone (rows row_range) goes when the cone's block starts at row_ptr in the decomposed problem
pub open spec fn shifted(r: int, rs: int, row_ptr: int) -> int { r - rs + row_ptr }
// ---- the user-facing cone enum (real, feature sdp on) ----
pub open spec fn nvars_spec(c: Cone) -> int {
    match c {
        SupportedConeT::ZeroConeT(d) => d as int,
        SupportedConeT::NonnegativeConeT(d) => d as int,
        SupportedConeT::SecondOrderConeT(d) => d as int,
        SupportedConeT::ExponentialConeT() => 3,
        SupportedConeT::PowerConeT(_) => 3,
        SupportedConeT::GenPowerConeT(a, d2) => a@.len() + d2,
        SupportedConeT::PSDTriangleConeT(d) => tri(d as int),
    }
}
// ---- ASSUMED std pieces (rules peekslice, vecsort) ----
// Peekable<slice::Iter<T>>: ghost state = (the slice, number of elements already yielded)
pub struct SlicePeek<'a, T> { pub _p: &'a [T], pub st: Ghost<(Seq<T>, int)> }
impl<'a, T> SlicePeek<'a, T> {
    pub open spec fn all(&self) -> Seq<T> { self.st@.0 }
    pub open spec fn pos(&self) -> int { self.st@.1 }
    #[verifier::external_body] pub fn len(&self) -> (r: usize) ensures r == self.all().len() - self.pos() { unimplemented!() }
    #[verifier::external_body] pub fn peek(&mut self) -> (r: Option<&&'a T>)
        ensures final(self).all() == old(self).all(), final(self).pos() == old(self).pos(),
            old(self).pos() < old(self).all().len() ==> r == Some(&&old(self).all()[old(self).pos()]),
            old(self).pos() >= old(self).all().len() ==> r is None,
    { unimplemented!() }
    #[verifier::external_body] pub fn next(&mut self) -> (r: Option<&'a T>)
        ensures final(self).all() == old(self).all(),
            old(self).pos() < old(self).all().len() ==> r == Some(&old(self).all()[old(self).pos()]) && final(self).pos() == old(self).pos() + 1,
            old(self).pos() >= old(self).all().len() ==> r is None && final(self).pos() == old(self).pos(),
    { unimplemented!() }
}
#[verifier::external_body]
pub fn slice_peekable<'a, T>(s: &'a Vec<T>) -> (r: SlicePeek<'a, T>) ensures r.all() == s@, r.pos() == 0 { unimplemented!() }
// the result of sorting is a function of the input (uninterpreted); what is ASSUMED of it is the documented contract of the std sort
pub uninterp spec fn sorted_of(s: Seq<usize>) -> Seq<usize>;
#[verifier::external_body]
pub fn usize_sort(v: &mut Vec<usize>)
    ensures final(v)@ == sorted_of(old(v)@), same_members(final(v)@, old(v)@), nondecreasing(final(v)@),
        old(v)@.no_duplicates() ==> final(v)@.no_duplicates() && ascending(final(v)@),
{ v.sort() }
pub open spec fn cpos(t: SuperNodeTree, j: int) -> int { t.snode_post@[j] as int }
pub open spec fn snd(t: SuperNodeTree, j: int) -> Seq<usize> { t.snode@[cpos(t, j)]@ }
pub open spec fn sep(t: SuperNodeTree, j: int) -> Seq<usize> { t.separators@[cpos(t, j)]@ }
pub open spec fn clique_of(t: SuperNodeTree, j: int) -> Seq<usize> { snd(t, j) + sep(t, j) }
pub open spec fn map_ord(s: Seq<usize>, ord: Seq<usize>) -> Seq<usize> { Seq::new(s.len(), |i: int| ord[s[i] as int]) }
pub open spec fn psd_cones(nblk: Seq<usize>, nj: int) -> Seq<Cone> { Seq::new(nj as nat, |t: int| SupportedConeT::PSDTriangleConeT(nblk[t])) }
pub open spec fn sum_tri_nblk(nblk: Seq<usize>, k: int) -> int decreases k { if k <= 0 { 0 } else { sum_tri_nblk(nblk, k - 1) + tri(nblk[k - 1] as int) } }
pub open spec fn sum_tri_sep(t: SuperNodeTree, k: int) -> int decreases k { if k <= 0 { 0 } else { sum_tri_sep(t, k - 1) + tri(sep(t, k - 1).len() as int) } }
pub proof fn lemma_sums_mono(t: SuperNodeTree, nblk: Seq<usize>, a: int, b: int)
    requires 0 <= a <= b,
    ensures 0 <= sum_tri_nblk(nblk, a) <= sum_tri_nblk(nblk, b), 0 <= sum_tri_sep(t, a) <= sum_tri_sep(t, b),
    decreases b,
{
    if a < b { lemma_sums_mono(t, nblk, a, b - 1); lemma_tri_step(nblk[b - 1] as int); lemma_tri_step(sep(t, b - 1).len() as int); }
    else if a > 0 { lemma_sums_mono(t, nblk, a - 1, a - 1); lemma_tri_step(nblk[a - 1] as int); lemma_tri_step(sep(t, a - 1).len() as int); }
}
// ---- well-formedness of a sparsity pattern as the decomposition code reads it (established by SparsityPattern::new, see header) ----
pub open spec fn clique_wf(p: SparsityPattern, j: int) -> bool {
    let t = p.sntree;
    &&& cpos(t, j) < t.snode@.len() && cpos(t, j) < t.separators@.len()
    &&& snd(t, j).no_duplicates() && sep(t, j).no_duplicates() && disjoint(snd(t, j), sep(t, j))
    &&& t.nblk->0@[j] == snd(t, j).len() + sep(t, j).len()
    &&& forall|k: int| 0 <= k < clique_of(t, j).len() ==> #[trigger] clique_of(t, j)[k] < p.ordering@.len()
}
pub open spec fn pat_wf(p: SparsityPattern) -> bool {
    let t = p.sntree;
    &&& t.nblk is Some && 1 <= t.n_cliques <= t.nblk->0@.len() && t.n_cliques <= t.snode_post@.len()
    &&& p.ordering@.len() < 0x8000_0000
    &&& forall|v: int| 0 <= v < p.ordering@.len() ==> #[trigger] p.ordering@[v] < p.ordering@.len()
    &&& forall|j: int| 0 <= j < t.n_cliques ==> #[trigger] clique_wf(p, j)
}
// number of patterns consumed before cone i: the explicit state of the peekable pattern iterator
pub open spec fn pk(sp: Seq<SparsityPattern>, i: int) -> int decreases i {
    if i <= 0 { 0 } else { let k = pk(sp, i - 1); if k < sp.len() && sp[k].orig_index == i - 1 { k + 1 } else { k } } }
pub open spec fn is_dec(sp: Seq<SparsityPattern>, i: int) -> bool { pk(sp, i) < sp.len() && sp[pk(sp, i)].orig_index == i }
pub open spec fn row_off(cones: Seq<Cone>, i: int) -> int decreases i { if i <= 0 { 0 } else { row_off(cones, i - 1) + nvars_spec(cones[i - 1]) } }
pub open spec fn dim_spec(ci: ChordalInfo<F>, i: int) -> int decreases i {
    if i <= 0 { 0 } else { let sp = ci.spatterns@;
        dim_spec(ci, i - 1) + (if is_dec(sp, i - 1) { sum_tri_nblk(sp[pk(sp, i - 1)].sntree.nblk->0@, sp[pk(sp, i - 1)].sntree.n_cliques as int) } else { nvars_spec(ci.init_cones@[i - 1]) }) } }
pub open spec fn ovl_spec(ci: ChordalInfo<F>, i: int) -> int decreases i {
    if i <= 0 { 0 } else { let sp = ci.spatterns@;
        ovl_spec(ci, i - 1) + (if is_dec(sp, i - 1) { sum_tri_sep(sp[pk(sp, i - 1)].sntree, sp[pk(sp, i - 1)].sntree.n_cliques as int) } else { 0int }) } }
pub open spec fn ncl_sum(sp: Seq<SparsityPattern>, k: int) -> int decreases k { if k <= 0 { 0 } else { ncl_sum(sp, k - 1) + sp[k - 1].sntree.n_cliques } }
// what ChordalInfo::new leaves behind when a decomposition takes place (see the header for where each clause comes from)
pub open spec fn pat_ok(ci: ChordalInfo<F>, k: int) -> bool {
    let p = ci.spatterns@[k];
    &&& p.orig_index < ci.init_cones@.len() && ci.init_cones@[p.orig_index as int] == SupportedConeT::<F>::PSDTriangleConeT(p.ordering@.len() as usize)
    &&& pat_wf(p)
}
pub open spec fn ci_wf(ci: ChordalInfo<F>) -> bool {
    let n = ci.init_cones@.len() as int;
    &&& forall|k: int| 0 <= k < ci.spatterns@.len() ==> #[trigger] pat_ok(ci, k)
    &&& forall|i: int| 0 <= i < n ==> (#[trigger] ci.init_cones@[i] matches SupportedConeT::PSDTriangleConeT(d) ==> d < 0x8000_0000)
    // sizes of one problem: the row count, the decomposed row count and the number of overlaps fit a usize
    &&& row_off(ci.init_cones@, n) <= usize::MAX && dim_spec(ci, n) <= usize::MAX && ovl_spec(ci, n) <= usize::MAX
    &&& n + ncl_sum(ci.spatterns@, ci.spatterns@.len() as int) + 1 <= usize::MAX
}
pub proof fn lemma_nvars_nonneg(c: Cone) ensures nvars_spec(c) >= 0
{ match c { SupportedConeT::PSDTriangleConeT(d) => { lemma_tri_step(d as int); }, _ => {} } }
pub proof fn lemma_pk_range(sp: Seq<SparsityPattern>, i: int) requires i >= 0 ensures 0 <= pk(sp, i) <= sp.len(), pk(sp, i) <= i decreases i
{ if i > 0 { lemma_pk_range(sp, i - 1); } }
pub proof fn lemma_offs_mono(ci: ChordalInfo<F>, a: int, b: int)
    requires 0 <= a <= b,
    ensures 0 <= row_off(ci.init_cones@, a) <= row_off(ci.init_cones@, b), 0 <= dim_spec(ci, a) <= dim_spec(ci, b), 0 <= ovl_spec(ci, a) <= ovl_spec(ci, b),
    decreases b,
{
    let sp = ci.spatterns@;
    if a < b {
        lemma_offs_mono(ci, a, b - 1); lemma_nvars_nonneg(ci.init_cones@[b - 1]);
        let t = sp[pk(sp, b - 1)].sntree; lemma_sums_mono(t, t.nblk->0@, 0, t.n_cliques as int);
    } else if a > 0 {
        lemma_offs_mono(ci, a - 1, a - 1); lemma_nvars_nonneg(ci.init_cones@[a - 1]);
        let t = sp[pk(sp, a - 1)].sntree; lemma_sums_mono(t, t.nblk->0@, 0, t.n_cliques as int);
    }
}
// block sizes of a well-formed pattern stay below the bounds the size functions need
pub proof fn lemma_clique_sizes(p: SparsityPattern, j: int)
    requires pat_wf(p), 0 <= j < p.sntree.n_cliques,
    ensures p.sntree.nblk->0@[j] < 0x1_0000_0000, sep(p.sntree, j).len() < 0x8000_0000, snd(p.sntree, j).len() < 0x8000_0000,
        p.sntree.snode_post@[j] < p.sntree.snode@.len() && p.sntree.snode_post@[j] < p.sntree.separators@.len(),
{
    let t = p.sntree; let dim = p.ordering@.len() as int;
    assert(clique_wf(p, j));
    assert forall|q: int| 0 <= q < snd(t, j).len() implies #[trigger] snd(t, j)[q] < dim by { assert(clique_of(t, j)[q] == snd(t, j)[q]); }
    assert forall|q: int| 0 <= q < sep(t, j).len() implies #[trigger] sep(t, j)[q] < dim by { assert(clique_of(t, j)[snd(t, j).len() + q] == sep(t, j)[q]); }
    lemma_nodup_bounded(snd(t, j), dim); lemma_nodup_bounded(sep(t, j), dim);
}
pub proof fn lemma_pat_sizes(p: SparsityPattern)
    requires pat_wf(p),
    ensures
        forall|j: int| 0 <= j < p.sntree.n_cliques ==> #[trigger] p.sntree.nblk->0@[j] < 0x1_0000_0000,
        forall|j: int| 0 <= j < p.sntree.n_cliques ==> #[trigger] sep(p.sntree, j).len() < 0x1_0000_0000,
        forall|j: int| 0 <= j < p.sntree.n_cliques ==> #[trigger] p.sntree.snode_post@[j] < p.sntree.snode@.len() && p.sntree.snode_post@[j] < p.sntree.separators@.len(),
{
    assert forall|j: int| 0 <= j < p.sntree.n_cliques implies #[trigger] p.sntree.nblk->0@[j] < 0x1_0000_0000 by { lemma_clique_sizes(p, j); }
    assert forall|j: int| 0 <= j < p.sntree.n_cliques implies #[trigger] sep(p.sntree, j).len() < 0x1_0000_0000 by { lemma_clique_sizes(p, j); }
    assert forall|j: int| 0 <= j < p.sntree.n_cliques implies #[trigger] p.sntree.snode_post@[j] < p.sntree.snode@.len() && p.sntree.snode_post@[j] < p.sntree.separators@.len() by { lemma_clique_sizes(p, j); }
}
pub proof fn lemma_ncl_mono(sp: Seq<SparsityPattern>, a: int, b: int)
    requires 0 <= a <= b <= sp.len(), forall|k: int| 0 <= k < sp.len() ==> #[trigger] sp[k].sntree.n_cliques >= 1,
    ensures a <= ncl_sum(sp, a) <= ncl_sum(sp, b), ncl_sum(sp, b) - ncl_sum(sp, a) >= b - a,
    decreases b,
{ if a < b { lemma_ncl_mono(sp, a, b - 1); } else if a > 0 { lemma_ncl_mono(sp, a - 1, a - 1); } }
impl SupportedConeT<F> {
//@fn file=src/solver/core/cones/supportedcone.rs in="impl<T> SupportedConeT<T>" name=nvars rules=R12,R2,R1 ret=r
//@contract
    requires nvars_spec(*self) <= usize::MAX, self matches SupportedConeT::PSDTriangleConeT(d) ==> d < 0x1_0000_0000,
    ensures r == nvars_spec(*self),
//@end
}
impl SuperNodeTree {
//@fn file=src/solver/chordal/supernode_tree.rs in="impl SuperNodeTree" name=get_nblk ret=r
//@contract
    requires self.nblk is Some, i < self.nblk->0@.len(),
    ensures r == self.nblk->0@[i as int],
//@end
//@fn file=src/solver/chordal/supernode_tree.rs in="impl SuperNodeTree" name=get_snode ret=r
//@contract
    requires i < self.snode_post@.len(), self.snode_post@[i as int] < self.snode@.len(),
    ensures *r == self.snode@[self.snode_post@[i as int] as int],
//@end
//@fn file=src/solver/chordal/supernode_tree.rs in="impl SuperNodeTree" name=get_separators ret=r
//@contract
    requires i < self.snode_post@.len(), self.snode_post@[i as int] < self.separators@.len(),
    ensures *r == self.separators@[self.snode_post@[i as int] as int],
//@end
//@fn file=src/solver/chordal/supernode_tree.rs in="impl SuperNodeTree" name=get_clique_parent ret=r
//@contract
    requires clique_index < self.snode_post@.len(), self.snode_post@[clique_index as int] < self.snode_parent@.len(),
    ensures r == self.snode_parent@[self.snode_post@[clique_index as int] as int],
//@end
}
impl CscMatrix<F> {
//@fn file=src/algebra/csc/core.rs in="ShapedMatrix for CscMatrix<T>" name=size rules=R1 ret=r
//@contract
    ensures r.0 == self.m, r.1 == self.n,
//@end
}
// ---- stand-ins, PROVED in unit chordal_compact with the SAME contract text ----
#[verifier::external_body]
fn get_rows_vec(b: &SparseVector<F>, row_range: Range<usize>) -> (res: Option<Range<usize>>)
    requires nondecreasing(b.nzind@),
    ensures
        res is None ==> forall|k: int| 0 <= k < b.nzind@.len() ==> !(row_range.start <= #[trigger] b.nzind@[k] < row_range.end),
        res matches Some(rg) ==> rows_window(b.nzind@, 0, b.nzind@.len() as int, rg.start as int, rg.end as int, row_range.start as int, row_range.end as int),
{ unimplemented!() }
#[verifier::external_body]
fn get_rows_mat(A: &CscMatrix<F>, col: usize, row_range: Range<usize>) -> (res: Option<Range<usize>>)
    requires colptr_ok(*A), rows_sorted(*A), col < A.n,
    ensures
        res is None ==> forall|k: int| #[trigger] in_col(*A, k, col as int) ==> !(row_range.start <= A.rowval@[k] < row_range.end),
        res matches Some(rg) ==> rows_window(A.rowval@, A.colptr@[col as int] as int, A.colptr@[col + 1] as int, rg.start as int, rg.end as int, row_range.start as int, row_range.end as int),
{ unimplemented!() }
#[verifier::external_body]
fn add_clique_entries(A_I: &mut [usize], b_I: &mut [usize], A_rowval: &[usize], b_nzind: &[usize], block_indices: &[BlockOverlapTriplet], parent_clique: &[usize],
    parent_rows: Range<usize>, col: usize, row_ptr: usize, overlap_ptr: usize, row_range: Range<usize>, row_range_col: Range<usize>, row_range_b: Range<usize>) -> (res: usize)
    requires
        row_range_col.start < row_range_col.end ==> row_range_col.end <= A_rowval@.len() && row_range_col.end <= old(A_I)@.len() && si_window(A_rowval@, row_range_col.start as int, row_range_col.end as int),
        row_range_b.start < row_range_b.end ==> row_range_b.end <= b_nzind@.len() && row_range_b.end <= old(b_I)@.len() && si_window(b_nzind@, row_range_b.start as int, row_range_b.end as int),
        col == 0 ==> overlap_ptr + 2 * n_ov(block_indices@, block_indices@.len() as int) <= old(A_I)@.len(),
        col == 0 && row_range_col.start < row_range_col.end ==> row_range_col.end <= overlap_ptr,
        forall|c: int| 0 <= c < block_indices@.len() ==> (#[trigger] block_indices@[c]).0 < 0x8000_0000 && block_indices@[c].1 < 0x8000_0000,
        nondecreasing(parent_clique@), parent_clique@.len() < 0x8000_0000, parent_rows.start < 0x4000_0000_0000_0000,
        row_range_col.start + row_range.start < 0x4000_0000_0000_0000, row_range_b.start + row_range.start < 0x4000_0000_0000_0000,
        row_ptr + block_indices@.len() <= usize::MAX,
    ensures
        res == overlap_ptr + (if col == 0 { 2 * n_ov(block_indices@, block_indices@.len() as int) } else { 0int }),
        win_state(final(A_I)@, old(A_I)@, A_rowval@, block_indices@, row_ptr as int, row_range.start as int, row_range_col.start as int, row_range_col.end as int, block_indices@.len() as int),
        col == 0 ==> ov_state(final(A_I)@, block_indices@, parent_clique@, parent_rows.start as int, row_ptr as int, overlap_ptr as int, block_indices@.len() as int),
        forall|p: int| 0 <= p < old(A_I)@.len() && !(row_range_col.start <= p < row_range_col.end) && !(col == 0 && overlap_ptr <= p < res) ==> #[trigger] final(A_I)@[p] == old(A_I)@[p],
        col == 0 ==> win_state(final(b_I)@, old(b_I)@, b_nzind@, block_indices@, row_ptr as int, row_range.start as int, row_range_b.start as int, row_range_b.end as int, block_indices@.len() as int),
        col == 0 ==> forall|p: int| 0 <= p < old(b_I)@.len() && !(row_range_b.start <= p < row_range_b.end) ==> #[trigger] final(b_I)@[p] == old(b_I)@[p],
        col != 0 ==> final(b_I)@ == old(b_I)@,
{ unimplemented!() }
#[verifier::external_body]
fn clique_rows_map(row_start: usize, sntree: &SuperNodeTree) -> (res: HashMap<usize, Range<usize>>)
    requires
        sntree.nblk is Some, sntree.n_cliques <= sntree.nblk->0@.len(), sntree.n_cliques <= sntree.snode_post@.len(),
        forall|i: int| 0 <= i < sntree.n_cliques ==> #[trigger] sntree.nblk->0@[i] < 0x1_0000_0000,
        forall|i: int, k: int| 0 <= i < k < sntree.n_cliques ==> sntree.snode_post@[i] != sntree.snode_post@[k],
        row_start + rows_after(sntree.nblk->0@, -1, sntree.n_cliques as int) <= usize::MAX,
    ensures
        forall|i: int| 0 <= i < sntree.n_cliques ==> crm_entry(res@, #[trigger] sntree.snode_post@[i], row_start + rows_after(sntree.nblk->0@, i, sntree.n_cliques as int),
            row_start + rows_after(sntree.nblk->0@, i, sntree.n_cliques as int) + tri(sntree.nblk->0@[i] as int)),
{ unimplemented!() }
// the block-index list of one clique.  PROVED in unit chordal_compact (statement slice get_block_indices_fill): the list before sorting is `bi_fill`;
// ASSUMED: `sort_by_cached_key(|x| x.1 * nv + x.0)` (std, stable): the result is a function of the input (bi_sort, uninterpreted), a rearrangement of it
// (same length, every member is a member of the input, as many overlap flags) with nondecreasing keys
pub open spec fn bi_fill(snode: Seq<usize>, separator: Seq<usize>) -> Seq<BlockOverlapTriplet> {
    le_all(separator, separator.len() as int, true) + le_all(snode, snode.len() as int, false) + cross_all(snode, separator, snode.len() as int)
}
pub uninterp spec fn bi_sort(s: Seq<BlockOverlapTriplet>, nv: int) -> Seq<BlockOverlapTriplet>;
pub open spec fn gbi_spec(snode: Seq<usize>, separator: Seq<usize>, nv: int) -> Seq<BlockOverlapTriplet> { bi_sort(bi_fill(snode, separator), nv) }
#[verifier::external_body]
fn get_block_indices(snode: &[usize], separator: &[usize], nv: usize) -> (res: Vec<BlockOverlapTriplet>)
    ensures
        res@ == gbi_spec(snode@, separator@, nv as int),
        res@.len() == bi_fill(snode@, separator@).len(),
        n_ov(res@, res@.len() as int) == n_ov(bi_fill(snode@, separator@), bi_fill(snode@, separator@).len() as int),
        forall|k: int| 0 <= k < res@.len() ==> bi_fill(snode@, separator@).contains(#[trigger] res@[k]),
        forall|k1: int, k2: int| 0 <= k1 <= k2 < res@.len() ==> (#[trigger] res@[k1]).1 * nv + res@[k1].0 <= (#[trigger] res@[k2]).1 * nv + res@[k2].0,
{ unimplemented!() }
// ASSUMED (IndexSet::extend(&IndexSet) = insert every member in order): snode[i] followed by the members of separators[i] not yet present
#[verifier::external_body]
fn get_clique_by_index(sntree: &SuperNodeTree, i: usize) -> (r: VertexSet)
    requires i < sntree.snode@.len(), i < sntree.separators@.len(),
    ensures r@ == ins_all(ins_all(Seq::<usize>::empty(), sntree.snode@[i as int]@, sntree.snode@[i as int]@.len() as int), sntree.separators@[i as int]@, sntree.separators@[i as int]@.len() as int),
{ unimplemented!() }


// ---- ASSUMED axioms about the two std sorts, as properties of the uninterpreted result functions (same facts as the exec contracts) ----
pub proof fn ax_sorted_of(s: Seq<usize>)
    ensures same_members(sorted_of(s), s), nondecreasing(sorted_of(s)), s.no_duplicates() ==> sorted_of(s).no_duplicates() && ascending(sorted_of(s)),
{ admit(); }
pub proof fn ax_bi_sort(s: Seq<BlockOverlapTriplet>, nv: int)
    ensures bi_sort(s, nv).len() == s.len(), n_ov(bi_sort(s, nv), s.len() as int) == n_ov(s, s.len() as int),
        forall|k: int| 0 <= k < s.len() ==> s.contains(#[trigger] bi_sort(s, nv)[k]),
{ admit(); }
// vacuity guard for the two admitted axioms: this lemma MUST FAIL
pub proof fn canary_sort_axioms(s: Seq<usize>, b: Seq<BlockOverlapTriplet>) ensures false { ax_sorted_of(s); ax_bi_sort(b, 3); }

// ---- one decomposed cone in the compact form: the blocks of its cliques, in DESCENDING post order ----
pub open spec fn sn_sorted(p: SparsityPattern, j: int) -> Seq<usize> { sorted_of(map_ord(snd(p.sntree, j), p.ordering@)) }
pub open spec fn sep_sorted(p: SparsityPattern, j: int) -> Seq<usize> { sorted_of(map_ord(sep(p.sntree, j), p.ordering@)) }
// the (i, j, is_overlap) list of the clique of order j, sorted column-major: counter h of add_clique_entries = position in this list
pub open spec fn bi_of(p: SparsityPattern, j: int) -> Seq<BlockOverlapTriplet> { gbi_spec(sn_sorted(p, j), sep_sorted(p, j), p.ordering@.len() as int) }
pub open spec fn nbi(p: SparsityPattern, j: int) -> int { bi_of(p, j).len() as int }
// clique number (not order) of the parent of the clique of order j, and its position in the post order
pub open spec fn pidx(t: SuperNodeTree, j: int) -> int { t.snode_parent@[cpos(t, j)] as int }
pub open spec fn has_par(t: SuperNodeTree, j: int, k: int) -> bool { 0 <= k < t.n_cliques && t.snode_post@[k] == pidx(t, j) }
pub open spec fn par_pos(t: SuperNodeTree, j: int) -> int { choose|k: int| has_par(t, j, k) }
pub open spec fn clique_at(t: SuperNodeTree, c: int) -> Seq<usize> {
    ins_all(ins_all(Seq::<usize>::empty(), t.snode@[c]@, t.snode@[c]@.len() as int), t.separators@[c]@, t.separators@[c]@.len() as int) }
// the parent clique in original vertex numbers, sorted (empty for the last clique = the root, as in the code)
pub open spec fn pc_of(p: SparsityPattern, j: int) -> Seq<usize> {
    if j == p.sntree.n_cliques - 1 { Seq::<usize>::empty() } else { sorted_of(map_ord(clique_at(p.sntree, pidx(p.sntree, j)), p.ordering@)) } }
// first row of the block of the clique of order j when the cone's blocks start at rp0 (clique n-1 first)
pub open spec fn rp(p: SparsityPattern, rp0: int, j: int) -> int { rp0 + rows_after(p.sntree.nblk->0@, j, p.sntree.n_cliques as int) }
pub open spec fn prow(p: SparsityPattern, rp0: int, j: int) -> int { if j == p.sntree.n_cliques - 1 { 0 } else { rp(p, rp0, par_pos(p.sntree, j)) } }
// number of overlap entries of the cliques processed before clique j (orders j+1 .. n-1)
pub open spec fn ov_after(p: SparsityPattern, j: int) -> int decreases p.sntree.n_cliques - j {
    if j + 1 >= p.sntree.n_cliques { 0 } else { ov_after(p, j + 1) + n_ov(bi_of(p, j + 1), nbi(p, j + 1)) } }
pub open spec fn ovp(p: SparsityPattern, ov0: int, j: int) -> int { ov0 + 2 * ov_after(p, j) }
// the +1 / -1 pairs of clique j: pair number n_ov(bi, c2) (counted inside the clique) sits at slots ovp(j) + 2 * that (+1) and holds
// (row of the overlap entry c2 in this clique's block, row of the same entry in the PARENT clique's block)
pub open spec fn ov_ok(I: Seq<usize>, p: SparsityPattern, rp0: int, ov0: int, j: int) -> bool {
    ov_state(I, bi_of(p, j), pc_of(p, j), prow(p, rp0, j), rp(p, rp0, j), ovp(p, ov0, j), nbi(p, j)) }
// where one clique sends a stored entry of cone row r (rows rs..re): to row rpj + h if r is the packed index of its non-overlap block index h
pub open spec fn cl_val(bi: Seq<BlockOverlapTriplet>, rs: int, re: int, rpj: int, r: int, dflt: usize) -> usize {
    if rs <= r < re && hit(bi, rs, r, bi.len() as int) >= 0 { (rpj + hit(bi, rs, r, bi.len() as int)) as usize } else { dflt } }
// ... and the whole pattern, cliques n-1 down to j: the LAST writer (smallest order) wins; dflt if no clique owns the entry
pub open spec fn moved_row(p: SparsityPattern, rs: int, re: int, rp0: int, r: int, j: int, dflt: usize) -> usize decreases p.sntree.n_cliques - j {
    if j >= p.sntree.n_cliques { dflt } else { cl_val(bi_of(p, j), rs, re, rp(p, rp0, j), r, moved_row(p, rs, re, rp0, r, j + 1, dflt)) } }
pub open spec fn ord_inj(o: Seq<usize>) -> bool { forall|a: int, b: int| 0 <= a < o.len() && 0 <= b < o.len() && a != b ==> o[a] != o[b] }
// what the compact form needs of a pattern on top of pat_wf (unit chordal_augment): `ordering` is a permutation, the post order lists every
// clique once, every clique but the last has its parent among the listed cliques
pub open spec fn tree_ok(p: SparsityPattern) -> bool {
    let t = p.sntree;
    &&& pat_wf(p) && ord_inj(p.ordering@)
    &&& forall|i: int, k: int| 0 <= i < k < t.n_cliques ==> t.snode_post@[i] != t.snode_post@[k]
    &&& forall|j: int| 0 <= j < t.n_cliques - 1 ==> cpos(t, j) < t.snode_parent@.len() && #[trigger] has_par(t, j, par_pos(t, j))
}
pub proof fn lemma_packed_lt(a: int, b: int, d: int)
    requires 0 <= a < d, 0 <= b < d,
    ensures 0 <= packed(a, b) < tri(d),
{
    let mx = if a <= b { b } else { a };
    lemma_tri_step(mx); lemma_tri_mono(mx + 1, d);
}
pub proof fn lemma_ov_after_mono(p: SparsityPattern, j: int, i: int)
    requires j <= i,
    ensures 0 <= ov_after(p, i) <= ov_after(p, j),
    decreases i - j, p.sntree.n_cliques - i,
{
    if j < i { lemma_ov_after_mono(p, j + 1, i); if j + 1 < p.sntree.n_cliques { lemma_n_ov_mono(bi_of(p, j + 1), 0, nbi(p, j + 1)); } }
    else if i + 1 < p.sntree.n_cliques { lemma_ov_after_mono(p, i + 1, i + 1); lemma_n_ov_mono(bi_of(p, i + 1), 0, nbi(p, i + 1)); }
}
// the pairs of a clique survive writes outside their slots
pub proof fn lemma_ov_keep(I1: Seq<usize>, I2: Seq<usize>, bi: Seq<BlockOverlapTriplet>, pc: Seq<usize>, prs: int, rpj: int, o: int, nb: int)
    requires ov_state(I1, bi, pc, prs, rpj, o, nb), nb >= 0, forall|q: int| o <= q < o + 2 * n_ov(bi, nb) ==> #[trigger] I2[q] == I1[q],
    ensures ov_state(I2, bi, pc, prs, rpj, o, nb),
{
    assert forall|c2: int| 0 <= c2 < nb && (#[trigger] bi[c2]).2 implies
        I2[o + 2 * n_ov(bi, c2)] == rpj + c2 && I2[o + 2 * n_ov(bi, c2) + 1] == prs + packed(cnt_lt(pc, bi[c2].0 as int, pc.len() as int), cnt_lt(pc, bi[c2].1 as int, pc.len() as int)) by {
        lemma_n_ov_mono(bi, 0, c2); lemma_n_ov_mono(bi, c2, nb);
        let q = o + 2 * n_ov(bi, c2);
        assert(I2[q] == I1[q] && I2[q + 1] == I1[q + 1]);
    }
}
// the sorted vertex lists of clique j and its block-index list (pure consequences of tree_ok and the sort axioms)
pub proof fn lemma_clique_at(p: SparsityPattern, k: int)
    requires pat_wf(p), 0 <= k < p.sntree.n_cliques,
    ensures clique_at(p.sntree, cpos(p.sntree, k)) == clique_of(p.sntree, k), clique_of(p.sntree, k).no_duplicates(), clique_of(p.sntree, k).len() < 0x8000_0000,
{
    let t = p.sntree;
    assert(clique_wf(p, k));
    lemma_ins_all_full(Seq::<usize>::empty(), snd(t, k));
    assert(disjoint(Seq::<usize>::empty(), snd(t, k)));
    assert(Seq::<usize>::empty() + snd(t, k) =~= snd(t, k));
    lemma_ins_all_full(snd(t, k), sep(t, k));
    lemma_concat_nodup(snd(t, k), sep(t, k));
    lemma_nodup_bounded(clique_of(t, k), p.ordering@.len() as int);
}

// ---- the unsorted block-index list (bi_fill, PROVED to be what get_block_indices collects in unit chordal_compact): size, flags, bounds ----
pub open spec fn tri_lt(x: BlockOverlapTriplet, d: int, f: bool) -> bool { x.0 < d && x.1 < d && x.2 == f }
pub proof fn lemma_n_ov_prefix(a: Seq<BlockOverlapTriplet>, b: Seq<BlockOverlapTriplet>, k: int)
    requires 0 <= k <= a.len() + b.len(),
    ensures n_ov(a + b, k) == (if k <= a.len() { n_ov(a, k) } else { n_ov(a, a.len() as int) + n_ov(b, k - a.len()) }),
    decreases k,
{
    if k > 0 {
        lemma_n_ov_prefix(a, b, k - 1);
        assert(n_ov(b, 0) == 0);
        if k - 1 < a.len() { assert((a + b)[k - 1] == a[k - 1]); } else { assert((a + b)[k - 1] == b[k - 1 - a.len()]); }
    }
}
pub proof fn lemma_n_ov_const(s: Seq<BlockOverlapTriplet>, f: bool, n: int)
    requires 0 <= n <= s.len(), forall|q: int| 0 <= q < s.len() ==> (#[trigger] s[q]).2 == f,
    ensures n_ov(s, n) == (if f { n } else { 0int }),
    decreases n,
{ if n > 0 { lemma_n_ov_const(s, f, n - 1); } }
pub proof fn lemma_le_row(v: Seq<usize>, j: int, kk: int, flag: bool, d: int)
    requires 0 <= j < v.len(), 0 <= kk <= v.len(), forall|k: int| 0 <= k < v.len() ==> #[trigger] v[k] < d,
    ensures
        forall|q: int| 0 <= q < le_row(v, j, kk, flag).len() ==> tri_lt(#[trigger] le_row(v, j, kk, flag)[q], d, flag),
        ascending(v) ==> le_row(v, j, kk, flag).len() == (if kk <= j + 1 { kk } else { j + 1 }),
    decreases kk,
{
    if kk > 0 {
        lemma_le_row(v, j, kk - 1, flag, d);
        if ascending(v) { if kk - 1 < j { assert(v[kk - 1] < v[j]); } if kk - 1 > j { assert(v[j] < v[kk - 1]); } }
        let prev = le_row(v, j, kk - 1, flag); let cur = le_row(v, j, kk, flag);
        assert(v[kk - 1] < d && v[j] < d);
        assert forall|q: int| 0 <= q < cur.len() implies tri_lt(#[trigger] cur[q], d, flag) by {
            if q < prev.len() { assert(cur[q] == prev[q]); assert(tri_lt(prev[q], d, flag)); }
            else { assert(cur == prev.push((v[kk - 1], v[j], flag))); }
        }
    }
}
pub proof fn lemma_le_all(v: Seq<usize>, jj: int, flag: bool, d: int)
    requires 0 <= jj <= v.len(), forall|k: int| 0 <= k < v.len() ==> #[trigger] v[k] < d,
    ensures
        forall|q: int| 0 <= q < le_all(v, jj, flag).len() ==> tri_lt(#[trigger] le_all(v, jj, flag)[q], d, flag),
        ascending(v) ==> le_all(v, jj, flag).len() == tri(jj),
    decreases jj,
{
    if jj > 0 {
        lemma_le_all(v, jj - 1, flag, d);
        lemma_le_row(v, jj - 1, v.len() as int, flag, d);
        lemma_tri_step(jj - 1);
        let a = le_all(v, jj - 1, flag); let b = le_row(v, jj - 1, v.len() as int, flag);
        assert forall|q: int| 0 <= q < (a + b).len() implies tri_lt(#[trigger] (a + b)[q], d, flag) by {
            if q < a.len() { assert((a + b)[q] == a[q]); } else { assert((a + b)[q] == b[q - a.len()]); }
        }
    } else { assert(tri(0) == 0) by (compute); }
}
pub proof fn lemma_cross_row(s: Seq<usize>, t: Seq<usize>, i: int, kk: int, d: int)
    requires 0 <= i < s.len(), 0 <= kk <= t.len(), forall|k: int| 0 <= k < s.len() ==> #[trigger] s[k] < d, forall|k: int| 0 <= k < t.len() ==> #[trigger] t[k] < d,
    ensures cross_row(s, t, i, kk).len() == kk, forall|q: int| 0 <= q < kk ==> tri_lt(#[trigger] cross_row(s, t, i, kk)[q], d, false),
    decreases kk,
{ if kk > 0 { lemma_cross_row(s, t, i, kk - 1, d); } }
pub proof fn lemma_cross_all(s: Seq<usize>, t: Seq<usize>, ii: int, d: int)
    requires 0 <= ii <= s.len(), forall|k: int| 0 <= k < s.len() ==> #[trigger] s[k] < d, forall|k: int| 0 <= k < t.len() ==> #[trigger] t[k] < d,
    ensures cross_all(s, t, ii).len() == ii * t.len(), forall|q: int| 0 <= q < cross_all(s, t, ii).len() ==> tri_lt(#[trigger] cross_all(s, t, ii)[q], d, false),
    decreases ii,
{
    if ii > 0 {
        lemma_cross_all(s, t, ii - 1, d);
        lemma_cross_row(s, t, ii - 1, t.len() as int, d);
        let a = cross_all(s, t, ii - 1); let b = cross_row(s, t, ii - 1, t.len() as int);
        let tl = t.len() as int;
        assert(ii * tl == (ii - 1) * tl + tl) by (nonlinear_arith);
        assert forall|q: int| 0 <= q < (a + b).len() implies tri_lt(#[trigger] (a + b)[q], d, false) by {
            if q < a.len() { assert((a + b)[q] == a[q]); } else { assert((a + b)[q] == b[q - a.len()]); }
        }
    } else { let tl = t.len() as int; assert(0 * tl == 0) by (nonlinear_arith); }
}
pub proof fn lemma_tri_sum(a: int, b: int)
    requires a >= 0, b >= 0,
    ensures tri(a) + tri(b) + a * b == tri(a + b),
    decreases b,
{
    if b > 0 {
        lemma_tri_sum(a, b - 1); lemma_tri_step(b - 1); lemma_tri_step(a + b - 1);
        assert(a * b == a * (b - 1) + a) by (nonlinear_arith);
    } else { assert(tri(0) == 0) by (compute); assert(a * 0 == 0) by (nonlinear_arith); }
}
pub proof fn lemma_bi_fill(sn: Seq<usize>, sp: Seq<usize>, d: int)
    requires ascending(sn), ascending(sp), forall|k: int| 0 <= k < sn.len() ==> #[trigger] sn[k] < d, forall|k: int| 0 <= k < sp.len() ==> #[trigger] sp[k] < d,
    ensures
        bi_fill(sn, sp).len() == tri((sn.len() + sp.len()) as int),
        n_ov(bi_fill(sn, sp), bi_fill(sn, sp).len() as int) == tri(sp.len() as int),
        forall|q: int| 0 <= q < bi_fill(sn, sp).len() ==> (#[trigger] bi_fill(sn, sp)[q]).0 < d && bi_fill(sn, sp)[q].1 < d,
{
    let a = le_all(sp, sp.len() as int, true); let b = le_all(sn, sn.len() as int, false); let c = cross_all(sn, sp, sn.len() as int);
    lemma_le_all(sp, sp.len() as int, true, d); lemma_le_all(sn, sn.len() as int, false, d); lemma_cross_all(sn, sp, sn.len() as int, d);
    lemma_tri_sum(sn.len() as int, sp.len() as int);
    let ab = a + b;
    assert forall|q: int| 0 <= q < b.len() + c.len() implies (#[trigger] (b + c)[q]).2 == false by {
        if q < b.len() { assert((b + c)[q] == b[q]); assert(tri_lt(b[q], d, false)); } else { assert((b + c)[q] == c[q - b.len()]); assert(tri_lt(c[q - b.len()], d, false)); }
    }
    assert(bi_fill(sn, sp) =~= a + (b + c));
    lemma_n_ov_prefix(a, b + c, (a.len() + b.len() + c.len()) as int);
    assert forall|q: int| 0 <= q < a.len() implies (#[trigger] a[q]).2 == true by { assert(tri_lt(a[q], d, true)); }
    lemma_n_ov_const(a, true, a.len() as int);
    lemma_n_ov_const(b + c, false, (b.len() + c.len()) as int);
    assert forall|q: int| 0 <= q < bi_fill(sn, sp).len() implies (#[trigger] bi_fill(sn, sp)[q]).0 < d && bi_fill(sn, sp)[q].1 < d by {
        let f = bi_fill(sn, sp);
        if q < a.len() { assert(f[q] == a[q]); assert(tri_lt(a[q], d, true)); }
        else if q < a.len() + b.len() { assert(f[q] == b[q - a.len()]); assert(tri_lt(b[q - a.len()], d, false)); }
        else { assert(f[q] == c[q - a.len() - b.len()]); assert(tri_lt(c[q - a.len() - b.len()], d, false)); }
    }
}
// a duplicate-free vertex list below d, mapped through the permutation and sorted: strictly ascending, same length, below d
pub proof fn lemma_sorted_mapped(s: Seq<usize>, ord: Seq<usize>)
    requires s.no_duplicates(), ord_inj(ord), forall|k: int| 0 <= k < s.len() ==> #[trigger] s[k] < ord.len(), forall|v: int| 0 <= v < ord.len() ==> #[trigger] ord[v] < ord.len(),
    ensures ascending(sorted_of(map_ord(s, ord))), sorted_of(map_ord(s, ord)).len() == s.len(), nondecreasing(sorted_of(map_ord(s, ord))),
        forall|k: int| 0 <= k < s.len() ==> #[trigger] sorted_of(map_ord(s, ord))[k] < ord.len(),
{
    let m = map_ord(s, ord); let r = sorted_of(m);
    assert forall|a: int, b: int| 0 <= a < m.len() && 0 <= b < m.len() && a != b implies m[a] != m[b] by { assert(s[a] != s[b]); }
    ax_sorted_of(m);
    assert forall|k: int| 0 <= k < s.len() implies #[trigger] r[k] < ord.len() by {
        assert(r.contains(r[k])); assert(m.contains(r[k]));
        let q = choose|q: int| 0 <= q < m.len() && m[q] == r[k];
        assert(m[q] == ord[s[q] as int]);
    }
}
pub proof fn lemma_bi_facts(p: SparsityPattern, j: int)
    requires tree_ok(p), 0 <= j < p.sntree.n_cliques,
    ensures
        nbi(p, j) == tri(p.sntree.nblk->0@[j] as int), n_ov(bi_of(p, j), nbi(p, j)) == tri(sep(p.sntree, j).len() as int), nbi(p, j) >= 0,
        forall|c: int| 0 <= c < nbi(p, j) ==> (#[trigger] bi_of(p, j)[c]).0 < p.ordering@.len() && bi_of(p, j)[c].1 < p.ordering@.len(),
        ascending(sn_sorted(p, j)), ascending(sep_sorted(p, j)),
{
    let t = p.sntree; let ord = p.ordering@; let d = ord.len() as int;
    assert(clique_wf(p, j));
    assert forall|q: int| 0 <= q < snd(t, j).len() implies #[trigger] snd(t, j)[q] < d by { assert(clique_of(t, j)[q] == snd(t, j)[q]); }
    assert forall|q: int| 0 <= q < sep(t, j).len() implies #[trigger] sep(t, j)[q] < d by { assert(clique_of(t, j)[snd(t, j).len() + q] == sep(t, j)[q]); }
    lemma_sorted_mapped(snd(t, j), ord); lemma_sorted_mapped(sep(t, j), ord);
    let sn = sn_sorted(p, j); let sp = sep_sorted(p, j);
    lemma_bi_fill(sn, sp, d);
    let f = bi_fill(sn, sp);
    ax_bi_sort(f, d);
    assert forall|c: int| 0 <= c < nbi(p, j) implies (#[trigger] bi_of(p, j)[c]).0 < d && bi_of(p, j)[c].1 < d by {
        assert(f.contains(bi_of(p, j)[c]));
        let q = choose|q: int| 0 <= q < f.len() && f[q] == bi_of(p, j)[c];
        assert(f[q].0 < d);
    }
}

// the columns < col of A (resp. all of b) have been visited by the clique with block-index list bi whose block starts at row rpj
pub open spec fn cols_done(I: Seq<usize>, I1: Seq<usize>, A: CscMatrix<F>, bi: Seq<BlockOverlapTriplet>, rs: int, re: int, rpj: int, col: int) -> bool {
    &&& forall|q: int, c: int| #[trigger] in_col(A, q, c) && c < col ==> I[q] == cl_val(bi, rs, re, rpj, A.rowval@[q] as int, I1[q])
    &&& forall|q: int| A.colptr@[col] <= q < A.rowval@.len() ==> #[trigger] I[q] == I1[q]
}
pub open spec fn psd_cones_desc(nblk: Seq<usize>, n: int, k: int) -> Seq<Cone> { Seq::new(k as nat, |t: int| SupportedConeT::PSDTriangleConeT(nblk[n - 1 - t])) }
pub open spec fn maps_desc(orig: usize, spi: usize, n: int, k: int) -> Seq<ConeMapEntry> {
    Seq::new(k as nat, |t: int| ConeMapEntry { orig_index: orig, tree_and_clique: Some((spi, (n - 1 - t) as usize)) }) }
//@fn file=src/solver/chordal/decomp/augment_compact.rs name=add_entries_with_sparsity_pattern rules=R1,mapcollect,R5,vecsort:separator|snode|parent_clique ret=res attrs="#[verifier::spinoff_prover]"
//@contract
    requires
        // A / b as the index helpers need them (unit chordal_compact): column pointers from 0, rows strictly increasing per column; b.nzind from SparseVector::new
        colptr_ok(*A), A.colptr@[0] == 0, rows_sorted(*A), strictly_increasing(b.nzind@),
        // the overlap pairs and b are handled while col == 0: the loop `for col in 0..n` must run at least once
        A.n >= 1,
        old(A_I)@.len() >= A.rowval@.len(), old(b_I)@.len() >= b.nzind@.len(),
        tree_ok(*spattern),
        // row_range = the rows of the decomposed cone, a PSD triangle of dimension |ordering|
        row_range.start + tri(spattern.ordering@.len() as int) == row_range.end, row_range.end < 0x2000_0000_0000_0000, A.rowval@.len() < 0x2000_0000_0000_0000,
        b.nzind@.len() < 0x2000_0000_0000_0000,
        // the overlap slots live behind the entries of A and there are enough of them
        overlap_ptr >= A.rowval@.len(), overlap_ptr + 2 * ov_after(*spattern, -1) <= old(A_I)@.len(),
        row_ptr + rows_after(spattern.sntree.nblk->0@, -1, spattern.sntree.n_cliques as int) < 0x4000_0000_0000_0000,
    ensures
        final(A_I)@.len() == old(A_I)@.len(), final(b_I)@.len() == old(b_I)@.len(),
        // C18 (every entry of the original rows appears exactly once): a stored entry of A / b keeps its slot; if its row lies in the cone it gets
        // the row of the block entry of the (last processed = lowest order) clique that owns it as a non-overlap entry
        forall|q: int| 0 <= q < A.rowval@.len() ==> #[trigger] final(A_I)@[q] == moved_row(*spattern, row_range.start as int, row_range.end as int, row_ptr as int, A.rowval@[q] as int, 0, old(A_I)@[q]),
        forall|q: int| 0 <= q < b.nzind@.len() ==> #[trigger] final(b_I)@[q] == moved_row(*spattern, row_range.start as int, row_range.end as int, row_ptr as int, b.nzind@[q] as int, 0, old(b_I)@[q]),
        forall|q: int| b.nzind@.len() <= q < old(b_I)@.len() ==> #[trigger] final(b_I)@[q] == old(b_I)@[q],
        // C18 (overlaps are tied by consistency constraints): every overlap entry of every clique owns one pair of slots: (its row in the
        // clique's block, the row of the same matrix entry in the PARENT's block); the pairs of clique j start at overlap_ptr + 2 * #pairs of the cliques > j
        forall|j: int| 0 <= j < spattern.sntree.n_cliques ==> #[trigger] ov_ok(final(A_I)@, *spattern, row_ptr as int, overlap_ptr as int, j),
        forall|q: int| A.rowval@.len() <= q < old(A_I)@.len() && !(overlap_ptr <= q < res.1) ==> #[trigger] final(A_I)@[q] == old(A_I)@[q],
        res.0 == row_ptr + rows_after(spattern.sntree.nblk->0@, -1, spattern.sntree.n_cliques as int),
        res.1 == overlap_ptr + 2 * ov_after(*spattern, -1),
        // one PSD cone per clique, in DESCENDING post order, tagged with (pattern, clique order)
        final(cones_new)@ == old(cones_new)@ + psd_cones_desc(spattern.sntree.nblk->0@, spattern.sntree.n_cliques as int, spattern.sntree.n_cliques as int),
        final(cone_maps)@ == old(cone_maps)@ + maps_desc(spattern.orig_index, spattern_index, spattern.sntree.n_cliques as int, spattern.sntree.n_cliques as int),
//@pre
    broadcast use vstd::std_specs::hash::group_hash_axioms;
    let ghost p = *spattern;
    let ghost t = spattern.sntree;
    let ghost nn = spattern.sntree.n_cliques as int;
    let ghost nb = spattern.sntree.nblk->0@;
    let ghost ord = spattern.ordering@;
    let ghost rs = row_range.start as int;
    let ghost re = row_range.end as int;
    let ghost rp0 = row_ptr as int;
    let ghost ov0 = overlap_ptr as int;
    let ghost aI0 = A_I@;
    let ghost bI0 = b_I@;
    let ghost c0 = cones_new@;
    let ghost m0 = cone_maps@;
    let ghost nnz = A.rowval@.len() as int;
    proof {
        assert(A_I@.len() == A_I.len() && b_I@.len() == b_I.len());
        lemma_pat_sizes(p);
        lemma_si_nondecreasing(b.nzind@);
        lemma_tri_step(ord.len() as int);
    }
//@iter 1
it
//@loop 1
        invariant
            p == *spattern, t == p.sntree, nn == t.n_cliques, nb == t.nblk->0@, ord == p.ordering@, rs == row_range.start, re == row_range.end, nnz == A.rowval@.len(),
            sntree == &spattern.sntree, ordering == &spattern.ordering, n == A.n, n >= 1, tree_ok(p),
            colptr_ok(*A), A.colptr@[0] == 0, rows_sorted(*A), strictly_increasing(b.nzind@), nondecreasing(b.nzind@),
            0 <= rs <= re, rs + tri(ord.len() as int) == re, re < 0x2000_0000_0000_0000, nnz < 0x2000_0000_0000_0000, b.nzind@.len() < 0x2000_0000_0000_0000,
            ov0 >= nnz, ov0 + 2 * ov_after(p, -1) <= aI0.len(), rp0 >= 0, rp0 + rows_after(nb, -1, nn) < 0x4000_0000_0000_0000,
            A_I@.len() == aI0.len(), b_I@.len() == bI0.len(), aI0.len() >= nnz, bI0.len() >= b.nzind@.len(),
            it.seq().len() == nn, forall|k: int| 0 <= k < nn ==> #[trigger] it.seq()[k] == nn - 1 - k,
            forall|i: int| 0 <= i < nn ==> crm_entry(clique_to_rows@, #[trigger] t.snode_post@[i], rp0 + rows_after(nb, i, nn), rp0 + rows_after(nb, i, nn) + tri(nb[i] as int)),
            row_ptr == rp0 + rows_after(nb, nn - 1 - it.index@, nn),
            overlap_ptr == ov0 + 2 * ov_after(p, nn - 1 - it.index@),
            forall|q: int| 0 <= q < nnz ==> #[trigger] A_I@[q] == moved_row(p, rs, re, rp0, A.rowval@[q] as int, nn - it.index@, aI0[q]),
            forall|q: int| 0 <= q < b.nzind@.len() ==> #[trigger] b_I@[q] == moved_row(p, rs, re, rp0, b.nzind@[q] as int, nn - it.index@, bI0[q]),
            forall|q: int| b.nzind@.len() <= q < bI0.len() ==> #[trigger] b_I@[q] == bI0[q],
            forall|j: int| nn - it.index@ <= j < nn ==> #[trigger] ov_ok(A_I@, p, rp0, ov0, j),
            forall|q: int| nnz <= q < aI0.len() && !(ov0 <= q < overlap_ptr) ==> #[trigger] A_I@[q] == aI0[q],
            cones_new@ == c0 + psd_cones_desc(nb, nn, it.index@ as int),
            cone_maps@ == m0 + maps_desc(p.orig_index, spattern_index, nn, it.index@ as int),
//@body_start 1
        broadcast use vstd::std_specs::hash::group_hash_axioms;
        let ghost gi = nn - 1 - it.index@;
        let ghost a1 = A_I@;
        let ghost b1 = b_I@;
        let ghost cn1 = cones_new@;
        let ghost cm1 = cone_maps@;
        let ghost ovp1 = overlap_ptr as int;
        let ghost rpj = row_ptr as int;
        proof {
            assert($var1 == gi);
            assert(clique_wf(p, gi));
            lemma_clique_sizes(p, gi);
            lemma_bi_facts(p, gi);
            assert forall|q: int| 0 <= q < snd(t, gi).len() implies #[trigger] snd(t, gi)[q] < ord.len() by { assert(clique_of(t, gi)[q] == snd(t, gi)[q]); }
            assert forall|q: int| 0 <= q < sep(t, gi).len() implies #[trigger] sep(t, gi)[q] < ord.len() by { assert(clique_of(t, gi)[snd(t, gi).len() + q] == sep(t, gi)[q]); }
            assert(rows_after(nb, gi - 1, nn) == rows_after(nb, gi, nn) + tri(nb[gi] as int));
            lemma_rows_after_mono(nb, -1, gi - 1, nn); lemma_rows_after_mono(nb, gi - 1, gi, nn);
            assert(ov_after(p, gi - 1) == ov_after(p, gi) + n_ov(bi_of(p, gi), nbi(p, gi)));
            lemma_ov_after_mono(p, -1, gi - 1); lemma_ov_after_mono(p, gi - 1, gi);
            assert(rpj == rp(p, rp0, gi) && ovp1 == ovp(p, ov0, gi));
        }
//@iter 2
it2
//@loop 2
            invariant
                ord == spattern.ordering@, it2.seq().len() == sep(t, gi).len(), forall|k: int| 0 <= k < it2.seq().len() ==> *(#[trigger] it2.seq()[k]) == sep(t, gi)[k],
                forall|k: int| 0 <= k < sep(t, gi).len() ==> #[trigger] sep(t, gi)[k] < ord.len(),
                mc_out1@ =~= Seq::new(it2.index@ as nat, |q: int| ord[sep(t, gi)[q] as int]),
//@body_start 2
            proof { assert(*v_r == sep(t, gi)[it2.index@ as int]); }
//@iter 3
it3
//@loop 3
            invariant
                ord == spattern.ordering@, it3.seq().len() == snd(t, gi).len(), forall|k: int| 0 <= k < it3.seq().len() ==> *(#[trigger] it3.seq()[k]) == snd(t, gi)[k],
                forall|k: int| 0 <= k < snd(t, gi).len() ==> #[trigger] snd(t, gi)[k] < ord.len(),
                mc_out2@ =~= Seq::new(it3.index@ as nat, |q: int| ord[snd(t, gi)[q] as int]),
//@body_start 3
            proof { assert(*v_r == snd(t, gi)[it3.index@ as int]); }
//@before "let block_indices ="
        proof {
            assert(separator@ == sep_sorted(p, gi));
            assert(snode@ == sn_sorted(p, gi));
        }
//@before "let parent_rows;"
        let ghost bi = block_indices@;
        proof { assert(bi == bi_of(p, gi)); assert(bi.len() == nbi(p, gi)); }
//@before "let parent_index ="
            let ghost kpar = par_pos(t, gi);
            proof {
                assert(has_par(t, gi, kpar));
                assert(crm_entry(clique_to_rows@, t.snode_post@[kpar], rp0 + rows_after(nb, kpar, nn), rp0 + rows_after(nb, kpar, nn) + tri(nb[kpar] as int)));
                lemma_clique_at(p, kpar);
                lemma_clique_sizes(p, kpar);
                assert(clique_wf(p, kpar));
                lemma_rows_after_mono(nb, -1, kpar, nn);
            }
//@iter 4
it4
//@loop 4
                invariant
                    ord == spattern.ordering@, it4.seq().len() == clique_of(t, kpar).len(), forall|k: int| 0 <= k < it4.seq().len() ==> *(#[trigger] it4.seq()[k]) == clique_of(t, kpar)[k],
                    forall|k: int| 0 <= k < clique_of(t, kpar).len() ==> #[trigger] clique_of(t, kpar)[k] < ord.len(),
                    mc_out3@ =~= Seq::new(it4.index@ as nat, |q: int| ord[clique_of(t, kpar)[q] as int]),
//@body_start 4
                proof { assert(*v_r == clique_of(t, kpar)[it4.index@ as int]); }
//@before_loop 5
        let ghost pcs = parent_clique@;
        let ghost prs = parent_rows.start as int;
        proof {
            assert(pcs == pc_of(p, gi));
            assert(prs == prow(p, rp0, gi));
            assert(nondecreasing(pcs));
            assert(pcs.len() < 0x8000_0000);
        }
//@loop 5
            invariant
                n == A.n, n >= 1, nnz == A.rowval@.len(), colptr_ok(*A), A.colptr@[0] == 0, rows_sorted(*A), strictly_increasing(b.nzind@), nondecreasing(b.nzind@),
                rs == row_range.start, re == row_range.end, 0 <= rs <= re, re < 0x2000_0000_0000_0000, nnz < 0x2000_0000_0000_0000, b.nzind@.len() < 0x2000_0000_0000_0000,
                A_I@.len() == a1.len(), b_I@.len() == b1.len(), a1.len() >= nnz, b1.len() >= b.nzind@.len(),
                bi == block_indices@, pcs == parent_clique@, prs == parent_rows.start, nondecreasing(pcs), pcs.len() < 0x8000_0000, 0 <= prs < 0x4000_0000_0000_0000,
                forall|c: int| 0 <= c < bi.len() ==> (#[trigger] bi[c]).0 < 0x8000_0000 && bi[c].1 < 0x8000_0000,
                rpj == row_ptr, 0 <= rpj, rpj + bi.len() <= usize::MAX, ovp1 >= nnz, ovp1 + 2 * n_ov(bi, bi.len() as int) <= a1.len(), n_ov(bi, bi.len() as int) >= 0,
                overlap_ptr == ovp1 + (if $var5 == 0 { 0int } else { 2 * n_ov(bi, bi.len() as int) }),
                cols_done(A_I@, a1, *A, bi, rs, re, rpj, $var5 as int),
                $var5 > 0 ==> ov_state(A_I@, bi, pcs, prs, rpj, ovp1, bi.len() as int),
                forall|q: int| nnz <= q < a1.len() && !($var5 > 0 && ovp1 <= q < ovp1 + 2 * n_ov(bi, bi.len() as int)) ==> #[trigger] A_I@[q] == a1[q],
                $var5 == 0 ==> b_I@ == b1,
                $var5 > 0 ==> forall|q: int| 0 <= q < b.nzind@.len() ==> #[trigger] b_I@[q] == cl_val(bi, rs, re, rpj, b.nzind@[q] as int, b1[q]),
                forall|q: int| b.nzind@.len() <= q < b1.len() ==> #[trigger] b_I@[q] == b1[q],
//@body_start 5
            let ghost gc = $var5 as int;
            let ghost a2 = A_I@;
            let ghost b2 = b_I@;
            proof { assert(A.colptr@[gc] <= A.colptr@[gc + 1] <= A.colptr@[A.n as int]); assert(A.colptr@[0] <= A.colptr@[gc]); }
//@before "overlap_ptr = add_clique_entries("
            proof {
                let lo = A.colptr@[gc] as int; let hi = A.colptr@[gc + 1] as int;
                assert(row_range_col.start <= nnz);
                assert(row_range_b.start <= b.nzind@.len());
                if row_range_col.start < row_range_col.end {
                    assert(rows_window(A.rowval@, lo, hi, row_range_col.start as int, row_range_col.end as int, rs, re));
                    assert forall|x: int, y: int| row_range_col.start <= x < y < row_range_col.end implies A.rowval@[x] < A.rowval@[y] by { assert(in_col(*A, x, gc) && in_col(*A, y, gc)); }
                }
                if row_range_b.start < row_range_b.end {
                    assert(rows_window(b.nzind@, 0, b.nzind@.len() as int, row_range_b.start as int, row_range_b.end as int, rs, re));
                }
            }
//@body_end 5
            proof {
                let lo = A.colptr@[gc] as int; let hi = A.colptr@[gc + 1] as int;
                let wlo = row_range_col.start as int; let whi = row_range_col.end as int;
                let nbl = bi.len() as int;
                assert forall|q: int, c: int| #[trigger] in_col(*A, q, c) && c < gc + 1 implies A_I@[q] == cl_val(bi, rs, re, rpj, A.rowval@[q] as int, a1[q]) by {
                    if c < gc { assert(A.colptr@[c + 1] <= A.colptr@[gc]); assert(A_I@[q] == a2[q]); }
                    else {
                        assert(a2[q] == a1[q]);
                        if wlo <= q < whi { } else { assert(A_I@[q] == a2[q]); assert(!(rs <= A.rowval@[q] < re)); }
                    }
                }
                assert forall|q: int| A.colptr@[gc + 1] <= q < nnz implies #[trigger] A_I@[q] == a1[q] by { assert(A_I@[q] == a2[q]); }
                if gc > 0 {
                    lemma_ov_keep(a2, A_I@, bi, pcs, prs, rpj, ovp1, nbl);
                } else {
                    let blo = row_range_b.start as int; let bhi = row_range_b.end as int;
                    assert forall|q: int| 0 <= q < b.nzind@.len() implies #[trigger] b_I@[q] == cl_val(bi, rs, re, rpj, b.nzind@[q] as int, b1[q]) by {
                        if blo <= q < bhi { } else { assert(b_I@[q] == b2[q]); assert(!(rs <= b.nzind@[q] < re)); }
                    }
                }
            }
//@before "let cone_dim ="
        proof {
            assert forall|q: int| 0 <= q < nnz implies #[trigger] A_I@[q] == moved_row(p, rs, re, rp0, A.rowval@[q] as int, gi, aI0[q]) by {
                let c = lemma_col_of(*A, q); assert(in_col(*A, q, c));
            }
            assert forall|j: int| gi <= j < nn implies #[trigger] ov_ok(A_I@, p, rp0, ov0, j) by {
                if j > gi {
                    assert(ov_ok(a1, p, rp0, ov0, j));
                    lemma_ov_after_mono(p, gi, j - 1); lemma_ov_after_mono(p, -1, j);
                    assert(ov_after(p, j - 1) == ov_after(p, j) + n_ov(bi_of(p, j), nbi(p, j)));
                    lemma_ov_keep(a1, A_I@, bi_of(p, j), pc_of(p, j), prow(p, rp0, j), rp(p, rp0, j), ovp(p, ov0, j), nbi(p, j));
                }
            }
        }
//@body_end 1
        proof {
            assert(cones_new@ =~= c0 + psd_cones_desc(nb, nn, it.index@ + 1));
            assert(cone_maps@ =~= m0 + maps_desc(p.orig_index, spattern_index, nn, it.index@ + 1));
        }
//@post
    proof {
        assert(c0 + psd_cones_desc(nb, nn, nn) == old(cones_new)@ + psd_cones_desc(nb, nn, nn));
    }
//@end

// ================= the driver: find_compact_A_b_and_cones =================
// row ranges of a cone list.  Stand-in for RangeSupportedConesIterator; contract text of unit solver_new (PROVED there: the k-th call of `next`
// yields cone_start(k) .. cone_start(k + 1); row_off here is cone_start there).  `collect` (ASSUMED, Iterator::collect = the remaining items in order)
pub struct RangeSupportedConesIterator { pub st: Ghost<(Seq<Cone>, int)> }
impl RangeSupportedConesIterator {
    pub open spec fn cones(&self) -> Seq<Cone> { self.st@.0 }
    pub open spec fn idx(&self) -> int { self.st@.1 }
    #[verifier::external_body] pub fn next(&mut self) -> (r: Option<Range<usize>>)
        requires row_off(old(self).cones(), old(self).cones().len() as int) <= usize::MAX, 0 <= old(self).idx(),
        ensures final(self).cones() == old(self).cones(),
            old(self).idx() < old(self).cones().len() ==> final(self).idx() == old(self).idx() + 1 && r is Some
                && r->0.start == row_off(old(self).cones(), old(self).idx()) && r->0.end == row_off(old(self).cones(), old(self).idx() + 1),
            old(self).idx() >= old(self).cones().len() ==> r is None && final(self).idx() == old(self).idx(),
    { unimplemented!() }
    #[verifier::external_body] pub fn collect(self) -> (r: Vec<Range<usize>>)
        requires row_off(self.cones(), self.cones().len() as int) <= usize::MAX, self.idx() == 0,
        ensures r@.len() == self.cones().len(), forall|k: int| 0 <= k < r@.len() ==> (#[trigger] r@[k]).start == row_off(self.cones(), k) && r@[k].end == row_off(self.cones(), k + 1),
    { unimplemented!() }
}
pub trait ConeRanges {
    spec fn cone_seq(&self) -> Seq<Cone>;
    fn rng_cones_iter(&self) -> (r: RangeSupportedConesIterator) ensures r.cones() == self.cone_seq(), r.idx() == 0;
}
impl ConeRanges for [Cone] {
    open spec fn cone_seq(&self) -> Seq<Cone> { self@ }
    #[verifier::external_body] fn rng_cones_iter(&self) -> (r: RangeSupportedConesIterator) { unimplemented!() }
}
impl ConeRanges for Vec<Cone> {
    open spec fn cone_seq(&self) -> Seq<Cone> { self@ }
    #[verifier::external_body] fn rng_cones_iter(&self) -> (r: RangeSupportedConesIterator) { unimplemented!() }
}
// stand-ins, PROVED in unit chordal_compact with the SAME contract text (add_entries_with_cone: `cone.nvars_spec()` of the opaque cone there is
// nvars_spec(*cone) of the real enum here)
#[verifier::external_body]
fn alternating_sequence<T>(total_length: usize, n_start: usize) -> (res: Vec<F>)
    requires total_length <= usize::MAX - 2, n_start < usize::MAX,
    ensures res@.len() == total_length,
        forall|i: int| 0 <= i < total_length ==> #[trigger] res@[i] == (if i > n_start && (i - n_start) % 2 == 1 { f_neg(f_one()) } else { f_one() }),
{ unimplemented!() }
#[verifier::external_body]
fn extra_columns(total_length: usize, n_start: usize, start_val: usize) -> (res: Vec<usize>)
    requires total_length >= 1, total_length <= usize::MAX - 2, start_val + total_length <= usize::MAX,
    ensures res@.len() == total_length,
        forall|i: int| 0 <= i < total_length ==> #[trigger] res@[i] ==
            (if i >= n_start && n_start + 2 * ((i - n_start) / 2) + 1 < total_length { (start_val + (i - n_start) / 2) as usize } else { 0usize }),
{ unimplemented!() }
#[verifier::external_body]
fn findnz(J: &mut [usize], V: &mut [F], Sm: &CscMatrix<F>)
    requires colptr_ok(*Sm), Sm.colptr@[0] == 0, old(J)@.len() >= Sm.nzval@.len(), old(V)@.len() >= Sm.nzval@.len(),
    ensures final(J)@.len() == old(J)@.len(), final(V)@.len() == old(V)@.len(),
        forall|k: int, c: int| #[trigger] in_col(*Sm, k, c) ==> final(J)@[k] == c && final(V)@[k] == Sm.nzval@[k],
        forall|k: int| Sm.nzval@.len() <= k < old(J)@.len() ==> #[trigger] final(J)@[k] == old(J)@[k],
        forall|k: int| Sm.nzval@.len() <= k < old(V)@.len() ==> #[trigger] final(V)@[k] == old(V)@[k],
{ unimplemented!() }
#[verifier::external_body]
fn add_entries_with_cone(Aa_I: &mut [usize], ba_I: &mut [usize], cones_new: &mut Vec<Cone>, cone_maps: &mut Vec<ConeMapEntry>, A: &CscMatrix<F>, b: &SparseVector<F>,
    row_range: Range<usize>, cone: &Cone, row_ptr: usize, overlap_ptr: usize) -> (res: (usize, usize))
    requires
        colptr_ok(*A), A.colptr@[0] == 0, rows_sorted(*A), nondecreasing(b.nzind@),
        old(Aa_I)@.len() >= A.rowval@.len(), old(ba_I)@.len() >= b.nzind@.len(),
        row_ptr <= isize::MAX, row_range.start <= isize::MAX, row_range.start <= row_range.end,
        row_ptr + (row_range.end - row_range.start) <= usize::MAX, row_ptr + nvars_spec(*cone) <= usize::MAX,
        old(cone_maps)@.len() > 0 ==> old(cone_maps)@[old(cone_maps)@.len() - 1].orig_index < usize::MAX,
    ensures
        final(Aa_I)@.len() == old(Aa_I)@.len(), final(ba_I)@.len() == old(ba_I)@.len(),
        forall|k: int| 0 <= k < old(Aa_I)@.len() ==> #[trigger] final(Aa_I)@[k] ==
            (if k < A.rowval@.len() && row_range.start <= A.rowval@[k] < row_range.end { shifted(A.rowval@[k] as int, row_range.start as int, row_ptr as int) as usize } else { old(Aa_I)@[k] }),
        forall|k: int| 0 <= k < old(ba_I)@.len() ==> #[trigger] final(ba_I)@[k] ==
            (if k < b.nzind@.len() && row_range.start <= b.nzind@[k] < row_range.end { shifted(b.nzind@[k] as int, row_range.start as int, row_ptr as int) as usize } else { old(ba_I)@[k] }),
        final(cones_new)@ == old(cones_new)@.push(*cone),
        final(cone_maps)@.len() == old(cone_maps)@.len() + 1,
        forall|i: int| 0 <= i < old(cone_maps)@.len() ==> #[trigger] final(cone_maps)@[i] == old(cone_maps)@[i],
        final(cone_maps)@[old(cone_maps)@.len() as int].tree_and_clique is None,
        final(cone_maps)@[old(cone_maps)@.len() as int].orig_index == (if old(cone_maps)@.len() == 0 { 0int } else { old(cone_maps)@[old(cone_maps)@.len() - 1].orig_index + 1 }),
        res.0 == row_ptr + nvars_spec(*cone), res.1 == overlap_ptr,
{ unimplemented!() }
impl SparseVector<F> {
    // ASSUMED here, PROVED in unit chordal_compact
    #[verifier::external_body] pub fn new(values: &[F]) -> (res: Self)
        ensures res.n == values@.len(), res.nzind@.len() == res.nzval@.len(), strictly_increasing(res.nzind@),
            forall|k: int| 0 <= k < res.nzind@.len() ==> (#[trigger] res.nzind@[k]) < values@.len() && !f_eq(values@[res.nzind@[k] as int], f_zero()) && res.nzval@[k] == values@[res.nzind@[k] as int],
            forall|i: int| 0 <= i < values@.len() && !f_eq(#[trigger] values@[i], f_zero()) ==> exists|k: int| 0 <= k < res.nzind@.len() && res.nzind@[k] == i,
    { unimplemented!() }
}
// dense vector from (index, value) pairs, later pairs overwrite earlier ones
pub open spec fn scatter(n: int, ind: Seq<usize>, val: Seq<F>, k: int) -> Seq<F> decreases k {
    if k <= 0 { Seq::new(n as nat, |i: int| f_zero()) } else { scatter(n, ind, val, k - 1).update(ind[k - 1] as int, val[k - 1]) } }
// `SparseVector { .. }.into()`: ASSUMED stand-in for `impl From<SparseVector<T>> for Vec<T>` (zeros, then v[i] = nz for the zipped pairs); its index
// obligation `v[i]` is the precondition
#[verifier::external_body]
pub fn sparse_into(sv: SparseVector<F>) -> (r: Vec<F>)
    requires forall|k: int| 0 <= k < sv.nzind@.len() && k < sv.nzval@.len() ==> #[trigger] sv.nzind@[k] < sv.n,
    ensures r@ == scatter(sv.n as int, sv.nzind@, sv.nzval@, (if sv.nzind@.len() <= sv.nzval@.len() { sv.nzind@.len() } else { sv.nzval@.len() }) as int),
{ unimplemented!() }
// what new_from_triplets makes of a triplet list: relation only (unit csc_build PROVES for the real function: canonical result whose dense
// meaning is the sum of the triplets per (row, col)).  O15: column indices must be < n (else silently dropped), rows are NOT checked
pub uninterp spec fn built_from(r: CscMatrix<F>, m: int, n: int, I: Seq<usize>, J: Seq<usize>, V: Seq<F>) -> bool;
impl CscMatrix<F> {
    #[verifier::external_body] pub fn new_from_triplets(m: usize, n: usize, I: Vec<usize>, J: Vec<usize>, V: Vec<F>) -> (r: Self)
        requires I@.len() == J@.len(), I@.len() == V@.len(), forall|k: int| 0 <= k < J@.len() ==> #[trigger] J@[k] < n,
        ensures r.m == m, r.n == n, built_from(r, m as int, n as int, I@, J@, V@),
    { unimplemented!() }
//@fn file=src/algebra/csc/core.rs in="impl<T> CscMatrix<T>" name=nnz rules=R1 ret=r
//@contract
    requires self.colptr@.len() == self.n + 1,
    ensures r == self.colptr@[self.n as int],
//@end
}
// ---- the compact decomposition as a function of (init_cones, spatterns) ----
pub open spec fn ci_wf2(ci: ChordalInfo<F>) -> bool { ci_wf(ci) && forall|k: int| 0 <= k < ci.spatterns@.len() ==> #[trigger] tree_ok(ci.spatterns@[k]) }
// new row of a stored entry of original row r after the cones 0..i have been processed (usize::MAX = dflt if no cone / no clique owns it)
pub open spec fn new_row(ci: ChordalInfo<F>, r: int, i: int, dflt: usize) -> usize decreases i {
    if i <= 0 { dflt } else {
        let sp = ci.spatterns@; let c = i - 1; let prev = new_row(ci, r, i - 1, dflt);
        let rs = row_off(ci.init_cones@, c); let re = row_off(ci.init_cones@, c + 1);
        if is_dec(sp, c) { moved_row(sp[pk(sp, c)], rs, re, dim_spec(ci, c), r, 0, prev) }
        else if rs <= r < re { shifted(r, rs, dim_spec(ci, c)) as usize } else { prev } } }
pub open spec fn cones_spec_c(ci: ChordalInfo<F>, i: int) -> Seq<Cone> decreases i {
    if i <= 0 { Seq::empty() } else {
        let sp = ci.spatterns@; let t = sp[pk(sp, i - 1)].sntree;
        if is_dec(sp, i - 1) { cones_spec_c(ci, i - 1) + psd_cones_desc(t.nblk->0@, t.n_cliques as int, t.n_cliques as int) }
        else { cones_spec_c(ci, i - 1).push(ci.init_cones@[i - 1]) } } }
pub open spec fn maps_spec(ci: ChordalInfo<F>, i: int) -> Seq<ConeMapEntry> decreases i {
    if i <= 0 { Seq::empty() } else {
        let sp = ci.spatterns@; let t = sp[pk(sp, i - 1)].sntree;
        if is_dec(sp, i - 1) { maps_spec(ci, i - 1) + maps_desc((i - 1) as usize, pk(sp, i - 1) as usize, t.n_cliques as int, t.n_cliques as int) }
        else { maps_spec(ci, i - 1).push(ConeMapEntry { orig_index: (i - 1) as usize, tree_and_clique: None }) } } }
// the consistency pairs of the decomposed cone c: slots from nnz + 2 * (overlaps of the cones before c)
pub open spec fn cone_ov_ok(I: Seq<usize>, ci: ChordalInfo<F>, nnz: int, c: int) -> bool {
    let sp = ci.spatterns@;
    is_dec(sp, c) ==> forall|j: int| 0 <= j < sp[pk(sp, c)].sntree.n_cliques ==> #[trigger] ov_ok(I, sp[pk(sp, c)], dim_spec(ci, c), nnz + 2 * ovl_spec(ci, c), j)
}
pub proof fn lemma_totals(p: SparsityPattern, j: int)
    requires tree_ok(p), -1 <= j < p.sntree.n_cliques,
    ensures
        ov_after(p, j) == sum_tri_sep(p.sntree, p.sntree.n_cliques as int) - sum_tri_sep(p.sntree, j + 1),
        rows_after(p.sntree.nblk->0@, j, p.sntree.n_cliques as int) == sum_tri_nblk(p.sntree.nblk->0@, p.sntree.n_cliques as int) - sum_tri_nblk(p.sntree.nblk->0@, j + 1),
    decreases p.sntree.n_cliques - j,
{
    if j + 1 < p.sntree.n_cliques { lemma_totals(p, j + 1); lemma_bi_facts(p, j + 1); }
}
pub proof fn lemma_cone_ov_keep(I1: Seq<usize>, I2: Seq<usize>, ci: ChordalInfo<F>, nnz: int, c: int)
    requires ci_wf2(ci), 0 <= c < ci.init_cones@.len(), cone_ov_ok(I1, ci, nnz, c),
        forall|q: int| nnz + 2 * ovl_spec(ci, c) <= q < nnz + 2 * ovl_spec(ci, c + 1) ==> #[trigger] I2[q] == I1[q],
    ensures cone_ov_ok(I2, ci, nnz, c),
{
    let sp = ci.spatterns@;
    if is_dec(sp, c) {
        let p = sp[pk(sp, c)]; let o = nnz + 2 * ovl_spec(ci, c);
        lemma_pk_range(sp, c);
        assert(tree_ok(p));
        lemma_totals(p, -1);
        assert forall|j: int| 0 <= j < p.sntree.n_cliques implies #[trigger] ov_ok(I2, p, dim_spec(ci, c), o, j) by {
            assert(ov_ok(I1, p, dim_spec(ci, c), o, j));
            lemma_bi_facts(p, j);
            lemma_ov_after_mono(p, -1, j - 1); lemma_ov_after_mono(p, j, j);
            assert(ov_after(p, j - 1) == ov_after(p, j) + n_ov(bi_of(p, j), nbi(p, j)));
            lemma_ov_keep(I1, I2, bi_of(p, j), pc_of(p, j), prow(p, dim_spec(ci, c), j), rp(p, dim_spec(ci, c), j), ovp(p, o, j), nbi(p, j));
        }
    }
}

pub open spec fn cm_m(ci: ChordalInfo<F>) -> int { row_off(ci.init_cones@, ci.init_cones@.len() as int) }
pub open spec fn cm_dim(ci: ChordalInfo<F>) -> int { dim_spec(ci, ci.init_cones@.len() as int) }
pub open spec fn cm_ovl(ci: ChordalInfo<F>) -> int { ovl_spec(ci, ci.init_cones@.len() as int) }
// the triplet arrays handed to new_from_triplets
pub open spec fn compact_trip(ci: ChordalInfo<F>, A: CscMatrix<F>, I: Seq<usize>, J: Seq<usize>, V: Seq<F>) -> bool {
    let nnz = A.rowval@.len() as int; let nc = ci.init_cones@.len() as int;
    &&& I.len() == nnz + 2 * cm_ovl(ci) && J.len() == I.len() && V.len() == I.len()
    &&& forall|q: int| 0 <= q < nnz ==> #[trigger] I[q] == new_row(ci, A.rowval@[q] as int, nc, usize::MAX)
    &&& forall|q: int, c: int| #[trigger] in_col(A, q, c) ==> J[q] == c && V[q] == A.nzval@[q]
    &&& forall|t: int| 0 <= t < cm_ovl(ci) ==> #[trigger] J[nnz + 2 * t] == A.n + t && J[nnz + 2 * t + 1] == A.n + t && V[nnz + 2 * t] == f_one() && V[nnz + 2 * t + 1] == f_neg(f_one())
    &&& forall|c: int| 0 <= c < nc ==> #[trigger] cone_ov_ok(I, ci, nnz, c)
}
// b_new: the nonzeros of b (bsv = SparseVector::new(b)) scattered to their new rows
pub open spec fn b_trip(ci: ChordalInfo<F>, b: Seq<F>, bsv: SparseVector<F>, bI: Seq<usize>, out: Seq<F>) -> bool {
    &&& bsv.nzind@.len() == bsv.nzval@.len() && bI.len() == bsv.nzind@.len() && strictly_increasing(bsv.nzind@)
    &&& forall|k: int| 0 <= k < bsv.nzind@.len() ==> (#[trigger] bsv.nzind@[k]) < b.len() && !f_eq(b[bsv.nzind@[k] as int], f_zero()) && bsv.nzval@[k] == b[bsv.nzind@[k] as int]
    &&& forall|i: int| 0 <= i < b.len() && !f_eq(#[trigger] b[i], f_zero()) ==> exists|k: int| 0 <= k < bsv.nzind@.len() && bsv.nzind@[k] == i
    &&& forall|k: int| 0 <= k < bI.len() ==> #[trigger] bI[k] == new_row(ci, bsv.nzind@[k] as int, ci.init_cones@.len() as int, usize::MAX)
    &&& out == scatter(cm_dim(ci), bI, bsv.nzval@, bI.len() as int)
}
pub proof fn lemma_scatter_len(n: int, ind: Seq<usize>, val: Seq<F>, k: int)
    requires n >= 0, ensures scatter(n, ind, val, k).len() == n, decreases k,
{ if k > 0 { lemma_scatter_len(n, ind, val, k - 1); } }
impl ChordalInfo<F> {
    // ASSUMED here, PROVED in unit chordal_augment (same contract text)
    #[verifier::external_body] pub fn get_decomposed_dim_and_overlaps(&self) -> (r: (usize, usize))
        requires ci_wf(*self),
        ensures r.0 == dim_spec(*self, self.init_cones@.len() as int), r.1 == ovl_spec(*self, self.init_cones@.len() as int),
    { unimplemented!() }
    #[verifier::external_body] pub fn final_cone_count(&self) -> (r: usize)
        requires
            forall|k: int| 0 <= k < self.spatterns@.len() ==> #[trigger] self.spatterns@[k].sntree.n_cliques >= 1,
            self.init_cones@.len() + ncl_sum(self.spatterns@, self.spatterns@.len() as int) <= usize::MAX,
        ensures r == self.init_cones@.len() + ncl_sum(self.spatterns@, self.spatterns@.len() as int) - self.spatterns@.len(),
    { unimplemented!() }
//@fn file=src/solver/chordal/decomp/augment_compact.rs in="impl<T> ChordalInfo<T>" name=find_A_dimension rules=R1 ret=res
//@contract
    requires ci_wf(*self), A.n + ovl_spec(*self, self.init_cones@.len() as int) <= usize::MAX,
    ensures res.0 == dim_spec(*self, self.init_cones@.len() as int), res.1 == A.n + ovl_spec(*self, self.init_cones@.len() as int), res.2 == ovl_spec(*self, self.init_cones@.len() as int),
//@end
//@fn file=src/solver/chordal/decomp/augment_compact.rs in="impl<T> ChordalInfo<T>" name=find_compact_A_b_and_cones rules=R1,R3,peekslice,zipnext:row_ranges,tupassignc,structinto ret=res attrs="#[verifier::spinoff_prover]"
//@contract
    requires
        ci_wf2(*old(self)),
        // A as the index helpers need it; NOT validated for a user-supplied A (see unit chordal_compact)
        colptr_ok(*A), A.colptr@[0] == 0, rows_sorted(*A),
        // the overlap pairs and b are handled in column 0: at least one variable
        A.n >= 1,
        // O7 / D2: the decomposition was computed for THIS data: b has one entry per row of init_cones
        b@.len() == cm_m(*old(self)),
        // D3 (extra_columns): `v.len() - 1` underflows when A stores nothing and nothing overlaps
        A.rowval@.len() + 2 * cm_ovl(*old(self)) >= 1,
        // sizes of one problem
        cm_m(*old(self)) < 0x2000_0000_0000_0000, A.rowval@.len() < 0x2000_0000_0000_0000, cm_dim(*old(self)) < 0x4000_0000_0000_0000,
        A.n + A.rowval@.len() + 2 * cm_ovl(*old(self)) <= usize::MAX - 2,
        // `v[i] = nz` in From<SparseVector>: every nonzero of b must have been given a row of the decomposed problem, i.e. inside a decomposed
        // cone it must be covered by a clique (C17 for the SAME data) - otherwise ba_I keeps usize::MAX and this panics
        forall|i: int| 0 <= i < b@.len() && !f_eq(#[trigger] b@[i], f_zero()) ==> new_row(*old(self), i, old(self).init_cones@.len() as int, usize::MAX) < cm_dim(*old(self)),
    ensures
        // C18 (sizes): rows = total packed dimension of all blocks, one new column per overlap entry
        res.0.m == cm_dim(*old(self)), res.0.n == A.n + cm_ovl(*old(self)), res.1@.len() == cm_dim(*old(self)),
        // A_new is built from the triplets: entry q of A keeps column and value and moves to row new_row(row); overlap t gets column A.n + t with
        // +1 in the row of the child's block entry and -1 in the row of the parent's block entry (cone_ov_ok)
        exists|I: Seq<usize>, J: Seq<usize>, V: Seq<F>| #[trigger] built_from(res.0, cm_dim(*old(self)), A.n + cm_ovl(*old(self)), I, J, V) && compact_trip(*old(self), *A, I, J, V),
        exists|bsv: SparseVector<F>, bI: Seq<usize>| #[trigger] b_trip(*old(self), b@, bsv, bI, res.1@),
        // cones: per original cone the cone itself or one PSD cone per clique in DESCENDING post order; the map names (original cone, pattern, clique)
        res.2@ == cones_spec_c(*old(self), old(self).init_cones@.len() as int),
        final(self).cone_maps matches Some(cm) && cm@ == maps_spec(*old(self), old(self).init_cones@.len() as int),
        final(self).init_dims == old(self).init_dims, final(self).init_cones == old(self).init_cones, final(self).spatterns == old(self).spatterns, final(self).H == old(self).H,
//@pre
    let ghost ci = *self;
    let ghost sp = self.spatterns@;
    let ghost nc = self.init_cones@.len() as int;
    let ghost nnz = A.rowval@.len() as int;
    let ghost ovt = cm_ovl(ci);
    proof {
        assert(self.init_cones@.len() == self.init_cones.len());
        lemma_offs_mono(ci, 0, nc);
        assert forall|k: int| 0 <= k < sp.len() implies #[trigger] sp[k].sntree.n_cliques >= 1 by { assert(pat_ok(ci, k)); }
        assert(A.colptr@[0] <= A.colptr@[A.n as int]);
    }
//@before "let bs ="
        proof {
            assert forall|t: int| 0 <= t < ovt implies #[trigger] Aa_J@[nnz + 2 * t] == A.n + t && Aa_J@[nnz + 2 * t + 1] == A.n + t && Aa_V@[nnz + 2 * t] == f_one() && Aa_V@[nnz + 2 * t + 1] == f_neg(f_one()) by {
                assert((2 * t) / 2 == t && (2 * t + 1) / 2 == t && (2 * t + 1) % 2 == 1 && (2 * t) % 2 == 0);
            }
        }
//@before "let n_decomposed ="
        proof {
            lemma_si_nondecreasing(bs.nzind@);
            if bs.nzind@.len() > 0 { lemma_si_distance(bs.nzind@, 0, bs.nzind@.len() as int, bs.nzind@.len() - 1); }
        }
//@iter 1
it
//@loop 1
        invariant
            *self == ci, cones == &self.init_cones, sp == ci.spatterns@, nc == ci.init_cones@.len(), nc <= usize::MAX, ci_wf2(ci), nnz == A.rowval@.len(), ovt == cm_ovl(ci),
            colptr_ok(*A), A.colptr@[0] == 0, rows_sorted(*A), A.n >= 1, strictly_increasing(bs.nzind@), nondecreasing(bs.nzind@), bs.nzind@.len() < 0x2000_0000_0000_0000,
            cm_m(ci) < 0x2000_0000_0000_0000, nnz < 0x2000_0000_0000_0000, cm_dim(ci) < 0x4000_0000_0000_0000, A.n + nnz + 2 * ovt <= usize::MAX - 2, ovt >= 0,
            it.seq().len() == nc, forall|k: int| 0 <= k < nc ==> *(#[trigger] it.seq()[k]) == ci.init_cones@[k],
            coneidx_ctr == it.index@, patterns_iter.all() == sp, patterns_iter.pos() == pk(sp, it.index@ as int),
            patterns_count.start == pk(sp, it.index@ as int), patterns_count.end == sp.len(),
            row_ranges.cones() == ci.init_cones@, row_ranges.idx() == it.index@,
            row_ptr == dim_spec(ci, it.index@ as int), overlap_ptr == nnz + 2 * ovl_spec(ci, it.index@ as int),
            Aa_I@.len() == nnz + 2 * ovt, ba_I@.len() == bs.nzind@.len(),
            forall|q: int| 0 <= q < nnz ==> #[trigger] Aa_I@[q] == new_row(ci, A.rowval@[q] as int, it.index@ as int, usize::MAX),
            forall|q: int| 0 <= q < bs.nzind@.len() ==> #[trigger] ba_I@[q] == new_row(ci, bs.nzind@[q] as int, it.index@ as int, usize::MAX),
            forall|c: int| 0 <= c < it.index@ ==> #[trigger] cone_ov_ok(Aa_I@, ci, nnz, c),
            cones_new@ == cones_spec_c(ci, it.index@ as int), cone_maps@ == maps_spec(ci, it.index@ as int),
            it.index@ > 0 ==> cone_maps@.len() > 0 && cone_maps@[cone_maps@.len() - 1].orig_index == it.index@ - 1,
//@body_start 1
        let ghost gi = it.index@ as int;
        let ghost a1 = Aa_I@;
        let ghost m1 = cone_maps@;
        proof {
            lemma_pk_range(sp, gi);
            lemma_offs_mono(ci, gi + 1, nc); lemma_offs_mono(ci, gi, gi); lemma_offs_mono(ci, gi, gi + 1);
            assert(*cone == ci.init_cones@[gi]);
            lemma_nvars_nonneg(ci.init_cones@[gi]);
            if is_dec(sp, gi) {
                let p = sp[pk(sp, gi)];
                assert(pat_ok(ci, pk(sp, gi))); assert(tree_ok(p));
                lemma_totals(p, -1);
                lemma_tri_step(p.ordering@.len() as int);
            }
        }
//@after "row_ptr = ta_t1.0; overlap_ptr = ta_t1.1;"
                proof {
                    let p = sp[pk(sp, gi)];
                    assert forall|c: int| 0 <= c < gi + 1 implies #[trigger] cone_ov_ok(Aa_I@, ci, nnz, c) by {
                        if c < gi { lemma_offs_mono(ci, c + 1, gi); lemma_offs_mono(ci, 0, c); lemma_cone_ov_keep(a1, Aa_I@, ci, nnz, c); }
                    }
                    assert(cone_maps@ == maps_spec(ci, gi + 1));
                    assert(cone_maps@[cone_maps@.len() - 1] == maps_desc(gi as usize, pk(sp, gi) as usize, p.sntree.n_cliques as int, p.sntree.n_cliques as int)[p.sntree.n_cliques - 1]);
                }
//@after "row_ptr = ta_t2.0; overlap_ptr = ta_t2.1;"
                proof {
                    assert forall|c: int| 0 <= c < gi + 1 implies #[trigger] cone_ov_ok(Aa_I@, ci, nnz, c) by {
                        if c < gi { lemma_offs_mono(ci, c + 1, gi); lemma_offs_mono(ci, 0, c); lemma_cone_ov_keep(a1, Aa_I@, ci, nnz, c); }
                    }
                    assert(cone_maps@ =~= m1.push(ConeMapEntry { orig_index: gi as usize, tree_and_clique: None }));
                }
//@before "let A_new ="
        proof {
            assert(compact_trip(ci, *A, Aa_I@, Aa_J@, Aa_V@));
            assert forall|k: int| 0 <= k < Aa_J@.len() implies #[trigger] Aa_J@[k] < Aa_n by {
                if k < nnz { let c = lemma_col_of(*A, k); assert(in_col(*A, k, c)); }
                else { let t = (k - nnz) / 2; assert(k == nnz + 2 * t || k == nnz + 2 * t + 1); assert(Aa_J@[nnz + 2 * t] == A.n + t); }
            }
        }
//@before "let b_new ="
        let ghost bsg = bs;
        let ghost bIg = ba_I@;
        proof {
            assert forall|k: int| 0 <= k < ba_I@.len() implies #[trigger] ba_I@[k] < Aa_m by {
                assert(!f_eq(b@[bs.nzind@[k] as int], f_zero()));
            }
        }
//@before "(A_new, b_new, cones_new)"
        proof {
            lemma_scatter_len(Aa_m as int, bIg, bsg.nzval@, bIg.len() as int);
            assert(b_trip(ci, b@, bsg, bIg, b_new@));
        }
//@end
}

} // verus!
fn main() {}
