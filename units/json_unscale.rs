// unit `json_unscale` : the un-scaling phase of `save_to_file` and the settings choice of `load_from_file` (C19)
// float model: F-opaque for the entry-wise statement (exact in the float symbols) + F-real axioms for the algebraic reading
//   (machine arithmetic read as exact real arithmetic: "equal up to the rounding of one scale/unscale round trip" becomes
//   "equal"; the size of that rounding is NOT quantified here).
//
// Two STATEMENT SLICES under hand-written headers (DESIGN 10.1) and two functions extracted whole:
//   save_to_file  (as save_to_file_unscale): statements `let dinv = ..` .. `json_data.b.hadamard(..);`
//       header   : `&self` is the stand-in `DefaultSolver<F> { data }` below (the real one is `Solver<D,V,R,K,C,I,SO,SE>`; only
//                  `self.data.equilibration` is read); `json_data` is a `&mut` parameter instead of the local that the dropped
//                  first statement builds.
//       DROPPED  : (1) `let mut json_data = JsonProblemData { P: self.data.P.clone(), .. }`: that json_data starts as a copy of the
//                  internal data is an assumption of the composition lemma (its hypotheses `rel_*` speak about the value
//                  json_data has on entry); (2) the call `sanitize_settings(&mut json_data.settings)` (the callee is verified
//                  below); (3) `serde_json::to_string`, `file.write_all`, `Ok(())`.
//   load_from_file (as load_from_file_settings): statements `desanitize_settings(..)` .. `let settings = settings.unwrap_or(..);`
//       header   : `json_data` by value (the local produced by the dropped `serde_json::from_str`), `settings` as in the
//                  original; the slice ends in a `let`, so the extractor appends the bracketed trailing expression `settings`
//                  (and the header names its type as return type) to make the chosen settings visible to the contract.
//       DROPPED  : reading the file, `serde_json::from_str`, `Self::new(&P, &q, &A, &b, &cones, settings)`, `Ok(solver)`; that
//                  P, q, A, b, cones reach `Self::new` unchanged is visible in the kept text (five moves) but not in the contract.
//   sanitize_settings, desanitize_settings: whole bodies (rule R1f: f64 -> F; `f64::INFINITY` / `f64::MAX` become the
//                  hand-written associated constants `F::INFINITY` / `F::MAX`; `==` is the float symbol f_eq).
// Stand-ins written by hand: `DefaultSolver` (one field), `F::INFINITY`, `F::MAX`.  `JsonProblemData`, `DefaultProblemData`,
// `DefaultEquilibrationData`, `DefaultSettings`, `SupportedConeT`, `CscMatrix` are extracted from the real declarations.
// ASSUMED: the VectorMath kernels `hadamard` / `scale` (prelude/vecmath_assumed.rs: discharged in unit `vecmath`), the float
//   preludes, `Option::unwrap_or` (vstd).  `lrscale`, `scale` of CscMatrix are re-verified here from their real bodies
//   (units/inc/csc_scalings.rs).  The lemma's hypothesis `inv_of` (dinv = 1/d, einv = 1/e) is what `equilibrate` computes
//   (`dinv.scalarop_from(T::recip, d)`) but NOT part of the contract it currently exports in unit csc_math.
use vstd::prelude::*;
verus! {
//@include prelude/float_opaque.rs
//@include prelude/float_real_axioms.rs
//@include prelude/vecmath_assumed.rs
//@include prelude/std_assumed.rs
//@include units/inc/csc_scalings.rs

//@struct file=src/solver/implementations/default/equilibration.rs name=DefaultEquilibrationData
//@struct file=src/solver/implementations/default/problemdata.rs name=DefaultProblemData keep=equilibration
//@enum file=src/solver/core/cones/supportedcone.rs name=SupportedConeT rules=R12
//@struct file=src/solver/implementations/default/settings.rs name=DefaultSettings rules=R1f
//@struct file=src/solver/implementations/default/json.rs name=JsonProblemData
// rule R1f maps the primitive f64 (time_limit) to F as well; the two f64 constants the sanitisation compares with / stores
impl F {
    pub const INFINITY: F = F { bits: 0x7ff0_0000_0000_0000 };
    pub const MAX: F = F { bits: 0x7fef_ffff_ffff_ffff };
}
// stand-in for `DefaultSolver<T> = Solver<DefaultProblemData<T>, ..>` (src/solver/core/solver.rs): only `data` is read
pub struct DefaultSolver<T> { pub data: DefaultProblemData<T> }
// so that an edit such as `settings.unwrap_or_default()` still type-checks and is judged by the contract (seed C19_K ended as a
// compile error of the emitted unit = UNDECIDED): the derived / builder Default of the real type, as an uninterpreted value
pub uninterp spec fn default_settings() -> DefaultSettings<F>;
impl Default for DefaultSettings<F> { #[verifier::external_body] fn default() -> (r: Self) ensures r == default_settings() { unimplemented!() } }

pub open spec fn rows_below(a: CscMatrix<F>, bound: int) -> bool {
    forall|k: int| 0 <= k < a.rowval@.len() ==> a.rowval@[k] < bound
}
// dimensions as established by DefaultProblemData::new (P: n x n, A: m x n, q: n, b: m) and DefaultEquilibrationData::new
// (d, dinv: n; e, einv: m); json_data carries clones of the internal P, q, A, b
pub open spec fn unscale_shape(j: JsonProblemData<F>, eq: DefaultEquilibrationData<F>) -> bool {
    &&& j.P.colptr_ok() && j.A.colptr_ok()
    &&& j.P.n == eq.dinv@.len() && j.A.n == eq.dinv@.len() && j.A.m == eq.einv@.len()
    &&& rows_below(j.P, eq.dinv@.len() as int) && rows_below(j.A, eq.einv@.len() as int)
    &&& j.q@.len() == eq.dinv@.len() && j.b@.len() == eq.einv@.len()
}
// C19 (real arithmetic), entry for entry: what the file holds in terms of the internal data and the stored inverse scalings
pub open spec fn unscaled_p(P: CscMatrix<F>, Pi: CscMatrix<F>, dinv: Seq<F>, c: F) -> bool {
    forall|k: int, j: int| #[trigger] Pi.in_col(k, j) ==>
        P.nzval@[k].v() == Pi.nzval@[k].v() * (dinv[Pi.rowval@[k] as int].v() * dinv[j].v()) / c.v()
}
pub open spec fn unscaled_a(A: CscMatrix<F>, Ai: CscMatrix<F>, einv: Seq<F>, dinv: Seq<F>) -> bool {
    forall|k: int, j: int| #[trigger] Ai.in_col(k, j) ==>
        A.nzval@[k].v() == Ai.nzval@[k].v() * (einv[Ai.rowval@[k] as int].v() * dinv[j].v())
}
pub open spec fn unscaled_q(q: Seq<F>, qi: Seq<F>, dinv: Seq<F>, c: F) -> bool {
    q.len() == qi.len() && forall|i: int| 0 <= i < qi.len() ==> (#[trigger] q[i]).v() == qi[i].v() * dinv[i].v() / c.v()
}
pub open spec fn unscaled_b(b: Seq<F>, bi: Seq<F>, einv: Seq<F>) -> bool {
    b.len() == bi.len() && forall|i: int| 0 <= i < bi.len() ==> (#[trigger] b[i]).v() == bi[i].v() * einv[i].v()
}
pub proof fn lemma_mul_recip(x: real, c: real)
    requires c != 0real,
    ensures x * (1real / c) == x / c,
{ assert(x * (1real / c) == x / c) by(nonlinear_arith) requires c != 0real; }

impl DefaultSolver<F> {
//@fn file=src/solver/implementations/default/json.rs in="SolverJSONReadWrite<T> for DefaultSolver<T>" name=save_to_file as=save_to_file_unscale rules=R1 from="let dinv =" to="json_data.b.hadamard(" header="fn save_to_file<T: FloatT>(&self, json_data: &mut JsonProblemData<T>)"
//@contract
    requires
        unscale_shape(*old(json_data), self.data.equilibration),
        // the cost scaling is positive (equilibrate keeps it inside [equilibrate_min_scaling, equilibrate_max_scaling], unit csc_math)
        self.data.equilibration.c.v() > 0real,
    ensures
        // the patterns and all lengths are unchanged
        final(json_data).P.same_pattern(&old(json_data).P), final(json_data).A.same_pattern(&old(json_data).A),
        final(json_data).q@.len() == old(json_data).q@.len(), final(json_data).b@.len() == old(json_data).b@.len(),
        // nothing else is written
        final(json_data).cones == old(json_data).cones, final(json_data).settings == old(json_data).settings,
        // exact, in the float symbols (no arithmetic assumption): which operations are applied to which entry, in which order
        forall|k: int, j: int| #[trigger] old(json_data).P.in_col(k, j) ==> final(json_data).P.nzval@[k] ==
            f_mul(f_mul(old(json_data).P.nzval@[k], f_mul(self.data.equilibration.dinv@[old(json_data).P.rowval@[k] as int], self.data.equilibration.dinv@[j])),
                  f_recip(self.data.equilibration.c)),
        forall|i: int| 0 <= i < old(json_data).q@.len() ==> #[trigger] final(json_data).q@[i] ==
            f_mul(f_mul(old(json_data).q@[i], self.data.equilibration.dinv@[i]), f_recip(self.data.equilibration.c)),
        forall|k: int, j: int| #[trigger] old(json_data).A.in_col(k, j) ==> final(json_data).A.nzval@[k] ==
            f_mul(old(json_data).A.nzval@[k], f_mul(self.data.equilibration.einv@[old(json_data).A.rowval@[k] as int], self.data.equilibration.dinv@[j])),
        forall|i: int| 0 <= i < old(json_data).b@.len() ==> #[trigger] final(json_data).b@[i] == f_mul(old(json_data).b@[i], self.data.equilibration.einv@[i]),
        // C19 (real arithmetic): P_out = Dinv P_int Dinv / c, q_out = Dinv q_int / c, A_out = Einv A_int Dinv, b_out = Einv b_int
        unscaled_p(final(json_data).P, old(json_data).P, self.data.equilibration.dinv@, self.data.equilibration.c),
        unscaled_q(final(json_data).q@, old(json_data).q@, self.data.equilibration.dinv@, self.data.equilibration.c),
        unscaled_a(final(json_data).A, old(json_data).A, self.data.equilibration.einv@, self.data.equilibration.dinv@),
        unscaled_b(final(json_data).b@, old(json_data).b@, self.data.equilibration.einv@),
//@pre
        broadcast use real_arith;
        let ghost P0 = json_data.P; let ghost q0 = json_data.q@;
//@after_stmt 5
        let ghost P1 = json_data.P; let ghost q1 = json_data.q@;
//@after_stmt 7
        proof {
            let cv = c.v();
            assert forall|k: int, j: int| #[trigger] P0.in_col(k, j) implies
                json_data.P.nzval@[k].v() == P0.nzval@[k].v() * (dinv@[P0.rowval@[k] as int].v() * dinv@[j].v()) / cv by {
                assert(P1.nzval@[k] == f_mul(P0.nzval@[k], f_mul(dinv@[P0.rowval@[k] as int], dinv@[j])));
                lemma_mul_recip(P0.nzval@[k].v() * (dinv@[P0.rowval@[k] as int].v() * dinv@[j].v()), cv);
            }
            assert forall|i: int| 0 <= i < q0.len() implies (#[trigger] json_data.q@[i]).v() == q0[i].v() * dinv@[i].v() / cv by {
                assert(q1[i] == f_mul(q0[i], dinv@[i]));
                lemma_mul_recip(q0[i].v() * dinv@[i].v(), cv);
            }
        }
//@end
}

// ------------------------------------------------------------------ settings: sanitise on save, restore / override on load
//@fn file=src/solver/implementations/default/json.rs name=sanitize_settings rules=R1,R1f
//@contract
    ensures
        // +inf cannot be serialised: it is stored as the largest finite value; nothing else is touched
        final(settings).time_limit == (if f_eq(old(settings).time_limit, F::INFINITY) { F::MAX } else { old(settings).time_limit }),
        *final(settings) == (DefaultSettings { time_limit: final(settings).time_limit, ..*old(settings) }),
//@end
//@fn file=src/solver/implementations/default/json.rs name=desanitize_settings rules=R1,R1f
//@contract
    ensures
        final(settings).time_limit == (if f_eq(old(settings).time_limit, F::MAX) { F::INFINITY } else { old(settings).time_limit }),
        *final(settings) == (DefaultSettings { time_limit: final(settings).time_limit, ..*old(settings) }),
//@end
pub open spec fn desanitized(s: DefaultSettings<F>) -> DefaultSettings<F> {
    DefaultSettings { time_limit: if f_eq(s.time_limit, F::MAX) { F::INFINITY } else { s.time_limit }, ..s }
}
//@fn file=src/solver/implementations/default/json.rs in="SolverJSONReadWrite<T> for DefaultSolver<T>" name=load_from_file as=load_from_file_settings rules=R1,R1f ret=r from="desanitize_settings(" to="let settings = settings" header="fn load_from_file<T: FloatT>(mut json_data: JsonProblemData<T>, settings: Option<DefaultSettings<T>>) -> DefaultSettings<T>"
//@contract
    ensures
        // C19: "A settings argument supplied at load time overrides the stored one"; otherwise the stored settings, de-sanitised
        settings matches Some(s) ==> r == s,
        settings is None ==> r == desanitized(json_data.settings),
//@after "let settings = settings"
        settings
//@end

// ------------------------------------------------------------------ composition with `equilibrate` (unit csc_math)
// The four relations below are the ones `equilibrate` ensures (units/csc_math.rs, same text: "the internal data equal
// c*D*P*D, E*A*D, c*D*q, E*b entry for entry" relative to a reference state (X0, d0, e0, c0), written without division).
pub open spec fn rel_a(A: CscMatrix<F>, A0: CscMatrix<F>, e: Seq<F>, e0: Seq<F>, d: Seq<F>, d0: Seq<F>) -> bool {
    forall|k: int, j: int| #[trigger] A0.in_col(k, j) ==>
        A.nzval@[k].v() * (e0[A0.rowval@[k] as int].v() * d0[j].v()) == A0.nzval@[k].v() * (e[A0.rowval@[k] as int].v() * d[j].v())
}
pub open spec fn rel_p(P: CscMatrix<F>, P0: CscMatrix<F>, d: Seq<F>, d0: Seq<F>, c: F, c0: F) -> bool {
    forall|k: int, j: int| #[trigger] P0.in_col(k, j) ==>
        P.nzval@[k].v() * (c0.v() * (d0[P0.rowval@[k] as int].v() * d0[j].v())) == P0.nzval@[k].v() * (c.v() * (d[P0.rowval@[k] as int].v() * d[j].v()))
}
pub open spec fn rel_q(q: Seq<F>, q0: Seq<F>, d: Seq<F>, d0: Seq<F>, c: F, c0: F) -> bool {
    q.len() == q0.len() && forall|j: int| 0 <= j < q0.len() ==> (#[trigger] q[j]).v() * (c0.v() * d0[j].v()) == q0[j].v() * (c.v() * d[j].v())
}
pub open spec fn rel_b(b: Seq<F>, b0: Seq<F>, e: Seq<F>, e0: Seq<F>) -> bool {
    b.len() == b0.len() && forall|i: int| 0 <= i < b0.len() ==> (#[trigger] b[i]).v() * e0[i].v() == b0[i].v() * e[i].v()
}
// inv = 1 / s entry for entry, s positive (equilibrate: `dinv.scalarop_from(T::recip, d)`, scalings inside [min, max] > 0)
pub open spec fn inv_of(inv: Seq<F>, s: Seq<F>) -> bool {
    inv.len() == s.len() && forall|i: int| 0 <= i < s.len() ==> (#[trigger] s[i]).v() > 0real && inv[i].v() == 1real / s[i].v()
}
pub open spec fn all_one(s: Seq<F>) -> bool { forall|i: int| 0 <= i < s.len() ==> (#[trigger] s[i]).v() == 1real }
// x is x0 scaled by s (relative to s0); xo is x un-scaled by w = 1/s  ==>  xo is x0 (relative to s0)
pub proof fn lemma_unscale_core(x: real, x0: real, s0: real, s: real, w: real, xo: real)
    requires x * s0 == x0 * s, w * s == 1real, xo == x * w,
    ensures xo * s0 == x0,
{
    assert((x * w) * s0 == (x * s0) * w) by(nonlinear_arith);
    assert((x0 * s) * w == x0 * (w * s)) by(nonlinear_arith);
}
pub proof fn lemma_inv2(a: real, b: real)
    requires a > 0real, b > 0real,
    ensures ((1real / a) * (1real / b)) * (a * b) == 1real,
{
    assert((1real / a) * a == 1real) by(nonlinear_arith) requires a > 0real;
    assert((1real / b) * b == 1real) by(nonlinear_arith) requires b > 0real;
    let ia = 1real / a; let ib = 1real / b;
    assert((ia * ib) * (a * b) == (ia * a) * (ib * b)) by(nonlinear_arith);
}
pub proof fn lemma_inv_c(w: real, s: real, c: real)
    requires w * s == 1real, c > 0real,
    ensures (w / c) * (c * s) == 1real,
{
    assert((w / c) * c == w) by(nonlinear_arith) requires c > 0real;
    let wc = w / c;
    assert(wc * (c * s) == (wc * c) * s) by(nonlinear_arith);
}
pub proof fn lemma_div_assoc(x: real, w: real, c: real)
    requires c > 0real,
    ensures x * w / c == x * (w / c),
{
    assert((x * w) / c == x * (w / c)) by(nonlinear_arith) requires c > 0real;
}

// C19: "loaded data (P, q, A, b) equal the user's originals": un-scaling (contract of save_to_file_unscale) composed with the
// scaling relations `equilibrate` ensures gives back the reference data X0 (relative to the reference scalings d0, e0, c0;
// DefaultEquilibrationData::new starts from d0 = e0 = 1, c0 = 1: then P_out = P0, q_out = q0, A_out = A0, b_out = b0).
pub proof fn lemma_save_restores_user_data(
    Po: CscMatrix<F>, Pi: CscMatrix<F>, P0: CscMatrix<F>, qo: Seq<F>, qi: Seq<F>, q0: Seq<F>,
    Ao: CscMatrix<F>, Ai: CscMatrix<F>, A0: CscMatrix<F>, bo: Seq<F>, bi: Seq<F>, b0: Seq<F>,
    eq: DefaultEquilibrationData<F>, d0: Seq<F>, e0: Seq<F>, c0: F)
    requires
        // ensured by equilibrate (unit csc_math), Pi, qi, Ai, bi = the internal data
        Pi.same_pattern(&P0), Ai.same_pattern(&A0),
        rel_a(Ai, A0, eq.e@, e0, eq.d@, d0), rel_p(Pi, P0, eq.d@, d0, eq.c, c0), rel_q(qi, q0, eq.d@, d0, eq.c, c0), rel_b(bi, b0, eq.e@, e0),
        // ensured by save_to_file_unscale above, started on a copy of the internal data
        unscaled_p(Po, Pi, eq.dinv@, eq.c), unscaled_q(qo, qi, eq.dinv@, eq.c), unscaled_a(Ao, Ai, eq.einv@, eq.dinv@), unscaled_b(bo, bi, eq.einv@),
        // the stored inverses are the inverses, all scalings positive
        inv_of(eq.dinv@, eq.d@), inv_of(eq.einv@, eq.e@), eq.c.v() > 0real,
        // dimensions (DefaultProblemData::new)
        P0.n == eq.d@.len(), A0.n == eq.d@.len(), rows_below(P0, eq.d@.len() as int), rows_below(A0, eq.e@.len() as int),
        P0.colptr_ok(), A0.colptr_ok(), q0.len() == eq.d@.len(), b0.len() == eq.e@.len(), d0.len() == eq.d@.len(), e0.len() == eq.e@.len(),
    ensures
        forall|k: int, j: int| #[trigger] P0.in_col(k, j) ==> Po.nzval@[k].v() * (c0.v() * (d0[P0.rowval@[k] as int].v() * d0[j].v())) == P0.nzval@[k].v(),
        forall|j: int| 0 <= j < q0.len() ==> (#[trigger] qo[j]).v() * (c0.v() * d0[j].v()) == q0[j].v(),
        forall|k: int, j: int| #[trigger] A0.in_col(k, j) ==> Ao.nzval@[k].v() * (e0[A0.rowval@[k] as int].v() * d0[j].v()) == A0.nzval@[k].v(),
        forall|i: int| 0 <= i < b0.len() ==> (#[trigger] bo[i]).v() * e0[i].v() == b0[i].v(),
        qo.len() == q0.len(), bo.len() == b0.len(),
        // from the constructor's unit scalings: exactly the user's data
        all_one(d0) && all_one(e0) && c0.v() == 1real ==> {
            &&& forall|k: int, j: int| #[trigger] P0.in_col(k, j) ==> Po.nzval@[k].v() == P0.nzval@[k].v()
            &&& forall|j: int| 0 <= j < q0.len() ==> (#[trigger] qo[j]).v() == q0[j].v()
            &&& forall|k: int, j: int| #[trigger] A0.in_col(k, j) ==> Ao.nzval@[k].v() == A0.nzval@[k].v()
            &&& forall|i: int| 0 <= i < b0.len() ==> (#[trigger] bo[i]).v() == b0[i].v()
        },
{
    let d = eq.d@; let e = eq.e@; let di = eq.dinv@; let ei = eq.einv@; let c = eq.c.v();
    assert forall|k: int, j: int| #[trigger] P0.in_col(k, j) implies Po.nzval@[k].v() * (c0.v() * (d0[P0.rowval@[k] as int].v() * d0[j].v())) == P0.nzval@[k].v() by {
        let r = P0.rowval@[k] as int;
        assert(P0.colptr@[j + 1] <= P0.colptr@[P0.n as int]);
        assert(Pi.in_col(k, j));
        let w = di[r].v() * di[j].v();
        lemma_inv2(d[r].v(), d[j].v());
        lemma_inv_c(w, d[r].v() * d[j].v(), c);
        lemma_div_assoc(Pi.nzval@[k].v(), w, c);
        lemma_unscale_core(Pi.nzval@[k].v(), P0.nzval@[k].v(), c0.v() * (d0[r].v() * d0[j].v()), c * (d[r].v() * d[j].v()), w / c, Po.nzval@[k].v());
    }
    assert forall|j: int| 0 <= j < q0.len() implies (#[trigger] qo[j]).v() * (c0.v() * d0[j].v()) == q0[j].v() by {
        let w = di[j].v();
        assert(w * d[j].v() == 1real) by(nonlinear_arith) requires d[j].v() > 0real, w == 1real / d[j].v();
        lemma_inv_c(w, d[j].v(), c);
        lemma_div_assoc(qi[j].v(), w, c);
        lemma_unscale_core(qi[j].v(), q0[j].v(), c0.v() * d0[j].v(), c * d[j].v(), w / c, qo[j].v());
    }
    assert forall|k: int, j: int| #[trigger] A0.in_col(k, j) implies Ao.nzval@[k].v() * (e0[A0.rowval@[k] as int].v() * d0[j].v()) == A0.nzval@[k].v() by {
        let r = A0.rowval@[k] as int;
        assert(A0.colptr@[j + 1] <= A0.colptr@[A0.n as int]);
        assert(Ai.in_col(k, j));
        lemma_inv2(e[r].v(), d[j].v());
        lemma_unscale_core(Ai.nzval@[k].v(), A0.nzval@[k].v(), e0[r].v() * d0[j].v(), e[r].v() * d[j].v(), ei[r].v() * di[j].v(), Ao.nzval@[k].v());
    }
    assert forall|i: int| 0 <= i < b0.len() implies (#[trigger] bo[i]).v() * e0[i].v() == b0[i].v() by {
        let w = ei[i].v();
        assert(w * e[i].v() == 1real) by(nonlinear_arith) requires e[i].v() > 0real, w == 1real / e[i].v();
        lemma_unscale_core(bi[i].v(), b0[i].v(), e0[i].v(), e[i].v(), w, bo[i].v());
    }
    if all_one(d0) && all_one(e0) && c0.v() == 1real {
        assert forall|k: int, j: int| #[trigger] P0.in_col(k, j) implies Po.nzval@[k].v() == P0.nzval@[k].v() by {
            assert(P0.colptr@[j + 1] <= P0.colptr@[P0.n as int]);
            let x = Po.nzval@[k].v();
            assert(x * (1real * (1real * 1real)) == x) by(nonlinear_arith);
        }
        assert forall|j: int| 0 <= j < q0.len() implies (#[trigger] qo[j]).v() == q0[j].v() by {
            let x = qo[j].v();
            assert(x * (1real * 1real) == x) by(nonlinear_arith);
        }
        assert forall|k: int, j: int| #[trigger] A0.in_col(k, j) implies Ao.nzval@[k].v() == A0.nzval@[k].v() by {
            assert(A0.colptr@[j + 1] <= A0.colptr@[A0.n as int]);
            let x = Ao.nzval@[k].v();
            assert(x * (1real * 1real) == x) by(nonlinear_arith);
        }
        assert forall|i: int| 0 <= i < b0.len() implies (#[trigger] bo[i]).v() == b0[i].v() by {
            let x = bo[i].v();
            assert(x * 1real == x) by(nonlinear_arith);
        }
    }
}
} // verus!
fn main() {}
