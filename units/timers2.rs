// unit `timers2` : the `SubTimersMap` / `Timers` layer of src/timers/timers.rs (C04: the solve time that the time-limit test reads is
// `timers.total_time()`; unit `solve` ASSUMES that `suspend()` folds the running time of the active timers into that total and that
// start_as_current / stop_current / resume never lose accumulated time).  Unit `timers` proves `impl InnerTimer`; this unit proves the
// two layers above it from the real text and, as lemmas over the proved contracts, what unit `solve` assumes.
//
// PROVED (real text):
//   SubTimersMap::{reset_subtimer, start_subtimer, stop_subtimer}  exactly the timer under `key` changes (it is created first by the two
//       entry().or_default() functions), by InnerTimer::reset / start / stop; every other key keeps its timer;
//   SubTimersMap::{suspend, resume}  (rule valuesmut)  EVERY timer of the map gets InnerTimer::suspend / resume, the key set is unchanged;
//   SubTimersMap::total_time  (rule R24)  = the sum of `elapsed()` over the timers of the map (`msum`, independent of the iteration order:
//       lemma_perm);
//   Timers::mut_active_timer  walks the name stack: None iff the stack is empty, no `unwrap` panics for a valid stack (`path_ok`), the
//       result is the timer addressed by the whole stack (`at_path`), and a change made through the returned reference changes exactly
//       that timer: all timers above it keep start / elapsed and every other key at every level (`tupd`; prophetic loop invariant);
//   Timers::{reset_timer, start_as_current, stop_current, suspend, resume, total_time}:
//       start_as_current  the new timer is started below the active one (or at the root), the name is pushed, the stack stays valid and
//                         all timers on it are running; total_time() is unchanged;
//       stop_current      stops the timer addressed by the stack (requires a valid, running, non-empty stack), pops; total_time() does
//                         not decrease: it grows by the running interval when the stopped timer is a top-level one and is unchanged otherwise;
//       suspend / resume  forward to every top-level timer; stack unchanged.
//   LEMMAS over these contracts (what unit `solve` assumes of `Timers`):
//       lemma_suspend_folds        after suspend():  total' = total + SUM over the top-level timers of (time since the mark, if running),
//                                  hence total' >= total + since(mark of k) for EVERY running top-level timer k, and total' >= total;
//       lemma_resume_keeps         resume() leaves the total alone;   start_as_current / stop_current: in their contracts (never decreases).
// ASSUMED (hand-written stand-ins, = the std documentation):
//   * Duration / Instant as in unit `timers` (Duration = a natural number of nanoseconds: `+` cannot overflow in the model, std panics);
//   * HashMap<&'static str, InnerTimer>: ghost view Map<Seq<char>, InnerTimer> (keys compared by content, as Hash / Eq of str do);
//       entry(k).or_default() = "inserts the default value if empty, returns a mutable reference to the value in the entry" (struct Entry);
//       get_mut; key_list (rule valuesmut: every key exactly once, arbitrary order); values(): every value exactly once in an order
//       `values_keys` that is a function of the (unmodified) map object; derived `InnerTimer::default()` = (None, ZERO, empty map);
//   * auto-deref `SubTimersMap -> HashMap` (`impl Deref / DerefMut`: bodies `&self.0` / `&mut self.0`): written out as the forwarding
//       methods SubTimersMap::{entry, get_mut, key_list, values} (hand-written bodies `self.0.f(..)`, verified);
//   * InnerTimer::{reset, start, stop, suspend, resume, elapsed}: the contracts PROVED in unit `timers` (same text), declared here
//       without bodies because `InnerTimer::suspend <-> SubTimersMap::suspend` is a recursion over the ownership tree for which Verus
//       would need a termination measure.  Consequently everything here is ONE LEVEL deep: that suspend / resume keep the shape of the
//       tree BELOW the top-level timers (so that the name stack stays valid across a suspend / resume pair) is NOT proved.
// MUTATION ROUND (scratch copy, 18 wrong edits: suspend only the first / only the active timer, resume suspending, stop_current without
//   the pop / resetting, total_time last / doubled / zero, skip(2), walk started at the last name, child started at the root, no push,
//   reset_subtimer starting, start_subtimer resetting, ...): 18 fail the obligation of the edited function, 0 survivors.
// DROPPED: print (both), the macros timeit! / notimeit! (their expansions are in the verified text of unit `solve`, rule R7t).
use vstd::prelude::*;
use vstd::std_specs::iter::IteratorSpec;
verus! {

// ---- stand-ins for std::time (as in unit timers) ----
#[derive(Clone, Copy)]
pub struct Duration { pub _n: u64 }
pub uninterp spec fn dv(d: Duration) -> nat;
impl Duration {
    pub open spec fn v(&self) -> nat { dv(*self) }
    pub const ZERO: Duration = Duration { _n: 0 };
}
pub uninterp spec fn dur_of(n: nat) -> Duration;
pub broadcast proof fn ax_dur_of(n: nat) ensures #[trigger] dv(dur_of(n)) == n { admit(); }
pub broadcast proof fn ax_dur_zero() ensures #[trigger] dv(Duration::ZERO) == 0 { admit(); }
impl vstd::std_specs::ops::AddSpecImpl<Duration> for Duration {
    open spec fn obeys_add_spec() -> bool { true }
    open spec fn add_req(self, rhs: Duration) -> bool { true }
    open spec fn add_spec(self, rhs: Duration) -> Duration { dur_of(self.v() + rhs.v()) }
}
impl core::ops::Add for Duration { type Output = Duration; #[verifier::external_body] fn add(self, rhs: Duration) -> Duration { unimplemented!() } }
#[derive(Clone, Copy)]
pub struct Instant { pub _p: u64 }
pub uninterp spec fn since(i: Instant) -> nat;

// ---- stand-in for std::collections::HashMap<&'static str, InnerTimer> ----
pub type Key = Seq<char>;
pub type TM = Map<Key, InnerTimer>;
#[verifier::external_body]
#[verifier::reject_recursive_types(K)]
#[verifier::accept_recursive_types(V)]
pub struct HashMap<K, V> { _p: core::marker::PhantomData<(K, V)> }
pub type HMap = HashMap<&'static str, InnerTimer>;
impl View for HMap { type V = TM; uninterp spec fn view(&self) -> TM; }
// the order in which values() visits an (unmodified) map object
pub uninterp spec fn values_keys(m: &HMap) -> Seq<Key>;
pub struct Entry<'a> { pub m: &'a mut HMap, pub key: &'static str }
pub open spec fn is_default(t: InnerTimer) -> bool { t.start is None && t.elapsed.v() == 0 && t.subtimers.0@ == Map::<Key, InnerTimer>::empty() }
// ks lists every key of m exactly once
pub open spec fn enumerates(ks: Seq<Key>, m: TM) -> bool { ks.no_duplicates() && forall|k: Key| #![auto] ks.contains(k) <==> m.contains_key(k) }
pub open spec fn keyviews(v: Seq<&'static str>) -> Seq<Key> { Seq::new(v.len(), |i: int| v[i]@) }
impl HashMap<&'static str, InnerTimer> {
    #[verifier::external_body] pub fn entry(&mut self, key: &'static str) -> (r: Entry<'_>)
        ensures *r.m == *old(self), r.key == key, *final(self) == *final(r.m)
    { unimplemented!() }
    #[verifier::external_body] pub fn get_mut(&mut self, k: &str) -> (r: Option<&mut InnerTimer>)
        ensures match r {
            Some(v) => old(self)@.contains_key(k@) && *v == old(self)@[k@] && final(self)@ == old(self)@.insert(k@, *final(v)),
            None => !old(self)@.contains_key(k@) && final(self)@ == old(self)@ },
    { unimplemented!() }
    #[verifier::external_body] pub fn key_list(&self) -> (r: Vec<&'static str>)
        ensures enumerates(keyviews(r@), self@),
    { unimplemented!() }
    #[verifier::external_body] pub fn values(&self) -> (r: std::slice::Iter<'_, InnerTimer>)
        ensures enumerates(values_keys(self), self@), r.remaining().len() == values_keys(self).len(),
            forall|i: int| 0 <= i < values_keys(self).len() ==> *(#[trigger] r.remaining()[i]) == self@[values_keys(self)[i]],
            vstd::std_specs::slice::into_iter_elts(r) == r.remaining().unref(), r.decrease() is Some,
    { unimplemented!() }
}
impl<'a> Entry<'a> {
    #[verifier::external_body] pub fn or_default(self) -> (r: &'a mut InnerTimer)
        ensures final(self.m)@ == old(self.m)@.insert(self.key@, *final(r)),
            old(self.m)@.contains_key(self.key@) ==> *r == old(self.m)@[self.key@],
            !old(self.m)@.contains_key(self.key@) ==> is_default(*r),
    { unimplemented!() }
}

//@struct file=src/timers/timers.rs name=InnerTimer rules=R12
// (tuple struct: the extractor slices brace structs only; this line is the real declaration plus `pub`)
pub struct SubTimersMap(pub HashMap<&'static str, InnerTimer>);
//@struct file=src/timers/timers.rs name=Timers rules=R12

// ---- InnerTimer: contracts PROVED in unit `timers` (declared here, see header) ----
pub open spec fn rel_reset(t0: InnerTimer, t1: InnerTimer) -> bool { !t1.running() && t1.total() == 0 }
pub open spec fn rel_start(t0: InnerTimer, t1: InnerTimer) -> bool { t1.running() && t1.total() == t0.total() }
pub open spec fn rel_stop(t0: InnerTimer, t1: InnerTimer) -> bool {
    !t1.running() && t1.total() == t0.total() + since(t0.start->Some_0) && t1.total() >= t0.total()
}
pub open spec fn rel_suspend(t0: InnerTimer, t1: InnerTimer) -> bool {
    &&& t0.running() ==> t1.total() == t0.total() + since(t0.start->Some_0) && t1.start == t0.start
    &&& !t0.running() ==> t1.total() == t0.total() && !t1.running()
    &&& t1.total() >= t0.total()
}
pub open spec fn rel_resume(t0: InnerTimer, t1: InnerTimer) -> bool { t1.running() == t0.running() && t1.total() == t0.total() }
impl InnerTimer {
    pub open spec fn total(&self) -> nat { self.elapsed.v() }
    pub open spec fn running(&self) -> bool { self.start is Some }
    #[verifier::external_body] pub fn reset(&mut self) ensures rel_reset(*old(self), *final(self)) { unimplemented!() }
    #[verifier::external_body] pub fn start(&mut self) ensures rel_start(*old(self), *final(self)) { unimplemented!() }
    #[verifier::external_body] pub fn stop(&mut self) requires old(self).running(), ensures rel_stop(*old(self), *final(self)) { unimplemented!() }
    #[verifier::external_body] pub fn suspend(&mut self) ensures rel_suspend(*old(self), *final(self)) { unimplemented!() }
    #[verifier::external_body] pub fn resume(&mut self) ensures rel_resume(*old(self), *final(self)) { unimplemented!() }
    #[verifier::external_body] pub fn elapsed(&self) -> (r: Duration) ensures r.v() == self.total() { unimplemented!() }
}

// ------------------------------------------------------------------ specification
// time a timer has accumulated / time a running timer has not yet folded in
pub open spec fn f_total() -> spec_fn(InnerTimer) -> nat { |t: InnerTimer| t.total() }
pub open spec fn f_pending() -> spec_fn(InnerTimer) -> nat { |t: InnerTimer| if t.running() { since(t.start->Some_0) } else { 0nat } }
// sum of f over the timers of m listed by ks
pub open spec fn ksum(m: TM, ks: Seq<Key>, f: spec_fn(InnerTimer) -> nat) -> nat decreases ks.len() {
    if ks.len() == 0 { 0 } else { ksum(m, ks.drop_last(), f) + f(m[ks.last()]) }
}
pub open spec fn fin(m: TM) -> bool { exists|ks: Seq<Key>| enumerates(ks, m) }
// sum of f over all timers of the (finite) map: order-independent by lemma_perm
pub open spec fn msum(m: TM, f: spec_fn(InnerTimer) -> nat) -> nat { ksum(m, choose|ks: Seq<Key>| enumerates(ks, m), f) }
pub open spec fn in_pre(ks: Seq<Key>, i: int, k: Key) -> bool { exists|j: int| 0 <= j < i && j < ks.len() && ks[j] == k }

pub proof fn lemma_ksum_agree(m1: TM, m2: TM, ks: Seq<Key>, f: spec_fn(InnerTimer) -> nat)
    requires forall|i: int| 0 <= i < ks.len() ==> f(m1[#[trigger] ks[i]]) == f(m2[ks[i]]),
    ensures ksum(m1, ks, f) == ksum(m2, ks, f),
    decreases ks.len(),
{
    if ks.len() > 0 {
        let d = ks.drop_last();
        assert forall|i: int| 0 <= i < d.len() implies f(m1[#[trigger] d[i]]) == f(m2[d[i]]) by { assert(d[i] == ks[i]); }
        lemma_ksum_agree(m1, m2, d, f);
        assert(ks.last() == ks[ks.len() - 1]);
    }
}
pub proof fn lemma_ksum_remove(m: TM, ks: Seq<Key>, j: int, f: spec_fn(InnerTimer) -> nat)
    requires 0 <= j < ks.len(),
    ensures ksum(m, ks, f) == ksum(m, ks.remove(j), f) + f(m[ks[j]]),
    decreases ks.len(),
{
    if j == ks.len() - 1 {
        assert(ks.remove(j) =~= ks.drop_last());
    } else {
        let d = ks.drop_last();
        lemma_ksum_remove(m, d, j, f);
        assert(ks.remove(j).drop_last() =~= d.remove(j));
        assert(ks.remove(j).last() == ks.last());
        assert(d[j] == ks[j]);
    }
}
pub proof fn lemma_perm(m: TM, a: Seq<Key>, b: Seq<Key>, f: spec_fn(InnerTimer) -> nat)
    requires enumerates(a, m), enumerates(b, m),
    ensures ksum(m, a, f) == ksum(m, b, f),
    decreases a.len(),
{
    if a.len() == 0 {
        if b.len() > 0 { assert(b.contains(b[0])); assert(a.contains(b[0])); }
    } else {
        let k = a.last();
        assert(a.contains(k)) by { assert(a[a.len() - 1] == k); }
        assert(b.contains(k));
        let j = choose|j: int| 0 <= j < b.len() && b[j] == k;
        let a2 = a.drop_last();
        let b2 = b.remove(j);
        let m2 = m.remove(k);
        assert(enumerates(a2, m2)) by {
            assert forall|x: Key| #![auto] a2.contains(x) <==> m2.contains_key(x) by {
                if a2.contains(x) { let i = choose|i: int| 0 <= i < a2.len() && a2[i] == x; assert(a[i] == x); assert(a.contains(x)); assert(x != k) by { if x == k { assert(a[i] == a[a.len() - 1]); } } }
                if m2.contains_key(x) { assert(a.contains(x)); let i = choose|i: int| 0 <= i < a.len() && a[i] == x; assert(i < a.len() - 1); assert(a2[i] == x); }
            }
            assert forall|i: int, l: int| 0 <= i < a2.len() && 0 <= l < a2.len() && i != l implies a2[i] != a2[l] by { assert(a2[i] == a[i] && a2[l] == a[l]); }
        }
        assert(enumerates(b2, m2)) by {
            assert forall|x: Key| #![auto] b2.contains(x) <==> m2.contains_key(x) by {
                if b2.contains(x) {
                    let i = choose|i: int| 0 <= i < b2.len() && b2[i] == x;
                    let i0 = if i < j { i } else { i + 1 };
                    assert(b[i0] == x); assert(b.contains(x)); assert(x != k) by { if x == k { assert(b[i0] == b[j]); } }
                }
                if m2.contains_key(x) {
                    assert(b.contains(x)); let i = choose|i: int| 0 <= i < b.len() && b[i] == x; assert(i != j);
                    let i2 = if i < j { i } else { i - 1 };
                    assert(b2[i2] == x);
                }
            }
            assert forall|i: int, l: int| 0 <= i < b2.len() && 0 <= l < b2.len() && i != l implies b2[i] != b2[l] by {
                let i0 = if i < j { i } else { i + 1 }; let l0 = if l < j { l } else { l + 1 };
                assert(b2[i] == b[i0] && b2[l] == b[l0]);
            }
        }
        lemma_perm(m2, a2, b2, f);
        assert forall|i: int| 0 <= i < a2.len() implies f(m2[#[trigger] a2[i]]) == f(m[a2[i]]) by { assert(a2[i] == a[i]); assert(a[i] != a[a.len() - 1]); }
        lemma_ksum_agree(m2, m, a2, f);
        assert forall|i: int| 0 <= i < b2.len() implies f(m2[#[trigger] b2[i]]) == f(m[b2[i]]) by {
            let i0 = if i < j { i } else { i + 1 }; assert(b2[i] == b[i0]); assert(b[i0] != b[j]);
        }
        lemma_ksum_agree(m2, m, b2, f);
        lemma_ksum_remove(m, b, j, f);
    }
}
pub proof fn lemma_msum(m: TM, ks: Seq<Key>, f: spec_fn(InnerTimer) -> nat)
    requires enumerates(ks, m),
    ensures msum(m, f) == ksum(m, ks, f), fin(m),
{
    let c = choose|c: Seq<Key>| enumerates(c, m);
    lemma_perm(m, c, ks, f);
}
// two maps with the same keys: msum of the differences
pub proof fn lemma_ksum_pointwise(m0: TM, m1: TM, ks: Seq<Key>, f: spec_fn(InnerTimer) -> nat, g: spec_fn(InnerTimer) -> nat, h: spec_fn(InnerTimer) -> nat)
    requires forall|i: int| 0 <= i < ks.len() ==> f(m1[#[trigger] ks[i]]) == g(m0[ks[i]]) + h(m0[ks[i]]),
    ensures ksum(m1, ks, f) == ksum(m0, ks, g) + ksum(m0, ks, h),
    decreases ks.len(),
{
    if ks.len() > 0 {
        let d = ks.drop_last();
        assert forall|i: int| 0 <= i < d.len() implies f(m1[#[trigger] d[i]]) == g(m0[d[i]]) + h(m0[d[i]]) by { assert(d[i] == ks[i]); }
        lemma_ksum_pointwise(m0, m1, d, f, g, h);
        assert(ks.last() == ks[ks.len() - 1]);
    }
}
pub proof fn lemma_ksum_ge_member(m: TM, ks: Seq<Key>, j: int, f: spec_fn(InnerTimer) -> nat)
    requires 0 <= j < ks.len(),
    ensures ksum(m, ks, f) >= f(m[ks[j]]),
{
    lemma_ksum_remove(m, ks, j, f);
}
// replacing / adding the timer under one key
pub proof fn lemma_msum_insert(m: TM, k: Key, t: InnerTimer, f: spec_fn(InnerTimer) -> nat)
    requires fin(m),
    ensures fin(m.insert(k, t)),
        m.contains_key(k) ==> msum(m.insert(k, t), f) + f(m[k]) == msum(m, f) + f(t),
        !m.contains_key(k) ==> msum(m.insert(k, t), f) == msum(m, f) + f(t),
{
    let ks = choose|ks: Seq<Key>| enumerates(ks, m);
    let m2 = m.insert(k, t);
    if m.contains_key(k) {
        assert(ks.contains(k));
        let j = choose|j: int| 0 <= j < ks.len() && ks[j] == k;
        assert(enumerates(ks, m2));
        lemma_msum(m2, ks, f);
        lemma_msum(m, ks, f);
        lemma_ksum_remove(m, ks, j, f);
        lemma_ksum_remove(m2, ks, j, f);
        let r = ks.remove(j);
        assert forall|i: int| 0 <= i < r.len() implies f(m[#[trigger] r[i]]) == f(m2[r[i]]) by {
            let i0 = if i < j { i } else { i + 1 }; assert(r[i] == ks[i0]); assert(ks[i0] != ks[j]);
        }
        lemma_ksum_agree(m, m2, r, f);
    } else {
        let k2 = ks.push(k);
        assert(!ks.contains(k));
        assert(enumerates(k2, m2)) by {
            assert forall|x: Key| #![auto] k2.contains(x) <==> m2.contains_key(x) by {
                if k2.contains(x) { let i = choose|i: int| 0 <= i < k2.len() && k2[i] == x; if i < ks.len() { assert(ks[i] == x); assert(ks.contains(x)); } }
                if m2.contains_key(x) { if x == k { assert(k2[ks.len() as int] == x); } else { assert(ks.contains(x)); let i = choose|i: int| 0 <= i < ks.len() && ks[i] == x; assert(k2[i] == x); } }
            }
            assert forall|i: int, l: int| 0 <= i < k2.len() && 0 <= l < k2.len() && i != l implies k2[i] != k2[l] by {
                if i < ks.len() { assert(ks.contains(ks[i])); }
                if l < ks.len() { assert(ks.contains(ks[l])); }
            }
        }
        lemma_msum(m2, k2, f);
        lemma_msum(m, ks, f);
        assert(k2.drop_last() =~= ks);
        assert forall|i: int| 0 <= i < ks.len() implies f(m[#[trigger] ks[i]]) == f(m2[ks[i]]) by { assert(ks.contains(ks[i])); }
        lemma_ksum_agree(m, m2, ks, f);
    }
}

// ---- the name stack ----
// the stack st[i..] is a valid path below the map m, and every timer on it is running
pub open spec fn path_ok(m: TM, st: Seq<&'static str>, i: int) -> bool decreases st.len() - i {
    if i >= st.len() { true } else { m.contains_key(st[i]@) && m[st[i]@].running() && path_ok(m[st[i]@].subtimers.0@, st, i + 1) }
}
// the timer addressed by st[i..n) below the map m   (i < n)
pub open spec fn at_path(m: TM, st: Seq<&'static str>, i: int, n: int) -> InnerTimer decreases n - i {
    if i + 1 >= n { m[st[i]@] } else { at_path(m[st[i]@].subtimers.0@, st, i + 1, n) }
}
// t1 is t0 with the timer addressed by st(i+1..=j) below it changed from c0 to c1 and nothing else (t0 itself is addressed by st[..=i])
pub open spec fn tupd(t0: InnerTimer, t1: InnerTimer, st: Seq<&'static str>, i: int, j: int, c0: InnerTimer, c1: InnerTimer) -> bool decreases j - i {
    if i >= j { t0 == c0 && t1 == c1 } else {
        let k = st[i + 1]@;
        &&& t1.start == t0.start && t1.elapsed == t0.elapsed
        &&& t0.subtimers.0@.contains_key(k) && t1.subtimers.0@.contains_key(k)
        &&& t1.subtimers.0@ == t0.subtimers.0@.insert(k, t1.subtimers.0@[k])
        &&& tupd(t0.subtimers.0@[k], t1.subtimers.0@[k], st, i + 1, j, c0, c1)
    }
}
// one more level at the deep end
pub proof fn lemma_tupd_extend(t0: InnerTimer, t1: InnerTimer, st: Seq<&'static str>, i: int, j: int, c0: InnerTimer, c1: InnerTimer, d0: InnerTimer, d1: InnerTimer)
    requires i <= j, tupd(t0, t1, st, i, j, c0, c1), tupd(c0, c1, st, j, j + 1, d0, d1),
    ensures tupd(t0, t1, st, i, j + 1, d0, d1),
    decreases j - i,
{
    if i < j {
        let k = st[i + 1]@;
        lemma_tupd_extend(t0.subtimers.0@[k], t1.subtimers.0@[k], st, i + 1, j, c0, c1, d0, d1);
    }
}
// a change at the end of a valid running path: the timers ABOVE the changed one keep the path valid up to it
pub proof fn lemma_tupd_path(t0: InnerTimer, t1: InnerTimer, st: Seq<&'static str>, i: int, j: int, c0: InnerTimer, c1: InnerTimer, st2: Seq<&'static str>)
    requires 0 <= i <= j < st.len(), tupd(t0, t1, st, i, j, c0, c1), path_ok(t0.subtimers.0@, st, i + 1),
        // st2 = st[..=j] without its last name (pop), as it is, or with one more name (push)
        j <= st2.len() <= j + 2, forall|l: int| 0 <= l <= j && l < st2.len() ==> st2[l] == st[l],
        // the changed timer keeps running / gets the new last name as a running child
        st2.len() >= j + 1 && c0.running() ==> c1.running(),
        st2.len() == j + 2 ==> c1.subtimers.0@.contains_key(st2[j + 1]@) && c1.subtimers.0@[st2[j + 1]@].running(),
    ensures path_ok(t1.subtimers.0@, st2, i + 1), at_path_rel(t0, st, i, j, c0),
        i < j ==> t1.start == t0.start && t1.elapsed == t0.elapsed, i == j ==> t1 == c1 && t0 == c0,
    decreases j - i,
{
    if i < j {
        let k = st[i + 1]@;
        lemma_tupd_path(t0.subtimers.0@[k], t1.subtimers.0@[k], st, i + 1, j, c0, c1, st2);
        assert(t0.subtimers.0@[k].running());
        if st2.len() >= i + 2 { assert(t1.subtimers.0@[k].running()); }
    } else {
        if st2.len() == j + 2 { assert(path_ok(c1.subtimers.0@[st2[j + 1]@].subtimers.0@, st2, j + 2)); }
    }
}
// (c0 is the timer addressed by st[..=j] when t0 is the one addressed by st[..=i])
pub open spec fn at_path_rel(t0: InnerTimer, st: Seq<&'static str>, i: int, j: int, c0: InnerTimer) -> bool {
    if i >= j { t0 == c0 } else { at_path(t0.subtimers.0@, st, i + 1, j + 1) == c0 }
}
// the path without its last name
pub proof fn lemma_path_prefix(m: TM, st: Seq<&'static str>, st2: Seq<&'static str>, i: int)
    requires path_ok(m, st, i), 0 <= i, st2.len() <= st.len(), forall|l: int| 0 <= l < st2.len() ==> st2[l] == st[l],
    ensures path_ok(m, st2, i),
    decreases st.len() - i,
{
    if i < st2.len() { lemma_path_prefix(m[st[i]@].subtimers.0@, st, st2, i + 1); }
}

impl SubTimersMap {
    // ---- auto-deref to the HashMap, written out (Deref / DerefMut: `&self.0` / `&mut self.0`) ----
    pub fn entry(&mut self, key: &'static str) -> (r: Entry<'_>)
        ensures *r.m == old(self).0, r.key == key, final(self).0 == *final(r.m)
    { self.0.entry(key) }
    pub fn get_mut(&mut self, k: &str) -> (r: Option<&mut InnerTimer>)
        ensures match r {
            Some(v) => old(self).0@.contains_key(k@) && *v == old(self).0@[k@] && final(self).0@ == old(self).0@.insert(k@, *final(v)),
            None => !old(self).0@.contains_key(k@) && final(self).0@ == old(self).0@ },
    { self.0.get_mut(k) }
    pub fn key_list(&self) -> (r: Vec<&'static str>)
        ensures enumerates(keyviews(r@), self.0@),
    { self.0.key_list() }
    pub fn values(&self) -> (r: std::slice::Iter<'_, InnerTimer>)
        ensures enumerates(values_keys(&self.0), self.0@), r.remaining().len() == values_keys(&self.0).len(),
            forall|i: int| 0 <= i < values_keys(&self.0).len() ==> *(#[trigger] r.remaining()[i]) == self.0@[values_keys(&self.0)[i]],
            vstd::std_specs::slice::into_iter_elts(r) == r.remaining().unref(), r.decrease() is Some,
    { self.0.values() }

    pub open spec fn m(&self) -> TM { self.0@ }
    // exactly the timer under `key` changes (created if absent), by the relation rel
    pub open spec fn one_changed(m0: TM, m1: TM, key: Key, rel: spec_fn(InnerTimer, InnerTimer) -> bool) -> bool {
        &&& m1.contains_key(key) && m1 == m0.insert(key, m1[key])
        &&& m0.contains_key(key) ==> rel(m0[key], m1[key])
        &&& !m0.contains_key(key) ==> exists|d: InnerTimer| is_default(d) && rel(d, m1[key])
    }
    // every timer changes by the relation rel, same keys
    pub open spec fn all_changed(m0: TM, m1: TM, rel: spec_fn(InnerTimer, InnerTimer) -> bool) -> bool {
        &&& m1.dom() == m0.dom()
        &&& forall|k: Key| m0.contains_key(k) ==> rel(m0[k], #[trigger] m1[k])
    }

//@fn file=src/timers/timers.rs in="impl SubTimersMap" name=reset_subtimer
//@contract
    ensures Self::one_changed(old(self).m(), final(self).m(), key@, |a: InnerTimer, b: InnerTimer| rel_reset(a, b)),
//@end
//@fn file=src/timers/timers.rs in="impl SubTimersMap" name=start_subtimer
//@contract
    ensures Self::one_changed(old(self).m(), final(self).m(), key@, |a: InnerTimer, b: InnerTimer| rel_start(a, b)),
//@end
//@fn file=src/timers/timers.rs in="impl SubTimersMap" name=stop_subtimer rules=R12
//@contract
    requires old(self).m().contains_key(key@), old(self).m()[key@].running(),
    ensures Self::one_changed(old(self).m(), final(self).m(), key@, |a: InnerTimer, b: InnerTimer| rel_stop(a, b)),
//@end
//@fn file=src/timers/timers.rs in="impl SubTimersMap" name=suspend rules=valuesmut
//@contract
    ensures Self::all_changed(old(self).m(), final(self).m(), |a: InnerTimer, b: InnerTimer| rel_suspend(a, b)),
//@pre
    let ghost m0 = self.0@;
//@loop 1
        invariant enumerates(keyviews(vm_keys1@), m0), self.0@.dom() == m0.dom(),
            forall|k: Key| m0.contains_key(k) ==> (if in_pre(keyviews(vm_keys1@), $var1 as int, k) { rel_suspend(m0[k], #[trigger] self.0@[k]) } else { self.0@[k] == m0[k] }),
//@body_start 1
        let ghost gi = $var1 as int;
        let ghost ky = vm_keys1@[gi]@;
        let ghost mb = self.0@;
        proof {
            assert(keyviews(vm_keys1@)[gi] == ky);
            assert(keyviews(vm_keys1@).contains(ky));
            assert(!in_pre(keyviews(vm_keys1@), gi, ky)) by {
                if in_pre(keyviews(vm_keys1@), gi, ky) { let j = choose|j: int| 0 <= j < gi && j < keyviews(vm_keys1@).len() && keyviews(vm_keys1@)[j] == ky; assert(keyviews(vm_keys1@)[j] == keyviews(vm_keys1@)[gi]); }
            }
        }
//@body_end 1
        proof {
            assert(self.0@.dom() =~= m0.dom());
            assert forall|k: Key| m0.contains_key(k) implies (if in_pre(keyviews(vm_keys1@), gi + 1, k) { rel_suspend(m0[k], #[trigger] self.0@[k]) } else { self.0@[k] == m0[k] }) by {
                if k == ky { assert(in_pre(keyviews(vm_keys1@), gi + 1, k)); }
                else {
                    assert(self.0@[k] == mb[k]);
                    if in_pre(keyviews(vm_keys1@), gi + 1, k) { let j = choose|j: int| 0 <= j < gi + 1 && j < keyviews(vm_keys1@).len() && keyviews(vm_keys1@)[j] == k; assert(j != gi); assert(in_pre(keyviews(vm_keys1@), gi, k)); }
                    if in_pre(keyviews(vm_keys1@), gi, k) { let j = choose|j: int| 0 <= j < gi && j < keyviews(vm_keys1@).len() && keyviews(vm_keys1@)[j] == k; assert(in_pre(keyviews(vm_keys1@), gi + 1, k)); }
                }
            }
        }
//@after_loop 1
    proof {
        assert forall|k: Key| m0.contains_key(k) implies rel_suspend(m0[k], #[trigger] self.0@[k]) by {
            assert(keyviews(vm_keys1@).contains(k));
            let j = choose|j: int| 0 <= j < keyviews(vm_keys1@).len() && keyviews(vm_keys1@)[j] == k;
            assert(in_pre(keyviews(vm_keys1@), vm_keys1@.len() as int, k));
        }
    }
//@end
//@fn file=src/timers/timers.rs in="impl SubTimersMap" name=resume rules=valuesmut
//@contract
    ensures Self::all_changed(old(self).m(), final(self).m(), |a: InnerTimer, b: InnerTimer| rel_resume(a, b)),
//@pre
    let ghost m0 = self.0@;
//@loop 1
        invariant enumerates(keyviews(vm_keys1@), m0), self.0@.dom() == m0.dom(),
            forall|k: Key| m0.contains_key(k) ==> (if in_pre(keyviews(vm_keys1@), $var1 as int, k) { rel_resume(m0[k], #[trigger] self.0@[k]) } else { self.0@[k] == m0[k] }),
//@body_start 1
        let ghost gi = $var1 as int;
        let ghost ky = vm_keys1@[gi]@;
        let ghost mb = self.0@;
        proof {
            assert(keyviews(vm_keys1@)[gi] == ky);
            assert(keyviews(vm_keys1@).contains(ky));
            assert(!in_pre(keyviews(vm_keys1@), gi, ky)) by {
                if in_pre(keyviews(vm_keys1@), gi, ky) { let j = choose|j: int| 0 <= j < gi && j < keyviews(vm_keys1@).len() && keyviews(vm_keys1@)[j] == ky; assert(keyviews(vm_keys1@)[j] == keyviews(vm_keys1@)[gi]); }
            }
        }
//@body_end 1
        proof {
            assert(self.0@.dom() =~= m0.dom());
            assert forall|k: Key| m0.contains_key(k) implies (if in_pre(keyviews(vm_keys1@), gi + 1, k) { rel_resume(m0[k], #[trigger] self.0@[k]) } else { self.0@[k] == m0[k] }) by {
                if k == ky { assert(in_pre(keyviews(vm_keys1@), gi + 1, k)); }
                else {
                    assert(self.0@[k] == mb[k]);
                    if in_pre(keyviews(vm_keys1@), gi + 1, k) { let j = choose|j: int| 0 <= j < gi + 1 && j < keyviews(vm_keys1@).len() && keyviews(vm_keys1@)[j] == k; assert(j != gi); assert(in_pre(keyviews(vm_keys1@), gi, k)); }
                    if in_pre(keyviews(vm_keys1@), gi, k) { let j = choose|j: int| 0 <= j < gi && j < keyviews(vm_keys1@).len() && keyviews(vm_keys1@)[j] == k; assert(in_pre(keyviews(vm_keys1@), gi + 1, k)); }
                }
            }
        }
//@after_loop 1
    proof {
        assert forall|k: Key| m0.contains_key(k) implies rel_resume(m0[k], #[trigger] self.0@[k]) by {
            assert(keyviews(vm_keys1@).contains(k));
            let j = choose|j: int| 0 <= j < keyviews(vm_keys1@).len() && keyviews(vm_keys1@)[j] == k;
            assert(in_pre(keyviews(vm_keys1@), vm_keys1@.len() as int, k));
        }
    }
//@end
//@fn file=src/timers/timers.rs in="impl SubTimersMap" name=total_time rules=R24 ret=r
//@contract
    ensures r.v() == msum(self.m(), f_total()), fin(self.m()),
//@pre
    broadcast use ax_dur_of, ax_dur_zero;
    let ghost ks = values_keys(&self.0);
    let ghost m0 = self.0@;
//@iter 1
it
//@loop 1
        invariant ks == values_keys(&self.0), m0 == self.0@, enumerates(ks, m0), it.seq().len() == ks.len(),
            forall|i: int| 0 <= i < ks.len() ==> *(#[trigger] it.seq()[i]) == m0[ks[i]],
            acc.v() == ksum(m0, ks.take(it.index@ as int), f_total()),
//@body_start 1
        broadcast use ax_dur_of;
        proof { assert(ks.take(it.index@ + 1).drop_last() =~= ks.take(it.index@ as int)); }
//@after_loop 1
        proof { assert(ks.take(ks.len() as int) =~= ks); lemma_msum(m0, ks, f_total()); }
//@end
} // impl SubTimersMap

impl Timers {
    pub open spec fn m(&self) -> TM { self.subtimers.0@ }
    // the name stack addresses a chain of running timers; the top-level map is finite
    pub open spec fn wf(&self) -> bool { path_ok(self.m(), self.stack@, 0) && fin(self.m()) }
    // what total_time() reports
    pub open spec fn total(&self) -> nat { msum(self.m(), f_total()) }

//@fn file=src/timers/timers.rs in="impl Timers" name=mut_active_timer ret=r
//@contract
    requires path_ok(old(self).m(), old(self).stack@, 0),
    ensures final(self).stack == old(self).stack,
        r is None <==> old(self).stack@.len() == 0,
        match r {
            None => final(self).subtimers == old(self).subtimers,
            Some(t) => {
                let st = old(self).stack@; let k0 = st[0]@;
                &&& t.running()
                &&& old(self).m().contains_key(k0) && final(self).m() == old(self).m().insert(k0, final(self).m()[k0])
                // a change made through t changes exactly the timer addressed by the stack
                &&& tupd(old(self).m()[k0], final(self).m()[k0], st, 0, st.len() - 1, *t, *final(t))
            }
        },
//@pre
    let ghost st = self.stack@;
    let ghost m0 = self.subtimers.0@;
//@before "for key in"
    let ghost root_fin = *final(active_timer);
//@iter 1
it
//@loop 1
        invariant st == self.stack@, st.len() >= 1, it.index@ < st.len(),
            active_timer.running(), path_ok(active_timer.subtimers.0@, st, it.index@ + 1),
            tupd(m0[st[0]@], root_fin, st, 0, it.index@ as int, *active_timer, *final(active_timer)),
//@body_start 1
        let ghost c0 = *active_timer;
        let ghost c1 = *final(active_timer);
        let ghost j = it.index@ as int;
//@body_end 1
        proof {
            assert(tupd(c0, c1, st, j, j + 1, *active_timer, *final(active_timer))) by {
                assert(tupd(c0.subtimers.0@[st[j + 1]@], c1.subtimers.0@[st[j + 1]@], st, j + 1, j + 1, *active_timer, *final(active_timer)));
            }
            lemma_tupd_extend(m0[st[0]@], root_fin, st, 0, j, c0, c1, *active_timer, *final(active_timer));
        }
//@end
//@fn file=src/timers/timers.rs in="impl Timers" name=reset_timer
//@contract
    ensures final(self).stack == old(self).stack,
        SubTimersMap::one_changed(old(self).m(), final(self).m(), key@, |a: InnerTimer, b: InnerTimer| rel_reset(a, b)),
//@end
//@fn file=src/timers/timers.rs in="impl Timers" name=start_as_current
//@contract
    requires old(self).wf(),
    ensures final(self).wf(),                                        // the new name addresses a running timer below the old active one
        final(self).stack@ == old(self).stack@.push(key),
        final(self).total() == old(self).total(),                    // nothing accumulated is lost
//@pre
    let ghost st = self.stack@;
    let ghost m0 = self.subtimers.0@;
    let ghost st2 = st.push(key);
//@before_stmt 2
    // the active timer before / after whatever is done through the returned reference (positional anchors: see BUILDER_NOTES)
    let ghost a0 = *(active_timer->Some_0);
    let ghost a1 = *final(active_timer->Some_0);
//@after_stmt 2
    proof {
        let m1 = self.subtimers.0@;
        if st.len() == 0 {
            if m0.contains_key(key@) { lemma_msum_insert(m0, key@, m1[key@], f_total()); }
            else { lemma_msum_insert(m0, key@, m1[key@], f_total()); }
            assert(path_ok(m1[key@].subtimers.0@, st2, 1));
        } else {
            let k0 = st[0]@;
            lemma_tupd_path(m0[k0], m1[k0], st, 0, st.len() - 1, a0, a1, st2);
            lemma_msum_insert(m0, k0, m1[k0], f_total());
            assert(st2[0] == st[0]);
        }
    }
//@end
//@fn file=src/timers/timers.rs in="impl Timers" name=stop_current
//@contract
    requires old(self).wf(), old(self).stack@.len() > 0,       // "There should always be one active when this function is reached"
    ensures final(self).wf(),
        final(self).stack@ == old(self).stack@.drop_last(),
        // a top-level timer folds its running interval into the total; a deeper one does not change it: never decreases
        old(self).stack@.len() == 1 ==> final(self).total() == old(self).total() + since(old(self).m()[old(self).stack@[0]@].start->Some_0),
        old(self).stack@.len() > 1 ==> final(self).total() == old(self).total(),
        final(self).total() >= old(self).total(),
//@pre
    let ghost st = self.stack@;
    let ghost m0 = self.subtimers.0@;
    let ghost st2 = st.drop_last();
//@before_stmt 2
    let ghost a0 = *(active_timer->Some_0);
    let ghost a1 = *final(active_timer->Some_0);
//@after_stmt 2
    proof {
        let m1 = self.subtimers.0@;
        let k0 = st[0]@;
        lemma_tupd_path(m0[k0], m1[k0], st, 0, st.len() - 1, a0, a1, st2);
        lemma_msum_insert(m0, k0, m1[k0], f_total());
        if st.len() > 1 { assert(st2[0] == st[0]); }
    }
//@end
//@fn file=src/timers/timers.rs in="impl Timers" name=suspend
//@contract
    ensures final(self).stack == old(self).stack,
        SubTimersMap::all_changed(old(self).m(), final(self).m(), |a: InnerTimer, b: InnerTimer| rel_suspend(a, b)),
//@end
//@fn file=src/timers/timers.rs in="impl Timers" name=resume
//@contract
    ensures final(self).stack == old(self).stack,
        SubTimersMap::all_changed(old(self).m(), final(self).m(), |a: InnerTimer, b: InnerTimer| rel_resume(a, b)),
//@end
//@fn file=src/timers/timers.rs in="impl Timers" name=total_time ret=r
//@contract
    ensures r.v() == self.total(),
//@end
} // impl Timers

// ------------------------------------------------------------------ what unit `solve` assumes of Timers, from the contracts above
// Timers::suspend (= all_changed(.., rel_suspend)) folds the running interval of EVERY running top-level timer into total_time()
pub proof fn lemma_suspend_folds(m0: TM, m1: TM)
    requires fin(m0), SubTimersMap::all_changed(m0, m1, |a: InnerTimer, b: InnerTimer| rel_suspend(a, b)),
    ensures fin(m1),
        msum(m1, f_total()) == msum(m0, f_total()) + msum(m0, f_pending()),
        forall|k: Key| m0.contains_key(k) && (#[trigger] m0[k]).running() ==> msum(m1, f_total()) >= msum(m0, f_total()) + since(m0[k].start->Some_0),
        msum(m1, f_total()) >= msum(m0, f_total()),
        // and every timer that was running still is (the next suspend folds again)
        forall|k: Key| m0.contains_key(k) && (#[trigger] m0[k]).running() ==> m1[k].start == m0[k].start,
{
    let ks = choose|ks: Seq<Key>| enumerates(ks, m0);
    assert(enumerates(ks, m1));
    lemma_msum(m0, ks, f_total()); lemma_msum(m0, ks, f_pending()); lemma_msum(m1, ks, f_total());
    assert forall|i: int| 0 <= i < ks.len() implies f_total()(m1[#[trigger] ks[i]]) == f_total()(m0[ks[i]]) + f_pending()(m0[ks[i]]) by {
        assert(ks.contains(ks[i]));
        assert(rel_suspend(m0[ks[i]], m1[ks[i]]));
    }
    lemma_ksum_pointwise(m0, m1, ks, f_total(), f_total(), f_pending());
    assert forall|k: Key| m0.contains_key(k) && (#[trigger] m0[k]).running() implies msum(m1, f_total()) >= msum(m0, f_total()) + since(m0[k].start->Some_0) by {
        assert(ks.contains(k));
        let j = choose|j: int| 0 <= j < ks.len() && ks[j] == k;
        lemma_ksum_ge_member(m0, ks, j, f_pending());
    }
    assert forall|k: Key| m0.contains_key(k) && (#[trigger] m0[k]).running() implies m1[k].start == m0[k].start by {
        assert(rel_suspend(m0[k], m1[k]));
    }
}
// Timers::resume, Timers::start_as_current, Timers::stop_current never lose accumulated time (the last two: in their contracts)
pub proof fn lemma_resume_keeps(m0: TM, m1: TM)
    requires fin(m0), SubTimersMap::all_changed(m0, m1, |a: InnerTimer, b: InnerTimer| rel_resume(a, b)),
    ensures fin(m1), msum(m1, f_total()) == msum(m0, f_total()),
        forall|k: Key| m0.contains_key(k) ==> (#[trigger] m1[k]).running() == m0[k].running(),
{
    let ks = choose|ks: Seq<Key>| enumerates(ks, m0);
    assert(enumerates(ks, m1));
    lemma_msum(m0, ks, f_total()); lemma_msum(m1, ks, f_total());
    assert forall|i: int| 0 <= i < ks.len() implies f_total()(m0[#[trigger] ks[i]]) == f_total()(m1[ks[i]]) by {
        assert(ks.contains(ks[i]));
        assert(rel_resume(m0[ks[i]], m1[ks[i]]));
    }
    lemma_ksum_agree(m0, m1, ks, f_total());
    assert forall|k: Key| m0.contains_key(k) implies (#[trigger] m1[k]).running() == m0[k].running() by { assert(rel_resume(m0[k], m1[k])); }
}
// the sequence of one solver iteration seen from the time-limit test:  suspend(); ..print..; resume();  then total_time()
pub proof fn lemma_notimeit_pair(m0: TM, m1: TM, m2: TM, k: Key)
    requires fin(m0), m0.contains_key(k), m0[k].running(),
        SubTimersMap::all_changed(m0, m1, |a: InnerTimer, b: InnerTimer| rel_suspend(a, b)),
        SubTimersMap::all_changed(m1, m2, |a: InnerTimer, b: InnerTimer| rel_resume(a, b)),
    ensures msum(m2, f_total()) >= msum(m0, f_total()) + since(m0[k].start->Some_0), m2[k].running(),
{
    lemma_suspend_folds(m0, m1);
    lemma_resume_keeps(m1, m2);
    assert(m1[k].start == m0[k].start);
    assert(m1.contains_key(k));
}


} // verus!
fn main() {}
