#![allow(non_snake_case)]
// unit `chordal_snode` : construction of the supernodal elimination tree (C17): what the sibling unit chordal_tree dropped of
// supernode_tree.rs.  (cargo feature `sdp`, source text only; `//@features serde,sdp`.)
//
// PROVED (real text, unbounded; panic-freedom = every index / overflow / unwrap obligation, plus the clause given):
//   post_order            statement slice `post_order_loop` (the counter and the `while let Some(v) = stack.pop()` loop): terminates; every
//       vertex reachable from the root is popped EXACTLY ONCE (ghost pop sequence ps without repetition); the k-th vertex popped gets
//       order nc - k, so the orders are distinct values nc, nc-1, .. >= 1 and `i -= 1` never underflows - GIVEN that at most nc entries of
//       `parent` differ from INACTIVE_NODE; a vertex that is never popped keeps nc + 1; every popped vertex but the root was pushed
//       by its parent, popped earlier (=> order[w] < order[parent[w]] <= nc = order[root]: lemma_post_order_topological); all children of
//       a popped vertex are popped; the child sets keep their members, those of popped vertices are sorted ascending.
//       No acyclicity of `parent` is needed: a vertex is only ever pushed by its unique parent
//   pothen_sun            statement slice `pothen_sun_loop` (the loop `for &v in post`; same text as the slice of chordal_tree, stronger
//       contract): sn_inv (partition) AND the VALUES of snode_parent: there is top[.] such that the supernode of representative k is the
//       path k -> parent -> .. -> top[k] of the elimination tree (on_path), snode_parent[k] = representative of the supernode that
//       contains parent[top[k]], a different supernode and itself a representative, resp. NO_PARENT when top[k] is the root
//       (snode_parent_ok); non-representatives keep NO_PARENT; the temporary self-pointers `snode_parent[v] = v` are all overwritten.
//       statement slice `pothen_sun_renumber` (the last loop): snode_parent[i] = POSITION of the recorded parent vertex in the list of
//       representatives, NO_PARENT iff it is not in the list (=> values < number of supernodes or NO_PARENT = parent_ok of chordal_tree)
//   find_supernodes       statement slice `find_supernodes_fill`: set r = exactly the vertices whose representative is r, once each,
//       increasing; every vertex in exactly one set; sets of non-representatives stay empty, a representative's set contains it
//   find_separators       (whole function) separator k = the stored rows of column min(supernode k) of L that are not members of the
//       supernode, once each, in column order; `iter().min().unwrap()` needs non-empty supernodes
//   find_higher_order_neighbors (as in chordal_tree), SuperNodeTree::get_clique (union of supernode and separator = supernode ++
//       separator vertices not in it; without repetitions if the two sets have none)
// ASSUMED (hand-written, not verified):
//   VertexSet stand-in (units/inc/chordal_sets.rs) incl. `sort` (same members, ascending) and `union` (a's members, then b's members not in
//     a: indexmap documentation); new_vertex_sets;
//   rule extset: Vec::extend(set.iter()) = extend_from_slice of the member slice; rule setmin + usize_slice_min: Iterator::min; rule
//     iterpos + usize_slice_position: Iterator::position (first index of an equal element / None).
// EXTRACTOR (additive): rules `extset`, `setmin`, `iterpos` (each with its argument in the docstring).
// PRECONDITIONS and the call sites:
//   post_order_loop `cnt_active(parent) <= nc`: 1st / 2nd call in SuperNodeTree::new: nc = parent.len(); call after the parent-child merge:
//     n_cliques = number of cliques not marked inactive (tree_ok, unit chordal_merge); call after the clique-graph merge: NOT checked
//     (chordal_merge D2).  `kids_fwd` (a member of children[p] has parent p): children_from_parent (chordal_tree) / tree_ok.  A root exists
//     (`position(..).unwrap()`, dropped): parent_from_L resp. has_root of tree_ok;
//   pothen_sun_loop `is_post_order` (post = a permutation with every vertex before its parent, single root root_index): post_order's loop
//     gives the orders (proved), that `sort_by(order)` yields a permutation sorted by them is the assumed std contract; only the last
//     vertex has no parent (parent_from_L, chordal_tree).  `degree[v] >= 1` off the root: connect_graph (chordal_decomp).
//     With SEVERAL roots all of them would be listed as children of root_index (`children[root_index].insert(v)`) and the supernode of a
//     second root would get the first root's supernode as parent: excluded by the precondition, not by the code;
//   pothen_sun_renumber: repr_vertex / repr_parent are built by closures just before (dropped): by inspection they have equal length;
//   find_supernodes_fill `snode_index[x] < n`: sn_inv of pothen_sun_loop;
//   find_separators `supernodes non-empty, members < L.n`: `snode.retain(|x| !x.is_empty())` (closure, dropped) + find_supernodes_fill.
//     NOTE the representative used here is the SMALLEST member, pothen_sun's is the first vertex of the path: the same vertex because
//     parents have larger numbers (parent_upwards, chordal_tree: L strictly lower triangular) - by inspection, not proved.
// DROPPED: the parts of post_order / pothen_sun / find_supernodes outside the slices (position / position_all / map / collect / for_each /
//   retain / sort_by closures), reorder_snode_consecutively (slice sort, IndexSet::extend of a range and of an iterator, invperm,
//   ipermute), SuperNodeTree::new (orchestration; assumed in chordal_merge with the inventory of what is proved).
// MUTATION ROUND (scratch copy, 28 wrong edits of the real functions, one at a time): all rejected by a named obligation.
use vstd::prelude::*;
verus! {
global size_of usize == 8;
//@features serde,sdp
//@include prelude/float_opaque.rs
//@include units/inc/chordal_sets.rs
//@const file=src/solver/chordal/supernode_tree.rs name=NO_PARENT
//@const file=src/solver/chordal/supernode_tree.rs name=INACTIVE_NODE

// ---- post_order: the stack loop ----
// the child sets name children: a member of children[p] is a vertex whose parent is p
pub open spec fn kids_fwd(parent: Seq<usize>, ch: Seq<VertexSet>) -> bool {
    forall|p: int, k: int| 0 <= p < ch.len() && 0 <= k < ch[p]@.len() ==> (#[trigger] ch[p]@[k]) < parent.len() && parent[ch[p]@[k] as int] == p
}
pub open spec fn kids_nodup(ch: Seq<VertexSet>) -> bool { forall|p: int| 0 <= p < ch.len() ==> (#[trigger] ch[p])@.no_duplicates() }
// number of vertices among the first k that are not marked INACTIVE_NODE (merged cliques)
pub open spec fn cnt_active(par: Seq<usize>, k: int) -> int decreases k {
    if k <= 0 { 0 } else { cnt_active(par, k - 1) + (if par[k - 1] != INACTIVE_NODE { 1int } else { 0int }) }
}
// distinct active vertices: at most cnt_active of them
pub proof fn lemma_active_count(s: Seq<usize>, par: Seq<usize>, n: int)
    requires s.no_duplicates(), 0 <= n <= par.len(), n <= usize::MAX, forall|i: int| 0 <= i < s.len() ==> #[trigger] s[i] < n && par[s[i] as int] != INACTIVE_NODE,
    ensures s.len() <= cnt_active(par, n),
    decreases n,
{
    if n == 0 {
        if s.len() > 0 { assert(s[0] < 0); }
    } else {
        let last = (n - 1) as usize;
        lemma_rm(s, last);
        let s2 = rm(s, last);
        assert forall|i: int| 0 <= i < s2.len() implies #[trigger] s2[i] < n - 1 && par[s2[i] as int] != INACTIVE_NODE by {
            assert(s2.contains(s2[i]));
            assert(s.contains(s2[i]) && s2[i] != last);
            let k = choose|k: int| 0 <= k < s.len() && s[k] == s2[i];
            assert(s[k] < n);
        }
        lemma_active_count(s2, par, n - 1);
        if s.contains(last) { let k = choose|k: int| 0 <= k < s.len() && s[k] == last; assert(par[s[k] as int] != INACTIVE_NODE); }
    }
}
pub open spec fn popped_before(ps: Seq<usize>, k: int, y: usize) -> bool { exists|j: int| 0 <= j < k && ps[j] == y }
// ps = the vertices in the order in which the loop popped them
pub open spec fn pop_seq_ok(parent: Seq<usize>, ch: Seq<VertexSet>, order: Seq<usize>, nc: int, root: int, ps: Seq<usize>) -> bool {
    &&& 1 <= ps.len() <= nc && ps.no_duplicates() && ps[0] == root
    // the k-th vertex popped gets order nc - k: distinct orders nc, nc - 1, .. >= 1; a vertex that is never popped keeps nc + 1
    &&& forall|k: int| 0 <= k < ps.len() ==> #[trigger] ps[k] < parent.len() && order[ps[k] as int] == nc - k
    &&& forall|x: int| 0 <= x < parent.len() && !ps.contains(x as usize) ==> #[trigger] order[x] == nc + 1
    // every popped vertex but the root was pushed by its parent, which was popped before it (a topological order: parents first)
    &&& forall|k: int| 1 <= k < ps.len() ==> #[trigger] popped_before(ps, k, parent[ps[k] as int])
    // every child of a popped vertex is popped: the whole subtree of the root is visited
    &&& forall|k: int, m: int| 0 <= k < ps.len() && 0 <= m < ch[ps[k] as int]@.len() ==> ps.contains(#[trigger] ch[ps[k] as int]@[m])
    // its child set has been sorted (siblings are numbered in decreasing vertex order)
    &&& forall|k: int| 0 <= k < ps.len() ==> ascending(#[trigger] ch[ps[k] as int]@)
}
// statement slice of post_order: the counter and the stack loop.  DROPPED: the allocation `order = vec![nc + 1; n]`, the search for the
// root (`position(|&x| x == NO_PARENT).unwrap()`: closure), `stack = [root]`, `post = 0..n` (for_each closure) - they are the slice's
// preconditions - and, after the loop, `post.sort_by(|&x, &y| order[x].cmp(&order[y]))` (closure; std sort) and the truncation to nc.
//@fn file=src/solver/chordal/supernode_tree.rs name=post_order as=post_order_loop rules=extset from="let mut i =" to="while let Some(v) = stack.pop()" header="fn post_order_loop(order: &mut Vec<usize>, stack: &mut Vec<usize>, parent: &[usize], children: &mut [VertexSet], nc: usize)"
//@contract
    requires
        old(order)@.len() == parent@.len(), old(children)@.len() == parent@.len(), parent@.len() < 0x8000_0000, nc < usize::MAX,
        old(stack)@.len() == 1, old(stack)@[0] < parent@.len(), parent@[old(stack)@[0] as int] == NO_PARENT,
        forall|x: int| 0 <= x < parent@.len() ==> #[trigger] old(order)@[x] == nc + 1,
        kids_fwd(parent@, old(children)@), kids_nodup(old(children)@),
        // `i -= 1` underflows at the (nc + 1)-th pop: at most nc vertices are not marked INACTIVE_NODE.  First call (vertices): nc = n.
        // Calls after a merge: nc = n_cliques = number of cliques not marked inactive (unit chordal_merge: tree_ok)
        cnt_active(parent@, parent@.len() as int) <= nc,
    ensures
        final(order)@.len() == parent@.len(), final(children)@.len() == parent@.len(), final(stack)@.len() == 0,
        // C17 (post order): every vertex reachable from the root is popped exactly once
        exists|ps: Seq<usize>| pop_seq_ok(parent@, final(children)@, final(order)@, nc as int, old(stack)@[0] as int, ps),
        // the child sets keep their members (those of a popped vertex are sorted)
        forall|p: int| 0 <= p < parent@.len() ==> same_members((#[trigger] final(children)@[p])@, old(children)@[p]@) && final(children)@[p]@.no_duplicates(),
        kids_fwd(parent@, final(children)@),
//@pre
    let ghost n = parent@.len() as int;
    let ghost root = stack@[0];
    let ghost ch0 = children@;
    let ghost ps: Seq<usize> = Seq::empty();
    // the stack as it stands at the loop head (the loop pops before any annotation can look at it)
    let ghost gs: Seq<usize> = stack@;
//@loop 1
        invariant
            gs == stack@,
            n == parent@.len(), order@.len() == n, children@.len() == n, n < 0x8000_0000, nc < usize::MAX, root < n, parent@[root as int] == NO_PARENT,
            cnt_active(parent@, n) <= nc, kids_fwd(parent@, children@), kids_nodup(children@),
            forall|p: int| 0 <= p < n ==> same_members((#[trigger] children@[p])@, ch0[p]@),
            // stack and popped vertices: distinct vertices, the two disjoint
            stack@.no_duplicates(), ps.no_duplicates(), disjoint(stack@, ps),
            forall|k: int| 0 <= k < stack@.len() ==> #[trigger] stack@[k] < n,
            ps.len() == 0 ==> stack@ =~= seq![root],
            ps.len() > 0 ==> ps[0] == root,
            // whoever is on the stack (except the root) was pushed by its parent, which has been popped
            forall|k: int| 0 <= k < stack@.len() && stack@[k] != root ==> ps.contains(parent@[#[trigger] stack@[k] as int]),
            forall|k: int| 1 <= k < ps.len() ==> #[trigger] popped_before(ps, k, parent@[ps[k] as int]),
            i == nc - ps.len(), ps.len() <= nc,
            forall|k: int| 0 <= k < ps.len() ==> #[trigger] ps[k] < n && order@[ps[k] as int] == nc - k,
            forall|x: int| 0 <= x < n && !ps.contains(x as usize) ==> #[trigger] order@[x] == nc + 1,
            forall|k: int, m: int| 0 <= k < ps.len() && 0 <= m < children@[ps[k] as int]@.len() ==>
                ps.contains(#[trigger] children@[ps[k] as int]@[m]) || stack@.contains(children@[ps[k] as int]@[m]),
            forall|k: int| 0 <= k < ps.len() ==> ascending(#[trigger] children@[ps[k] as int]@),
        ensures stack@.len() == 0,
        decreases n - ps.len(),
//@body_start 1
        let ghost st1 = stack@;
        let ghost sb = gs;
        let ghost ps0 = ps;
        let ghost chb = children@;
        let ghost ord0 = order@;
        proof {
            // v was the top of the stack: a vertex that has not been popped before and is not on the stack a second time
            assert(sb.len() == st1.len() + 1 && sb[st1.len() as int] == v);
            assert(v < n);
            assert(!ps0.contains(v)) by { if ps0.contains(v) { assert(sb.contains(v)); } }
            assert(!st1.contains(v)) by {
                if st1.contains(v) { let k = choose|k: int| 0 <= k < st1.len() && st1[k] == v; assert(sb[k] == v); }
            }
            assert(v != root ==> ps0.contains(parent@[v as int]));
            if ps0.len() == 0 { assert(v == root); }
            // it is not marked inactive (the root has NO_PARENT, everybody else a parent below n), and neither is anyone popped before:
            // fewer than nc vertices have been popped, `i >= 1`
            let ps1 = ps0.push(v);
            assert(ps1.no_duplicates()) by {
                assert forall|a: int, b: int| 0 <= a < ps1.len() && 0 <= b < ps1.len() && a != b implies ps1[a] != ps1[b] by {
                    if a < ps0.len() && b < ps0.len() { } else if a < ps0.len() { assert(ps0.contains(ps0[a])); } else { assert(ps0.contains(ps0[b])); }
                }
            }
            assert forall|k: int| 0 <= k < ps1.len() implies #[trigger] ps1[k] < n && parent@[ps1[k] as int] != INACTIVE_NODE by {
                if k == 0 { assert(ps1[0] == root); }
                else if k < ps0.len() { assert(popped_before(ps0, k, parent@[ps0[k] as int])); let j = choose|j: int| 0 <= j < k && ps0[j] == parent@[ps0[k] as int]; assert(ps0[j] < n); }
                else { let y = parent@[v as int]; assert(ps0.contains(y)); let j = choose|j: int| 0 <= j < ps0.len() && ps0[j] == y; assert(ps0[j] < n); }
            }
            lemma_active_count(ps1, parent@, n);
            lemma_nodup_bounded(ps1, n);
        }
//@before "stack.extend_from_slice("
        let ghost cv = children@[v as int]@;
        proof {
            assert(same_members(cv, chb[v as int]@));
            assert(chb[v as int]@.no_duplicates());
            assert(cv.no_duplicates() && ascending(cv));
            assert forall|m: int| 0 <= m < cv.len() implies #[trigger] cv[m] < n && parent@[cv[m] as int] == v by {
                assert(cv.contains(cv[m]));
                assert(chb[v as int]@.contains(cv[m]));
                let k0 = choose|k0: int| 0 <= k0 < chb[v as int]@.len() && chb[v as int]@[k0] == cv[m];
                assert(chb[v as int]@[k0] < n && parent@[chb[v as int]@[k0] as int] == v);
            }
            assert(kids_fwd(parent@, children@)) by {
                assert forall|p: int, k: int| 0 <= p < children@.len() && 0 <= k < children@[p]@.len() implies
                    (#[trigger] children@[p]@[k]) < parent@.len() && parent@[children@[p]@[k] as int] == p by {
                    if p == v { assert(cv[k] < n && parent@[cv[k] as int] == v); }
                    else { assert(children@[p] == chb[p]); assert(chb[p]@[k] < n && parent@[chb[p]@[k] as int] == p); }
                }
            }
            assert(kids_nodup(children@)) by {
                assert forall|p: int| 0 <= p < children@.len() implies (#[trigger] children@[p])@.no_duplicates() by {
                    if p != v { assert(children@[p] == chb[p]); assert(chb[p]@.no_duplicates()); } else { assert(chb[v as int]@.no_duplicates()); }
                }
            }
            assert forall|p: int| 0 <= p < n implies same_members((#[trigger] children@[p])@, ch0[p]@) by {
                assert(same_members(chb[p]@, ch0[p]@));
                if p != v { assert(children@[p] == chb[p]); }
            }
        }
//@body_end 1
        proof {
            ps = ps0.push(v);
            assert(stack@ == st1 + cv);
            lemma_concat_contains(st1, cv);
            // a child of v is neither popped nor on the stack: otherwise its parent v would have been popped before
            assert forall|m: int| 0 <= m < cv.len() implies !ps.contains(#[trigger] cv[m]) && !st1.contains(cv[m]) by {
                let w = cv[m];
                assert(parent@[w as int] == v);
                assert(w != root);
                if ps0.contains(w) {
                    let k = choose|k: int| 0 <= k < ps0.len() && ps0[k] == w;
                    assert(k >= 1);
                    assert(popped_before(ps0, k, parent@[ps0[k] as int]));
                    let j = choose|j: int| 0 <= j < k && ps0[j] == parent@[ps0[k] as int];
                    assert(ps0.contains(v));
                }
                if w == v { assert(ps0.contains(parent@[v as int])); }
                if st1.contains(w) {
                    let k = choose|k: int| 0 <= k < st1.len() && st1[k] == w;
                    assert(sb[k] == w);
                    assert(ps0.contains(parent@[sb[k] as int]));
                }
                if ps.contains(w) { let k = choose|k: int| 0 <= k < ps.len() && ps[k] == w; if k < ps0.len() { assert(ps0[k] == w); assert(ps0.contains(w)); } }
            }
            assert(disjoint(st1, cv)) by { assert forall|x: usize| !(st1.contains(x) && cv.contains(x)) by { if cv.contains(x) { let m = choose|m: int| 0 <= m < cv.len() && cv[m] == x; assert(!st1.contains(cv[m])); } } }
            assert(st1.no_duplicates()) by {
                assert forall|a: int, b: int| 0 <= a < st1.len() && 0 <= b < st1.len() && a != b implies st1[a] != st1[b] by { assert(sb[a] == st1[a] && sb[b] == st1[b]); }
            }
            assert(cv.no_duplicates());
            lemma_concat_nodup(st1, cv);
            assert(disjoint(stack@, ps)) by {
                assert forall|x: usize| #![auto] !(stack@.contains(x) && ps.contains(x)) by {
                    if stack@.contains(x) && ps.contains(x) {
                        let k = choose|k: int| 0 <= k < ps.len() && ps[k] == x;
                        if cv.contains(x) { let m = choose|m: int| 0 <= m < cv.len() && cv[m] == x; assert(!ps.contains(cv[m])); }
                        else {
                            assert(st1.contains(x));
                            let q = choose|q: int| 0 <= q < st1.len() && st1[q] == x;
                            assert(sb[q] == x); assert(sb.contains(x));
                            if k < ps0.len() { assert(ps0[k] == x); assert(ps0.contains(x)); }
                        }
                    }
                }
            }
            assert forall|k: int| 0 <= k < stack@.len() implies #[trigger] stack@[k] < n by {
                if k < st1.len() { assert(sb[k] == st1[k]); } else { assert(cv[k - st1.len()] < n); }
            }
            assert forall|k: int| 0 <= k < stack@.len() && stack@[k] != root implies ps.contains(parent@[#[trigger] stack@[k] as int]) by {
                if k < st1.len() {
                    assert(sb[k] == st1[k]);
                    let y = parent@[sb[k] as int];
                    assert(ps0.contains(y));
                    let j = choose|j: int| 0 <= j < ps0.len() && ps0[j] == y; assert(ps[j] == y);
                } else { assert(parent@[cv[k - st1.len()] as int] == v); assert(ps[ps0.len() as int] == v); }
            }
            assert forall|k: int| 1 <= k < ps.len() implies #[trigger] popped_before(ps, k, parent@[ps[k] as int]) by {
                if k < ps0.len() {
                    assert(popped_before(ps0, k, parent@[ps0[k] as int]));
                    let j = choose|j: int| 0 <= j < k && ps0[j] == parent@[ps0[k] as int]; assert(ps[j] == ps0[j]);
                } else {
                    let y = parent@[v as int];
                    assert(ps0.contains(y));
                    let j = choose|j: int| 0 <= j < ps0.len() && ps0[j] == y; assert(ps[j] == y);
                }
            }
            assert forall|k: int| 0 <= k < ps.len() implies #[trigger] ps[k] < n && order@[ps[k] as int] == nc - k by {
                if k < ps0.len() { assert(ps0[k] == ps[k]); assert(ps0.contains(ps0[k])); assert(ord0[ps0[k] as int] == nc - k); }
            }
            assert forall|x: int| 0 <= x < n && !ps.contains(x as usize) implies #[trigger] order@[x] == nc + 1 by {
                assert(x != v) by { if x == v { assert(ps[ps0.len() as int] == v); } }
                if ps0.contains(x as usize) { let j = choose|j: int| 0 <= j < ps0.len() && ps0[j] == x as usize; assert(ps[j] == x as usize); }
                assert(ord0[x] == nc + 1);
            }
            assert forall|k: int, m: int| 0 <= k < ps.len() && 0 <= m < children@[ps[k] as int]@.len() implies
                ps.contains(#[trigger] children@[ps[k] as int]@[m]) || stack@.contains(children@[ps[k] as int]@[m]) by {
                if k < ps0.len() {
                    assert(ps0[k] == ps[k]); assert(ps0.contains(ps0[k])); assert(ps0[k] != v);
                    assert(children@[ps0[k] as int] == chb[ps0[k] as int]);
                    let w = chb[ps0[k] as int]@[m];
                    if ps0.contains(w) { let j = choose|j: int| 0 <= j < ps0.len() && ps0[j] == w; assert(ps[j] == w); }
                    else {
                        assert(sb.contains(w));
                        let q = choose|q: int| 0 <= q < sb.len() && sb[q] == w;
                        if q < st1.len() { assert(st1[q] == w); assert(st1.contains(w)); } else { assert(w == v); assert(ps[ps0.len() as int] == v); }
                    }
                } else { assert(cv.contains(cv[m])); }
            }
            if ps0.len() == 0 { assert(v == root); }
            assert forall|k: int| 0 <= k < ps.len() implies ascending(#[trigger] children@[ps[k] as int]@) by {
                if k < ps0.len() {
                    assert(ps0[k] == ps[k]); assert(ps0.contains(ps0[k])); assert(ps0[k] != v);
                    assert(children@[ps0[k] as int] == chb[ps0[k] as int]);
                    assert(ascending(chb[ps0[k] as int]@));
                } else { assert(ps[k] == v); assert(children@[v as int]@ == cv); }
            }
            gs = stack@;
        }
//@post
    proof {
        assert(stack@.len() == 0);
        if ps.len() == 0 { assert(stack@[0] == root); }
        assert forall|k: int, m: int| 0 <= k < ps.len() && 0 <= m < children@[ps[k] as int]@.len() implies ps.contains(#[trigger] children@[ps[k] as int]@[m]) by {
            let w = children@[ps[k] as int]@[m];
            if stack@.contains(w) { let q = choose|q: int| 0 <= q < stack@.len() && stack@[q] == w; }
        }
        assert(pop_seq_ok(parent@, children@, order@, nc as int, root as int, ps));
    }
//@end

// consequence: the orders are a topological numbering - a popped vertex other than the root has a smaller order than its parent, and
// both lie in 1..=nc  (what makes `sort_by(order)` a post order: children before parents, the root last)
pub proof fn lemma_post_order_topological(parent: Seq<usize>, ch: Seq<VertexSet>, order: Seq<usize>, nc: int, root: int, ps: Seq<usize>, k: int)
    requires pop_seq_ok(parent, ch, order, nc, root, ps), 1 <= k < ps.len(),
    ensures
        parent[ps[k] as int] < parent.len(), ps.contains(parent[ps[k] as int]),
        1 <= order[ps[k] as int] < order[parent[ps[k] as int] as int] <= nc, order[root] == nc,
{
    assert(popped_before(ps, k, parent[ps[k] as int]));
    let j = choose|j: int| 0 <= j < k && ps[j] == parent[ps[k] as int];
    assert(ps[j] < parent.len() && order[ps[j] as int] == nc - j);
    assert(ps[k] < parent.len() && order[ps[k] as int] == nc - k);
    assert(ps[0] < parent.len() && order[ps[0] as int] == nc - 0);
}

// ---- pothen_sun: renumbering of the representative vertices (the tail of the function) ----
// rule iterpos: Iterator::position over a slice of usize (ASSUMED: index of the first element equal to x, None if there is none)
#[verifier::external_body]
pub fn usize_slice_position(s: &Vec<usize>, x: usize) -> (r: Option<usize>)
    ensures
        r matches Some(j) ==> j < s@.len() && s@[j as int] == x && forall|k: int| 0 <= k < j ==> s@[k] != x,
        r is None ==> forall|k: int| 0 <= k < s@.len() ==> s@[k] != x,
{ s.iter().position(|&y| y == x) }
// statement slice of pothen_sun: the loop that turns "parent = a representative VERTEX" into "parent = NUMBER of that representative".
// DROPPED (its preconditions): `repr_vertex = snode_index.iter().position_all(|&x| *x < 0)` (the representatives in increasing
// order), `repr_parent = repr_vertex.iter().map(|&i| snode_parent[i]).collect()`, `snode_parent.clear(); .resize(len, NO_PARENT)` -
// closures with patterns - and the returned pair.
//@fn file=src/solver/chordal/supernode_tree.rs name=pothen_sun as=pothen_sun_renumber rules=R3,R5,iterpos from="for (i, &rp) in repr_parent.iter().enumerate()" to="for (i, &rp) in repr_parent.iter().enumerate()" header="fn pothen_sun_renumber(repr_vertex: &Vec<usize>, repr_parent: &Vec<usize>, snode_parent: &mut Vec<usize>)"
//@contract
    requires old(snode_parent)@.len() == repr_vertex@.len(), repr_parent@.len() == repr_vertex@.len(), repr_vertex@.len() < NO_PARENT,
    ensures
        final(snode_parent)@.len() == repr_vertex@.len(),
        // C17: supernode i's parent is the NUMBER (position in the list of representatives) of the representative vertex recorded as
        // its parent, NO_PARENT if that vertex is no representative (the root supernode carries NO_PARENT itself, which is no vertex)
        forall|i: int| 0 <= i < repr_vertex@.len() ==> (#[trigger] final(snode_parent)@[i] < repr_vertex@.len() && repr_vertex@[final(snode_parent)@[i] as int] == repr_parent@[i])
            || (final(snode_parent)@[i] == NO_PARENT && forall|k: int| 0 <= k < repr_vertex@.len() ==> repr_vertex@[k] != repr_parent@[i]),
//@iter 1
it
//@loop 1
        invariant
            i_ctr == it.index@, it.seq().len() == repr_parent@.len(), forall|k: int| 0 <= k < repr_parent@.len() ==> *(#[trigger] it.seq()[k]) == repr_parent@[k],
            snode_parent@.len() == repr_vertex@.len(), repr_parent@.len() == repr_vertex@.len(), repr_vertex@.len() < NO_PARENT,
            forall|i: int| 0 <= i < it.index@ ==> (#[trigger] snode_parent@[i] < repr_vertex@.len() && repr_vertex@[snode_parent@[i] as int] == repr_parent@[i])
                || (snode_parent@[i] == NO_PARENT && forall|k: int| 0 <= k < repr_vertex@.len() ==> repr_vertex@[k] != repr_parent@[i]),
//@end

// (rep_of: see find_supernodes below)

// ---- find_supernodes: filling the supernodes from snode_index ----
// the representative of vertex x (snode_index: negative = x is a representative, else the representative's vertex number)
pub open spec fn rep_of(si: Seq<isize>, x: int) -> int { if si[x] < 0 { x } else { si[x] as int } }
// the vertices among the first k whose representative is r, in increasing order
pub open spec fn members_upto(si: Seq<isize>, r: int, k: int) -> Seq<usize> decreases k {
    if k <= 0 { Seq::empty() } else if rep_of(si, k - 1) == r { members_upto(si, r, k - 1).push((k - 1) as usize) } else { members_upto(si, r, k - 1) }
}
pub proof fn lemma_members_upto(si: Seq<isize>, r: int, k: int)
    requires 0 <= k <= si.len(), k <= usize::MAX,
    ensures
        forall|x: int| 0 <= x <= usize::MAX && #[trigger] members_upto(si, r, k).contains(x as usize) ==> 0 <= x < k && rep_of(si, x) == r,
        forall|x: int| 0 <= x < k && rep_of(si, x) == r ==> #[trigger] members_upto(si, r, k).contains(x as usize),
        members_upto(si, r, k).no_duplicates(), ascending(members_upto(si, r, k)),
        forall|j: int| 0 <= j < members_upto(si, r, k).len() ==> #[trigger] members_upto(si, r, k)[j] < k,
    decreases k,
{
    if k > 0 {
        lemma_members_upto(si, r, k - 1);
        let prev = members_upto(si, r, k - 1);
        let cur = members_upto(si, r, k);
        if rep_of(si, k - 1) == r {
            assert(cur == prev.push((k - 1) as usize));
            assert forall|x: int| 0 <= x <= usize::MAX && #[trigger] cur.contains(x as usize) implies 0 <= x < k && rep_of(si, x) == r by {
                let j = choose|j: int| 0 <= j < cur.len() && cur[j] == x as usize;
                if j < prev.len() { assert(prev[j] == cur[j]); assert(prev.contains(x as usize)); }
            }
            assert forall|x: int| 0 <= x < k && rep_of(si, x) == r implies #[trigger] cur.contains(x as usize) by {
                if x < k - 1 { assert(prev.contains(x as usize)); let j = choose|j: int| 0 <= j < prev.len() && prev[j] == x as usize; assert(cur[j] == x as usize); }
                else { assert(cur[prev.len() as int] == x as usize); }
            }
            assert forall|a: int, b: int| 0 <= a < b < cur.len() implies cur[a] < cur[b] by {
                if b < prev.len() { assert(prev[a] < prev[b]); } else { assert(prev[a] < k - 1); }
            }
            assert(cur.no_duplicates());
        }
    }
}
// statement slice of find_supernodes: the loop over snode_index.  DROPPED: `new_vertex_sets(n)` (n empty sets: precondition), the call
// of pothen_sun, and `snode.retain(|x| !x.is_empty())` (closure), which removes the sets of the non-representatives - they are empty,
// see the last postcondition - and so numbers the supernodes by their representatives in increasing order, the numbering that
// pothen_sun_renumber uses for snode_parent.
//@fn file=src/solver/chordal/supernode_tree.rs name=find_supernodes as=find_supernodes_fill rules=R3,R5 from="for (i, &f) in snode_index.iter().enumerate()" to="for (i, &f) in snode_index.iter().enumerate()" header="fn find_supernodes_fill(snode_index: &Vec<isize>, snode: &mut Vec<VertexSet>)"
//@contract
    requires
        old(snode)@.len() == snode_index@.len(), forall|k: int| 0 <= k < old(snode)@.len() ==> (#[trigger] old(snode)@[k])@ == Seq::<usize>::empty(),
        // a non-negative entry names a vertex (sn_inv of the vertex loop of pothen_sun, unit chordal_tree)
        forall|x: int| 0 <= x < snode_index@.len() ==> #[trigger] snode_index@[x] < snode_index@.len(),
    ensures
        final(snode)@.len() == snode_index@.len(),
        // C17: set number r holds exactly the vertices whose representative is r, each once, in increasing order: every vertex lies in
        // exactly one set, the one of its representative
        forall|r: int| 0 <= r < snode_index@.len() ==> (#[trigger] final(snode)@[r])@ == members_upto(snode_index@, r, snode_index@.len() as int),
        forall|x: int| 0 <= x < snode_index@.len() ==> final(snode)@[#[trigger] rep_of(snode_index@, x)]@.contains(x as usize),
        forall|r: int, x: usize| 0 <= r < snode_index@.len() && #[trigger] final(snode)@[r]@.contains(x) ==> x < snode_index@.len() && rep_of(snode_index@, x as int) == r,
        // the set of a vertex that is nobody's representative stays empty; that of a representative contains it
        forall|r: int| 0 <= r < snode_index@.len() && snode_index@[r] < 0 ==> (#[trigger] final(snode)@[r])@.contains(r as usize),
//@pre
    let ghost si = snode_index@;
    let ghost n = snode_index@.len() as int;
    proof { assert(snode_index@.len() == snode_index.len()); }
//@iter 1
it
//@loop 1
        invariant
            i_ctr == it.index@, si == snode_index@, n == si.len(), n <= usize::MAX, it.seq().len() == n, forall|k: int| 0 <= k < n ==> *(#[trigger] it.seq()[k]) == si[k],
            snode@.len() == n, forall|x: int| 0 <= x < n ==> #[trigger] si[x] < n,
            forall|r: int| 0 <= r < n ==> (#[trigger] snode@[r])@ == members_upto(si, r, it.index@ as int),
//@body_start 1
        let ghost gi = it.index@ as int;
        let ghost sn0 = snode@;
        proof { assert(si[gi] < n); lemma_members_upto(si, rep_of(si, gi), gi); }
//@body_end 1
        proof {
            assert forall|r: int| 0 <= r < n implies (#[trigger] snode@[r])@ == members_upto(si, r, gi + 1) by {
                if r != rep_of(si, gi) { assert(snode@[r] == sn0[r]); }
                else { assert(!members_upto(si, r, gi).contains(gi as usize)); }
            }
        }
//@post
    proof {
        assert forall|x: int| 0 <= x < n implies snode@[#[trigger] rep_of(si, x)]@.contains(x as usize) by { lemma_members_upto(si, rep_of(si, x), n); }
        assert forall|r: int, x: usize| 0 <= r < n && #[trigger] snode@[r]@.contains(x) implies x < n && rep_of(si, x as int) == r by {
            lemma_members_upto(si, r, n);
            assert(members_upto(si, r, n).contains((x as int) as usize));
        }
        assert forall|r: int| 0 <= r < n && si[r] < 0 implies (#[trigger] snode@[r])@.contains(r as usize) by { lemma_members_upto(si, r, n); }
    }
//@end

// ---- find_separators ----
//@struct file=src/algebra/csc/core.rs name=CscMatrix
// square, n + 1 monotone column pointers that stay inside rowval (values are never read); as in unit chordal_tree
pub open spec fn L_wf(L: CscMatrix<F>) -> bool {
    &&& L.m == L.n && L.colptr@.len() == L.n + 1
    &&& forall|a: int, b: int| 0 <= a <= b <= L.n ==> L.colptr@[a] <= L.colptr@[b]
    &&& L.colptr@[L.n as int] <= L.rowval@.len()
}
// the higher-order neighbours of v: the stored rows of column v
pub open spec fn col_of(L: CscMatrix<F>, v: int) -> Seq<usize> { L.rowval@.subrange(L.colptr@[v] as int, L.colptr@[v + 1] as int) }
//@fn file=src/solver/chordal/supernode_tree.rs name=find_higher_order_neighbors rules=R1 ret=r
//@contract
    requires L_wf(*L), v < L.n,
    ensures r@ == col_of(*L, v as int),
//@pre
    proof { assert(L.colptr@[v as int] <= L.colptr@[v + 1]); assert(L.colptr@[v + 1] <= L.colptr@[L.n as int]); }
//@end
// rule setmin: Iterator::min over the members of a set (ASSUMED: None for an empty set, else a reference to a smallest member)
#[verifier::external_body]
pub fn usize_slice_min(s: &[usize]) -> (r: Option<&usize>)
    ensures
        r is None <==> s@.len() == 0,
        r matches Some(m) ==> s@.contains(*m) && forall|k: int| 0 <= k < s@.len() ==> *m <= s@[k],
{ s.iter().min() }
// the members of col that are not in sn, among the first k, each once, in the order of col (IndexSet::insert appends iff absent)
pub open spec fn sep_upto(col: Seq<usize>, sn: Seq<usize>, k: int) -> Seq<usize> decreases k {
    if k <= 0 { Seq::empty() } else {
        let r = sep_upto(col, sn, k - 1);
        if !sn.contains(col[k - 1]) && !r.contains(col[k - 1]) { r.push(col[k - 1]) } else { r }
    }
}
pub proof fn lemma_sep_upto(col: Seq<usize>, sn: Seq<usize>, k: int)
    requires 0 <= k <= col.len(),
    ensures
        sep_upto(col, sn, k).no_duplicates(),
        forall|x: usize| #[trigger] sep_upto(col, sn, k).contains(x) <==> col.take(k).contains(x) && !sn.contains(x),
    decreases k,
{
    if k > 0 {
        lemma_sep_upto(col, sn, k - 1);
        let r = sep_upto(col, sn, k - 1);
        let cur = sep_upto(col, sn, k);
        let y = col[k - 1];
        let ck = col.take(k);
        let ck1 = col.take(k - 1);
        assert(ck == ck1.push(y));
        if !sn.contains(y) && !r.contains(y) {
            assert(cur == r.push(y));
            assert forall|a: int, b: int| 0 <= a < cur.len() && 0 <= b < cur.len() && a != b implies cur[a] != cur[b] by {
                if a < r.len() && b < r.len() { } else if a < r.len() { assert(r.contains(r[a])); } else { assert(r.contains(r[b])); }
            }
        }
        assert forall|x: usize| #[trigger] cur.contains(x) <==> ck.contains(x) && !sn.contains(x) by {
            if cur.contains(x) {
                let j = choose|j: int| 0 <= j < cur.len() && cur[j] == x;
                if j < r.len() { assert(r[j] == x); assert(r.contains(x)); let q = choose|q: int| 0 <= q < ck1.len() && ck1[q] == x; assert(ck[q] == x); }
                else { assert(x == y); assert(ck[k - 1] == y); }
            }
            if ck.contains(x) && !sn.contains(x) {
                let q = choose|q: int| 0 <= q < ck.len() && ck[q] == x;
                if q < k - 1 { assert(ck1[q] == x); assert(r.contains(x)); let j = choose|j: int| 0 <= j < r.len() && r[j] == x; assert(cur[j] == x); }
                else { assert(x == y); if r.contains(y) { let j = choose|j: int| 0 <= j < r.len() && r[j] == y; assert(cur[j] == y); } else { assert(cur[r.len() as int] == y); } }
            }
        }
    }
}
// the representative vertex of a supernode as find_separators determines it: its smallest member
pub open spec fn is_min_of(v: usize, sn: Seq<usize>) -> bool { sn.contains(v) && forall|k: int| 0 <= k < sn.len() ==> v <= sn[k] }
// s = the higher-order neighbours (stored rows of the column in L) of the smallest vertex of sn that are not members of sn, each once,
// in the order of the column
pub open spec fn sep_of(L: CscMatrix<F>, sn: Seq<usize>, s: Seq<usize>) -> bool {
    exists|v: usize| #[trigger] is_min_of(v, sn) && v < L.n && s == sep_upto(col_of(L, v as int), sn, col_of(L, v as int).len() as int)
}
//@fn file=src/solver/chordal/supernode_tree.rs name=find_separators rules=R1,zipidx:1=im,setmin ret=r
//@contract
    requires
        L_wf(*L),
        // `iter().min().unwrap()` panics on an empty supernode (find_supernodes retains only non-empty sets); members are vertices
        forall|k: int| 0 <= k < snode@.len() ==> (#[trigger] snode@[k])@.len() > 0,
        forall|k: int, j: int| 0 <= k < snode@.len() && 0 <= j < snode@[k]@.len() ==> (#[trigger] snode@[k]@[j]) < L.n,
    ensures
        r@.len() == snode@.len(),
        // C17: the separator of supernode k = the higher-order neighbours (stored rows of the column in L) of the supernode's
        // smallest vertex that are not members of the supernode, each once, in the order of the column
        forall|k: int| 0 <= k < snode@.len() ==> sep_of(*L, snode@[k]@, (#[trigger] r@[k])@),
        forall|k: int| 0 <= k < snode@.len() ==> (#[trigger] r@[k])@.no_duplicates(),
//@pre
    proof { assert(snode@.len() == snode.len()); }
//@loop 1
        invariant
            L_wf(*L), separators@.len() == snode@.len(), r14_n1 == snode@.len(),
            forall|k: int| 0 <= k < snode@.len() ==> (#[trigger] snode@[k])@.len() > 0,
            forall|k: int, j: int| 0 <= k < snode@.len() && 0 <= j < snode@[k]@.len() ==> (#[trigger] snode@[k]@[j]) < L.n,
            forall|k: int| r14_i1 <= k < snode@.len() ==> (#[trigger] separators@[k])@ == Seq::<usize>::empty(),
            forall|k: int| 0 <= k < r14_i1 ==> sep_of(*L, snode@[k]@, (#[trigger] separators@[k])@),
            forall|k: int| 0 <= k < r14_i1 ==> (#[trigger] separators@[k])@.no_duplicates(),
//@body_start 1
        let ghost gk = r14_i1 as int;
        let ghost sp0 = separators@;
//@after "let vrep ="
        proof {
            let j = choose|j: int| 0 <= j < sn@.len() && sn@[j] == vrep;
            assert(snode@[gk]@[j] < L.n);
            assert(is_min_of(vrep, sn@));
        }
//@iter 2
it2
//@loop 2
            invariant
                adjplus@ == col_of(*L, vrep as int), it2.seq().len() == adjplus@.len(), forall|q: int| 0 <= q < adjplus@.len() ==> *(#[trigger] it2.seq()[q]) == adjplus@[q],
                sep@ == sep_upto(adjplus@, sn@, it2.index@ as int),
//@body_end 1
        proof {
            lemma_sep_upto(adjplus@, sn@, adjplus@.len() as int);
            assert(sep_of(*L, snode@[gk]@, sep@)) by { assert(is_min_of(vrep, snode@[gk]@) && vrep < L.n); }
            assert(sep@.no_duplicates());
        }
//@end

// ---- get_clique ----
//@struct file=src/solver/chordal/supernode_tree.rs name=SuperNodeTree
// the members of b that are not in a, among the first k, in the order of b
pub open spec fn not_in(a: Seq<usize>, b: Seq<usize>, k: int) -> Seq<usize> decreases k {
    if k <= 0 { Seq::empty() } else if a.contains(b[k - 1]) { not_in(a, b, k - 1) } else { not_in(a, b, k - 1).push(b[k - 1]) }
}
impl VertexSet {
    // ASSUMED (indexmap): `a.union(&b)` yields the members of a in their order, then the members of b that are not in a in their order
    // (the stand-in hands them out as a slice, like `iter`)
    #[verifier::external_body] pub fn union(&self, other: &VertexSet) -> (r: &[usize])
        ensures r@ == self@ + not_in(self@, other@, other@.len() as int)
    { unimplemented!() }
}
pub proof fn lemma_not_in(a: Seq<usize>, b: Seq<usize>, k: int)
    requires 0 <= k <= b.len(),
    ensures
        forall|x: usize| #[trigger] not_in(a, b, k).contains(x) <==> b.take(k).contains(x) && !a.contains(x),
        b.no_duplicates() ==> not_in(a, b, k).no_duplicates(),
        not_in(a, b, k).len() <= k,
    decreases k,
{
    if k > 0 {
        lemma_not_in(a, b, k - 1);
        let r = not_in(a, b, k - 1);
        let cur = not_in(a, b, k);
        let y = b[k - 1];
        let bk = b.take(k);
        let bk1 = b.take(k - 1);
        assert(bk == bk1.push(y));
        assert forall|x: usize| #[trigger] cur.contains(x) <==> bk.contains(x) && !a.contains(x) by {
            if cur.contains(x) {
                let j = choose|j: int| 0 <= j < cur.len() && cur[j] == x;
                if j < r.len() { assert(r[j] == x); assert(r.contains(x)); let q = choose|q: int| 0 <= q < bk1.len() && bk1[q] == x; assert(bk[q] == x); }
                else { assert(x == y); assert(bk[k - 1] == y); }
            }
            if bk.contains(x) && !a.contains(x) {
                let q = choose|q: int| 0 <= q < bk.len() && bk[q] == x;
                if q < k - 1 { assert(bk1[q] == x); assert(r.contains(x)); let j = choose|j: int| 0 <= j < r.len() && r[j] == x; assert(cur[j] == x); }
                else { assert(x == y); assert(cur[r.len() as int] == y); }
            }
        }
        if b.no_duplicates() && !a.contains(y) {
            assert forall|i: int, j: int| 0 <= i < cur.len() && 0 <= j < cur.len() && i != j implies cur[i] != cur[j] by {
                if i < r.len() && j < r.len() { }
                else {
                    let m = if i < r.len() { i } else { j };
                    assert(r.contains(r[m])); assert(bk1.contains(r[m]));
                    let q = choose|q: int| 0 <= q < bk1.len() && bk1[q] == r[m];
                    assert(b[q] == r[m] && b[k - 1] == y);
                }
            }
        }
    }
}
impl SuperNodeTree {
//@fn file=src/solver/chordal/supernode_tree.rs in="impl SuperNodeTree" name=get_clique rules=R17,R5 ret=r
//@contract
    requires
        i < self.snode_post@.len(), self.snode_post@[i as int] < self.snode@.len(), self.snode_post@[i as int] < self.separators@.len(),
        // `set1.len() + set2.len()`: sizes of one problem
        self.snode@[self.snode_post@[i as int] as int]@.len() < 0x8000_0000, self.separators@[self.snode_post@[i as int] as int]@.len() < 0x8000_0000,
    ensures
        // C17: the clique of order i is the union of its supernode and its separator ...
        forall|x: usize| #[trigger] r@.contains(x) <==> self.snode@[self.snode_post@[i as int] as int]@.contains(x) || self.separators@[self.snode_post@[i as int] as int]@.contains(x),
        // ... namely (for sets without repeated members) the supernode followed by the separator vertices that are not in the supernode
        self.snode@[self.snode_post@[i as int] as int]@.no_duplicates() && self.separators@[self.snode_post@[i as int] as int]@.no_duplicates() ==> r@.no_duplicates()
            && r@ == self.snode@[self.snode_post@[i as int] as int]@ + not_in(self.snode@[self.snode_post@[i as int] as int]@, self.separators@[self.snode_post@[i as int] as int]@, self.separators@[self.snode_post@[i as int] as int]@.len() as int),
//@before_loop 1
    let ghost a = set1@;
    let ghost u = a + not_in(a, set2@, set2@.len() as int);
//@iter 1
it
//@loop 1
        invariant
            u == a + not_in(a, set2@, set2@.len() as int), a == set1@, it.seq().len() == u.len(), forall|k: int| 0 <= k < u.len() ==> *(#[trigger] it.seq()[k]) == u[k],
            out@ == ins_all(Seq::<usize>::empty(), u, it.index@ as int),
//@after "for v_r in set1.union(set2)"
    proof {
        let b = not_in(a, set2@, set2@.len() as int);
        lemma_not_in(a, set2@, set2@.len() as int);
        assert(set2@.take(set2@.len() as int) == set2@);
        lemma_concat_contains(a, b);
        lemma_ins_all_full(Seq::<usize>::empty(), u);
        assert(disjoint(a, b));
        if a.no_duplicates() && set2@.no_duplicates() {
            lemma_concat_nodup(a, b);
            assert(disjoint(Seq::<usize>::empty(), u));
            assert(Seq::<usize>::empty() + u == u);
        }
    }
//@end
}

// ---- pothen_sun: the pass over the vertices in post order that groups them into supernodes ----
// snode_index: a negative entry marks a representative vertex (-1 - number of further members), a non-negative one names the
// representative of the supernode the vertex belongs to
pub open spec fn rep_ok(si: Seq<isize>, n: int, x: int) -> bool { si[x] < 0 || (si[x] < n && si[si[x] as int] <= -2) }
pub open spec fn sn_inv(si: Seq<isize>, n: int) -> bool { forall|x: int| 0 <= x < n ==> #[trigger] rep_ok(si, n, x) }
// post is a post order of the elimination tree: a permutation of the vertices (pos = its inverse) in which every vertex comes before
// its parent; only root has no parent
pub open spec fn is_post_order(parent: Seq<usize>, post: Seq<usize>, pos: Seq<int>, root: int) -> bool {
    &&& post.len() == parent.len() && pos.len() == parent.len() && 0 <= root < parent.len() && parent[root] == NO_PARENT
    &&& forall|x: int| 0 <= x < parent.len() ==> 0 <= #[trigger] pos[x] < parent.len() && post[pos[x]] == x
    &&& forall|j: int| 0 <= j < parent.len() ==> #[trigger] post[j] < parent.len() && pos[post[j] as int] == j
    &&& forall|x: int| 0 <= x < parent.len() && x != root ==> #[trigger] parent[x] < parent.len() && pos[x] < pos[parent[x] as int]
}
// the supernodes found so far, when the first idx vertices of the post order have been processed.  top[k] = the member of the supernode
// of representative k that was added last: a supernode is the path k -> parent -> .. -> top[k] of the elimination tree
// an unprocessed vertex is a supernode of its own, or has just been claimed by a child (then it is the top of that supernode)
pub open spec fn unproc_ok(si: Seq<isize>, top: Seq<int>, n: int, x: int) -> bool {
    (si[x] == -1 && top[x] == x) || (0 <= si[x] < n && top[si[x] as int] == x)
}
pub open spec fn top_ok(si: Seq<isize>, top: Seq<int>, n: int, k: int) -> bool { 0 <= top[k] < n && rep_of(si, top[k]) == k }
// every member but the top has been processed and took its parent into the supernode
pub open spec fn member_ok(parent: Seq<usize>, si: Seq<isize>, top: Seq<int>, pos: Seq<int>, idx: int, x: int) -> bool {
    x != top[rep_of(si, x)] ==> pos[x] < idx && parent[x] != NO_PARENT && rep_of(si, parent[x] as int) == rep_of(si, x)
}
// a top that has been processed did not take its parent along: the supernode is closed
pub open spec fn closed_ok(parent: Seq<usize>, si: Seq<isize>, top: Seq<int>, pos: Seq<int>, idx: int, k: int) -> bool {
    pos[top[k]] < idx && parent[top[k]] != NO_PARENT ==> rep_of(si, parent[top[k]] as int) != k
}
pub open spec fn ps_struct(parent: Seq<usize>, si: Seq<isize>, top: Seq<int>, pos: Seq<int>, idx: int) -> bool {
    let n = parent.len() as int;
    &&& si.len() == n && top.len() == n && sn_inv(si, n)
    &&& forall|x: int| 0 <= x < n && pos[x] >= idx ==> #[trigger] unproc_ok(si, top, n, x)
    &&& forall|k: int| 0 <= k < n && si[k] < 0 ==> #[trigger] top_ok(si, top, n, k)
    &&& forall|x: int| 0 <= x < n ==> #[trigger] member_ok(parent, si, top, pos, idx, x)
    &&& forall|k: int| 0 <= k < n && si[k] < 0 ==> #[trigger] closed_ok(parent, si, top, pos, idx, k)
}
// C17: for every edge w -> parent[w] of the elimination tree, both ends processed, that leaves a supernode, snode_parent of that
// supernode's representative is the representative of the supernode of parent[w]
pub open spec fn edge_ok(parent: Seq<usize>, si: Seq<isize>, sp: Seq<usize>, pos: Seq<int>, idx: int, w: int) -> bool {
    pos[w] < idx && parent[w] != NO_PARENT && pos[parent[w] as int] < idx && rep_of(si, w) != rep_of(si, parent[w] as int)
        ==> sp[rep_of(si, w)] == rep_of(si, parent[w] as int)
}
// snode_parent is written only at representatives of closed supernodes whose top has a parent
pub open spec fn written_ok(parent: Seq<usize>, si: Seq<isize>, sp: Seq<usize>, top: Seq<int>, pos: Seq<int>, idx: int, k: int) -> bool {
    sp[k] != NO_PARENT ==> si[k] < 0 && pos[top[k]] < idx && parent[top[k]] != NO_PARENT
}
pub open spec fn ps_vals(parent: Seq<usize>, si: Seq<isize>, sp: Seq<usize>, top: Seq<int>, pos: Seq<int>, idx: int) -> bool {
    let n = parent.len() as int;
    &&& sp.len() == n
    &&& forall|w: int| 0 <= w < n ==> #[trigger] edge_ok(parent, si, sp, pos, idx, w)
    &&& forall|k: int| 0 <= k < n ==> #[trigger] written_ok(parent, si, sp, top, pos, idx, k)
}
pub proof fn lemma_rep_range(si: Seq<isize>, n: int, x: int)
    requires sn_inv(si, n), 0 <= x < n, si.len() == n,
    ensures 0 <= rep_of(si, x) < n, si[rep_of(si, x)] < 0,
{ assert(rep_ok(si, n, x)); }

// one vertex v = post[idx] processed.  kp = its representative, p = its parent.  claim: v took p into its supernode.
// chv = children[v] at the time of the inner loop: the processed vertices whose parent is v (and v itself if it is the root)
pub open spec fn ps_step_si(si0: Seq<isize>, si1: Seq<isize>, p: int, kp: int, claim: bool) -> bool {
    if claim { si1 == si0.update(p, kp as isize).update(kp, (si0[kp] - 1) as isize) } else { si1 == si0 }
}
pub proof fn lemma_ps_step(parent: Seq<usize>, post: Seq<usize>, pos: Seq<int>, root: int, idx: int, v: int, kp: int, claim: bool,
    si0: Seq<isize>, si1: Seq<isize>, top0: Seq<int>, top1: Seq<int>, sp0: Seq<usize>, spm: Seq<usize>, sp1: Seq<usize>, chv: Seq<usize>)
    requires
        is_post_order(parent, post, pos, root), 0 <= idx < parent.len(), v == post[idx], kp == rep_of(si0, v),
        ps_struct(parent, si0, top0, pos, idx), ps_vals(parent, si0, sp0, top0, pos, idx),
        parent.len() < isize::MAX, si0[kp] > isize::MIN + 1,
        claim ==> v != root && si0[parent[v] as int] == -1,
        ps_step_si(si0, si1, parent[v] as int, kp, claim),
        top1 == (if claim { top0.update(kp, parent[v] as int) } else { top0 }),
        // the vertex that does not take its parent along records itself (to be overwritten when the parent is processed)
        spm == (if !claim && v != root { sp0.update(kp, kp as usize) } else { sp0 }),
        sp1.len() == spm.len(),
        // the loop over v's children writes kp at the representatives of the children that are not in v's supernode, nothing else
        forall|m: int| 0 <= m < chv.len() ==> #[trigger] chv[m] < parent.len() && pos[chv[m] as int] <= idx && (chv[m] == v || (chv[m] != root && parent[chv[m] as int] == v)),
        forall|w: int| 0 <= w < parent.len() && pos[w] < idx && w != root && parent[w] == v ==> #[trigger] chv.contains(w as usize),
        forall|m: int| 0 <= m < chv.len() && rep_of(si1, chv[m] as int) != kp ==> sp1[rep_of(si1, #[trigger] chv[m] as int)] == kp,
        forall|l: int| 0 <= l < parent.len() && #[trigger] sp1[l] != spm[l] ==> sp1[l] == kp && exists|m: int| 0 <= m < chv.len() && rep_of(si1, #[trigger] chv[m] as int) == l && l != kp,
    ensures
        ps_struct(parent, si1, top1, pos, idx + 1), ps_vals(parent, si1, sp1, top1, pos, idx + 1),
{
    let n = parent.len() as int;
    let p = parent[v] as int;
    assert(pos[v] == idx);
    lemma_rep_range(si0, n, v);
    assert(unproc_ok(si0, top0, n, v));
    assert(top_ok(si0, top0, n, kp));
    assert(top0[kp] == v);
    if v != root { assert(parent[v] < n && pos[v] < pos[p]); assert(unproc_ok(si0, top0, n, p)); }
    // representatives of processed vertices and of v do not change
    assert forall|x: int| 0 <= x < n && (x != p || !claim) implies rep_of(si1, x) == rep_of(si0, x) by {
        if claim { assert(rep_ok(si0, n, x)); }
    }
    if claim { assert(rep_of(si1, p) == kp); assert(rep_of(si0, p) == p); assert(p != kp) by { if p == kp { assert(si0[kp] == -1); assert(kp == v); } } }
    assert(sn_inv(si1, n)) by {
        assert forall|x: int| 0 <= x < n implies #[trigger] rep_ok(si1, n, x) by {
            assert(rep_ok(si0, n, x));
            if claim && si0[x] >= 0 { assert(rep_ok(si0, n, si0[x] as int)); }
        }
    }
    assert forall|x: int| 0 <= x < n && pos[x] >= idx + 1 implies #[trigger] unproc_ok(si1, top1, n, x) by {
        assert(unproc_ok(si0, top0, n, x));
        if claim {
            if x == p { }
            else {
                // x is not the top of kp's supernode (that was v), and x is not kp (kp is v or processed)
                if si0[x] >= 0 && si0[x] == kp { assert(top0[kp] == x); }
                if x == kp { assert(kp == v || si0[v] >= 0); if si0[v] >= 0 { assert(member_ok(parent, si0, top0, pos, idx, kp)); assert(rep_of(si0, kp) == kp); } }
            }
        }
    }
    assert forall|k: int| 0 <= k < n && si1[k] < 0 implies #[trigger] top_ok(si1, top1, n, k) by {
        if claim { assert(k != p); if k != kp { assert(si0[k] < 0); assert(top_ok(si0, top0, n, k)); assert(top0[k] != p) by { if top0[k] == p { assert(rep_of(si0, p) == k); } } } }
        else { assert(top_ok(si0, top0, n, k)); }
    }
    assert forall|x: int| 0 <= x < n implies #[trigger] member_ok(parent, si1, top1, pos, idx + 1, x) by {
        assert(member_ok(parent, si0, top0, pos, idx, x));
        lemma_rep_range(si0, n, x);
        if claim {
            if x == p { }
            else if x == v { }
            else {
                let k = rep_of(si0, x);
                if k == kp { assert(x != top0[kp]); assert(parent[x] != p) by { if parent[x] == p { assert(rep_of(si0, p) == kp); } } }
                else if x != top0[k] { assert(parent[x] != p) by { if parent[x] == p { assert(rep_of(si0, p) == k); assert(k == p); assert(rep_ok(si0, n, x)); } } }
                else { assert(top1[k] == top0[k]); }
            }
        }
    }
    assert forall|k: int| 0 <= k < n && si1[k] < 0 implies #[trigger] closed_ok(parent, si1, top1, pos, idx + 1, k) by {
        if claim {
            if k == kp { }
            else {
                assert(k != p); assert(si0[k] < 0);
                assert(closed_ok(parent, si0, top0, pos, idx, k)); assert(top_ok(si0, top0, n, k));
                let t = top0[k];
                assert(t != v) by { if t == v { assert(rep_of(si0, v) == k); } }
                if pos[t] < idx + 1 && parent[t] != NO_PARENT && parent[t] == p { }
            }
        } else {
            assert(closed_ok(parent, si0, top0, pos, idx, k)); assert(top_ok(si0, top0, n, k));
            if k == kp && v != root {
                // p is unprocessed: a supernode of its own, or claimed by another child whose supernode is not kp
                if rep_of(si0, p) == kp { if si0[p] == -1 { assert(p == kp); assert(member_ok(parent, si0, top0, pos, idx, p)); } else { assert(top0[kp] == p); } }
            } else if top0[k] == v { assert(rep_of(si0, v) == k); }
        }
    }
    // ---- values ----
    // a child of v that is not in v's supernode is the top of its own
    assert forall|m: int| 0 <= m < chv.len() && rep_of(si1, chv[m] as int) != kp implies top1[rep_of(si1, #[trigger] chv[m] as int)] == chv[m] && chv[m] != v && parent[chv[m] as int] == v && pos[chv[m] as int] < idx by {
        let w = chv[m] as int;
        assert(w != v);
        assert(member_ok(parent, si1, top1, pos, idx + 1, w));
        lemma_rep_range(si1, n, w);
    }
    assert forall|w: int| 0 <= w < n implies #[trigger] edge_ok(parent, si1, sp1, pos, idx + 1, w) by {
        if pos[w] < idx + 1 && parent[w] != NO_PARENT && pos[parent[w] as int] < idx + 1 && rep_of(si1, w) != rep_of(si1, parent[w] as int) {
            let q = parent[w] as int;
            assert(w != root);
            assert(parent[w] < n && pos[w] < pos[q]);
            assert(pos[w] < idx);
            lemma_rep_range(si1, n, w); lemma_rep_range(si1, n, q);
            let l = rep_of(si1, w);
            if q == v {
                assert(chv.contains(w as usize));
                let m = choose|m: int| 0 <= m < chv.len() && chv[m] == w as usize;
                assert(sp1[rep_of(si1, chv[m] as int)] == kp);
            } else {
                assert(pos[q] < idx);
                assert(edge_ok(parent, si0, sp0, pos, idx, w));
                assert(sp0[l] == rep_of(si0, q));
                // w is the top of its supernode (its parent lies outside)
                assert(member_ok(parent, si1, top1, pos, idx + 1, w));
                assert(top1[l] == w);
                if spm[l] != sp0[l] { assert(l == kp); assert(top1[kp] == v || top1[kp] == p); }
                if sp1[l] != spm[l] {
                    let m = choose|m: int| 0 <= m < chv.len() && rep_of(si1, #[trigger] chv[m] as int) == l && l != kp;
                    assert(top1[rep_of(si1, chv[m] as int)] == chv[m]);
                }
            }
        }
    }
    assert forall|k: int| 0 <= k < n implies #[trigger] written_ok(parent, si1, sp1, top1, pos, idx + 1, k) by {
        if sp1[k] != NO_PARENT {
            assert(written_ok(parent, si0, sp0, top0, pos, idx, k));
            if sp1[k] != spm[k] {
                let m = choose|m: int| 0 <= m < chv.len() && rep_of(si1, #[trigger] chv[m] as int) == k && k != kp;
                assert(top1[rep_of(si1, chv[m] as int)] == chv[m]);
                lemma_rep_range(si1, n, chv[m] as int);
            } else if spm[k] != sp0[k] {
                assert(k == kp && !claim && v != root);
            } else {
                // written before: its top was processed before, so k is neither kp (top v) nor p (top p)
                assert(si0[k] < 0 && pos[top0[k]] < idx);
                assert(k != kp);
                if claim { assert(k != p) by { if k == p { assert(top0[p] == p); } } }
            }
        }
    }
}

pub proof fn lemma_ps_init(parent: Seq<usize>, post: Seq<usize>, pos: Seq<int>, root: int, si: Seq<isize>, sp: Seq<usize>, top: Seq<int>)
    requires
        is_post_order(parent, post, pos, root), si.len() == parent.len(), sp.len() == parent.len(), top.len() == parent.len(),
        forall|x: int| 0 <= x < parent.len() ==> #[trigger] si[x] == -1, forall|x: int| 0 <= x < parent.len() ==> #[trigger] sp[x] == NO_PARENT,
        forall|x: int| 0 <= x < parent.len() ==> #[trigger] top[x] == x,
    ensures ps_struct(parent, si, top, pos, 0), ps_vals(parent, si, sp, top, pos, 0),
{
    let n = parent.len() as int;
    assert forall|x: int| 0 <= x < n implies #[trigger] rep_ok(si, n, x) by { assert(si[x] == -1); }
    assert forall|x: int| 0 <= x < n && pos[x] >= 0 implies #[trigger] unproc_ok(si, top, n, x) by { assert(si[x] == -1 && top[x] == x); }
    assert forall|k: int| 0 <= k < n && si[k] < 0 implies #[trigger] top_ok(si, top, n, k) by { assert(top[k] == k); }
    assert forall|x: int| 0 <= x < n implies #[trigger] member_ok(parent, si, top, pos, 0, x) by { assert(si[x] == -1); assert(top[x] == x); }
    assert forall|k: int| 0 <= k < n && si[k] < 0 implies #[trigger] closed_ok(parent, si, top, pos, 0, k) by { assert(top[k] == k); }
    assert forall|w: int| 0 <= w < n implies #[trigger] edge_ok(parent, si, sp, pos, 0, w) by { }
    assert forall|k: int| 0 <= k < n implies #[trigger] written_ok(parent, si, sp, top, pos, 0, k) by { assert(sp[k] == NO_PARENT); }
}
// C17 (what the vertex loop of pothen_sun leaves in snode_parent, all vertices processed): the supernode of representative k is the path
// k -> .. -> top[k] of the elimination tree, and snode_parent[k] is the representative of the supernode that contains the parent of
// top[k] - a different supernode - or NO_PARENT if top[k] is the root
pub open spec fn snode_parent_ok(parent: Seq<usize>, si: Seq<isize>, sp: Seq<usize>, top: Seq<int>, k: int) -> bool {
    &&& 0 <= top[k] < parent.len() && rep_of(si, top[k]) == k
    &&& parent[top[k]] == NO_PARENT ==> sp[k] == NO_PARENT
    &&& parent[top[k]] != NO_PARENT ==> sp[k] == rep_of(si, parent[top[k]] as int) && sp[k] != k && sp[k] < parent.len() && si[sp[k] as int] < 0
}
pub open spec fn on_path(parent: Seq<usize>, si: Seq<isize>, top: Seq<int>, x: int) -> bool {
    x != top[rep_of(si, x)] ==> parent[x] != NO_PARENT && rep_of(si, parent[x] as int) == rep_of(si, x)
}
pub open spec fn snode_tree_ok(parent: Seq<usize>, si: Seq<isize>, sp: Seq<usize>, top: Seq<int>) -> bool {
    &&& top.len() == parent.len()
    &&& forall|k: int| 0 <= k < parent.len() && si[k] < 0 ==> #[trigger] snode_parent_ok(parent, si, sp, top, k)
    &&& forall|x: int| 0 <= x < parent.len() ==> #[trigger] on_path(parent, si, top, x)
}
pub proof fn lemma_ps_final(parent: Seq<usize>, post: Seq<usize>, pos: Seq<int>, root: int, si: Seq<isize>, sp: Seq<usize>, top: Seq<int>)
    requires is_post_order(parent, post, pos, root), ps_struct(parent, si, top, pos, parent.len() as int), ps_vals(parent, si, sp, top, pos, parent.len() as int),
    ensures
        forall|k: int| 0 <= k < parent.len() && si[k] < 0 ==> #[trigger] snode_parent_ok(parent, si, sp, top, k),
        forall|x: int| 0 <= x < parent.len() ==> #[trigger] on_path(parent, si, top, x),
        // a vertex that is nobody's representative carries no parent entry
        forall|x: int| 0 <= x < parent.len() && si[x] >= 0 ==> #[trigger] sp[x] == NO_PARENT,
{
    let n = parent.len() as int;
    assert forall|k: int| 0 <= k < n && si[k] < 0 implies #[trigger] snode_parent_ok(parent, si, sp, top, k) by {
        assert(top_ok(si, top, n, k)); assert(closed_ok(parent, si, top, pos, n, k)); assert(written_ok(parent, si, sp, top, pos, n, k));
        let t = top[k];
        if parent[t] != NO_PARENT {
            assert(t != root);
            assert(parent[t] < n);
            assert(edge_ok(parent, si, sp, pos, n, t));
            lemma_rep_range(si, n, parent[t] as int);
        }
    }
    assert forall|x: int| 0 <= x < n implies #[trigger] on_path(parent, si, top, x) by { assert(member_ok(parent, si, top, pos, n, x)); }
    assert forall|x: int| 0 <= x < n && si[x] >= 0 implies #[trigger] sp[x] == NO_PARENT by { assert(written_ok(parent, si, sp, top, pos, n, x)); }
}
// the child sets while the loop runs: a member of children[p] is a processed vertex whose parent is p (the root is listed as its own
// child: `children[root_index].insert(v)`), and every processed vertex but the root is listed at its parent
pub open spec fn kid_ok(parent: Seq<usize>, pos: Seq<int>, idx: int, root: int, p: int, w: usize) -> bool {
    w < parent.len() && pos[w as int] < idx && (w != root ==> parent[w as int] == p) && (w == root ==> p == root)
}
pub open spec fn listed(parent: Seq<usize>, ch: Seq<VertexSet>, w: int) -> bool { ch[parent[w] as int]@.contains(w as usize) }
pub open spec fn kids(parent: Seq<usize>, ch: Seq<VertexSet>, pos: Seq<int>, idx: int, root: int) -> bool {
    &&& forall|p: int, m: int| 0 <= p < ch.len() && 0 <= m < ch[p]@.len() ==> kid_ok(parent, pos, idx, root, p, #[trigger] ch[p]@[m])
    &&& forall|w: int| 0 <= w < parent.len() && pos[w] < idx && w != root ==> #[trigger] listed(parent, ch, w)
}
// statement slice of pothen_sun: the loop `for &v in post` (the slice of unit chordal_tree, with a stronger contract).  DROPPED: the
// allocations before it (snode_index = [-1; n], snode_parent = [NO_PARENT; n], n empty child sets: preconditions), the search for the
// root (`position(..).unwrap()`: closure) and everything after the loop (see pothen_sun_renumber).
//@fn file=src/solver/chordal/supernode_tree.rs name=pothen_sun as=pothen_sun_loop rules=R5,setiter:v_children from="for &v in post" to="for &v in post" header="fn pothen_sun_loop(parent: &[usize], post: &[usize], degree: &[usize], snode_index: &mut Vec<isize>, snode_parent: &mut Vec<usize>, children: &mut Vec<VertexSet>, root_index: usize)"
//@contract
    requires
        parent@.len() == degree@.len(), old(snode_index)@.len() == parent@.len(), old(snode_parent)@.len() == parent@.len(), old(children)@.len() == parent@.len(),
        parent@.len() < isize::MAX,
        // post is a post order of the elimination tree whose only root is root_index (post_order; parent_from_L: only the last vertex is a root)
        exists|pos: Seq<int>| is_post_order(parent@, post@, pos, root_index as int),
        // `degree[v] - 1` underflows for a non-root vertex of higher degree 0 (excluded by connect_graph, see unit chordal_tree)
        forall|v: int| 0 <= v < parent@.len() && v != root_index ==> #[trigger] degree@[v] >= 1,
        forall|x: int| 0 <= x < parent@.len() ==> #[trigger] old(snode_index)@[x] == -1,
        forall|x: int| 0 <= x < parent@.len() ==> #[trigger] old(snode_parent)@[x] == NO_PARENT,
        forall|p: int| 0 <= p < parent@.len() ==> (#[trigger] old(children)@[p])@ == Seq::<usize>::empty(),
    ensures
        final(snode_index)@.len() == parent@.len(), final(snode_parent)@.len() == parent@.len(), final(children)@.len() == parent@.len(),
        // C17 (supernodes partition the vertices): every vertex is a representative or points at one that has further members
        sn_inv(final(snode_index)@, parent@.len() as int),
        // C17 (supernodal elimination tree): each supernode is a path of the elimination tree; snode_parent of its representative is the
        // representative of the supernode holding the parent of the path's top vertex (NO_PARENT for the supernode of the root)
        exists|top: Seq<int>| #[trigger] snode_tree_ok(parent@, final(snode_index)@, final(snode_parent)@, top),
        forall|x: int| 0 <= x < parent@.len() && final(snode_index)@[x] >= 0 ==> #[trigger] final(snode_parent)@[x] == NO_PARENT,
//@pre
    let ghost n = parent@.len() as int;
    let ghost pos = choose|pos: Seq<int>| is_post_order(parent@, post@, pos, root_index as int);
    let ghost root = root_index as int;
    let ghost top: Seq<int> = Seq::new(parent@.len(), |i: int| i);
    proof {
        lemma_ps_init(parent@, post@, pos, root, snode_index@, snode_parent@, top);
        assert(kids(parent@, children@, pos, 0, root));
    }
//@iter 1
it1
//@loop 1
        invariant
            n == parent@.len(), parent@.len() == degree@.len(), snode_index@.len() == n, snode_parent@.len() == n, children@.len() == n,
            n < isize::MAX, root == root_index, is_post_order(parent@, post@, pos, root),
            it1.seq().len() == post@.len(), forall|i: int| 0 <= i < post@.len() ==> *(#[trigger] it1.seq()[i]) == post@[i],
            forall|v: int| 0 <= v < n && v != root ==> #[trigger] degree@[v] >= 1,
            ps_struct(parent@, snode_index@, top, pos, it1.index@ as int), ps_vals(parent@, snode_index@, snode_parent@, top, pos, it1.index@ as int),
            kids(parent@, children@, pos, it1.index@ as int, root),
            forall|x: int| 0 <= x < n ==> #[trigger] snode_index@[x] >= -1 - it1.index@,
//@body_start 1
        let ghost gidx = it1.index@ as int;
        let ghost gv = post@[gidx] as int;
        let ghost si0 = snode_index@;
        let ghost sp0 = snode_parent@;
        let ghost ch0 = children@;
        let ghost top0 = top;
        let ghost kp = rep_of(si0, gv);
        let ghost gp = parent@[gv] as int;
        proof {
            assert(*v_r == post@[gidx]);
            assert(post@[gidx] < n && pos[post@[gidx] as int] == gidx);
            assert(rep_ok(si0, n, gv));
            lemma_rep_range(si0, n, gv);
            if gv != root { assert(parent@[gv] < n && pos[gv] < pos[gp]); assert(rep_ok(si0, n, gp)); }
            else { assert(parent@[root] == NO_PARENT); }
            assert(parent@[gv] == NO_PARENT <==> gv == root);
            assert(si0[kp] >= -1 - gidx);
        }
//@before "if parent[v] != NO_PARENT"
        proof {
            // v is now listed at its parent (the root at itself); nothing else changed in the child sets
            let tgt = if gv == root { root } else { gp };
            assert(children@[tgt]@ == (if ch0[tgt]@.contains(gv as usize) { ch0[tgt]@ } else { ch0[tgt]@.push(gv as usize) }));
            assert forall|p: int, m: int| 0 <= p < children@.len() && 0 <= m < children@[p]@.len() implies kid_ok(parent@, pos, gidx + 1, root, p, #[trigger] children@[p]@[m]) by {
                if p != tgt { assert(children@[p] == ch0[p]); assert(kid_ok(parent@, pos, gidx, root, p, ch0[p]@[m])); }
                else if m < ch0[tgt]@.len() { assert(kid_ok(parent@, pos, gidx, root, p, ch0[p]@[m])); }
            }
            assert forall|w: int| 0 <= w < n && pos[w] < gidx + 1 && w != root implies #[trigger] listed(parent@, children@, w) by {
                if w == gv {
                    if ch0[tgt]@.contains(gv as usize) { } else { assert(children@[tgt]@[ch0[tgt]@.len() as int] == gv as usize); }
                } else {
                    assert(pos[w] < gidx) by { if pos[w] == gidx { assert(post@[pos[w]] == w); } }
                    assert(listed(parent@, ch0, w));
                    let q = parent@[w] as int;
                    if q == tgt { let j = choose|j: int| 0 <= j < ch0[tgt]@.len() && ch0[tgt]@[j] == w as usize; assert(children@[tgt]@[j] == w as usize); }
                    else { assert(children@[q] == ch0[q]); }
                }
            }
            assert(kids(parent@, children@, pos, gidx + 1, root));
        }
//@before "let k: isize"
        let ghost claim = gv != root && degree@[gv] - 1 == degree@[gp] && si0[gp] == -1;
        let ghost si1 = snode_index@;
        let ghost spm = snode_parent@;
        proof {
            if claim {
                assert(gp != kp) by { if gp == kp { assert(rep_ok(si0, n, gv)); } }
                top = top0.update(kp, gp);
            }
            assert(ps_step_si(si0, si1, gp, kp, claim));
            assert(spm == (if !claim && gv != root { sp0.update(kp, kp as usize) } else { sp0 }));
            assert forall|x: int| 0 <= x < n implies #[trigger] snode_index@[x] >= -1 - (gidx + 1) by { assert(si0[x] >= -1 - gidx); }
            assert(rep_of(si1, gv) == kp);
            assert(sn_inv(si1, n)) by {
                assert forall|x: int| 0 <= x < n implies #[trigger] rep_ok(si1, n, x) by {
                    assert(rep_ok(si0, n, x));
                    if si0[x] >= 0 { assert(rep_ok(si0, n, si0[x] as int)); }
                }
            }
            assert forall|x: int| 0 <= x < n implies 0 <= #[trigger] rep_of(si1, x) < n by { lemma_rep_range(si1, n, x); }
        }
//@after "let k: isize"
        let ghost chv = children@[gv]@;
        proof {
            assert(k == kp);
            assert forall|m: int| 0 <= m < chv.len() implies #[trigger] chv[m] < n by { assert(kid_ok(parent@, pos, gidx + 1, root, gv, children@[gv]@[m])); }
        }
//@iter 2
it2
//@loop 2
                invariant
                    snode_index@ == si1, snode_index@.len() == n, snode_parent@.len() == n, spm.len() == n, n < isize::MAX, 0 <= k < n, k == kp, chv == v_children@,
                    it2.seq().len() == chv.len(), forall|i: int| 0 <= i < chv.len() ==> *(#[trigger] it2.seq()[i]) == chv[i],
                    forall|m: int| 0 <= m < chv.len() ==> #[trigger] chv[m] < n,
                    forall|x: int| 0 <= x < n ==> 0 <= #[trigger] rep_of(si1, x) < n,
                    forall|m: int| 0 <= m < it2.index@ && rep_of(si1, chv[m] as int) != kp ==> snode_parent@[rep_of(si1, #[trigger] chv[m] as int)] == kp,
                    forall|l: int| 0 <= l < n && #[trigger] snode_parent@[l] != spm[l] ==> snode_parent@[l] == kp && exists|m: int| 0 <= m < it2.index@ && rep_of(si1, #[trigger] chv[m] as int) == l && l != kp,
//@body_start 2
                let ghost gm = it2.index@ as int;
                let ghost spb = snode_parent@;
                proof { assert(*w_r == chv[gm]); assert(chv[gm] < n); assert(0 <= rep_of(si1, chv[gm] as int) < n); }
//@body_end 2
                proof {
                    assert(l == rep_of(si1, chv[gm] as int));
                    assert forall|m: int| 0 <= m < gm + 1 && rep_of(si1, chv[m] as int) != kp implies snode_parent@[rep_of(si1, #[trigger] chv[m] as int)] == kp by {
                        if m < gm { assert(spb[rep_of(si1, chv[m] as int)] == kp); }
                    }
                    assert forall|q: int| 0 <= q < n && #[trigger] snode_parent@[q] != spm[q] implies snode_parent@[q] == kp && exists|m: int| 0 <= m < gm + 1 && rep_of(si1, #[trigger] chv[m] as int) == q && q != kp by {
                        if q == l && l != kp { assert(0 <= gm < gm + 1 && rep_of(si1, chv[gm] as int) == q && q != kp); }
                        else {
                            assert(snode_parent@[q] == spb[q]);
                            let m = choose|m: int| 0 <= m < gm && rep_of(si1, #[trigger] chv[m] as int) == q && q != kp;
                            assert(0 <= m < gm + 1 && rep_of(si1, chv[m] as int) == q && q != kp);
                        }
                    }
                }
//@body_end 1
        proof {
            assert forall|m: int| 0 <= m < chv.len() implies #[trigger] chv[m] < parent@.len() && pos[chv[m] as int] <= gidx && (chv[m] == gv || (chv[m] != root && parent@[chv[m] as int] == gv)) by {
                assert(kid_ok(parent@, pos, gidx + 1, root, gv, children@[gv]@[m]));
            }
            assert forall|w: int| 0 <= w < parent@.len() && pos[w] < gidx && w != root && parent@[w] == gv implies #[trigger] chv.contains(w as usize) by {
                assert(listed(parent@, children@, w));
            }
            lemma_ps_step(parent@, post@, pos, root, gidx, gv, kp, claim, si0, si1, top0, top, sp0, spm, snode_parent@, chv);
        }
//@post
    proof { lemma_ps_final(parent@, post@, pos, root, snode_index@, snode_parent@, top); assert(snode_tree_ok(parent@, snode_index@, snode_parent@, top)); }
//@end

} // verus!
fn main() {}
