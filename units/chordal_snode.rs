#![allow(non_snake_case)]
// unit `chordal_snode` : construction of the supernodal elimination tree (C17)  -- header completed at the end of the file's development
use vstd::prelude::*;
verus! {
global size_of usize == 8;
//@features serde,sdp
//@include prelude/float_opaque.rs
//@include units/inc/chordal_sets.rs
//@const file=src/solver/chordal/supernode_tree.rs name=NO_PARENT
//@const file=src/solver/chordal/supernode_tree.rs name=INACTIVE_NODE

// ---- post_order: the stack loop ----
// the child sets name children: a member of children[p] is a vertex whose parent is p
pub open spec fn kids_fwd(parent: Seq<usize>, ch: Seq<VertexSet>) -> bool {
    forall|p: int, k: int| 0 <= p < ch.len() && 0 <= k < ch[p]@.len() ==> (#[trigger] ch[p]@[k]) < parent.len() && parent[ch[p]@[k] as int] == p
}
pub open spec fn kids_nodup(ch: Seq<VertexSet>) -> bool { forall|p: int| 0 <= p < ch.len() ==> (#[trigger] ch[p])@.no_duplicates() }
// number of vertices among the first k that are not marked INACTIVE_NODE (merged cliques)
pub open spec fn cnt_active(par: Seq<usize>, k: int) -> int decreases k {
    if k <= 0 { 0 } else { cnt_active(par, k - 1) + (if par[k - 1] != INACTIVE_NODE { 1int } else { 0int }) }
}
// distinct active vertices: at most cnt_active of them
pub proof fn lemma_active_count(s: Seq<usize>, par: Seq<usize>, n: int)
    requires s.no_duplicates(), 0 <= n <= par.len(), n <= usize::MAX, forall|i: int| 0 <= i < s.len() ==> #[trigger] s[i] < n && par[s[i] as int] != INACTIVE_NODE,
    ensures s.len() <= cnt_active(par, n),
    decreases n,
{
    if n == 0 {
        if s.len() > 0 { assert(s[0] < 0); }
    } else {
        let last = (n - 1) as usize;
        lemma_rm(s, last);
        let s2 = rm(s, last);
        assert forall|i: int| 0 <= i < s2.len() implies #[trigger] s2[i] < n - 1 && par[s2[i] as int] != INACTIVE_NODE by {
            assert(s2.contains(s2[i]));
            assert(s.contains(s2[i]) && s2[i] != last);
            let k = choose|k: int| 0 <= k < s.len() && s[k] == s2[i];
            assert(s[k] < n);
        }
        lemma_active_count(s2, par, n - 1);
        if s.contains(last) { let k = choose|k: int| 0 <= k < s.len() && s[k] == last; assert(par[s[k] as int] != INACTIVE_NODE); }
    }
}
pub open spec fn popped_before(ps: Seq<usize>, k: int, y: usize) -> bool { exists|j: int| 0 <= j < k && ps[j] == y }
// ps = the vertices in the order in which the loop popped them
pub open spec fn pop_seq_ok(parent: Seq<usize>, ch: Seq<VertexSet>, order: Seq<usize>, nc: int, root: int, ps: Seq<usize>) -> bool {
    &&& 1 <= ps.len() <= nc && ps.no_duplicates() && ps[0] == root
    // the k-th vertex popped gets order nc - k: distinct orders nc, nc - 1, .. >= 1; a vertex that is never popped keeps nc + 1
    &&& forall|k: int| 0 <= k < ps.len() ==> #[trigger] ps[k] < parent.len() && order[ps[k] as int] == nc - k
    &&& forall|x: int| 0 <= x < parent.len() && !ps.contains(x as usize) ==> #[trigger] order[x] == nc + 1
    // every popped vertex but the root was pushed by its parent, which was popped before it (a topological order: parents first)
    &&& forall|k: int| 1 <= k < ps.len() ==> #[trigger] popped_before(ps, k, parent[ps[k] as int])
    // every child of a popped vertex is popped: the whole subtree of the root is visited
    &&& forall|k: int, m: int| 0 <= k < ps.len() && 0 <= m < ch[ps[k] as int]@.len() ==> ps.contains(#[trigger] ch[ps[k] as int]@[m])
}
// statement slice of post_order: the counter and the stack loop.  DROPPED: the allocation `order = vec![nc + 1; n]`, the search for the
// root (`position(|&x| x == NO_PARENT).unwrap()`: closure), `stack = [root]`, `post = 0..n` (for_each closure) - they are the slice's
// preconditions - and, after the loop, `post.sort_by(|&x, &y| order[x].cmp(&order[y]))` (closure; std sort) and the truncation to nc.
//@fn file=src/solver/chordal/supernode_tree.rs name=post_order as=post_order_loop rules=extset from="let mut i = nc;" to="while let Some(v) = stack.pop()" header="fn post_order_loop(order: &mut Vec<usize>, stack: &mut Vec<usize>, parent: &[usize], children: &mut [VertexSet], nc: usize)"
//@contract
    requires
        old(order)@.len() == parent@.len(), old(children)@.len() == parent@.len(), parent@.len() < 0x8000_0000, nc < usize::MAX,
        old(stack)@.len() == 1, old(stack)@[0] < parent@.len(), parent@[old(stack)@[0] as int] == NO_PARENT,
        forall|x: int| 0 <= x < parent@.len() ==> #[trigger] old(order)@[x] == nc + 1,
        kids_fwd(parent@, old(children)@), kids_nodup(old(children)@),
        // `i -= 1` underflows at the (nc + 1)-th pop: at most nc vertices are not marked INACTIVE_NODE.  First call (vertices): nc = n.
        // Calls after a merge: nc = n_cliques = number of cliques not marked inactive (unit chordal_merge: tree_ok)
        cnt_active(parent@, parent@.len() as int) <= nc,
    ensures
        final(order)@.len() == parent@.len(), final(children)@.len() == parent@.len(), final(stack)@.len() == 0,
        // C17 (post order): every vertex reachable from the root is popped exactly once
        exists|ps: Seq<usize>| pop_seq_ok(parent@, final(children)@, final(order)@, nc as int, old(stack)@[0] as int, ps),
        // the child sets keep their members (those of a popped vertex are sorted)
        forall|p: int| 0 <= p < parent@.len() ==> same_members((#[trigger] final(children)@[p])@, old(children)@[p]@) && final(children)@[p]@.no_duplicates(),
        kids_fwd(parent@, final(children)@),
//@pre
    let ghost n = parent@.len() as int;
    let ghost root = stack@[0];
    let ghost ch0 = children@;
    let ghost ps: Seq<usize> = Seq::empty();
    // the stack as it stands at the loop head (the loop pops before any annotation can look at it)
    let ghost gs: Seq<usize> = stack@;
//@loop 1
        invariant
            gs == stack@,
            n == parent@.len(), order@.len() == n, children@.len() == n, n < 0x8000_0000, nc < usize::MAX, root < n, parent@[root as int] == NO_PARENT,
            cnt_active(parent@, n) <= nc, kids_fwd(parent@, children@), kids_nodup(children@),
            forall|p: int| 0 <= p < n ==> same_members((#[trigger] children@[p])@, ch0[p]@),
            // stack and popped vertices: distinct vertices, the two disjoint
            stack@.no_duplicates(), ps.no_duplicates(), disjoint(stack@, ps),
            forall|k: int| 0 <= k < stack@.len() ==> #[trigger] stack@[k] < n,
            ps.len() == 0 ==> stack@ =~= seq![root],
            ps.len() > 0 ==> ps[0] == root,
            // whoever is on the stack (except the root) was pushed by its parent, which has been popped
            forall|k: int| 0 <= k < stack@.len() && stack@[k] != root ==> ps.contains(parent@[#[trigger] stack@[k] as int]),
            forall|k: int| 1 <= k < ps.len() ==> #[trigger] popped_before(ps, k, parent@[ps[k] as int]),
            i == nc - ps.len(), ps.len() <= nc,
            forall|k: int| 0 <= k < ps.len() ==> #[trigger] ps[k] < n && order@[ps[k] as int] == nc - k,
            forall|x: int| 0 <= x < n && !ps.contains(x as usize) ==> #[trigger] order@[x] == nc + 1,
            forall|k: int, m: int| 0 <= k < ps.len() && 0 <= m < children@[ps[k] as int]@.len() ==>
                ps.contains(#[trigger] children@[ps[k] as int]@[m]) || stack@.contains(children@[ps[k] as int]@[m]),
        ensures stack@.len() == 0,
        decreases n - ps.len(),
//@body_start 1
        let ghost st1 = stack@;
        let ghost sb = gs;
        let ghost ps0 = ps;
        let ghost chb = children@;
        let ghost ord0 = order@;
        proof {
            // v was the top of the stack: a vertex that has not been popped before and is not on the stack a second time
            assert(sb.len() == st1.len() + 1 && sb[st1.len() as int] == v);
            assert(v < n);
            assert(!ps0.contains(v)) by { if ps0.contains(v) { assert(sb.contains(v)); } }
            assert(!st1.contains(v)) by {
                if st1.contains(v) { let k = choose|k: int| 0 <= k < st1.len() && st1[k] == v; assert(sb[k] == v); }
            }
            assert(v != root ==> ps0.contains(parent@[v as int]));
            if ps0.len() == 0 { assert(v == root); }
            // it is not marked inactive (the root has NO_PARENT, everybody else a parent below n), and neither is anyone popped before:
            // fewer than nc vertices have been popped, `i >= 1`
            let ps1 = ps0.push(v);
            assert(ps1.no_duplicates()) by {
                assert forall|a: int, b: int| 0 <= a < ps1.len() && 0 <= b < ps1.len() && a != b implies ps1[a] != ps1[b] by {
                    if a < ps0.len() && b < ps0.len() { } else if a < ps0.len() { assert(ps0.contains(ps0[a])); } else { assert(ps0.contains(ps0[b])); }
                }
            }
            assert forall|k: int| 0 <= k < ps1.len() implies #[trigger] ps1[k] < n && parent@[ps1[k] as int] != INACTIVE_NODE by {
                if k == 0 { assert(ps1[0] == root); }
                else if k < ps0.len() { assert(popped_before(ps0, k, parent@[ps0[k] as int])); let j = choose|j: int| 0 <= j < k && ps0[j] == parent@[ps0[k] as int]; assert(ps0[j] < n); }
                else { let y = parent@[v as int]; assert(ps0.contains(y)); let j = choose|j: int| 0 <= j < ps0.len() && ps0[j] == y; assert(ps0[j] < n); }
            }
            lemma_active_count(ps1, parent@, n);
            lemma_nodup_bounded(ps1, n);
        }
//@after "children[v].sort();"
        let ghost cv = children@[v as int]@;
        proof {
            assert(same_members(cv, chb[v as int]@));
            assert forall|m: int| 0 <= m < cv.len() implies #[trigger] cv[m] < n && parent@[cv[m] as int] == v by {
                assert(cv.contains(cv[m]));
                assert(chb[v as int]@.contains(cv[m]));
                let k0 = choose|k0: int| 0 <= k0 < chb[v as int]@.len() && chb[v as int]@[k0] == cv[m];
                assert(chb[v as int]@[k0] < n && parent@[chb[v as int]@[k0] as int] == v);
            }
            assert(kids_fwd(parent@, children@)) by {
                assert forall|p: int, k: int| 0 <= p < children@.len() && 0 <= k < children@[p]@.len() implies
                    (#[trigger] children@[p]@[k]) < parent@.len() && parent@[children@[p]@[k] as int] == p by {
                    if p == v { assert(cv[k] < n && parent@[cv[k] as int] == v); }
                    else { assert(children@[p] == chb[p]); assert(chb[p]@[k] < n && parent@[chb[p]@[k] as int] == p); }
                }
            }
            assert(kids_nodup(children@)) by {
                assert forall|p: int| 0 <= p < children@.len() implies (#[trigger] children@[p])@.no_duplicates() by {
                    if p != v { assert(children@[p] == chb[p]); assert(chb[p]@.no_duplicates()); } else { assert(chb[v as int]@.no_duplicates()); }
                }
            }
            assert forall|p: int| 0 <= p < n implies same_members((#[trigger] children@[p])@, ch0[p]@) by {
                assert(same_members(chb[p]@, ch0[p]@));
                if p != v { assert(children@[p] == chb[p]); }
            }
        }
//@body_end 1
        proof {
            ps = ps0.push(v);
            assert(stack@ == st1 + cv);
            lemma_concat_contains(st1, cv);
            // a child of v is neither popped nor on the stack: otherwise its parent v would have been popped before
            assert forall|m: int| 0 <= m < cv.len() implies !ps.contains(#[trigger] cv[m]) && !st1.contains(cv[m]) by {
                let w = cv[m];
                assert(parent@[w as int] == v);
                assert(w != root);
                if ps0.contains(w) {
                    let k = choose|k: int| 0 <= k < ps0.len() && ps0[k] == w;
                    assert(k >= 1);
                    assert(popped_before(ps0, k, parent@[ps0[k] as int]));
                    let j = choose|j: int| 0 <= j < k && ps0[j] == parent@[ps0[k] as int];
                    assert(ps0.contains(v));
                }
                if w == v { assert(ps0.contains(parent@[v as int])); }
                if st1.contains(w) {
                    let k = choose|k: int| 0 <= k < st1.len() && st1[k] == w;
                    assert(sb[k] == w);
                    assert(ps0.contains(parent@[sb[k] as int]));
                }
                if ps.contains(w) { let k = choose|k: int| 0 <= k < ps.len() && ps[k] == w; if k < ps0.len() { assert(ps0[k] == w); assert(ps0.contains(w)); } }
            }
            assert(disjoint(st1, cv)) by { assert forall|x: usize| !(st1.contains(x) && cv.contains(x)) by { if cv.contains(x) { let m = choose|m: int| 0 <= m < cv.len() && cv[m] == x; assert(!st1.contains(cv[m])); } } }
            assert(st1.no_duplicates()) by {
                assert forall|a: int, b: int| 0 <= a < st1.len() && 0 <= b < st1.len() && a != b implies st1[a] != st1[b] by { assert(sb[a] == st1[a] && sb[b] == st1[b]); }
            }
            assert(cv.no_duplicates());
            lemma_concat_nodup(st1, cv);
            assert(disjoint(stack@, ps)) by {
                assert forall|x: usize| !(stack@.contains(x) && ps.contains(x)) by {
                    if stack@.contains(x) && ps.contains(x) {
                        let k = choose|k: int| 0 <= k < ps.len() && ps[k] == x;
                        if cv.contains(x) { let m = choose|m: int| 0 <= m < cv.len() && cv[m] == x; assert(!ps.contains(cv[m])); }
                        else {
                            assert(st1.contains(x));
                            let q = choose|q: int| 0 <= q < st1.len() && st1[q] == x;
                            assert(sb[q] == x); assert(sb.contains(x));
                            if k < ps0.len() { assert(ps0[k] == x); assert(ps0.contains(x)); }
                        }
                    }
                }
            }
            assert forall|k: int| 0 <= k < stack@.len() implies #[trigger] stack@[k] < n by {
                if k < st1.len() { assert(sb[k] == st1[k]); } else { assert(cv[k - st1.len()] < n); }
            }
            assert forall|k: int| 0 <= k < stack@.len() && stack@[k] != root implies ps.contains(parent@[#[trigger] stack@[k] as int]) by {
                if k < st1.len() {
                    assert(sb[k] == st1[k]);
                    let y = parent@[sb[k] as int];
                    assert(ps0.contains(y));
                    let j = choose|j: int| 0 <= j < ps0.len() && ps0[j] == y; assert(ps[j] == y);
                } else { assert(parent@[cv[k - st1.len()] as int] == v); assert(ps[ps0.len() as int] == v); }
            }
            assert forall|k: int| 1 <= k < ps.len() implies #[trigger] popped_before(ps, k, parent@[ps[k] as int]) by {
                if k < ps0.len() {
                    assert(popped_before(ps0, k, parent@[ps0[k] as int]));
                    let j = choose|j: int| 0 <= j < k && ps0[j] == parent@[ps0[k] as int]; assert(ps[j] == ps0[j]);
                } else {
                    let y = parent@[v as int];
                    assert(ps0.contains(y));
                    let j = choose|j: int| 0 <= j < ps0.len() && ps0[j] == y; assert(ps[j] == y);
                }
            }
            assert forall|k: int| 0 <= k < ps.len() implies #[trigger] ps[k] < n && order@[ps[k] as int] == nc - k by {
                if k < ps0.len() { assert(ps0[k] == ps[k]); assert(ps0.contains(ps0[k])); assert(ord0[ps0[k] as int] == nc - k); }
            }
            assert forall|x: int| 0 <= x < n && !ps.contains(x as usize) implies #[trigger] order@[x] == nc + 1 by {
                assert(x != v) by { if x == v { assert(ps[ps0.len() as int] == v); } }
                if ps0.contains(x as usize) { let j = choose|j: int| 0 <= j < ps0.len() && ps0[j] == x as usize; assert(ps[j] == x as usize); }
                assert(ord0[x] == nc + 1);
            }
            assert forall|k: int, m: int| 0 <= k < ps.len() && 0 <= m < children@[ps[k] as int]@.len() implies
                ps.contains(#[trigger] children@[ps[k] as int]@[m]) || stack@.contains(children@[ps[k] as int]@[m]) by {
                if k < ps0.len() {
                    assert(ps0[k] == ps[k]); assert(ps0.contains(ps0[k])); assert(ps0[k] != v);
                    assert(children@[ps0[k] as int] == chb[ps0[k] as int]);
                    let w = chb[ps0[k] as int]@[m];
                    if ps0.contains(w) { let j = choose|j: int| 0 <= j < ps0.len() && ps0[j] == w; assert(ps[j] == w); }
                    else {
                        assert(sb.contains(w));
                        let q = choose|q: int| 0 <= q < sb.len() && sb[q] == w;
                        if q < st1.len() { assert(st1[q] == w); assert(st1.contains(w)); } else { assert(w == v); assert(ps[ps0.len() as int] == v); }
                    }
                } else { assert(cv.contains(cv[m])); }
            }
            if ps0.len() == 0 { assert(v == root); }
            gs = stack@;
        }
//@post
    proof {
        assert(stack@.len() == 0);
        if ps.len() == 0 { assert(stack@[0] == root); }
        assert forall|k: int, m: int| 0 <= k < ps.len() && 0 <= m < children@[ps[k] as int]@.len() implies ps.contains(#[trigger] children@[ps[k] as int]@[m]) by {
            let w = children@[ps[k] as int]@[m];
            if stack@.contains(w) { let q = choose|q: int| 0 <= q < stack@.len() && stack@[q] == w; }
        }
        assert(pop_seq_ok(parent@, children@, order@, nc as int, root as int, ps));
    }
//@end

// consequence: the orders are a topological numbering - a popped vertex other than the root has a smaller order than its parent, and
// both lie in 1..=nc  (what makes `sort_by(order)` a post order: children before parents, the root last)
pub proof fn lemma_post_order_topological(parent: Seq<usize>, ch: Seq<VertexSet>, order: Seq<usize>, nc: int, root: int, ps: Seq<usize>, k: int)
    requires pop_seq_ok(parent, ch, order, nc, root, ps), 1 <= k < ps.len(),
    ensures
        parent[ps[k] as int] < parent.len(), ps.contains(parent[ps[k] as int]),
        1 <= order[ps[k] as int] < order[parent[ps[k] as int] as int] <= nc, order[root] == nc,
{
    assert(popped_before(ps, k, parent[ps[k] as int]));
    let j = choose|j: int| 0 <= j < k && ps[j] == parent[ps[k] as int];
    assert(ps[j] < parent.len() && order[ps[j] as int] == nc - j);
    assert(ps[k] < parent.len() && order[ps[k] as int] == nc - k);
    assert(ps[0] < parent.len() && order[ps[0] as int] == nc - 0);
}

// ---- pothen_sun: renumbering of the representative vertices (the tail of the function) ----
// rule iterpos: Iterator::position over a slice of usize (ASSUMED: index of the first element equal to x, None if there is none)
#[verifier::external_body]
pub fn usize_slice_position(s: &Vec<usize>, x: usize) -> (r: Option<usize>)
    ensures
        r matches Some(j) ==> j < s@.len() && s@[j as int] == x && forall|k: int| 0 <= k < j ==> s@[k] != x,
        r is None ==> forall|k: int| 0 <= k < s@.len() ==> s@[k] != x,
{ s.iter().position(|&y| y == x) }
// statement slice of pothen_sun: the loop that turns "parent = a representative VERTEX" into "parent = NUMBER of that representative".
// DROPPED (its preconditions): `repr_vertex = snode_index.iter().position_all(|&x| *x < 0)` (the representatives in increasing
// order), `repr_parent = repr_vertex.iter().map(|&i| snode_parent[i]).collect()`, `snode_parent.clear(); .resize(len, NO_PARENT)` -
// closures with patterns - and the returned pair.
//@fn file=src/solver/chordal/supernode_tree.rs name=pothen_sun as=pothen_sun_renumber rules=R3,R5,iterpos from="for (i, &rp) in repr_parent.iter().enumerate()" to="for (i, &rp) in repr_parent.iter().enumerate()" header="fn pothen_sun_renumber(repr_vertex: &Vec<usize>, repr_parent: &Vec<usize>, snode_parent: &mut Vec<usize>)"
//@contract
    requires old(snode_parent)@.len() == repr_vertex@.len(), repr_parent@.len() == repr_vertex@.len(), repr_vertex@.len() < NO_PARENT,
    ensures
        final(snode_parent)@.len() == repr_vertex@.len(),
        // C17: supernode i's parent is the NUMBER (position in the list of representatives) of the representative vertex recorded as
        // its parent, NO_PARENT if that vertex is no representative (the root supernode carries NO_PARENT itself, which is no vertex)
        forall|i: int| 0 <= i < repr_vertex@.len() ==> (#[trigger] final(snode_parent)@[i] < repr_vertex@.len() && repr_vertex@[final(snode_parent)@[i] as int] == repr_parent@[i])
            || (final(snode_parent)@[i] == NO_PARENT && forall|k: int| 0 <= k < repr_vertex@.len() ==> repr_vertex@[k] != repr_parent@[i]),
//@iter 1
it
//@loop 1
        invariant
            i_ctr == it.index@, it.seq().len() == repr_parent@.len(), forall|k: int| 0 <= k < repr_parent@.len() ==> *(#[trigger] it.seq()[k]) == repr_parent@[k],
            snode_parent@.len() == repr_vertex@.len(), repr_parent@.len() == repr_vertex@.len(), repr_vertex@.len() < NO_PARENT,
            forall|i: int| 0 <= i < it.index@ ==> (#[trigger] snode_parent@[i] < repr_vertex@.len() && repr_vertex@[snode_parent@[i] as int] == repr_parent@[i])
                || (snode_parent@[i] == NO_PARENT && forall|k: int| 0 <= k < repr_vertex@.len() ==> repr_vertex@[k] != repr_parent@[i]),
//@end

// ---- find_supernodes: filling the supernodes from snode_index ----
// the representative of vertex x (snode_index: negative = x is a representative, else the representative's vertex number)
pub open spec fn rep_of(si: Seq<isize>, x: int) -> int { if si[x] < 0 { x } else { si[x] as int } }
// the vertices among the first k whose representative is r, in increasing order
pub open spec fn members_upto(si: Seq<isize>, r: int, k: int) -> Seq<usize> decreases k {
    if k <= 0 { Seq::empty() } else if rep_of(si, k - 1) == r { members_upto(si, r, k - 1).push((k - 1) as usize) } else { members_upto(si, r, k - 1) }
}
pub proof fn lemma_members_upto(si: Seq<isize>, r: int, k: int)
    requires 0 <= k <= si.len(), k <= usize::MAX,
    ensures
        forall|x: int| 0 <= x <= usize::MAX && #[trigger] members_upto(si, r, k).contains(x as usize) ==> 0 <= x < k && rep_of(si, x) == r,
        forall|x: int| 0 <= x < k && rep_of(si, x) == r ==> #[trigger] members_upto(si, r, k).contains(x as usize),
        members_upto(si, r, k).no_duplicates(), ascending(members_upto(si, r, k)),
        forall|j: int| 0 <= j < members_upto(si, r, k).len() ==> #[trigger] members_upto(si, r, k)[j] < k,
    decreases k,
{
    if k > 0 {
        lemma_members_upto(si, r, k - 1);
        let prev = members_upto(si, r, k - 1);
        let cur = members_upto(si, r, k);
        if rep_of(si, k - 1) == r {
            assert(cur == prev.push((k - 1) as usize));
            assert forall|x: int| 0 <= x <= usize::MAX && #[trigger] cur.contains(x as usize) implies 0 <= x < k && rep_of(si, x) == r by {
                let j = choose|j: int| 0 <= j < cur.len() && cur[j] == x as usize;
                if j < prev.len() { assert(prev[j] == cur[j]); assert(prev.contains(x as usize)); }
            }
            assert forall|x: int| 0 <= x < k && rep_of(si, x) == r implies #[trigger] cur.contains(x as usize) by {
                if x < k - 1 { assert(prev.contains(x as usize)); let j = choose|j: int| 0 <= j < prev.len() && prev[j] == x as usize; assert(cur[j] == x as usize); }
                else { assert(cur[prev.len() as int] == x as usize); }
            }
            assert forall|a: int, b: int| 0 <= a < b < cur.len() implies cur[a] < cur[b] by {
                if b < prev.len() { assert(prev[a] < prev[b]); } else { assert(prev[a] < k - 1); }
            }
            assert(cur.no_duplicates());
        }
    }
}
// statement slice of find_supernodes: the loop over snode_index.  DROPPED: `new_vertex_sets(n)` (n empty sets: precondition), the call
// of pothen_sun, and `snode.retain(|x| !x.is_empty())` (closure), which removes the sets of the non-representatives - they are empty,
// see the last postcondition - and so numbers the supernodes by their representatives in increasing order, the numbering that
// pothen_sun_renumber uses for snode_parent.
//@fn file=src/solver/chordal/supernode_tree.rs name=find_supernodes as=find_supernodes_fill rules=R3,R5 from="for (i, &f) in snode_index.iter().enumerate()" to="for (i, &f) in snode_index.iter().enumerate()" header="fn find_supernodes_fill(snode_index: &Vec<isize>, snode: &mut Vec<VertexSet>)"
//@contract
    requires
        old(snode)@.len() == snode_index@.len(), forall|k: int| 0 <= k < old(snode)@.len() ==> (#[trigger] old(snode)@[k])@ == Seq::<usize>::empty(),
        // a non-negative entry names a vertex (sn_inv of the vertex loop of pothen_sun, unit chordal_tree)
        forall|x: int| 0 <= x < snode_index@.len() ==> #[trigger] snode_index@[x] < snode_index@.len(),
    ensures
        final(snode)@.len() == snode_index@.len(),
        // C17: set number r holds exactly the vertices whose representative is r, each once, in increasing order: every vertex lies in
        // exactly one set, the one of its representative
        forall|r: int| 0 <= r < snode_index@.len() ==> (#[trigger] final(snode)@[r])@ == members_upto(snode_index@, r, snode_index@.len() as int),
        forall|x: int| 0 <= x < snode_index@.len() ==> final(snode)@[rep_of(snode_index@, x)]@.contains(x as usize),
        forall|r: int, x: usize| 0 <= r < snode_index@.len() && #[trigger] final(snode)@[r]@.contains(x) ==> x < snode_index@.len() && rep_of(snode_index@, x as int) == r,
        // the set of a vertex that is nobody's representative stays empty; that of a representative contains it
        forall|r: int| 0 <= r < snode_index@.len() && snode_index@[r] < 0 ==> (#[trigger] final(snode)@[r])@.contains(r as usize),
//@pre
    let ghost si = snode_index@;
    let ghost n = snode_index@.len() as int;
    proof { assert(snode_index@.len() == snode_index.len()); }
//@iter 1
it
//@loop 1
        invariant
            i_ctr == it.index@, si == snode_index@, n == si.len(), n <= usize::MAX, it.seq().len() == n, forall|k: int| 0 <= k < n ==> *(#[trigger] it.seq()[k]) == si[k],
            snode@.len() == n, forall|x: int| 0 <= x < n ==> #[trigger] si[x] < n,
            forall|r: int| 0 <= r < n ==> (#[trigger] snode@[r])@ == members_upto(si, r, it.index@ as int),
//@body_start 1
        let ghost gi = it.index@ as int;
        let ghost sn0 = snode@;
        proof { assert(si[gi] < n); lemma_members_upto(si, rep_of(si, gi), gi); }
//@body_end 1
        proof {
            assert forall|r: int| 0 <= r < n implies (#[trigger] snode@[r])@ == members_upto(si, r, gi + 1) by {
                if r != rep_of(si, gi) { assert(snode@[r] == sn0[r]); }
                else { assert(!members_upto(si, r, gi).contains(gi as usize)); }
            }
        }
//@post
    proof {
        assert forall|x: int| 0 <= x < n implies snode@[rep_of(si, x)]@.contains(x as usize) by { lemma_members_upto(si, rep_of(si, x), n); }
        assert forall|r: int, x: usize| 0 <= r < n && #[trigger] snode@[r]@.contains(x) implies x < n && rep_of(si, x as int) == r by {
            lemma_members_upto(si, r, n);
            assert(members_upto(si, r, n).contains((x as int) as usize));
        }
        assert forall|r: int| 0 <= r < n && si[r] < 0 implies (#[trigger] snode@[r])@.contains(r as usize) by { lemma_members_upto(si, r, n); }
    }
//@end

// ---- find_separators ----
//@struct file=src/algebra/csc/core.rs name=CscMatrix
// square, n + 1 monotone column pointers that stay inside rowval (values are never read); as in unit chordal_tree
pub open spec fn L_wf(L: CscMatrix<F>) -> bool {
    &&& L.m == L.n && L.colptr@.len() == L.n + 1
    &&& forall|a: int, b: int| 0 <= a <= b <= L.n ==> L.colptr@[a] <= L.colptr@[b]
    &&& L.colptr@[L.n as int] <= L.rowval@.len()
}
// the higher-order neighbours of v: the stored rows of column v
pub open spec fn col_of(L: CscMatrix<F>, v: int) -> Seq<usize> { L.rowval@.subrange(L.colptr@[v] as int, L.colptr@[v + 1] as int) }
//@fn file=src/solver/chordal/supernode_tree.rs name=find_higher_order_neighbors rules=R1 ret=r
//@contract
    requires L_wf(*L), v < L.n,
    ensures r@ == col_of(*L, v as int),
//@pre
    proof { assert(L.colptr@[v as int] <= L.colptr@[v + 1]); assert(L.colptr@[v + 1] <= L.colptr@[L.n as int]); }
//@end
// rule setmin: Iterator::min over the members of a set (ASSUMED: None for an empty set, else a reference to a smallest member)
#[verifier::external_body]
pub fn usize_slice_min(s: &[usize]) -> (r: Option<&usize>)
    ensures
        r is None <==> s@.len() == 0,
        r matches Some(m) ==> s@.contains(*m) && forall|k: int| 0 <= k < s@.len() ==> *m <= s@[k],
{ s.iter().min() }
// the members of col that are not in sn, among the first k, each once, in the order of col (IndexSet::insert appends iff absent)
pub open spec fn sep_upto(col: Seq<usize>, sn: Seq<usize>, k: int) -> Seq<usize> decreases k {
    if k <= 0 { Seq::empty() } else {
        let r = sep_upto(col, sn, k - 1);
        if !sn.contains(col[k - 1]) && !r.contains(col[k - 1]) { r.push(col[k - 1]) } else { r }
    }
}
pub proof fn lemma_sep_upto(col: Seq<usize>, sn: Seq<usize>, k: int)
    requires 0 <= k <= col.len(),
    ensures
        sep_upto(col, sn, k).no_duplicates(),
        forall|x: usize| #[trigger] sep_upto(col, sn, k).contains(x) <==> col.take(k).contains(x) && !sn.contains(x),
    decreases k,
{
    if k > 0 {
        lemma_sep_upto(col, sn, k - 1);
        let r = sep_upto(col, sn, k - 1);
        let cur = sep_upto(col, sn, k);
        let y = col[k - 1];
        let ck = col.take(k);
        let ck1 = col.take(k - 1);
        assert(ck == ck1.push(y));
        if !sn.contains(y) && !r.contains(y) {
            assert(cur == r.push(y));
            assert forall|a: int, b: int| 0 <= a < cur.len() && 0 <= b < cur.len() && a != b implies cur[a] != cur[b] by {
                if a < r.len() && b < r.len() { } else if a < r.len() { assert(r.contains(r[a])); } else { assert(r.contains(r[b])); }
            }
        }
        assert forall|x: usize| #[trigger] cur.contains(x) <==> ck.contains(x) && !sn.contains(x) by {
            if cur.contains(x) {
                let j = choose|j: int| 0 <= j < cur.len() && cur[j] == x;
                if j < r.len() { assert(r[j] == x); assert(r.contains(x)); let q = choose|q: int| 0 <= q < ck1.len() && ck1[q] == x; assert(ck[q] == x); }
                else { assert(x == y); assert(ck[k - 1] == y); }
            }
            if ck.contains(x) && !sn.contains(x) {
                let q = choose|q: int| 0 <= q < ck.len() && ck[q] == x;
                if q < k - 1 { assert(ck1[q] == x); assert(r.contains(x)); let j = choose|j: int| 0 <= j < r.len() && r[j] == x; assert(cur[j] == x); }
                else { assert(x == y); if r.contains(y) { let j = choose|j: int| 0 <= j < r.len() && r[j] == y; assert(cur[j] == y); } else { assert(cur[r.len() as int] == y); } }
            }
        }
    }
}
// the representative vertex of a supernode as find_separators determines it: its smallest member
pub open spec fn is_min_of(v: usize, sn: Seq<usize>) -> bool { sn.contains(v) && forall|k: int| 0 <= k < sn.len() ==> v <= sn[k] }
// s = the higher-order neighbours (stored rows of the column in L) of the smallest vertex of sn that are not members of sn, each once,
// in the order of the column
pub open spec fn sep_of(L: CscMatrix<F>, sn: Seq<usize>, s: Seq<usize>) -> bool {
    exists|v: usize| #[trigger] is_min_of(v, sn) && v < L.n && s == sep_upto(col_of(L, v as int), sn, col_of(L, v as int).len() as int)
}
//@fn file=src/solver/chordal/supernode_tree.rs name=find_separators rules=R1,zipidx:1=im,setmin ret=r
//@contract
    requires
        L_wf(*L),
        // `iter().min().unwrap()` panics on an empty supernode (find_supernodes retains only non-empty sets); members are vertices
        forall|k: int| 0 <= k < snode@.len() ==> (#[trigger] snode@[k])@.len() > 0,
        forall|k: int, j: int| 0 <= k < snode@.len() && 0 <= j < snode@[k]@.len() ==> (#[trigger] snode@[k]@[j]) < L.n,
    ensures
        r@.len() == snode@.len(),
        // C17: the separator of supernode k = the higher-order neighbours (stored rows of the column in L) of the supernode's
        // smallest vertex that are not members of the supernode, each once, in the order of the column
        forall|k: int| 0 <= k < snode@.len() ==> sep_of(*L, snode@[k]@, (#[trigger] r@[k])@),
        forall|k: int| 0 <= k < snode@.len() ==> (#[trigger] r@[k])@.no_duplicates(),
//@pre
    proof { assert(snode@.len() == snode.len()); }
//@loop 1
        invariant
            L_wf(*L), separators@.len() == snode@.len(), r14_n1 == snode@.len(),
            forall|k: int| 0 <= k < snode@.len() ==> (#[trigger] snode@[k])@.len() > 0,
            forall|k: int, j: int| 0 <= k < snode@.len() && 0 <= j < snode@[k]@.len() ==> (#[trigger] snode@[k]@[j]) < L.n,
            forall|k: int| r14_i1 <= k < snode@.len() ==> (#[trigger] separators@[k])@ == Seq::<usize>::empty(),
            forall|k: int| 0 <= k < r14_i1 ==> sep_of(*L, snode@[k]@, (#[trigger] separators@[k])@),
            forall|k: int| 0 <= k < r14_i1 ==> (#[trigger] separators@[k])@.no_duplicates(),
//@body_start 1
        let ghost gk = r14_i1 as int;
        let ghost sp0 = separators@;
//@after "let vrep ="
        proof {
            let j = choose|j: int| 0 <= j < sn@.len() && sn@[j] == vrep;
            assert(snode@[gk]@[j] < L.n);
            assert(is_min_of(vrep, sn@));
        }
//@iter 2
it2
//@loop 2
            invariant
                adjplus@ == col_of(*L, vrep as int), it2.seq().len() == adjplus@.len(), forall|q: int| 0 <= q < adjplus@.len() ==> *(#[trigger] it2.seq()[q]) == adjplus@[q],
                sep@ == sep_upto(adjplus@, sn@, it2.index@ as int),
//@body_end 1
        proof {
            lemma_sep_upto(adjplus@, sn@, adjplus@.len() as int);
            assert(sep_of(*L, snode@[gk]@, sep@)) by { assert(is_min_of(vrep, snode@[gk]@) && vrep < L.n); }
            assert(sep@.no_duplicates());
        }
//@end

// ---- get_clique ----
//@struct file=src/solver/chordal/supernode_tree.rs name=SuperNodeTree
// the members of b that are not in a, among the first k, in the order of b
pub open spec fn not_in(a: Seq<usize>, b: Seq<usize>, k: int) -> Seq<usize> decreases k {
    if k <= 0 { Seq::empty() } else if a.contains(b[k - 1]) { not_in(a, b, k - 1) } else { not_in(a, b, k - 1).push(b[k - 1]) }
}
impl VertexSet {
    // ASSUMED (indexmap): `a.union(&b)` yields the members of a in their order, then the members of b that are not in a in their order
    // (the stand-in hands them out as a slice, like `iter`)
    #[verifier::external_body] pub fn union(&self, other: &VertexSet) -> (r: &[usize])
        ensures r@ == self@ + not_in(self@, other@, other@.len() as int)
    { unimplemented!() }
}
pub proof fn lemma_not_in(a: Seq<usize>, b: Seq<usize>, k: int)
    requires 0 <= k <= b.len(),
    ensures
        forall|x: usize| #[trigger] not_in(a, b, k).contains(x) <==> b.take(k).contains(x) && !a.contains(x),
        b.no_duplicates() ==> not_in(a, b, k).no_duplicates(),
        not_in(a, b, k).len() <= k,
    decreases k,
{
    if k > 0 {
        lemma_not_in(a, b, k - 1);
        let r = not_in(a, b, k - 1);
        let cur = not_in(a, b, k);
        let y = b[k - 1];
        let bk = b.take(k);
        let bk1 = b.take(k - 1);
        assert(bk == bk1.push(y));
        assert forall|x: usize| #[trigger] cur.contains(x) <==> bk.contains(x) && !a.contains(x) by {
            if cur.contains(x) {
                let j = choose|j: int| 0 <= j < cur.len() && cur[j] == x;
                if j < r.len() { assert(r[j] == x); assert(r.contains(x)); let q = choose|q: int| 0 <= q < bk1.len() && bk1[q] == x; assert(bk[q] == x); }
                else { assert(x == y); assert(bk[k - 1] == y); }
            }
            if bk.contains(x) && !a.contains(x) {
                let q = choose|q: int| 0 <= q < bk.len() && bk[q] == x;
                if q < k - 1 { assert(bk1[q] == x); assert(r.contains(x)); let j = choose|j: int| 0 <= j < r.len() && r[j] == x; assert(cur[j] == x); }
                else { assert(x == y); assert(cur[r.len() as int] == y); }
            }
        }
        if b.no_duplicates() && !a.contains(y) {
            assert forall|i: int, j: int| 0 <= i < cur.len() && 0 <= j < cur.len() && i != j implies cur[i] != cur[j] by {
                if i < r.len() && j < r.len() { }
                else {
                    let m = if i < r.len() { i } else { j };
                    assert(r.contains(r[m])); assert(bk1.contains(r[m]));
                    let q = choose|q: int| 0 <= q < bk1.len() && bk1[q] == r[m];
                    assert(b[q] == r[m] && b[k - 1] == y);
                }
            }
        }
    }
}
impl SuperNodeTree {
//@fn file=src/solver/chordal/supernode_tree.rs in="impl SuperNodeTree" name=get_clique rules=R17,R5 ret=r
//@contract
    requires
        i < self.snode_post@.len(), self.snode_post@[i as int] < self.snode@.len(), self.snode_post@[i as int] < self.separators@.len(),
        // `set1.len() + set2.len()`: sizes of one problem
        self.snode@[self.snode_post@[i as int] as int]@.len() < 0x8000_0000, self.separators@[self.snode_post@[i as int] as int]@.len() < 0x8000_0000,
    ensures
        // C17: the clique of order i is the union of its supernode and its separator ...
        forall|x: usize| #[trigger] r@.contains(x) <==> self.snode@[self.snode_post@[i as int] as int]@.contains(x) || self.separators@[self.snode_post@[i as int] as int]@.contains(x),
        // ... namely (for sets without repeated members) the supernode followed by the separator vertices that are not in the supernode
        self.snode@[self.snode_post@[i as int] as int]@.no_duplicates() && self.separators@[self.snode_post@[i as int] as int]@.no_duplicates() ==> r@.no_duplicates()
            && r@ == self.snode@[self.snode_post@[i as int] as int]@ + not_in(self.snode@[self.snode_post@[i as int] as int]@, self.separators@[self.snode_post@[i as int] as int]@, self.separators@[self.snode_post@[i as int] as int]@.len() as int),
//@before_loop 1
    let ghost a = set1@;
    let ghost u = a + not_in(a, set2@, set2@.len() as int);
//@iter 1
it
//@loop 1
        invariant
            u == a + not_in(a, set2@, set2@.len() as int), a == set1@, it.seq().len() == u.len(), forall|k: int| 0 <= k < u.len() ==> *(#[trigger] it.seq()[k]) == u[k],
            out@ == ins_all(Seq::<usize>::empty(), u, it.index@ as int),
//@after "for v_r in set1.union(set2)"
    proof {
        let b = not_in(a, set2@, set2@.len() as int);
        lemma_not_in(a, set2@, set2@.len() as int);
        assert(set2@.take(set2@.len() as int) == set2@);
        lemma_concat_contains(a, b);
        lemma_ins_all_full(Seq::<usize>::empty(), u);
        assert(disjoint(a, b));
        if a.no_duplicates() && set2@.no_duplicates() {
            lemma_concat_nodup(a, b);
            assert(disjoint(Seq::<usize>::empty(), u));
            assert(Seq::<usize>::empty() + u == u);
        }
    }
//@end
}

} // verus!
fn main() {}
