// unit `nonsym_cones` : the three nonsymmetric cones (cones/expcone.rs, powcone.rs, genpowcone.rs), their shared code
// (cones/nonsymmetric_common.rs) and the 3 x 3 symmetric helper type (algebra/densesym3x3/mod.rs).  Serves C07 (the initial point is the
// documented central point, s == z, every entry written), C11 (get_Hs / mul_Hs agree), C15 (GenPowerCone::step_length), C04 (panic-freedom).
// Not repeated here: rectify_equilibration of the three cones (unit `rectify`), PowerCone / ExponentialCone::step_length and
// backtrack_search (unit `steplen`).
// float model: every contract states the written entries as the exact float expression over the uninterpreted symbols of
// prelude/float_opaque.rs (+ local f_ln, f_exp, f_powf, f_pi, f_wright_omega); no arithmetic axiom is used by a function contract.  The F-real
// axioms (prelude/float_real_axioms.rs) are used only by the three lemmas at the end.
//
// PROVED from the real bodies (extracted, never retyped), with frames (what is not mentioned is unchanged: `*final(self) == *old(self)`,
// untouched `&mut` arguments, lengths):
//   DenseMatrixSym3: zeros, index_linear (slot of (r, c) = tri(max) + min: the packed upper triangle, column by column; lemma_sym3_table ties it to
//     the documented order 00,01,11,02,12,22), Index::index / IndexMut::index_mut (entry (r, c); exactly that slot can change), mul (y_i = row i of
//     the SYMMETRIC matrix times x), quad_form, norm_fro (off-diagonals twice), scaled_from, copy_from, cholesky_3x3_explicit_factor (true <=> the three
//     pivots are not <= 0; then the six entries of L as evaluated) / _solve (the three entries of x as evaluated); that L L' = A is not stated;  scalarmath.rs: triangular_number, logsafe (second copies).
//   ExponentialCone and PowerCone (same list): new (all zero; alpha stored), degree = numel = 3, is_symmetric = false, is_sparse_expandable =
//     false, allows_primal_dual_scaling = TRUE and Hs_is_diagonal = false (the task text said false / no-op for two of these: the code and the
//     comment in cones/mod.rs - "report false here if only dual scaling is implemented (e.g. GenPowerCone)" - say otherwise; set_identity_scaling is
//     `unreachable!()`, not a no-op), unit_initialization (exp: s = z = (-1.051383945322714, 0.556409619469370, 1.258967884768947) as
//     literals; pow: s = z = (sqrt(1 + a), sqrt(1 + (1 - a)), 0); all six entries), update_scaling (true; z copy stored; grad / H_dual = the
//     dual gradient / Hessian expressions at z; Hs per strategy, built from the NEW H_dual, grad), get_Hs (block[tri(c) + r] = Hs(r, c), 6 entries),
//     mul_Hs (y = Hs x by rows of the symmetric matrix), affine_ds (ds = s), combined_ds_shift (shift_i = grad_i*sigma_mu - eta_i, eta =
//     higher_correction_spec(cone, step_s, step_z); step vectors untouched), Delta_s_from_Delta_z_offset (out = ds), compute_barrier (0 + dual barrier at
//     z + a*dz + primal barrier at s + a*ds), is_primal_feasible / is_dual_feasible (the strict comparisons on the documented cone inequalities),
//     update_dual_grad_H (all 3 + 6 written entries), barrier_dual (the documented formula), barrier_primal (exp: through f_wright_omega; pow:
//     through the primal gradient), gradient_primal (exp: through f_wright_omega; pow: the WHOLE function - phi = s0^(2a) s1^(2-2a); |s2| > eps:
//     g2 = +-newton(|s2|, phi, a) by the sign of s2, g0 = -(a g2 s2 + 1 + a)/s0, g1 = -((1-a) g2 s2 + 2 - a)/s1; else (-(1+a)/s0, -(2-a)/s1, 0) -
//     with only `_newton_raphson_powcone` a stand-in; seed C14_J), split_borrow_mut, higher_correction (exp and pow: every entry of eta as the
//     expression evaluated - u = the Cholesky solution of H u = ds, g_psi, psi, H_psi, coef, coef2, the two dot products, the final halving; eta = 0
//     when a pivot fails; cone not modified);
//     margins / scaled_unit_shift / set_identity_scaling (`unreachable!()`; rule `unreach`: the panic is divergence): `ensures false`, i.e. a call
//     never returns - a body that returns fails it.  That they are never CALLED is the callers' obligation and is argued by inspection: the only
//     call chains are default_start -> set_identity_scaling and default_start -> symmetric_initialization -> _shift_to_cone_interior ->
//     CompositeCone::{margins, scaled_unit_shift}, both under `if self.cones.is_symmetric()`, and the composite flag is the conjunction of the
//     per-cone flags (is_symmetric() == false is proved here for all three cones).  (A contract `requires false` would be vacuous for check.py.)
//   nonsymmetric_common.rs, instantiated at C = ExponentialCone and C = PowerCone (units/inc/nonsym3d_utils.rs): update_Hs (Dual -> Hs = mu*H
//     with the mu handed in; otherwise the primal-dual update), use_dual_scaling, use_primal_dual_scaling (pd_scaled: the documented
//     Hs = s s'/<s,z> + ds ds'/<ds,dz> + t axis axis' with every intermediate - mu = <s,z>/3, mut, ds, dz, de1, de2, tmp, t, axis - as the float
//     expression evaluated; the four fallback conditions; fallback Hs = mu*H with the LOCAL mu = <s,z>/3; H_dual, grad, z, alpha untouched),
//     newton_raphson_onesided (terminates within 100 passes, no panic, for total closures).
//   GenPowerConeData::new (rule R26: whenever it returns, both input checks hold - gp_alpha_ok - and every vector has its length and is zero,
//     mu = 1, d2 = 0, psi = 1/sumsq(alpha)), GenPowerCone::{new, dim1, dim2, dim, degree (dim1 + 1), numel, is_symmetric (false),
//     is_sparse_expandable (true), allows_primal_dual_scaling (false), Hs_is_diagonal (true), unit_initialization (sqrt(1 + alpha_i) | 0; z = s),
//     update_scaling (mu and z stored), get_Hs (mu*d1_i | mu*d2), mul_Hs (gp_mulHs_entry), affine_ds, combined_ds_shift (grad_i*sigma_mu),
//     Delta_s_from_Delta_z_offset, compute_barrier (PRIMAL barrier first), step_length (contract shape of unit `steplen`; work vector restored),
//     gradient_primal (the WHOLE function; finding F9): phi = prod s_i^(2 a_i) as the left fold from 1; |r| > eps:
//     g[dim1 + i] = (g1/|r|) * s[dim1 + i] - the TAIL OF s, no field of the cone - and g[i] = -(1 + a_i + a_i*g1*|r|)/s[i]; otherwise tail 0 and
//     g[i] = -(1 + a_i)/s[i]; g1 = gp_g1_spec(|r|, p, phi, alpha, psi) (stand-in for `_newton_raphson_genpowcone`),
//     barrier_primal (-f*(-g(s)) - (dim1 + 1), g = the gradient above with phi = gp_phi_spec; work_pb is scratch),
//     is_primal_feasible / is_dual_feasible (C14; from the cone definitions K = {prod u_i^a_i >= |w|}, K* = {prod (u_i/a_i)^a_i >= |w|}: true <=>
//     every u_i > 0 and exp(sum_i 2 a_i log u_i) - sumsq(w) > 0, resp. log(u_i/a_i); the sum as the left fold performed; rule R24 extended to
//     closures `-> T { .. }`), barrier_dual (-log(res) - sum (1 - a_i) log u_i, res as in the dual test), update_dual_grad_H (every entry written to
//     grad, p, q (tau * q0/zeta), r, d1, d2 as the documented expressions - gp_dual_data; z, mu, psi, work vectors untouched; the
//     `assert!(zeta > 0)` is kept as an assertion = PRECONDITION, also of update_scaling), step_length now over the REAL tests};
//   backtrack_search (second proof of the real body; as in unit `steplen` except that the membership closure need only accept vectors of the
//     length of q - the gen-power tests slice `s[..dim1]`).
//     margins / scaled_unit_shift / set_identity_scaling: `ensures false` as above.
//   Lemmas (F-real): lemma_Hs_block_is_operator (C11: the block get_Hs writes, read as a symmetric matrix, times x is what mul_Hs returns),
//     lemma_pow_central_real (1 + (1 - a) = 2 - a), lemma_exp_primal_accept_no_panic (see OPEN ITEM 1).
// ASSUMED:
//   * `unreachable_panic()` does not return (what a panic is); prelude/float_opaque.rs, prelude/vecmath_assumed.rs (copy_from, set, scale, axpby, waxpby, scalarop_from, dot, sum, sumsq: proved in unit
//     `vecmath`), VectorMath::normalize (local extension trait; proved in unit `vecmath_more`), `core::mem::take` returns the old value;
//   * three stand-ins with uninterpreted VALUES, each a function of exactly its arguments: `_newton_raphson_powcone` (pow_g3_spec),
//     `_newton_raphson_genpowcone` (gp_g1_spec) - their real bodies are verified for panic-freedom / termination (`.._body`: x0, the closures f0, f1
//     incl. their folds, the call of newton_raphson_onesided with total closures), the value of the iteration is not specified - and
//     `_wright_omega` (f_wright_omega(z); precondition = its documented panic `z < 0`);
//   * F-real: prelude/float_real_axioms.rs, and the local ADMITTED block `ln_ax` (log is a function of the real value; log(1/x) = -log x for
//     x > 0) used ONLY by lemma_exp_primal_accept_no_panic.  canary_real_axioms and canary_ln must FAIL.
// DROPPED (not under contract): `_wright_omega` body (raw f64 constant arithmetic `1. / 16.0`: vstd's f64 division has preconditions),
//   the VALUES of the three scalar iterations, GenPowerCone::higher_correction (`unimplemented!()`, never called: combined_ds_shift has no
//   correction); the algebraic meaning of the Cholesky pair (L L' = A).  No other body of the three cone files is assumed.
// OPEN ITEMS:
//   1. (C04) `_wright_omega` panics for a negative argument.  ExponentialCone::{compute_barrier, update_scaling / update_Hs /
//      use_primal_dual_scaling (strategy != Dual), gradient_primal, barrier_primal} therefore carry the explicit precondition `primal_pre`
//      (1 - s0/s1 - log(s1/s2) is not < 0 at the point evaluated).  lemma_exp_primal_accept_no_panic proves, in exact arithmetic, that every
//      point is_primal_feasible accepts satisfies it (the argument is > 1).  That the solver only evaluates these functions at accepted points
//      (backtrack_step_to_barrier shrinks an accepted step; update_scaling runs at the iterate) is by inspection, not proved; the composite
//      contracts of unit `composite` do not carry the precondition.
//   2. (C04) GenPowerCone::update_dual_grad_H asserts zeta = prod (u_i/a_i)^(2 a_i) - |w|^2 > 0 (powf product).  It is a precondition here (and of
//      update_scaling).  Call sites: update_scaling runs at the iterate, which the line search accepted with is_dual_feasible, i.e.
//      exp(sum 2 a_i log(u_i/a_i)) - |w|^2 > 0 - the same number in exact arithmetic, a DIFFERENT float expression (exp of a log-sum vs a
//      product of powf): not derivable in the float symbols, not proved; the composite stand-ins of unit `composite` do not carry it.
//   3. additions to tools/extract.py (additive): R24 accepts fold closures `|acc, pat| -> T { EXPR }`; rule `tupassignx` ((z[0], z[1], z[2]) = (s[0], s[1], s[2]) -> three assignments), rule
//      `unreach` (`unreachable!();` -> `return unreachable_panic();`, a local fn with `ensures false`), directive `//@after_loop k`.
// MUTATION ROUND (scratch copy of /repo, one wrong edit at a time, whole unit re-verified): 120 valid wrong edits, 120 rejected by a named
//   obligation, 0 survivors (one further edit did not compile).  E.g. PowerCone::unit_initialization `s[2] = 0` written to `z[2]`; central-point
//   digits swapped / one digit changed; z copied from the wrong component; DenseMatrixSym3::mul wrong row, packing order of index_linear,
//   norm_fro off-diagonals once, quad_form entry, scaled_from index; get_Hs / mul_Hs from H_dual; affine_ds / offset copying z; compute_barrier
//   with -alpha, swapped points, wrong direction; `>=` or wrong component in the four feasibility tests; the flags; shift with +eta, swapped
//   correction arguments; update_Hs dispatch flipped; 8 edits inside use_primal_dual_scaling (condition, ds, swapped denominators, fallback mu,
//   cross product, loop bounds, de2); use_dual_scaling direction; update_scaling without the z copy / in the wrong order; split_borrow_mut
//   swapped; gradient / Hessian / barrier signs; 16 edits in genpowcone.rs; logsafe `<`; Newton counter dropped; higher_correction index / frame;
//   `unreachable!()` replaced by a returning body (margins, set_identity_scaling); GenPowerCone::gradient_primal: `&data.r` re-introduced (F9),
//   `norm_r` -> `phi` in the quotient, wrong else branch, `* norm_r` dropped, tail not zeroed, comparison flipped; barrier_primal: negate dropped,
//   sign of the degree term, wrong argument; gen-power membership tests: `>=` in the positivity test, head <-> tail, `two * a_i` -> `a_i`, primal /
//   dual bodies swapped, sumsq -> norm, sumsq of the head, `res >= 0`, fall-through `true`; barrier_dual: 3 edits; update_dual_grad_H: 11 edits (phi
//   exponent, zeta sign, assert bound, grad sign / source, d1, d2, p0 <-> p1, q not scaled, r source, r1); backtrack_search trial point.  PowerCone::gradient_primal: seed C14_J (`s[2]` -> `abs_s`), sign test,
//   `two - a` -> `one - a` (both branches), phi exponent, Newton argument, `>=` eps; higher_correction: 5 edits (exp), 4 (pow); Cholesky: pivot `<`,
//   L21 divisor, x1 entry; gen-power gradient: phi fold, `&data.r` (F9), Newton arguments.  (Dropping
//   `alpha *= step` in backtrack_search ends as a LOST ANCHOR, exit 2 = undecided, in this unit as in `steplen`.)
// COST: 186 obligations, about 20 s; heaviest: use_primal_dual_scaling 7.2 M (exp) / 7.0 M (pow) of the 150 M of `--rlimit 50` (4.8 %),
//   GenPowerCone::update_dual_grad_H 2.9 M, gradient_primal 1.8 M, PowerCone::higher_correction 1.8 M, GenPowerCone::mul_Hs 1.6 M, the rest
//   below 1.3 M.  Stable under Z3 seeds 1-6.
use vstd::prelude::*;
verus! {
global size_of usize == 8;
//@include prelude/float_opaque.rs
//@include prelude/float_real_axioms.rs
//@include prelude/vecmath_assumed.rs
//@include prelude/std_assumed.rs
pub uninterp spec fn f_ln(a: F) -> F;
pub uninterp spec fn f_exp(a: F) -> F;
pub uninterp spec fn f_powf(a: F, b: F) -> F;
pub uninterp spec fn f_pi() -> F;
impl F {
    #[verifier::external_body] pub fn ln(self) -> (r: F) ensures r == f_ln(self) { unimplemented!() }
    #[verifier::external_body] pub fn exp(self) -> (r: F) ensures r == f_exp(self) { unimplemented!() }
    #[verifier::external_body] pub fn powf(self, e: F) -> (r: F) ensures r == f_powf(self, e) { unimplemented!() }
    #[verifier::external_body] pub fn PI() -> (r: F) ensures r == f_pi() { unimplemented!() }
}

//@enum file=src/solver/core/solver.rs name=ScalingStrategy derive="PartialEq, Eq, Clone, Copy, Structural"
//@enum file=src/solver/core/cones/mod.rs name=PrimalOrDualCone rules=R12 derive="PartialEq, Eq, Clone, Copy, Structural"

// ------------------------------------------------------------------ scalar helpers (algebra/scalarmath.rs)
pub open spec fn tri(k: int) -> int { k * (k + 1) / 2 }
pub proof fn lemma_shr1(x: usize) ensures x >> 1 == x / 2 { assert(x >> 1 == x / 2) by (bit_vector); }
//@fn file=src/algebra/scalarmath.rs name=triangular_number ret=r
//@contract
    requires k < 0x1_0000_0000,
    ensures r == tri(k as int),
//@pre
    proof {
        assert(k * (k + 1) <= 0xffff_ffff * (k + 1)) by (nonlinear_arith) requires 0 <= k <= 0xffff_ffff;
        assert(k * (k + 1) >= 0) by (nonlinear_arith) requires 0 <= k;
        lemma_shr1((k * (k + 1)) as usize);
    }
//@end
// rule `unreach`: `unreachable!()` seen from the caller - the call does not return (ASSUMED: this is what a panic is)
#[verifier::external_body] pub fn unreachable_panic<T>() -> (r: T) ensures false { panic!() }
pub open spec fn logsafe_spec(x: F) -> F { if f_le(x, f_zero()) { f_neg(f_inf()) } else { f_ln(x) } }
pub trait ScalarMath: Sized { fn logsafe(&self) -> Self; }
impl ScalarMath for F {
//@fn file=src/algebra/scalarmath.rs in="ScalarMath for T" name=logsafe rules=R1 ret=r
//@contract
    ensures r == logsafe_spec(*self)
//@end
}

// ------------------------------------------------------------------ DenseMatrixSym3 (algebra/densesym3x3/mod.rs)
//@struct file=src/algebra/densesym3x3/mod.rs name=DenseMatrixSym3
// packed upper triangle, column by column: entry (r, c), r <= c, sits at tri(c) + r; (c, r) is the same slot
pub open spec fn sym3_idx(r: int, c: int) -> int { if r < c { r + tri(c) } else { c + tri(r) } }
pub proof fn lemma_sym3_table()
    ensures tri(0) == 0, tri(1) == 1, tri(2) == 3, tri(3) == 6,
        sym3_idx(0, 0) == 0, sym3_idx(0, 1) == 1, sym3_idx(1, 1) == 2, sym3_idx(0, 2) == 3, sym3_idx(1, 2) == 4, sym3_idx(2, 2) == 5,
        sym3_idx(1, 0) == 1, sym3_idx(2, 0) == 3, sym3_idx(2, 1) == 4,
{}
pub open spec fn m3(d: Seq<F>, r: int, c: int) -> F { d[sym3_idx(r, c)] }
// row r of the symmetric matrix times x, left to right
pub open spec fn m3_rowdot(d: Seq<F>, r: int, x: Seq<F>) -> F {
    f_add(f_add(f_mul(m3(d, r, 0), x[0]), f_mul(m3(d, r, 1), x[1])), f_mul(m3(d, r, 2), x[2]))
}
pub open spec fn m3_quad(d: Seq<F>, y: Seq<F>, x: Seq<F>) -> F {
    f_add(f_add(f_add(f_zero(), f_mul(y[0], m3_rowdot(d, 0, x))), f_mul(y[1], m3_rowdot(d, 1, x))), f_mul(y[2], m3_rowdot(d, 2, x)))
}
pub open spec fn sq(a: F) -> F { f_mul(a, a) }
// Frobenius norm of the full symmetric matrix: diagonal once, packed off-diagonal entries twice
pub open spec fn fro6(e00: F, e11: F, e22: F, e01: F, e02: F, e12: F) -> F {
    f_sqrt(f_add(f_add(f_zero(), f_add(f_add(sq(e00), sq(e11)), sq(e22))), f_mul(f_add(f_add(sq(e01), sq(e02)), sq(e12)), f_lit(2.0f64))))
}
pub open spec fn m3_norm_fro(d: Seq<F>) -> F { fro6(m3(d, 0, 0), m3(d, 1, 1), m3(d, 2, 2), m3(d, 0, 1), m3(d, 0, 2), m3(d, 1, 2)) }
// closed form of the slot of an upper-triangle coordinate (so that distinct coordinates are seen to have distinct slots)
pub proof fn lemma_sym3_upper()
    ensures forall|a: int, b: int| 0 <= a <= b < 3 ==> #[trigger] sym3_idx(a, b) == (if b == 0 { 0int } else if b == 1 { 1 + a } else { 3 + a }),
{
    lemma_sym3_table();
    assert forall|a: int, b: int| 0 <= a <= b < 3 implies #[trigger] sym3_idx(a, b) == (if b == 0 { 0int } else if b == 1 { 1 + a } else { 3 + a }) by {
        if b == 0 { assert(tri(b) == tri(0)); } else if b == 1 { assert(tri(b) == tri(1)); } else { assert(tri(b) == tri(2)); }
        if a == 0 { assert(tri(a) == tri(0)); } else if a == 1 { assert(tri(a) == tri(1)); } else { assert(tri(a) == tri(2)); }
    }
}
// row-major order over the upper triangle: (a, b) comes before (i, j)
pub open spec fn upper_done(i: int, j: int, a: int, b: int) -> bool { a < i || (a == i && b < j) }
pub open spec fn all_eq(a: Seq<F>, c: F) -> bool { forall|i: int| 0 <= i < a.len() ==> #[trigger] a[i] == c }

pub open spec fn ch_l00(a: Seq<F>) -> F { f_sqrt(m3(a, 0, 0)) }
pub open spec fn ch_l10(a: Seq<F>) -> F { f_div(m3(a, 1, 0), ch_l00(a)) }
pub open spec fn ch_t1(a: Seq<F>) -> F { f_sub(m3(a, 1, 1), f_mul(ch_l10(a), ch_l10(a))) }
pub open spec fn ch_l11(a: Seq<F>) -> F { f_sqrt(ch_t1(a)) }
pub open spec fn ch_l20(a: Seq<F>) -> F { f_div(m3(a, 2, 0), ch_l00(a)) }
pub open spec fn ch_l21(a: Seq<F>) -> F { f_div(f_sub(m3(a, 2, 1), f_mul(ch_l10(a), ch_l20(a))), ch_l11(a)) }
pub open spec fn ch_t2(a: Seq<F>) -> F { f_sub(f_sub(m3(a, 2, 2), f_mul(ch_l20(a), ch_l20(a))), f_mul(ch_l21(a), ch_l21(a))) }
pub open spec fn ch_l22(a: Seq<F>) -> F { f_sqrt(ch_t2(a)) }
// all three pivots pass `t <= 0 => return false`
pub open spec fn ch_ok(a: Seq<F>) -> bool { !f_le(m3(a, 0, 0), f_zero()) && !f_le(ch_t1(a), f_zero()) && !f_le(ch_t2(a), f_zero()) }
pub open spec fn ch_solve(l00: F, l10: F, l11: F, l20: F, l21: F, l22: F, b: Seq<F>) -> Seq<F> {
    let c1 = f_div(b[0], l00);
    let c2 = f_div(f_sub(f_mul(b[1], l00), f_mul(b[0], l10)), f_mul(l00, l11));
    let d3 = f_mul(f_mul(l00, l11), l22);
    let c3 = f_div(f_sub(f_add(f_sub(f_mul(f_mul(b[2], l00), l11), f_mul(f_mul(b[1], l00), l21)), f_mul(f_mul(b[0], l10), l21)), f_mul(f_mul(b[0], l11), l20)), d3);
    seq![f_div(f_sub(f_add(f_sub(f_mul(f_mul(c1, l11), l22), f_mul(f_mul(c2, l10), l22)), f_mul(f_mul(c3, l10), l21)), f_mul(f_mul(c3, l11), l20)), d3),
         f_div(f_sub(f_mul(c2, l22), f_mul(c3, l21)), f_mul(l11, l22)),
         f_div(c3, l22)]
}
// the solution of H u = b the pair computes (when ch_ok(h))
pub open spec fn ch_solution(h: Seq<F>, b: Seq<F>) -> Seq<F> { ch_solve(ch_l00(h), ch_l10(h), ch_l11(h), ch_l20(h), ch_l21(h), ch_l22(h), b) }
impl DenseMatrixSym3<F> {
//@fn file=src/algebra/densesym3x3/mod.rs in="impl<T> DenseMatrixSym3<T>" name=zeros rules=R1 ret=r
//@contract
    ensures all_eq(r.data@, f_zero()),
//@end
//@fn file=src/algebra/densesym3x3/mod.rs in="impl<T> DenseMatrixSym3<T>" name=index_linear rules=R1 ret=r
//@contract
    // the type is a 3 x 3 matrix: both coordinates are below 3 at every use
    requires idx.0 < 3, idx.1 < 3,
    ensures r == sym3_idx(idx.0 as int, idx.1 as int), r < 6,
//@pre
    proof { lemma_sym3_table(); }
//@end
//@fn file=src/algebra/densesym3x3/mod.rs in="Index<(usize, usize)> for DenseMatrixSym3<T>" name=index rules=R1,selfout ret=r
//@contract
    requires idx.0 < 3, idx.1 < 3,
    ensures *r == m3(self.data@, idx.0 as int, idx.1 as int),
//@end
//@fn file=src/algebra/densesym3x3/mod.rs in="IndexMut<(usize, usize)> for DenseMatrixSym3<T>" name=index_mut rules=R1,selfout ret=r
//@contract
    requires idx.0 < 3, idx.1 < 3,
    ensures *r == m3(old(self).data@, idx.0 as int, idx.1 as int),
        final(self).data@[sym3_idx(idx.0 as int, idx.1 as int)] == *final(r),
        forall|k: int| 0 <= k < 6 && k != sym3_idx(idx.0 as int, idx.1 as int) ==> #[trigger] final(self).data@[k] == old(self).data@[k],
//@end
//@fn file=src/algebra/densesym3x3/mod.rs in="impl<T> DenseMatrixSym3<T>" name=mul rules=R1
//@contract
    requires old(y)@.len() == 3, x@.len() == 3,
    ensures final(y)@.len() == 3,
        forall|i: int| 0 <= i < 3 ==> #[trigger] final(y)@[i] == m3_rowdot(self.data@, i, x@),
//@pre
    proof { lemma_sym3_table(); }
//@end
//@fn file=src/algebra/densesym3x3/mod.rs in="impl<T> DenseMatrixSym3<T>" name=scaled_from rules=R1
//@contract
    ensures forall|i: int| 0 <= i < 6 ==> #[trigger] final(self).data@[i] == f_mul(c, B.data@[i]),
//@loop 1
        invariant forall|k: int| 0 <= k < i ==> #[trigger] self.data@[k] == f_mul(c, B.data@[k]),
//@end
//@fn file=src/algebra/densesym3x3/mod.rs in="impl<T> DenseMatrixSym3<T>" name=norm_fro rules=R1 ret=r
//@contract
    ensures r == m3_norm_fro(self.data@),
//@pre
    proof { lemma_sym3_table(); }
//@end
//@fn file=src/algebra/densesym3x3/mod.rs in="impl<T> DenseMatrixSym3<T>" name=quad_form rules=R1 ret=r
//@contract
    requires y@.len() == 3, x@.len() == 3,
    ensures r == m3_quad(self.data@, y@, x@),
//@pre
    proof { lemma_sym3_table(); }
//@end
//@fn file=src/algebra/densesym3x3/mod.rs in="impl<T> DenseMatrixSym3<T>" name=copy_from rules=R1
//@contract
    ensures final(self).data@ == src.data@,
//@end
// the explicit 3 x 3 Cholesky pair (used by higher_correction only), as evaluated: "Returns `false` for a non-positive pivot and the
// factorization is not completed"; on success the lower-triangular factor L (stored in the symmetric type: entry (i, j) in slot (j, i));
// the solve is the unrolled forward / backward substitution.  That L L' = A and L L' x = b is NOT stated (no arithmetic axioms here).
//@fn file=src/algebra/densesym3x3/mod.rs in="impl<T> DenseMatrixSym3<T>" name=cholesky_3x3_explicit_factor rules=R1,tupidx ret=r
//@contract
    ensures r == ch_ok(A.data@),
        r ==> m3(final(self).data@, 0, 0) == ch_l00(A.data@) && m3(final(self).data@, 1, 0) == ch_l10(A.data@) && m3(final(self).data@, 1, 1) == ch_l11(A.data@)
            && m3(final(self).data@, 2, 0) == ch_l20(A.data@) && m3(final(self).data@, 2, 1) == ch_l21(A.data@) && m3(final(self).data@, 2, 2) == ch_l22(A.data@),
//@pre
    proof { lemma_sym3_table(); }
//@end
//@fn file=src/algebra/densesym3x3/mod.rs in="impl<T> DenseMatrixSym3<T>" name=cholesky_3x3_explicit_solve rules=R1,tupidx
//@contract
    requires old(x)@.len() == 3, b@.len() == 3,
    ensures final(x)@ =~= ch_solve(m3(self.data@, 0, 0), m3(self.data@, 1, 0), m3(self.data@, 1, 1), m3(self.data@, 2, 0), m3(self.data@, 2, 1), m3(self.data@, 2, 2), b@),
//@end
}

// ------------------------------------------------------------------ shared vocabulary of the 3-dimensional nonsymmetric cones
pub open spec fn lit3() -> F { f_lit(3.0f64) }
pub open spec fn lit2() -> F { f_lit(2.0f64) }
pub open spec fn seq3(a: F, b: F, c: F) -> Seq<F> { seq![a, b, c] }
// the trial point q + a*dq as compute_barrier forms it
pub open spec fn shifted3(q: Seq<F>, dq: Seq<F>, a: F) -> Seq<F> {
    seq3(f_add(q[0], f_mul(a, dq[0])), f_add(q[1], f_mul(a, dq[1])), f_add(q[2], f_mul(a, dq[2])))
}
// ASSUMED (proved in unit `vecmath_more`): VectorMath::normalize
pub open spec fn normalize_spec(x0: Seq<F>) -> Seq<F> {
    let nrm = vm_norm(x0);
    if f_eq(nrm, f_zero()) { x0 } else { Seq::new(x0.len(), |i: int| f_mul(x0[i], f_recip(nrm))) }
}
pub trait VectorMathMore: VectorMath { fn normalize(&mut self) -> F; }
impl VectorMathMore for [F] {
    #[verifier::external_body] fn normalize(&mut self) -> (r: F)
        ensures final(self)@ =~= normalize_spec(old(self)@), r == (if f_eq(vm_norm(old(self)@), f_zero()) { f_zero() } else { vm_norm(old(self)@) }),
    { unimplemented!() }
}

// ---- the scaling matrix of `use_primal_dual_scaling` (nonsymmetric_common.rs), as documented in its comments:
//   zt = gradient_primal(s), st = grad (dual gradient at z), mu = <s,z>/3, mut = <st,zt>/3, ds = s + mu*st, dz = z + mu*zt,
//   de1 = mu*mut - 1, de2 = zt'H zt - 3 mut^2;
//   primal-dual branch iff |de1| > sqrt(eps) && |de2| > eps && <s,z> > 0 && <ds,dz> > 0:
//       Hs = s s'/<s,z> + ds ds'/<ds,dz> + t * axis axis',  axis = normalize(cross(z, zt)),
//       t = mu * || H - st st'/3 - tmp tmp'/de2 ||_F,  tmp = mut*st - H zt
//   otherwise Hs = mu*H  (with the LOCAL mu = <s,z>/3)
pub open spec fn pd_mu(s: Seq<F>, z: Seq<F>) -> F { f_div(vm_dot(s, z), lit3()) }
pub open spec fn pd_shift(s: Seq<F>, mu: F, st: Seq<F>) -> Seq<F> {
    seq3(f_add(s[0], f_mul(mu, st[0])), f_add(s[1], f_mul(mu, st[1])), f_add(s[2], f_mul(mu, st[2])))
}
pub open spec fn pd_de1(mu: F, mut_: F) -> F { f_sub(f_mul(mu, mut_), f_one()) }
pub open spec fn pd_de2(h: Seq<F>, zt: Seq<F>, mut_: F) -> F { f_sub(m3_quad(h, zt, zt), f_mul(f_mul(lit3(), mut_), mut_)) }
pub open spec fn pd_cond(de1: F, de2: F, dot_sz: F, dot_dsz: F) -> bool {
    f_lt(f_sqrt(f_eps()), f_abs(de1)) && f_lt(f_eps(), f_abs(de2)) && f_lt(f_zero(), dot_sz) && f_lt(f_zero(), dot_dsz)
}
pub open spec fn pd_tmp(h: Seq<F>, st: Seq<F>, zt: Seq<F>, mut_: F, i: int) -> F { f_sub(f_mul(mut_, st[i]), m3_rowdot(h, i, zt)) }
// entry (a, b) of the work matrix  H - st st'/3 - tmp tmp'/de2
pub open spec fn pd_work(h: Seq<F>, st: Seq<F>, zt: Seq<F>, mut_: F, de2: F, a: int, b: int) -> F {
    f_sub(m3(h, a, b), f_add(f_div(f_mul(st[a], st[b]), lit3()), f_div(f_mul(pd_tmp(h, st, zt, mut_, a), pd_tmp(h, st, zt, mut_, b)), de2)))
}
pub open spec fn pd_t(h: Seq<F>, st: Seq<F>, zt: Seq<F>, mu: F, mut_: F, de2: F) -> F {
    f_mul(mu, fro6(pd_work(h, st, zt, mut_, de2, 0, 0), pd_work(h, st, zt, mut_, de2, 1, 1), pd_work(h, st, zt, mut_, de2, 2, 2),
                   pd_work(h, st, zt, mut_, de2, 0, 1), pd_work(h, st, zt, mut_, de2, 0, 2), pd_work(h, st, zt, mut_, de2, 1, 2)))
}
pub open spec fn cross3(z: Seq<F>, zt: Seq<F>) -> Seq<F> {
    seq3(f_sub(f_mul(z[1], zt[2]), f_mul(z[2], zt[1])), f_sub(f_mul(z[2], zt[0]), f_mul(z[0], zt[2])), f_sub(f_mul(z[0], zt[1]), f_mul(z[1], zt[0])))
}
pub open spec fn pd_entry(s: Seq<F>, ds: Seq<F>, axis: Seq<F>, dot_sz: F, dot_dsz: F, t: F, a: int, b: int) -> F {
    f_add(f_add(f_div(f_mul(s[a], s[b]), dot_sz), f_div(f_mul(ds[a], ds[b]), dot_dsz)), f_mul(f_mul(t, axis[a]), axis[b]))
}
// what use_primal_dual_scaling leaves in Hs (packed data hs1), given the stored dual Hessian h, the stored dual gradient st,
// the primal gradient zt and the point (s, z)
pub open spec fn pd_scaled(hs1: Seq<F>, h: Seq<F>, st: Seq<F>, zt: Seq<F>, s: Seq<F>, z: Seq<F>) -> bool {
    let mu = pd_mu(s, z);
    let mut_ = f_div(vm_dot(st, zt), lit3());
    let ds = pd_shift(s, mu, st);
    let dz = pd_shift(z, mu, zt);
    let dot_sz = vm_dot(s, z);
    let dot_dsz = vm_dot(ds, dz);
    let de1 = pd_de1(mu, mut_);
    let de2 = pd_de2(h, zt, mut_);
    if pd_cond(de1, de2, dot_sz, dot_dsz) {
        let t = pd_t(h, st, zt, mu, mut_, de2);
        let axis = normalize_spec(cross3(z, zt));
        forall|a: int, b: int| 0 <= a <= b < 3 ==> #[trigger] m3(hs1, a, b) == pd_entry(s, ds, axis, dot_sz, dot_dsz, t, a, b)
    } else {
        forall|k: int| 0 <= k < 6 ==> #[trigger] hs1[k] == f_mul(mu, h[k])
    }
}
// dual scaling: Hs = mu*H, entry for entry of the packed triangle
pub open spec fn dual_scaled(hs1: Seq<F>, h: Seq<F>, mu: F) -> bool { forall|k: int| 0 <= k < 6 ==> #[trigger] hs1[k] == f_mul(mu, h[k]) }

// ------------------------------------------------------------------ the scalar iterations (termination and panic-freedom only)
// newton_raphson_onesided (nonsymmetric_common.rs): at most 100 passes, whatever the two closures return
//@fn file=src/solver/core/cones/nonsymmetric_common.rs name=newton_raphson_onesided rules=R1,R25 ret=r
//@contract
    requires forall|x: F| #![trigger f0.requires((x,))] f0.requires((x,)), forall|x: F| #![trigger f1.requires((x,))] f1.requires((x,)),
//@loop 1
        invariant 0 <= iter <= 100,
            forall|x: F| #![trigger f0.requires((x,))] f0.requires((x,)), forall|x: F| #![trigger f1.requires((x,))] f1.requires((x,)),
        decreases 100 - iter,
//@end
// _wright_omega (expcone.rs): LEFT OUT as a body (its Taylor coefficients are computed in raw f64, `1. / 16.0`, and vstd puts preconditions
// on f64 division that cannot be discharged here).  Stand-in, ASSUMED: the documented panic ("argument not in supported range" for z < 0)
// is the precondition; the value is the uninterpreted symbol f_wright_omega(z); the loop is `for _ in 0..2` (terminates).
pub uninterp spec fn f_wright_omega(z: F) -> F;
#[verifier::external_body] fn _wright_omega(z: F) -> (r: F) requires !f_lt(z, f_zero()), ensures r == f_wright_omega(z), { unimplemented!() }

// the real text of `_newton_raphson_powcone` (powcone.rs): panic-freedom / termination only (it builds x0, t0 and the two closures f0, f1 and
// hands them to newton_raphson_onesided, whose precondition - total closures - is discharged here); its VALUE stays the uninterpreted
// pow_g3_spec of the stand-in used by gradient_primal
//@fn file=src/solver/core/cones/powcone.rs name=_newton_raphson_powcone as=_newton_raphson_powcone_body rules=R1,R2 ret=r
//@end
// likewise `_newton_raphson_genpowcone` (genpowcone.rs; the two closures contain folds): panic-freedom / termination only
//@fn file=src/solver/core/cones/genpowcone.rs name=_newton_raphson_genpowcone as=_newton_raphson_genpowcone_body rules=R1,R2,R24,R5,zipidx:1=ii ret=r
//@loop 1
                invariant r14_n1 <= alpha@.len(), r14_n1 <= p@.len(),
//@end
// ------------------------------------------------------------------ ExponentialCone (cones/expcone.rs)
//@struct file=src/solver/core/cones/expcone.rs name=ExponentialCone
// the central point of the exponential cone (documented in unit_initialization): s = z = this
pub open spec fn exp_central() -> Seq<F> { seq3(f_lit(-1.051383945322714f64), f_lit(0.556409619469370f64), f_lit(1.258967884768947f64)) }
// Primal exponential cone (0-based): s2 >= s1*e^(s0/s1), s2, s1 > 0   <=>   s1*log(s2/s1) - s0 >= 0; the test is strict
pub open spec fn exp_in_primal(s: Seq<F>) -> bool {
    f_lt(f_zero(), s[2]) && f_lt(f_zero(), s[1]) && f_lt(f_zero(), f_sub(f_mul(s[1], logsafe_spec(f_div(s[2], s[1]))), s[0]))
}
// Dual exponential cone (0-based): z2 >= -z0*e^(z1/z0 - 1), z2 > 0, z0 < 0   <=>   z1 - z0 - z0*log(-z2/z0) >= 0; the test is strict
pub open spec fn exp_in_dual(z: Seq<F>) -> bool {
    f_lt(f_zero(), z[2]) && f_lt(z[0], f_zero())
        && f_lt(f_zero(), f_sub(f_sub(z[1], z[0]), f_mul(z[0], logsafe_spec(f_div(f_neg(z[2]), z[0])))))
}
// gradient and Hessian of the dual barrier f*(z) = -log(z1 - z0 - z0*log(z2/-z0)) - log(-z0) - log(z2), as update_dual_grad_H evaluates them
pub open spec fn exp_l(z: Seq<F>) -> F { logsafe_spec(f_div(f_neg(z[2]), z[0])) }
pub open spec fn exp_r(z: Seq<F>) -> F { f_add(f_sub(f_mul(f_neg(z[0]), exp_l(z)), z[0]), z[1]) }
pub open spec fn exp_dual_grad(z: Seq<F>) -> Seq<F> {
    let l = exp_l(z); let r = exp_r(z); let c2 = f_recip(r);
    seq3(f_sub(f_mul(c2, l), f_recip(z[0])), f_neg(c2), f_div(f_sub(f_mul(c2, z[0]), f_one()), z[2]))
}
pub open spec fn exp_dual_hess(z: Seq<F>, a: int, b: int) -> F {
    let l = exp_l(z); let r = exp_r(z); let rr = f_mul(r, r);
    if a == 0 && b == 0 { f_div(f_add(f_sub(rr, f_mul(z[0], r)), f_mul(f_mul(f_mul(l, l), z[0]), z[0])), f_mul(f_mul(f_mul(r, z[0]), z[0]), r)) }
    else if a == 0 && b == 1 { f_div(f_neg(l), rr) }
    else if a == 1 && b == 1 { f_recip(rr) }
    else if a == 0 && b == 2 { f_div(f_sub(z[1], z[0]), f_mul(rr, z[2])) }
    else if a == 1 && b == 2 { f_div(f_neg(z[0]), f_mul(rr, z[2])) }
    else { f_div(f_add(f_sub(rr, f_mul(z[0], r)), f_mul(z[0], z[0])), f_mul(f_mul(rr, z[2]), z[2])) }
}

// the argument handed to the Wright omega function by barrier_primal and gradient_primal: 1 - s0/s1 - log(s1/s2)
pub open spec fn exp_omega_arg(s: Seq<F>) -> F { f_sub(f_sub(f_one(), f_div(s[0], s[1])), logsafe_spec(f_div(s[1], s[2]))) }
// primal gradient g(s) (expcone.rs), omega = W(1 - s0/s1 - log(s1/s2))
pub open spec fn exp_gradient_primal(s: Seq<F>) -> Seq<F> {
    let om = f_wright_omega(exp_omega_arg(s));
    let g0 = f_div(f_one(), f_mul(f_sub(om, f_one()), s[1]));
    seq3(g0,
         f_sub(f_add(g0, f_mul(g0, logsafe_spec(f_div(f_mul(om, s[1]), s[2])))), f_div(f_one(), s[1])),
         f_div(om, f_mul(f_sub(f_one(), om), s[2])))
}
// 3rd-order correction eta at the stored point z (expcone.rs: "efficient implementation" of
//   eta = -0.5*[(u'H_psi v psi - 2 <g_psi,u><g_psi,v>)/psi^3 g_psi + <g_psi,u>/psi^2 H_psi v + <g_psi,v>/psi^2 H_psi u - dot_psi_uv/psi + dot_h_uv]),
// u = H^{-1} ds through the explicit Cholesky pair (eta = 0 if a pivot fails), g_psi = (log(-z0/z2), 1, -z0/z2), psi = z0 g_psi0 - z0 + z1:
// every entry as the float expression evaluated
pub open spec fn lit_half() -> F { f_lit(0.5f64) }
pub open spec fn exp_hc_gpsi(z: Seq<F>) -> Seq<F> { let e2 = f_div(f_neg(z[0]), z[2]); seq3(logsafe_spec(e2), f_one(), e2) }
pub open spec fn exp_hc_psi(z: Seq<F>) -> F { f_add(f_sub(f_mul(z[0], exp_hc_gpsi(z)[0]), z[0]), z[1]) }
pub open spec fn exp_hc_coef(z: Seq<F>, u: Seq<F>, v: Seq<F>) -> F {
    let g = exp_hc_gpsi(z); let psi = exp_hc_psi(z); let dotu = vm_dot(u, g); let dotv = vm_dot(v, g);
    f_div(f_sub(f_mul(f_add(f_mul(u[0], f_sub(f_div(v[0], z[0]), f_div(v[2], z[2]))),
                             f_div(f_mul(u[2], f_sub(f_div(f_mul(z[0], v[2]), z[2]), v[0])), z[2])), psi),
                f_mul(f_mul(lit2(), dotu), dotv)),
          f_mul(f_mul(psi, psi), psi))
}
pub open spec fn exp_hc_add0(z: Seq<F>, u: Seq<F>, v: Seq<F>) -> F {
    let g = exp_hc_gpsi(z); let psi = exp_hc_psi(z); let dotu = vm_dot(u, g); let dotv = vm_dot(v, g); let inv = f_recip(f_mul(psi, psi));
    f_add(f_add(f_sub(f_div(f_mul(f_mul(f_sub(f_recip(psi), f_div(lit2(), z[0])), u[0]), v[0]), f_mul(z[0], z[0])),
                      f_div(f_div(f_mul(u[2], v[2]), f_mul(z[2], z[2])), psi)),
                f_mul(f_mul(dotu, inv), f_sub(f_div(v[0], z[0]), f_div(v[2], z[2])))),
          f_mul(f_mul(dotv, inv), f_sub(f_div(u[0], z[0]), f_div(u[2], z[2]))))
}
pub open spec fn exp_hc_add2(z: Seq<F>, u: Seq<F>, v: Seq<F>) -> F {
    let g = exp_hc_gpsi(z); let psi = exp_hc_psi(z); let dotu = vm_dot(u, g); let dotv = vm_dot(v, g); let inv = f_recip(f_mul(psi, psi));
    let zz = f_mul(z[2], z[2]);
    f_add(f_add(f_sub(f_div(f_mul(f_mul(f_mul(lit2(), f_sub(f_div(z[0], psi), f_one())), u[2]), v[2]), f_mul(zz, z[2])),
                      f_div(f_div(f_add(f_mul(u[2], v[0]), f_mul(u[0], v[2])), zz), psi)),
                f_mul(f_mul(dotu, inv), f_sub(f_div(f_mul(z[0], v[2]), zz), f_div(v[0], z[2])))),
          f_mul(f_mul(dotv, inv), f_sub(f_div(f_mul(z[0], u[2]), zz), f_div(u[0], z[2]))))
}
pub open spec fn exp_higher_correction(h: Seq<F>, z: Seq<F>, ds: Seq<F>, v: Seq<F>) -> Seq<F> {
    if !ch_ok(h) { seq3(f_zero(), f_zero(), f_zero()) } else {
        let u = ch_solution(h, ds); let g = exp_hc_gpsi(z); let coef = exp_hc_coef(z, u, v);
        seq3(f_mul(f_add(f_mul(g[0], coef), exp_hc_add0(z, u, v)), lit_half()),
             f_mul(f_mul(g[1], coef), lit_half()),
             f_mul(f_add(f_mul(g[2], coef), exp_hc_add2(z, u, v)), lit_half()))
    }
}
// Primal barrier (expcone.rs): f(s) = -2 log(s1) - log(s2) - log((1 - w)^2 / w) - 3,  w = W(1 - s0/s1 - log(s1/s2))
pub open spec fn exp_barrier_primal(s: Seq<F>) -> F {
    let om = f_wright_omega(exp_omega_arg(s));
    let w2 = f_div(f_mul(f_sub(om, f_one()), f_sub(om, f_one())), om);
    f_sub(f_sub(f_sub(f_neg(logsafe_spec(w2)), f_mul(logsafe_spec(s[1]), lit2())), logsafe_spec(s[2])), lit3())
}
// Dual barrier (expcone.rs): f*(z) = -log(z1 - z0 - z0*log(z2/-z0)) - log(-z0) - log(z2), the last two logarithms taken as one, log(-z2*z0)
pub open spec fn exp_barrier_dual(z: Seq<F>) -> F {
    f_sub(f_neg(logsafe_spec(f_mul(f_neg(z[2]), z[0]))), logsafe_spec(f_sub(f_sub(z[1], z[0]), f_mul(z[0], exp_l(z)))))
}
impl ExponentialCone<F> {
    // ASSUMED callees (Newton / Wright-omega iterations and the third-order correction): the results are uninterpreted functions of
    // exactly what the bodies read (by inspection: gradient_primal and the barriers read only their argument, higher_correction reads
    // H_dual and z of the cone); "self is not modified" is by inspection of the bodies
    pub open spec fn gradient_primal_spec(&self, s: Seq<F>) -> Seq<F> { exp_gradient_primal(s) }
    pub open spec fn higher_correction_spec(&self, ds: Seq<F>, v: Seq<F>) -> Seq<F> { exp_higher_correction(self.H_dual.data@, self.z@, ds, v) }
    pub open spec fn barrier_primal_spec(&self, s: Seq<F>) -> F { exp_barrier_primal(s) }
    pub open spec fn barrier_dual_spec(&self, z: Seq<F>) -> F { exp_barrier_dual(z) }
    // the fields that are parameters of the cone (none here; PowerCone: alpha)
    pub open spec fn params_eq(&self, o: Self) -> bool { true }
    // what gradient_primal / barrier_primal need in order not to hit the documented panic of _wright_omega
    pub open spec fn primal_pre(&self, s: Seq<F>) -> bool { !f_lt(exp_omega_arg(s), f_zero()) }
//@fn file=src/solver/core/cones/expcone.rs in="Nonsymmetric3DCone<T> for ExponentialCone<T>" name=gradient_primal rules=R1,R2 ret=r
//@contract
    requires s@.len() == 3, self.primal_pre(s@),
    ensures r@ =~= self.gradient_primal_spec(s@),
//@end
//@fn file=src/solver/core/cones/expcone.rs in="NonsymmetricCone<T> for ExponentialCone<T>" name=barrier_primal rules=R1,R2 ret=r
//@contract
    requires s@.len() == 3, old(self).primal_pre(s@),
    ensures *final(self) == *old(self), r == old(self).barrier_primal_spec(s@),
//@end

//@fn file=src/solver/core/cones/expcone.rs in="impl<T> ExponentialCone<T>" name=new rules=R1,R2 ret=r
//@contract
    ensures all_eq(r.H_dual.data@, f_zero()), all_eq(r.Hs.data@, f_zero()), all_eq(r.grad@, f_zero()), all_eq(r.z@, f_zero()),
//@end
//@fn file=src/solver/core/cones/expcone.rs in="Cone<T> for ExponentialCone<T>" name=degree rules=R1,R2 ret=r
//@contract
    ensures r == 3,
//@end
//@fn file=src/solver/core/cones/expcone.rs in="Cone<T> for ExponentialCone<T>" name=numel rules=R1,R2 ret=r
//@contract
    ensures r == 3,
//@end
//@fn file=src/solver/core/cones/expcone.rs in="Cone<T> for ExponentialCone<T>" name=is_symmetric rules=R1,R2 ret=r
//@contract
    ensures !r,
//@end
//@fn file=src/solver/core/cones/expcone.rs in="Cone<T> for ExponentialCone<T>" name=is_sparse_expandable rules=R1,R2 ret=r
//@contract
    ensures !r,
//@end
//@fn file=src/solver/core/cones/expcone.rs in="Cone<T> for ExponentialCone<T>" name=allows_primal_dual_scaling rules=R1,R2 ret=r
//@contract
    // cones/mod.rs: "report false here if only dual scaling is implemented (e.g. GenPowerCone)"; this cone implements use_primal_dual_scaling
    ensures r,
//@end
//@fn file=src/solver/core/cones/expcone.rs in="Cone<T> for ExponentialCone<T>" name=Hs_is_diagonal rules=R1,R2 ret=r
//@contract
    ensures !r,
//@end
//@fn file=src/solver/core/cones/expcone.rs in="Cone<T> for ExponentialCone<T>" name=margins rules=R1,R2,unreach ret=r
//@contract
    // unreachable!(): "We should never end up shifting to this cone, since asymmetric problems should always use unit_initialization".
    // Rule `unreach`: the panic is modelled as divergence; the contract says the call NEVER RETURNS (a body that does return fails it).
    // Why it is never called (by inspection, the obligation of the callers): the only caller chain is CompositeCone::margins <-
    // _shift_to_cone_interior <- symmetric_initialization <- default_start under `if self.cones.is_symmetric()`, and
    // CompositeCone::is_symmetric is the conjunction of the per-cone flags (is_symmetric() == false here, proved above).
    ensures false,
//@end
//@fn file=src/solver/core/cones/expcone.rs in="Cone<T> for ExponentialCone<T>" name=scaled_unit_shift rules=R1,R2,unreach
//@contract
    ensures false,     // as for margins
//@end
//@fn file=src/solver/core/cones/expcone.rs in="Cone<T> for ExponentialCone<T>" name=set_identity_scaling rules=R1,R2,unreach
//@contract
    // unreachable!(): "we never want to allow symmetric initialization"; called by default_start only under cones.is_symmetric()
    ensures false,
//@end
//@fn file=src/solver/core/cones/expcone.rs in="Cone<T> for ExponentialCone<T>" name=unit_initialization rules=R1,R2,tupassignx
//@contract
    // call site (CompositeCone::unit_initialization): the slices z[rng], s[rng] of this cone, rng.len() == numel() == 3
    requires old(z)@.len() == 3, old(s)@.len() == 3,
    ensures final(s)@ =~= exp_central(), final(z)@ =~= exp_central(),
//@end
//@fn file=src/solver/core/cones/expcone.rs in="Cone<T> for ExponentialCone<T>" name=get_Hs rules=R1,R2
//@contract
    // the KKT block of a non-diagonal Hs is the packed upper triangle of numel() = 3: triangular_number(3) = 6 entries
    requires old(Hsblock)@.len() == 6,
    ensures final(Hsblock)@.len() == 6,
        // entry (r, c) of the stored symmetric matrix goes to slot tri(c) + r of the block (coord_to_upper_triangular_index)
        forall|r: int, c: int| 0 <= r <= c < 3 ==> #[trigger] final(Hsblock)@[tri(c) + r] == m3(self.Hs.data@, r, c),
//@post
    proof { lemma_sym3_table(); }
//@end
//@fn file=src/solver/core/cones/expcone.rs in="Cone<T> for ExponentialCone<T>" name=mul_Hs rules=R1,R2
//@contract
    requires old(y)@.len() == 3, x@.len() == 3,
    ensures *final(self) == *old(self), final(_work)@ == old(_work)@, final(y)@.len() == 3,
        forall|i: int| 0 <= i < 3 ==> #[trigger] final(y)@[i] == m3_rowdot(old(self).Hs.data@, i, x@),
//@end
//@fn file=src/solver/core/cones/expcone.rs in="Cone<T> for ExponentialCone<T>" name=affine_ds rules=R1,R2
//@contract
    requires old(ds)@.len() == s@.len(),
    ensures final(ds)@ == s@,
//@end
//@fn file=src/solver/core/cones/expcone.rs in="Cone<T> for ExponentialCone<T>" name=Δs_from_Δz_offset rules=R1,R2
//@contract
    requires old(out)@.len() == ds@.len(),
    ensures *final(self) == *old(self), final(_work)@ == old(_work)@, final(out)@ == ds@,
//@end
//@fn file=src/solver/core/cones/expcone.rs in="Cone<T> for ExponentialCone<T>" name=combined_ds_shift rules=R1,R2
//@contract
    requires old(shift)@.len() == 3, old(step_z)@.len() == 3, old(step_s)@.len() == 3,
    ensures *final(self) == *old(self), final(step_z)@ == old(step_z)@, final(step_s)@ == old(step_s)@, final(shift)@.len() == 3,
        // shift = grad*sigma_mu - eta,  eta = the higher-order correction of (ds = step_s, v = step_z)
        forall|i: int| 0 <= i < 3 ==> #[trigger] final(shift)@[i] ==
            f_sub(f_mul(old(self).grad@[i], sigmamu), old(self).higher_correction_spec(old(step_s)@, old(step_z)@)[i]),
//@loop 1
        invariant shift@.len() == 3, eta@ == old(self).higher_correction_spec(old(step_s)@, old(step_z)@), eta@.len() == 3, *self == *old(self),
            forall|k: int| 0 <= k < i ==> #[trigger] shift@[k] == f_sub(f_mul(self.grad@[k], sigmamu), eta@[k]),
//@end
//@fn file=src/solver/core/cones/expcone.rs in="Cone<T> for ExponentialCone<T>" name=compute_barrier rules=R1,R2 ret=r
//@contract
    requires z@.len() == 3, s@.len() == 3, dz@.len() == 3, ds@.len() == 3,
        // the documented panic of _wright_omega (exponential cone only; `true` for the power cone): see the header, OPEN ITEM 1
        old(self).primal_pre(shifted3(s@, ds@, alpha)),
    ensures *final(self) == *old(self),
        r == f_add(f_add(f_zero(), old(self).barrier_dual_spec(shifted3(z@, dz@, alpha))), old(self).barrier_primal_spec(shifted3(s@, ds@, alpha))),
//@after "let cur_s"
    proof { assert(cur_z@ =~= shifted3(z@, dz@, alpha)); assert(cur_s@ =~= shifted3(s@, ds@, alpha)); }
//@end
//@fn file=src/solver/core/cones/expcone.rs in="NonsymmetricCone<T> for ExponentialCone<T>" name=is_primal_feasible rules=R1,R2 ret=r
//@contract
    requires s@.len() == 3,
    ensures r == exp_in_primal(s@),
//@end
//@fn file=src/solver/core/cones/expcone.rs in="NonsymmetricCone<T> for ExponentialCone<T>" name=is_dual_feasible rules=R1,R2 ret=r
//@contract
    requires z@.len() == 3,
    ensures r == exp_in_dual(z@),
//@end
//@fn file=src/solver/core/cones/expcone.rs in="NonsymmetricCone<T> for ExponentialCone<T>" name=update_dual_grad_H rules=R1,R2,tupidx
//@contract
    requires z@.len() == 3,
    ensures final(self).Hs == old(self).Hs, final(self).z == old(self).z,
        final(self).grad@ =~= exp_dual_grad(z@),
        forall|a: int, b: int| 0 <= a <= b < 3 ==> #[trigger] m3(final(self).H_dual.data@, a, b) == exp_dual_hess(z@, a, b),
//@pre
    proof { lemma_sym3_table(); }
//@end
// the REAL bodies of the callees that are otherwise used through their assumed (uninterpreted-result) contracts, under the part of
// those contracts that can be proved: no panic for vectors of length 3, and the cone is not modified
//@fn file=src/solver/core/cones/expcone.rs in="NonsymmetricCone<T> for ExponentialCone<T>" name=higher_correction rules=R1,R2,tupidx
//@contract
    requires old(eta)@.len() == 3, ds@.len() == 3, v@.len() == 3,
    ensures *final(self) == *old(self), final(eta)@.len() == 3, final(eta)@ =~= old(self).higher_correction_spec(ds@, v@),
//@before "let psi ="
        proof { assert(eta@ =~= exp_hc_gpsi(z@)); assert(u@ =~= ch_solution(H.data@, ds@)); }
//@end
//@fn file=src/solver/core/cones/expcone.rs in="NonsymmetricCone<T> for ExponentialCone<T>" name=barrier_dual rules=R1,R2 ret=r
//@contract
    requires z@.len() == 3,
    ensures *final(self) == *old(self), r == exp_barrier_dual(z@),
//@end
//@fn file=src/solver/core/cones/expcone.rs in="Nonsymmetric3DCone<T> for ExponentialCone<T>" name=split_borrow_mut rules=R1,R2 ret=r
//@contract
    ensures *r.0 == old(self).H_dual, *r.1 == old(self).Hs, *r.2 == old(self).grad, *r.3 == old(self).z,
        final(self).H_dual == *final(r.0), final(self).Hs == *final(r.1), final(self).grad == *final(r.2), final(self).z == *final(r.3),
//@end
//@include units/inc/nonsym3d_utils.rs
//@fn file=src/solver/core/cones/expcone.rs in="Cone<T> for ExponentialCone<T>" name=update_scaling rules=R1,R2 ret=r
//@contract
    requires s@.len() == 3, z@.len() == 3,
        scaling_strategy != ScalingStrategy::Dual ==> old(self).primal_pre(s@),      // as for compute_barrier (gradient_primal(s) is evaluated)
    ensures r,
        // "K.z .= z": the scaling point is remembered
        final(self).z@ == z@,
        // "update both gradient and Hessian for function f*(z) at the point z"
        final(self).grad@ =~= exp_dual_grad(z@),
        forall|a: int, b: int| 0 <= a <= b < 3 ==> #[trigger] m3(final(self).H_dual.data@, a, b) == exp_dual_hess(z@, a, b),
        // "update the scaling matrix Hs": mu*H(z) (dual scaling, the mu handed in), or the primal-dual update built from the NEW H, grad
        scaling_strategy == ScalingStrategy::Dual ==> dual_scaled(final(self).Hs.data@, final(self).H_dual.data@, mu),
        scaling_strategy != ScalingStrategy::Dual ==>
            pd_scaled(final(self).Hs.data@, final(self).H_dual.data@, final(self).grad@, final(self).gradient_primal_spec(s@), s@, z@),
//@end
}

// ------------------------------------------------------------------ PowerCone (cones/powcone.rs)
//@struct file=src/solver/core/cones/powcone.rs name=PowerCone rules=R2
pub open spec fn one_minus(al: F) -> F { f_sub(f_one(), al) }
// the central point documented in unit_initialization: s = z = (sqrt(1 + alpha), sqrt(1 + (1 - alpha)), 0)
pub open spec fn pow_central(al: F) -> Seq<F> { seq3(f_sqrt(f_add(f_one(), al)), f_sqrt(f_add(f_one(), one_minus(al))), f_zero()) }
// Primal power cone (0-based): s0^alpha * s1^(1-alpha) >= |s2|, s0, s1 >= 0; tested strictly, squared, through exp / log:
//   s0 > 0 && s1 > 0 && exp(2 alpha log s0 + 2 (1-alpha) log s1) - s2^2 > 0
pub open spec fn pow_in_primal(al: F, s: Seq<F>) -> bool {
    f_lt(f_zero(), s[0]) && f_lt(f_zero(), s[1])
        && f_lt(f_zero(), f_sub(f_exp(f_add(f_mul(f_mul(lit2(), al), logsafe_spec(s[0])), f_mul(f_mul(lit2(), one_minus(al)), logsafe_spec(s[1])))), f_mul(s[2], s[2])))
}
// Dual power cone: (z0/alpha)^alpha * (z1/(1-alpha))^(1-alpha) >= |z2|, z0, z1 >= 0; same form on z0/alpha, z1/(1-alpha)
pub open spec fn pow_in_dual(al: F, z: Seq<F>) -> bool {
    f_lt(f_zero(), z[0]) && f_lt(f_zero(), z[1])
        && f_lt(f_zero(), f_sub(f_exp(f_add(f_mul(f_mul(al, lit2()), logsafe_spec(f_div(z[0], al))),
                                              f_mul(f_mul(one_minus(al), logsafe_spec(f_div(z[1], one_minus(al)))), lit2()))), f_mul(z[2], z[2])))
}
// gradient and Hessian of the dual barrier f*(z) = -log(phi - z2^2) - (1-alpha) log z0 - alpha log z1,
//   phi = (z0/alpha)^(2 alpha) (z1/(1-alpha))^(2(1-alpha)),  psi = phi - z2^2,  as update_dual_grad_H evaluates them
pub open spec fn pow_phi(al: F, z: Seq<F>) -> F {
    f_mul(f_powf(f_div(z[0], al), f_mul(lit2(), al)), f_powf(f_div(z[1], one_minus(al)), f_sub(lit2(), f_mul(lit2(), al))))
}
pub open spec fn pow_psi(al: F, z: Seq<F>) -> F { f_sub(pow_phi(al, z), f_mul(z[2], z[2])) }
// gradient of psi divided by psi (held in `grad` as a workspace while the Hessian is formed)
pub open spec fn pow_gpsi(al: F, z: Seq<F>, i: int) -> F {
    let phi = pow_phi(al, z); let psi = pow_psi(al, z);
    if i == 0 { f_div(f_mul(f_mul(lit2(), al), phi), f_mul(z[0], psi)) }
    else if i == 1 { f_div(f_mul(f_mul(lit2(), one_minus(al)), phi), f_mul(z[1], psi)) }
    else { f_div(f_mul(f_neg(lit2()), z[2]), psi) }
}
pub open spec fn pow_dual_grad(al: F, z: Seq<F>) -> Seq<F> {
    let phi = pow_phi(al, z); let psi = pow_psi(al, z);
    seq3(f_sub(f_div(f_mul(f_mul(f_neg(lit2()), al), phi), f_mul(z[0], psi)), f_div(one_minus(al), z[0])),
         f_sub(f_div(f_mul(f_mul(f_neg(lit2()), one_minus(al)), phi), f_mul(z[1], psi)), f_div(al, z[1])),
         f_div(f_mul(lit2(), z[2]), psi))
}
pub open spec fn lit4() -> F { f_lit(4.0f64) }
pub open spec fn pow_dual_hess(al: F, z: Seq<F>, a: int, b: int) -> F {
    let phi = pow_phi(al, z); let psi = pow_psi(al, z);
    let g0 = pow_gpsi(al, z, 0); let g1 = pow_gpsi(al, z, 1); let g2 = pow_gpsi(al, z, 2);
    if a == 0 && b == 0 {
        f_add(f_sub(f_mul(g0, g0), f_div(f_mul(f_mul(f_mul(lit2(), al), f_sub(f_mul(lit2(), al), f_one())), phi), f_mul(f_mul(z[0], z[0]), psi))),
              f_div(one_minus(al), f_mul(z[0], z[0])))
    } else if a == 0 && b == 1 {
        f_sub(f_mul(g0, g1), f_div(f_mul(f_mul(f_mul(lit4(), al), one_minus(al)), phi), f_mul(f_mul(z[0], z[1]), psi)))
    } else if a == 1 && b == 1 {
        f_add(f_sub(f_mul(g1, g1), f_div(f_mul(f_mul(f_mul(lit2(), one_minus(al)), f_sub(f_one(), f_mul(lit2(), al))), phi), f_mul(f_mul(z[1], z[1]), psi))),
              f_div(al, f_mul(z[1], z[1])))
    } else if a == 0 && b == 2 { f_mul(g0, g2) }
    else if a == 1 && b == 2 { f_mul(g1, g2) }
    else { f_add(f_mul(g2, g2), f_div(lit2(), psi)) }
}
// primal gradient g(s) of the power cone (powcone.rs; the conjugate gradient): phi = s0^(2 alpha) s1^(2 - 2 alpha);
//   |s2| > eps:  g2 = sign(s2) * newton(|s2|, phi, alpha),  g0 = -(alpha g2 s2 + 1 + alpha)/s0,  g1 = -((1 - alpha) g2 s2 + 2 - alpha)/s1;
//   otherwise:   g = (-(1 + alpha)/s0, -(2 - alpha)/s1, 0).
// `_newton_raphson_powcone` is an ASSUMED stand-in: its value is the uninterpreted pow_g3_spec of exactly its arguments.
pub uninterp spec fn pow_g3_spec(abs_s: F, phi: F, al: F) -> F;
#[verifier::external_body]
fn _newton_raphson_powcone(s3: F, phi: F, alpha: F) -> (r: F) ensures r == pow_g3_spec(s3, phi, alpha), { unimplemented!() }
pub open spec fn pow_primal_phi(al: F, s: Seq<F>) -> F { f_mul(f_powf(s[0], f_mul(lit2(), al)), f_powf(s[1], f_sub(lit2(), f_mul(al, lit2())))) }
pub open spec fn pow_gradient_primal(al: F, s: Seq<F>) -> Seq<F> {
    let abs_s = f_abs(s[2]);
    if f_lt(f_eps(), abs_s) {
        let g2n = pow_g3_spec(abs_s, pow_primal_phi(al, s), al);
        let g2 = if f_lt(s[2], f_zero()) { f_neg(g2n) } else { g2n };
        seq3(f_div(f_neg(f_add(f_add(f_mul(f_mul(al, g2), s[2]), f_one()), al)), s[0]),
             f_div(f_neg(f_sub(f_add(f_mul(f_mul(one_minus(al), g2), s[2]), lit2()), al)), s[1]),
             g2)
    } else {
        seq3(f_div(f_neg(f_add(f_one(), al)), s[0]), f_div(f_neg(f_sub(lit2(), al)), s[1]), f_zero())
    }
}
// 3rd-order correction eta at the stored point z (powcone.rs), u = H^{-1} ds through the explicit Cholesky pair (eta = 0 if a pivot fails):
//   g_psi = (2 a phi/z0, 2(1-a) phi/z1, -2 z2),  H_psi = [2a(2a-1)phi/z0^2, 4a(1-a)phi/(z0 z1), 0; ., 2(1-a)(1-2a)phi/z1^2, 0; ., ., -2],
//   eta = ( coef*g_psi - (2(1-a)u0v0/z0^3, 2a u1v1/z1^3, 0) + coef2*(1/z0, -1/z1, 0) + <g_psi,u>/psi^2 H_psi v + <g_psi,v>/psi^2 H_psi u ) / 2
// every entry as the float expression evaluated
pub open spec fn pow_hc_g(al: F, z: Seq<F>) -> Seq<F> {
    let phi = pow_phi(al, z);
    seq3(f_div(f_mul(f_mul(lit2(), al), phi), z[0]), f_div(f_mul(f_mul(lit2(), one_minus(al)), phi), z[1]), f_mul(f_neg(lit2()), z[2]))
}
pub open spec fn pow_hc_hpsi(al: F, z: Seq<F>, a: int, b: int) -> F {
    let phi = pow_phi(al, z); let i = if a <= b { a } else { b }; let j = if a <= b { b } else { a };
    if i == 0 && j == 0 { f_div(f_mul(f_mul(f_mul(lit2(), al), f_sub(f_mul(lit2(), al), f_one())), phi), f_mul(z[0], z[0])) }
    else if i == 0 && j == 1 { f_div(f_mul(f_mul(f_mul(lit4(), al), one_minus(al)), phi), f_mul(z[0], z[1])) }
    else if i == 1 && j == 1 { f_div(f_mul(f_mul(f_mul(lit2(), one_minus(al)), f_sub(f_one(), f_mul(lit2(), al))), phi), f_mul(z[1], z[1])) }
    else if i == 2 && j == 2 { f_neg(lit2()) }
    else { f_zero() }
}
pub open spec fn pow_hc_hrow(al: F, z: Seq<F>, i: int, x: Seq<F>) -> F {
    f_add(f_add(f_mul(pow_hc_hpsi(al, z, i, 0), x[0]), f_mul(pow_hc_hpsi(al, z, i, 1), x[1])), f_mul(pow_hc_hpsi(al, z, i, 2), x[2]))
}
pub open spec fn pow_hc_hx(al: F, z: Seq<F>, x: Seq<F>) -> Seq<F> { seq3(pow_hc_hrow(al, z, 0, x), pow_hc_hrow(al, z, 1, x), pow_hc_hrow(al, z, 2, x)) }
pub open spec fn pow_hc_coef(al: F, z: Seq<F>, u: Seq<F>, v: Seq<F>) -> F {
    let g = pow_hc_g(al, z); let psi = pow_psi(al, z);
    f_div(f_sub(f_mul(vm_dot(u, pow_hc_hx(al, z, v)), psi), f_mul(f_mul(lit2(), vm_dot(u, g)), vm_dot(v, g))), f_mul(f_mul(psi, psi), psi))
}
pub open spec fn pow_hc_coef2(al: F, z: Seq<F>, u: Seq<F>, v: Seq<F>) -> F {
    f_div(f_mul(f_mul(f_mul(f_mul(f_mul(f_mul(lit4(), al), f_sub(f_mul(lit2(), al), f_one())), one_minus(al)), pow_phi(al, z)),
                      f_sub(f_div(u[0], z[0]), f_div(u[1], z[1]))), f_sub(f_div(v[0], z[0]), f_div(v[1], z[1]))), pow_psi(al, z))
}
// eta before the last two statements (axpby with H_psi u, halving)
pub open spec fn pow_hc_mid(al: F, z: Seq<F>, u: Seq<F>, v: Seq<F>) -> Seq<F> {
    let g = pow_hc_g(al, z); let psi = pow_psi(al, z); let dotu = vm_dot(u, g); let inv = f_recip(f_mul(psi, psi));
    let coef = pow_hc_coef(al, z, u, v); let coef2 = pow_hc_coef2(al, z, u, v); let hv = pow_hc_hx(al, z, v);
    seq3(f_add(f_add(f_sub(f_mul(coef, g[0]), f_div(f_mul(f_mul(f_mul(lit2(), one_minus(al)), u[0]), v[0]), f_mul(f_mul(z[0], z[0]), z[0]))), f_div(coef2, z[0])),
               f_mul(f_mul(hv[0], dotu), inv)),
         f_add(f_sub(f_sub(f_mul(coef, g[1]), f_div(f_mul(f_mul(f_mul(lit2(), al), u[1]), v[1]), f_mul(f_mul(z[1], z[1]), z[1]))), f_div(coef2, z[1])),
               f_mul(f_mul(hv[1], dotu), inv)),
         f_add(f_mul(coef, g[2]), f_mul(f_mul(hv[2], dotu), inv)))
}
pub open spec fn pow_higher_correction(al: F, h: Seq<F>, z: Seq<F>, ds: Seq<F>, v: Seq<F>) -> Seq<F> {
    if !ch_ok(h) { seq3(f_zero(), f_zero(), f_zero()) } else {
        let u = ch_solution(h, ds); let g = pow_hc_g(al, z); let psi = pow_psi(al, z);
        let w = f_mul(vm_dot(v, g), f_recip(f_mul(psi, psi)));
        let mid = pow_hc_mid(al, z, u, v); let hu = pow_hc_hx(al, z, u);
        seq3(f_mul(f_add(f_mul(w, hu[0]), f_mul(f_one(), mid[0])), lit_half()),
             f_mul(f_add(f_mul(w, hu[1]), f_mul(f_one(), mid[1])), lit_half()),
             f_mul(f_add(f_mul(w, hu[2]), f_mul(f_one(), mid[2])), lit_half()))
    }
}
// Primal barrier (powcone.rs): f(s) = <s, g(s)> - f*(-g(s)) with <s, g(s)> = -3, g = gradient_primal(s):
//   log((-g0/alpha)^(2 alpha) (-g1/(1-alpha))^(2 - 2 alpha) - g2^2) + (1-alpha) log(-g0) + alpha log(-g1) - 3
pub open spec fn pow_barrier_primal(al: F, s: Seq<F>) -> F {
    let g = pow_gradient_primal(al, s);
    let t1 = logsafe_spec(f_sub(f_mul(f_powf(f_div(f_neg(g[0]), al), f_mul(lit2(), al)), f_powf(f_div(f_neg(g[1]), one_minus(al)), f_sub(lit2(), f_mul(al, lit2())))), f_mul(g[2], g[2])));
    let t2 = f_mul(one_minus(al), logsafe_spec(f_neg(g[0])));
    let t3 = f_sub(f_mul(al, logsafe_spec(f_neg(g[1]))), lit3());
    f_add(f_add(f_add(f_zero(), t1), t2), t3)
}
// Dual barrier (powcone.rs): f*(z) = -log((z0/alpha)^(2 alpha) (z1/(1-alpha))^(2(1-alpha)) - z2^2) - (1-alpha) log z0 - alpha log z1
pub open spec fn pow_barrier_dual(al: F, z: Seq<F>) -> F {
    f_sub(f_sub(f_neg(logsafe_spec(pow_psi(al, z))), f_mul(one_minus(al), logsafe_spec(z[0]))), f_mul(al, logsafe_spec(z[1])))
}
impl PowerCone<F> {
    // ASSUMED callees, as for the exponential cone; they also read the parameter alpha
    pub open spec fn gradient_primal_spec(&self, s: Seq<F>) -> Seq<F> { pow_gradient_primal(self.alpha, s) }
    pub open spec fn higher_correction_spec(&self, ds: Seq<F>, v: Seq<F>) -> Seq<F> { pow_higher_correction(self.alpha, self.H_dual.data@, self.z@, ds, v) }
    pub open spec fn barrier_primal_spec(&self, s: Seq<F>) -> F { pow_barrier_primal(self.alpha, s) }
    pub open spec fn barrier_dual_spec(&self, z: Seq<F>) -> F { pow_barrier_dual(self.alpha, z) }
    pub open spec fn params_eq(&self, o: Self) -> bool { self.alpha == o.alpha }
    // what gradient_primal / barrier_primal need in order not to hit the documented panic of _wright_omega
    // (no panic source in gradient_primal: the Newton iteration is a stand-in)
    pub open spec fn primal_pre(&self, s: Seq<F>) -> bool { true }
//@fn file=src/solver/core/cones/powcone.rs in="Nonsymmetric3DCone<T> for PowerCone<T>" name=gradient_primal rules=R1,R2 ret=r
//@contract
    requires s@.len() == 3,
    ensures r@ =~= self.gradient_primal_spec(s@),
//@end
//@fn file=src/solver/core/cones/powcone.rs in="NonsymmetricCone<T> for PowerCone<T>" name=barrier_primal rules=R1,R2 ret=r
//@contract
    requires s@.len() == 3,
    ensures *final(self) == *old(self), r == old(self).barrier_primal_spec(s@),
//@end

//@fn file=src/solver/core/cones/powcone.rs in="impl<T> PowerCone<T>" name=new rules=R1,R2 ret=r
//@contract
    ensures r.alpha == alpha, all_eq(r.H_dual.data@, f_zero()), all_eq(r.Hs.data@, f_zero()), all_eq(r.grad@, f_zero()), all_eq(r.z@, f_zero()),
//@end
//@fn file=src/solver/core/cones/powcone.rs in="Cone<T> for PowerCone<T>" name=degree rules=R1,R2 ret=r
//@contract
    ensures r == 3,
//@end
//@fn file=src/solver/core/cones/powcone.rs in="Cone<T> for PowerCone<T>" name=numel rules=R1,R2 ret=r
//@contract
    ensures r == 3,
//@end
//@fn file=src/solver/core/cones/powcone.rs in="Cone<T> for PowerCone<T>" name=is_symmetric rules=R1,R2 ret=r
//@contract
    ensures !r,
//@end
//@fn file=src/solver/core/cones/powcone.rs in="Cone<T> for PowerCone<T>" name=is_sparse_expandable rules=R1,R2 ret=r
//@contract
    ensures !r,
//@end
//@fn file=src/solver/core/cones/powcone.rs in="Cone<T> for PowerCone<T>" name=allows_primal_dual_scaling rules=R1,R2 ret=r
//@contract
    // cones/mod.rs: "report false here if only dual scaling is implemented (e.g. GenPowerCone)"; this cone implements use_primal_dual_scaling
    ensures r,
//@end
//@fn file=src/solver/core/cones/powcone.rs in="Cone<T> for PowerCone<T>" name=Hs_is_diagonal rules=R1,R2 ret=r
//@contract
    ensures !r,
//@end
//@fn file=src/solver/core/cones/powcone.rs in="Cone<T> for PowerCone<T>" name=margins rules=R1,R2,unreach ret=r
//@contract
    ensures false,     // unreachable!(): see ExponentialCone::margins
//@end
//@fn file=src/solver/core/cones/powcone.rs in="Cone<T> for PowerCone<T>" name=scaled_unit_shift rules=R1,R2,unreach
//@contract
    ensures false,     // as for margins
//@end
//@fn file=src/solver/core/cones/powcone.rs in="Cone<T> for PowerCone<T>" name=set_identity_scaling rules=R1,R2,unreach
//@contract
    // unreachable!(): "we never want to allow symmetric initialization"; called by default_start only under cones.is_symmetric()
    ensures false,
//@end
//@fn file=src/solver/core/cones/powcone.rs in="Cone<T> for PowerCone<T>" name=unit_initialization rules=R1,R2,tupassignx
//@contract
    // call site (CompositeCone::unit_initialization): the slices z[rng], s[rng] of this cone, rng.len() == numel() == 3
    requires old(z)@.len() == 3, old(s)@.len() == 3,
    ensures final(s)@ =~= pow_central(self.alpha), final(z)@ =~= pow_central(self.alpha),
//@end
//@fn file=src/solver/core/cones/powcone.rs in="Cone<T> for PowerCone<T>" name=get_Hs rules=R1,R2
//@contract
    // the KKT block of a non-diagonal Hs is the packed upper triangle of numel() = 3: triangular_number(3) = 6 entries
    requires old(Hsblock)@.len() == 6,
    ensures final(Hsblock)@.len() == 6,
        // entry (r, c) of the stored symmetric matrix goes to slot tri(c) + r of the block (coord_to_upper_triangular_index)
        forall|r: int, c: int| 0 <= r <= c < 3 ==> #[trigger] final(Hsblock)@[tri(c) + r] == m3(self.Hs.data@, r, c),
//@post
    proof { lemma_sym3_table(); }
//@end
//@fn file=src/solver/core/cones/powcone.rs in="Cone<T> for PowerCone<T>" name=mul_Hs rules=R1,R2
//@contract
    requires old(y)@.len() == 3, x@.len() == 3,
    ensures *final(self) == *old(self), final(_work)@ == old(_work)@, final(y)@.len() == 3,
        forall|i: int| 0 <= i < 3 ==> #[trigger] final(y)@[i] == m3_rowdot(old(self).Hs.data@, i, x@),
//@end
//@fn file=src/solver/core/cones/powcone.rs in="Cone<T> for PowerCone<T>" name=affine_ds rules=R1,R2
//@contract
    requires old(ds)@.len() == s@.len(),
    ensures final(ds)@ == s@,
//@end
//@fn file=src/solver/core/cones/powcone.rs in="Cone<T> for PowerCone<T>" name=Δs_from_Δz_offset rules=R1,R2
//@contract
    requires old(out)@.len() == ds@.len(),
    ensures *final(self) == *old(self), final(_work)@ == old(_work)@, final(out)@ == ds@,
//@end
//@fn file=src/solver/core/cones/powcone.rs in="Cone<T> for PowerCone<T>" name=combined_ds_shift rules=R1,R2
//@contract
    requires old(shift)@.len() == 3, old(step_z)@.len() == 3, old(step_s)@.len() == 3,
    ensures *final(self) == *old(self), final(step_z)@ == old(step_z)@, final(step_s)@ == old(step_s)@, final(shift)@.len() == 3,
        // shift = grad*sigma_mu - eta,  eta = the higher-order correction of (ds = step_s, v = step_z)
        forall|i: int| 0 <= i < 3 ==> #[trigger] final(shift)@[i] ==
            f_sub(f_mul(old(self).grad@[i], sigmamu), old(self).higher_correction_spec(old(step_s)@, old(step_z)@)[i]),
//@loop 1
        invariant shift@.len() == 3, eta@ == old(self).higher_correction_spec(old(step_s)@, old(step_z)@), eta@.len() == 3, *self == *old(self),
            forall|k: int| 0 <= k < i ==> #[trigger] shift@[k] == f_sub(f_mul(self.grad@[k], sigmamu), eta@[k]),
//@end
//@fn file=src/solver/core/cones/powcone.rs in="Cone<T> for PowerCone<T>" name=compute_barrier rules=R1,R2 ret=r
//@contract
    requires z@.len() == 3, s@.len() == 3, dz@.len() == 3, ds@.len() == 3,
        // the documented panic of _wright_omega (exponential cone only; `true` for the power cone): see the header, OPEN ITEM 1
        old(self).primal_pre(shifted3(s@, ds@, alpha)),
    ensures *final(self) == *old(self),
        r == f_add(f_add(f_zero(), old(self).barrier_dual_spec(shifted3(z@, dz@, alpha))), old(self).barrier_primal_spec(shifted3(s@, ds@, alpha))),
//@after "let cur_s"
    proof { assert(cur_z@ =~= shifted3(z@, dz@, alpha)); assert(cur_s@ =~= shifted3(s@, ds@, alpha)); }
//@end
//@fn file=src/solver/core/cones/powcone.rs in="NonsymmetricCone<T> for PowerCone<T>" name=is_primal_feasible rules=R1,R2 ret=r
//@contract
    requires s@.len() == 3,
    ensures r == pow_in_primal(self.alpha, s@),
//@end
//@fn file=src/solver/core/cones/powcone.rs in="NonsymmetricCone<T> for PowerCone<T>" name=is_dual_feasible rules=R1,R2 ret=r
//@contract
    requires z@.len() == 3,
    ensures r == pow_in_dual(self.alpha, z@),
//@end
//@fn file=src/solver/core/cones/powcone.rs in="NonsymmetricCone<T> for PowerCone<T>" name=update_dual_grad_H rules=R1,R2,tupidx
//@contract
    requires z@.len() == 3,
    ensures final(self).Hs == old(self).Hs, final(self).z == old(self).z, final(self).alpha == old(self).alpha,
        final(self).grad@ =~= pow_dual_grad(old(self).alpha, z@),
        forall|a: int, b: int| 0 <= a <= b < 3 ==> #[trigger] m3(final(self).H_dual.data@, a, b) == pow_dual_hess(old(self).alpha, z@, a, b),
//@pre
    proof { lemma_sym3_table(); }
//@end
// the REAL bodies of the callees that are otherwise used through their assumed (uninterpreted-result) contracts, under the part of
// those contracts that can be proved: no panic for vectors of length 3, and the cone is not modified
//@fn file=src/solver/core/cones/powcone.rs in="NonsymmetricCone<T> for PowerCone<T>" name=higher_correction rules=R1,R2,tupidx
//@contract
    requires old(eta)@.len() == 3, ds@.len() == 3, v@.len() == 3,
    ensures *final(self) == *old(self), final(eta)@.len() == 3, final(eta)@ =~= old(self).higher_correction_spec(ds@, v@),
//@pre
        proof { lemma_sym3_table(); }
//@before "let dotpsiu ="
        proof {
            assert(u@ =~= ch_solution(H.data@, ds@));
            assert(eta@ =~= pow_hc_g(alpha, z@));
            assert(forall|a: int, b: int| 0 <= a < 3 && 0 <= b < 3 ==> #[trigger] m3(Hpsi.data@, a, b) == pow_hc_hpsi(alpha, z@, a, b));
        }
//@before "let coef ="
        proof { assert(Hpsiv@ =~= pow_hc_hx(alpha, z@, v@)); }
//@before "let Hpsiu ="
        proof { assert(eta@ =~= pow_hc_mid(alpha, z@, u@, v@)); }
//@before "eta[..].axpby("
        proof { assert(Hpsiu@ =~= pow_hc_hx(alpha, z@, u@)); }
//@end
//@fn file=src/solver/core/cones/powcone.rs in="NonsymmetricCone<T> for PowerCone<T>" name=barrier_dual rules=R1,R2 ret=r
//@contract
    requires z@.len() == 3,
    ensures *final(self) == *old(self), r == pow_barrier_dual(old(self).alpha, z@),
//@end
//@fn file=src/solver/core/cones/powcone.rs in="Nonsymmetric3DCone<T> for PowerCone<T>" name=split_borrow_mut rules=R1,R2 ret=r
//@contract
    ensures *r.0 == old(self).H_dual, *r.1 == old(self).Hs, *r.2 == old(self).grad, *r.3 == old(self).z,
        final(self).H_dual == *final(r.0), final(self).Hs == *final(r.1), final(self).grad == *final(r.2), final(self).z == *final(r.3),
        final(self).alpha == old(self).alpha,
//@end
//@include units/inc/nonsym3d_utils.rs
//@fn file=src/solver/core/cones/powcone.rs in="Cone<T> for PowerCone<T>" name=update_scaling rules=R1,R2 ret=r
//@contract
    requires s@.len() == 3, z@.len() == 3,
        scaling_strategy != ScalingStrategy::Dual ==> old(self).primal_pre(s@),      // as for compute_barrier (gradient_primal(s) is evaluated)
    ensures r,
        // "K.z .= z": the scaling point is remembered
        final(self).z@ == z@,
        // "update both gradient and Hessian for function f*(z) at the point z"
        final(self).alpha == old(self).alpha,
        final(self).grad@ =~= pow_dual_grad(old(self).alpha, z@),
        forall|a: int, b: int| 0 <= a <= b < 3 ==> #[trigger] m3(final(self).H_dual.data@, a, b) == pow_dual_hess(old(self).alpha, z@, a, b),
        // "update the scaling matrix Hs": mu*H(z) (dual scaling, the mu handed in), or the primal-dual update built from the NEW H, grad
        scaling_strategy == ScalingStrategy::Dual ==> dual_scaled(final(self).Hs.data@, final(self).H_dual.data@, mu),
        scaling_strategy != ScalingStrategy::Dual ==>
            pd_scaled(final(self).Hs.data@, final(self).H_dual.data@, final(self).grad@, final(self).gradient_primal_spec(s@), s@, z@),
//@end
}

// ------------------------------------------------------------------ GenPowerCone (cones/genpowcone.rs)
//@struct file=src/solver/core/cones/genpowcone.rs name=GenPowerConeData rules=R2
//@struct file=src/solver/core/cones/genpowcone.rs name=GenPowerCone rules=R2
impl AsFloatT for usize { #[verifier::external_body] fn as_T(&self) -> (r: F) ensures r == f_from_usize(*self) { unimplemented!() } }
pub open spec fn gp_dim1(c: GenPowerCone<F>) -> int { c.alpha@.len() as int }
pub open spec fn gp_dim(c: GenPowerCone<F>) -> int { c.alpha@.len() + c.dim2 }
// well-formedness established by `new`: every work vector has the length it was allocated with, and dim = dim1 + dim2 fits a usize
pub open spec fn gp_wf0(c: GenPowerCone<F>) -> bool {
    &&& gp_dim(c) <= usize::MAX
    &&& c.data.grad@.len() == gp_dim(c) && c.data.z@.len() == gp_dim(c) && c.data.p@.len() == gp_dim(c)
    &&& c.data.q@.len() == gp_dim1(c) && c.data.d1@.len() == gp_dim1(c) && c.data.r@.len() == c.dim2
    &&& c.data.work_pb@.len() == gp_dim(c)
}
// (`work` is moved out of the cone while a barrier / line search runs, hence the split)
pub open spec fn gp_wf(c: GenPowerCone<F>) -> bool { gp_wf0(c) && c.data.work@.len() == gp_dim(c) }
// ASSUMED std: mem::take hands out the old value (what it leaves behind, `Default::default()`, is not specified here: never read)
pub assume_specification<T: Default> [core::mem::take::<T>] (x: &mut T) -> (r: T) ensures r == *old(x);
// the two input checks of GenPowerConeData::new ("these checks belong elsewhere"): every power positive, the powers sum to one up to rounding
pub open spec fn gp_alpha_ok(al: Seq<F>) -> bool {
    &&& forall|k: int| 0 <= k < al.len() ==> f_lt(f_zero(), #[trigger] al[k])
    &&& f_lt(f_abs(f_sub(f_one(), fold_sum(al, al.len() as int))), f_mul(f_mul(f_eps(), f_from_usize(al.len() as usize)), f_lit(0.5f64)))
}
impl GenPowerConeData<F> {
// rule R26: the two `assert!`s are input validation with a documented panic; seen from the caller the call does not return then.
// The contract says what holds WHENEVER `new` returns (so the checks are a complete test of gp_alpha_ok) and what is allocated.
//@fn file=src/solver/core/cones/genpowcone.rs in="impl<T> GenPowerConeData<T>" name=new rules=R1,R2,R21,R26 ret=r
//@contract
    requires alpha@.len() + dim2 <= usize::MAX,      // `dim1 + dim2` must not overflow (call site: the cone dimension of a problem that fits in memory)
    ensures gp_alpha_ok(alpha@),
        r.grad@.len() == alpha@.len() + dim2, r.z@.len() == alpha@.len() + dim2, r.p@.len() == alpha@.len() + dim2,
        r.work@.len() == alpha@.len() + dim2, r.work_pb@.len() == alpha@.len() + dim2,
        r.q@.len() == alpha@.len(), r.d1@.len() == alpha@.len(), r.r@.len() == dim2,
        all_eq(r.grad@, f_zero()), all_eq(r.z@, f_zero()), all_eq(r.p@, f_zero()), all_eq(r.q@, f_zero()), all_eq(r.r@, f_zero()),
        all_eq(r.d1@, f_zero()), all_eq(r.work@, f_zero()), all_eq(r.work_pb@, f_zero()),
        r.mu == f_one(), r.d2 == f_zero(), r.psi == f_div(f_one(), vm_sumsq(alpha@)),
//@iter 1
it
//@loop 1
            invariant it.seq().len() == alpha@.len(), forall|i: int| 0 <= i < alpha@.len() ==> *(#[trigger] it.seq()[i]) == alpha@[i],
                r21_k1 == (forall|k: int| 0 <= k < it.index@ ==> f_lt(f_zero(), #[trigger] alpha@[k])),
//@end
}
// Hs = mu*(D + pp' - qq' - rr') applied to x, as mul_Hs evaluates it (x1 = x[..dim1], x2 = x[dim1..]):
//   y1 = d1 .* x1 - <q, x1> q,  y2 = d2 * x2 - <r, x2> r,  y = (<p, x> p + 1*y) * mu
pub open spec fn gp_mulHs_entry(c: GenPowerCone<F>, x: Seq<F>, i: int) -> F {
    let d = c.data; let dim1 = gp_dim1(c);
    let coef_p = vm_dot(d.p@, x);
    let coef_q = vm_dot(d.q@, x.subrange(0, dim1));
    let coef_r = vm_dot(d.r@, x.subrange(dim1, x.len() as int));
    let y0 = if i < dim1 { f_sub(f_mul(d.d1@[i], x[i]), f_mul(coef_q, d.q@[i])) } else { f_sub(f_mul(d.d2, x[i]), f_mul(coef_r, d.r@[i - dim1])) };
    f_mul(f_add(f_mul(coef_p, d.p@[i]), f_mul(f_one(), y0)), d.mu)
}
// the trial point q + a*dq as `work.waxpby(1, q, a, dq)` forms it
pub open spec fn shifted(q: Seq<F>, dq: Seq<F>, a: F) -> Seq<F> { Seq::new(q.len(), |i: int| f_add(f_mul(f_one(), q[i]), f_mul(a, dq[i]))) }
// everything but the two scratch vectors is the same
pub open spec fn gp_same_but_scratch(c1: GenPowerCone<F>, c0: GenPowerCone<F>) -> bool {
    &&& c1.alpha@ == c0.alpha@ && c1.dim2 == c0.dim2
    &&& c1.data.grad@ == c0.data.grad@ && c1.data.z@ == c0.data.z@ && c1.data.mu == c0.data.mu
    &&& c1.data.p@ == c0.data.p@ && c1.data.q@ == c0.data.q@ && c1.data.r@ == c0.data.r@ && c1.data.d1@ == c0.data.d1@
    &&& c1.data.d2 == c0.data.d2 && c1.data.psi == c0.data.psi
    &&& c1.data.work_pb@.len() == c0.data.work_pb@.len()
}
// ---- what update_dual_grad_H stores (genpowcone.rs), u = z[..dim1], w = z[dim1..], as the float expressions evaluated:
//   phi = prod_i (u_i/alpha_i)^(2 alpha_i) (left fold from 1),  zeta = phi - |w|^2,  tau_i = 2 alpha_i / u_i  (kept in q as a workspace),
//   grad = ( -tau_i*phi/zeta - (1 - alpha_i)/u_i ;  (2/zeta) * w ),
//   Hs = mu*(D + pp' - qq' - rr'):  d1_i = tau_i*phi/(zeta*u_i) + (1 - alpha_i)/u_i^2,  d2 = 2/zeta,
//   p = ( (p0/zeta) tau ; (p1/zeta) w ),  q = tau * (q0/zeta),  r = (r1/zeta) w,
//   p0 = sqrt(phi (phi + |w|^2)/2),  p1 = -2 phi/p0,  q0 = sqrt(zeta phi/2),  r1 = 2 sqrt(zeta/(phi + |w|^2))
pub open spec fn gp_phi(al: Seq<F>, z: Seq<F>, k: int) -> F decreases k {
    if k <= 0 { f_one() } else { f_mul(gp_phi(al, z, k - 1), f_powf(f_div(z[k - 1], al[k - 1]), f_mul(lit2(), al[k - 1]))) }
}
pub open spec fn gp_n2w(al: Seq<F>, z: Seq<F>) -> F { vm_sumsq(gp_tail(z, al.len() as int)) }
pub open spec fn gp_zeta(al: Seq<F>, z: Seq<F>) -> F { f_sub(gp_phi(al, z, al.len() as int), gp_n2w(al, z)) }
pub open spec fn gp_tau(al: Seq<F>, z: Seq<F>, i: int) -> F { f_div(f_mul(lit2(), al[i]), z[i]) }
pub open spec fn gp_grad_entry(al: Seq<F>, z: Seq<F>, i: int) -> F {
    let phi = gp_phi(al, z, al.len() as int); let zeta = gp_zeta(al, z);
    if i < al.len() { f_sub(f_div(f_mul(f_neg(gp_tau(al, z, i)), phi), zeta), f_div(f_sub(f_one(), al[i]), z[i])) }
    else { f_mul(f_div(lit2(), zeta), z[i]) }
}
pub open spec fn gp_d1_entry(al: Seq<F>, z: Seq<F>, i: int) -> F {
    let phi = gp_phi(al, z, al.len() as int); let zeta = gp_zeta(al, z);
    f_add(f_div(f_mul(gp_tau(al, z, i), phi), f_mul(zeta, z[i])), f_div(f_sub(f_one(), al[i]), f_mul(z[i], z[i])))
}
pub open spec fn gp_p0(al: Seq<F>, z: Seq<F>) -> F { let phi = gp_phi(al, z, al.len() as int); f_sqrt(f_div(f_mul(phi, f_add(phi, gp_n2w(al, z))), lit2())) }
pub open spec fn gp_p1(al: Seq<F>, z: Seq<F>) -> F { f_div(f_mul(f_neg(lit2()), gp_phi(al, z, al.len() as int)), gp_p0(al, z)) }
pub open spec fn gp_q0(al: Seq<F>, z: Seq<F>) -> F { f_sqrt(f_div(f_mul(gp_zeta(al, z), gp_phi(al, z, al.len() as int)), lit2())) }
pub open spec fn gp_r1(al: Seq<F>, z: Seq<F>) -> F { f_mul(lit2(), f_sqrt(f_div(gp_zeta(al, z), f_add(gp_phi(al, z, al.len() as int), gp_n2w(al, z))))) }
pub open spec fn gp_p_entry(al: Seq<F>, z: Seq<F>, i: int) -> F {
    if i < al.len() { f_mul(f_div(gp_p0(al, z), gp_zeta(al, z)), gp_tau(al, z, i)) } else { f_mul(f_div(gp_p1(al, z), gp_zeta(al, z)), z[i]) }
}
pub open spec fn gp_dual_data(d: GenPowerConeData<F>, al: Seq<F>, z: Seq<F>) -> bool {
    let dim1 = al.len() as int;
    &&& forall|i: int| 0 <= i < z.len() ==> #[trigger] d.grad@[i] == gp_grad_entry(al, z, i)
    &&& forall|i: int| 0 <= i < z.len() ==> #[trigger] d.p@[i] == gp_p_entry(al, z, i)
    &&& forall|i: int| 0 <= i < dim1 ==> #[trigger] d.q@[i] == f_mul(gp_tau(al, z, i), f_div(gp_q0(al, z), gp_zeta(al, z)))
    &&& forall|i: int| 0 <= i < z.len() - dim1 ==> #[trigger] d.r@[i] == f_mul(f_div(gp_r1(al, z), gp_zeta(al, z)), z[dim1 + i])
    &&& forall|i: int| 0 <= i < dim1 ==> #[trigger] d.d1@[i] == gp_d1_entry(al, z, i)
    &&& d.d2 == f_div(lit2(), gp_zeta(al, z))
}
impl GenPowerCone<F> {
//@fn file=src/solver/core/cones/genpowcone.rs in="impl<T> GenPowerCone<T>" name=new rules=R1,R2 ret=r
//@contract
    requires alpha@.len() + dim2 <= usize::MAX,
    ensures gp_alpha_ok(alpha@), r.alpha@ == alpha@, r.dim2 == dim2, gp_wf(r),
        all_eq(r.data.grad@, f_zero()), all_eq(r.data.z@, f_zero()), r.data.mu == f_one(), r.data.d2 == f_zero(),
        r.data.psi == f_div(f_one(), vm_sumsq(alpha@)),
//@end
//@fn file=src/solver/core/cones/genpowcone.rs in="impl<T> GenPowerCone<T>" name=dim1 rules=R1,R2 ret=r
//@contract
    ensures r == gp_dim1(*self),
//@end
//@fn file=src/solver/core/cones/genpowcone.rs in="impl<T> GenPowerCone<T>" name=dim2 rules=R1,R2 ret=r
//@contract
    ensures r == self.dim2,
//@end
//@fn file=src/solver/core/cones/genpowcone.rs in="impl<T> GenPowerCone<T>" name=dim rules=R1,R2 ret=r
//@contract
    requires gp_wf(*self),
    ensures r == gp_dim(*self),
//@end
//@fn file=src/solver/core/cones/genpowcone.rs in="Cone<T> for GenPowerCone<T>" name=degree rules=R1,R2 ret=r
//@contract
    // dim1 + 1 must not overflow: alpha is a Vec<T> of 8-byte floats, its length is far below usize::MAX (allocation limit isize::MAX bytes)
    requires self.alpha@.len() < usize::MAX,
    ensures r == gp_dim1(*self) + 1,
//@end
//@fn file=src/solver/core/cones/genpowcone.rs in="Cone<T> for GenPowerCone<T>" name=numel rules=R1,R2 ret=r
//@contract
    requires gp_wf(*self),
    ensures r == gp_dim(*self),
//@end
//@fn file=src/solver/core/cones/genpowcone.rs in="Cone<T> for GenPowerCone<T>" name=is_symmetric rules=R1,R2 ret=r
//@contract
    ensures !r,
//@end
//@fn file=src/solver/core/cones/genpowcone.rs in="Cone<T> for GenPowerCone<T>" name=is_sparse_expandable rules=R1,R2 ret=r
//@contract
    // "we do not curently have a way of representing this cone in non-expanded form"
    ensures r,
//@end
//@fn file=src/solver/core/cones/genpowcone.rs in="Cone<T> for GenPowerCone<T>" name=allows_primal_dual_scaling rules=R1,R2 ret=r
//@contract
    // cones/mod.rs: "report false here if only dual scaling is implemented (e.g. GenPowerCone)"
    ensures !r,
//@end
//@fn file=src/solver/core/cones/genpowcone.rs in="Cone<T> for GenPowerCone<T>" name=Hs_is_diagonal rules=R1,R2 ret=r
//@contract
    // get_Hs returns "the diagonal D = [d1; d2] block"; the low-rank part p, q, r goes into the sparse expansion
    ensures r,
//@end
//@fn file=src/solver/core/cones/genpowcone.rs in="Cone<T> for GenPowerCone<T>" name=margins rules=R1,R2,unreach ret=r
//@contract
    ensures false,     // unreachable!(): see ExponentialCone::margins
//@end
//@fn file=src/solver/core/cones/genpowcone.rs in="Cone<T> for GenPowerCone<T>" name=scaled_unit_shift rules=R1,R2,unreach
//@contract
    ensures false,     // unreachable!(): see ExponentialCone::margins
//@end
//@fn file=src/solver/core/cones/genpowcone.rs in="Cone<T> for GenPowerCone<T>" name=set_identity_scaling rules=R1,R2,unreach
//@contract
    ensures false,     // unreachable!(): see ExponentialCone::set_identity_scaling
//@end

    // ASSUMED callees.  update_dual_grad_H (fold / izip arithmetic) rewrites grad, p, q, r, d1, d2 and nothing else; it contains
    // `assert!(zeta > 0)` - see the header (open item).  The barriers return uninterpreted functions of (alpha, point); barrier_primal
    // uses work_pb as scratch space.
//@fn file=src/solver/core/cones/genpowcone.rs in="NonsymmetricCone<T> for GenPowerCone<T>" name=update_dual_grad_H rules=R1,R2,R24,R15:grad|data.p,zipidx:1=ii;2=mmii;3=miii
//@contract
    requires gp_wf(*old(self)), z@.len() == gp_dim(*old(self)),
        // `assert!(zeta > 0)`: kept as an assertion, i.e. a PRECONDITION (see the header, OPEN ITEM 2)
        f_lt(f_zero(), gp_zeta(old(self).alpha@, z@)),
    ensures gp_wf(*final(self)), final(self).alpha@ == old(self).alpha@, final(self).dim2 == old(self).dim2,
        final(self).data.z@ == old(self).data.z@, final(self).data.mu == old(self).data.mu, final(self).data.psi == old(self).data.psi,
        final(self).data.work@ == old(self).data.work@, final(self).data.work_pb@ == old(self).data.work_pb@,
        gp_dual_data(*final(self).data, old(self).alpha@, z@),
//@pre
        let ghost al = self.alpha@;
        let ghost zS = self.data.z@; let ghost muS = self.data.mu; let ghost psiS = self.data.psi;
        let ghost workS = self.data.work@; let ghost wpbS = self.data.work_pb@;
        let ghost n = z@.len() as int;
//@loop 1
            invariant r14_n1 == dim1, dim1 == al.len(), alpha@ == al, z@.len() == n, dim1 <= n, two == lit2(),
                phi == gp_phi(al, z@, r14_i1 as int),
//@loop 2
            invariant r14_n2 == dim1, r14_lo2_1 == 0, r14_lo2_3 == 0, dim1 == al.len(), alpha@ == al, z@.len() == n, dim1 <= n, two == lit2(),
                tau@.len() == dim1, grad@.len() == n,
                phi == gp_phi(al, z@, dim1 as int), zeta == gp_zeta(al, z@),
                forall|k: int| 0 <= k < r14_i2 ==> #[trigger] tau@[k] == gp_tau(al, z@, k),
                forall|k: int| 0 <= k < r14_i2 ==> #[trigger] grad@[k] == gp_grad_entry(al, z@, k),
//@before_loop 3
        let ghost gradS = data.grad@;
//@loop 3
            invariant r14_n3 == dim1, r14_lo3_3 == 0, dim1 == al.len(), alpha@ == al, z@.len() == n, dim1 <= n,
                tau@.len() == dim1, data.d1@.len() == dim1,
                phi == gp_phi(al, z@, dim1 as int), zeta == gp_zeta(al, z@),
                forall|k: int| 0 <= k < dim1 ==> #[trigger] tau@[k] == gp_tau(al, z@, k),
                forall|k: int| 0 <= k < r14_i3 ==> #[trigger] data.d1@[k] == gp_d1_entry(al, z@, k),
                data.grad@ == gradS, data.z@ == zS, data.mu == muS, data.psi == psiS, data.work@ == workS, data.work_pb@ == wpbS,
                data.p@.len() == n, data.r@.len() == n - dim1,
//@closure 1
F
(q: F) ensures q == f_mul(f_div(two, zeta), z)
//@closure 2
F
(q: F) ensures q == f_mul(f_div(p0, zeta), taui)
//@closure 3
F
(q: F) ensures q == f_mul(f_div(p1, zeta), zi)
//@closure 4
F
(q: F) ensures q == f_mul(f_div(r1, zeta), zi)
//@end
//@fn file=src/solver/core/cones/genpowcone.rs in="NonsymmetricCone<T> for GenPowerCone<T>" name=barrier_primal rules=R1,R2 ret=r
//@contract
    requires gp_wf0(*old(self)), s@.len() == gp_dim(*old(self)),
        old(self).alpha@.len() < usize::MAX,      // degree() = dim1 + 1
    ensures r == gp_barrier_primal(old(self).alpha@, old(self).data.psi, s@), gp_same_but_scratch(*final(self), *old(self)),
        final(self).data.work@ == old(self).data.work@,
//@before "let out ="
        proof { assert(g@ =~= seq_neg(gp_gradient_primal(self.alpha@, self.data.psi, s@))); }
//@end
//@fn file=src/solver/core/cones/genpowcone.rs in="NonsymmetricCone<T> for GenPowerCone<T>" name=barrier_dual rules=R1,R2,zipidx:1=ii;2=ii ret=r
//@contract
    requires z@.len() == gp_dim(*old(self)),
    ensures r == gp_barrier_dual(old(self).alpha@, z@), *final(self) == *old(self),
//@loop 1
            invariant r14_n1 == dim1, r14_lo1_0 == 0, dim1 == gp_dim1(*self), alpha@ == self.alpha@, z@.len() >= dim1, two == lit2(), *self == *old(self),
                res == gp_logsum_dual(self.alpha@, z@, r14_i1 as int),
//@loop 2
            invariant r14_n2 == dim1, r14_lo2_0 == 0, dim1 == gp_dim1(*self), alpha@ == self.alpha@, z@.len() >= dim1, *self == *old(self),
                barrier == gp_barrier_fold(self.alpha@, z@, r14_i2 as int),
//@end

//@fn file=src/solver/core/cones/genpowcone.rs in="Cone<T> for GenPowerCone<T>" name=unit_initialization rules=R1,R2
//@contract
    // call site (CompositeCone::unit_initialization): the slices of this cone, of length numel() = dim1 + dim2
    requires old(z)@.len() == gp_dim(*self), old(s)@.len() == gp_dim(*self),
    ensures final(s)@.len() == old(s)@.len(), final(z)@ == final(s)@,
        // the documented central point: sqrt(1 + alpha_i) on the first dim1 entries, 0 on the others
        forall|i: int| 0 <= i < gp_dim1(*self) ==> #[trigger] final(s)@[i] == f_sqrt(f_add(f_one(), self.alpha@[i])),
        forall|i: int| gp_dim1(*self) <= i < gp_dim(*self) ==> #[trigger] final(s)@[i] == f_zero(),
//@closure 1
F
(q: F) ensures q == f_sqrt(f_add(f_one(), alphai))
//@end
//@fn file=src/solver/core/cones/genpowcone.rs in="Cone<T> for GenPowerCone<T>" name=update_scaling rules=R1,R2 ret=r params=s,z,mu,strategy
//@contract
    requires gp_wf(*old(self)), z@.len() == gp_dim(*old(self)),
        f_lt(f_zero(), gp_zeta(old(self).alpha@, z@)),      // the assert! inside update_dual_grad_H (OPEN ITEM 2)
    ensures r, gp_wf(*final(self)), final(self).alpha@ == old(self).alpha@, final(self).dim2 == old(self).dim2,
        // "self.data.mu = mu", "K.z .= z": the central-path parameter and the scaling point are remembered
        final(self).data.mu == mu, final(self).data.z@ == z@,
        // "update both gradient and Hessian for function f*(z) at the point z"
        gp_dual_data(*final(self).data, old(self).alpha@, z@),
        final(self).data.psi == old(self).data.psi, final(self).data.work@ == old(self).data.work@, final(self).data.work_pb@ == old(self).data.work_pb@,
//@end
//@fn file=src/solver/core/cones/genpowcone.rs in="Cone<T> for GenPowerCone<T>" name=get_Hs rules=R1,R2
//@contract
    // Hs_is_diagonal(): the KKT block is the diagonal, numel() entries
    requires gp_wf(*self), old(Hsblock)@.len() == gp_dim(*self),
    ensures final(Hsblock)@.len() == old(Hsblock)@.len(),
        // "the diagonal D = [d1; d2] block" of Hs = mu*(D + pp' - qq' - rr')
        forall|i: int| 0 <= i < gp_dim1(*self) ==> #[trigger] final(Hsblock)@[i] == f_mul(self.data.mu, self.data.d1@[i]),
        forall|i: int| gp_dim1(*self) <= i < gp_dim(*self) ==> #[trigger] final(Hsblock)@[i] == f_mul(self.data.mu, self.data.d2),
//@closure 1
F
(q: F) ensures q == f_mul(data.mu, d1)
//@end
//@fn file=src/solver/core/cones/genpowcone.rs in="Cone<T> for GenPowerCone<T>" name=affine_ds rules=R1,R2
//@contract
    requires old(ds)@.len() == s@.len(),
    ensures final(ds)@ == s@,
//@end
//@fn file=src/solver/core/cones/genpowcone.rs in="Cone<T> for GenPowerCone<T>" name=Δs_from_Δz_offset rules=R1,R2
//@contract
    requires old(out)@.len() == ds@.len(),
    ensures *final(self) == *old(self), final(_work)@ == old(_work)@, final(out)@ == ds@,
//@end
//@fn file=src/solver/core/cones/genpowcone.rs in="Cone<T> for GenPowerCone<T>" name=combined_ds_shift rules=R1,R2
//@contract
    requires gp_wf(*old(self)), old(shift)@.len() == gp_dim(*old(self)),
    ensures *final(self) == *old(self), final(_step_z)@ == old(_step_z)@, final(_step_s)@ == old(_step_s)@, final(shift)@.len() == old(shift)@.len(),
        // "No 3rd order correction at present": shift = grad * sigma_mu
        forall|i: int| 0 <= i < gp_dim(*old(self)) ==> #[trigger] final(shift)@[i] == f_mul(old(self).data.grad@[i], sigmamu),
//@closure 1
F
(q: F) ensures q == f_mul(g, sigmamu)
//@end
//@fn file=src/solver/core/cones/genpowcone.rs in="Cone<T> for GenPowerCone<T>" name=mul_Hs rules=R1,R2,zipidx:*
//@contract
    requires gp_wf(*old(self)), old(y)@.len() == gp_dim(*old(self)), x@.len() == gp_dim(*old(self)),
    ensures *final(self) == *old(self), final(_work)@ == old(_work)@, final(y)@.len() == old(y)@.len(),
        forall|i: int| 0 <= i < gp_dim(*old(self)) ==> #[trigger] final(y)@[i] == gp_mulHs_entry(*old(self), x@, i),
//@pre
        let ghost n = y@.len();
//@loop 1
            invariant r14_n1 == dim1, r14_lo1_0 == 0, r14_lo1_1 == 0, y@.len() == n, x@.len() == n, dim1 <= n,
                data.d1@.len() == dim1, data.q@.len() == dim1,
                forall|k: int| 0 <= k < r14_i1 ==> #[trigger] y@[k] == f_sub(f_mul(data.d1@[k], x@[k]), f_mul(coef_q, data.q@[k])),
//@loop 2
            invariant r14_n2 == n - dim1, n == r14_hi2_0, r14_lo2_0 == dim1, r14_lo2_1 == dim1, y@.len() == n, x@.len() == n, dim1 <= n,
                data.r@.len() == n - dim1,
                forall|k: int| 0 <= k < dim1 ==> #[trigger] y@[k] == f_sub(f_mul(data.d1@[k], x@[k]), f_mul(coef_q, data.q@[k])),
                forall|k: int| dim1 <= k < dim1 + r14_i2 ==> #[trigger] y@[k] == f_sub(f_mul(data.d2, x@[k]), f_mul(coef_r, data.r@[k - dim1])),
//@end
//@fn file=src/solver/core/cones/genpowcone.rs in="Cone<T> for GenPowerCone<T>" name=compute_barrier rules=R1,R2 ret=r
//@contract
    requires gp_wf(*old(self)), z@.len() == gp_dim(*old(self)), s@.len() == gp_dim(*old(self)), dz@.len() == gp_dim(*old(self)), ds@.len() == gp_dim(*old(self)),
        old(self).alpha@.len() < usize::MAX,      // barrier_primal evaluates degree() = dim1 + 1
    ensures gp_same_but_scratch(*final(self), *old(self)), gp_wf(*final(self)),
        r == f_add(f_add(f_zero(), gp_barrier_primal(old(self).alpha@, old(self).data.psi, shifted(s@, ds@, alpha))), gp_barrier_dual(old(self).alpha@, shifted(z@, dz@, alpha))),
//@after "work.waxpby(F::one(), s, alpha, ds);"
        proof { assert(work@ =~= shifted(s@, ds@, alpha)); }
//@after "work.waxpby(F::one(), z, alpha, dz);"
        proof { assert(work@ =~= shifted(z@, dz@, alpha)); }
//@end
}

// ---- GenPowerCone::gradient_primal (finding F9: the tail of the gradient was scaled from the stored vector data.r instead of the tail of s)
// STATEMENT SLICE: from `let (p, r) = s.split_at(dim1);` to the end of the function, under a hand-written header that takes the three
// locals computed before it as parameters (dim1 = self.dim1(), data = &self.data, phi).  DROPPED from the function: the zip / fold that
// computes the unscaled phi (closure with a `-> T`-less tuple pattern inside fold; phi only feeds the Newton iteration).
// `_newton_raphson_genpowcone` is an ASSUMED stand-in: its value is the uninterpreted gp_g1_spec of exactly its arguments.
pub uninterp spec fn gp_g1_spec(norm_r: F, p: Seq<F>, phi: F, al: Seq<F>, psi: F) -> F;
#[verifier::external_body]
fn _newton_raphson_genpowcone(norm_r: F, p: &[F], phi: F, alpha: &[F], psi: F) -> (r: F)
    ensures r == gp_g1_spec(norm_r, p@, phi, alpha@, psi),
{ unimplemented!() }
// the documented primal gradient (conjugate gradient of the generalised power cone) at s = (p, r), p = s[..dim1], r = s[dim1..]:
//   |r| > eps:  g_r = (g1 / |r|) * r,  g_p[i] = -(1 + alpha_i + alpha_i * g1 * |r|) / p_i,  g1 from the Newton iteration;
//   otherwise:  g_r = 0,               g_p[i] = -(1 + alpha_i) / p_i
pub open spec fn gp_gradient_primal_entry(al: Seq<F>, psi: F, s: Seq<F>, phi: F, i: int) -> F {
    let dim1 = al.len() as int;
    let nr = vm_norm(s.subrange(dim1, s.len() as int));
    let g1 = gp_g1_spec(nr, s.subrange(0, dim1), phi, al, psi);
    if f_lt(f_eps(), nr) {
        if i < dim1 { f_div(f_neg(f_add(f_add(f_one(), al[i]), f_mul(f_mul(al[i], g1), nr))), s[i]) }
        else { f_mul(f_div(g1, nr), s[i]) }      // the TAIL OF s, no field of the cone
    } else {
        if i < dim1 { f_div(f_neg(f_add(f_one(), al[i])), s[i]) } else { f_zero() }
    }
}
// the whole function: phi = the unscaled prod_i s_i^(2 alpha_i), as the left fold from 1 the code performs
pub open spec fn gp_phi_fold(al: Seq<F>, s: Seq<F>, k: int) -> F decreases k {
    if k <= 0 { f_one() } else { f_mul(gp_phi_fold(al, s, k - 1), f_powf(s[k - 1], f_mul(lit2(), al[k - 1]))) }
}
pub open spec fn gp_phi_spec(al: Seq<F>, s: Seq<F>) -> F { gp_phi_fold(al, s, al.len() as int) }
pub open spec fn gp_gradient_primal(al: Seq<F>, psi: F, s: Seq<F>) -> Seq<F> {
    Seq::new(s.len(), |i: int| gp_gradient_primal_entry(al, psi, s, gp_phi_spec(al, s), i))
}
pub open spec fn seq_neg(a: Seq<F>) -> Seq<F> { Seq::new(a.len(), |i: int| f_neg(a[i])) }
// Primal barrier (genpowcone.rs): f(s) = <s, g(s)> - f*(-g(s)) with <s, g(s)> = -(dim1 + 1) = -nu
pub open spec fn gp_barrier_primal(al: Seq<F>, psi: F, s: Seq<F>) -> F {
    f_sub(f_neg(gp_barrier_dual(al, seq_neg(gp_gradient_primal(al, psi, s)))), f_from_usize((al.len() + 1) as usize))
}
impl GenPowerCone<F> {
//@fn file=src/solver/core/cones/genpowcone.rs in="NonsymmetricNDCone<T> for GenPowerCone<T>" name=gradient_primal rules=R1,R2,R24,zipidx:1=ii;2=mii;3=mii
//@contract
    requires old(g)@.len() == gp_dim(*self), s@.len() == gp_dim(*self),
    ensures final(g)@ =~= gp_gradient_primal(self.alpha@, self.data.psi, s@),
//@closure 1
F
(q: F) ensures q == f_mul(f_div(g1, norm_r), r)
//@loop 1
            invariant r14_n1 == dim1, r14_lo1_0 == 0, dim1 == self.alpha@.len(), s@.len() >= dim1, two == lit2(),
                phi == gp_phi_fold(self.alpha@, s@, r14_i1 as int),
//@loop 2
            invariant r14_n2 == dim1, gp@.len() == dim1, p@.len() == dim1, self.alpha@.len() == dim1,
                forall|k: int| 0 <= k < r14_i2 ==> #[trigger] gp@[k] == f_div(f_neg(f_add(f_add(f_one(), self.alpha@[k]), f_mul(f_mul(self.alpha@[k], g1), norm_r))), p@[k]),
//@loop 3
            invariant r14_n3 == dim1, gp@.len() == dim1, p@.len() == dim1, self.alpha@.len() == dim1,
                forall|k: int| 0 <= k < r14_i3 ==> #[trigger] gp@[k] == f_div(f_neg(f_add(f_one(), self.alpha@[k])), p@[k]),
//@end
}

// ---- GenPowerCone::step_length (C15), with the contract shape of unit `steplen` (PowerCone / ExponentialCone::step_length)
//@struct file=src/solver/implementations/default/settings.rs name=DefaultSettings rules=R1f
//@type file=src/solver/core/settings.rs name=CoreSettings
pub open spec fn trial_at(w: Seq<F>, q: Seq<F>, dq: Seq<F>, a: F) -> bool {
    w.len() == q.len() && forall|i: int| 0 <= i < q.len() ==> #[trigger] w[i] == f_add(f_mul(f_one(), q[i]), f_mul(a, dq[i]))
}
pub open spec fn trial_rejected<FN: Fn(&[F]) -> bool>(f: FN, q: Seq<F>, dq: Seq<F>, a: F) -> bool {
    exists|w: &[F]| trial_at(w@, q, dq, a) && f.ensures((w,), false)
}
// backtrack_search (nonsymmetric_common.rs), real body: second copy of the proof in unit `steplen`, with ONE difference - the membership
// closure only has to accept vectors of the length of q (it is only ever called on `work`); the gen-power tests slice `s[..dim1]`
//@fn file=src/solver/core/cones/nonsymmetric_common.rs name=backtrack_search rules=R1,R2 ret=r attrs="#[verifier::exec_allows_no_decreases_clause]"
//@contract
    requires
        old(work)@.len() == q@.len(), q@.len() == dq@.len(),
        forall|w: &[F]| #![trigger is_in_cone_fcn.requires((w,))] w@.len() == q@.len() ==> is_in_cone_fcn.requires((w,)),
    ensures
        final(work)@.len() == old(work)@.len(),
        (r == f_zero() && exists|prev: F| #[trigger] trial_rejected(is_in_cone_fcn, q@, dq@, prev) && f_lt(f_mul(prev, step), alpha_min)) || ({
            &&& is_in_cone_fcn.ensures((&*final(work),), true)
            &&& forall|i: int| 0 <= i < q@.len() ==> #[trigger] final(work)@[i] == f_add(f_mul(f_one(), q@[i]), f_mul(r, dq@[i]))
            &&& (r == alpha_init || exists|prev: F| r == f_mul(prev, step) && #[trigger] trial_rejected(is_in_cone_fcn, q@, dq@, prev))
        }),
//@loop 1
        invariant_except_break
            alpha == alpha_init || exists|prev: F| alpha == f_mul(prev, step) && #[trigger] trial_rejected(is_in_cone_fcn, q@, dq@, prev),
        invariant
            work@.len() == q@.len(), q@.len() == dq@.len(),
            forall|w: &[F]| #![trigger is_in_cone_fcn.requires((w,))] w@.len() == q@.len() ==> is_in_cone_fcn.requires((w,)),
        ensures
            work@.len() == q@.len(),
            (alpha == f_zero() && exists|prev: F| #[trigger] trial_rejected(is_in_cone_fcn, q@, dq@, prev) && f_lt(f_mul(prev, step), alpha_min)) || ({
                &&& is_in_cone_fcn.ensures((&*work,), true)
                &&& forall|i: int| 0 <= i < q@.len() ==> #[trigger] work@[i] == f_add(f_mul(f_one(), q@[i]), f_mul(alpha, dq@[i]))
                &&& (alpha == alpha_init || exists|prev: F| alpha == f_mul(prev, step) && #[trigger] trial_rejected(is_in_cone_fcn, q@, dq@, prev))
            }),
//@before "alpha *= step;"
        let ghost a_prev = alpha;
        proof {
            let w: &[F] = &*work;
            assert(trial_rejected(is_in_cone_fcn, q@, dq@, a_prev)) by {
                assert(trial_at(w@, q@, dq@, a_prev));
            }
        }
//@end
// Generalised power cone (the n-dimensional form of the definitions quoted in powcone.rs; supportedcone.rs: "powers alpha of the left-hand
// side", "2-norm bounded vector in the right-hand side"), u = x[..dim1], w = x[dim1..]:
//   primal  K  = { (u, w) : prod_i u_i^alpha_i >= |w|_2, u >= 0 },      dual  K* = { (u, w) : prod_i (u_i/alpha_i)^alpha_i >= |w|_2, u >= 0 }.
// The tests are strict, squared and taken through exp / log:  every u_i > 0  and  exp(sum_i 2 alpha_i log(u_i)) - |w|^2 > 0
// (dual: log(u_i/alpha_i)).  The sum is the left fold the code performs; |w|^2 is VectorMath::sumsq of the tail.
pub open spec fn gp_all_pos(x: Seq<F>, n: int) -> bool { forall|k: int| 0 <= k < n ==> f_lt(f_zero(), #[trigger] x[k]) }
pub open spec fn gp_logsum_primal(al: Seq<F>, x: Seq<F>, k: int) -> F decreases k {
    if k <= 0 { f_zero() } else { f_add(gp_logsum_primal(al, x, k - 1), f_mul(f_mul(lit2(), al[k - 1]), logsafe_spec(x[k - 1]))) }
}
pub open spec fn gp_logsum_dual(al: Seq<F>, x: Seq<F>, k: int) -> F decreases k {
    if k <= 0 { f_zero() } else { f_add(gp_logsum_dual(al, x, k - 1), f_mul(f_mul(lit2(), al[k - 1]), logsafe_spec(f_div(x[k - 1], al[k - 1])))) }
}
pub open spec fn gp_tail(x: Seq<F>, dim1: int) -> Seq<F> { x.subrange(dim1, x.len() as int) }
pub open spec fn gp_in_primal(al: Seq<F>, s: Seq<F>) -> bool {
    gp_all_pos(s, al.len() as int) && f_lt(f_zero(), f_sub(f_exp(gp_logsum_primal(al, s, al.len() as int)), vm_sumsq(gp_tail(s, al.len() as int))))
}
// res = exp(sum) - |w|^2 of the dual form (shared by the dual test and the dual barrier)
pub open spec fn gp_dual_res(al: Seq<F>, z: Seq<F>) -> F { f_sub(f_exp(gp_logsum_dual(al, z, al.len() as int)), vm_sumsq(gp_tail(z, al.len() as int))) }
pub open spec fn gp_in_dual(al: Seq<F>, z: Seq<F>) -> bool { gp_all_pos(z, al.len() as int) && f_lt(f_zero(), gp_dual_res(al, z)) }
// Dual barrier: f*(z) = -log(prod (z_i/alpha_i)^(2 alpha_i) - |w|^2) - sum_i (1 - alpha_i) log z_i, the second sum subtracted term by term
pub open spec fn gp_barrier_fold(al: Seq<F>, z: Seq<F>, k: int) -> F decreases k {
    if k <= 0 { f_neg(logsafe_spec(gp_dual_res(al, z))) } else { f_sub(gp_barrier_fold(al, z, k - 1), f_mul(logsafe_spec(z[k - 1]), f_sub(f_one(), al[k - 1]))) }
}
pub open spec fn gp_barrier_dual(al: Seq<F>, z: Seq<F>) -> F { gp_barrier_fold(al, z, al.len() as int) }
impl GenPowerCone<F> {
    // (functions of what the tests read: the powers alpha - whose length is dim1 - and the point)
    pub open spec fn in_primal(&self, s: Seq<F>) -> bool { gp_in_primal(self.alpha@, s) }
    pub open spec fn in_dual(&self, z: Seq<F>) -> bool { gp_in_dual(self.alpha@, z) }
//@fn file=src/solver/core/cones/genpowcone.rs in="NonsymmetricCone<T> for GenPowerCone<T>" name=is_primal_feasible rules=R1,R2,R21,R24,R5,zipidx:2=ii ret=b
//@contract
    requires s@.len() >= gp_dim1(*self),      // `s[..dim1]`; call sites pass vectors of length numel()
    ensures b == self.in_primal(s@),
//@iter 1
it
//@loop 1
            invariant it.seq().len() == dim1, dim1 == gp_dim1(*self), s@.len() >= dim1,
                forall|i: int| 0 <= i < dim1 ==> *(#[trigger] it.seq()[i]) == s@[i],
                r21_k1 == gp_all_pos(s@, it.index@ as int),
//@loop 2
            invariant r14_n1 == dim1, r14_lo1_1 == 0, dim1 == gp_dim1(*self), alpha@ == self.alpha@, s@.len() >= dim1, two == lit2(),
                res == gp_logsum_primal(self.alpha@, s@, r14_i1 as int),
//@end
//@fn file=src/solver/core/cones/genpowcone.rs in="NonsymmetricCone<T> for GenPowerCone<T>" name=is_dual_feasible rules=R1,R2,R21,R24,R5,zipidx:2=ii ret=b
//@contract
    requires z@.len() >= gp_dim1(*self),
    ensures b == self.in_dual(z@),
//@iter 1
it
//@loop 1
            invariant it.seq().len() == dim1, dim1 == gp_dim1(*self), z@.len() >= dim1,
                forall|i: int| 0 <= i < dim1 ==> *(#[trigger] it.seq()[i]) == z@[i],
                r21_k1 == gp_all_pos(z@, it.index@ as int),
//@loop 2
            invariant r14_n1 == dim1, r14_lo1_1 == 0, dim1 == gp_dim1(*self), alpha@ == self.alpha@, z@.len() >= dim1, two == lit2(),
                res == gp_logsum_dual(self.alpha@, z@, r14_i1 as int),
//@end
//@fn file=src/solver/core/cones/genpowcone.rs in="Cone<T> for GenPowerCone<T>" name=step_length rules=R1,R2 ret=r
//@contract
    requires gp_wf(*old(self)), dz@.len() == gp_dim(*old(self)), ds@.len() == gp_dim(*old(self)), z@.len() == gp_dim(*old(self)), s@.len() == gp_dim(*old(self)),
    ensures
        gp_same_but_scratch(*final(self), *old(self)), gp_wf(*final(self)),
        // "never leads outside the cone when taken": a nonzero dual step was accepted by the DUAL-cone test on z + a*dz, a nonzero
        // slack step by the PRIMAL-cone test on s + a*ds
        r.0 == f_zero() || exists|w: Seq<F>| old(self).in_dual(w) && trial_at(w, z@, dz@, r.0),
        r.1 == f_zero() || exists|w: Seq<F>| old(self).in_primal(w) && trial_at(w, s@, ds@, r.1),
        // "not needlessly short": alphamax itself, or one backtracking factor below a rejected trial (or the search gave up)
        r.0 == alphamax || exists|prev: F, w: Seq<F>| #[trigger] trial_at(w, z@, dz@, prev) && !old(self).in_dual(w)
            && (r.0 == f_mul(prev, settings.linesearch_backtrack_step) || (r.0 == f_zero() && f_lt(f_mul(prev, settings.linesearch_backtrack_step), settings.min_terminate_step_length))),
        r.1 == alphamax || exists|prev: F, w: Seq<F>| #[trigger] trial_at(w, s@, ds@, prev) && !old(self).in_primal(w)
            && (r.1 == f_mul(prev, settings.linesearch_backtrack_step) || (r.1 == f_zero() && f_lt(f_mul(prev, settings.linesearch_backtrack_step), settings.min_terminate_step_length))),
//@closure 1
=
(b: bool) requires s@.len() >= self.alpha@.len() ensures b == self.in_primal(s@)
//@closure 2
=
(b: bool) requires s@.len() >= self.alpha@.len() ensures b == self.in_dual(s@)
//@after "let alphaz = backtrack_search("
        let ghost wz = work@;
//@after "let alphas = backtrack_search("
        let ghost ws = work@;
        proof {
            assert(self.alpha@ == old(self).alpha@);
            if alphaz != f_zero() { assert(old(self).in_dual(wz) && trial_at(wz, z@, dz@, alphaz)); }
            if alphas != f_zero() { assert(old(self).in_primal(ws) && trial_at(ws, s@, ds@, alphas)); }
            if alphaz != alphamax {
                let prev = choose|prev: F| #[trigger] trial_rejected(is_dual_feasible_fcn, z@, dz@, prev) && (alphaz == f_mul(prev, step) || (alphaz == f_zero() && f_lt(f_mul(prev, step), alphamin)));
                let w = choose|w: &[F]| trial_at(w@, z@, dz@, prev) && is_dual_feasible_fcn.ensures((w,), false);
                assert(trial_at(w@, z@, dz@, prev) && !self.in_dual(w@));
            }
            if alphas != alphamax {
                let prev = choose|prev: F| #[trigger] trial_rejected(is_prim_feasible_fcn, s@, ds@, prev) && (alphas == f_mul(prev, step) || (alphas == f_zero() && f_lt(f_mul(prev, step), alphamin)));
                let w = choose|w: &[F]| trial_at(w@, s@, ds@, prev) && is_prim_feasible_fcn.ensures((w,), false);
                assert(trial_at(w@, s@, ds@, prev) && !self.in_primal(w@));
            }
        }
//@end
}

// ------------------------------------------------------------------ F-real readings (exact reals) of the contracts above
pub open spec fn imin(a: int, b: int) -> int { if a <= b { a } else { b } }
pub open spec fn imax(a: int, b: int) -> int { if a >= b { a } else { b } }
// C11: the dense block get_Hs writes into the KKT matrix (packed upper triangle `blk`, entry (r, c) at tri(c) + r) is the operator
// mul_Hs applies: y_i = sum_j M(i, j) x_j with M the symmetric matrix whose upper triangle is the block
pub proof fn lemma_Hs_block_is_operator(d: Seq<F>, blk: Seq<F>, x: Seq<F>, y: Seq<F>, i: int)
    requires d.len() == 6, blk.len() == 6, x.len() == 3, y.len() == 3, 0 <= i < 3,
        forall|r: int, c: int| 0 <= r <= c < 3 ==> #[trigger] blk[tri(c) + r] == m3(d, r, c),      // get_Hs
        forall|k: int| 0 <= k < 3 ==> #[trigger] y[k] == m3_rowdot(d, k, x),                        // mul_Hs
    ensures y[i].v() == blk[tri(imax(i, 0)) + imin(i, 0)].v() * x[0].v() + blk[tri(imax(i, 1)) + imin(i, 1)].v() * x[1].v()
                      + blk[tri(imax(i, 2)) + imin(i, 2)].v() * x[2].v(),
{
    broadcast use real_arith;
    lemma_sym3_table();
    assert(y[i] == m3_rowdot(d, i, x));
    assert forall|j: int| 0 <= j < 3 implies blk[tri(imax(i, j)) + imin(i, j)] == #[trigger] m3(d, i, j) by {
        assert(blk[tri(imax(i, j)) + imin(i, j)] == m3(d, imin(i, j), imax(i, j)));
        assert(sym3_idx(imin(i, j), imax(i, j)) == sym3_idx(i, j));
    }
}
// C07: the second entry of the power-cone central point, sqrt(1 + (1 - alpha)), is the documented sqrt(2 - alpha)
pub proof fn lemma_pow_central_real(al: F)
    ensures f_add(f_one(), al).v() == 1real + al.v(), f_add(f_one(), one_minus(al)).v() == 2real - al.v(),
{ broadcast use real_arith; }
// C04 (OPEN ITEM 1, exact-arithmetic half): a point the primal-cone test of the exponential cone accepts never reaches the panic of
// _wright_omega: 1 - s0/s1 - log(s1/s2) > 1.  ASSUMED (local block `ln_ax`, ADMITTED, used ONLY by this lemma): log is a function of the real
// value and log(1/x) = -log(x) for x > 0.  canary_ln must FAIL.
pub uninterp spec fn rln(x: real) -> real;
pub mod ln_ax {
    use super::*;
    pub broadcast proof fn ax_ln_real(a: F) ensures (#[trigger] f_ln(a)).v() == rln(a.v()) { admit(); }
    pub broadcast proof fn ax_rln_recip(x: real) requires x > 0real ensures #[trigger] rln(1real / x) == -rln(x) { admit(); }
    pub broadcast group real_ln { ax_ln_real, ax_rln_recip }
}
pub use ln_ax::*;
pub proof fn canary_ln() ensures false { broadcast use real_arith, real_ln; }
pub proof fn lemma_exp_primal_accept_no_panic(s: Seq<F>)
    requires s.len() == 3, exp_in_primal(s),
    ensures exp_omega_arg(s).v() > 1real, !f_lt(exp_omega_arg(s), f_zero()),
{
    broadcast use real_arith, real_ln;
    let s0 = s[0].v(); let s1 = s[1].v(); let s2 = s[2].v();
    assert(s1 > 0real && s2 > 0real);
    let q = s2 / s1;
    assert(q > 0real) by(nonlinear_arith) requires s1 > 0real, s2 > 0real, q == s2 / s1;
    assert(s1 / s2 == 1real / q) by(nonlinear_arith) requires s1 > 0real, s2 > 0real, q == s2 / s1;
    assert(s1 / s2 > 0real) by(nonlinear_arith) requires s1 > 0real, s2 > 0real;
    assert(f_div(s[2], s[1]).v() == q);
    assert(f_div(s[1], s[2]).v() == 1real / q);
    assert(!f_le(f_div(s[2], s[1]), f_zero()));
    assert(!f_le(f_div(s[1], s[2]), f_zero()));
    let l = rln(q);
    assert(logsafe_spec(f_div(s[2], s[1])).v() == l);
    assert(logsafe_spec(f_div(s[1], s[2])).v() == -l);
    assert(s1 * l - s0 > 0real);
    assert(f_div(s[0], s[1]).v() == s0 / s1);
    assert(l > s0 / s1) by(nonlinear_arith) requires s1 * l - s0 > 0real, s1 > 0real;
    assert(exp_omega_arg(s).v() == 1real - s0 / s1 - (-l));
}

} // verus!
fn main() {}
