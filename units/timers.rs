// unit `timers` : the per-timer bookkeeping of src/timers/timers.rs (C04: "once time_limit is exceeded stops with MaxTime at the next
// iteration boundary" rests on the solve time being ACCUMULATED over the suspend / resume cycles of the solve loop)
//
// PROVED (real text of `impl InnerTimer`): reset, start, stop, suspend, resume, elapsed -- against an abstract reading of the clock:
//   * suspend on a running timer ADDS the time since its start mark to the accumulated total and keeps the timer marked as running;
//     on a stopped timer it changes nothing;  stop adds and clears the mark;  resume re-marks a running timer and leaves the total alone;
//     reset clears everything;  the accumulated total never decreases except in reset  (clock readings are >= 0).
//   This is the contract unit `solve` ASSUMES of the whole Timers object (`suspend` folds the running time into total_time()).
// ASSUMED (hand-written stand-ins):
//   * Instant / Duration (std::time): `Duration` = a natural number of nanoseconds with +=; `Instant::now()` returns a fresh mark,
//     `mark.elapsed()` returns `since(mark)`, an uninterpreted, nonnegative reading -- deterministic per mark, which is sound here
//     because each function reads a given mark at most once before it is replaced or kept for a later call;
//   * SubTimersMap (HashMap<&'static str, InnerTimer>): `clear`, `suspend`, `resume` only have the trivial contract (they return);
//     the recursion into sub-timers and the key lookup of `Timers` (stack of names, HashMap entry API) are NOT under contract.
// DROPPED: Timers::{mut_active_timer, start_as_current, stop_current, total_time (fold over HashMap values), print}.
use vstd::prelude::*;
verus! {

// ---- stand-ins for std::time ----
#[derive(Clone, Copy)]
pub struct Duration { pub _n: u64 }
// the length of a Duration in nanoseconds: an abstract reading (ASSUMED model of std::time::Duration)
pub uninterp spec fn dv(d: Duration) -> nat;
impl Duration {
    pub open spec fn v(&self) -> nat { dv(*self) }
    pub const ZERO: Duration = Duration { _n: 0 };
}
pub uninterp spec fn dur_of(n: nat) -> Duration;
pub broadcast proof fn ax_dur_of(n: nat) ensures #[trigger] dv(dur_of(n)) == n { admit(); }
pub broadcast proof fn ax_dur_zero() ensures #[trigger] dv(Duration::ZERO) == 0 { admit(); }
impl vstd::std_specs::ops::AddAssignSpecImpl<Duration> for Duration {
    open spec fn obeys_add_assign_spec() -> bool { true }
    open spec fn add_assign_req(&self, rhs: Duration) -> bool { true }
    open spec fn add_assign_spec(&self, rhs: Duration) -> &Duration { &dur_of(self.v() + rhs.v()) }
}
impl core::ops::AddAssign for Duration { #[verifier::external_body] fn add_assign(&mut self, rhs: Duration) { unimplemented!() } }

#[derive(Clone, Copy)]
pub struct Instant { pub _p: u64 }
pub uninterp spec fn since(i: Instant) -> nat;
impl Instant {
    #[verifier::external_body] pub fn now() -> (r: Instant) { unimplemented!() }
    #[verifier::external_body] pub fn elapsed(&self) -> (r: Duration) ensures r.v() == since(*self) { unimplemented!() }
}
// stand-in for the map of sub-timers (HashMap: not under contract)
pub struct SubTimersMap { pub _p: u8 }
impl SubTimersMap {
    #[verifier::external_body] pub fn clear(&mut self) { unimplemented!() }
    #[verifier::external_body] pub fn suspend(&mut self) { unimplemented!() }
    #[verifier::external_body] pub fn resume(&mut self) { unimplemented!() }
}

//@struct file=src/timers/timers.rs name=InnerTimer rules=R12

impl InnerTimer {
    pub open spec fn total(&self) -> nat { self.elapsed.v() }
    pub open spec fn running(&self) -> bool { self.start is Some }

//@fn file=src/timers/timers.rs in="impl InnerTimer" name=reset
//@contract
    ensures !final(self).running(), final(self).total() == 0,
//@pre
    broadcast use ax_dur_of, ax_dur_zero;
//@end
//@fn file=src/timers/timers.rs in="impl InnerTimer" name=start
//@contract
    ensures final(self).running(), final(self).total() == old(self).total(),
//@end
//@fn file=src/timers/timers.rs in="impl InnerTimer" name=stop
//@contract
    requires old(self).running(),
    ensures !final(self).running(),
        // the running interval is ADDED to what was accumulated before
        final(self).total() == old(self).total() + since(old(self).start->Some_0),
        final(self).total() >= old(self).total(),
//@pre
    broadcast use ax_dur_of;
//@end
//@fn file=src/timers/timers.rs in="impl InnerTimer" name=suspend
//@contract
    ensures
        // C04: a running timer folds the time since its mark into the total (accumulating), and stays marked as running
        old(self).running() ==> final(self).total() == old(self).total() + since(old(self).start->Some_0) && final(self).start == old(self).start,
        !old(self).running() ==> final(self).total() == old(self).total() && !final(self).running(),
        final(self).total() >= old(self).total(),
//@pre
    broadcast use ax_dur_of;
//@end
//@fn file=src/timers/timers.rs in="impl InnerTimer" name=resume
//@contract
    ensures final(self).running() == old(self).running(), final(self).total() == old(self).total(),
//@end
//@fn file=src/timers/timers.rs in="impl InnerTimer" name=elapsed ret=r
//@contract
    ensures r.v() == self.total(),
//@end
}

} // verus!
fn main() {}
