#![allow(non_snake_case)]
// unit `chordal_reverse` : the COMPACT form of the chordal decomposition, reversal side as a whole + the thin augmentation wrapper (C18)
// (feature `sdp`: `//@features serde,sdp`).  Float model: F-opaque (copies and one f_add per accumulated entry; the ORDER of the additions is part of the contract).
//
// The reversal is described per ORIGINAL ROW r, as a left fold over the entries of cone_maps (= the cones of the decomposed problem, in order):
//   rptr(ci, cm, oc, k)      first row of the block of entry k in the decomposed vectors = sum over j < k of (nvars(old_cones[j]) | tri(|clique|))
//   ent_s / ent_z            effect of ONE entry on row r: a kept cone OVERWRITES its rows row_off(orig) .. with old[rptr + (r - start)]; a clique block
//                            (a, b) -> start + packed(c[a], c[b]) ADDS old_s[rptr + tri(b) + a] to s (f_add, accumulate) and OVERWRITES z, where c =
//                            clique_sorted = the clique of ORDER clique_index mapped through `ordering` and sorted; a row that is no image is untouched
//   rev_row_s / rev_row_z    the fold of ent_s / ent_z over the first k entries, starting from the incoming vector (zeros at the call site)
//   For a sorted duplicate-free clique the pair (a, b) of a row is unique (lemma_subblock_injective), so "the image" is well defined (src_of).
// PROVED (real text, unbounded; panic-freedom = every index / overflow / unwrap / assert! obligation, plus the clause given):
//   decomp/reverse_compact.rs
//     add_blocks_with_cone              (again, against nvars_spec of the REAL cone enum) block copied back, nothing else touched, returns row_ptr + nvars
//     add_blocks_with_sparsity_pattern  the WHOLE function (unit chordal_decomp proved the double loop as a statement slice and dropped the loading):
//         clique_buffer = clique_sorted(pattern, clique_index) (get_clique, mapped through ordering, sort), strictly increasing, vertices < |ordering|;
//         blk_state: entry (a, b) of the block goes to start + packed(c[a], c[b]); s accumulated, z overwritten, every target written exactly once,
//         nothing else touched; returns row_ptr + tri(|clique|)
//     decomp_reverse_compact            for EVERY row r of the original problem: s[r] == rev_row_s(.., r, K), z[r] == rev_row_z(.., r, K); lengths of s, z kept,
//         x untouched; the running pointer is rptr (== row_off of old_cones: lemma_rptr); `assert!(matches!(cone, PSDTriangleConeT(_)))` never fires;
//         the zip runs over all K entries (equal lengths)
//   decomp/augment_compact.rs
//     decomp_augment_compact            P_new = blockdiag(P, 0_nadd) (padded_P: P's arrays + nadd empty columns), q_new = q ++ 0_nadd, nadd = A_new.n - A.n == number
//         of overlaps (no underflow); A_new, b_new, cones_new and the change of self are those of find_compact_A_b_and_cones, handed through untouched
// ASSUMED (hand-written stand-ins):
//   find_compact_A_b_and_cones   PROVED in unit chordal_compact2.  Here: its size clause `res.0.n == A.n + cm_ovl` verbatim; its precondition and all other
//       postconditions are carried as the uninterpreted predicates fc_pre / fc_post (the wrapper only forwards them - nothing of them is used)
//   CscMatrix::blockdiag (text + vocabulary of unit csc_utils, PROVED there), CscMatrix::zeros (text of unit chordal_augment, PROVED there), lemma_bd_pair
//       is proved here again
//   SuperNodeTree::get_clique (text of unit chordal_snode, PROVED there), ChordalInfo::largest_nblk (text of unit chordal_compact, PROVED there),
//   rng_cones_iter / collect (unit solver_new: k-th range = row_off(k) .. row_off(k + 1); `collect` = the remaining items in order: ASSUMED std),
//   coord_to_upper_triangular_index, triangular_number (unit scalarmath), VectorMath::copy_from (unit vecmath), VertexSet (units/inc/chordal_sets.rs)
//   std: Vec<usize>::sort as usize_sort (= sorted_of(input): same members, nondecreasing, strictly ascending for distinct members), Range::clone,
//       derived Clone of SupportedConeT, vstd's specs for resize / vec! / slice ranges
//   EXTRACTOR (additive): rule `vecsortr:NAMES` (`NAME.sort();` on a `&mut Vec<usize>` PARAMETER -> `usize_sort(NAME)`; twin of vecsort)
// PRECONDITIONS and the call sites:
//   rev_wf: ci_wf (text of unit chordal_augment; NOT proved: see unit chordal_sntree for what SuperNodeTree::new / reorder_snode_consecutively give) +
//     `ordering` injective per pattern + cone_maps / old_cones as find_compact_A_b_and_cones leaves them (unit chordal_compact2: maps_spec / cones_spec_c):
//     entry k names an original cone; kept: same nvars as that cone; decomposed: (pattern t with the same orig_index, clique order < n_cliques) and
//     old_cones[k] == PSDTriangleConeT(nblk[clique order]).  That maps_spec / cones_spec_c satisfy these clauses is by inspection (not mechanised).
//   new_vars.s / z have row_off(init_cones) entries: DefaultVariables::new(init_dims) in decomp_reverse; init_dims.1 == A.nrows() of the data handed to
//     ChordalInfo::new, == rows of init_cones by _check_dimensions (both un-presolved: consistent even under O7).
//   old_vars.s / z have row_off(old_cones) entries: the solver's variables for data.cones.  VIOLABLE through O7 upstream (cones_new is built from init_cones,
//     A_new from the presolved A): then the solver itself is inconsistent earlier.
//   equal lengths of old_cones and cone_maps: both produced by find_compact_A_b_and_cones.  If they differed, zip would stop silently at the shorter.
//   decomp_augment_compact: bd_blk_ok(P) (P is to_triu(P) or the user's, never validated), sizes of one problem.
// NOT PROVED: that every row of a decomposed cone that carries data is the image of at least one clique entry (C17 for the same data: the cliques
//   cover the aggregate pattern) - rows that are no image keep the incoming value (zero); the numerical meaning (sum of PSD blocks).
// DROPPED: nothing of reverse_compact.rs (largest_nblk is in unit chordal_compact).
// MUTATION ROUND (scratch copy, one edit at a time, each fails the named function): `=` for `+=` on new_s (s overwritten instead of accumulated), `+=` for `=` on
//   new_z, `i < j` for `i <= j`, `clique_buffer.sort()` dropped, `row_ptr + clique.len()` (add_blocks_with_sparsity_pattern); z copied from old_s
//   (add_blocks_with_cone); row_ptr not advanced for kept cones, old_s / old_z swapped at the call, tree_index passed for clique_index, pattern looked up
//   by clique_index, row range of cone orig_index + 1 (decomp_reverse_compact); q copied to the tail, zeros((nadd, nadd + 1)), nadd from the row counts
//   (decomp_augment_compact): 14 of 14 caught.  `complete_dual` test inverted (decomp/mod.rs) fails decomp_reverse of unit chordal_compact (checked).
//   First run: "sort dropped" ended as lost anchor (the hint sat on the deleted statement) -> anchor moved behind the loading loop.
// rlimit: every function below 1.3 M (add_blocks_with_cone 4.2 M under seed 3); seeds 0-3 stable
use vstd::prelude::*;
use std::ops::Range;
use crate::SupportedConeT::{PSDTriangleConeT, ZeroConeT};
verus! {
global size_of usize == 8;
//@features serde,sdp
//@include prelude/float_opaque.rs
//@include prelude/vecmath_assumed.rs
//@include prelude/std_assumed.rs
//@include units/inc/chordal_sets.rs
//@struct file=src/algebra/csc/core.rs name=CscMatrix
//@enum file=src/algebra/error_types.rs name=MatrixConcatenationError rules=R12 derive="Debug, PartialEq, Eq, Clone, Copy, Structural"
//@enum file=src/solver/core/cones/supportedcone.rs name=SupportedConeT rules=R12
//@struct file=src/solver/chordal/supernode_tree.rs name=SuperNodeTree
//@struct file=src/solver/chordal/sparsity_pattern.rs name=SparsityPattern
//@struct file=src/solver/chordal/chordal_info.rs name=ConeMapEntry
//@struct file=src/solver/chordal/chordal_info.rs name=ChordalInfo
//@struct file=src/solver/implementations/default/variables.rs name=DefaultVariables rules=R2
pub type Cone = SupportedConeT<F>;
// ASSUMED: the derived Clone of the cone enum returns an equal value
impl Clone for SupportedConeT<F> { #[verifier::external_body] fn clone(&self) -> (r: Self) ensures r == *self { unimplemented!() } }
// ASSUMED std: cloning a Range clones its two ends (for usize: copies them)
pub assume_specification<Idx: Clone> [<Range<Idx> as Clone>::clone] (r: &Range<Idx>) -> (c: Range<Idx>)
    ensures cloned(r.start, c.start), cloned(r.end, c.end);

// ---- packed upper-triangle indices (contracts of unit scalarmath, PROVED there; lemmas of unit chordal_decomp) ----
pub open spec fn tri(k: int) -> int { k * (k + 1) / 2 }
pub open spec fn packed(a: int, b: int) -> int { if a <= b { tri(b) + a } else { tri(a) + b } }
pub proof fn lemma_consec_even(k: int) requires k >= 0 ensures k * (k + 1) % 2 == 0 decreases k
{
    if k > 0 {
        lemma_consec_even(k - 1);
        assert(k * (k + 1) == (k - 1) * k + 2 * k) by (nonlinear_arith);
    } else {
        assert(k * (k + 1) == 0) by (nonlinear_arith) requires k == 0;
    }
}
pub proof fn lemma_tri_step(k: int) requires k >= 0 ensures tri(k + 1) == tri(k) + k + 1, tri(k) >= 0
{
    assert(k * (k + 1) >= 0) by (nonlinear_arith) requires k >= 0;
    assert((k + 1) * (k + 2) == k * (k + 1) + 2 * (k + 1)) by (nonlinear_arith);
    lemma_consec_even(k);
}
pub proof fn lemma_tri_mono(a: int, b: int) requires 0 <= a <= b ensures tri(a) <= tri(b), 0 <= tri(a) decreases b - a
{
    if a < b { lemma_tri_step(b - 1); lemma_tri_mono(a, b - 1); } else { lemma_tri_step(a); }
}
pub proof fn lemma_tri_unique(c1: int, r1: int, c2: int, r2: int)
    requires 0 <= r1 <= c1, 0 <= r2 <= c2, tri(c1) + r1 == tri(c2) + r2,
    ensures c1 == c2, r1 == r2,
{
    if c1 < c2 { lemma_tri_step(c1); lemma_tri_mono(c1 + 1, c2); }
    if c2 < c1 { lemma_tri_step(c2); lemma_tri_mono(c2 + 1, c1); }
}
pub proof fn lemma_packed_lt(a: int, b: int, d: int)
    requires 0 <= a < d, 0 <= b < d,
    ensures 0 <= packed(a, b) < tri(d),
{
    let mx = if a <= b { b } else { a };
    lemma_tri_step(mx); lemma_tri_mono(mx + 1, d);
}
#[verifier::external_body]
fn coord_to_upper_triangular_index(coord: (usize, usize)) -> (r: usize)
    requires coord.0 < 0x8000_0000, coord.1 < 0x8000_0000,
    ensures r == packed(coord.0 as int, coord.1 as int),
{ unimplemented!() }
#[verifier::external_body]
fn triangular_number(k: usize) -> (r: usize)
    requires k < 0x1_0000_0000,
    ensures r == tri(k as int),
{ unimplemented!() }
// names the (i, j) entry of the upper triangle of a clique block (a trigger)
pub open spec fn tslot(i: int, j: int) -> bool { true }
pub open spec fn strictly_increasing(v: Seq<usize>) -> bool { forall|a: int, b: int| 0 <= a < b < v.len() ==> v[a] < v[b] }
pub proof fn lemma_subblock_injective(v: Seq<usize>, i1: int, j1: int, i2: int, j2: int)
    requires
        forall|a: int, b: int| 0 <= a < b < v.len() ==> v[a] < v[b],
        0 <= i1 <= j1 < v.len(), 0 <= i2 <= j2 < v.len(), packed(v[i1] as int, v[j1] as int) == packed(v[i2] as int, v[j2] as int),
    ensures i1 == i2, j1 == j2,
{
    if i1 < j1 { assert(v[i1] < v[j1]); }
    if i2 < j2 { assert(v[i2] < v[j2]); }
    lemma_tri_unique(v[j1] as int, v[i1] as int, v[j2] as int, v[i2] as int);
    if j1 < j2 { assert(v[j1] < v[j2]); } if j2 < j1 { assert(v[j2] < v[j1]); }
    if i1 < i2 { assert(v[i1] < v[i2]); } if i2 < i1 { assert(v[i2] < v[i1]); }
}

// ---- the user-facing cone enum (real, feature sdp on) ----
pub open spec fn nvars_spec(c: Cone) -> int {
    match c {
        SupportedConeT::ZeroConeT(d) => d as int,
        SupportedConeT::NonnegativeConeT(d) => d as int,
        SupportedConeT::SecondOrderConeT(d) => d as int,
        SupportedConeT::ExponentialConeT() => 3,
        SupportedConeT::PowerConeT(_) => 3,
        SupportedConeT::GenPowerConeT(a, d2) => a@.len() + d2,
        SupportedConeT::PSDTriangleConeT(d) => tri(d as int),
    }
}
pub proof fn lemma_nvars_nonneg(c: Cone) ensures nvars_spec(c) >= 0
{ match c { SupportedConeT::PSDTriangleConeT(d) => { lemma_tri_step(d as int); }, _ => {} } }
impl SupportedConeT<F> {
//@fn file=src/solver/core/cones/supportedcone.rs in="impl<T> SupportedConeT<T>" name=nvars rules=R12,R2,R1 ret=r
//@contract
    requires nvars_spec(*self) <= usize::MAX, self matches SupportedConeT::PSDTriangleConeT(d) ==> d < 0x1_0000_0000,
    ensures r == nvars_spec(*self),
//@end
}
// the result of sorting is a function of the input (uninterpreted); what is ASSUMED of it is the documented contract of the std sort
pub uninterp spec fn sorted_of(s: Seq<usize>) -> Seq<usize>;
#[verifier::external_body]
pub fn usize_sort(v: &mut Vec<usize>)
    ensures final(v)@ == sorted_of(old(v)@), same_members(final(v)@, old(v)@), nondecreasing(final(v)@),
        old(v)@.no_duplicates() ==> final(v)@.no_duplicates() && ascending(final(v)@),
{ v.sort() }

// ---- vocabulary of a sparsity pattern (text of units chordal_augment / chordal_compact2) ----
pub open spec fn cpos(t: SuperNodeTree, j: int) -> int { t.snode_post@[j] as int }
pub open spec fn snd(t: SuperNodeTree, j: int) -> Seq<usize> { t.snode@[cpos(t, j)]@ }
pub open spec fn sep(t: SuperNodeTree, j: int) -> Seq<usize> { t.separators@[cpos(t, j)]@ }
pub open spec fn clique_of(t: SuperNodeTree, j: int) -> Seq<usize> { snd(t, j) + sep(t, j) }
pub open spec fn map_ord(s: Seq<usize>, ord: Seq<usize>) -> Seq<usize> { Seq::new(s.len(), |i: int| ord[s[i] as int]) }
// the clique of order j, mapped back through the ordering and sorted
pub open spec fn clique_sorted(p: SparsityPattern, j: int) -> Seq<usize> { sorted_of(map_ord(clique_of(p.sntree, j), p.ordering@)) }
pub open spec fn sum_tri_nblk(nblk: Seq<usize>, k: int) -> int decreases k { if k <= 0 { 0 } else { sum_tri_nblk(nblk, k - 1) + tri(nblk[k - 1] as int) } }
pub open spec fn sum_tri_sep(t: SuperNodeTree, k: int) -> int decreases k { if k <= 0 { 0 } else { sum_tri_sep(t, k - 1) + tri(sep(t, k - 1).len() as int) } }
pub open spec fn clique_wf(p: SparsityPattern, j: int) -> bool {
    let t = p.sntree;
    &&& cpos(t, j) < t.snode@.len() && cpos(t, j) < t.separators@.len()
    &&& snd(t, j).no_duplicates() && sep(t, j).no_duplicates() && disjoint(snd(t, j), sep(t, j))
    &&& t.nblk->0@[j] == snd(t, j).len() + sep(t, j).len()
    &&& forall|k: int| 0 <= k < clique_of(t, j).len() ==> #[trigger] clique_of(t, j)[k] < p.ordering@.len()
}
pub open spec fn pat_wf(p: SparsityPattern) -> bool {
    let t = p.sntree;
    &&& t.nblk is Some && 1 <= t.n_cliques <= t.nblk->0@.len() && t.n_cliques <= t.snode_post@.len()
    &&& p.ordering@.len() < 0x8000_0000
    &&& forall|v: int| 0 <= v < p.ordering@.len() ==> #[trigger] p.ordering@[v] < p.ordering@.len()
    &&& forall|j: int| 0 <= j < t.n_cliques ==> #[trigger] clique_wf(p, j)
}
pub open spec fn ord_inj(o: Seq<usize>) -> bool { forall|a: int, b: int| 0 <= a < o.len() && 0 <= b < o.len() && a != b ==> o[a] != o[b] }
// number of patterns consumed before cone i: the explicit state of the peekable pattern iterator
pub open spec fn pk(sp: Seq<SparsityPattern>, i: int) -> int decreases i {
    if i <= 0 { 0 } else { let k = pk(sp, i - 1); if k < sp.len() && sp[k].orig_index == i - 1 { k + 1 } else { k } } }
pub open spec fn is_dec(sp: Seq<SparsityPattern>, i: int) -> bool { pk(sp, i) < sp.len() && sp[pk(sp, i)].orig_index == i }
pub open spec fn row_off(cones: Seq<Cone>, i: int) -> int decreases i { if i <= 0 { 0 } else { row_off(cones, i - 1) + nvars_spec(cones[i - 1]) } }
pub open spec fn dim_spec(ci: ChordalInfo<F>, i: int) -> int decreases i {
    if i <= 0 { 0 } else { let sp = ci.spatterns@;
        dim_spec(ci, i - 1) + (if is_dec(sp, i - 1) { sum_tri_nblk(sp[pk(sp, i - 1)].sntree.nblk->0@, sp[pk(sp, i - 1)].sntree.n_cliques as int) } else { nvars_spec(ci.init_cones@[i - 1]) }) } }
pub open spec fn ovl_spec(ci: ChordalInfo<F>, i: int) -> int decreases i {
    if i <= 0 { 0 } else { let sp = ci.spatterns@;
        ovl_spec(ci, i - 1) + (if is_dec(sp, i - 1) { sum_tri_sep(sp[pk(sp, i - 1)].sntree, sp[pk(sp, i - 1)].sntree.n_cliques as int) } else { 0int }) } }
pub open spec fn ncl_sum(sp: Seq<SparsityPattern>, k: int) -> int decreases k { if k <= 0 { 0 } else { ncl_sum(sp, k - 1) + sp[k - 1].sntree.n_cliques } }
// what ChordalInfo::new leaves behind when a decomposition takes place
pub open spec fn pat_ok(ci: ChordalInfo<F>, k: int) -> bool {
    let p = ci.spatterns@[k];
    &&& p.orig_index < ci.init_cones@.len() && ci.init_cones@[p.orig_index as int] == SupportedConeT::<F>::PSDTriangleConeT(p.ordering@.len() as usize)
    &&& pat_wf(p)
}
pub open spec fn ci_wf(ci: ChordalInfo<F>) -> bool {
    let n = ci.init_cones@.len() as int;
    &&& forall|k: int| 0 <= k < ci.spatterns@.len() ==> #[trigger] pat_ok(ci, k)
    &&& forall|i: int| 0 <= i < n ==> (#[trigger] ci.init_cones@[i] matches SupportedConeT::PSDTriangleConeT(d) ==> d < 0x8000_0000)
    // sizes of one problem: the row count, the decomposed row count and the number of overlaps fit a usize
    &&& row_off(ci.init_cones@, n) <= usize::MAX && dim_spec(ci, n) <= usize::MAX && ovl_spec(ci, n) <= usize::MAX
    &&& n + ncl_sum(ci.spatterns@, ci.spatterns@.len() as int) + 1 <= usize::MAX
}
pub proof fn lemma_row_off_mono(cones: Seq<Cone>, a: int, b: int)
    requires 0 <= a <= b,
    ensures 0 <= row_off(cones, a) <= row_off(cones, b),
    decreases b,
{
    if a < b { lemma_row_off_mono(cones, a, b - 1); lemma_nvars_nonneg(cones[b - 1]); }
    else if a > 0 { lemma_row_off_mono(cones, a - 1, a - 1); lemma_nvars_nonneg(cones[a - 1]); }
}
// the members of b that are not in a (contract vocabulary of get_clique, unit chordal_snode)
pub open spec fn not_in(a: Seq<usize>, b: Seq<usize>, k: int) -> Seq<usize> decreases k {
    if k <= 0 { Seq::empty() } else if a.contains(b[k - 1]) { not_in(a, b, k - 1) } else { not_in(a, b, k - 1).push(b[k - 1]) }
}
pub proof fn lemma_not_in_disjoint(a: Seq<usize>, b: Seq<usize>, k: int)
    requires disjoint(a, b), 0 <= k <= b.len(), ensures not_in(a, b, k) == b.take(k), decreases k,
{
    if k > 0 { lemma_not_in_disjoint(a, b, k - 1); assert(b.contains(b[k - 1])); assert(b.take(k) =~= b.take(k - 1).push(b[k - 1])); }
    else { assert(b.take(0) =~= Seq::<usize>::empty()); }
}
impl SuperNodeTree {
    // ASSUMED here, PROVED in unit chordal_snode (contract text of get_clique there)
    #[verifier::external_body] pub fn get_clique(&self, i: usize) -> (r: VertexSet)
        requires
            i < self.snode_post@.len(), self.snode_post@[i as int] < self.snode@.len(), self.snode_post@[i as int] < self.separators@.len(),
            self.snode@[self.snode_post@[i as int] as int]@.len() < 0x8000_0000, self.separators@[self.snode_post@[i as int] as int]@.len() < 0x8000_0000,
        ensures
            forall|x: usize| #[trigger] r@.contains(x) <==> self.snode@[self.snode_post@[i as int] as int]@.contains(x) || self.separators@[self.snode_post@[i as int] as int]@.contains(x),
            self.snode@[self.snode_post@[i as int] as int]@.no_duplicates() && self.separators@[self.snode_post@[i as int] as int]@.no_duplicates() ==> r@.no_duplicates()
                && r@ == self.snode@[self.snode_post@[i as int] as int]@ + not_in(self.snode@[self.snode_post@[i as int] as int]@, self.separators@[self.snode_post@[i as int] as int]@, self.separators@[self.snode_post@[i as int] as int]@.len() as int),
    { unimplemented!() }
}
// facts about one clique of a well-formed pattern: duplicate-free, vertices below the cone dimension, sorted image strictly increasing
pub proof fn lemma_clique_facts(p: SparsityPattern, j: int)
    requires pat_wf(p), ord_inj(p.ordering@), 0 <= j < p.sntree.n_cliques,
    ensures
        clique_of(p.sntree, j).no_duplicates(),
        snd(p.sntree, j).len() < 0x8000_0000, sep(p.sntree, j).len() < 0x8000_0000, clique_of(p.sntree, j).len() <= p.ordering@.len(),
        clique_of(p.sntree, j).len() == p.sntree.nblk->0@[j],
        clique_sorted(p, j).len() == clique_of(p.sntree, j).len(),
        strictly_increasing(clique_sorted(p, j)),
        forall|k: int| 0 <= k < clique_sorted(p, j).len() ==> #[trigger] clique_sorted(p, j)[k] < p.ordering@.len(),
        map_ord(clique_of(p.sntree, j), p.ordering@).no_duplicates(),
{
    let t = p.sntree; let dim = p.ordering@.len() as int; let ord = p.ordering@;
    let cl = clique_of(t, j); let mapped = map_ord(cl, ord); let c = clique_sorted(p, j);
    assert(clique_wf(p, j));
    lemma_concat_nodup(snd(t, j), sep(t, j));
    lemma_nodup_bounded(cl, dim);
    assert(snd(t, j).len() <= cl.len() && sep(t, j).len() <= cl.len());
    assert forall|a: int, b: int| 0 <= a < mapped.len() && 0 <= b < mapped.len() && a != b implies mapped[a] != mapped[b] by {
        assert(cl[a] != cl[b]); assert(cl[a] < dim && cl[b] < dim);
    }
    ax_sorted_of(mapped);
    assert forall|k: int| 0 <= k < c.len() implies #[trigger] c[k] < dim by {
        assert(c.contains(c[k])); assert(mapped.contains(c[k]));
        let q = choose|q: int| 0 <= q < mapped.len() && mapped[q] == c[k];
        assert(mapped[q] == ord[cl[q] as int]); assert(cl[q] < dim);
    }
}
// ASSUMED axiom: the documented contract of the std sort as a property of the uninterpreted result function (same facts as usize_sort ensures)
pub proof fn ax_sorted_of(s: Seq<usize>)
    ensures same_members(sorted_of(s), s), nondecreasing(sorted_of(s)), s.no_duplicates() ==> sorted_of(s).no_duplicates() && ascending(sorted_of(s)),
{ admit(); }
// vacuity guard for the admitted axiom: this lemma MUST FAIL
pub proof fn canary_sort_axiom(s: Seq<usize>) ensures false { ax_sorted_of(s); }

// ---- one clique block scattered back (vocabulary and lemmas of unit chordal_decomp, verbatim) ----
pub open spec fn blk_done(a: int, b: int, jj: int, ii: int) -> bool { 0 <= a <= b && (b < jj || (b == jj && a < ii)) }
pub open spec fn blk_hit(c: Seq<usize>, start: int, jj: int, ii: int, k: int) -> bool {
    exists|a: int, b: int| #[trigger] tslot(a, b) && blk_done(a, b, jj, ii) && b < c.len() && k == start + packed(c[a] as int, c[b] as int)
}
pub open spec fn blk_state(c: Seq<usize>, start: int, row_ptr: int, s0: Seq<F>, z0: Seq<F>, s1: Seq<F>, z1: Seq<F>, old_s: Seq<F>, old_z: Seq<F>, jj: int, ii: int) -> bool {
    &&& s1.len() == s0.len() && z1.len() == z0.len()
    &&& forall|a: int, b: int| #[trigger] tslot(a, b) && blk_done(a, b, jj, ii) && b < c.len() ==>
            z1[start + packed(c[a] as int, c[b] as int)] == old_z[row_ptr + tri(b) + a]
    &&& forall|a: int, b: int| #[trigger] tslot(a, b) && blk_done(a, b, jj, ii) && b < c.len() ==>
            s1[start + packed(c[a] as int, c[b] as int)] == f_add(s0[start + packed(c[a] as int, c[b] as int)], old_s[row_ptr + tri(b) + a])
    &&& forall|k: int| 0 <= k < s0.len() && !blk_hit(c, start, jj, ii, k) ==> #[trigger] s1[k] == s0[k]
    &&& forall|k: int| 0 <= k < z0.len() && !blk_hit(c, start, jj, ii, k) ==> #[trigger] z1[k] == z0[k]
}
pub proof fn lemma_blk_write(c: Seq<usize>, start: int, row_ptr: int, s0: Seq<F>, z0: Seq<F>, s1: Seq<F>, z1: Seq<F>, s2: Seq<F>, z2: Seq<F>, old_s: Seq<F>, old_z: Seq<F>, jj: int, ii: int)
    requires
        strictly_increasing(c), 0 <= ii <= jj < c.len(), blk_state(c, start, row_ptr, s0, z0, s1, z1, old_s, old_z, jj, ii),
        0 <= start + packed(c[ii] as int, c[jj] as int) < s0.len(), start + packed(c[ii] as int, c[jj] as int) < z0.len(),
        s2 == s1.update(start + packed(c[ii] as int, c[jj] as int), f_add(s1[start + packed(c[ii] as int, c[jj] as int)], old_s[row_ptr + tri(jj) + ii])),
        z2 == z1.update(start + packed(c[ii] as int, c[jj] as int), old_z[row_ptr + tri(jj) + ii]),
    ensures blk_state(c, start, row_ptr, s0, z0, s2, z2, old_s, old_z, jj, ii + 1),
{
    let t = start + packed(c[ii] as int, c[jj] as int);
    assert(!blk_hit(c, start, jj, ii, t)) by {
        if blk_hit(c, start, jj, ii, t) {
            let (a, b) = choose|a: int, b: int| #[trigger] tslot(a, b) && blk_done(a, b, jj, ii) && b < c.len() && t == start + packed(c[a] as int, c[b] as int);
            lemma_subblock_injective(c, a, b, ii, jj);
        }
    }
    assert(s1[t] == s0[t]);
    assert forall|a: int, b: int| #[trigger] tslot(a, b) && blk_done(a, b, jj, ii + 1) && b < c.len() implies
        z2[start + packed(c[a] as int, c[b] as int)] == old_z[row_ptr + tri(b) + a]
        && s2[start + packed(c[a] as int, c[b] as int)] == f_add(s0[start + packed(c[a] as int, c[b] as int)], old_s[row_ptr + tri(b) + a]) by {
        if a == ii && b == jj { } else {
            assert(blk_done(a, b, jj, ii));
            if start + packed(c[a] as int, c[b] as int) == t { lemma_subblock_injective(c, a, b, ii, jj); }
        }
    }
    assert forall|k: int| 0 <= k < s0.len() && !blk_hit(c, start, jj, ii + 1, k) implies #[trigger] s2[k] == s0[k] by {
        if k == t { assert(tslot(ii, jj) && blk_done(ii, jj, jj, ii + 1)); assert(blk_hit(c, start, jj, ii + 1, k)); }
        if blk_hit(c, start, jj, ii, k) {
            let (a, b) = choose|a: int, b: int| #[trigger] tslot(a, b) && blk_done(a, b, jj, ii) && b < c.len() && k == start + packed(c[a] as int, c[b] as int);
            assert(tslot(a, b) && blk_done(a, b, jj, ii + 1));
        }
    }
    assert forall|k: int| 0 <= k < z0.len() && !blk_hit(c, start, jj, ii + 1, k) implies #[trigger] z2[k] == z0[k] by {
        if k == t { assert(tslot(ii, jj) && blk_done(ii, jj, jj, ii + 1)); assert(blk_hit(c, start, jj, ii + 1, k)); }
        if blk_hit(c, start, jj, ii, k) {
            let (a, b) = choose|a: int, b: int| #[trigger] tslot(a, b) && blk_done(a, b, jj, ii) && b < c.len() && k == start + packed(c[a] as int, c[b] as int);
            assert(tslot(a, b) && blk_done(a, b, jj, ii + 1));
        }
    }
}
pub proof fn lemma_blk_same(c: Seq<usize>, start: int, row_ptr: int, s0: Seq<F>, z0: Seq<F>, s1: Seq<F>, z1: Seq<F>, old_s: Seq<F>, old_z: Seq<F>, j1: int, i1: int, j2: int, i2: int)
    requires
        blk_state(c, start, row_ptr, s0, z0, s1, z1, old_s, old_z, j1, i1),
        forall|a: int, b: int| #[trigger] blk_done(a, b, j1, i1) <==> blk_done(a, b, j2, i2),
    ensures blk_state(c, start, row_ptr, s0, z0, s1, z1, old_s, old_z, j2, i2),
{
    assert forall|k: int| blk_hit(c, start, j1, i1, k) == blk_hit(c, start, j2, i2, k) by {
        if blk_hit(c, start, j1, i1, k) {
            let (a, b) = choose|a: int, b: int| #[trigger] tslot(a, b) && blk_done(a, b, j1, i1) && b < c.len() && k == start + packed(c[a] as int, c[b] as int);
            assert(tslot(a, b) && blk_done(a, b, j2, i2));
        }
        if blk_hit(c, start, j2, i2, k) {
            let (a, b) = choose|a: int, b: int| #[trigger] tslot(a, b) && blk_done(a, b, j2, i2) && b < c.len() && k == start + packed(c[a] as int, c[b] as int);
            assert(tslot(a, b) && blk_done(a, b, j1, i1));
        }
    }
    assert forall|a: int, b: int| #[trigger] tslot(a, b) && blk_done(a, b, j2, i2) && b < c.len() implies
        z1[start + packed(c[a] as int, c[b] as int)] == old_z[row_ptr + tri(b) + a]
        && s1[start + packed(c[a] as int, c[b] as int)] == f_add(s0[start + packed(c[a] as int, c[b] as int)], old_s[row_ptr + tri(b) + a]) by {
        assert(blk_done(a, b, j1, i1));
    }
}

//@fn file=src/solver/chordal/decomp/reverse_compact.rs name=add_blocks_with_cone rules=R1 ret=r
//@contract
    requires
        row_range.start <= row_range.end, row_range.end <= old(new_s)@.len(), old(new_s)@.len() == old(new_z)@.len(),
        // the rows of the cone in the original problem and its block in the decomposed one have the same length (else copy_from panics)
        row_range.end - row_range.start == nvars_spec(*cone), cone matches SupportedConeT::PSDTriangleConeT(d) ==> d < 0x1_0000_0000,
        row_ptr + nvars_spec(*cone) <= old_s@.len(), old_s@.len() == old_z@.len(), old_s@.len() <= usize::MAX,
    ensures
        // C18 (reversal, compact form): a cone that was not decomposed gets its block of s and z back, nothing else changes
        r == row_ptr + nvars_spec(*cone),
        final(new_s)@.len() == old(new_s)@.len(), final(new_z)@.len() == old(new_z)@.len(),
        forall|k: int| row_range.start <= k < row_range.end ==> #[trigger] final(new_s)@[k] == old_s@[row_ptr + (k - row_range.start)],
        forall|k: int| row_range.start <= k < row_range.end ==> #[trigger] final(new_z)@[k] == old_z@[row_ptr + (k - row_range.start)],
        forall|k: int| 0 <= k < old(new_s)@.len() && !(row_range.start <= k < row_range.end) ==> #[trigger] final(new_s)@[k] == old(new_s)@[k],
        forall|k: int| 0 <= k < old(new_z)@.len() && !(row_range.start <= k < row_range.end) ==> #[trigger] final(new_z)@[k] == old(new_z)@[k],
//@end

//@fn file=src/solver/chordal/decomp/reverse_compact.rs name=add_blocks_with_sparsity_pattern rules=R1,R3,R5,vecsortr:clique_buffer ret=r attrs="#[verifier::spinoff_prover]"
//@contract
    requires
        pat_wf(*spattern), ord_inj(spattern.ordering@), clique_index < spattern.sntree.n_cliques,
        // the rows of the original cone lie inside the vectors of the original problem, the clique block inside the decomposed ones
        row_range.start + tri(spattern.ordering@.len() as int) <= old(new_s)@.len(), old(new_s)@.len() == old(new_z)@.len(), old(new_s)@.len() <= usize::MAX,
        row_ptr + tri(clique_of(spattern.sntree, clique_index as int).len() as int) <= old_s@.len(), old_s@.len() == old_z@.len(), old_s@.len() <= usize::MAX,
    ensures
        // the buffer holds the clique of ORDER clique_index mapped through `ordering` and sorted
        final(clique_buffer)@ == clique_sorted(*spattern, clique_index as int),
        // C18 (reversal, compact form): entry (a, b) of the clique block, stored at row_ptr + tri(b) + a of the decomposed vectors, goes to entry
        // (c[a], c[b]) of the original cone: z is overwritten, s is accumulated; each target is written exactly once and nothing else changes
        blk_state(clique_sorted(*spattern, clique_index as int), row_range.start as int, row_ptr as int, old(new_s)@, old(new_z)@, final(new_s)@, final(new_z)@, old_s@, old_z@,
            clique_sorted(*spattern, clique_index as int).len() as int, 0),
        r == row_ptr + tri(clique_sorted(*spattern, clique_index as int).len() as int),
//@pre
    let ghost gq = clique_index as int;
    let ghost t = spattern.sntree;
    let ghost ord = spattern.ordering@;
    let ghost dim = spattern.ordering@.len() as int;
    let ghost cl = clique_of(spattern.sntree, clique_index as int);
    let ghost c = clique_sorted(*spattern, clique_index as int);
    let ghost s0 = new_s@;
    let ghost z0 = new_z@;
    let ghost start = row_range.start as int;
    let ghost nn = c.len() as int;
    proof {
        lemma_clique_facts(*spattern, gq);
        assert(clique_wf(*spattern, gq));
        lemma_tri_step(0); assert(tri(0) == 0);
        assert(new_s@.len() == new_s.len());
    }
//@after "let clique = sntree.get_clique(clique_index);"
    proof {
        lemma_not_in_disjoint(snd(t, gq), sep(t, gq), sep(t, gq).len() as int);
        assert(sep(t, gq).take(sep(t, gq).len() as int) =~= sep(t, gq));
        assert(clique@ == cl);
    }
//@iter 1
it0
//@loop 1
        invariant
            ordering == &spattern.ordering, ord == spattern.ordering@, clique@ == cl, i_ctr == it0.index@,
            it0.seq().len() == cl.len(), forall|k: int| 0 <= k < cl.len() ==> *(#[trigger] it0.seq()[k]) == cl[k],
            forall|k: int| 0 <= k < cl.len() ==> #[trigger] cl[k] < ord.len(),
            clique_buffer@.len() == cl.len(), cl.len() < 0x8000_0000,
            forall|k: int| 0 <= k < it0.index@ ==> #[trigger] clique_buffer@[k] == ord[cl[k] as int],
            new_s@ == s0, new_z@ == z0,
//@body_start 1
        proof { assert(*v_r == cl[it0.index@ as int]); }
//@after "for v_r in clique.iter()"
    proof { assert(clique_buffer@ =~= map_ord(cl, ord)); }
//@before "let mut counter = 0;"
    proof {
        assert(c == clique_buffer@);
        assert forall|a: int, b: int| 0 <= a <= b < nn implies start + packed(#[trigger] c[a] as int, #[trigger] c[b] as int) < s0.len() by {
            lemma_packed_lt(c[a] as int, c[b] as int, dim);
        }
    }
//@iter 2
it1
//@loop 2
        invariant
            c == clique_buffer@, nn == c.len(), start == row_range.start, strictly_increasing(c), s0 == old(new_s)@, z0 == old(new_z)@,
            it1.seq().len() == nn, forall|k: int| 0 <= k < nn ==> *(#[trigger] it1.seq()[k]) == c[k],
            forall|k: int| 0 <= k < nn ==> #[trigger] c[k] < 0x8000_0000,
            forall|a: int, b: int| 0 <= a <= b < nn ==> start + packed(#[trigger] c[a] as int, #[trigger] c[b] as int) < s0.len(),
            s0.len() == z0.len(), s0.len() <= usize::MAX, row_ptr + tri(nn) <= old_s@.len(), old_s@.len() == old_z@.len(), old_s@.len() <= usize::MAX,
            counter == tri(it1.index@ as int),
            blk_state(c, start, row_ptr as int, s0, z0, new_s@, new_z@, old_s@, old_z@, it1.index@ as int, 0),
//@body_start 2
        let ghost gj = it1.index@ as int;
        proof { lemma_tri_step(gj); lemma_tri_mono(gj + 1, nn); }
//@iter 3
it2
//@loop 3
            invariant
                c == clique_buffer@, nn == c.len(), start == row_range.start, strictly_increasing(c), 0 <= gj < nn, j == c[gj],
                it2.seq().len() == nn, forall|k: int| 0 <= k < nn ==> *(#[trigger] it2.seq()[k]) == c[k],
                forall|k: int| 0 <= k < nn ==> #[trigger] c[k] < 0x8000_0000,
                forall|a: int, b: int| 0 <= a <= b < nn ==> start + packed(#[trigger] c[a] as int, #[trigger] c[b] as int) < s0.len(),
                s0.len() == z0.len(), s0.len() <= usize::MAX, row_ptr + tri(nn) <= old_s@.len(), old_s@.len() == old_z@.len(), old_s@.len() <= usize::MAX,
                tri(gj + 1) == tri(gj) + gj + 1, tri(gj) >= 0, tri(gj + 1) <= tri(nn),
                counter == tri(gj) + (if it2.index@ <= gj { it2.index@ as int } else { gj + 1 }),
                blk_state(c, start, row_ptr as int, s0, z0, new_s@, new_z@, old_s@, old_z@, gj, (if it2.index@ <= gj { it2.index@ as int } else { gj + 1 })),
//@body_start 3
            let ghost gi = it2.index@ as int;
            let ghost s1 = new_s@;
            let ghost z1 = new_z@;
            proof {
                assert(*i_r == c[gi]);
                if gi < gj { assert(c[gi] < c[gj]); }
                if gj < gi { assert(c[gj] < c[gi]); }
                if gi <= gj { assert(start + packed(c[gi] as int, c[gj] as int) < s0.len()); }
            }
//@body_end 3
            proof {
                if gi <= gj {
                    lemma_blk_write(c, start, row_ptr as int, s0, z0, s1, z1, new_s@, new_z@, old_s@, old_z@, gj, gi);
                }
            }
//@body_end 2
        proof {
            lemma_blk_same(c, start, row_ptr as int, s0, z0, new_s@, new_z@, old_s@, old_z@, gj, gj + 1, gj + 1, 0);
        }
//@after "for j_r in clique_buffer.iter()"
    proof { assert(counter == tri(nn)); }
//@end

// ================= the driver: decomp_reverse_compact =================
// row ranges of a cone list.  Stand-in for RangeSupportedConesIterator; contract text of unit solver_new (PROVED there: the k-th item is
// cone_start(k) .. cone_start(k + 1); row_off here is cone_start there).  `collect` (ASSUMED, Iterator::collect = the remaining items in order)
pub struct RangeSupportedConesIterator { pub st: Ghost<(Seq<Cone>, int)> }
impl RangeSupportedConesIterator {
    pub open spec fn cones(&self) -> Seq<Cone> { self.st@.0 }
    pub open spec fn idx(&self) -> int { self.st@.1 }
    #[verifier::external_body] pub fn collect(self) -> (r: Vec<Range<usize>>)
        requires row_off(self.cones(), self.cones().len() as int) <= usize::MAX, self.idx() == 0,
        ensures r@.len() == self.cones().len(), forall|k: int| 0 <= k < r@.len() ==> (#[trigger] r@[k]).start == row_off(self.cones(), k) && r@[k].end == row_off(self.cones(), k + 1),
    { unimplemented!() }
}
pub trait ConeRanges {
    spec fn cone_seq(&self) -> Seq<Cone>;
    fn rng_cones_iter(&self) -> (r: RangeSupportedConesIterator) ensures r.cones() == self.cone_seq(), r.idx() == 0;
}
impl ConeRanges for [Cone] {
    open spec fn cone_seq(&self) -> Seq<Cone> { self@ }
    #[verifier::external_body] fn rng_cones_iter(&self) -> (r: RangeSupportedConesIterator) { unimplemented!() }
}
impl ConeRanges for Vec<Cone> {
    open spec fn cone_seq(&self) -> Seq<Cone> { self@ }
    #[verifier::external_body] fn rng_cones_iter(&self) -> (r: RangeSupportedConesIterator) { unimplemented!() }
}
// the sorted clique a cone-map entry (pattern t, clique ORDER cl) names
pub open spec fn cm_pat(ci: ChordalInfo<F>, e: ConeMapEntry) -> SparsityPattern { ci.spatterns@[(e.tree_and_clique->0).0 as int] }
pub open spec fn cm_clique(ci: ChordalInfo<F>, e: ConeMapEntry) -> Seq<usize> { clique_sorted(cm_pat(ci, e), (e.tree_and_clique->0).1 as int) }
// rows the entry takes in the DECOMPOSED vectors: what the code adds to row_ptr
pub open spec fn ent_size(ci: ChordalInfo<F>, e: ConeMapEntry, cone: Cone) -> int {
    if e.tree_and_clique is None { nvars_spec(cone) } else { tri(cm_clique(ci, e).len() as int) } }
pub open spec fn rptr(ci: ChordalInfo<F>, cm: Seq<ConeMapEntry>, oc: Seq<Cone>, k: int) -> int decreases k {
    if k <= 0 { 0 } else { rptr(ci, cm, oc, k - 1) + ent_size(ci, cm[k - 1], oc[k - 1]) } }
// the position in the decomposed vectors of THE block entry whose image is row r (unique for a sorted clique: lemma_subblock_injective)
pub open spec fn src_of(c: Seq<usize>, start: int, rp: int, r: int) -> int {
    let (a, b) = choose|a: int, b: int| #[trigger] tslot(a, b) && blk_done(a, b, c.len() as int, 0) && b < c.len() && r == start + packed(c[a] as int, c[b] as int);
    rp + tri(b) + a
}
// effect of ONE cone-map entry on row r of s: a kept cone overwrites its rows, a clique block ADDS its image to the row
pub open spec fn ent_s(ci: ChordalInfo<F>, e: ConeMapEntry, rp: int, old_s: Seq<F>, r: int, prev: F) -> F {
    let start = row_off(ci.init_cones@, e.orig_index as int); let end = row_off(ci.init_cones@, e.orig_index + 1);
    if e.tree_and_clique is None { if start <= r < end { old_s[rp + (r - start)] } else { prev } }
    else { let c = cm_clique(ci, e); if blk_hit(c, start, c.len() as int, 0, r) { f_add(prev, old_s[src_of(c, start, rp, r)]) } else { prev } }
}
// ... and of z: overwritten in both cases
pub open spec fn ent_z(ci: ChordalInfo<F>, e: ConeMapEntry, rp: int, old_z: Seq<F>, r: int, prev: F) -> F {
    let start = row_off(ci.init_cones@, e.orig_index as int); let end = row_off(ci.init_cones@, e.orig_index + 1);
    if e.tree_and_clique is None { if start <= r < end { old_z[rp + (r - start)] } else { prev } }
    else { let c = cm_clique(ci, e); if blk_hit(c, start, c.len() as int, 0, r) { old_z[src_of(c, start, rp, r)] } else { prev } }
}
pub open spec fn rev_row_s(ci: ChordalInfo<F>, cm: Seq<ConeMapEntry>, oc: Seq<Cone>, old_s: Seq<F>, s0: Seq<F>, r: int, k: int) -> F decreases k {
    if k <= 0 { s0[r] } else { ent_s(ci, cm[k - 1], rptr(ci, cm, oc, k - 1), old_s, r, rev_row_s(ci, cm, oc, old_s, s0, r, k - 1)) } }
pub open spec fn rev_row_z(ci: ChordalInfo<F>, cm: Seq<ConeMapEntry>, oc: Seq<Cone>, old_z: Seq<F>, z0: Seq<F>, r: int, k: int) -> F decreases k {
    if k <= 0 { z0[r] } else { ent_z(ci, cm[k - 1], rptr(ci, cm, oc, k - 1), old_z, r, rev_row_z(ci, cm, oc, old_z, z0, r, k - 1)) } }
// cone_maps / old_cones as find_compact_A_b_and_cones leaves them (unit chordal_compact2: maps_spec / cones_spec_c), entry k
pub open spec fn ent_ok(ci: ChordalInfo<F>, e: ConeMapEntry, cone: Cone) -> bool {
    &&& e.orig_index < ci.init_cones@.len()
    &&& cone matches SupportedConeT::PSDTriangleConeT(d) ==> d < 0x8000_0000
    &&& e.tree_and_clique is None ==> nvars_spec(cone) == nvars_spec(ci.init_cones@[e.orig_index as int])
    &&& e.tree_and_clique matches Some(tc) ==> tc.0 < ci.spatterns@.len() && ci.spatterns@[tc.0 as int].orig_index == e.orig_index
            && tc.1 < ci.spatterns@[tc.0 as int].sntree.n_cliques && cone == SupportedConeT::<F>::PSDTriangleConeT(ci.spatterns@[tc.0 as int].sntree.nblk->0@[tc.1 as int])
}
pub open spec fn rev_wf(ci: ChordalInfo<F>, oc: Seq<Cone>) -> bool {
    &&& ci_wf(ci) && ci.cone_maps is Some && ci.cone_maps->0@.len() == oc.len()
    &&& forall|k: int| 0 <= k < ci.spatterns@.len() ==> ord_inj((#[trigger] ci.spatterns@[k]).ordering@)
    &&& forall|k: int| 0 <= k < oc.len() ==> ent_ok(ci, #[trigger] ci.cone_maps->0@[k], oc[k])
}
// the running pointer of the reversal is the first row of cone k of the decomposed problem
pub proof fn lemma_rptr(ci: ChordalInfo<F>, oc: Seq<Cone>, k: int)
    requires rev_wf(ci, oc), 0 <= k <= oc.len(),
    ensures rptr(ci, ci.cone_maps->0@, oc, k) == row_off(oc, k),
    decreases k,
{
    if k > 0 {
        lemma_rptr(ci, oc, k - 1);
        let e = ci.cone_maps->0@[k - 1];
        assert(ent_ok(ci, e, oc[k - 1]));
        if e.tree_and_clique is Some {
            let tc = e.tree_and_clique->0;
            assert(pat_ok(ci, tc.0 as int));
            lemma_clique_facts(ci.spatterns@[tc.0 as int], tc.1 as int);
        }
    }
}
// one clique block, read row by row: blk_state (what add_blocks_with_sparsity_pattern ensures) is the step of the fold
pub proof fn lemma_ent_blk(ci: ChordalInfo<F>, e: ConeMapEntry, rp: int, s1: Seq<F>, z1: Seq<F>, s2: Seq<F>, z2: Seq<F>, old_s: Seq<F>, old_z: Seq<F>)
    requires
        e.tree_and_clique is Some,
        blk_state(cm_clique(ci, e), row_off(ci.init_cones@, e.orig_index as int), rp, s1, z1, s2, z2, old_s, old_z, cm_clique(ci, e).len() as int, 0),
    ensures
        forall|r: int| 0 <= r < s1.len() ==> #[trigger] s2[r] == ent_s(ci, e, rp, old_s, r, s1[r]),
        forall|r: int| 0 <= r < z1.len() ==> #[trigger] z2[r] == ent_z(ci, e, rp, old_z, r, z1[r]),
{
    let c = cm_clique(ci, e); let start = row_off(ci.init_cones@, e.orig_index as int); let n = c.len() as int;
    assert forall|r: int| 0 <= r < s1.len() implies #[trigger] s2[r] == ent_s(ci, e, rp, old_s, r, s1[r]) by {
        if blk_hit(c, start, n, 0, r) {
            let (a, b) = choose|a: int, b: int| #[trigger] tslot(a, b) && blk_done(a, b, c.len() as int, 0) && b < c.len() && r == start + packed(c[a] as int, c[b] as int);
            assert(tslot(a, b) && blk_done(a, b, n, 0) && b < c.len());
            assert(s2[start + packed(c[a] as int, c[b] as int)] == f_add(s1[start + packed(c[a] as int, c[b] as int)], old_s[rp + tri(b) + a]));
            assert(src_of(c, start, rp, r) == rp + tri(b) + a);
        }
    }
    assert forall|r: int| 0 <= r < z1.len() implies #[trigger] z2[r] == ent_z(ci, e, rp, old_z, r, z1[r]) by {
        if blk_hit(c, start, n, 0, r) {
            let (a, b) = choose|a: int, b: int| #[trigger] tslot(a, b) && blk_done(a, b, c.len() as int, 0) && b < c.len() && r == start + packed(c[a] as int, c[b] as int);
            assert(tslot(a, b) && blk_done(a, b, n, 0) && b < c.len());
            assert(z2[start + packed(c[a] as int, c[b] as int)] == old_z[rp + tri(b) + a]);
            assert(src_of(c, start, rp, r) == rp + tri(b) + a);
        }
    }
}
impl ChordalInfo<F> {
    // ASSUMED here, PROVED in unit chordal_compact (same contract text)
    #[verifier::external_body] fn largest_nblk(&self) -> (res: usize)
        requires forall|i: int| 0 <= i < self.spatterns@.len() ==> (#[trigger] self.spatterns@[i]).sntree.nblk is Some,
        ensures forall|i: int, k: int| 0 <= i < self.spatterns@.len() && 0 <= k < self.spatterns@[i].sntree.nblk->0@.len() ==> #[trigger] self.spatterns@[i].sntree.nblk->0@[k] <= res,
    { unimplemented!() }
//@fn file=src/solver/chordal/decomp/reverse_compact.rs in="impl<T> ChordalInfo<T>" name=decomp_reverse_compact rules=R1,zipidx:1 params=new_vars,old_vars,old_cones attrs="#[verifier::spinoff_prover]"
//@contract
    requires
        rev_wf(*self, old_cones@),
        // new_vars = DefaultVariables::new(n, m) of the ORIGINAL sizes; old_vars = the solver's variables of the decomposed problem (one row per row of old_cones)
        old(new_vars).s@.len() == row_off(self.init_cones@, self.init_cones@.len() as int), old(new_vars).z@.len() == old(new_vars).s@.len(),
        old_vars.s@.len() == row_off(old_cones@, old_cones@.len() as int), old_vars.z@.len() == old_vars.s@.len(),
    ensures
        // C18 (mapping a solution back, compact form): vectors of the original sizes, x untouched
        final(new_vars).s@.len() == old(new_vars).s@.len(), final(new_vars).z@.len() == old(new_vars).z@.len(), final(new_vars).x@ == old(new_vars).x@,
        // every original row receives the blocks that name it, in the order of cone_maps: kept cones copied, clique blocks ADDED to s and COPIED to z
        forall|r: int| 0 <= r < old(new_vars).s@.len() ==> #[trigger] final(new_vars).s@[r] == rev_row_s(*self, self.cone_maps->0@, old_cones@, old_vars.s@, old(new_vars).s@, r, old_cones@.len() as int),
        forall|r: int| 0 <= r < old(new_vars).z@.len() ==> #[trigger] final(new_vars).z@[r] == rev_row_z(*self, self.cone_maps->0@, old_cones@, old_vars.z@, old(new_vars).z@, r, old_cones@.len() as int),
//@pre
    let ghost ci = *self;
    let ghost cm = self.cone_maps->0@;
    let ghost oc = old_cones@;
    let ghost nc = self.init_cones@.len() as int;
    let ghost kk = old_cones@.len() as int;
    let ghost s00 = new_vars.s@;
    let ghost z00 = new_vars.z@;
    let ghost x00 = new_vars.x@;
    let ghost mm = new_vars.s@.len() as int;
    proof {
        assert(old_cones@.len() == old_cones.len()); assert(old_vars.s@.len() == old_vars.s.len());
        lemma_row_off_mono(ci.init_cones@, 0, nc);
        assert forall|i: int| 0 <= i < ci.spatterns@.len() implies (#[trigger] ci.spatterns@[i]).sntree.nblk is Some by { assert(pat_ok(ci, i)); }
    }
//@loop 1
            invariant
                *self == ci, cm == ci.cone_maps->0@, cone_maps@ == cm, oc == old_cones@, kk == oc.len(), r14_n1 == kk, rev_wf(ci, oc), nc == ci.init_cones@.len(),
                old_s@ == old_vars.s@, old_z@ == old_vars.z@, old_s@.len() == row_off(oc, kk), old_z@.len() == old_s@.len(), old_s@.len() <= usize::MAX,
                row_ranges@.len() == nc, forall|k: int| 0 <= k < nc ==> (#[trigger] row_ranges@[k]).start == row_off(ci.init_cones@, k) && row_ranges@[k].end == row_off(ci.init_cones@, k + 1),
                mm == row_off(ci.init_cones@, nc), mm <= usize::MAX, new_s@.len() == mm, new_z@.len() == mm, s00.len() == mm, z00.len() == mm,
                row_ptr == rptr(ci, cm, oc, r14_i1 as int),
                forall|r: int| 0 <= r < mm ==> #[trigger] new_s@[r] == rev_row_s(ci, cm, oc, old_s@, s00, r, r14_i1 as int),
                forall|r: int| 0 <= r < mm ==> #[trigger] new_z@[r] == rev_row_z(ci, cm, oc, old_z@, z00, r, r14_i1 as int),
//@body_start 1
                let ghost gi = r14_i1 as int;
                let ghost s1 = new_s@;
                let ghost z1 = new_z@;
                let ghost e = cm[gi];
                proof {
                    assert(ent_ok(ci, e, oc[gi]));
                    lemma_rptr(ci, oc, gi); lemma_rptr(ci, oc, gi + 1); lemma_row_off_mono(oc, gi + 1, kk);
                    lemma_row_off_mono(ci.init_cones@, e.orig_index + 1, nc); lemma_row_off_mono(ci.init_cones@, e.orig_index as int, e.orig_index + 1);
                    if e.tree_and_clique is Some {
                        let tc = e.tree_and_clique->0;
                        assert(pat_ok(ci, tc.0 as int));
                        lemma_clique_facts(ci.spatterns@[tc.0 as int], tc.1 as int);
                    }
                }
//@body_end 1
                proof {
                    if e.tree_and_clique is Some {
                        lemma_ent_blk(ci, e, rptr(ci, cm, oc, gi), s1, z1, new_s@, new_z@, old_s@, old_z@);
                    }
                    assert forall|r: int| 0 <= r < mm implies #[trigger] new_s@[r] == rev_row_s(ci, cm, oc, old_s@, s00, r, gi + 1) by {
                        assert(new_s@[r] == ent_s(ci, e, rptr(ci, cm, oc, gi), old_s@, r, s1[r]));
                    }
                    assert forall|r: int| 0 <= r < mm implies #[trigger] new_z@[r] == rev_row_z(ci, cm, oc, old_z@, z00, r, gi + 1) by {
                        assert(new_z@[r] == ent_z(ci, e, rptr(ci, cm, oc, gi), old_z@, r, z1[r]));
                    }
                }
//@end
}

// ================= the augmentation wrapper: decomp_augment_compact =================
impl CscMatrix<F> {
    pub open spec fn colptr_ok_u(&self) -> bool {
        &&& self.colptr@.len() == self.n + 1
        &&& self.colptr@[0] == 0
        &&& self.rowval@.len() == self.nzval@.len()
        &&& self.colptr@[self.n as int] == self.nzval@.len()
        &&& forall|a: int, b: int| 0 <= a <= b <= self.n ==> self.colptr@[a] <= self.colptr@[b]
    }
}
pub open spec fn zero_mat(Z: CscMatrix<F>, m: int, n: int) -> bool {
    Z.m == m && Z.n == n && Z.colptr@.len() == n + 1 && Z.rowval@.len() == 0 && Z.nzval@.len() == 0 && forall|c: int| 0 <= c <= n ==> #[trigger] Z.colptr@[c] == 0
}
// -- vocabulary of blockdiag, verbatim from unit csc_utils --
pub open spec fn bd_rs(ms: Seq<&CscMatrix<F>>, b: int) -> int decreases b { if b <= 0 { 0 } else { bd_rs(ms, b - 1) + ms[b - 1].m } }
pub open spec fn bd_cs(ms: Seq<&CscMatrix<F>>, b: int) -> int decreases b { if b <= 0 { 0 } else { bd_cs(ms, b - 1) + ms[b - 1].n } }
pub open spec fn bd_bs(ms: Seq<&CscMatrix<F>>, b: int) -> int decreases b { if b <= 0 { 0 } else { bd_bs(ms, b - 1) + ms[b - 1].rowval@.len() } }
pub open spec fn bd_blk_ok(M: CscMatrix<F>) -> bool { M.colptr_ok_u() && forall|k: int| 0 <= k < M.rowval@.len() ==> #[trigger] M.rowval@[k] < M.m }
pub open spec fn bd_pre(ms: Seq<&CscMatrix<F>>) -> bool {
    &&& forall|b: int| 0 <= b < ms.len() ==> bd_blk_ok(*#[trigger] ms[b])
    &&& bd_rs(ms, ms.len() as int) <= usize::MAX && bd_cs(ms, ms.len() as int) < usize::MAX && 2 * bd_bs(ms, ms.len() as int) <= usize::MAX
}
pub open spec fn bd_post(ms: Seq<&CscMatrix<F>>, R: CscMatrix<F>) -> bool {
    let nb = ms.len() as int;
    &&& R.m == bd_rs(ms, nb) && R.n == bd_cs(ms, nb) && R.colptr@.len() == R.n + 1 && R.rowval@.len() == bd_bs(ms, nb) && R.nzval@.len() == bd_bs(ms, nb)
    &&& forall|b: int, i: int| 0 <= b < nb && 0 <= i <= ms[b].n ==> #[trigger] R.colptr@[bd_cs(ms, b) + i] == bd_bs(ms, b) + ms[b].colptr@[i]
    &&& forall|b: int, j: int| 0 <= b < nb && 0 <= j < ms[b].rowval@.len() ==> #[trigger] R.rowval@[bd_bs(ms, b) + j] == ms[b].rowval@[j] + bd_rs(ms, b)
    &&& forall|b: int, j: int| 0 <= b < nb && 0 <= j < ms[b].rowval@.len() ==> #[trigger] R.nzval@[bd_bs(ms, b) + j] == ms[b].nzval@[j]
}
impl CscMatrix<F> {
    // ASSUMED here, PROVED in unit csc_utils (contract text of blockdiag there)
    #[verifier::external_body] pub fn blockdiag(mats: &[&Self]) -> (r: Result<Self, MatrixConcatenationError>)
        requires bd_pre(mats@),
        ensures mats@.len() == 0 <==> r is Err, r matches Ok(R) ==> bd_post(mats@, R),
    { unimplemented!() }
    // ASSUMED here, PROVED in unit chordal_augment (contract text of zeros there)
    #[verifier::external_body] pub fn zeros(size: (usize, usize)) -> (r: Self)
        requires size.1 < usize::MAX,
        ensures zero_mat(r, size.0 as int, size.1 as int),
    { unimplemented!() }
}
// P_new = blockdiag(P, 0_k): the arrays of P, followed by k empty columns (and k further rows)  (text of unit chordal_augment)
pub open spec fn padded_P(P: CscMatrix<F>, k: int, R: CscMatrix<F>) -> bool {
    &&& R.m == P.m + k && R.n == P.n + k && R.colptr@.len() == R.n + 1 && R.rowval@ == P.rowval@ && R.nzval@ == P.nzval@
    &&& forall|c: int| 0 <= c <= P.n ==> #[trigger] R.colptr@[c] == P.colptr@[c]
    &&& forall|c: int| P.n <= c <= P.n + k ==> #[trigger] R.colptr@[c] == P.rowval@.len()
}
pub open spec fn is_pair(ms: Seq<&CscMatrix<F>>, P: &CscMatrix<F>, k: int) -> bool { ms.len() == 2 && ms[0] == P && zero_mat(*ms[1], k, k) }
pub proof fn lemma_bd_pair(ms: Seq<&CscMatrix<F>>, P: &CscMatrix<F>, k: int)
    requires is_pair(ms, P, k), bd_blk_ok(*P), 0 <= k, P.m + k <= usize::MAX, P.n + k < usize::MAX, 2 * P.rowval@.len() <= usize::MAX,
    ensures bd_pre(ms), forall|R: CscMatrix<F>| #[trigger] bd_post(ms, R) ==> padded_P(*P, k, R),
{
    reveal_with_fuel(bd_rs, 3); reveal_with_fuel(bd_cs, 3); reveal_with_fuel(bd_bs, 3);
    assert forall|b: int| 0 <= b < ms.len() implies bd_blk_ok(*#[trigger] ms[b]) by { if b == 1 { assert(ms[1].colptr@[0] == 0 && ms[1].colptr@[k] == 0); } }
    assert forall|R: CscMatrix<F>| #[trigger] bd_post(ms, R) implies padded_P(*P, k, R) by {
        assert forall|c: int| 0 <= c <= P.n implies #[trigger] R.colptr@[c] == P.colptr@[c] by { assert(R.colptr@[bd_cs(ms, 0) + c] == bd_bs(ms, 0) + ms[0].colptr@[c]); }
        assert forall|c: int| P.n <= c <= P.n + k implies #[trigger] R.colptr@[c] == P.rowval@.len() by { assert(R.colptr@[bd_cs(ms, 1) + (c - P.n)] == bd_bs(ms, 1) + ms[1].colptr@[c - P.n]); }
        assert(R.rowval@ =~= P.rowval@) by { assert forall|j: int| 0 <= j < P.rowval@.len() implies R.rowval@[j] == P.rowval@[j] by { assert(R.rowval@[bd_bs(ms, 0) + j] == ms[0].rowval@[j] + bd_rs(ms, 0)); } }
        assert(R.nzval@ =~= P.nzval@) by { assert forall|j: int| 0 <= j < P.rowval@.len() implies R.nzval@[j] == P.nzval@[j] by { assert(R.nzval@[bd_bs(ms, 0) + j] == ms[0].nzval@[j]); } }
    }
}
pub open spec fn zeros_seq(k: int) -> Seq<F> { Seq::new(k as nat, |i: int| f_zero()) }
pub open spec fn cm_ovl(ci: ChordalInfo<F>) -> int { ovl_spec(ci, ci.init_cones@.len() as int) }
// the contract of find_compact_A_b_and_cones (unit chordal_compact2) except its size clause, carried as two uninterpreted predicates: the wrapper
// hands A_new, b_new, cones_new and the updated self through and uses nothing of them but A_new.n
pub uninterp spec fn fc_pre(ci: ChordalInfo<F>, A: CscMatrix<F>, b: Seq<F>) -> bool;
pub uninterp spec fn fc_post(ci0: ChordalInfo<F>, ci1: ChordalInfo<F>, A: CscMatrix<F>, b: Seq<F>, A_new: CscMatrix<F>, b_new: Seq<F>, cones_new: Seq<Cone>) -> bool;
pub type AugmentResult = (CscMatrix<F>, Vec<F>, CscMatrix<F>, Vec<F>, Vec<SupportedConeT<F>>);
impl ChordalInfo<F> {
    // ASSUMED here, PROVED in unit chordal_compact2 (size clause verbatim, the rest abbreviated as fc_pre / fc_post)
    #[verifier::external_body] fn find_compact_A_b_and_cones(&mut self, A: &CscMatrix<F>, b: &[F]) -> (res: (CscMatrix<F>, Vec<F>, Vec<SupportedConeT<F>>))
        requires fc_pre(*old(self), *A, b@),
        ensures res.0.n == A.n + cm_ovl(*old(self)), fc_post(*old(self), *final(self), *A, b@, res.0, res.1@, res.2@),
    { unimplemented!() }
//@fn file=src/solver/chordal/decomp/augment_compact.rs in="impl<T> ChordalInfo<T>" name=decomp_augment_compact rules=R1,R15:q_new ret=r
//@contract
    requires
        fc_pre(*old(self), *A, b@), cm_ovl(*old(self)) >= 0,
        // P as DefaultProblemData::new holds it: column pointers from 0, monotone, row indices inside the matrix (NOT validated for user data)
        bd_blk_ok(*P),
        // sizes of one problem
        P.m + cm_ovl(*old(self)) <= usize::MAX, P.n + cm_ovl(*old(self)) < usize::MAX, 2 * P.rowval@.len() <= usize::MAX, q@.len() + cm_ovl(*old(self)) <= usize::MAX,
    ensures
        // C18 (compact form): with k = number of overlap entries = number of added variables,
        //   P_new = blockdiag(P, 0_k), q_new = (q, 0_k); A_new, b_new, cones_new and self as find_compact_A_b_and_cones leaves them
        padded_P(*P, cm_ovl(*old(self)), r.0),
        r.1@ == q@ + zeros_seq(cm_ovl(*old(self))),
        r.2.n == A.n + cm_ovl(*old(self)),
        fc_post(*old(self), *final(self), *A, b@, r.2, r.3@, r.4@),
//@pre
    let ghost k = cm_ovl(*self);
    proof { assert(q@.len() == q.len()); }
//@before "let P_new ="
        proof {
            assert forall|ms: Seq<&CscMatrix<F>>| is_pair(ms, P, k) implies #[trigger] bd_pre(ms) by { lemma_bd_pair(ms, P, k); }
            assert forall|ms: Seq<&CscMatrix<F>>, R: CscMatrix<F>| is_pair(ms, P, k) && #[trigger] bd_post(ms, R) implies padded_P(*P, k, R) by { lemma_bd_pair(ms, P, k); }
        }
//@before "(P_new, q_new, A_new, b_new, cones_new)"
        proof { assert(q_new@ =~= q@ + zeros_seq(k)); }
//@end
}

} // verus!
fn main() {}
